/-
  C20 — hatch segments and dots lie exactly on the even-odd interior, at the set spacing.

  All statements are about the model of `crates/algorithms/src/hatching.rs` in
  `Model/Algo/Hatch.lean` — the very `def`s the correspondence check runs at `Float32` against
  `Hatcher::{hatch_path, dot_path}` — instantiated at an arbitrary linearly ordered field `K`.
  They hold for every edge list / event stream, every builder (any state type `σ`, any
  `add_segment` / `next_offset`), every fuel.

  Frame: `EventsBuilder` rotates the path by the angle (`rot c s`), `hatch` sweeps rows `y' = y`
  of that rotated frame and maps the end points back with `rot ci si` (`Rotation::new(-angle)`).
  `HSeg.xa`, `HSeg.xb` are the rotated-frame abscissae (`prev_x`, `x` of `hatch_line`) from
  which `position` and `u` are computed (`segment_fields`).

  What is *not* a theorem here: IEEE rounding (oracle, with a rounding allowance), the flattening
  of curved input (property C09; the oracle uses lyon's own flattening as the outline), and
  termination of the `while y < …` loops when `y + offset` rounds back to `y` (the model has
  fuel; the driver prints `fuel` if it runs out — never seen on generated inputs).

  History.  Two defects were found through this check and repaired in /repo; the model mirrors the
  repaired code and the former witnesses are kept here as comments:
  * 9b281594 `fix: Hatcher produces no output for a path without edges instead of panicking`.
    Before: `hatch` took `events.edges.first().unwrap()` unguarded; the model returned `none`
    (= panic) and `empty_path_panics_witness` proved `hatchPath o nan B fuel [] b0 = none` and
    `hatchPath … [.begin ⟨0,0⟩, .close] b0 = none` (`Path::new()`, `M 0 0 Z`; harness class
    `empty-path-unwrap`).  Now: `hatch_total`, `empty_path_no_output`.
  * 6b2eb1e7 `fix: HatchesToDots divides by the segment's u-extent instead of normalizing`.
    Before: `ab = (b.position − a.position).normalize()`; a segment with `a.u < b.u` whose ends
    round to one `f32` position gave `0/0` and dots at `(NaN, NaN)` (corpus/C20/dot-nan-position,
    class `zero-length-segment-normalize`; rounding only — the field theorem needed `sqrt` and
    `c² + s² = 1`).  Now: `dot_on_segment` needs neither, and `dot_position_between`.
-/
import LyonVerif.Model.Algo.Hatch
import LyonVerif.Lemmas.Field
import LyonVerif.Lemmas.Hatch

set_option linter.unusedSectionVars false
set_option linter.unusedVariables false
set_option linter.unusedSimpArgs false

namespace Lyon.C20
open Lyon Lyon.Hatch Scalar

variable {K : Type} [Field K] [LinearOrder K] [IsStrictOrderedRing K] [Transc K] {σ : Type}

/-! ### The event list -/

/-- `build` sorts: the edge list handed to `hatch` is ordered by `from.y`. -/
theorem events_sorted (c s : K) (evs : List (PEv K)) :
    (buildEvents c s evs).Pairwise (fun e f => e.a.y ≤ f.a.y) :=
  events_sorted_aux _

/-- `add_edge` orients every edge downward: `from.y ≤ to.y`. -/
theorem events_oriented (c s : K) (evs : List (PEv K)) :
    ∀ e ∈ buildEvents c s evs, e.a.y ≤ e.b.y := by
  have horient : ∀ a b : P K, (orient a b).a.y ≤ (orient a b).b.y := by
    intro a b
    unfold orient
    split
    · rename_i h
      have : cmpPos a b = .gt := by simpa using h
      unfold cmpPos at this
      split at this
      · rename_i h1; exact le_of_lt h1
      · split at this
        · contradiction
        · rename_i h1 h2
          exact not_lt.mp h1 |> fun h3 => le_of_eq (le_antisymm (not_lt.mp h2) h3)
    · rename_i h
      exact cmpPos_ne_gt_y (by simpa using h)
  have hadd : ∀ (l : List (Seg K)) (a b : P K), (∀ e ∈ l, e.a.y ≤ e.b.y) →
      ∀ e ∈ addEdge c s l a b, e.a.y ≤ e.b.y := by
    intro l a b hl e he
    unfold addEdge at he
    split at he
    · exact hl e he
    · rcases List.mem_append.mp he with h1 | h1
      · exact hl e h1
      · rw [List.mem_singleton] at h1; subst h1; exact horient _ _
  have hfold : ∀ (evs : List (PEv K)) (b : EB K), (∀ e ∈ b.edges, e.a.y ≤ e.b.y) →
      ∀ e ∈ (evs.foldl (EB.step c s) b).edges, e.a.y ≤ e.b.y := by
    intro evs
    induction evs with
    | nil => intro b hb; simpa using hb
    | cons ev evs ih =>
      intro b hb
      simp only [List.foldl_cons]
      apply ih
      cases ev with
      | begin p => simpa [EB.step] using hb
      | line p => exact hadd _ _ _ hb
      | close => exact hadd _ _ _ hb
  intro e he
  unfold buildEvents at he
  have he' := (isort_perm _ _).mem_iff.mp he
  exact hfold evs _ (by simp) e he'

/-! ### Rows: counted edges, even-odd intervals -/

/-- **active_is_spanning.**  When row `y` is hatched, the edges `hatch_line` counts (those of the
lazily pruned, sorted active list that it does not skip) are exactly — as a multiset — the edges
of the whole event list with `from.y ≤ y < to.y`: `update_sweep_line`'s `retain` never drops an
edge that still spans a later row, ended edges are skipped, and no edge that is not yet in the
list spans the row. -/
theorem active_is_spanning (cfg : Cfg K) (B : Builder σ K) (fuel : Nat) (edges : List (Seg K))
    (b0 : σ) (hsorted : edges.Pairwise (fun e f => e.a.y ≤ f.a.y)) (st : St σ K)
    (h : hatch cfg B fuel edges b0 = some st) (r : Row K) (hr : r ∈ st.rows) :
    (r.active.filter (fun e => !decide (e.b.y ≤ r.y))).Perm
      (edges.filter (fun e => decide (e.a.y ≤ r.y ∧ r.y < e.b.y))) :=
  (hatch_rows cfg B fuel edges b0 hsorted st h r hr).perm

/-- the same for `hatch_path`: the event list built from the path is sorted -/
theorem active_is_spanning_path (o : Options K) (nan : P K) (B : Builder σ K) (fuel : Nat)
    (evs : List (PEv K)) (b0 : σ) (st : St σ K)
    (h : hatchPath o nan B fuel evs b0 = some st) (r : Row K) (hr : r ∈ st.rows) :
    (r.active.filter (fun e => !decide (e.b.y ≤ r.y))).Perm
      ((buildEvents (Transc.cos o.angle) (Transc.sin o.angle) evs).filter
        (fun e => decide (e.a.y ≤ r.y ∧ r.y < e.b.y))) :=
  active_is_spanning _ B fuel _ b0 (events_sorted _ _ _) st h r hr

/-- the segments of a recorded row are what the `hatch_line` loop emits on the sorted active list,
which is sorted by `solve_x_for_y(y)` -/
theorem row_segments (cfg : Cfg K) (B : Builder σ K) (fuel : Nat) (edges : List (Seg K))
    (b0 : σ) (hsorted : edges.Pairwise (fun e f => e.a.y ≤ f.a.y)) (st : St σ K)
    (h : hatch cfg B fuel edges b0 = some st) (r : Row K) (hr : r ∈ st.rows) :
    r.segs = lineLoop cfg r.y r.idx r.active false cfg.nan.x cfg.nan ∧
    r.active.Pairwise (fun e f => solveX e r.y ≤ solveX f r.y) :=
  ⟨(hatch_rows cfg B fuel edges b0 hsorted st h r hr).segs_eq,
   (hatch_rows cfg B fuel edges b0 hsorted st h r hr).sorted⟩

/-- **row_is_evenodd** (exactly what the code does).  For a hatched row `y` and every abscissa
`x` that is not a crossing: `x` lies strictly inside an emitted segment iff an odd number of
spanning edges cross the row left of `x` *and* some spanning edge crosses it right of `x`
(an unpaired last crossing — possible only for an edge list that is not a union of closed
polylines — opens no segment). -/
theorem row_is_evenodd (cfg : Cfg K) (B : Builder σ K) (fuel : Nat) (edges : List (Seg K))
    (b0 : σ) (hsorted : edges.Pairwise (fun e f => e.a.y ≤ f.a.y)) (st : St σ K)
    (h : hatch cfg B fuel edges b0 = some st) (r : Row K) (hr : r ∈ st.rows) (x : K)
    (hx : ∀ e ∈ edges, e.a.y ≤ r.y → r.y < e.b.y → solveX e r.y ≠ x) :
    (∃ s ∈ r.segs, s.xa < x ∧ x < s.xb) ↔
      (crossingsLeft edges x r.y % 2 = 1 ∧
        ∃ e ∈ edges, e.a.y ≤ r.y ∧ r.y < e.b.y ∧ x < solveX e r.y) := by
  have hri := hatch_rows cfg B fuel edges b0 hsorted st h r hr
  obtain ⟨h1, h2, h3, _, h5⟩ := row_core cfg edges r hri x hx
  rw [hri.segs_eq, (lineLoop_intervals cfg r.y r.idx x r.active cfg.nan.x cfg.nan).1,
    inPairs_parity x _ h1 h2, h3, h5]

/-- **row_is_evenodd**, closed outlines.  When the row is crossed an even number of times (every
union of closed polylines: `closed_even_crossings`), `x` lies strictly inside an emitted segment
iff the even-odd crossing count at `(x, y)` is odd. -/
theorem row_is_evenodd_closed (cfg : Cfg K) (B : Builder σ K) (fuel : Nat) (edges : List (Seg K))
    (b0 : σ) (hsorted : edges.Pairwise (fun e f => e.a.y ≤ f.a.y)) (st : St σ K)
    (h : hatch cfg B fuel edges b0 = some st) (r : Row K) (hr : r ∈ st.rows) (x : K)
    (hx : ∀ e ∈ edges, e.a.y ≤ r.y → r.y < e.b.y → solveX e r.y ≠ x)
    (heven : spanCount edges r.y % 2 = 0) :
    (∃ s ∈ r.segs, s.xa < x ∧ x < s.xb) ↔ crossingsLeft edges x r.y % 2 = 1 := by
  have hri := hatch_rows cfg B fuel edges b0 hsorted st h r hr
  obtain ⟨h1, h2, h3, h4, _⟩ := row_core cfg edges r hri x hx
  rw [hri.segs_eq, (lineLoop_intervals cfg r.y r.idx x r.active cfg.nan.x cfg.nan).1,
    inPairs_parity_even x _ h1 h2 (by rw [h4]; exact heven), h3]

/-- **closed_even_crossings.**  The edge list built from a well-formed path (a sequence of closed
sub-paths `begin p₀, line_to p₁ … pₙ, end` — `end` always adds the closing edge) is crossed by
every row an even number of times, whatever the rotation: zero-length edges are dropped and each
remaining edge spans the row iff its two ends fall on different sides of it. -/
theorem closed_even_crossings (c s y : K) (sps : List (P K × List (P K))) :
    spanCount (buildEvents c s (pathEvents sps)) y % 2 = 0 :=
  closed_even c s y sps

/-- **row_is_evenodd** for `hatch_path` on a well-formed path: on every hatched row, a point that
is not on the outline lies strictly inside an emitted segment iff the even-odd crossing count of
the (rotated) outline at that point is odd. -/
theorem row_is_evenodd_path (o : Options K) (nan : P K) (B : Builder σ K) (fuel : Nat)
    (sps : List (P K × List (P K))) (b0 : σ) (st : St σ K)
    (h : hatchPath o nan B fuel (pathEvents sps) b0 = some st) (r : Row K) (hr : r ∈ st.rows) (x : K)
    (hx : ∀ e ∈ buildEvents (Transc.cos o.angle) (Transc.sin o.angle) (pathEvents sps),
      e.a.y ≤ r.y → r.y < e.b.y → solveX e r.y ≠ x) :
    (∃ s ∈ r.segs, s.xa < x ∧ x < s.xb) ↔
      crossingsLeft (buildEvents (Transc.cos o.angle) (Transc.sin o.angle) (pathEvents sps)) x r.y % 2 = 1 :=
  row_is_evenodd_closed _ B fuel _ b0 (events_sorted _ _ _) st h r hr x hx
    (closed_even_crossings _ _ _ sps)

/-- every emitted segment joins the crossings of two spanning edges of the event list, left end
first, and all its fields are the ones `hatch_line` computes from those two abscissae -/
theorem segment_ends (cfg : Cfg K) (B : Builder σ K) (fuel : Nat) (edges : List (Seg K))
    (b0 : σ) (hsorted : edges.Pairwise (fun e f => e.a.y ≤ f.a.y)) (st : St σ K)
    (h : hatch cfg B fuel edges b0 = some st) (r : Row K) (hr : r ∈ st.rows)
    (s : HSeg K) (hs : s ∈ r.segs) :
    (∃ e ∈ edges, e.a.y ≤ r.y ∧ r.y < e.b.y ∧ s.xa = solveX e r.y) ∧
    (∃ e ∈ edges, e.a.y ≤ r.y ∧ r.y < e.b.y ∧ s.xb = solveX e r.y) ∧
    s = mkSeg cfg r.y r.idx s.xa s.xb s.ta s.tb := by
  have hri := hatch_rows cfg B fuel edges b0 hsorted st h r hr
  rw [hri.segs_eq] at hs
  -- the loop starts outside: `lineLoop_ends` with `inside = false`; the `px` alternative is
  -- excluded because the first segment is emitted only after a crossing has been stored
  have key : ∀ c ∈ crossings r.y r.active, ∃ e ∈ edges, e.a.y ≤ r.y ∧ r.y < e.b.y ∧ c = solveX e r.y := by
    intro c hc
    unfold crossings at hc
    rw [List.mem_map] at hc
    obtain ⟨e, he, rfl⟩ := hc
    have := hri.perm.mem_iff.mp he
    rw [List.mem_filter] at this
    have hsp : e.a.y ≤ r.y ∧ r.y < e.b.y := by simpa [spansB] using this.2
    exact ⟨e, this.1, hsp.1, hsp.2, rfl⟩
  -- strengthen: from the outside state the left end is always a crossing
  have houtside : ∀ (l : List (Seg K)) (px : K) (pt : P K) (s : HSeg K),
      s ∈ lineLoop cfg r.y r.idx l false px pt → s.xa ∈ crossings r.y l := by
    intro l
    induction l with
    | nil => intro px pt s hs; simp [lineLoop] at hs
    | cons e es ih =>
      intro px pt s hs
      by_cases hsk : e.b.y ≤ r.y
      · have hc : crossings r.y (e :: es) = crossings r.y es := by simp [crossings, cnt, hsk]
        simp only [lineLoop, hsk, if_true] at hs
        rw [hc]; exact ih px pt s hs
      · have hc : crossings r.y (e :: es) = solveX e r.y :: crossings r.y es := by
          simp [crossings, cnt, hsk]
        simp only [lineLoop, hsk, if_false, Bool.false_eq_true] at hs
        rw [hc]
        rcases (lineLoop_ends cfg r.y r.idx es true _ _ s hs).1 with h1 | h1
        · rw [h1]; exact List.mem_cons_self ..
        · exact List.mem_cons_of_mem _ h1
  obtain ⟨_, h2, h3⟩ := lineLoop_ends cfg r.y r.idx r.active false _ _ s hs
  exact ⟨key _ (houtside _ _ _ s hs), key _ h2, h3⟩

/-- **segment_left_right.**  `a` is the left end point: for every emitted segment
`prev_x ≤ x`, hence `a.u ≤ b.u` (the active list is sorted by crossing abscissa when the
`inside` flag is toggled along it). -/
theorem segment_left_right (cfg : Cfg K) (B : Builder σ K) (fuel : Nat) (edges : List (Seg K))
    (b0 : σ) (hsorted : edges.Pairwise (fun e f => e.a.y ≤ f.a.y)) (st : St σ K)
    (h : hatch cfg B fuel edges b0 = some st) (r : Row K) (hr : r ∈ st.rows)
    (s : HSeg K) (hs : s ∈ r.segs) : s.xa ≤ s.xb ∧ s.ua ≤ s.ub := by
  have hri := hatch_rows cfg B fuel edges b0 hsorted st h r hr
  have hs' := hs
  rw [hri.segs_eq] at hs'
  have hx := lineLoop_ordered cfg r.y r.idx r.active false _ _ hri.sorted (fun hi => by simp at hi) s hs'
  have hm := (segment_ends cfg B fuel edges b0 hsorted st h r hr s hs).2.2
  refine ⟨hx, ?_⟩
  have h1 : s.ua = s.xa - cfg.uvo.x := by rw [hm]; rfl
  have h2 : s.ub = s.xb - cfg.uvo.x := by rw [hm]; rfl
  rw [h1, h2]
  exact sub_le_sub_right hx _

/-- **horizontal_edge_skipped.**  A horizontal edge has the finite sort key `from.x`
(`solve_t_for_y` returns 0 when `dy = 0`) and is never among the counted edges of any row, so it
never flips `inside`. -/
theorem horizontal_edge_skipped (cfg : Cfg K) (B : Builder σ K) (fuel : Nat) (edges : List (Seg K))
    (b0 : σ) (hsorted : edges.Pairwise (fun e f => e.a.y ≤ f.a.y)) (st : St σ K)
    (h : hatch cfg B fuel edges b0 = some st) (r : Row K) (hr : r ∈ st.rows) (e : Seg K)
    (hh : e.a.y = e.b.y) :
    solveX e r.y = e.a.x ∧ e ∉ r.active.filter (fun e => !decide (e.b.y ≤ r.y)) := by
  constructor
  · simp only [solveX, Seg.solveTForY, Seg.x, hh, sub_self]
    have : ((0:K) == (Scalar.zero : K)) = true := by
      rw [sc_beq]; simp
    simp only [this, if_true]
    show e.a.x * (Scalar.one - Scalar.zero) + e.b.x * Scalar.zero = e.a.x
    simp
  · intro hin
    have := (active_is_spanning cfg B fuel edges b0 hsorted st h r hr).mem_iff.mp hin
    rw [List.mem_filter] at this
    have hsp : e.a.y ≤ r.y ∧ r.y < e.b.y := by simpa using this.2
    rw [hh] at hsp
    exact absurd (lt_of_le_of_lt hsp.1 hsp.2) (lt_irrefl _)

/-! ### Rows: spacing and direction -/

/-- **rows_at_offsets.**  `st.offs` are the values `next_offset` returned (newest first; the call
for row `k` is made with argument `k`, the first one before any row), `st.rows` the hatched rows.
Row `k` lies at `first.from.y + offset₀ + … + offset_k`; rows are numbered 0,1,2,… with one
`next_offset` call after each; every offset after the first and before the newest is positive;
when the loop returned early the newest offset is the first non-positive one (the first offset,
`next_offset(0)`, is never tested). -/
theorem rows_at_offsets (cfg : Cfg K) (B : Builder σ K) (fuel : Nat) (e0 : Seg K)
    (es : List (Seg K)) (b0 : σ) (st : St σ K) (h : hatch cfg B fuel (e0 :: es) b0 = some st) :
    st.offs.length = st.rows.length + 1 ∧
    (∀ r ∈ st.rows, r.idx < st.rows.length ∧
      r.y = e0.a.y + (st.offs.drop (st.rows.length - r.idx)).sum) ∧
    (st.stop = false → ∀ o ∈ st.offs.dropLast, 0 < o) ∧
    (st.stop = true → (∀ o ∈ st.offs.tail.dropLast, 0 < o) ∧ ∀ o ∈ st.offs.head?, o ≤ 0) := by
  have hi := hatch_off cfg B fuel e0 es b0 st h
  refine ⟨by rw [hi.len, hi.nrows], ?_, hi.pos, fun hs => ⟨(hi.stopped hs).1, (hi.stopped hs).2.2⟩⟩
  intro r hr
  have := hi.rows r hr
  rw [hi.nrows]
  exact this

/-- … and the loop runs to the end: if `hatch` neither returned early (non-positive offset) nor
ran out of fuel, the position the next row would have is at or below the lower end of every edge
(`y ≥ y_max`), i.e. every row `first.from.y + Σ offsets` above `y_max` was hatched. -/
theorem rows_run_to_ymax (cfg : Cfg K) (B : Builder σ K) (fuel : Nat) (edges : List (Seg K))
    (b0 : σ) (st : St σ K) (h : hatch cfg B fuel edges b0 = some st)
    (hs : st.stop = false) (hf : st.fuelOut = false) : ∀ e ∈ edges, e.b.y ≤ st.y :=
  hatch_runs_to_ymax cfg B fuel edges b0 st h hs hf

/-- the fields of a `HatchSegment` in terms of the two rotated-frame abscissae -/
theorem segment_fields (cfg : Cfg K) (y : K) (row : Nat) (px x : K) (pt t : P K) :
    (mkSeg cfg y row px x pt t).pa = rot cfg.ci cfg.si ⟨px, y⟩ ∧
    (mkSeg cfg y row px x pt t).pb = rot cfg.ci cfg.si ⟨x, y⟩ ∧
    (mkSeg cfg y row px x pt t).ua = px - cfg.uvo.x ∧
    (mkSeg cfg y row px x pt t).ub = x - cfg.uvo.x ∧
    (mkSeg cfg y row px x pt t).v = y - cfg.uvo.y ∧
    (mkSeg cfg y row px x pt t).row = row := ⟨rfl, rfl, rfl, rfl, rfl, rfl⟩

/-- **row_perpendicular.**  With `(c, s)` the cosine / sine of the output rotation
(`Rotation::new(-angle)`, `c² + s² = 1`), both end points `(X, Y)` of every segment of the row
hatched at `y` satisfy `−s·X + c·Y = y`, and `c·X + s·Y` is the abscissa: the rows are parallel
lines with unit normal `(−s, c)`, i.e. perpendicular to the direction they are stacked in, and a
distance `y₂ − y₁` apart. -/
theorem row_perpendicular (cfg : Cfg K) (hcs : cfg.ci * cfg.ci + cfg.si * cfg.si = 1)
    (y : K) (row : Nat) (px x : K) (pt t : P K) :
    let sg := mkSeg cfg y row px x pt t
    (-cfg.si * sg.pa.x + cfg.ci * sg.pa.y = y) ∧ (-cfg.si * sg.pb.x + cfg.ci * sg.pb.y = y) ∧
    (cfg.ci * sg.pa.x + cfg.si * sg.pa.y = px) ∧ (cfg.ci * sg.pb.x + cfg.si * sg.pb.y = x) := by
  simp only [mkSeg, rot]
  refine ⟨?_, ?_, ?_, ?_⟩
  · linear_combination y * hcs
  · linear_combination y * hcs
  · linear_combination px * hcs
  · linear_combination x * hcs

/-- the output rotation undoes the rotation of the events (`cos(−a) = cos a`, `sin(−a) = −sin a`):
a point of the rotated frame is mapped back to the world point it came from -/
theorem rot_inverse (c s : K) (hcs : c * c + s * s = 1) (p : P K) :
    rot c (-s) (rot c s p) = p := by
  cases p with | mk x y =>
  simp only [rot, P.mk.injEq]
  constructor
  · linear_combination x * hcs
  · linear_combination y * hcs

/-! ### Dots -/

/-- **dots_in_segment.**  Every dot `HatchesToDots::add_segment` derives from a hatch segment lies
between the segment's ends in the `u` coordinate (`a.u ≤ u < b.u`), carries the segment's `v` and
row, and sits at `a.position + ((b.position − a.position) / (b.u − a.u)) · (u − a.u)`.
Hypotheses: the pattern's first column offset is non-negative, an alignment is positive, and
`fmod` has the sign / magnitude laws of C's `fmod`. -/
theorem dots_in_segment (hf : FmodLaws K) (pat : DotPat K) (fuel : Nat) (s : HSeg K) (col : Nat)
    (h0 : 0 ≤ pat.firstCol s.row) (hal : ∀ d ∈ pat.align s.row, 0 < d)
    (d : Dot K) (hd : d ∈ dotsOfSeg pat fuel s col) :
    s.ua ≤ d.u ∧ d.u < s.ub ∧ d.v = s.v ∧ d.row = s.row ∧ col ≤ d.col ∧
    d.pos = s.pa + ((s.pb - s.pa).sdiv (s.ub - s.ua)).smul (d.u - s.ua) := by
  unfold dotsOfSeg at hd
  obtain ⟨u, h1, h2, h3, h4, h5, h6, h7⟩ := dotLoop_mem pat s _ fuel col _ d hd
  have hu : 0 ≤ u := le_trans (alignU_nonneg hf _ _ _ h0 hal) h1
  refine ⟨?_, ?_, h5, h6, h7, ?_⟩
  · rw [h3]; exact le_add_of_nonneg_right hu
  · rw [h3]; exact h2
  · rw [h4, h3]
    have : s.ua + u - s.ua = u := by ring
    rw [this]

/-- **dot_position_between.**  The position of every dot is the convex combination
`a.position + t · (b.position − a.position)` of the segment's end points with
`t = (u − a.u)/(b.u − a.u)` and `0 ≤ t < 1`: the denominator is positive for every segment that
receives a dot, so no `0/0` can arise (what the former `normalize()` did on segments whose ends
round to one position). -/
theorem dot_position_between (hf : FmodLaws K) (pat : DotPat K) (fuel : Nat) (s : HSeg K) (col : Nat)
    (h0 : 0 ≤ pat.firstCol s.row) (hal : ∀ d ∈ pat.align s.row, 0 < d)
    (d : Dot K) (hd : d ∈ dotsOfSeg pat fuel s col) :
    0 < s.ub - s.ua ∧ 0 ≤ (d.u - s.ua) / (s.ub - s.ua) ∧ (d.u - s.ua) / (s.ub - s.ua) < 1 ∧
    d.pos = s.pa + (s.pb - s.pa).smul ((d.u - s.ua) / (s.ub - s.ua)) := by
  obtain ⟨h1, h2, _, _, _, h6⟩ := dots_in_segment hf pat fuel s col h0 hal d hd
  have hpos : 0 < s.ub - s.ua := by linarith
  have hne : s.ub - s.ua ≠ 0 := ne_of_gt hpos
  refine ⟨hpos, div_nonneg (by linarith) (le_of_lt hpos), (div_lt_one hpos).mpr (by linarith), ?_⟩
  rw [h6]
  apply P.ext' <;> simp only [P.sdiv, P.smul, P.add_def, P.sub_def] <;> field_simp

/-- **dot_on_segment.**  For a segment produced by `hatch_line` (`mkSeg`) that position is the
point of the row line whose rotated-frame abscissa `w` satisfies `prev_x ≤ w < x`: the dot lies on
the hatch segment, on the row, at `u = w − uv_origin'.x`.  (No hypothesis on the rotation or on
`sqrt`: `b.position − a.position = (x − prev_x)·(c, s)` and `b.u − a.u = x − prev_x`.) -/
theorem dot_on_segment (hf : FmodLaws K) (cfg : Cfg K)
    (y : K) (row : Nat) (px x : K) (pt t : P K)
    (pat : DotPat K) (fuel : Nat) (col : Nat)
    (h0 : 0 ≤ pat.firstCol row) (hal : ∀ d ∈ pat.align row, 0 < d)
    (d : Dot K) (hd : d ∈ dotsOfSeg pat fuel (mkSeg cfg y row px x pt t) col) :
    ∃ w, px ≤ w ∧ w < x ∧ d.pos = rot cfg.ci cfg.si ⟨w, y⟩ ∧ d.u = w - cfg.uvo.x := by
  obtain ⟨h1, h2, _, _, _, h6⟩ := dots_in_segment hf pat fuel _ col h0 hal d hd
  simp only [mkSeg] at h1 h2 h6
  refine ⟨d.u + cfg.uvo.x, by linarith, by linarith, ?_, by ring⟩
  have hlt : px < x := by linarith
  have hne : x - cfg.uvo.x - (px - cfg.uvo.x) ≠ 0 := by
    have : x - cfg.uvo.x - (px - cfg.uvo.x) = x - px := by ring
    rw [this]; exact ne_of_gt (sub_pos.mpr hlt)
  rw [h6]
  simp only [rot, P.sdiv, P.smul, P.add_def, P.sub_def]
  apply P.ext' <;> simp only <;> field_simp <;> ring

/-! ### Curved input -/

/-- **row_is_evenodd_curved.**  `hatch_path` on a well-formed path with quadratic / cubic
segments: the curves are replaced by the polyline `for_each_flattened_with_t` emits (model of
property C09, `Model/Geom/Flatten.lean`); the resulting stream is again a sequence of closed
sub-paths, so on every hatched row a point that is not on the flattened outline lies strictly
inside an emitted segment iff the even-odd crossing count of the (rotated) flattened outline at
that point is odd.  How far the flattened outline is from the curve is C09's statement. -/
theorem row_is_evenodd_curved [FlatConst K] (o : Options K) (tol : K) (nan : P K) (B : Builder σ K)
    (fuel : Nat) (csps : List (P K × List (CSeg K))) (b0 : σ) (st : St σ K)
    (h : hatchPathCurved o tol nan B fuel (cpathEvents csps) b0 = some st) :
    ∃ sps, flattenEvents tol (cpathEvents csps) ⟨Scalar.zero, Scalar.zero⟩ = some (pathEvents sps) ∧
      hatchPath o nan B fuel (pathEvents sps) b0 = some st ∧
      ∀ r ∈ st.rows, ∀ x : K,
        (∀ e ∈ buildEvents (Transc.cos o.angle) (Transc.sin o.angle) (pathEvents sps),
          e.a.y ≤ r.y → r.y < e.b.y → solveX e r.y ≠ x) →
        ((∃ s ∈ r.segs, s.xa < x ∧ x < s.xb) ↔
          crossingsLeft (buildEvents (Transc.cos o.angle) (Transc.sin o.angle) (pathEvents sps)) x r.y % 2 = 1) := by
  unfold hatchPathCurved at h
  split at h
  · simp at h
  · rename_i pe hpe
    obtain ⟨sps, rfl⟩ := flatten_closed tol csps _ pe hpe
    exact ⟨sps, hpe, h, fun r hr x hx => row_is_evenodd_path o nan B fuel sps b0 st h r hr x hx⟩

/-! ### The empty path -/

/-- **hatch_total.**  `hatch` returns for every edge list: the only partial operation,
`events.edges.first().unwrap()`, sits behind `if events.edges.is_empty() { return; }`
(model: `none` = the unwrap of `None`). -/
theorem hatch_total (cfg : Cfg K) (B : Builder σ K) (fuel : Nat) (edges : List (Seg K)) (b0 : σ) :
    (hatch cfg B fuel edges b0).isSome = true := by
  cases edges with
  | nil => rw [hatch_nil]; rfl
  | cons e0 es => rw [hatch_cons]; rfl

/-- **empty_path_no_output.**  On an edge list without edges `hatch` returns without a single
builder call: the builder state is the initial one, no offset was asked for, no row hatched.
An empty path and a path whose edges are all zero-length (`M 0 0 Z`) give such an edge list. -/
theorem empty_path_no_output (cfg : Cfg K) (B : Builder σ K) (fuel : Nat) (b0 : σ) :
    ∃ st, hatch cfg B fuel [] b0 = some st ∧ st.b = b0 ∧ st.offs = [] ∧ st.rows = [] :=
  ⟨emptySt b0, rfl, rfl, rfl, rfl⟩

/-- … through `hatch_path`, for the empty event stream and for a single-point sub-path -/
theorem empty_path_no_output_path (o : Options K) (nan : P K) (B : Builder σ K) (fuel : Nat) (b0 : σ) :
    hatchPath o nan B fuel [] b0 = some (emptySt b0) ∧
    hatchPath o nan B fuel [.begin ⟨0, 0⟩, .close] b0 = some (emptySt b0) := by
  constructor
  · rfl
  · have hbeq : ((⟨0, 0⟩ : P K) == (⟨0, 0⟩ : P K)) = true := by
      show P.beq _ _ = true
      simp [P.beq, sc_beq]
    simp [hatchPath, buildEvents, EB.step, addEdge, hbeq, isort, hatch_nil]

/-- conversely, the builder is called (at least `next_offset(0)`) whenever there is an edge -/
theorem nonempty_calls_builder (cfg : Cfg K) (B : Builder σ K) (fuel : Nat) (e0 : Seg K)
    (es : List (Seg K)) (b0 : σ) (st : St σ K) (h : hatch cfg B fuel (e0 :: es) b0 = some st) :
    st.offs ≠ [] := by
  have := (hatch_off cfg B fuel e0 es b0 st h).len
  intro hnil
  simp [hnil] at this

/-! ### Non-vacuity: concrete instances of the hypotheses (over `ℚ`)

`Transc ℚ` with a `fmod` that is exact on `[0, m)`; the other functions are not used by the
statements below. -/

section Examples

noncomputable instance exTransc : Transc ℚ :=
  { sqrt := id, cbrt := id, sin := id, cos := id, tan := id, acos := id, atan2 := fun a _ => a,
    pow := fun a _ => a, log2 := id, ln := id, floor := id, ceil := id, toNat := fun _ => 0,
    fmod := fun a m => if 0 ≤ a ∧ a < m then a else 0,
    eps := 0, pi := 3, isNaN := fun _ => false, isFinite := fun _ => true }

/-- the `fmod` laws used by the dot theorems are satisfiable -/
theorem exFmodLaws : FmodLaws ℚ := by
  intro a m hm
  show (0 ≤ a → 0 ≤ (if 0 ≤ a ∧ a < m then a else 0) ∧ (if 0 ≤ a ∧ a < m then a else 0) < m) ∧
    (a < 0 → -m < (if 0 ≤ a ∧ a < m then a else 0) ∧ (if 0 ≤ a ∧ a < m then a else 0) ≤ 0)
  constructor
  · intro ha
    by_cases h : a < m
    · simp [ha, h]
    · simp [h, hm]
  · intro ha
    have : ¬ (0 ≤ a ∧ a < m) := fun h => absurd h.1 (not_le.mpr ha)
    simp [this, hm]

/-- identity rotation (angle 0), tangents off -/
noncomputable def exCfg : Cfg ℚ := { ci := 1, si := 0, uvo := ⟨0, 0⟩, ct := false, nan := ⟨0, 0⟩ }
/-- the two vertical sides of the square (0,0)–(2,2) -/
noncomputable def exEdges : List (Seg ℚ) := [⟨⟨0, 0⟩, ⟨0, 2⟩⟩, ⟨⟨2, 0⟩, ⟨2, 2⟩⟩]

/-- hypotheses of `active_is_spanning`, `row_segments`, `row_is_evenodd(_closed)`, `segment_ends`,
`segment_left_right`, `horizontal_edge_skipped`, `rows_at_offsets`, `nonempty_calls_builder`: a sorted edge list on which `hatch` with a regular
pattern of interval 1 returns and records the row `y = 1`, whose single segment is `(0, 2)`; the
abscissa `x = 1` is not a crossing, is crossed-left once (odd) and lies inside the segment. -/
example : exEdges.Pairwise (fun e f => e.a.y ≤ f.a.y) ∧
    ∃ st, hatch exCfg (regularHatch (1:ℚ)) 2 exEdges [] = some st ∧ st.stop = false ∧
    ∃ r ∈ st.rows, r.y = 1 ∧
      (∀ e ∈ exEdges, e.a.y ≤ (1:ℚ) → (1:ℚ) < e.b.y → solveX e 1 ≠ 1) ∧
      spanCount exEdges (1:ℚ) % 2 = 0 ∧ crossingsLeft exEdges 1 (1:ℚ) % 2 = 1 ∧
      ∃ s ∈ r.segs, s.xa < 1 ∧ 1 < s.xb := by
  refine ⟨by norm_num [exEdges], _, rfl, ?_⟩
  have h1 : (Ordering.gt != Ordering.lt) = true := by decide
  norm_num [exEdges, exCfg, regularHatch, logHatch, hatch, finish, hatchEdges, rowsWhile, rowStep,
    initSt, sortActive, isort, insertBy, lineLoop, solveX, Seg.x, Seg.solveTForY, updateSweep,
    cmpPos, mkSeg, tangentOf, sc_beq, sc_max, spanCount, crossingsLeft, List.filter, h1]

/-- hypothesis `c² + s² = 1` of `row_perpendicular` / `rot_inverse`: the identity and a proper
rotation -/
example : exCfg.ci * exCfg.ci + exCfg.si * exCfg.si = 1 := by norm_num [exCfg]
example : ((3:ℚ)/5) * (3/5) + (4/5) * (4/5) = 1 := by norm_num

/-- hypotheses of `dots_in_segment` / `dot_position_between` / `dot_on_segment`: `RegularDotPattern` with column interval
1/2 on the segment `(0, 2)` of row `y = 1` yields (among others) a dot at `u = 1/2` -/
example : (0:ℚ) ≤ (regularDots (1/2 : ℚ) 1).firstCol 0 ∧
    (∀ d ∈ (regularDots (1/2 : ℚ) 1).align 0, (0:ℚ) < d) ∧
    ∃ d ∈ dotsOfSeg (regularDots (1/2 : ℚ) 1) 4 (mkSeg exCfg 1 0 0 2 ⟨0, 0⟩ ⟨0, 0⟩) 0, d.u = 1/2 := by
  refine ⟨by norm_num [regularDots], ?_, ?_⟩
  · intro d hd
    simp only [regularDots, Option.mem_def, Option.some.injEq] at hd
    rw [← hd]; norm_num
  · have hm : modulo (0:ℚ) (1/2) = 0 := by
      show (if (0:ℚ) ≤ 0 then (if (0:ℚ) ≤ 0 ∧ (0:ℚ) < 1/2 then (0:ℚ) else 0) else _) = 0
      norm_num
    norm_num [dotsOfSeg, dotLoop, regularDots, alignU, mkSeg, exCfg, hm, sc_beq]

/-- hypotheses of `closed_even_crossings` / `row_is_evenodd_path`: the unit square as a
well-formed path; its event list at angle 0 has four edges minus nothing, two of which span
`y = 1/2` -/
example : spanCount (buildEvents (1:ℚ) 0 (pathEvents [(⟨0, 0⟩, [⟨1, 0⟩, ⟨1, 1⟩, ⟨0, 1⟩])])) (1/2) = 2 := by
  have hb : ∀ a b c d : ℚ, ((⟨a, b⟩ : P ℚ) == (⟨c, d⟩ : P ℚ)) = (decide (a = c) && decide (b = d)) := by
    intro a b c d
    show P.beq _ _ = _
    simp only [P.beq]
    congr 1
  have h1 : (Ordering.gt == Ordering.gt) = true := by decide
  have h2 : (Ordering.lt == Ordering.gt) = false := by decide
  have h3 : (Ordering.eq == Ordering.gt) = false := by decide
  have h4 : (Ordering.lt == Ordering.lt) = true := by decide
  have h5 : (Ordering.gt == Ordering.lt) = false := by decide
  have h6 : (Ordering.eq == Ordering.lt) = false := by decide
  norm_num [spanCount, buildEvents, pathEvents, subpathEvents, EB.step, addEdge, orient, rot, cmpPos,
    isort, insertBy, ltFrom, hb, h1, h2, h3, h4, h5, h6, List.filter]

/-- hypothesis of `row_is_evenodd_curved`: on a well-formed stream whose flattening does not
panic (here: a triangle given with `line_to`s, any flattening constants) `hatch_path` returns -/
example [FlatConst ℚ] (o : Options ℚ) (B : Builder Unit ℚ) :
    ∃ st, hatchPathCurved o (1/10) ⟨0, 0⟩ B 3
      (cpathEvents [(⟨0, 0⟩, [.line ⟨4, 0⟩, .line ⟨0, 4⟩])]) () = some st := by
  have hf : flattenEvents (1/10 : ℚ) (cpathEvents [(⟨0, 0⟩, [.line ⟨4, 0⟩, .line ⟨0, 4⟩])])
      ⟨Scalar.zero, Scalar.zero⟩ = some (pathEvents [(⟨0, 0⟩, [⟨4, 0⟩, ⟨0, 4⟩])]) := by
    simp [cpathEvents, csubpathEvents, CSeg.toEv, flattenEvents, pathEvents, subpathEvents]
  unfold hatchPathCurved
  rw [hf]
  exact Option.isSome_iff_exists.mp (hatch_total _ B 3 _ ())

end Examples

end Lyon.C20
