/-
  C18 (growth) — curved paths and a geometric statement.

  * `hit_test_curved_is_flattened`  the hit test of a path WITH curves
                                (`Model/Algo/WindingCurves.lean`: bounding-range early-out, then
                                lyon_geom's callback flattening) is the polygonal hit test of the
                                flattened outline, provided the early-out is conservative
                                (`Conservative`: every flattened point of a curve lies inside the
                                curve's `fast_bounding_range_y`);
  * `winding_horizontal_const`  two points of one row with no edge crossing point between them
                                have the same winding number.
-/
import LyonVerif.Props.C18
import LyonVerif.Model.Algo.WindingCurves

set_option linter.unusedSectionVars false
set_option linter.unusedVariables false

namespace Lyon.C18
open Lyon Lyon.Winding

variable {K : Type} [Field K] [LinearOrder K] [IsStrictOrderedRing K]

/-- sum of the per-segment contributions (`windingAt_eq_sum`) -/
noncomputable def contrib (q : P K) (es : List (P K × P K)) : Int := (es.map (fun e => testSegment q e.1 e.2)).sum

theorem contrib_append (q : P K) (a b : List (P K × P K)) : contrib q (a ++ b) = contrib q a + contrib q b := by
  simp [contrib]

theorem windingAt_eq_contrib (q : P K) (es : List (P K × P K)) : windingAt q es = contrib q es :=
  windingAt_eq_sum q es

/-! ### Same row, no crossing in between -/

/-- the edge `a → b` does not cross the row of `q` at an abscissa in `(q.x, q'.x]` -/
def NoCrossBetween (q q' : P K) (a b : P K) : Prop :=
  ((a.y ≤ q.y ∧ q.y < b.y) ∨ (b.y ≤ q.y ∧ q.y < a.y)) →
    ¬ (q.x < xline a b q.y ∧ xline a b q.y ≤ q'.x)

theorem segSpec_row_const (q q' a b : P K) (hy : q.y = q'.y) (hx : q.x ≤ q'.x)
    (h : NoCrossBetween q q' a b) : segSpec q a b = segSpec q' a b := by
  unfold segSpec
  rw [← hy]
  have key : ((a.y ≤ q.y ∧ q.y < b.y) ∨ (b.y ≤ q.y ∧ q.y < a.y)) →
      (xline a b q.y ≤ q.x ↔ xline a b q.y ≤ q'.x) := by
    intro hs
    constructor
    · intro h1; exact le_trans h1 hx
    · intro h2
      by_contra h3
      exact h hs ⟨not_le.mp h3, h2⟩
  by_cases hu : a.y ≤ q.y ∧ q.y < b.y
  · have := key (Or.inl hu)
    simp only [hu, true_and, this]
  · by_cases hd : b.y ≤ q.y ∧ q.y < a.y
    · have := key (Or.inr hd)
      have hu' : ¬ (a.y ≤ q.y ∧ q.y < b.y ∧ xline a b q.y ≤ q.x) := fun h => hu ⟨h.1, h.2.1⟩
      have hu'' : ¬ (a.y ≤ q.y ∧ q.y < b.y ∧ xline a b q.y ≤ q'.x) := fun h => hu ⟨h.1, h.2.1⟩
      simp only [hu'', if_false, hd, true_and, this]
    · have hu' : ¬ (a.y ≤ q.y ∧ q.y < b.y ∧ xline a b q.y ≤ q.x) := fun h => hu ⟨h.1, h.2.1⟩
      have hu'' : ¬ (a.y ≤ q.y ∧ q.y < b.y ∧ xline a b q.y ≤ q'.x) := fun h => hu ⟨h.1, h.2.1⟩
      have hd' : ¬ (b.y ≤ q.y ∧ q.y < a.y ∧ xline a b q.y ≤ q.x) := fun h => hd ⟨h.1, h.2.1⟩
      have hd'' : ¬ (b.y ≤ q.y ∧ q.y < a.y ∧ xline a b q.y ≤ q'.x) := fun h => hd ⟨h.1, h.2.1⟩
      simp only [hu', hu'', hd', hd'', if_false]

/-- **The winding number is constant along a row between crossings**: two points of the same row
(`q` left of `q'`) such that no edge crosses the row at an abscissa in `(q.x, q'.x]` have equal
winding numbers — for any edge list (polygonal outline or flattened curved outline). -/
theorem winding_horizontal_const (q q' : P K) (es : List (P K × P K)) (hy : q.y = q'.y) (hx : q.x ≤ q'.x)
    (h : ∀ e ∈ es, NoCrossBetween q q' e.1 e.2) : windingAt q es = windingAt q' es := by
  rw [windingAt_eq_sum, windingAt_eq_sum]
  congr 1
  apply List.map_congr_left
  intro e he
  rw [testSegment_spec, testSegment_spec]
  exact segSpec_row_const q q' e.1 e.2 hy hx (h e he)

/-- non-vacuity: the unit square's edges, `q = (1/4, 1/2)`, `q' = (3/4, 1/2)` — both inside, no
crossing in `(1/4, 3/4]`; and the statement's conclusion is non-trivial there (winding −1). -/
example : ∀ e ∈ subEdges [(⟨0, 0⟩ : P ℚ), ⟨1, 0⟩, ⟨1, 1⟩, ⟨0, 1⟩],
    NoCrossBetween (⟨1/4, 1/2⟩ : P ℚ) ⟨3/4, 1/2⟩ e.1 e.2 := by
  intro e he
  simp only [subEdges, subEdgesFrom, List.mem_cons, List.not_mem_nil, or_false] at he
  rcases he with rfl | rfl | rfl | rfl <;> (unfold NoCrossBetween xline; norm_num)

/-! ### The curved hit test is the polygonal hit test of the flattened outline -/

section curved
variable [Transc K] [FlatConst K]

/-- `fast_bounding_range_y` of an event (for a `Line`, its own ordinate range — never consulted) -/
noncomputable def segRangeY (cur : P K) : CSeg K → K × K
  | .line t => (min cur.y t.y, max cur.y t.y)
  | .quad c t => quadFastRangeY (⟨cur, c, t⟩ : Quad K)
  | .cubic c1 c2 t => cubicFastRangeY (⟨cur, c1, c2, t⟩ : Cubic K)

/-- the early-out of one event is conservative: every end point of its flattening lies in the
event's `fast_bounding_range_y` (true in exact arithmetic whenever the flattening parameters stay
in `[0,1]`: a Bézier point is a convex combination of the control points) -/
def ConservativeSeg (tol : K) (cur : P K) (s : CSeg K) : Prop :=
  ∀ lf, segEdgesFlat tol cur s = some lf → ∀ e ∈ lf,
    ((segRangeY cur s).1 ≤ e.1.y ∧ e.1.y ≤ (segRangeY cur s).2) ∧
    ((segRangeY cur s).1 ≤ e.2.y ∧ e.2.y ≤ (segRangeY cur s).2)

def ConservativeSegs (tol : K) : P K → List (CSeg K) → Prop
  | _, [] => True
  | cur, s :: r => ConservativeSeg tol cur s ∧ ConservativeSegs tol s.to r

/-- hypothesis of `hit_test_curved_is_flattened` -/
def Conservative (tol : K) (path : List (CSub K)) : Prop :=
  ∀ s ∈ path, ConservativeSegs tol s.first s.segs

/-- a segment whose ordinates lie in `[lo, hi]` contributes nothing at a row outside `[lo, hi]` -/
theorem testSegment_outside_range (q a b : P K) (lo hi : K) (ha : lo ≤ a.y ∧ a.y ≤ hi) (hb : lo ≤ b.y ∧ b.y ≤ hi)
    (hq : q.y < lo ∨ hi < q.y) : testSegment q a b = 0 := by
  rw [testSegment_spec]; unfold segSpec
  have h1 : ¬ (a.y ≤ q.y ∧ q.y < b.y ∧ xline a b q.y ≤ q.x) := by
    rintro ⟨h1, h2, _⟩; rcases hq with h | h <;> linarith [ha.1, ha.2, hb.1, hb.2]
  have h2 : ¬ (b.y ≤ q.y ∧ q.y < a.y ∧ xline a b q.y ≤ q.x) := by
    rintro ⟨h1, h2, _⟩; rcases hq with h | h <;> linarith [ha.1, ha.2, hb.1, hb.2]
  simp only [h1, h2, if_false]

theorem contrib_zero_of_outside (q : P K) (lo hi : K) (hq : q.y < lo ∨ hi < q.y) (l : List (P K × P K))
    (h : ∀ e ∈ l, (lo ≤ e.1.y ∧ e.1.y ≤ hi) ∧ (lo ≤ e.2.y ∧ e.2.y ≤ hi)) : contrib q l = 0 := by
  induction l with
  | nil => rfl
  | cons e r ih =>
    have he := h e (List.mem_cons_self)
    have hr := ih (fun e' he' => h e' (List.mem_cons_of_mem _ he'))
    simp only [contrib, List.map_cons, List.sum_cons] at hr ⊢
    rw [hr, testSegment_outside_range q e.1 e.2 lo hi he.1 he.2 hq]; rfl

theorem skipRange_iff (q : P K) (r : K × K) : skipRange q r = true ↔ (q.y < r.1 ∨ r.2 < q.y) := by
  simp [skipRange]

/-- one event: the tested segments and the flattened segments contribute the same -/
theorem segEdges_contrib (q : P K) (tol : K) (cur : P K) (s : CSeg K) (hc : ConservativeSeg tol cur s)
    (lf : List (P K × P K)) (hf : segEdgesFlat tol cur s = some lf) :
    ∃ lc, segEdges q tol cur s = some lc ∧ contrib q lc = contrib q lf := by
  cases s with
  | line t => exact ⟨lf, hf, rfl⟩
  | quad c t =>
    by_cases hs : skipRange q (quadFastRangeY (⟨cur, c, t⟩ : Quad K)) = true
    · refine ⟨[], by simp [segEdges, hs], ?_⟩
      have := contrib_zero_of_outside q _ _ ((skipRange_iff q _).mp hs) lf (hc lf hf)
      rw [this]; rfl
    · refine ⟨lf, ?_, rfl⟩
      simp only [segEdges, hs]
      exact hf
  | cubic c1 c2 t =>
    by_cases hs : skipRange q (cubicFastRangeY (⟨cur, c1, c2, t⟩ : Cubic K)) = true
    · refine ⟨[], by simp [segEdges, hs], ?_⟩
      have := contrib_zero_of_outside q _ _ ((skipRange_iff q _).mp hs) lf (hc lf hf)
      rw [this]; rfl
    · refine ⟨lf, ?_, rfl⟩
      simp only [segEdges, hs]
      exact hf

theorem subEdges_contrib (q : P K) (tol : K) (first : P K) :
    ∀ (segs : List (CSeg K)) (cur : P K), ConservativeSegs tol cur segs →
      ∀ lf, subEdgesFlat tol first cur segs = some lf →
        ∃ lc, subEdgesC q tol first cur segs = some lc ∧ contrib q lc = contrib q lf := by
  intro segs
  induction segs with
  | nil => intro cur _ lf hf; exact ⟨lf, hf, rfl⟩
  | cons s r ih =>
    intro cur hc lf hf
    simp only [subEdgesFlat] at hf
    cases h1 : segEdgesFlat tol cur s with
    | none => simp [h1] at hf
    | some a =>
      cases h2 : subEdgesFlat tol first s.to r with
      | none => simp [h1, h2] at hf
      | some b =>
        simp only [h1, h2, Option.some.injEq] at hf
        obtain ⟨a', ha', hca⟩ := segEdges_contrib q tol cur s hc.1 a h1
        obtain ⟨b', hb', hcb⟩ := ih s.to hc.2 b h2
        refine ⟨a' ++ b', by simp [subEdgesC, ha', hb'], ?_⟩
        rw [← hf, contrib_append, contrib_append, hca, hcb]

theorem pathEdges_contrib (q : P K) (tol : K) :
    ∀ (path : List (CSub K)), Conservative tol path →
      ∀ lf, pathEdgesFlat tol path = some lf →
        ∃ lc, pathEdgesC q tol path = some lc ∧ contrib q lc = contrib q lf := by
  intro path
  induction path with
  | nil => intro _ lf hf; exact ⟨lf, hf, rfl⟩
  | cons s r ih =>
    intro hc lf hf
    simp only [pathEdgesFlat] at hf
    cases h1 : subEdgesFlat tol s.first s.first s.segs with
    | none => simp [h1] at hf
    | some a =>
      cases h2 : pathEdgesFlat tol r with
      | none => simp [h1, h2] at hf
      | some b =>
        simp only [h1, h2, Option.some.injEq] at hf
        obtain ⟨a', ha', hca⟩ := subEdges_contrib q tol s.first s.segs s.first (hc s List.mem_cons_self) a h1
        obtain ⟨b', hb', hcb⟩ := ih (fun s' hs' => hc s' (List.mem_cons_of_mem _ hs')) b h2
        refine ⟨a' ++ b', by simp [pathEdgesC, ha', hb'], ?_⟩
        rw [← hf, contrib_append, contrib_append, hca, hcb]

/-- **The curved hit test is the polygonal hit test of the flattened outline.**  Whenever the
flattening of the path does not panic and every curve's bounding-range early-out is conservative,
`path_winding_number_at_position` on the curved path returns the winding number of the flattened
outline, and so do both fill rules of `hit_test_path`: the early-out never changes the result. -/
theorem hit_test_curved_is_flattened (q : P K) (tol : K) (path : List (CSub K)) (hc : Conservative tol path)
    (lf : List (P K × P K)) (hf : pathEdgesFlat tol path = some lf) :
    windingAtC q tol path = some (windingAt q lf) ∧
    ∀ evenOdd, hitTestC evenOdd q tol path = hitTestFlat evenOdd q tol path := by
  obtain ⟨lc, hlc, hcc⟩ := pathEdges_contrib q tol path hc lf hf
  have hw : windingAtC q tol path = some (windingAt q lf) := by
    simp only [windingAtC, hlc, Option.map_some, windingAt_eq_contrib, hcc]
  refine ⟨hw, fun eo => ?_⟩
  simp only [hitTestC, hw, hitTestFlat, hf, Option.map_some]

/-- non-vacuity: a path without curve events is conservative (nothing is ever skipped) -/
example (tol : K) (a b c : P K) : Conservative tol [⟨a, [.line b, .line c]⟩] := by
  intro s hs
  simp only [List.mem_singleton] at hs
  subst hs
  refine ⟨?_, ?_, trivial⟩ <;>
  · intro lf hlf e he
    simp only [segEdgesFlat, Option.some.injEq] at hlf
    subst hlf
    simp only [List.mem_singleton] at he
    subst he
    simp [segRangeY]

end curved

end Lyon.C18
