/-
  C07c - the split-parameter gap of `Props/C07b.lean` DECIDED: it is a genuine defect of lyon, reachable end
  to end, on the real `FillTessellator` and in exact arithmetic on the complete sweep model.

  `Props/C07b.lean` proves the parameter-range clause for runs that take neither `split_edge` (coverage bit 5)
  nor the split of `merge_coincident_edges` (bit 7) and shows, on a hand-made STATE, that the tests of the code
  do not confine `Sources.splitT`.  Here:

  1. WITNESSES - complete runs of `tessellate` (the bit-exactly tied sweep model; exact rationals, evaluated by
     the kernel), default tolerance `0.1`, ordinary closed polygons:
     * `coincident_merge_parameter_beyond_end_witness`: two triangles sharing the apex `(0,0)`; the edges
       `(0,0) → (100, 1/64)` and `(0,0) → (128, 15/1024)` are merged as coincident (angle within `THRESHOLD`,
       end within half the tolerance of the other edge's line); the second ends EARLIER IN SWEEP ORDER
       (smaller y) but 28 further in x, so it is the "upper" edge and the first one is "split" at its end:
       the vertex `(128, 15/1024)` lists `Edge{0 → 1, t = 32/25}`.  The real tessellator reports `t = 1.28`
       (harness corpus `corpus-beyond-end-merge`).
     * `edge_split_parameter_beyond_end_witness`: the flat edge `B = (-10,-1) → (-1/100, 1/1000)` passes `0.02`
       left of the vertex `V = (0,0)`, which lies `0.01` beyond B's end in x; `is_edge_connecting` (second
       connecting edge: only `max_x + threshold ≥ x` is required) has B split at V with `t = 1000/999`; the
       sliver `V → B.to` is then crossed by another flat edge: that crossing lists
       `Edge{4 → 5, t = 1250375/1249749}` (real tessellator: `t = 1.0005009`, corpus `corpus-beyond-end-split`).
     Both violate C07's "going a fraction t along that input edge" (`t > 1`; the interpolated attributes are
     extrapolated): finding `C07-split-parameter-beyond-edge-end`, oracle class `beyond-edge-end`.
  2. WHAT HOLDS - `split_edge_parameter_bound`: for an edge accepted by `is_edge_connecting` that starts at or
     above the current vertex the parameter is in `[0,1]` when the edge is at least as steep as 45 degrees and
     within `threshold/|dx|` of `[0,1]` otherwise (`split_parameter_x_overshoot`); the witnesses show that the
     overshoot is real.
  3. THE PROPOSED REPAIR (`fixes/C07-split-parameter-beyond-edge-end.patch`, not applied) keeps every split
     parameter in `[0,1]`: `split_edge_fixed_parameter_unit` (fall back to the y-parameter, which is what the
     on-edge test compared, when the x-parameter leaves `[0,1]`; unchanged otherwise: `split_edge_fixed_agrees`)
     and `merge_guard_parameter_unit` (coincident edges are only merged when the end of the edge that ends
     first in sweep order does not reach beyond the other edge along the larger extent).

  NOT done (goal 2 of the task, see conf/C07.json): the POSITION clause lifted to the whole sweep.  The
  record-level statements stay where they were (`Props/C07.lean`: `rep_intersection`, `rep_touch`,
  `rep_coincident`, `rep_split_at_vertex`, `rep_history`).
-/
import LyonVerif.Lemmas.SweepPosSplit

set_option linter.unusedSectionVars false
set_option linter.unusedVariables false
set_option linter.unusedSimpArgs false

namespace Lyon.C07c
open Lyon Lyon.Scalar Lyon.Sweep Lyon.EQ Lyon.SweepRep Lyon.C07b Lyon.SweepPos

/-! ## 1. end-to-end witnesses (complete model runs, exact rationals, kernel-evaluated) -/

section witnesses
attribute [local instance 2000] Lyon.instScalarRat

def pr (x y : Rat) : P Rat := ⟨x, y⟩

/-- `(from_id, to_id, range.start, range.end)` of the records emitted by a run, vertex by vertex -/
def sources (out : Array (Emit Rat)) : List (List (Nat × Nat × Rat × Rat)) :=
  out.toList.filterMap fun e =>
    match e with
    | .vertex _ recs => some (recs.map fun r => (r.2.fromId, r.2.toId, r.2.t0, r.2.t1))
    | .tri _ _ _ => none

/-- the positions of the emitted vertices -/
def positions (out : Array (Emit Rat)) : List (Rat × Rat) :=
  out.toList.filterMap fun e =>
    match e with
    | .vertex p _ => some (p.x, p.y)
    | .tri _ _ _ => none

/-- two triangles sharing the apex `(0,0)` (ids `0 1 2` and `4 5 6`) -/
def mergeInput : List (SubPath Rat) :=
  [([pr 0 0, pr 100 (1/64), pr 50 (-30)], true), ([pr 0 0, pr 128 (15/1024), pr 70 40], true)]

/-- four triangles: edge A `0 → 1`, edge B `4 → 5`, the vertex V `8`, the crossing edge C `12 → 13` -/
def splitInput : List (SubPath Rat) :=
  [([pr (-12) (-1), pr (594/100) (1/2), pr (-12) 3], true),
   ([pr (-10) (-1), pr (-1/100) (1/1000), pr (-3) 5], true),
   ([pr 0 0, pr 3 (-4), pr 4 (-4)], true),
   ([pr (-5) (1/10000), pr 5 (9/10000), pr 0 8], true)]

/-- **`coincident_merge_parameter_beyond_end_witness`** - the complete modelled `FillTessellator`
(`tessellate_with_ids`, non-zero, vertical sweep, `FillOptions::tolerance = 1/10`, intersections handled, exact
rational arithmetic) on `mergeInput`: the run succeeds, takes the split branch of `merge_coincident_edges`
(bit 7), and the fourth emitted vertex - at `(128, 15/1024)`, the end of the second triangle's edge - lists, next
to its own endpoint record, the record `0 → 1` with `range.start = 32/25`: the source
`Edge{from: 0, to: 1, t = 1.28}`, a parameter outside `[0,1]` for the edge `(0,0) → (100, 1/64)`. -/
theorem coincident_merge_parameter_beyond_end_witness :
    let r := tessellate .ids .nonZero false (1/10 : Rat) true mergeInput
    r.1.isNone = true ∧ r.2.2.testBit 7 = true ∧
    (positions r.2.1)[3]? = some (128, 15/1024) ∧
    (sources r.2.1)[3]? = some [(5, 6, 0, 1), (0, 1, 32/25, 1)] := by
  refine ⟨by decide +kernel, by decide +kernel, by decide +kernel, by decide +kernel⟩

/-- **`edge_split_parameter_beyond_end_witness`** - the same on `splitInput`: the run succeeds, takes
`split_edge` (bit 5) and `process_intersection` (bit 8), and the eighth emitted vertex - the crossing of the
sliver `V → B.to` with the edge `12 → 13` - lists the record `4 → 5` with `range.start = 1250375/1249749 > 1`. -/
theorem edge_split_parameter_beyond_end_witness :
    let r := tessellate .ids .nonZero false (1/10 : Rat) true splitInput
    r.1.isNone = true ∧ r.2.2.testBit 5 = true ∧ r.2.2.testBit 8 = true ∧
    (sources r.2.1)[7]? = some [(4, 5, 1250375/1249749, 1), (12, 13, 4999/10008, 1)] := by
  refine ⟨by decide +kernel, by decide +kernel, by decide +kernel, by decide +kernel⟩

/-- both runs are `Tainted` in the sense of `Props/C07b.lean`: that is why `sweep_records_unit_partial` does not
apply to them - and the two theorems above show that its conclusion fails on them -/
theorem witness_runs_tainted :
    Tainted (tessellate .ids .nonZero false (1/10 : Rat) true mergeInput).2.2 ∧
    Tainted (tessellate .ids .nonZero false (1/10 : Rat) true splitInput).2.2 :=
  ⟨Or.inr (by decide +kernel), Or.inl (by decide +kernel)⟩

end witnesses

/-! ## 2. what the code does confine; 3. the repair -/

section field
variable {K : Type} [Field K] [LinearOrder K] [IsStrictOrderedRing K]

/-- **`split_parameter_x_overshoot`**: for an edge flatter than 45 degrees (the split point is located along
x), a point whose x lies between the smaller x of the edge and `thr` beyond the larger one has its split
parameter in `[-thr/|dx|, 1 + thr/|dx|]` -/
theorem split_parameter_x_overshoot (a b c : P K) (thr : K) (h : |b.y - a.y| < |b.x - a.x|)
    (hmin : Min.min a.x b.x ≤ c.x) (hmax : c.x ≤ Max.max a.x b.x + thr) (hthr : 0 ≤ thr) :
    -(thr / |b.x - a.x|) ≤ Sources.splitT a b c ∧ Sources.splitT a b c ≤ 1 + thr / |b.x - a.x| :=
  splitT_x_overshoot a b c thr h hmin hmax hthr

/-- **`split_edge_parameter_bound`** - the parameter `split_edge` computes for an edge that `is_edge_connecting`
pushed to `edges_to_split`, when the edge is not degenerate and starts at or above the current vertex: in
`[0,1]` if the edge is at least as steep as 45 degrees; within `threshold/|dx|` of `[0,1]` otherwise, where
`threshold = max(tolerance/2, |x|·2·EPSILON)`.  (`is_edge_connecting` itself gives `y ≤ to.y` and
`min_x ≤ x ≤ max_x + threshold`: `isEdgeConnecting_split_facts`.) -/
theorem split_edge_parameter_bound [w : Wide K] (cur : P K) (tol : K) (e : ActiveEdge K) (c : Bool)
    (h : isEdgeConnecting cur tol e = .ok (c, true)) (hne : e.from_ ≠ e.to) (hfrom : e.from_.y ≤ cur.y)
    (hthr : 0 ≤ onEdgeThreshold tol cur.x) :
    (¬ |e.to.y - e.from_.y| < |e.to.x - e.from_.x| →
      0 ≤ Sources.splitT e.from_ e.to cur ∧ Sources.splitT e.from_ e.to cur ≤ 1) ∧
    (|e.to.y - e.from_.y| < |e.to.x - e.from_.x| →
      -(onEdgeThreshold tol cur.x / |e.to.x - e.from_.x|) ≤ Sources.splitT e.from_ e.to cur ∧
      Sources.splitT e.from_ e.to cur ≤ 1 + onEdgeThreshold tol cur.x / |e.to.x - e.from_.x|) :=
  splitEdge_parameter_bound cur tol e c h hne hfrom hthr

/-- **`split_edge_fixed_parameter_unit`** - the parameter of the PATCHED `split_edge` (`splitTFixed`) is in
`[0,1]` for every non-degenerate edge that spans the current vertex in sweep order, wherever the vertex is in x -/
theorem split_edge_fixed_parameter_unit (a b c : P K) (hne : a ≠ b) (hya : a.y ≤ c.y) (hyb : c.y ≤ b.y) :
    0 ≤ splitTFixed a b c ∧ splitTFixed a b c ≤ 1 := splitTFixed_unit a b c hne hya hyb

/-- the patch changes nothing where the present parameter is in `[0,1]` -/
theorem split_edge_fixed_agrees (a b c : P K) (h : 0 ≤ Sources.splitT a b c ∧ Sources.splitT a b c ≤ 1) :
    splitTFixed a b c = Sources.splitT a b c := splitTFixed_eq a b c h

/-- **`merge_guard_parameter_unit`** - under the guard the patch adds to `handle_coincident_edges_below`
(`endsWithin (long_to - from) (short_to - from)`) the split parameter of `merge_coincident_edges` is in `[0,1]` -/
theorem merge_guard_parameter_unit (cur long short : P K) (hne : cur ≠ long)
    (hg : endsWithin (long - cur) (short - cur)) (hy0 : cur.y ≤ short.y) (hy1 : short.y ≤ long.y) :
    0 ≤ Sources.splitT cur long short ∧ Sources.splitT cur long short ≤ 1 :=
  merge_guard_unit cur long short hne hg hy0 hy1

/-- with a parameter in `[0,1]` the record keeps the range discipline of `Props/C07b.lean`
(`split_records_range`): the patched branches would no longer taint a run -/
theorem fixed_split_record_range (lo hi s e : K) (a b c : P K) (hne : a ≠ b) (hya : a.y ≤ c.y) (hyb : c.y ≤ b.y)
    (hs : lo ≤ s ∧ s ≤ hi) (he : lo ≤ e ∧ e ≤ hi) :
    lo ≤ Sources.remapT (splitTFixed a b c) s e ∧ Sources.remapT (splitTFixed a b c) s e ≤ hi :=
  C07b.split_records_range lo hi _ s e (splitTFixed_unit a b c hne hya hyb) hs he

end field

/-! ### non-vacuity of 2. and 3. (the numbers of the two witnesses, over `ℚ` as an ordered field) -/

section examples
attribute [local instance 3000] Lyon.fieldScalar

/-- the hypotheses of `split_parameter_x_overshoot` / `splitT_bound` hold for the edge B and the vertex V of
`splitInput` with the threshold `1/20`, and the parameter is `1000/999`: above `1`, below the bound
`1 + (1/20)/(999/100)` -/
example :
    let a : P ℚ := ⟨-10, -1⟩
    let b : P ℚ := ⟨-1/100, 1/1000⟩
    let c : P ℚ := ⟨0, 0⟩
    |b.y - a.y| < |b.x - a.x| ∧ Min.min a.x b.x ≤ c.x ∧ c.x ≤ Max.max a.x b.x + 1/20 ∧ a.y ≤ c.y ∧ c.y ≤ b.y ∧
    Sources.splitT a b c = 1000/999 := by
  refine ⟨by norm_num [abs_of_pos], by norm_num, by norm_num, by norm_num, by norm_num, ?_⟩
  rw [splitT_x _ _ _ (by norm_num [abs_of_pos])]
  norm_num

/-- ... and the patched parameter for the same data is the y-parameter `1000/1001` -/
example : splitTFixed (⟨-10, -1⟩ : P ℚ) ⟨-1/100, 1/1000⟩ ⟨0, 0⟩ = 1000/1001 := by
  have hb : |(1/1000 : ℚ) - (-1)| < |(-1/100 : ℚ) - (-10)| := by norm_num [abs_of_pos]
  unfold splitTFixed
  rw [if_pos hb, solveTForX_eq _ _ _ (by norm_num), solveTForY_eq _ _ _ (by norm_num)]
  norm_num

/-- the guard rejects the merge of `mergeInput` (the end `(128, 15/1024)` reaches beyond `(100, 1/64)` in x) and
accepts an ordinary pair of coincident edges -/
example : ¬ endsWithin ((⟨100, 1/64⟩ : P ℚ) - ⟨0, 0⟩) ((⟨128, 15/1024⟩ : P ℚ) - ⟨0, 0⟩) := by
  intro h
  rcases h with h | ⟨_, h⟩
  · have h' : |(100 : ℚ) - 0| ≤ |(1/64 : ℚ) - 0| := h
    norm_num [abs_of_pos] at h'
  · have h' : |(128 : ℚ) - 0| ≤ |(100 : ℚ) - 0| := h
    norm_num [abs_of_pos] at h'

example : endsWithin ((⟨100, 1/64⟩ : P ℚ) - ⟨0, 0⟩) ((⟨64, 1/100⟩ : P ℚ) - ⟨0, 0⟩) ∧
    (0 : ℚ) ≤ 1/100 ∧ (1/100 : ℚ) ≤ 1/64 ∧ (⟨0, 0⟩ : P ℚ) ≠ ⟨100, 1/64⟩ := by
  refine ⟨Or.inr ⟨?_, ?_⟩, by norm_num, by norm_num, ?_⟩
  · show (0 : ℚ) ≤ (64 - 0) * (100 - 0)
    norm_num
  · show |(64 : ℚ) - 0| ≤ |(100 : ℚ) - 0|
    norm_num [abs_of_pos]
  · intro h
    have := congrArg P.x h
    norm_num at this

end examples

end Lyon.C07c
