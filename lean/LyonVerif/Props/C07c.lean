/-
  C07c - the split-parameter gap of `Props/C07b.lean` DECIDED (it was a genuine defect of lyon, reachable end to
  end) and, since lyon 96af7b62 (mirrored in the model), REPAIRED.

  `Props/C07b.lean` proves the parameter-range clause for runs that take neither `split_edge` (coverage bit 5)
  nor the split of `merge_coincident_edges` (bit 7) and shows, on a hand-made STATE, that the tests of the code
  did not confine `Sources.splitT`.  This file:

  1. THE TWO END-TO-END WITNESSES of finding `C07-split-parameter-beyond-edge-end` (ordinary closed polygons,
     default tolerance `0.1`; before the fix the real tessellator and the complete sweep model in exact rational
     arithmetic agreed on them), now as REPAIRED statements - complete runs of `tessellate` evaluated by the kernel:
     * `coincident_merge_parameter_beyond_end_witness`: two triangles sharing the apex `(0,0)`; the edges
       `(0,0) → (100, 1/64)` and `(0,0) → (128, 15/1024)` pass the angle and distance tests of
       `handle_coincident_edges_below`; the second ends EARLIER IN SWEEP ORDER but 28 further in x.  Before the
       fix they were merged and the first one "split" at `Sources.splitT = 32/25`: the vertex `(128, 15/1024)`
       listed `Edge{0 → 1, t = 1.28}`.  Now the guard `endsWithin` rejects the merge (bit 7 is not set), the
       vertex lists its own endpoint only, and every emitted parameter of the run is in `[0,1]`.
     * `edge_split_parameter_beyond_end_witness`: the flat edge `B = (-10,-1) → (-1/100, 1/1000)` passes `0.02`
       left of the vertex `V = (0,0)`, which lies `0.01` beyond B's end in x, and is split there.  Before the fix
       with `Sources.splitT = 1000/999`, so that the crossing of the sliver `V → B.to` with another edge listed
       `Edge{4 → 5, t = 1250375/1249749}`; now with `Sources.splitTAtVertex = 1000/1001` (the parameter at V's
       own y), the crossing lists `t = 1251625/1252251`, and every emitted parameter of the run is in `[0,1]`.
  2. WHAT THE TESTS OF THE CODE CONFINE - `split_edge_parameter_bound`: for an edge accepted by
     `is_edge_connecting` that starts at or above the current vertex, the x-parameter `Sources.splitT` is within
     `threshold/|dx|` of `[0,1]` (`split_parameter_x_overshoot`), not inside: why the fix was needed.
  3. THE REPAIR, about the model's own definitions (`Sources.splitTAtVertex`, used by `Sweep.splitEdge`; the
     Boolean `endsWithin` of `Sweep.handleCoincidentEdgesBelow`, `SweepPos.endsWithin_iff_model`):
     `split_edge_flat_parameter_unit` (edges flatter than 45 degrees: in `[0,1]` unconditionally),
     `split_edge_fixed_parameter_unit` (all edges that span the current vertex in sweep order),
     `split_edge_fixed_agrees` (unchanged where the former parameter was in `[0,1]`),
     `merge_guard_parameter_unit` (under the guard the split parameter of `merge_coincident_edges` is in `[0,1]`),
     `fixed_split_record_range`.

  NOT done: (a) the `Tainted` restriction of `Props/C07b.lean`'s range theorems is NOT dropped.  What is missing
  is no longer a property of the split functions but a sweep invariant: on the y-branch `splitTAtVertex` and the
  guarded `splitT` are in `[0,1]` iff the split point lies between the ends of the edge in y, i.e. "every active
  edge has `from.y ≤ cur.y ≤ to.y`" and "every pending edge ends below the current vertex and the upper of two
  merged ends is not below the lower one" - true of the sweep (an active edge starts at an earlier event and is
  removed at its end; `compare_positions` orders the two ends) but not proved as an invariant preserved by every
  step function.  (b) the POSITION clause lifted to the whole sweep (record-level statements: `Props/C07.lean`).
-/
import LyonVerif.Lemmas.SweepPosSplit

set_option linter.unusedSectionVars false
set_option linter.unusedVariables false
set_option linter.unusedSimpArgs false

namespace Lyon.C07c
open Lyon Lyon.Scalar Lyon.Sweep Lyon.EQ Lyon.SweepRep Lyon.C07b Lyon.SweepPos

/-! ## 1. end-to-end witnesses (complete model runs, exact rationals, kernel-evaluated) -/

section witnesses
attribute [local instance 2000] Lyon.instScalarRat

def pr (x y : Rat) : P Rat := ⟨x, y⟩

/-- `(from_id, to_id, range.start, range.end)` of the records emitted by a run, vertex by vertex -/
def sources (out : Array (Emit Rat)) : List (List (Nat × Nat × Rat × Rat)) :=
  out.toList.filterMap fun e =>
    match e with
    | .vertex _ recs => some (recs.map fun r => (r.2.fromId, r.2.toId, r.2.t0, r.2.t1))
    | .tri _ _ _ => none

/-- the positions of the emitted vertices -/
def positions (out : Array (Emit Rat)) : List (Rat × Rat) :=
  out.toList.filterMap fun e =>
    match e with
    | .vertex p _ => some (p.x, p.y)
    | .tri _ _ _ => none

/-- two triangles sharing the apex `(0,0)` (ids `0 1 2` and `4 5 6`) -/
def mergeInput : List (SubPath Rat) :=
  [([pr 0 0, pr 100 (1/64), pr 50 (-30)], true), ([pr 0 0, pr 128 (15/1024), pr 70 40], true)]

/-- four triangles: edge A `0 → 1`, edge B `4 → 5`, the vertex V `8`, the crossing edge C `12 → 13` -/
def splitInput : List (SubPath Rat) :=
  [([pr (-12) (-1), pr (594/100) (1/2), pr (-12) 3], true),
   ([pr (-10) (-1), pr (-1/100) (1/1000), pr (-3) 5], true),
   ([pr 0 0, pr 3 (-4), pr 4 (-4)], true),
   ([pr (-5) (1/10000), pr 5 (9/10000), pr 0 8], true)]

/-- every `range.start` / `range.end` of every record emitted by a run is in `[0,1]` -/
def allUnit (out : Array (Emit Rat)) : Bool :=
  (sources out).all fun v => v.all fun r => decide (0 ≤ r.2.2.1) && decide (r.2.2.1 ≤ 1) && decide (0 ≤ r.2.2.2) && decide (r.2.2.2 ≤ 1)

/-- **`coincident_merge_parameter_beyond_end_witness`** (finding `C07-split-parameter-beyond-edge-end`, part a;
REPAIRED by lyon 96af7b62).  The data of the witness: `Sources.splitT`, the parameter `merge_coincident_edges`
computes, is `32/25` for the end `(128, 15/1024)` on the edge `(0,0) → (100, 1/64)` - that is what the vertex
there listed before the fix (`Edge{0 → 1, t = 1.28}`, model and real tessellator).  The complete modelled
`FillTessellator` (`tessellate_with_ids`, non-zero, vertical sweep, tolerance `1/10`, exact rationals) on
`mergeInput` NOW: the run succeeds, does NOT take the split branch of `merge_coincident_edges` (bit 7), the vertex
at `(128, 15/1024)` lists its endpoint record `5 → 6` only, and every emitted parameter is in `[0,1]`. -/
theorem coincident_merge_parameter_beyond_end_witness :
    Sources.splitT (pr 0 0) (pr 100 (1/64)) (pr 128 (15/1024)) = 32/25 ∧
    (let r := tessellate .ids .nonZero false (1/10 : Rat) true mergeInput
     r.1.isNone = true ∧ r.2.2.testBit 7 = false ∧
     (positions r.2.1)[3]? = some (128, 15/1024) ∧
     (sources r.2.1)[3]? = some [(5, 6, 0, 1)] ∧ allUnit r.2.1 = true) := by
  refine ⟨by decide +kernel, by decide +kernel, by decide +kernel, by decide +kernel, by decide +kernel, by decide +kernel⟩

/-- **`edge_split_parameter_beyond_end_witness`** (part b; REPAIRED).  For the edge `B` and the vertex `V` the
x-parameter `Sources.splitT` is `1000/999` (what `split_edge` stored before the fix: the crossing of the sliver
then listed `t = 1250375/1249749`), the repaired `Sources.splitTAtVertex` is `1000/1001`.  The complete run on
`splitInput` NOW: succeeds, takes `split_edge` (bit 5) and `process_intersection` (bit 8), the eighth emitted
vertex - the crossing of the sliver `V → B.to` with the edge `12 → 13` - lists the record `4 → 5` with
`range.start = 1251625/1252251 < 1`, and every emitted parameter is in `[0,1]`. -/
theorem edge_split_parameter_beyond_end_witness :
    Sources.splitT (pr (-10) (-1)) (pr (-1/100) (1/1000)) (pr 0 0) = 1000/999 ∧
    Sources.splitTAtVertex (pr (-10) (-1)) (pr (-1/100) (1/1000)) (pr 0 0) = 1000/1001 ∧
    (let r := tessellate .ids .nonZero false (1/10 : Rat) true splitInput
     r.1.isNone = true ∧ r.2.2.testBit 5 = true ∧ r.2.2.testBit 8 = true ∧
     (sources r.2.1)[7]? = some [(4, 5, 1251625/1252251, 1), (12, 13, 4999/10008, 1)] ∧ allUnit r.2.1 = true) := by
  refine ⟨by decide +kernel, by decide +kernel, by decide +kernel, by decide +kernel, by decide +kernel,
    by decide +kernel, by decide +kernel⟩

/-- the merge input no longer taints its run (so `sweep_records_unit_partial` applies to it, see the example
below); the split input still takes `split_edge` and is `Tainted` in the sense of `Props/C07b.lean` - its
parameters are in `[0,1]` by evaluation (above), not by `sweep_records_unit_partial` -/
theorem witness_runs_tainted :
    ¬ Tainted (tessellate .ids .nonZero false (1/10 : Rat) true mergeInput).2.2 ∧
    Tainted (tessellate .ids .nonZero false (1/10 : Rat) true splitInput).2.2 := by
  refine ⟨?_, Or.inl (by decide +kernel)⟩
  intro h
  rcases h with h | h <;> revert h <;> decide +kernel

/-- `sweep_records_range_partial` applied to the repaired merge run (hypotheses discharged) -/
example (d : EdgeData Rat)
    (hd : Emitted (tessellate .ids .nonZero false (1/10 : Rat) true mergeInput).2.1 d) :
    (0 ≤ d.t0 ∧ d.t0 ≤ 1) ∧ (0 ≤ d.t1 ∧ d.t1 ≤ 1) := by
  refine sweep_records_range_partial (fun t : Rat => 0 ≤ t ∧ t ≤ 1) (fun v : Rat => 0 ≤ v ∧ v ≤ 1) (fun w : Rat => w ≤ 1)
    closure_rat wclosure_rat ?_ ?_ _ _ _ _ _ _ d hd witness_runs_tainted.1
  · show (0 : Rat) ≤ ((0 : Nat) : Rat) ∧ ((0 : Nat) : Rat) ≤ 1
    simp
  · show (0 : Rat) ≤ ((1 : Nat) : Rat) ∧ ((1 : Nat) : Rat) ≤ 1
    simp

end witnesses

/-! ## 2. what the tests of the code confine; 3. the repair -/

section field
variable {K : Type} [Field K] [LinearOrder K] [IsStrictOrderedRing K]

/-- **`split_parameter_x_overshoot`**: for an edge flatter than 45 degrees (the split point is located along
x), a point whose x lies between the smaller x of the edge and `thr` beyond the larger one has its split
parameter in `[-thr/|dx|, 1 + thr/|dx|]` -/
theorem split_parameter_x_overshoot (a b c : P K) (thr : K) (h : |b.y - a.y| < |b.x - a.x|)
    (hmin : Min.min a.x b.x ≤ c.x) (hmax : c.x ≤ Max.max a.x b.x + thr) (hthr : 0 ≤ thr) :
    -(thr / |b.x - a.x|) ≤ Sources.splitT a b c ∧ Sources.splitT a b c ≤ 1 + thr / |b.x - a.x| :=
  splitT_x_overshoot a b c thr h hmin hmax hthr

/-- **`split_edge_parameter_bound`** - the parameter `split_edge` computes for an edge that `is_edge_connecting`
pushed to `edges_to_split`, when the edge is not degenerate and starts at or above the current vertex: in
`[0,1]` if the edge is at least as steep as 45 degrees; within `threshold/|dx|` of `[0,1]` otherwise, where
`threshold = max(tolerance/2, |x|·2·EPSILON)`.  (`is_edge_connecting` itself gives `y ≤ to.y` and
`min_x ≤ x ≤ max_x + threshold`: `isEdgeConnecting_split_facts`.) -/
theorem split_edge_parameter_bound [w : Wide K] (cur : P K) (tol : K) (e : ActiveEdge K) (c : Bool)
    (h : isEdgeConnecting cur tol e = .ok (c, true)) (hne : e.from_ ≠ e.to) (hfrom : e.from_.y ≤ cur.y)
    (hthr : 0 ≤ onEdgeThreshold tol cur.x) :
    (¬ |e.to.y - e.from_.y| < |e.to.x - e.from_.x| →
      0 ≤ Sources.splitT e.from_ e.to cur ∧ Sources.splitT e.from_ e.to cur ≤ 1) ∧
    (|e.to.y - e.from_.y| < |e.to.x - e.from_.x| →
      -(onEdgeThreshold tol cur.x / |e.to.x - e.from_.x|) ≤ Sources.splitT e.from_ e.to cur ∧
      Sources.splitT e.from_ e.to cur ≤ 1 + onEdgeThreshold tol cur.x / |e.to.x - e.from_.x|) :=
  splitEdge_parameter_bound cur tol e c h hne hfrom hthr

/-- **`split_edge_flat_parameter_unit`** - the parameter the repaired `split_edge` computes
(`Sources.splitTAtVertex`, the model's own function) for an edge flatter than 45 degrees - the branch in which the
defect lived - is in `[0,1]` UNCONDITIONALLY: wherever the vertex is, whatever the edge -/
theorem split_edge_flat_parameter_unit (a b c : P K) (hb : |b.y - a.y| < |b.x - a.x|) :
    0 ≤ Sources.splitTAtVertex a b c ∧ Sources.splitTAtVertex a b c ≤ 1 := splitTAtVertex_unit_flat a b c hb

/-- **`split_edge_fixed_parameter_unit`** - the parameter of the repaired `split_edge`
(`Sources.splitTAtVertex`) is in `[0,1]` for every non-degenerate edge that spans the current vertex in sweep
order, wherever the vertex is in x -/
theorem split_edge_fixed_parameter_unit (a b c : P K) (hne : a ≠ b) (hya : a.y ≤ c.y) (hyb : c.y ≤ b.y) :
    0 ≤ Sources.splitTAtVertex a b c ∧ Sources.splitTAtVertex a b c ≤ 1 := splitTAtVertex_unit a b c hne hya hyb

/-- the fix changed nothing where the former parameter was in `[0,1]` -/
theorem split_edge_fixed_agrees (a b c : P K) (h : 0 ≤ Sources.splitT a b c ∧ Sources.splitT a b c ≤ 1) :
    Sources.splitTAtVertex a b c = Sources.splitT a b c := splitTAtVertex_eq a b c h

/-- **`merge_guard_parameter_unit`** - under the guard of the repaired `handle_coincident_edges_below`
(`endsWithin (long_to - from) (short_to - from)`; it IS the Boolean the model computes:
`SweepPos.endsWithin_iff_model`) the split parameter of `merge_coincident_edges` is in `[0,1]` -/
theorem merge_guard_parameter_unit (cur long short : P K) (hne : cur ≠ long)
    (hg : endsWithin (long - cur) (short - cur)) (hy0 : cur.y ≤ short.y) (hy1 : short.y ≤ long.y) :
    0 ≤ Sources.splitT cur long short ∧ Sources.splitT cur long short ≤ 1 :=
  merge_guard_unit cur long short hne hg hy0 hy1

/-- with a parameter in `[0,1]` the record `split_edge` pushes keeps the range discipline of `Props/C07b.lean`
(`split_records_range`) -/
theorem fixed_split_record_range (lo hi s e : K) (a b c : P K) (hne : a ≠ b) (hya : a.y ≤ c.y) (hyb : c.y ≤ b.y)
    (hs : lo ≤ s ∧ s ≤ hi) (he : lo ≤ e ∧ e ≤ hi) :
    lo ≤ Sources.remapT (Sources.splitTAtVertex a b c) s e ∧ Sources.remapT (Sources.splitTAtVertex a b c) s e ≤ hi :=
  C07b.split_records_range lo hi _ s e (splitTAtVertex_unit a b c hne hya hyb) hs he

end field

/-! ### non-vacuity of 2. and 3. (the numbers of the two witnesses, over `ℚ` as an ordered field) -/

section examples
attribute [local instance 3000] Lyon.fieldScalar

/-- the hypotheses of `split_parameter_x_overshoot` / `splitT_bound` hold for the edge B and the vertex V of
`splitInput` with the threshold `1/20`, and the parameter is `1000/999`: above `1`, below the bound
`1 + (1/20)/(999/100)` -/
example :
    let a : P ℚ := ⟨-10, -1⟩
    let b : P ℚ := ⟨-1/100, 1/1000⟩
    let c : P ℚ := ⟨0, 0⟩
    |b.y - a.y| < |b.x - a.x| ∧ Min.min a.x b.x ≤ c.x ∧ c.x ≤ Max.max a.x b.x + 1/20 ∧ a.y ≤ c.y ∧ c.y ≤ b.y ∧
    Sources.splitT a b c = 1000/999 := by
  refine ⟨by norm_num [abs_of_pos], by norm_num, by norm_num, by norm_num, by norm_num, ?_⟩
  rw [splitT_x _ _ _ (by norm_num [abs_of_pos])]
  norm_num

/-- ... and the repaired parameter for the same data is the y-parameter `1000/1001` -/
example : Sources.splitTAtVertex (⟨-10, -1⟩ : P ℚ) ⟨-1/100, 1/1000⟩ ⟨0, 0⟩ = 1000/1001 := by
  have hb : |(1/1000 : ℚ) - (-1)| < |(-1/100 : ℚ) - (-10)| := by norm_num [abs_of_pos]
  rw [splitTAtVertex_def, if_pos hb, solveTForX_eq _ _ _ (by norm_num), solveTForY_eq _ _ _ (by norm_num)]
  norm_num

/-- the guard rejects the merge of `mergeInput` (the end `(128, 15/1024)` reaches beyond `(100, 1/64)` in x) and
accepts an ordinary pair of coincident edges -/
example : ¬ endsWithin ((⟨100, 1/64⟩ : P ℚ) - ⟨0, 0⟩) ((⟨128, 15/1024⟩ : P ℚ) - ⟨0, 0⟩) := by
  intro h
  rcases h with h | ⟨_, h⟩
  · have h' : |(100 : ℚ) - 0| ≤ |(1/64 : ℚ) - 0| := h
    norm_num [abs_of_pos] at h'
  · have h' : |(128 : ℚ) - 0| ≤ |(100 : ℚ) - 0| := h
    norm_num [abs_of_pos] at h'

example : endsWithin ((⟨100, 1/64⟩ : P ℚ) - ⟨0, 0⟩) ((⟨64, 1/100⟩ : P ℚ) - ⟨0, 0⟩) ∧
    (0 : ℚ) ≤ 1/100 ∧ (1/100 : ℚ) ≤ 1/64 ∧ (⟨0, 0⟩ : P ℚ) ≠ ⟨100, 1/64⟩ := by
  refine ⟨Or.inr ⟨?_, ?_⟩, by norm_num, by norm_num, ?_⟩
  · show (0 : ℚ) ≤ (64 - 0) * (100 - 0)
    norm_num
  · show |(64 : ℚ) - 0| ≤ |(100 : ℚ) - 0|
    norm_num [abs_of_pos]
  · intro h
    have := congrArg P.x h
    norm_num at this

end examples

end Lyon.C07c
