/-
  C06f — `LineJoin::MiterClip` at ANY miter limit `≥ 1`, clipped joins included: cover and reach, open and closed.

  The outer shift `lamAt` of a join's two-vertex side (0 for bevel-shaped joins, the clip shift
  `w/2·(miter_limit·|normal| − 1)/|tan(θ/2)|` in half widths for a clipped `MiterClip` join; read off the model's own
  side points) is threaded through the closed form of the joins (`JClosed`, `jEP_closed`: `Lemmas/StrokeCoverJoin.lean`,
  clipped case from `Lemmas/StrokeCoverClipJoin.lean`), the corner shifts `sA0 … sB1`, the cap lemmas
  (`endCap_closedG`, `startCap_closedG`), `edge_quads`, `JointData` (`κ = lamAt/|tan(θ/2)| ∈ [0,1]`, corner lemma
  `corner_clip`), the reach bound `outK` and the closed-polygon copies.  The regimes `Regime`, `RegimeCore`, `RegimeC`
  no longer ask that no miter is clipped; `CoverHyp.clip` asks `miter_limit ≥ 1` and `eps < w/2` for `MiterClip`.
  Hence `C06b.stroke_polyline_covers_rectangles`, `C06b.stroke_polyline_reach`, `C06c.stroke_polygon_covers_rectangles`,
  `C06c.stroke_polygon_reach` hold for Bevel, Miter and MiterClip at any miter limit; the corollaries below spell the
  MiterClip case out, `clipped_join_closed_form` states what the model does at a clipped join, and the example runs a
  polyline whose join IS clipped (`miter_limit = 1`, 5-12-13 turn) through the theorems.

  Part 2 — `LineJoin::Round` (butt / square caps): the emission-shape machinery (`Lemmas/StrokeCoverShape.lean`:
  `arc_shape`, `roundJoinIf_shape`, `tessJoin_shape`, `TriFan`; `CInv.only`, `Emitted.only`, `EmittedC.only` with the fan
  alternative) now follows `tessellate_round_join` / `tessellate_arc` of the complete model under the single law
  `cos² + sin² = 1`; `CoverHyp.join` admits Round (with that law).  Hence the four main theorems hold for Round joins too;
  the corollaries below add: reach factor as for Bevel, and for closed polygons NOTHING farther than `w/2` from the path
  (`stroke_polygon_round_within_half_width`).

  Part 3 — round CAPS: `Lemmas/StrokeCoverShape.lean` `roundCap_shape`, `Lemmas/StrokeCoverRun.lean` `lastEdge_emG`,
  `firstEdge_emG`, `run_emittedG` (side condition `CapOK`), cap-fan alternatives in `Emitted.only`; the cap lemmas
  `endCap_closed(G)`, `startCap_closed(G)` no longer exclude round caps (same two vertices as a butt cap);
  `CoverHyp.scap` / `ecap` admit round caps with the law `cos² + sin² = 1`.  So the cover and reach theorems hold for
  every join kind and every cap kind; `stroke_polyline_within_half_width`: with Bevel / Round joins and butt / round
  caps NO emitted triangle has a point farther than `w/2` from the path.  NOT proved: that the fans of round joins / caps
  cover the `(w/2 − tolerance)`-neighbourhood of the join / end point (lower half of the round/round clause).
-/
import LyonVerif.Props.C06e
import Mathlib.Analysis.SpecialFunctions.Sqrt
import Mathlib.Tactic.IntervalCases

set_option linter.unusedSectionVars false
set_option linter.unusedVariables false

namespace Lyon.C06f
open Lyon Scalar Lyon.Stroke Lyon.Stroke.Full Lyon.C05 Lyon.C05b Lyon.C05c Lyon.C06 Lyon.C06b Lyon.C06c
open Lyon.StrokeQuad (lineIntersection)

section
variable {K : Type} [Field K] [LinearOrder K] [IsStrictOrderedRing K] [Transc K] [Asin K] [FlatConst K]

/-- **MiterClip, open polylines, any miter limit `≥ 1`**: every point of every segment's rectangle lies in an
emitted triangle -/
theorem stroke_polyline_covers_rectangles_miterclip (e : Env K) (eps : K) (h : CoverHyp e eps)
    (hmc : e.o.join = .miterClip) (store : Nat → List K)
    (pt : Nat → P K) (n : Nat) (hn : 1 ≤ n) (hr : Regime e eps pt n)
    (k : Nat) (hk : k < n) (s u : K) (hs : 0 ≤ s) (hs1 : s ≤ 1) (hu : -1 ≤ u) (hu1 : u ≤ 1) :
    1 ≤ e.o.miterLimit ∧
    ∃ t ∈ (runEvents e store (polyEvs pt n)).st.out.tris, ∃ v1 v2 v3 : VData K,
      (runEvents e store (polyEvs pt n)).st.out.verts[t.1]? = some v1
      ∧ (runEvents e store (polyEvs pt n)).st.out.verts[t.2.1]? = some v2
      ∧ (runEvents e store (polyEvs pt n)).st.out.verts[t.2.2]? = some v3
      ∧ InTri (bandPoint (pt k) (pt (k + 1)) ((perp (eT pt k)).smul e.hwFw) s u)
          (v1.read.position, v2.read.position, v3.read.position) :=
  ⟨(h.clip hmc).1, stroke_polyline_covers_rectangles e eps h store pt n hn hr k hk s u hs hs1 hu hu1⟩

/-- **MiterClip, closed polygons** -/
theorem stroke_polygon_covers_rectangles_miterclip (e : Env K) (eps : K) (h : CoverHyp e eps)
    (hmc : e.o.join = .miterClip) (store : Nat → List K)
    (pt : Nat → P K) (m : Nat) (hm : 2 ≤ m) (hper : ∀ i, pt (i + (m + 1)) = pt i) (hr : RegimeC e eps pt m)
    (k : Nat) (s u : K) (hs : 0 ≤ s) (hs1 : s ≤ 1) (hu : -1 ≤ u) (hu1 : u ≤ 1) :
    ∃ t ∈ (runEvents e store (polyEvsC pt m)).st.out.tris, ∃ v1 v2 v3 : VData K,
      (runEvents e store (polyEvsC pt m)).st.out.verts[t.1]? = some v1
      ∧ (runEvents e store (polyEvsC pt m)).st.out.verts[t.2.1]? = some v2
      ∧ (runEvents e store (polyEvsC pt m)).st.out.verts[t.2.2]? = some v3
      ∧ InTri (bandPoint (pt k) (pt (k + 1)) ((perp (eT pt k)).smul e.hwFw) s u)
          (v1.read.position, v2.read.position, v3.read.position) :=
  stroke_polygon_covers_rectangles e eps h store pt m hm hper hr k s u hs hs1 hu hu1

/-- **what the complete model does at a join of a polyline in the regime, every non-round join kind**: the side
points in closed form with the outer shift `lamAt ∈ [0, |tan(θ/2)|]` (`JClosed`) -/
theorem clipped_join_closed_form (e : Env K) (eps : K) (h : CoverHyp e eps) (pt : Nat → P K) (n : Nat)
    (hr : Regime e eps pt n) (k : Nat) (hk : k + 1 < n) :
    JClosed e pt k (psAt e pt (k + 1)) (nsAt e pt (k + 1)) (lamAt e pt (k + 1))
    ∧ 0 ≤ lamAt e pt (k + 1) ∧ lamAt e pt (k + 1) ≤ |jtau pt k| :=
  ⟨regime_jclosed h hr k hk, lamAt_nonneg _ _ _, lamAt_le _ _ _⟩

/-- the reach of a MiterClip stroke: as for Miter, at most the miter length at the edge's ends (a clipped corner lies
between the bevel corner and the miter tip) -/
theorem stroke_reach_factor_miterclip (e : Env K) (eps : K) (h : CoverHyp e eps) (pt : Nat → P K) (n : Nat)
    (k : Nat) (hk : k < n) :
    reachSq e pt n k ≤ e.hwFw * e.hwFw * (1 + (Max.max (if k = 0 then capU e.o.startCap else tauAbs pt n k)
      (if k + 1 = n then capU e.o.endCap else tauAbs pt n (k + 1))) ^ 2) :=
  stroke_reach_factor e eps h pt n k hk

/-! ### `LineJoin::Round` (butt / square caps)

`tessellate_round_join` emits the triangle (pivot, start, end) — the Bevel join's triangle — and a fan whose new
vertices all lie on the circle of radius `w/2` around the path point (`arc_shape`, `tessJoin_shape`; law of `sin`,
`cos` used: `cos² + sin² = 1`, carried by `CoverHyp.join`).  So the cover theorems hold as for Bevel, and the fan stays
within `w/2` of the path point. -/

/-- **Round join, open polylines**: every point of every segment's rectangle lies in an emitted triangle -/
theorem stroke_polyline_covers_rectangles_round (e : Env K) (eps : K) (h : CoverHyp e eps)
    (hrd : e.o.join = .round) (store : Nat → List K)
    (pt : Nat → P K) (n : Nat) (hn : 1 ≤ n) (hr : Regime e eps pt n)
    (k : Nat) (hk : k < n) (s u : K) (hs : 0 ≤ s) (hs1 : s ≤ 1) (hu : -1 ≤ u) (hu1 : u ≤ 1) :
    ∃ t ∈ (runEvents e store (polyEvs pt n)).st.out.tris, ∃ v1 v2 v3 : VData K,
      (runEvents e store (polyEvs pt n)).st.out.verts[t.1]? = some v1
      ∧ (runEvents e store (polyEvs pt n)).st.out.verts[t.2.1]? = some v2
      ∧ (runEvents e store (polyEvs pt n)).st.out.verts[t.2.2]? = some v3
      ∧ InTri (bandPoint (pt k) (pt (k + 1)) ((perp (eT pt k)).smul e.hwFw) s u)
          (v1.read.position, v2.read.position, v3.read.position) :=
  stroke_polyline_covers_rectangles e eps h store pt n hn hr k hk s u hs hs1 hu hu1

/-- **Round join, closed polygons** -/
theorem stroke_polygon_covers_rectangles_round (e : Env K) (eps : K) (h : CoverHyp e eps)
    (hrd : e.o.join = .round) (store : Nat → List K)
    (pt : Nat → P K) (m : Nat) (hm : 2 ≤ m) (hper : ∀ i, pt (i + (m + 1)) = pt i) (hr : RegimeC e eps pt m)
    (k : Nat) (s u : K) (hs : 0 ≤ s) (hs1 : s ≤ 1) (hu : -1 ≤ u) (hu1 : u ≤ 1) :
    ∃ t ∈ (runEvents e store (polyEvsC pt m)).st.out.tris, ∃ v1 v2 v3 : VData K,
      (runEvents e store (polyEvsC pt m)).st.out.verts[t.1]? = some v1
      ∧ (runEvents e store (polyEvsC pt m)).st.out.verts[t.2.1]? = some v2
      ∧ (runEvents e store (polyEvsC pt m)).st.out.verts[t.2.2]? = some v3
      ∧ InTri (bandPoint (pt k) (pt (k + 1)) ((perp (eT pt k)).smul e.hwFw) s u)
          (v1.read.position, v2.read.position, v3.read.position) :=
  stroke_polygon_covers_rectangles e eps h store pt m hm hper hr k s u hs hs1 hu hu1

/-- the reach factor with a Round join: as for Bevel, `reachSq ≤ (w/2)²·(1 + c²)`, `c = 1` if the edge carries a
square cap, else `0` -/
theorem stroke_reach_factor_round (e : Env K) (eps : K) (h : CoverHyp e eps) (pt : Nat → P K) (n : Nat)
    (hr : Regime e eps pt n) (hrd : e.o.join = .round) (k : Nat) (hk : k < n) :
    reachSq e pt n k ≤ e.hwFw * e.hwFw * (1 + (Max.max (if k = 0 then capU e.o.startCap else 0)
      (if k + 1 = n then capU e.o.endCap else 0)) ^ 2) := by
  have h1 := outK_bevel h hr (Or.inr hrd) k hk
  have h0 := (outK_bounds e pt n k).1
  have hw := h.hw
  unfold reachSq
  have : outK e pt n k * outK e pt n k ≤ (Max.max (if k = 0 then capU e.o.startCap else 0)
      (if k + 1 = n then capU e.o.endCap else 0)) ^ 2 := by nlinarith
  nlinarith [mul_pos hw hw]

/-- **Round join, closed polygons: nothing farther than `w/2` from the path.**  Every emitted triangle (edge
quads, join triangles, the fans of the round joins) lies within distance `w/2` of one segment of the polygon. -/
theorem stroke_polygon_round_within_half_width (e : Env K) (eps : K) (h : CoverHyp e eps)
    (hrd : e.o.join = .round) (store : Nat → List K)
    (pt : Nat → P K) (m : Nat) (hm : 2 ≤ m) (hper : ∀ i, pt (i + (m + 1)) = pt i) (hr : RegimeC e eps pt m)
    (t : Stroke.Tri) (ht : t ∈ (runEvents e store (polyEvsC pt m)).st.out.tris) :
    ∃ k, ∃ v1 v2 v3 : VData K,
      (runEvents e store (polyEvsC pt m)).st.out.verts[t.1]? = some v1
      ∧ (runEvents e store (polyEvsC pt m)).st.out.verts[t.2.1]? = some v2
      ∧ (runEvents e store (polyEvsC pt m)).st.out.verts[t.2.2]? = some v3
      ∧ ∀ q, InTri q (v1.read.position, v2.read.position, v3.read.position) →
          NearSeg (pt (k + 1)) (eT pt (k + 1)) (eL pt (k + 1)) (e.hwFw * e.hwFw) q := by
  obtain ⟨k, v1, v2, v3, a, b, c, d⟩ := stroke_polygon_reach e eps h store pt m hm hper hr t ht
  refine ⟨k, v1, v2, v3, a, b, c, ?_⟩
  obtain ⟨_, hjc, _⟩ := regimeC_all h hper hr
  have : reachSq e pt 0 (k + 1) = e.hwFw * e.hwFw := by
    unfold reachSq
    rw [outK_in_bevel k (Or.inr hrd) (hjc k) (hjc (k + 1))]; ring
  rw [this] at d
  exact d

/-- **emission shape with Round joins** (`Emitted`): besides the edge quads and the join triangles the output holds
only fan triangles whose vertices are vertices of the join or lie on the circle of radius `w/2` around the path point -/
theorem stroke_polyline_emission_shape_round (e : Env K) (store : Nat → List K) (hfw : e.o.varWidth = false)
    (hcs : ∀ x : K, Transc.cos x * Transc.cos x + Transc.sin x * Transc.sin x = 1)
    (hs : e.o.startCap ≠ .round) (he : e.o.endCap ≠ .round) (hw0 : e.hwFw ≠ 0)
    (pt : Nat → P K) (n : Nat) (hn : 1 ≤ n)
    (hfar : ∀ i, i < n → pointsAreTooClose e.thr (pt i) (pt (i + 1)) = false)
    (hnf : ∀ i, 1 ≤ i → i < n → noFoldAt e (pt (i - 1)) (pt i) (pt (i + 1))) :
    Emitted e pt n (runEvents e store (polyEvs pt n)).st.out :=
  run_emitted e store hfw (Or.inr hcs) hs he hw0 pt n hn hfar hnf

/-! ### round caps

`tessellate_last_edge` / `tessellate_first_edge` with a round cap emit the same two vertices as a butt cap (no clip
line: `clipSidePos_round`) and then `tessellate_round_cap`: the middle vertex `p ± normalize(edge)·w/2` and two fans, all
new vertices on the circle of radius `w/2` around the end point (`roundCap_shape`; `Emitted.only` has the two cap-fan
alternatives).  `CoverHyp.scap` / `ecap` admit round caps with the law `cos² + sin² = 1`. -/

/-- **round caps (any admitted join), open polylines**: every point of every segment's rectangle lies in an emitted
triangle -/
theorem stroke_polyline_covers_rectangles_round_caps (e : Env K) (eps : K) (h : CoverHyp e eps)
    (hsc : e.o.startCap = .round) (hec : e.o.endCap = .round) (store : Nat → List K)
    (pt : Nat → P K) (n : Nat) (hn : 1 ≤ n) (hr : Regime e eps pt n)
    (k : Nat) (hk : k < n) (s u : K) (hs : 0 ≤ s) (hs1 : s ≤ 1) (hu : -1 ≤ u) (hu1 : u ≤ 1) :
    ∃ t ∈ (runEvents e store (polyEvs pt n)).st.out.tris, ∃ v1 v2 v3 : VData K,
      (runEvents e store (polyEvs pt n)).st.out.verts[t.1]? = some v1
      ∧ (runEvents e store (polyEvs pt n)).st.out.verts[t.2.1]? = some v2
      ∧ (runEvents e store (polyEvs pt n)).st.out.verts[t.2.2]? = some v3
      ∧ InTri (bandPoint (pt k) (pt (k + 1)) ((perp (eT pt k)).smul e.hwFw) s u)
          (v1.read.position, v2.read.position, v3.read.position) :=
  stroke_polyline_covers_rectangles e eps h store pt n hn hr k hk s u hs hs1 hu hu1

/-- **Bevel or Round join, butt or round caps, open polylines: nothing farther than `w/2` from the path.**  Every
emitted triangle (edge quads, join triangles, the fans of round joins and of round caps) lies within distance `w/2`
of the segment of one edge. -/
theorem stroke_polyline_within_half_width (e : Env K) (eps : K) (h : CoverHyp e eps)
    (hj : e.o.join = .bevel ∨ e.o.join = .round) (hsc : e.o.startCap ≠ .square) (hec : e.o.endCap ≠ .square)
    (store : Nat → List K) (pt : Nat → P K) (n : Nat) (hn : 1 ≤ n) (hr : Regime e eps pt n)
    (t : Stroke.Tri) (ht : t ∈ (runEvents e store (polyEvs pt n)).st.out.tris) :
    ∃ k, k < n ∧ ∃ v1 v2 v3 : VData K,
      (runEvents e store (polyEvs pt n)).st.out.verts[t.1]? = some v1
      ∧ (runEvents e store (polyEvs pt n)).st.out.verts[t.2.1]? = some v2
      ∧ (runEvents e store (polyEvs pt n)).st.out.verts[t.2.2]? = some v3
      ∧ ∀ q, InTri q (v1.read.position, v2.read.position, v3.read.position) →
          NearSeg (pt k) (eT pt k) (eL pt k) (e.hwFw * e.hwFw) q := by
  obtain ⟨k, hk, v1, v2, v3, a, b, c, d⟩ := stroke_polyline_reach e eps h store pt n hn hr t ht
  refine ⟨k, hk, v1, v2, v3, a, b, c, ?_⟩
  have hs0 : (capU e.o.startCap : K) = 0 := by
    cases hc : e.o.startCap <;> simp_all [capU]
  have he0 : (capU e.o.endCap : K) = 0 := by
    cases hc : e.o.endCap <;> simp_all [capU]
  have h1 := outK_bevel h hr hj k hk
  rw [hs0, he0] at h1
  have h0 := (outK_bounds e pt n k).1
  have hz : outK e pt n k = 0 := by
    apply le_antisymm _ h0
    refine le_trans h1 ?_
    split_ifs <;> simp
  have : reachSq e pt n k = e.hwFw * e.hwFw := by
    unfold reachSq; rw [hz]; ring
  rw [this] at d
  exact d

end

/-! ### non-vacuity: a polyline whose `MiterClip` join IS clipped

`(0,0) → (24,10) → (0,20)`: two edges of length 26 with unit tangents `(12/13, 5/13)`, `(−12/13, 5/13)` (a left turn of
about 135°, `tan(θ/2) = 12/5`, `|normal|² = 169/25`); width 2, `miter_limit = 1`: `169/25 > 4 = (2·miter_limit)²`, clipped. -/

section Real
attribute [local instance] Lyon.C05.realTransc Lyon.C06b.realAsin Lyon.C06b.realFlat

noncomputable def exPtC : Nat → P ℝ
  | 0 => ⟨0, 0⟩
  | 1 => ⟨24, 10⟩
  | _ => ⟨0, 20⟩

/-- tolerance 0.1, width 2, miter limit 1, MiterClip, butt / square caps -/
noncomputable def exEnvC : Env ℝ :=
  Env.new ⟨1 / 10, 2, 1, .miterClip, .butt, .square, false, 0⟩ (lineIntersection (1 / 10 ^ 8))

theorem exHypC : CoverHyp exEnvC (1 / 10 ^ 8) where
  sqrt_nonneg := fun x _ => Real.sqrt_nonneg x
  sqrt_sq := fun x hx => Real.mul_self_sqrt hx
  ix_eq := rfl
  eps_nonneg := by positivity
  fw := rfl
  join := Or.inr (Or.inr (Or.inl rfl))
  clip := fun _ => by
    constructor
    · show (1 : ℝ) ≤ 1; norm_num
    · show (1 / 10 ^ 8 : ℝ) < 2 * half
      have : (half : ℝ) = 1 / 2 := sc_half
      rw [this]; norm_num
  scap := Or.inl (by show Lyon.StrokeQuad.Cap.butt ≠ .round; decide)
  ecap := Or.inl (by show Lyon.StrokeQuad.Cap.square ≠ .round; decide)
  hw := by
    show (0 : ℝ) < 2 * half
    have : (half : ℝ) = 1 / 2 := sc_half
    rw [this]; norm_num

theorem exCL0 : eL exPtC 0 = 26 := len_of_sq _ 26 (by norm_num) (by simp only [exPtC, geom]; norm_num)
theorem exCL1 : eL exPtC 1 = 26 := len_of_sq _ 26 (by norm_num) (by simp only [exPtC, geom]; norm_num)
theorem exCT0 : eT exPtC 0 = ⟨12 / 13, 5 / 13⟩ := by
  have : len (exPtC (0 + 1) - exPtC 0) = 26 := exCL0
  unfold eT; rw [this]; apply P.ext' <;> simp only [exPtC, geom] <;> norm_num
theorem exCT1 : eT exPtC 1 = ⟨-12 / 13, 5 / 13⟩ := by
  have : len (exPtC (1 + 1) - exPtC 1) = 26 := exCL1
  unfold eT; rw [this]; apply P.ext' <;> simp only [exPtC, geom] <;> norm_num
theorem exCTau : jtau exPtC 0 = 12 / 5 := by
  unfold jtau; rw [exCT0, exCT1]; simp only [geom]; norm_num

/-- the polyline is in the regime (the fold test follows from the lengths: `regime_core_suffices`) -/
theorem exRegimeC : Regime exEnvC (1 / 10 ^ 8) exPtC 2 := by
  have hhw : exEnvC.hwFw = 1 := by
    show (2 : ℝ) * half = 1
    have : (half : ℝ) = 1 / 2 := sc_half
    rw [this]; norm_num
  apply regime_core_suffices exEnvC _ exHypC
  refine ⟨?_, ?_, ?_, ?_⟩
  · intro i hi
    interval_cases i <;>
      (simp [exEnvC, exPtC, pointsAreTooClose, Env.new, squareMergeThreshold, geom]; norm_num)
  · intro i hi
    interval_cases i
    · rw [exCL0]; norm_num
    · rw [exCL1]; norm_num
  · intro i hi
    interval_cases i
    rw [exCT0, exCT1, normalEpsilon_eq]; simp only [geom]; norm_num
  · intro i hi
    rw [hhw]
    interval_cases i
    · simp only [tauAbs]; norm_num; rw [exCL0, exCTau]; norm_num [abs_of_pos]
    · simp only [tauAbs]; norm_num; rw [exCL1, exCTau]; norm_num [abs_of_pos]

/-- the join at `(24,10)` is CLIPPED: the model's `miter_limit_is_exceeded` answers yes (`keptAt` fails) -/
theorem exClipped : ¬ keptAt exEnvC (exPtC 0) (exPtC 1) (exPtC 2) := by
  have hs0 : ∀ x : ℝ, 0 ≤ x → 0 ≤ Transc.sqrt x := fun x _ => Real.sqrt_nonneg x
  have hs : ∀ x : ℝ, 0 ≤ x → Transc.sqrt x * Transc.sqrt x = x := fun x hx => Real.mul_self_sqrt hx
  have hu0 : (⟨12 / 13, 5 / 13⟩ : P ℝ).sqLen = 1 := by simp only [geom]; norm_num
  have hu1 : (⟨-12 / 13, 5 / 13⟩ : P ℝ).sqLen = 1 := by simp only [geom]; norm_num
  have hg : ¬ ((⟨12 / 13, 5 / 13⟩ : P ℝ) + ⟨-12 / 13, 5 / 13⟩).sqLen < normalEpsilon := by
    rw [normalEpsilon_eq]; simp only [geom]; norm_num
  obtain ⟨_, hN0, _⟩ := normal_closed hs0 hs _ _ hu0 hu1 hg
  have hτ : (⟨12 / 13, 5 / 13⟩ : P ℝ).cross ⟨-12 / 13, 5 / 13⟩ / (1 + (⟨12 / 13, 5 / 13⟩ : P ℝ).dot ⟨-12 / 13, 5 / 13⟩) = 12 / 5 := by
    simp only [geom]; norm_num
  rw [hτ] at hN0
  have hN : computeNormal (⟨12 / 13, 5 / 13⟩ : P ℝ) ⟨-12 / 13, 5 / 13⟩ = ⟨-13 / 5, 0⟩ := by
    rw [hN0]; apply P.ext' <;> simp only [perp, geom] <;> norm_num
  have h0 : (exPtC 1 - exPtC 0).sdiv (len (exPtC 1 - exPtC 0)) = ⟨12 / 13, 5 / 13⟩ := exCT0
  have h1 : (exPtC 2 - exPtC 1).sdiv (len (exPtC 2 - exPtC 1)) = ⟨-12 / 13, 5 / 13⟩ := exCT1
  unfold keptAt fwGeo
  simp only [EP.mk', h0, h1, hN]
  simp [miterLimitIsExceeded, exEnvC, Env.new, geom]
  norm_num

/-- every point of both rectangles — e.g. the corner at the join on the inside of the turn — is covered -/
example (store : Nat → List ℝ) (s u : ℝ) (hs : 0 ≤ s) (hs1 : s ≤ 1) (hu : -1 ≤ u) (hu1 : u ≤ 1) :
    ∃ t ∈ (runEvents exEnvC store (polyEvs exPtC 2)).st.out.tris, ∃ v1 v2 v3 : VData ℝ,
      (runEvents exEnvC store (polyEvs exPtC 2)).st.out.verts[t.1]? = some v1
      ∧ (runEvents exEnvC store (polyEvs exPtC 2)).st.out.verts[t.2.1]? = some v2
      ∧ (runEvents exEnvC store (polyEvs exPtC 2)).st.out.verts[t.2.2]? = some v3
      ∧ InTri (bandPoint (exPtC 0) (exPtC 1) ((perp (eT exPtC 0)).smul exEnvC.hwFw) s u)
          (v1.read.position, v2.read.position, v3.read.position) :=
  (stroke_polyline_covers_rectangles_miterclip exEnvC _ exHypC rfl store exPtC 2 (by norm_num) exRegimeC 0 (by norm_num)
    s u hs hs1 hu hu1).2

/-- and every triangle stays within the reach of its edge -/
example (store : Nat → List ℝ) (t : Stroke.Tri) (ht : t ∈ (runEvents exEnvC store (polyEvs exPtC 2)).st.out.tris) :
    ∃ k, k < 2 ∧ ∃ v1 v2 v3 : VData ℝ,
      (runEvents exEnvC store (polyEvs exPtC 2)).st.out.verts[t.1]? = some v1
      ∧ (runEvents exEnvC store (polyEvs exPtC 2)).st.out.verts[t.2.1]? = some v2
      ∧ (runEvents exEnvC store (polyEvs exPtC 2)).st.out.verts[t.2.2]? = some v3
      ∧ ∀ q, InTri q (v1.read.position, v2.read.position, v3.read.position) →
          NearSeg (exPtC k) (eT exPtC k) (eL exPtC k) (reachSq exEnvC exPtC 2 k) q :=
  stroke_polyline_reach exEnvC _ exHypC store exPtC 2 (by norm_num) exRegimeC t ht

/-! ### non-vacuity: Round joins on the polyline `exPt` and the square `exSq` -/

example (store : Nat → List ℝ) (s u : ℝ) (hs : 0 ≤ s) (hs1 : s ≤ 1) (hu : -1 ≤ u) (hu1 : u ≤ 1) :
    ∃ t ∈ (runEvents (exEnvJ .round) store (polyEvs exPt 3)).st.out.tris, ∃ v1 v2 v3 : VData ℝ,
      (runEvents (exEnvJ .round) store (polyEvs exPt 3)).st.out.verts[t.1]? = some v1
      ∧ (runEvents (exEnvJ .round) store (polyEvs exPt 3)).st.out.verts[t.2.1]? = some v2
      ∧ (runEvents (exEnvJ .round) store (polyEvs exPt 3)).st.out.verts[t.2.2]? = some v3
      ∧ InTri (bandPoint (exPt 1) (exPt (1 + 1)) ((perp (eT exPt 1)).smul (exEnvJ .round).hwFw) s u)
          (v1.read.position, v2.read.position, v3.read.position) :=
  stroke_polyline_covers_rectangles_round (exEnvJ .round) _ (exHypJ _ (Or.inr (Or.inr (Or.inr rfl)))) rfl store exPt 3
    (by norm_num) (exRegimeJ _) 1 (by norm_num) s u hs hs1 hu hu1

example : reachSq (exEnvJ .round) exPt 3 1
    ≤ (exEnvJ .round).hwFw * (exEnvJ .round).hwFw * (1 + (Max.max (0 : ℝ) 0) ^ 2) := by
  have := stroke_reach_factor_round (exEnvJ .round) _ (exHypJ _ (Or.inr (Or.inr (Or.inr rfl)))) exPt 3 (exRegimeJ _) rfl 1
    (by norm_num)
  simpa using this

example (store : Nat → List ℝ) (t : Stroke.Tri)
    (ht : t ∈ (runEvents (exEnvJ .round) store (polyEvsC exSq 3)).st.out.tris) :
    ∃ k, ∃ v1 v2 v3 : VData ℝ,
      (runEvents (exEnvJ .round) store (polyEvsC exSq 3)).st.out.verts[t.1]? = some v1
      ∧ (runEvents (exEnvJ .round) store (polyEvsC exSq 3)).st.out.verts[t.2.1]? = some v2
      ∧ (runEvents (exEnvJ .round) store (polyEvsC exSq 3)).st.out.verts[t.2.2]? = some v3
      ∧ ∀ q, InTri q (v1.read.position, v2.read.position, v3.read.position) →
          NearSeg (exSq (k + 1)) (eT exSq (k + 1)) (eL exSq (k + 1))
            ((exEnvJ .round).hwFw * (exEnvJ .round).hwFw) q :=
  stroke_polygon_round_within_half_width (exEnvJ .round) _ (exHypJ _ (Or.inr (Or.inr (Or.inr rfl)))) rfl store exSq 3
    (by norm_num) exSq_per (exSqRegime _) t ht

example (store : Nat → List ℝ) (s u : ℝ) (hs : 0 ≤ s) (hs1 : s ≤ 1) (hu : -1 ≤ u) (hu1 : u ≤ 1) :
    ∃ t ∈ (runEvents (exEnvJ .round) store (polyEvsC exSq 3)).st.out.tris, ∃ v1 v2 v3 : VData ℝ,
      (runEvents (exEnvJ .round) store (polyEvsC exSq 3)).st.out.verts[t.1]? = some v1
      ∧ (runEvents (exEnvJ .round) store (polyEvsC exSq 3)).st.out.verts[t.2.1]? = some v2
      ∧ (runEvents (exEnvJ .round) store (polyEvsC exSq 3)).st.out.verts[t.2.2]? = some v3
      ∧ InTri (bandPoint (exSq 2) (exSq (2 + 1)) ((perp (eT exSq 2)).smul (exEnvJ .round).hwFw) s u)
          (v1.read.position, v2.read.position, v3.read.position) :=
  stroke_polygon_covers_rectangles_round (exEnvJ .round) _ (exHypJ _ (Or.inr (Or.inr (Or.inr rfl)))) rfl store exSq 3
    (by norm_num) exSq_per (exSqRegime _) 2 s u hs hs1 hu hu1

/-- the hypotheses of `stroke_polyline_emission_shape_round` hold for the example -/
example (store : Nat → List ℝ) : Emitted (exEnvJ .round) exPt 3 (runEvents (exEnvJ .round) store (polyEvs exPt 3)).st.out :=
  stroke_polyline_emission_shape_round (exEnvJ .round) store rfl
    (fun x => by
      show Real.cos x * Real.cos x + Real.sin x * Real.sin x = 1
      have := Real.cos_sq_add_sin_sq x; nlinarith)
    (by decide) (by decide)
    (ne_of_gt (exHypJ .round (Or.inr (Or.inr (Or.inr rfl)))).hw) exPt 3 (by norm_num) (exRegimeJ _).1
    (fun i h1 h2 => by
      obtain ⟨i', rfl⟩ : ∃ i', i = i' + 1 := ⟨i - 1, by omega⟩
      exact (exRegimeJ _).2.2.2.1 i' (by omega))

/-! ### non-vacuity: Round join AND round caps on the polyline `exPt` -/

/-- tolerance 0.1, width 2, Round join, round caps, fixed width -/
noncomputable def exEnvR : Env ℝ :=
  Env.new ⟨1 / 10, 2, 4, .round, .round, .round, false, 0⟩ (lineIntersection (1 / 10 ^ 8))

theorem exTrig (x : ℝ) : Transc.cos x * Transc.cos x + Transc.sin x * Transc.sin x = 1 := by
  show Real.cos x * Real.cos x + Real.sin x * Real.sin x = 1
  have := Real.cos_sq_add_sin_sq x; nlinarith

theorem exHypR : CoverHyp exEnvR (1 / 10 ^ 8) where
  sqrt_nonneg := fun x _ => Real.sqrt_nonneg x
  sqrt_sq := fun x hx => Real.mul_self_sqrt hx
  ix_eq := rfl
  eps_nonneg := by positivity
  fw := rfl
  join := Or.inr (Or.inr (Or.inr ⟨rfl, exTrig⟩))
  clip := fun h => by cases h
  scap := Or.inr exTrig
  ecap := Or.inr exTrig
  hw := by
    show (0 : ℝ) < 2 * half
    have : (half : ℝ) = 1 / 2 := sc_half
    rw [this]; norm_num

/-- the 3-4-5 polyline is in the regime of the round / round configuration -/
theorem exRegimeR : Regime exEnvR (1 / 10 ^ 8) exPt 3 := by
  have hhw : exEnvR.hwFw = 1 := by
    show (2 : ℝ) * half = 1
    have : (half : ℝ) = 1 / 2 := sc_half
    rw [this]; norm_num
  refine ⟨?_, ?_, ?_, ?_, ?_⟩
  · intro i hi
    interval_cases i <;>
      (simp [exEnvR, exPt, pointsAreTooClose, Env.new, squareMergeThreshold, geom]; norm_num)
  · intro i hi
    interval_cases i
    · rw [exL0]; norm_num
    · rw [exL1]; norm_num
    · rw [exL2]; norm_num
  · intro i hi
    interval_cases i
    · rw [exT0, exT1, normalEpsilon_eq]; simp only [geom]; norm_num
    · rw [exT1, exT2, normalEpsilon_eq]; simp only [geom]; norm_num
  · intro i hi
    interval_cases i
    · apply noFoldAt_of_dot_nonneg
      have h1 : (exPt (0 + 1 + 1) - exPt (0 + 1)).sdiv (len (exPt (0 + 1 + 1) - exPt (0 + 1))) = eT exPt 1 := rfl
      have h0 : (exPt (0 + 1) - exPt 0).sdiv (len (exPt (0 + 1) - exPt 0)) = eT exPt 0 := rfl
      rw [h1, h0, exT0, exT1]; simp only [geom]; norm_num
    · apply noFoldAt_of_dot_nonneg
      have h1 : (exPt (1 + 1 + 1) - exPt (1 + 1)).sdiv (len (exPt (1 + 1 + 1) - exPt (1 + 1))) = eT exPt 2 := rfl
      have h0 : (exPt (1 + 1) - exPt 1).sdiv (len (exPt (1 + 1) - exPt 1)) = eT exPt 1 := rfl
      rw [h1, h0, exT1, exT2]; simp only [geom]; norm_num
  · intro i hi
    rw [hhw]
    interval_cases i
    · simp only [tauAbs]; norm_num; rw [exL0, exTau0]; norm_num [abs_of_neg]
    · simp only [tauAbs]; norm_num; rw [exL1, exTau0, exTau1]; norm_num [abs_of_neg, abs_of_pos]
    · simp only [tauAbs]; norm_num; rw [exL2, exTau1]; norm_num [abs_of_pos]

/-- round join, round caps: the rectangles are covered … -/
example (store : Nat → List ℝ) (s u : ℝ) (hs : 0 ≤ s) (hs1 : s ≤ 1) (hu : -1 ≤ u) (hu1 : u ≤ 1) :
    ∃ t ∈ (runEvents exEnvR store (polyEvs exPt 3)).st.out.tris, ∃ v1 v2 v3 : VData ℝ,
      (runEvents exEnvR store (polyEvs exPt 3)).st.out.verts[t.1]? = some v1
      ∧ (runEvents exEnvR store (polyEvs exPt 3)).st.out.verts[t.2.1]? = some v2
      ∧ (runEvents exEnvR store (polyEvs exPt 3)).st.out.verts[t.2.2]? = some v3
      ∧ InTri (bandPoint (exPt 2) (exPt (2 + 1)) ((perp (eT exPt 2)).smul exEnvR.hwFw) s u)
          (v1.read.position, v2.read.position, v3.read.position) :=
  stroke_polyline_covers_rectangles_round_caps exEnvR _ exHypR rfl rfl store exPt 3 (by norm_num) exRegimeR 2 (by norm_num)
    s u hs hs1 hu hu1

/-- … and no triangle has a point farther than `w/2 = 1` from the path -/
example (store : Nat → List ℝ) (t : Stroke.Tri) (ht : t ∈ (runEvents exEnvR store (polyEvs exPt 3)).st.out.tris) :
    ∃ k, k < 3 ∧ ∃ v1 v2 v3 : VData ℝ,
      (runEvents exEnvR store (polyEvs exPt 3)).st.out.verts[t.1]? = some v1
      ∧ (runEvents exEnvR store (polyEvs exPt 3)).st.out.verts[t.2.1]? = some v2
      ∧ (runEvents exEnvR store (polyEvs exPt 3)).st.out.verts[t.2.2]? = some v3
      ∧ ∀ q, InTri q (v1.read.position, v2.read.position, v3.read.position) →
          NearSeg (exPt k) (eT exPt k) (eL exPt k) (exEnvR.hwFw * exEnvR.hwFw) q :=
  stroke_polyline_within_half_width exEnvR _ exHypR (Or.inr rfl) (by decide) (by decide) store exPt 3 (by norm_num)
    exRegimeR t ht

end Real

end Lyon.C06f
