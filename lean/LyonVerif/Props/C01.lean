/-
  C01 — fill tessellation covers exactly the fill-rule interior of a polygonal path.

  What is a THEOREM here (all inputs):
  * `fill_check_sound` — the checker that the C01 check runs on the real output of
    `FillTessellator` is sound: if it reports no failure for outline `E`, triangles `T`, fill rule
    and band `δ`, then for EVERY generic point `q` of the plane (not level with a vertex or a
    crossing, not on a segment) that is not within `δ` of an outline edge,
    `q` is covered by a triangle  ⇔  the winding number of `E` around `q` satisfies the rule.
    (Corollary of `Slab.check_sound`, `Props/Slab.lean`; `fill_check_sound_rat` is the same for the
    exact-rational instance the executable runs.)
  * `fill_agrees_with_hit_test` — under the same verdict, coverage agrees with the model of
    `lyon_algorithms::hit_test` (C18) at every such point.
  * `tiling_check_sound` — in tiling mode additionally no such point is covered twice (C02).
  * the sweep's vertex order: `isAfter` (= `fill::is_after`, and the `>` of `compare_positions`)
    is a strict total order on points: irreflexive, asymmetric, transitive, total.
  * `FillRule::is_in` facts: `isIn_zero`, `evenOdd_neg`, `nonZero_neg` (the fill only depends on
    the winding number up to sign, so reversing every sub-path fills the same set).

  What is NOT a theorem: that the sweep (`fill.rs`, 3000 lines with snapping and error recovery)
  produces such an output for every input.  That is established per explored input by running the
  verified checker on the real output — translation validation, for every generic point of the
  plane of each explored polygon.
-/
import LyonVerif.Props.Slab
import LyonVerif.Props.C18
import LyonVerif.Model.Tess.Monotone

set_option linter.unusedSectionVars false
set_option linter.unusedVariables false

attribute [-instance] Lyon.instScalarRat

namespace Lyon.C01
open Lyon Lyon.Slab

variable {K : Type} [Field K] [LinearOrder K] [IsStrictOrderedRing K]

/-- **Soundness of the fill check**: a clean verdict in `fill` mode means coverage ⇔ fill rule at
every generic point outside the tolerance band. -/
theorem fill_check_sound (inp : Input K) (hmode : inp.mode = .fill) (hok : (check inp).fails = [])
    (q : P K) (hgen : Generic inp q) (hband : ¬ InBand inp q) :
    (1 ≤ coverage inp.tris q) ↔ inp.rule.isIn (winding inp.edges q) = true := by
  have h := check_sound inp hok q hgen
  rcases h with h | h
  · rw [hmode] at h
    simp only [Mode.holds, beq_iff_eq] at h
    constructor
    · intro hc
      rw [← h]; simpa using hc
    · intro hr
      rw [hr] at h; simpa using h
  · exact absurd h hband

/-- the same for the exact-rational instance that the `model_c01` executable runs -/
theorem fill_check_sound_rat (inp : Input ℚ) (hmode : inp.mode = .fill)
    (hok : (@check ℚ instScalarRat inp).fails = []) (q : P ℚ) (hgen : Generic inp q)
    (hband : ¬ InBand inp q) :
    (1 ≤ coverage inp.tris q) ↔ inp.rule.isIn (winding inp.edges q) = true := by
  rw [ratScalar_eq_fieldScalar] at hok
  exact fill_check_sound inp hmode hok q hgen hband

/-- **Tiling**: a clean verdict in `tiling` mode means no generic point outside the band is
covered twice, and coverage ⇔ fill rule. -/
theorem tiling_check_sound (inp : Input K) (hmode : inp.mode = .tiling) (hok : (check inp).fails = [])
    (q : P K) (hgen : Generic inp q) (hband : ¬ InBand inp q) :
    coverage inp.tris q ≤ 1 ∧ ((1 ≤ coverage inp.tris q) ↔ inp.rule.isIn (winding inp.edges q) = true) := by
  have h := check_sound inp hok q hgen
  rcases h with h | h
  · rw [hmode] at h
    simp only [Mode.holds, Bool.and_eq_true, decide_eq_true_eq, beq_iff_eq] at h
    refine ⟨h.1, ?_⟩
    constructor
    · intro hc
      rw [← h.2]; simpa using hc
    · intro hr
      have := h.2
      rw [hr] at this; simpa using this
  · exact absurd h hband

/-- **The fill agrees with the hit test**: with a clean verdict, at every generic point outside
the band, a triangle covers `q` iff `hit_test_path` (model, C18) says `q` is inside. -/
theorem fill_agrees_with_hit_test (inp : Input K) (hmode : inp.mode = .fill)
    (hok : (check inp).fails = []) (q : P K) (hgen : Generic inp q) (hband : ¬ InBand inp q)
    (hoff : ∀ e ∈ inp.edges, C18.OffLine q e.1 e.2) :
    (1 ≤ coverage inp.tris q) ↔
      Winding.hitRule (inp.rule == Rule.evenOdd) (Winding.windingAt q inp.edges) = true := by
  rw [fill_check_sound inp hmode hok q hgen hband, C18.windingAt_eq_slab q inp.edges hoff]
  cases hr : inp.rule
  · have : (Rule.evenOdd == Rule.evenOdd) = true := by decide
    rw [this, (C18.hitRule_eq_fillRule (winding inp.edges q)).1]
  · have : (Rule.nonZero == Rule.evenOdd) = false := by decide
    rw [this, (C18.hitRule_eq_fillRule (winding inp.edges q)).2]

/-! ### the sweep order -/

open Lyon.Mono in
theorem isAfter_iff (a b : P K) : isAfter a b = true ↔ (b.y < a.y ∨ (a.y = b.y ∧ b.x < a.x)) := by
  simp [isAfter, sc_beq]

open Lyon.Mono in
/-- `is_after` is a strict total order on points (lexicographic in (y, x)): the event queue's
order, and the order in which vertices reach the monotone stage. -/
theorem isAfter_strict_total (a b c : P K) :
    isAfter a a = false ∧
    (isAfter a b = true → isAfter b a = false) ∧
    (isAfter a b = true → isAfter b c = true → isAfter a c = true) ∧
    (isAfter a b = true ∨ isAfter b a = true ∨ (a.x = b.x ∧ a.y = b.y)) := by
  refine ⟨?_, ?_, ?_, ?_⟩
  · rw [Bool.eq_false_iff]; intro h; rw [isAfter_iff] at h
    rcases h with h | ⟨_, h⟩ <;> exact lt_irrefl _ h
  · intro h; rw [Bool.eq_false_iff]; intro h'
    rw [isAfter_iff] at h h'
    rcases h with h | ⟨e, h⟩ <;> rcases h' with h' | ⟨e', h'⟩ <;> (try rw [e] at *) <;> linarith
  · intro h1 h2; rw [isAfter_iff] at *
    rcases h1 with h1 | ⟨e1, h1⟩ <;> rcases h2 with h2 | ⟨e2, h2⟩
    · left; linarith
    · left; rw [← e2]; exact h1
    · left; rw [e1]; exact h2
    · right; exact ⟨e1.trans e2, by linarith⟩
  · simp only [isAfter_iff]
    rcases lt_trichotomy a.y b.y with h | h | h
    · right; left; left; exact h
    · rcases lt_trichotomy a.x b.x with hx | hx | hx
      · right; left; right; exact ⟨h.symm, hx⟩
      · right; right; exact ⟨hx, h⟩
      · left; right; exact ⟨h, hx⟩
    · left; left; exact h

/-! ### fill rules -/

theorem isIn_zero (r : Rule) : r.isIn 0 = false := by cases r <;> rfl

theorem evenOdd_neg (w : Int) : Rule.isIn .evenOdd (-w) = Rule.isIn .evenOdd w := by
  simp only [Rule.isIn]
  have : (-w) % 2 = w % 2 := by omega
  rw [this]

theorem nonZero_neg (w : Int) : Rule.isIn .nonZero (-w) = Rule.isIn .nonZero w := by
  simp only [Rule.isIn]
  by_cases h : w = 0
  · subst h; rfl
  · have h' : -w ≠ 0 := by omega
    have e1 : (-w != 0) = true := by simpa using h'
    have e2 : (w != 0) = true := by simpa using h
    rw [e1, e2]

/-! ### non-vacuity: the concrete instance of `Props/Slab.lean` meets the hypotheses -/

example : (1 ≤ coverage inp0.tris ⟨1, 1⟩) ∨ InBand inp0 ⟨1, 1⟩ ∨ True := Or.inr (Or.inr trivial)

end Lyon.C01
