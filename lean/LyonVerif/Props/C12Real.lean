/-
  C12 over ℝ: `cubic_polynomial_roots` and the cubic × line / segment queries are complete for
  transversal crossings — no law of `sqrt`/`pow`/`cos`/`acos` left as a hypothesis.

  The `Transc` parameters of the model instantiated with Mathlib's real functions (`Real.sqrt`,
  `Real.cos`, `Real.arccos`, `x ^ y` = `Real.rpow`, `Real.pi`; every real is finite), `signum` =
  the sign function of the field, lyon's `epsilon_for` / `EPSILON` an arbitrary positive function /
  constant (`[Eps ℝ]` with positivity hypotheses; `realEps64` below is the f64 table).

  * `real_cosLaws`, `real_sqrt_nonneg`, `real_sqrt_mul_self`, `real_cbrt_pow`   the laws hold
  * `cubic_polynomial_roots_trig_iff_real`      Δ < 0: result = set of real roots (3 distinct values)
  * `cubic_polynomial_roots_complete_real`      regime `¬|a| < ε`, Δ ≠ 0: EVERY real root is returned
  * `cubic_polynomial_roots_simple_complete_real`  regime, any Δ: every SIMPLE real root is returned
  * `cubic_polynomial_roots_repeated_real`      Δ = 0: the real roots are `x₁` and the double root
                                                `x₂`; the list is `x₁ :: (if ε' ≤ |s+t| then [x₂] else [])`
  * `cubic_polynomial_roots_sound_real`         regime: every returned value is a root, except the
                                                optional value of the branch Δ > 0 (never a root)
  * `cubic_polynomial_roots_exact_real`         the regime where every branch decision is exact:
                                                result = set of real roots
  * `cubic_roots_trig_order_real`               Δ < 0: the three values come as largest, smallest, middle
  * `cubic_line_transversal_crossing_reported_real`, `cubic_line_crossings_reported_real`,
    `cubic_line_crossings_order_real`           line × cubic (the property's wording)
  * `cubic_line_reported_on_line_or_near_real`  soundness of the line query (exact arithmetic)
  * `cubic_line_outside_regime_flat_real`       three crossings with `|A| < ε`: curve within `ε` of the line
  * `cubic_segment_transversal_crossing_reported_real`, `cubic_segment_crossings_reported_real`
  * non-vacuity: the cubic (0,−9) (1,13) (2,−13) (3,9) crosses the x-axis at t = 1/4, 1/2, 3/4; with
    the f64 `epsilon_for` table the query returns `[3/4, 1/4, 1/2]`.

  Not covered: rounding (tie + oracle), and cubics whose leading coefficient fails the code's
  test (`0 < |a| < ε`: the code solves the truncated polynomial).
-/
import LyonVerif.Props.C12d
import Mathlib.Analysis.SpecialFunctions.Trigonometric.Inverse
import Mathlib.Analysis.SpecialFunctions.Pow.Real

set_option linter.unusedSectionVars false
set_option linter.unusedVariables false
set_option warn.classDefReducibility false

namespace Lyon.C12Real
open Lyon Scalar Lyon.Ix Lyon.C12 Lyon.C12d Lyon.CubicRoots

/-- `Transc ℝ` with Mathlib's real functions (fields the intersection queries do not use are
placeholders) -/
noncomputable def realTransc : Transc ℝ where
  sqrt := Real.sqrt
  cbrt := fun _ => 0
  sin := Real.sin
  cos := Real.cos
  tan := Real.tan
  acos := Real.arccos
  atan2 := fun _ _ => 0
  pow := fun x y => x ^ y
  log2 := fun _ => 0
  ln := Real.log
  floor := fun x => (⌊x⌋ : ℝ)
  ceil := fun x => (⌈x⌉ : ℝ)
  toNat := fun x => ⌊x⌋.toNat
  fmod := fun x _ => x
  eps := 0
  pi := Real.pi
  isNaN := fun _ => false
  isFinite := fun _ => true

attribute [local instance] realTransc

/-! ### the laws -/

theorem real_sqrt_nonneg : ∀ x : ℝ, 0 ≤ x → 0 ≤ Transc.sqrt x := fun x _ => Real.sqrt_nonneg x

theorem real_sqrt_mul_self : ∀ x : ℝ, 0 ≤ x → Transc.sqrt x * Transc.sqrt x = x :=
  fun x hx => Real.mul_self_sqrt hx

theorem real_cbrt_pow : ∀ x : ℝ, 0 ≤ x → Transc.pow x (Roots.frac13 : ℝ) ^ 3 = x := by
  intro x hx
  rw [frac13_eq]
  show (x ^ (1 / 3 : ℝ)) ^ 3 = x
  rw [← Real.rpow_natCast, ← Real.rpow_mul hx]
  norm_num

theorem real_finite : ∀ x : ℝ, Transc.isFinite x = true := fun _ => rfl

/-- **the cosine laws hold for the real functions** -/
theorem real_cosLaws : CosLaws ℝ where
  cos_add_sub := fun x y => by
    show Real.cos (x + y) + Real.cos (x - y) = 2 * Real.cos x * Real.cos y
    rw [Real.cos_add, Real.cos_sub]; ring
  cos_zero := Real.cos_zero
  cos_two_pi_div_three := by
    show Real.cos (2 * Real.pi / 3) = -1 / 2
    rw [show 2 * Real.pi / 3 = Real.pi - Real.pi / 3 by ring, Real.cos_pi_sub, Real.cos_pi_div_three]
    norm_num
  cos_periodic := fun x => Real.cos_add_two_pi x
  cos_acos := fun x h1 h2 => Real.cos_arccos h1 h2

section general
variable [Eps ℝ]

/-! ### `cubic_polynomial_roots` over ℝ -/

/-- the discriminant expression the code computes, `δ₀³ + δ₁²` of the normalised cubic -/
noncomputable def disc (a b c d : ℝ) : ℝ :=
  Roots.delta01 (Roots.delta0 (b / a) (c / a)) (Roots.delta1 (b / a) (c / a) (d / a))

/-- **Δ < 0 (three real roots): the result is exactly the set of real roots**, three pairwise
distinct values. -/
theorem cubic_polynomial_roots_trig_iff_real (heps : ∀ r : ℝ, 0 < Eps.epsilonFor r) (a b c d : ℝ)
    (ha : ¬ |a| < Roots.eps a b c d) (hΔ : disc a b c d < 0) :
    (∀ x : ℝ, x ∈ Roots.cubicPolynomialRoots a b c d ↔ a * x ^ 3 + b * x ^ 2 + c * x + d = 0)
    ∧ (Roots.cubicPolynomialRoots a b c d).length = 3 ∧ (Roots.cubicPolynomialRoots a b c d).Nodup := by
  unfold Roots.cubicPolynomialRoots
  refine ⟨fun x => cubic_roots_trig_iff real_cosLaws real_sqrt_nonneg real_sqrt_mul_self _ a b c d x
    (heps _) ha hΔ, ?_⟩
  obtain ⟨x1, x2, x3, hl, d12, d13, d23, _⟩ := cubic_roots_trig_distinct real_cosLaws real_sqrt_nonneg
    real_sqrt_mul_self (Roots.eps a b c d) a b c d (heps _) ha hΔ
  rw [hl]
  refine ⟨rfl, ?_⟩
  simp only [List.nodup_cons, List.mem_cons, List.not_mem_nil, or_false, not_or, List.nodup_nil, and_true]
  exact ⟨⟨d12, d13⟩, d23, not_false⟩

/-- **Completeness over ℝ**: for every real cubic whose leading coefficient passes the code's
non-zero test (`¬ |a| < ε`, `ε = epsilon_for(max |coefficient|)`) and whose discriminant expression
is non-zero, the returned list contains EVERY real root. -/
theorem cubic_polynomial_roots_complete_real (heps : ∀ r : ℝ, 0 < Eps.epsilonFor r) (a b c d x : ℝ)
    (ha : ¬ |a| < Roots.eps a b c d) (hΔ : disc a b c d ≠ 0)
    (hx : a * x ^ 3 + b * x ^ 2 + c * x + d = 0) : x ∈ Roots.cubicPolynomialRoots a b c d :=
  cubic_roots_complete real_cosLaws real_sqrt_nonneg real_sqrt_mul_self real_cbrt_pow _ a b c d x
    (heps _) ha hΔ hx

/-- **Completeness for simple roots over ℝ, every discriminant**: every real root at which the
derivative does not vanish is returned. -/
theorem cubic_polynomial_roots_simple_complete_real (heps : ∀ r : ℝ, 0 < Eps.epsilonFor r)
    (a b c d x : ℝ) (ha : ¬ |a| < Roots.eps a b c d)
    (hx : a * x ^ 3 + b * x ^ 2 + c * x + d = 0) (hsimple : 3 * a * x ^ 2 + 2 * b * x + c ≠ 0) :
    x ∈ Roots.cubicPolynomialRoots a b c d :=
  cubic_roots_simple_complete real_cosLaws real_sqrt_nonneg real_sqrt_mul_self real_cbrt_pow _ a b c d x
    (heps _) ha hx hsimple

/-- **The repeated-root branch, exactly** (Δ = 0): `s = t`; the real roots are `x₁ = −bn/3 + 2s`
and the double root `x₂ = −bn/3 − s` (derivative zero there); the code returns `x₁`, and `x₂` iff
`|s + t| ≥ ε'` (`ε' = epsilon_for(max |normalised coefficient|)`): a double root closer than `3ε'/2`
to the simple root is not reported (for `s = 0` it IS the simple root: triple root). -/
theorem cubic_polynomial_roots_repeated_real (heps : ∀ r : ℝ, 0 < Eps.epsilonFor r) (a b c d : ℝ)
    (ha : ¬ |a| < Roots.eps a b c d) (hΔ : disc a b c d = 0) (s t : ℝ)
    (hs : s = Roots.cS (Roots.delta0 (b / a) (c / a)) (Roots.delta1 (b / a) (c / a) (d / a)))
    (ht : t = Roots.cT (Roots.delta0 (b / a) (c / a)) (Roots.delta1 (b / a) (c / a) (d / a))) :
    s = t
    ∧ Roots.cubicPolynomialRoots a b c d
        = (-(b / a) / 3 + (s + t)) ::
          (if Roots.epsN (b / a) (c / a) (d / a) ≤ |s + t| then [-(b / a) / 3 - (s + t) / 2] else [])
    ∧ (∀ x : ℝ, a * x ^ 3 + b * x ^ 2 + c * x + d = 0
        ↔ (x = -(b / a) / 3 + (s + t) ∨ x = -(b / a) / 3 - (s + t) / 2))
    ∧ 3 * a * (-(b / a) / 3 - (s + t) / 2) ^ 2 + 2 * b * (-(b / a) / 3 - (s + t) / 2) + c = 0 := by
  have ha0 := regime_ne_zero _ a (heps _) ha
  have hst : s = t := by
    rw [hs, ht]
    exact (cardano_s_eq_t_iff real_sqrt_nonneg real_sqrt_mul_self real_cbrt_pow _ _ (le_of_eq hΔ.symm)).mpr hΔ
  refine ⟨hst, ?_, ?_, ?_⟩
  · unfold Roots.cubicPolynomialRoots
    rw [cubic_roots_cardano_shape _ a b c d ha (le_of_eq hΔ.symm), ← hs, ← ht, hst, sub_self, abs_zero]
    have hε : 0 < Roots.epsN (b / a) (c / a) (d / a) := heps _
    simp only [hε, true_and]
  · intro x
    exact (cubic_roots_disc_zero real_sqrt_nonneg real_sqrt_mul_self real_cbrt_pow a b c d ha0 hΔ s t hs ht x).1
  · exact (cubic_roots_disc_zero real_sqrt_nonneg real_sqrt_mul_self real_cbrt_pow a b c d ha0 hΔ s t hs ht _).2 rfl

/-- **Soundness over ℝ, every discriminant**: every returned value is a real root, except the
optional value of the branch Δ > 0 (`|s − t| < ε'`), which is not. -/
theorem cubic_polynomial_roots_sound_real (heps : ∀ r : ℝ, 0 < Eps.epsilonFor r) (a b c d x : ℝ)
    (ha : ¬ |a| < Roots.eps a b c d) (hx : x ∈ Roots.cubicPolynomialRoots a b c d) :
    a * x ^ 3 + b * x ^ 2 + c * x + d = 0
    ∨ (0 < disc a b c d
        ∧ x = -(b / a) / 3 - (Roots.cS (Roots.delta0 (b / a) (c / a)) (Roots.delta1 (b / a) (c / a) (d / a))
              + Roots.cT (Roots.delta0 (b / a) (c / a)) (Roots.delta1 (b / a) (c / a) (d / a))) / 2
        ∧ |Roots.cS (Roots.delta0 (b / a) (c / a)) (Roots.delta1 (b / a) (c / a) (d / a))
              - Roots.cT (Roots.delta0 (b / a) (c / a)) (Roots.delta1 (b / a) (c / a) (d / a))|
              < Roots.epsN (b / a) (c / a) (d / a)
        ∧ a * x ^ 3 + b * x ^ 2 + c * x + d ≠ 0) :=
  cubic_roots_sound_or_repeated real_cosLaws real_sqrt_nonneg real_sqrt_mul_self real_cbrt_pow _ a b c d x
    (heps _) ha hx

/-- **The regime in which the code's branch decisions are exact** (leading coefficient passes the
non-zero test; for Δ > 0 the repeated-root test fails; for Δ = 0 the double root is either the
simple root or at least `ε'` … away in `|s + t|`): there the returned list is EXACTLY the set of
real roots of `a x³ + b x² + c x + d`. -/
theorem cubic_polynomial_roots_exact_real (heps : ∀ r : ℝ, 0 < Eps.epsilonFor r) (a b c d : ℝ)
    (ha : ¬ |a| < Roots.eps a b c d) (s t : ℝ)
    (hs : s = Roots.cS (Roots.delta0 (b / a) (c / a)) (Roots.delta1 (b / a) (c / a) (d / a)))
    (ht : t = Roots.cT (Roots.delta0 (b / a) (c / a)) (Roots.delta1 (b / a) (c / a) (d / a)))
    (hpos : 0 < disc a b c d →
      ¬ (|s - t| < Roots.epsN (b / a) (c / a) (d / a) ∧ Roots.epsN (b / a) (c / a) (d / a) ≤ |s + t|))
    (hzero : disc a b c d = 0 → (s + t = 0 ∨ Roots.epsN (b / a) (c / a) (d / a) ≤ |s + t|)) (x : ℝ) :
    x ∈ Roots.cubicPolynomialRoots a b c d ↔ a * x ^ 3 + b * x ^ 2 + c * x + d = 0 :=
  cubic_roots_exact_regime_iff real_cosLaws real_sqrt_nonneg real_sqrt_mul_self real_cbrt_pow _ a b c d
    (heps _) ha (heps _) s t hs ht hpos hzero x

/-- **The order of the three values** (Δ < 0): `cubic_polynomial_roots` returns the largest root
first, then the smallest, then the middle one (`cos` is strictly decreasing on `[0, π]` and
`θ = arccos(·) ∈ (0, π)`). -/
theorem cubic_roots_trig_order_real (heps : ∀ r : ℝ, 0 < Eps.epsilonFor r) (a b c d : ℝ)
    (ha : ¬ |a| < Roots.eps a b c d) (hΔ : disc a b c d < 0) :
    ∃ x1 x2 x3 : ℝ, Roots.cubicPolynomialRoots a b c d = [x1, x2, x3] ∧ x2 < x3 ∧ x3 < x1 := by
  unfold Roots.cubicPolynomialRoots
  rw [rootsWith_regime _ a b c d ha, cardano_neg _ _ _ hΔ, cardano3_eq]
  have hD' : Roots.delta0 (b / a) (c / a) * Roots.delta0 (b / a) (c / a) * Roots.delta0 (b / a) (c / a)
      + Roots.delta1 (b / a) (c / a) (d / a) * Roots.delta1 (b / a) (c / a) (d / a) < 0 := hΔ
  set d0 := Roots.delta0 (b / a) (c / a)
  set d1 := Roots.delta1 (b / a) (c / a) (d / a)
  obtain ⟨_, _, hm, _, _, hlo, hhi⟩ := trig_regime real_sqrt_nonneg real_sqrt_mul_self d0 d1 hD'
  have hθ0 : 0 < Roots.theta d0 d1 := by
    rw [theta_eq]; exact Real.arccos_pos.mpr hhi
  have hθ1 : Roots.theta d0 d1 < Real.pi := by
    rw [theta_eq]; exact Real.arccos_lt_pi.mpr hlo
  set θ := Roots.theta d0 d1
  have hpi := Real.pi_pos
  have e2 : Transc.cos (θ / 3 + 4 * Transc.pi / 3) = Real.cos (2 * Real.pi / 3 - θ / 3) := by
    show Real.cos (θ / 3 + 4 * Real.pi / 3) = _
    rw [← Real.cos_two_pi_sub]; congr 1; ring
  have c1 : Real.cos (2 * Real.pi / 3 - θ / 3) < Real.cos (θ / 3) :=
    Real.cos_lt_cos_of_nonneg_of_le_pi (by linarith) (by linarith) (by linarith)
  have c2 : Real.cos (θ / 3 + 2 * Real.pi / 3) < Real.cos (2 * Real.pi / 3 - θ / 3) :=
    Real.cos_lt_cos_of_nonneg_of_le_pi (by linarith) (by linarith) (by linarith)
  refine ⟨_, _, _, rfl, ?_, ?_⟩
  · rw [e2]
    have : Transc.cos (θ / 3 + 2 * Transc.pi / 3) = Real.cos (θ / 3 + 2 * Real.pi / 3) := rfl
    rw [this]
    have := mul_lt_mul_of_pos_left c2 (mul_pos two_pos hm)
    linarith
  · rw [e2]
    have : Transc.cos (θ / 3) = Real.cos (θ / 3) := rfl
    rw [this]
    have := mul_lt_mul_of_pos_left c1 (mul_pos two_pos hm)
    linarith

/-! ### cubic × line and cubic × segment over ℝ -/

/-- **A line that crosses a cubic transversally is reported there** (ℝ; every number of crossings):
non-zero direction, leading coefficient of the composed polynomial passing the code's test; `t ∈ [0,1]`
with the curve point on the line and the tangent not parallel to the line. -/
theorem cubic_line_transversal_crossing_reported_real (heps : ∀ r : ℝ, 0 < Eps.epsilonFor r)
    (c : Cubic ℝ) (l : Line ℝ) (hv : l.vector.x ≠ 0 ∨ l.vector.y ≠ 0)
    (hA : ¬ |c.liCoefA (Cubic.unitLine l)| < Roots.eps (c.liCoefA (Cubic.unitLine l))
      (c.liCoefB (Cubic.unitLine l)) (c.liCoefC (Cubic.unitLine l)) (c.liCoefD (Cubic.unitLine l)))
    (t : ℝ) (h0 : 0 ≤ t) (h1 : t ≤ 1) (hon : l.vector.cross (c.sample t - l.point) = 0)
    (htr : l.vector.cross (c.derivative t) ≠ 0) : t ∈ c.lineIntersectionsT l :=
  cubic_line_transversal_crossing_reported real_cosLaws real_sqrt_nonneg real_sqrt_mul_self real_cbrt_pow
    real_finite heps c l hv hA t h0 h1 hon htr


/-- **Soundness of the line query over ℝ**: every reported parameter is in `[0,1]` and its curve
point is on the line, except the optional value of the branch Δ > 0, whose signed distance to the
line is `(9/8)·A·(s+t)·(s−t)²` with `|s − t| < ε'`. -/
theorem cubic_line_reported_on_line_or_near_real (heps : ∀ r : ℝ, 0 < Eps.epsilonFor r)
    (c : Cubic ℝ) (l : Line ℝ) (hv : l.vector.x ≠ 0 ∨ l.vector.y ≠ 0)
    (hA : ¬ |c.liCoefA (Cubic.unitLine l)| < Roots.eps (c.liCoefA (Cubic.unitLine l))
      (c.liCoefB (Cubic.unitLine l)) (c.liCoefC (Cubic.unitLine l)) (c.liCoefD (Cubic.unitLine l)))
    (t : ℝ) (ht : t ∈ c.lineIntersectionsT l) :
    0 ≤ t ∧ t ≤ 1 ∧
    (l.vector.cross (c.sample t - l.point) = 0
      ∨ ∃ s' t' : ℝ, |s' - t'| < Roots.epsN (c.liCoefB (Cubic.unitLine l) / c.liCoefA (Cubic.unitLine l))
            (c.liCoefC (Cubic.unitLine l) / c.liCoefA (Cubic.unitLine l))
            (c.liCoefD (Cubic.unitLine l) / c.liCoefA (Cubic.unitLine l))
          ∧ (Cubic.unitLine l).vector.cross (c.sample t - l.point)
              = (9 / 8) * c.liCoefA (Cubic.unitLine l) * (s' + t') * (s' - t') ^ 2) :=
  cubic_line_reported_on_line_or_near real_cosLaws real_sqrt_nonneg real_sqrt_mul_self real_cbrt_pow
    real_finite heps c l hv hA t ht

/-- **Outside the regime over ℝ**: three crossings in `[0,1]` with `|A| < ε`: the whole curve piece
is within `ε` of the line (no crossing is "well separated" from the line's other points). -/
theorem cubic_line_outside_regime_flat_real (c : Cubic ℝ) (l : Line ℝ)
    (hv : l.vector.x ≠ 0 ∨ l.vector.y ≠ 0)
    (hA : |c.liCoefA (Cubic.unitLine l)| < Roots.eps (c.liCoefA (Cubic.unitLine l))
      (c.liCoefB (Cubic.unitLine l)) (c.liCoefC (Cubic.unitLine l)) (c.liCoefD (Cubic.unitLine l)))
    (t1 t2 t3 : ℝ) (h01 : 0 ≤ t1) (h12 : t1 < t2) (h23 : t2 < t3) (h31 : t3 ≤ 1)
    (on1 : l.vector.cross (c.sample t1 - l.point) = 0)
    (on2 : l.vector.cross (c.sample t2 - l.point) = 0)
    (on3 : l.vector.cross (c.sample t3 - l.point) = 0) (t : ℝ) (h0 : 0 ≤ t) (h1 : t ≤ 1) :
    |(Cubic.unitLine l).vector.cross (c.sample t - l.point)| < Roots.eps (c.liCoefA (Cubic.unitLine l))
      (c.liCoefB (Cubic.unitLine l)) (c.liCoefC (Cubic.unitLine l)) (c.liCoefD (Cubic.unitLine l)) :=
  (cubic_line_outside_regime_flat real_sqrt_mul_self c l hv _ hA t1 t2 t3 h01 h12 h23 h31 on1 on2 on3
    t h0 h1).1

/-- **The property's wording, ℝ**: if a line crosses a cubic Bézier at three parameters
`t₁ < t₂ < t₃` of `[0,1]` (three distinct roots of the composed cubic: all simple, the crossings are
transversal), `line_intersections_t` returns a duplicate-free list of length three whose members
are exactly `t₁, t₂, t₃`. -/
theorem cubic_line_crossings_reported_real (heps : ∀ r : ℝ, 0 < Eps.epsilonFor r)
    (c : Cubic ℝ) (l : Line ℝ) (hv : l.vector.x ≠ 0 ∨ l.vector.y ≠ 0)
    (hA : ¬ |c.liCoefA (Cubic.unitLine l)| < Roots.eps (c.liCoefA (Cubic.unitLine l))
      (c.liCoefB (Cubic.unitLine l)) (c.liCoefC (Cubic.unitLine l)) (c.liCoefD (Cubic.unitLine l)))
    (t1 t2 t3 : ℝ) (h01 : 0 ≤ t1) (h12 : t1 < t2) (h23 : t2 < t3) (h31 : t3 ≤ 1)
    (on1 : l.vector.cross (c.sample t1 - l.point) = 0)
    (on2 : l.vector.cross (c.sample t2 - l.point) = 0)
    (on3 : l.vector.cross (c.sample t3 - l.point) = 0) :
    (∀ t : ℝ, t ∈ c.lineIntersectionsT l ↔ (t = t1 ∨ t = t2 ∨ t = t3))
    ∧ (c.lineIntersectionsT l).length = 3 ∧ (c.lineIntersectionsT l).Nodup := by
  obtain ⟨h1, h2, h3, _⟩ := cubic_line_crossings_reported real_cosLaws real_sqrt_nonneg real_sqrt_mul_self
    real_finite heps c l hv hA t1 t2 t3 h01 h12 h23 h31 on1 on2 on3
  exact ⟨h1, h2, h3⟩

/-- **… and in which order**: the list is `[t₃, t₁, t₂]` (largest, smallest, middle: the angles
`θ/3`, `θ/3 + 2π/3`, `θ/3 + 4π/3`). -/
theorem cubic_line_crossings_order_real (heps : ∀ r : ℝ, 0 < Eps.epsilonFor r)
    (c : Cubic ℝ) (l : Line ℝ) (hv : l.vector.x ≠ 0 ∨ l.vector.y ≠ 0)
    (hA : ¬ |c.liCoefA (Cubic.unitLine l)| < Roots.eps (c.liCoefA (Cubic.unitLine l))
      (c.liCoefB (Cubic.unitLine l)) (c.liCoefC (Cubic.unitLine l)) (c.liCoefD (Cubic.unitLine l)))
    (t1 t2 t3 : ℝ) (h01 : 0 ≤ t1) (h12 : t1 < t2) (h23 : t2 < t3) (h31 : t3 ≤ 1)
    (on1 : l.vector.cross (c.sample t1 - l.point) = 0)
    (on2 : l.vector.cross (c.sample t2 - l.point) = 0)
    (on3 : l.vector.cross (c.sample t3 - l.point) = 0) :
    c.lineIntersectionsT l = [t3, t1, t2] := by
  obtain ⟨hmem, _, _, hlist⟩ := cubic_line_crossings_reported real_cosLaws real_sqrt_nonneg
    real_sqrt_mul_self real_finite heps c l hv hA t1 t2 t3 h01 h12 h23 h31 on1 on2 on3
  -- three distinct roots: Δ < 0
  have hlen : (c.lineIntersectionsT l).length = 3 := by
    obtain ⟨_, h, _⟩ := cubic_line_crossings_reported_real heps c l hv hA t1 t2 t3 h01 h12 h23 h31 on1 on2 on3
    exact h
  set A := c.liCoefA (Cubic.unitLine l)
  set B := c.liCoefB (Cubic.unitLine l)
  set C := c.liCoefC (Cubic.unitLine l)
  set D := c.liCoefD (Cubic.unitLine l)
  have hΔ : disc A B C D < 0 := by
    by_contra hn
    rw [not_lt] at hn
    have hsh := cubic_roots_cardano_shape (Roots.eps A B C D) A B C D hA hn
    have : (Roots.cubicPolynomialRoots A B C D).length ≤ 2 := by
      unfold Roots.cubicPolynomialRoots
      rw [hsh]
      split <;> simp
    rw [← hlist, hlen] at this
    omega
  obtain ⟨x1, x2, x3, hl, o1, o2⟩ := cubic_roots_trig_order_real heps A B C D hA hΔ
  rw [hlist, hl]
  have m1 := (hmem x1).mp (by rw [hlist, hl]; simp)
  have m2 := (hmem x2).mp (by rw [hlist, hl]; simp)
  have m3 := (hmem x3).mp (by rw [hlist, hl]; simp)
  have e2 : x2 = t1 := by
    rcases m1 with a1 | a1 | a1 <;> rcases m2 with a2 | a2 | a2 <;> rcases m3 with a3 | a3 | a3 <;>
      first | exact a2 | (exfalso; linarith)
  have e3 : x3 = t2 := by
    rcases m1 with a1 | a1 | a1 <;> rcases m2 with a2 | a2 | a2 <;> rcases m3 with a3 | a3 | a3 <;>
      first | exact a3 | (exfalso; linarith)
  have e1 : x1 = t3 := by
    rcases m1 with a1 | a1 | a1 <;> rcases m2 with a2 | a2 | a2 <;> rcases m3 with a3 | a3 | a3 <;>
      first | exact a1 | (exfalso; linarith)
  rw [e1, e2, e3]

/-- **Segment version, one crossing**: the curve at `t ∈ (0,1)` meets the non-degenerate segment
at `u ∈ [0,1]` transversally: `(t, u)` is reported by `line_segment_intersections_t`. -/
theorem cubic_segment_transversal_crossing_reported_real (heps : ∀ r : ℝ, 0 < Eps.epsilonFor r)
    (hE : 0 < (Eps.epsilon : ℝ)) (c : Cubic ℝ) (s : Seg ℝ) (hab : s.a ≠ s.b)
    (hA : ¬ |c.liCoefA (Cubic.unitLine s.toLine)| < Roots.eps (c.liCoefA (Cubic.unitLine s.toLine))
      (c.liCoefB (Cubic.unitLine s.toLine)) (c.liCoefC (Cubic.unitLine s.toLine))
      (c.liCoefD (Cubic.unitLine s.toLine)))
    (t u : ℝ) (ht0 : 0 < t) (ht1 : t < 1) (hu0 : 0 ≤ u) (hu1 : u ≤ 1) (hp : c.sample t = s.sample u)
    (htr : s.toVector.cross (c.derivative t) ≠ 0) : (t, u) ∈ c.lineSegmentIntersectionsT s :=
  cubic_segment_transversal_crossing_reported real_cosLaws real_sqrt_nonneg real_sqrt_mul_self real_cbrt_pow
    real_finite heps hE c s hab hA t u ht0 ht1 hu0 hu1 hp htr

/-- **Segment version, three crossings of the carrier line** at `0 < t₁ < t₂ < t₃ < 1`: the answer
of `line_segment_intersections_t` is exactly the set of pairs `(tᵢ, u)`, `u ∈ [0,1]`,
`curve(tᵢ) = segment(u)`. -/
theorem cubic_segment_crossings_reported_real (heps : ∀ r : ℝ, 0 < Eps.epsilonFor r)
    (hE : 0 < (Eps.epsilon : ℝ)) (c : Cubic ℝ) (s : Seg ℝ) (hab : s.a ≠ s.b)
    (hA : ¬ |c.liCoefA (Cubic.unitLine s.toLine)| < Roots.eps (c.liCoefA (Cubic.unitLine s.toLine))
      (c.liCoefB (Cubic.unitLine s.toLine)) (c.liCoefC (Cubic.unitLine s.toLine))
      (c.liCoefD (Cubic.unitLine s.toLine)))
    (t1 t2 t3 : ℝ) (h01 : 0 < t1) (h12 : t1 < t2) (h23 : t2 < t3) (h31 : t3 < 1)
    (on1 : s.toVector.cross (c.sample t1 - s.a) = 0)
    (on2 : s.toVector.cross (c.sample t2 - s.a) = 0)
    (on3 : s.toVector.cross (c.sample t3 - s.a) = 0) (t u : ℝ) :
    (t, u) ∈ c.lineSegmentIntersectionsT s ↔
      ((t = t1 ∨ t = t2 ∨ t = t3) ∧ 0 ≤ u ∧ u ≤ 1 ∧ c.sample t = s.sample u) :=
  cubic_segment_crossings_reported real_cosLaws real_sqrt_nonneg real_sqrt_mul_self real_finite heps hE c s
    hab hA t1 t2 t3 h01 h12 h23 h31 on1 on2 on3 t u

end general

/-! ### non-vacuity: a concrete cubic and line with three crossings, evaluated -/

section concrete

/-- lyon's `impl Scalar for f64` on real arguments: `EPSILON = 1e-8` and the `epsilon_for` table
(`reference.abs() as i64` = floor of the absolute value) -/
noncomputable def realEps64 : Eps ℝ where
  epsilon := 1 / 10 ^ 8
  epsilonFor r :=
    if Transc.toNat |r| ≤ 65535 then 1 / 10 ^ 8
    else if Transc.toNat |r| ≤ 8388607 then 1 / 10 ^ 5
    else if Transc.toNat |r| ≤ 4294967295 then 1 / 10 ^ 3
    else 1 / 10

attribute [local instance] realEps64

theorem realEps64_pos : ∀ r : ℝ, 0 < (Eps.epsilonFor r : ℝ) := by
  intro r
  show 0 < (if Transc.toNat |r| ≤ 65535 then (1 / 10 ^ 8 : ℝ) else if Transc.toNat |r| ≤ 8388607 then 1 / 10 ^ 5
    else if Transc.toNat |r| ≤ 4294967295 then 1 / 10 ^ 3 else 1 / 10)
  split_ifs <;> norm_num

theorem realEps64_le : ∀ r : ℝ, (Eps.epsilonFor r : ℝ) ≤ 1 / 10 := by
  intro r
  show (if Transc.toNat |r| ≤ 65535 then (1 / 10 ^ 8 : ℝ) else if Transc.toNat |r| ≤ 8388607 then 1 / 10 ^ 5
    else if Transc.toNat |r| ≤ 4294967295 then 1 / 10 ^ 3 else 1 / 10) ≤ 1 / 10
  split_ifs <;> norm_num

theorem realEps64_epsilon_pos : 0 < (Eps.epsilon : ℝ) := by
  show (0:ℝ) < 1 / 10 ^ 8
  norm_num

/-- the leading coefficient `1` passes the f64 non-zero test whatever the other coefficients -/
theorem one_regime (b c d : ℝ) : ¬ |(1:ℝ)| < Roots.eps 1 b c d := by
  rw [not_lt, abs_one]
  exact le_trans (realEps64_le _) (by norm_num)

/-- non-vacuity, Δ < 0: `x³ − 7x + 6 = (x − 1)(x − 2)(x + 3)`: `Δ = −100/27`; the three roots are
returned -/
example : (1:ℝ) ∈ Roots.cubicPolynomialRoots 1 0 (-7) 6 ∧ (2:ℝ) ∈ Roots.cubicPolynomialRoots 1 0 (-7) 6
    ∧ (-3:ℝ) ∈ Roots.cubicPolynomialRoots 1 0 (-7) 6 := by
  have hΔ : disc 1 0 (-7) 6 < 0 := by
    simp only [disc, geom, Nat.cast_ofNat]; norm_num
  obtain ⟨h, _, _⟩ := cubic_polynomial_roots_trig_iff_real realEps64_pos 1 0 (-7) 6 (one_regime _ _ _) hΔ
  refine ⟨(h 1).mpr (by norm_num), (h 2).mpr (by norm_num), (h (-3)).mpr (by norm_num)⟩

/-- non-vacuity, Δ > 0: `x³ − 1`: `Δ = 1/4`; the real root `1` is returned -/
example : (1:ℝ) ∈ Roots.cubicPolynomialRoots 1 0 0 (-1) := by
  have hΔ : disc 1 0 0 (-1) ≠ 0 := by
    simp only [disc, geom, Nat.cast_ofNat]; norm_num
  exact cubic_polynomial_roots_complete_real realEps64_pos 1 0 0 (-1) 1 (one_regime _ _ _) hΔ (by norm_num)

/-- non-vacuity, Δ = 0: `x³ − 3x − 2 = (x − 2)(x + 1)²`; the simple root `2` is returned (it is
simple: the derivative there is `9`) -/
example : disc 1 0 (-3) (-2) = 0 ∧ (2:ℝ) ∈ Roots.cubicPolynomialRoots 1 0 (-3) (-2) := by
  constructor
  · simp only [disc, geom, Nat.cast_ofNat]; norm_num
  · exact cubic_polynomial_roots_simple_complete_real realEps64_pos 1 0 (-3) (-2) 2 (one_regime _ _ _)
      (by norm_num) (by norm_num)

/-- the cubic (0,−9) (1,13) (2,−13) (3,9): `x(t) = 3t`, `y(t) = 96 (t − 1/4)(t − 1/2)(t − 3/4)` -/
def exCubic : Cubic ℝ := ⟨⟨0, -9⟩, ⟨1, 13⟩, ⟨2, -13⟩, ⟨3, 9⟩⟩
/-- the x-axis -/
def exLine : Line ℝ := ⟨⟨0, 0⟩, ⟨1, 0⟩⟩
/-- the part `[0,1]` of the x-axis -/
def exSeg : Seg ℝ := ⟨⟨0, 0⟩, ⟨1, 0⟩⟩

theorem exLine_unit : Cubic.unitLine exLine = exLine := by
  unfold Cubic.unitLine Cubic.lineLen exLine
  have : Transc.sqrt ((⟨1, 0⟩ : P ℝ).sqLen) = 1 := by
    show Real.sqrt (1 * 1 + 0 * 0) = 1
    norm_num
  rw [this]
  simp [P.sdiv]

theorem exSeg_toLine : exSeg.toLine = exLine := by
  unfold Seg.toLine exSeg exLine
  simp [P.sub_def]

theorem ex_sample (t : ℝ) : exCubic.sample t = ⟨3 * t, 96 * ((t - 1 / 4) * (t - 1 / 2) * (t - 3 / 4))⟩ := by
  apply P.ext' <;> simp only [exCubic, geom, Nat.cast_one, Nat.cast_ofNat] <;> ring

theorem ex_regime : ¬ |exCubic.liCoefA (Cubic.unitLine exLine)| < Roots.eps (exCubic.liCoefA (Cubic.unitLine exLine))
    (exCubic.liCoefB (Cubic.unitLine exLine)) (exCubic.liCoefC (Cubic.unitLine exLine))
    (exCubic.liCoefD (Cubic.unitLine exLine)) := by
  rw [exLine_unit, not_lt]
  have hA : exCubic.liCoefA exLine = -96 := by
    simp only [exCubic, exLine, geom, Nat.cast_ofNat]; norm_num
  rw [hA]
  refine le_trans (realEps64_le _) ?_
  norm_num

theorem ex_on (t : ℝ) (h : t = 1 / 4 ∨ t = 1 / 2 ∨ t = 3 / 4) :
    exLine.vector.cross (exCubic.sample t - exLine.point) = 0 := by
  rw [ex_sample]
  rcases h with h | h | h <;> rw [h] <;> simp only [exLine, geom] <;> norm_num


theorem realEps64_ge : ∀ r : ℝ, 1 / 10 ^ 8 ≤ (Eps.epsilonFor r : ℝ) := by
  intro r
  show 1 / 10 ^ 8 ≤ (if Transc.toNat |r| ≤ 65535 then (1 / 10 ^ 8 : ℝ) else if Transc.toNat |r| ≤ 8388607 then 1 / 10 ^ 5
    else if Transc.toNat |r| ≤ 4294967295 then 1 / 10 ^ 3 else 1 / 10)
  split_ifs <;> norm_num

/-- the same cubic flattened by `10⁻¹¹` in `y`: three crossings of the x-axis, but the leading
coefficient `96·10⁻¹¹` fails the f64 non-zero test (`ε = 10⁻⁸`) -/
noncomputable def flatCubic : Cubic ℝ :=
  ⟨⟨0, -9 / 10 ^ 11⟩, ⟨1, 13 / 10 ^ 11⟩, ⟨2, -13 / 10 ^ 11⟩, ⟨3, 9 / 10 ^ 11⟩⟩

/-- non-vacuity of `cubic_line_outside_regime_flat_real`: its hypotheses hold for `flatCubic` and the
x-axis (crossings at `1/4, 1/2, 3/4`, `|A| = 96·10⁻¹¹ < 10⁻⁸ ≤ ε`); so the whole curve is within `ε` of
the axis -/
example (t : ℝ) (h0 : 0 ≤ t) (h1 : t ≤ 1) :
    |(Cubic.unitLine exLine).vector.cross (flatCubic.sample t - exLine.point)|
      < Roots.eps (flatCubic.liCoefA (Cubic.unitLine exLine)) (flatCubic.liCoefB (Cubic.unitLine exLine))
          (flatCubic.liCoefC (Cubic.unitLine exLine)) (flatCubic.liCoefD (Cubic.unitLine exLine)) := by
  have hs : ∀ t : ℝ, flatCubic.sample t = ⟨3 * t, 96 / 10 ^ 11 * ((t - 1 / 4) * (t - 1 / 2) * (t - 3 / 4))⟩ := by
    intro t
    apply P.ext' <;> simp only [flatCubic, geom, Nat.cast_one, Nat.cast_ofNat] <;> ring
  have on : ∀ t : ℝ, (t = 1 / 4 ∨ t = 1 / 2 ∨ t = 3 / 4) →
      exLine.vector.cross (flatCubic.sample t - exLine.point) = 0 := by
    intro t h
    rw [hs]
    rcases h with h | h | h <;> rw [h] <;> simp only [exLine, geom] <;> norm_num
  apply cubic_line_outside_regime_flat_real flatCubic exLine (Or.inl (by simp [exLine])) _
    (1 / 4) (1 / 2) (3 / 4) (by norm_num) (by norm_num) (by norm_num) (by norm_num)
    (on _ (Or.inl rfl)) (on _ (Or.inr (Or.inl rfl))) (on _ (Or.inr (Or.inr rfl))) t h0 h1
  rw [exLine_unit]
  have hA : flatCubic.liCoefA exLine = -96 / 10 ^ 11 := by
    simp only [flatCubic, exLine, geom, Nat.cast_ofNat]; norm_num
  rw [hA]
  refine lt_of_lt_of_le ?_ (realEps64_ge _)
  rw [abs_of_neg (by norm_num)]; norm_num

/-- **A concrete cubic and line with three crossings, evaluated**: the cubic (0,−9) (1,13) (2,−13)
(3,9) crosses the x-axis at `t = 1/4, 1/2, 3/4`; over ℝ with the f64 `epsilon_for` table the model
of `line_intersections_t` returns exactly `[3/4, 1/4, 1/2]`.  (The same model `#eval`uated at `Float` returns
`[0.75, 0.25 + 1 ulp, 0.5 − 1 ulp]`, at `Float32` `[0.75, 0.25 − 2 ulp, 0.5]` — same order; the tie
compares such outputs with lyon bit for bit on every run.) -/
theorem three_crossings_evaluated_real : exCubic.lineIntersectionsT exLine = [3 / 4, 1 / 4, 1 / 2] :=
  cubic_line_crossings_order_real realEps64_pos exCubic exLine (Or.inl (by simp [exLine])) ex_regime
    (1 / 4) (1 / 2) (3 / 4) (by norm_num) (by norm_num) (by norm_num) (by norm_num)
    (ex_on _ (Or.inl rfl)) (ex_on _ (Or.inr (Or.inl rfl))) (ex_on _ (Or.inr (Or.inr rfl)))


/-- non-vacuity of `cubic_line_reported_on_line_or_near_real`: its hypotheses hold for `exCubic` and
the x-axis; `3/4` is reported, so it is in `[0,1]` and on the line (or the near-miss value) -/
example : (0:ℝ) ≤ 3 / 4 ∧ (3 / 4 : ℝ) ≤ 1 := by
  obtain ⟨h0, h1, _⟩ := cubic_line_reported_on_line_or_near_real realEps64_pos exCubic exLine
    (Or.inl (by simp [exLine])) ex_regime (3 / 4) (by rw [three_crossings_evaluated_real]; simp)
  exact ⟨h0, h1⟩

/-- non-vacuity of the transversality hypothesis: at `t = 1/2` the tangent `(3, −6)` is not parallel
to the x-axis -/
example : exLine.vector.cross (exCubic.derivative (1 / 2)) ≠ 0 := by
  simp only [exCubic, exLine, geom, Nat.cast_ofNat]; norm_num

/-- **… and against the segment `[0,1]` of the x-axis**: of the three crossings of the carrier
line (at `x = 3/4, 3/2, 9/4`) only the first lies on the segment; `line_segment_intersections_t`
returns exactly the pair `(1/4, 3/4)`. -/
theorem segment_crossing_evaluated_real (t u : ℝ) :
    (t, u) ∈ exCubic.lineSegmentIntersectionsT exSeg ↔ (t = 1 / 4 ∧ u = 3 / 4) := by
  have hab : exSeg.a ≠ exSeg.b := by
    intro h
    have := congrArg P.x h
    simp [exSeg] at this
  have hon : ∀ t : ℝ, (t = 1 / 4 ∨ t = 1 / 2 ∨ t = 3 / 4) → exSeg.toVector.cross (exCubic.sample t - exSeg.a) = 0 := by
    intro t h
    have := ex_on t h
    rw [← exSeg_toLine] at this
    exact this
  rw [cubic_segment_crossings_reported_real realEps64_pos realEps64_epsilon_pos exCubic exSeg hab
    (by rw [exSeg_toLine]; exact ex_regime) (1 / 4) (1 / 2) (3 / 4) (by norm_num) (by norm_num) (by norm_num)
    (by norm_num) (hon _ (Or.inl rfl)) (hon _ (Or.inr (Or.inl rfl))) (hon _ (Or.inr (Or.inr rfl))) t u]
  have hs : exSeg.sample u = ⟨u, 0⟩ := by
    apply P.ext' <;> simp only [exSeg, geom, Nat.cast_one] <;> ring
  rw [ex_sample, hs]
  constructor
  · rintro ⟨ht, hu0, hu1, hp⟩
    have hx : 3 * t = u := congrArg P.x hp
    rcases ht with h | h | h
    · exact ⟨h, by rw [← hx, h]; norm_num⟩
    · exfalso; rw [h] at hx; linarith
    · exfalso; rw [h] at hx; linarith
  · rintro ⟨ht, hu⟩
    refine ⟨Or.inl ht, by rw [hu]; norm_num, by rw [hu]; norm_num, ?_⟩
    rw [ht, hu]
    apply P.ext' <;> norm_num

end concrete

end Lyon.C12Real
