/-
  C08 — tessellators carry no state from one call to the next: the FILL tessellator on CURVED input
  with CUSTOM ATTRIBUTES, end to end, composed.

  `Props/C08b.lean` proves the property for polygonal input on the complete sweep model; for curves
  and attributes the pieces were separate (sweep for any queue; queue builder and attribute buffer
  on the record-of-fields model).  Here they are ONE statement about ONE model
  (`Model/Tess/ResetSweepCurves.lean`, built from the definitions that are tied bit for bit: the
  queue builder with the curve flattening inside — `SweepCurves.feedAll`, family `sweepc:32` of C01 —
  pushing into the recycled queue `Sweep.ofRecsFrom`, `Queue.sort`, the sweep on a used object
  `Sweep.tessellateImplFrom`, and `FillVertex::interpolated_attributes` on the object's own
  `attrib_buffer` — `Reset.interp`, family `chk_interp` —; the whole on a REUSED real object: family
  `sweepc_reuse:32` of this check).

  Main theorems (no hypotheses on the object, the history or the input; every scalar type):
  * `fill_history_fresh_sweep_curves`   after EVERY history of calls on one object — polygonal or
      curved paths, any attribute count, every entry point (`tessellate`, `tessellate_path`,
      `tessellate_with_ids` without / with a store, `tessellate_polygon`, `builder`,
      `builder_with_attributes`), any options, invalid tolerances, calls aborted by the geometry
      builder at any vertex, sweeps that returned `Err` or panicked part-way, a flattening that
      panicked, builders dropped without `build` — the next call's outcome and complete emission
      sequence (every `add_fill_vertex` with its position, ALL sibling records and the value of
      `interpolated_attributes()`, every `add_triangle`, in order) are those of `FillTessellator::new()`.
  * `fill_history_outputs_sweep_curves` the same call by call along the history.
  * `fill_curves_call_fresh`            … and that is `SweepCurves.tessellate` with `vertexAttrs` on
      every vertex: the buffer-free models tied on fresh objects.
  * `attrib_buffer_overwritten`         `interpolated_attributes` on ANY buffer of the length `resize`
      leaves = the buffer-free `vertexAttrs` (every slot is assigned before it is added to).
  * `build_queue_curves_fresh`          the queue built in the recycled storage = the queue built from
      scratch, on the concrete `EventQueue` / `Sources.Builder` model with the flattening inside.
-/
import LyonVerif.Props.C08b
import LyonVerif.Lemmas.ResetSweepCurves

set_option linter.unusedSectionVars false
set_option linter.unusedVariables false
set_option linter.unusedSimpArgs false

namespace Lyon.C08
open Lyon Lyon.Mono Lyon.Sweep Lyon.EQ Lyon.SweepCurves
open Lyon.Reset (interp resizeAttrib Src IRes)

variable {α : Type} [Scalar α] [Wide α] [Transc α] [FlatConst α]

/-! ## The event queue -/

/-- pushing the builder's records into the recycled queue (`into_builder`, and `set_path*` for the
entry points that use them, have run `EventQueue::reset` on it) = pushing them into a new queue -/
theorem recycled_queue_fresh (old : Queue α) (mode : IdMode) (recs : List (Sources.EdgeRec α)) :
    ofRecsFrom (recycledQueue old mode) recs = Queue.ofRecs recs := by
  cases mode <;> rfl

/-- **The event queue an entry point builds in recycled storage is the one it builds from
scratch** — concrete queue (`events`, `edge_data`, `first`, `sorted`), concrete builder
(`current, prev, second, nth, prev_endpoint_id`), path commands with quadratic and cubic curves
flattened inside the builder, all id modes, both orientations, any tolerance; `none` (a panic inside
a flattening) included. -/
theorem build_queue_curves_fresh (old : Queue α) (mode : IdMode) (hz : Bool) (tol : α) (cmds : List (Cmd α)) :
    buildQueueFromC old mode hz tol cmds = SweepCurves.buildQueue mode hz tol cmds := by
  unfold buildQueueFromC SweepCurves.buildQueue
  simp only [recycled_queue_fresh]

/-- the stale queue is really there: the storage handed to the builder of `builder()` holds the old
events until `into_builder` resets it -/
theorem recycled_queue_stale_witness (q : Queue α) (e : Event α) (d : EQ.EdgeData α) :
    (recycledQueue (q.pushUnsorted e.pos d) .builder).events.size = q.events.size + 1 ∧
    (ofRecsFrom (recycledQueue (q.pushUnsorted e.pos d) .builder) []).events.size = 0 := by
  constructor
  · simp [recycledQueue, Queue.pushUnsorted]
  · rfl

/-! ## The attribute buffer -/

/-- **Every slot of the attribute buffer is written before it is read**, on the model that is
composed below: for ANY buffer of the length `tessellate_impl` has just given it — zeros, the
attributes of the previous vertex, the leftovers of an earlier call — `interpolated_attributes()` of
a vertex returns the buffer-free `vertexAttrs` (what family `sweepc:32` ties on fresh objects), and
leaves a buffer of the same length. -/
theorem attrib_buffer_overwritten (ids : Array Nat) (values : Array (Array α)) (n : Nat)
    (recs : List (P α × EQ.EdgeData α)) (buf : List α) (hb : buf.length = n) (hr : recs ≠ []) :
    (interpVertex (some (storeL ids values n)) n recs buf).1 = .slice (vertexAttrs ids values n recs) ∧
    (interpVertex (some (storeL ids values n)) n recs buf).2.length = n :=
  interpVertex_storeL ids values n recs buf hb hr

example : ∃ (buf : List Int') (recs : List (P Int' × EQ.EdgeData Int')), buf.length = 2 ∧ recs ≠ [] :=
  ⟨[⟨5⟩, ⟨6⟩], [(⟨⟨0⟩, ⟨0⟩⟩, ⟨⟨⟨1⟩, ⟨1⟩⟩, ⟨0⟩, ⟨1⟩, 1, true, 0, 1⟩)], rfl, by simp⟩

/-- … for all the vertices of a call, the buffer threaded through them, from whatever the object's
buffer held before `resize` / `clear` (any contents, any lengths) -/
theorem attrib_buffer_call_fresh (store : Option (Nat → List α)) (n : Nat) (a : Option Nat) (es : List (Emit α))
    (buf buf' : List α) :
    (withAttrs store n es (resizeAttrib buf a)).1 = (withAttrs store n es (resizeAttrib buf' a)).1 :=
  (withAttrs_fresh store n es _ _ (by rw [resizeAttrib_length, resizeAttrib_length])).1

/-- the stale values are really there: after a vertex with two sources the buffer holds their mean,
`resize` to the same count keeps it, and the next call's first multi-source vertex starts from it -/
theorem attrib_buffer_stale_curves_witness :
    let st : Nat → List Int' := fun id => [⟨(id : Int) * 10⟩]
    let srcs : List (Src Int') := [.endpoint 1, .endpoint 2]
    (interp (some st) 1 srcs [⟨0⟩]).2 = [⟨30 / 2⟩] ∧
    resizeAttrib (interp (some st) 1 srcs [⟨0⟩]).2 (some 1) = [⟨30 / 2⟩] ∧
    (interp (some st) 1 srcs [⟨0⟩]).1 = (interp (some st) 1 srcs [⟨15⟩]).1 := by
  refine ⟨by decide, by decide, ?_⟩
  exact (interp_fresh _ _ _ _ _ rfl).1

/-! ## One call -/

/-- **one call through a curved-input / attribute-carrying entry point: the outcome and the
complete emission sequence do not depend on the object** -/
theorem tessellateFromC_sim (o o' : Obj α) (c : CallC α) : (tessellateFromC o c).1 = (tessellateFromC o' c).1 := by
  unfold tessellateFromC
  dsimp only
  rw [build_queue_curves_fresh o.st.q, build_queue_curves_fresh o'.st.q]
  cases SweepCurves.buildQueue (c.entry.mode c.nattr).1 c.horizontal c.tol c.cmds with
  | none => rfl
  | some qi =>
    obtain ⟨q0, ids⟩ := qi
    dsimp only
    split
    · rfl
    · split
      · rfl
      · have h := tessellateImplFrom_sim o.st o'.st c.refuse q0.sort c.rule c.horizontal c.tol c.handleIx
        have h1 : (tessellateImplFrom o.st c.refuse q0.sort c.rule c.horizontal c.tol c.handleIx).1.1 =
            (tessellateImplFrom o'.st c.refuse q0.sort c.rule c.horizontal c.tol c.handleIx).1.1 :=
          congrArg (Prod.fst (α := Option Fail) (β := Array (Emit α))) h
        have h2 : (tessellateImplFrom o.st c.refuse q0.sort c.rule c.horizontal c.tol c.handleIx).1.2.1 =
            (tessellateImplFrom o'.st c.refuse q0.sort c.rule c.horizontal c.tol c.handleIx).1.2.1 :=
          congrArg (Prod.snd (α := Option Fail) (β := Array (Emit α))) h
        split
        · rw [h1]
        · rw [h1, h2]
          exact Prod.ext rfl (attrib_buffer_call_fresh _ _ _ _ _ _)

/-- the same for a call of the polygonal model on the object with an attribute buffer -/
theorem tessellateFromP_sim (o o' : Obj α) (c : FillCall α) : (tessellateFromP o c).1 = (tessellateFromP o' c).1 := by
  unfold tessellateFromP
  have h := tessellateFrom_sim o.st o'.st c
  have h1 : (tessellateFrom o.st c).1.1 = (tessellateFrom o'.st c).1.1 := congrArg (Prod.fst (α := Option Fail) (β := Array (Emit α))) h
  have h2 : (tessellateFrom o.st c).1.2.1 = (tessellateFrom o'.st c).1.2.1 := congrArg (Prod.snd (α := Option Fail) (β := Array (Emit α))) h
  dsimp only
  rw [h1, h2]
  refine Prod.ext rfl ?_
  rw [withAttrs_none 0 #[] #[] 0, withAttrs_none 0 #[] #[] 0]

theorem tessellateFromAny_sim (o o' : Obj α) (c : AnyCall α) :
    (tessellateFromAny o c).1 = (tessellateFromAny o' c).1 := by
  cases c with
  | poly c => exact tessellateFromP_sim o o' c
  | curved c => exact tessellateFromC_sim o o' c

/-- on a NEW tessellator, with a builder that accepts everything and is not dropped, the call IS
`SweepCurves.tessellate` (the queue builder with the flattening, the sort, the sweep) with
`vertexAttrs` on every vertex -/
theorem tessellateFromC_new (c : CallC α) (hr : c.refuse = none) (hd : c.dropped = false) :
    (tessellateFromC Obj.fresh c).1 = tessellateFreshC c := by
  unfold tessellateFromC tessellateFreshC SweepCurves.tessellate
  dsimp only
  rw [build_queue_curves_fresh]
  cases SweepCurves.buildQueue (c.entry.mode c.nattr).1 c.horizontal c.tol c.cmds with
  | none => rfl
  | some qi =>
    obtain ⟨q0, ids⟩ := qi
    simp only [hd, hr, Bool.false_eq_true, if_false]
    split
    · rfl
    · have hf : (tessellateImplFrom (Obj.fresh (α := α)).st none q0.sort c.rule c.horizontal c.tol c.handleIx).1 =
          tessellateImpl q0.sort c.rule c.horizontal c.tol c.handleIx := tessellateImplFrom_fresh _ _ _ _ _
      rw [hf]
      split
      · rename_i hbad
        have he : tessellateImpl q0.sort c.rule c.horizontal c.tol c.handleIx =
            (some (.err "UnsupportedParamater(ToleranceIsNaN)"), #[], 0) := by
          unfold tessellateImpl
          rw [if_pos hbad]
        rw [he]
        rfl
      · refine Prod.ext rfl ?_
        cases hm : (c.entry.mode c.nattr).2
        · simp only [Bool.false_eq_true, if_false]
          exact withAttrs_none _ _ _ _ _ _
        · simp only [if_true]
          exact withAttrs_storeL _ _ _ _ _ (by rw [resizeAttrib_length]; rfl)

example : ∃ c : CallC Nat, c.refuse = none ∧ c.dropped = false :=
  ⟨{ entry := .ids true, nattr := 2, rule := .evenOdd, horizontal := false, tol := 1, handleIx := true,
     cmds := [.begin ⟨0, 0⟩, .quad ⟨1, 0⟩ ⟨1, 1⟩, .end_ true], values := #[#[1, 2], #[3, 4]] }, rfl, rfl⟩

/-- **A whole entry point on a used object = the models tied on fresh objects**: for EVERY state of
the object (pool, spans, edges, registers, options, the old queue, the old attribute buffer), every
entry point, attribute count, path with lines / quadratics / cubics, rule, orientation, tolerance
(valid or not), intersection flag: outcome and complete emission sequence incl. the interpolated
attributes of every vertex are `SweepCurves.tessellate` + `vertexAttrs`. -/
theorem fill_curves_call_fresh (o : Obj α) (c : CallC α) (hr : c.refuse = none) (hd : c.dropped = false) :
    (tessellateFromC o c).1 = tessellateFreshC c := by
  rw [tessellateFromC_sim o Obj.fresh, tessellateFromC_new c hr hd]

/-! ## Histories -/

/-- the output of a call of the object does not depend on its state -/
theorem fillObjC_stateless : Stateless (fillObjC (α := α)) :=
  fun s s' c => tessellateFromAny_sim s s' c

/-- **After every history the next call emits what a new tessellator emits** — curved input and
custom attributes included.  `o0` is ANY initial object (any sweep state, any queue, any attribute
buffer), `hist` ANY sequence of calls: polygonal calls of the five entry points (`FillCall`) and
calls on paths with curves and attributes through `tessellate` / `tessellate_path` /
`tessellate_with_ids` (without or with the store) / `builder()` / `builder_with_attributes(n)`
(`CallC`), each with its own fill rule, orientation, tolerance (valid or not), intersection flag,
attribute count and values, a geometry builder refusing any vertex, a builder dropped without
`build`; a call of the history may succeed, return `Err`, be aborted by the builder, panic in a
flattening or panic part-way through the sweep — the object is left as the model of that call
leaves it (pool, live spans, edges, a half-processed event, the queue or `EventQueue::new()`, the
attribute buffer with the last interpolated values) and the next call starts from THAT.  The output
compared is the outcome and the complete emission sequence: every `add_fill_vertex` with its
position, all sibling records and the result of `interpolated_attributes()`, every `add_triangle`. -/
theorem fill_history_fresh_sweep_curves (o0 : Obj α) (hist : List (AnyCall α)) (c : AnyCall α) :
    (fillObjC.call (fillObjC.run o0 hist) c).2 = (fillObjC.call Obj.fresh c).2 :=
  fillObjC_stateless _ _ c

/-- … and for an ordinary last call on curved input that is `SweepCurves.tessellate` + `vertexAttrs` -/
theorem fill_history_fresh_sweep_curves_tessellate (o0 : Obj α) (hist : List (AnyCall α)) (c : CallC α)
    (hr : c.refuse = none) (hd : c.dropped = false) :
    (fillObjC.call (fillObjC.run o0 hist) (.curved c)).2 = tessellateFreshC c :=
  fill_curves_call_fresh _ c hr hd

/-- call by call along the history: what family `sweepc_reuse:32` observes on the real object -/
theorem fill_history_outputs_sweep_curves (o0 : Obj α) (hist : List (AnyCall α)) :
    fillObjC.outputs o0 hist = hist.map (fun c => (fillObjC.call Obj.fresh c).2) :=
  fillObjC_stateless.outputs Obj.fresh hist o0

end Lyon.C08
