/-
  C03 over ℝ: `tessellate_circle` fills the circle to within the tolerance — no hypothesis left.

  The `Transc` parameters of the model instantiated with Mathlib's real functions (`Real.sqrt`,
  `Real.sin`, `Real.cos`, `Real.pi`, `log2 = Real.logb 2`, `ceil = ⌈·⌉`, the saturating cast
  `as u32 = ⌊·⌋.toNat`); then

  * `real_circTrig`                      the laws `CircTrig ℝ` hold (also: they are satisfiable)
  * `real_depth_sufficient`              the depth `fill_circle` computes,
                                         `(arc_len/step).ceil().log2().ceil() as u32`, satisfies
                                         `arc_len/step ≤ 2^depth` for every `r > 0`, `tol > 0`
  * `circle_tris_cover_polygon_real`     the emitted triangles cover the inscribed regular
                                         `4·2ⁿ`-gon and lie in the closed disc
  * `circle_tris_union_eq_polygon_real`  their union is exactly that polygon
  * `fill_circle_sagitta_real`           `|r| − tol ≤ |r|·cos(π/(4·2ⁿ))` (inner radius of that polygon)
  * `add_circle_radial_error_real`       path-builder `add_circle`: every point of its four cubics is
                                         at distance within `[|r|(1 − 2·10⁻⁴), |r|(1 + 2·10⁻⁴)]` of the
                                         centre
  * `fill_add_circle_radial_error_real`  `FillBuilder::add_circle`'s eight quadratics: within
                                         `[|r|(1 − 10⁻⁷), 1.0032·|r|]`
  * `rounded_rect_radial_error_real`     `add_rounded_rectangle`: the same for every corner cubic
                                         about its corner centre with its clamped radius, and the
                                         curve stays inside the box
  * `fill_circle_within_tolerance_real`  for `r ≠ 0`, `tol > 0`: every point at distance
                                         `≤ |r| − tol` from the centre lies in an emitted triangle and
                                         every point of an emitted triangle is at distance `≤ |r|`
                                         from the centre.

  What this does not cover: `f32` rounding (the tie compares the model at `Float32` with lyon bit for
  bit; the analytic oracle `circle/sagitta-within-tolerance` of `harness/src/bin/c03.rs` checks the
  real output with an allowance).
-/
import LyonVerif.Props.C03c
import LyonVerif.Props.C03d
import Mathlib.Analysis.SpecialFunctions.Trigonometric.Basic
import Mathlib.Analysis.SpecialFunctions.Trigonometric.Bounds
import Mathlib.Analysis.SpecialFunctions.Log.Base
import Mathlib.Analysis.SpecialFunctions.Pow.Real

set_option linter.unusedSectionVars false
set_option linter.unusedVariables false
set_option warn.classDefReducibility false

namespace Lyon.C03c
open Lyon Lyon.Shapes Lyon.C03

/-- `Transc ℝ` with Mathlib's real functions (fields `fill_circle` does not use are placeholders) -/
noncomputable def realTransc : Transc ℝ where
  sqrt := Real.sqrt
  cbrt := fun _ => 0
  sin := Real.sin
  cos := Real.cos
  tan := Real.tan
  acos := fun _ => 0
  atan2 := fun _ _ => 0
  pow := fun x y => x ^ y
  log2 := Real.logb 2
  ln := Real.log
  floor := fun x => (⌊x⌋ : ℝ)
  ceil := fun x => (⌈x⌉ : ℝ)
  toNat := fun x => ⌊x⌋.toNat
  fmod := fun x _ => x
  eps := 0
  pi := Real.pi
  isNaN := fun _ => false
  isFinite := fun _ => true

attribute [local instance] realTransc

/-- **the laws hold for the real functions** -/
theorem real_circTrig : CircTrig ℝ where
  cos_sq_add_sin_sq := fun x => by
    have := Real.cos_sq_add_sin_sq x
    show Real.cos x * Real.cos x + Real.sin x * Real.sin x = 1
    nlinarith
  cos_add := fun x y => Real.cos_add x y
  sin_add := fun x y => Real.sin_add x y
  sin_pos := fun x h0 h1 => Real.sin_pos_of_pos_of_lt_pi h0 h1
  pi_pos := Real.pi_pos
  cos_pi_div_two := Real.cos_pi_div_two
  sin_le := fun x h => Real.sin_le h

theorem real_sqrt_mul_self (x : ℝ) (h : 0 ≤ x) : (Transc.sqrt x : ℝ) * Transc.sqrt x = x :=
  Real.mul_self_sqrt h

theorem real_sqrt_nonneg (x : ℝ) : 0 ≤ (Transc.sqrt x : ℝ) := Real.sqrt_nonneg x

/-- `2^⌈log₂ N⌉ ≥ N` for the real logarithm, an integer `N ≥ 1`, and the casts of the model -/
theorem real_pow_ceil_logb (N : ℤ) (hN : 1 ≤ N) :
    ((N : ℤ) : ℝ) ≤ 2 ^ (⌊((⌈Real.logb 2 (N : ℝ)⌉ : ℤ) : ℝ)⌋.toNat) := by
  have hN0 : (0 : ℝ) < (N : ℝ) := by exact_mod_cast (by omega : 0 < N)
  have hN1 : (1 : ℝ) ≤ (N : ℝ) := by exact_mod_cast hN
  set y := Real.logb 2 (N : ℝ) with hy
  have hy0 : 0 ≤ y := Real.logb_nonneg (by norm_num) hN1
  set M := ⌈y⌉ with hM
  have hM0 : 0 ≤ M := Int.ceil_nonneg hy0
  rw [Int.floor_intCast]
  have hcast : ((M.toNat : ℕ) : ℝ) = (M : ℝ) := by
    have : ((M.toNat : ℕ) : ℤ) = M := Int.toNat_of_nonneg hM0
    exact_mod_cast this
  have h1 : (2 : ℝ) ^ (M.toNat) = (2 : ℝ) ^ ((M : ℝ)) := by
    rw [← Real.rpow_natCast, hcast]
  rw [h1]
  calc (N : ℝ) = (2 : ℝ) ^ y := (Real.rpow_logb (by norm_num) (by norm_num) hN0).symm
    _ ≤ (2 : ℝ) ^ (M : ℝ) := Real.rpow_le_rpow_of_exponent_le (by norm_num) (Int.le_ceil y)

/-- `circle_flattening_step` is positive for `r > 0`, `tol > 0` -/
theorem real_step_pos (r tol : ℝ) (hr : 0 < r) (ht : 0 < tol) : 0 < circleFlatteningStep r tol := by
  have ht0 : 0 < min tol r := lt_min ht hr
  have htr : min tol r ≤ r := min_le_right _ _
  have hX : 0 < 2 * min tol r * r - min tol r * min tol r := by nlinarith
  have : circleFlatteningStep r tol = 2 * Real.sqrt (2 * min tol r * r - min tol r * min tol r) := by
    simp only [circleFlatteningStep, sc_min, sc_two]; rfl
  rw [this]
  have := Real.sqrt_pos.2 hX
  positivity

/-- **the depth `fill_circle` computes is sufficient**: `arc_len / step ≤ 2^circleRecursions`
(`circleRecursions = (arc_len/step).ceil().log2().ceil() as u32`), for all `r > 0`, `tol > 0` -/
theorem real_depth_sufficient (r tol : ℝ) (hr : 0 < r) (ht : 0 < tol) :
    Scalar.half * Transc.pi * r / circleFlatteningStep r tol ≤ 2 ^ circleRecursions r tol := by
  set x := Scalar.half * (Transc.pi : ℝ) * r / circleFlatteningStep r tol with hx
  have hstep := real_step_pos r tol hr ht
  have hx0 : 0 < x := by
    rw [hx, half_eq]
    have : (0 : ℝ) < Transc.pi := Real.pi_pos
    positivity
  have hN : 1 ≤ ⌈x⌉ := Int.one_le_ceil_iff.2 hx0
  have hrec : circleRecursions r tol = ⌊((⌈Real.logb 2 ((⌈x⌉ : ℤ) : ℝ)⌉ : ℤ) : ℝ)⌋.toNat := rfl
  rw [hrec]
  exact le_trans (Int.le_ceil x) (real_pow_ceil_logb ⌈x⌉ hN)

/-- **The triangles `fill_circle` emits cover the inscribed regular `4·2ⁿ`-gon and stay inside the
circle** — over ℝ with the real `cos`, `sin`, `π`: no hypothesis but `fillCircle c r tol = some m`
(i.e. `r ≠ 0`). -/
theorem circle_tris_cover_polygon_real (c : P ℝ) (r tol : ℝ) (m : Mesh ℝ) (h : fillCircle c r tol = some m) :
    (∀ p : P ℝ,
      (∀ k : Nat, k < 4 * 2 ^ circleRecursions |r| tol →
        Inner (regVert c |r| (circleRecursions |r| tol) k, regVert c |r| (circleRecursions |r| tol) (k + 1)) p) →
      Covered m p) ∧
    (regVert c |r| (circleRecursions |r| tol) (4 * 2 ^ circleRecursions |r| tol)
        = regVert c |r| (circleRecursions |r| tol) 0 ∧
      ∀ k, OnCircle c |r| (regVert c |r| (circleRecursions |r| tol) k)) ∧
    (∀ p : P ℝ, Covered m p → (p - c).sqLen ≤ |r| * |r|) :=
  circle_tris_cover_polygon real_circTrig c r tol m h

/-- **the union of the emitted triangles is exactly the inscribed regular `4·2ⁿ`-gon** (over ℝ) -/
theorem circle_tris_union_eq_polygon_real (c : P ℝ) (r tol : ℝ) (m : Mesh ℝ) (h : fillCircle c r tol = some m)
    (p : P ℝ) :
    Covered m p ↔
      ∀ k : Nat, k < 4 * 2 ^ circleRecursions |r| tol →
        Inner (regVert c |r| (circleRecursions |r| tol) k, regVert c |r| (circleRecursions |r| tol) (k + 1)) p :=
  circle_tris_union_eq_polygon real_circTrig c r tol m h p

/-- the polygon is the polygon of the emitted vertices (over ℝ): the mesh's boundary edges are exactly
the sides `V k → V (k+1)`, every `V k` is an emitted vertex -/
theorem circle_polygon_vertices_emitted_real (c : P ℝ) (r tol : ℝ) (m : Mesh ℝ) (h : fillCircle c r tol = some m) :
    (∀ e : P ℝ × P ℝ, e ∈ circleEdges c |r| (circleRecursions |r| tol) ↔
      ∃ k : Nat, k < 4 * 2 ^ circleRecursions |r| tol ∧
        e = (regVert c |r| (circleRecursions |r| tol) k, regVert c |r| (circleRecursions |r| tol) (k + 1))) ∧
    (∀ k : Nat, k ≤ 4 * 2 ^ circleRecursions |r| tol → regVert c |r| (circleRecursions |r| tol) k ∈ m.verts) ∧
    m.verts.length = 4 * 2 ^ circleRecursions |r| tol :=
  circle_polygon_vertices_emitted real_circTrig c r tol m h

/-- the vertices of that polygon, spelled out with the real functions -/
theorem regVert_real (c : P ℝ) (r : ℝ) (n k : Nat) :
    regVert c r n k = ⟨c.x + Real.cos (k * (Real.pi / (2 * 2 ^ n))) * r,
                       c.y + Real.sin (k * (Real.pi / (2 * 2 ^ n))) * r⟩ := rfl

/-- **the sagitta of the polygon `fill_circle` builds is at most the tolerance**:
`|r| − tol ≤ |r|·cos(π/(4·2ⁿ))`, `n = circleRecursions |r| tol` -/
theorem fill_circle_sagitta_real (r tol : ℝ) (hr : r ≠ 0) (ht : 0 < tol) :
    |r| - tol ≤ |r| * Real.cos (Real.pi / (4 * 2 ^ circleRecursions |r| tol)) := by
  have hR : 0 < |r| := abs_pos.2 hr
  have := circle_sagitta_le_tolerance real_circTrig |r| tol (circleRecursions |r| tol) hR ht
    real_sqrt_mul_self real_sqrt_nonneg (real_depth_sufficient |r| tol hR ht)
  have hmin : min tol |r| ≤ tol := min_le_left _ _
  have e : (Transc.cos (halfStep ℝ (circleRecursions |r| tol)) : ℝ)
      = Real.cos (Real.pi / (4 * 2 ^ circleRecursions |r| tol)) := rfl
  rw [e] at this
  linarith

/-- **`tessellate_circle` fills the circle to within the tolerance** (model over ℝ, real `sqrt`,
`sin`, `cos`, `π`, `log₂`, ceiling, cast).  For every centre, every radius `r ≠ 0` (the code takes
`|r|`), every tolerance `tol > 0`: a mesh `m` is produced and
* every point at distance `≤ |r| − tol` from the centre — every point of the disc farther than the
  tolerance from the boundary circle — lies in one of the emitted (closed) triangles;
* every point of an emitted triangle is at distance `≤ |r|` from the centre: no point outside the
  circle is covered. -/
theorem fill_circle_within_tolerance_real (c : P ℝ) (r tol : ℝ) (hr : r ≠ 0) (ht : 0 < tol) :
    ∃ m, fillCircle c r tol = some m ∧
      (∀ p : P ℝ, Real.sqrt ((p - c).sqLen) ≤ |r| - tol → Covered m p) ∧
      (∀ p : P ℝ, Covered m p → Real.sqrt ((p - c).sqLen) ≤ |r|) := by
  have hR : 0 < |r| := abs_pos.2 hr
  obtain ⟨m, hm, hin, hout⟩ := fill_circle_within_tolerance real_circTrig c r tol hr ht
    real_sqrt_mul_self real_sqrt_nonneg (real_depth_sufficient |r| tol hR ht)
  refine ⟨m, hm, ?_, ?_⟩
  · intro p hp
    have h0 : 0 ≤ |r| - tol := le_trans (Real.sqrt_nonneg _) hp
    apply hin p (by linarith)
    have := (Real.sqrt_le_left h0).1 hp
    nlinarith
  · intro p hc
    rw [Real.sqrt_le_left (le_of_lt hR)]
    have := hout p hc
    nlinarith

/-- the mesh that exists has `4·2ⁿ` vertices on the circle and `4·2ⁿ − 2` triangles
(`C03.circle_counts`, `C03.circle_vertices_on_circle` at ℝ) -/
theorem fill_circle_mesh_real (c : P ℝ) (r tol : ℝ) (m : Mesh ℝ) (h : fillCircle c r tol = some m) :
    m.verts.length = 4 * 2 ^ circleRecursions |r| tol ∧ m.tris.length + 2 = 4 * 2 ^ circleRecursions |r| tol ∧
    ∀ p ∈ m.verts, OnCircle c |r| p :=
  ⟨(circle_counts c r tol m h).1, (circle_counts c r tol m h).2,
   circle_vertices_on_circle real_circTrig.cos_sq_add_sin_sq c r tol m h⟩

/-! ### the path-builder helpers, distances instead of squares -/

theorem sqrt_between {ρ s δ : ℝ} (hρ : 0 ≤ ρ) (hδ0 : 0 ≤ δ) (hδ : δ ≤ 1) (lo : (ρ * (1 - δ)) ^ 2 ≤ s)
    (hi : s ≤ (ρ * (1 + δ)) ^ 2) : ρ * (1 - δ) ≤ Real.sqrt s ∧ Real.sqrt s ≤ ρ * (1 + δ) := by
  have h1 : 0 ≤ ρ * (1 - δ) := mul_nonneg hρ (by linarith)
  have h2 : 0 ≤ ρ * (1 + δ) := mul_nonneg hρ (by linarith)
  constructor
  · calc ρ * (1 - δ) = Real.sqrt ((ρ * (1 - δ)) ^ 2) := (Real.sqrt_sq h1).symm
      _ ≤ Real.sqrt s := Real.sqrt_le_sqrt lo
  · calc Real.sqrt s ≤ Real.sqrt ((ρ * (1 + δ)) ^ 2) := Real.sqrt_le_sqrt hi
      _ = ρ * (1 + δ) := Real.sqrt_sq h2

/-- **radial error of `add_circle`** (builder.rs, constant `0.55191505`): every point `B(t)`,
`t ∈ [0,1]`, of each of the four cubics it draws satisfies
`|r|·(1 − 2·10⁻⁴) ≤ |B(t) − center| ≤ |r|·(1 + 2·10⁻⁴)`: the exact curved shape the helper hands to
the tessellator is within `0.02 %` of the radius of the circle the user asked for. -/
theorem add_circle_radial_error_real (c : P ℝ) (r : ℝ) (pos : Bool) :
    ∀ q ∈ C03d.cubicSegs (PathShapes.addCircle c r pos), ∀ t : ℝ, 0 ≤ t → t ≤ 1 →
      |r| * (1 - 2 / 10 ^ 4) ≤ Real.sqrt ((q.sample t - c).sqLen) ∧
      Real.sqrt ((q.sample t - c).sqLen) ≤ |r| * (1 + 2 / 10 ^ 4) := by
  intro q hq t h0 h1
  obtain ⟨lo, hi⟩ := (C03d.add_circle_radial_error c r pos).2 q hq t h0 h1
  exact sqrt_between (abs_nonneg r) (by norm_num) (by norm_num) lo hi

/-- **radial error of `FillBuilder::add_circle`** (fill.rs: eight quadratics, constants
`0.41421357`, `FRAC_1_SQRT_2`): `|r|·(1 − 10⁻⁷) ≤ |Q(t) − center| ≤ 1.0032·|r|` for every point of every
quadratic, both windings. -/
theorem fill_add_circle_radial_error_real (c : P ℝ) (r : ℝ) (pos : Bool) :
    ∀ q ∈ C03d.quadSegs (PathShapes.fillAddCircle c r pos), ∀ t : ℝ, 0 ≤ t → t ≤ 1 →
      |r| * (1 - 1 / 10 ^ 7) ≤ Real.sqrt ((q.sample t - c).sqLen) ∧
      Real.sqrt ((q.sample t - c).sqLen) ≤ |r| * (1 + 32 / 10 ^ 4) := by
  intro q hq t h0 h1
  obtain ⟨lo, hi⟩ := (C03d.fill_add_circle_radial_error c r pos).2 q hq t h0 h1
  have hr : 0 ≤ |r| := abs_nonneg r
  have h2 : 0 ≤ |r| * (1 + 32 / 10 ^ 4) := mul_nonneg hr (by norm_num)
  have h3 : 0 ≤ |r| * (1 - 1 / 10 ^ 7) := mul_nonneg hr (by norm_num)
  constructor
  · calc |r| * (1 - 1 / 10 ^ 7) = Real.sqrt ((|r| * (1 - 1 / 10 ^ 7)) ^ 2) := (Real.sqrt_sq h3).symm
      _ ≤ Real.sqrt ((q.sample t - c).sqLen) := by
          apply Real.sqrt_le_sqrt
          have : (|r| * (1 - 1 / 10 ^ 7)) ^ 2 ≤ |r| ^ 2 * (1 - 1 / 10 ^ 7) := by
            have : 0 ≤ |r| ^ 2 := sq_nonneg _
            nlinarith
          linarith
  · calc Real.sqrt ((q.sample t - c).sqLen) ≤ Real.sqrt ((|r| * (1 + 32 / 10 ^ 4)) ^ 2) := Real.sqrt_le_sqrt hi
      _ = |r| * (1 + 32 / 10 ^ 4) := Real.sqrt_sq h2

/-- **radial error of the corners of `add_rounded_rectangle`** (box not inverted, any requested
radii, either winding): every point of every emitted cubic is inside the box and at distance within
`[ρ(1 − 2·10⁻⁴), ρ(1 + 2·10⁻⁴)]` of a corner centre, `ρ` the clamped radius of that corner. -/
theorem rounded_rect_radial_error_real (mn mx : P ℝ) (hx : mn.x ≤ mx.x) (hy : mn.y ≤ mx.y)
    (radii : PathShapes.Radii ℝ) (pos : Bool) :
    ∀ q ∈ C03d.cubicSegs (PathShapes.addRoundedRectangle mn mx radii pos), ∀ t : ℝ, 0 ≤ t → t ≤ 1 →
      (mn.x ≤ (q.sample t).x ∧ (q.sample t).x ≤ mx.x ∧ mn.y ≤ (q.sample t).y ∧ (q.sample t).y ≤ mx.y) ∧
      ∃ (ctr : P ℝ) (ρ : ℝ),
        ((ctr = C03d.cornerTL mn mx (PathShapes.clampRadii (mx.x - mn.x) (mx.y - mn.y) radii) ∧
            ρ = (PathShapes.clampRadii (mx.x - mn.x) (mx.y - mn.y) radii).tl) ∨
         (ctr = C03d.cornerTR mn mx (PathShapes.clampRadii (mx.x - mn.x) (mx.y - mn.y) radii) ∧
            ρ = (PathShapes.clampRadii (mx.x - mn.x) (mx.y - mn.y) radii).tr) ∨
         (ctr = C03d.cornerBR mn mx (PathShapes.clampRadii (mx.x - mn.x) (mx.y - mn.y) radii) ∧
            ρ = (PathShapes.clampRadii (mx.x - mn.x) (mx.y - mn.y) radii).br) ∨
         (ctr = C03d.cornerBL mn mx (PathShapes.clampRadii (mx.x - mn.x) (mx.y - mn.y) radii) ∧
            ρ = (PathShapes.clampRadii (mx.x - mn.x) (mx.y - mn.y) radii).bl)) ∧
        ρ * (1 - 2 / 10 ^ 4) ≤ Real.sqrt ((q.sample t - ctr).sqLen) ∧
        Real.sqrt ((q.sample t - ctr).sqLen) ≤ ρ * (1 + 2 / 10 ^ 4) := by
  intro q hq t h0 h1
  obtain ⟨hbox, ctr, ρ, hc, lo, hi⟩ := (C03d.rounded_rect_outline mn mx hx hy radii).2.2.2 pos q hq t h0 h1
  have hw : (0 : ℝ) ≤ mx.x - mn.x := sub_nonneg.2 hx
  have hh : (0 : ℝ) ≤ mx.y - mn.y := sub_nonneg.2 hy
  obtain ⟨⟨p1, p2, p3, p4⟩, _⟩ := C03b.rounded_rect_radii_fit _ _ hw hh radii
  have hρ : 0 ≤ ρ := by
    rcases hc with ⟨_, rfl⟩ | ⟨_, rfl⟩ | ⟨_, rfl⟩ | ⟨_, rfl⟩ <;> assumption
  exact ⟨hbox, ctr, ρ, hc, sqrt_between hρ (by norm_num) (by norm_num) lo hi⟩

/-! ### non-vacuity -/

/-- the hypotheses of `fill_circle_within_tolerance_real` on a concrete input, and a concrete
covered point: radius 100, tolerance 0.01 (the witness input of the repaired truncation defect) -/
example : (100 : ℝ) ≠ 0 ∧ (0 : ℝ) < 1 / 100 ∧
    Real.sqrt (((⟨3, 4⟩ : P ℝ) - ⟨0, 0⟩).sqLen) ≤ |(100 : ℝ)| - 1 / 100 := by
  refine ⟨by norm_num, by norm_num, ?_⟩
  have : ((⟨3, 4⟩ : P ℝ) - ⟨0, 0⟩).sqLen = 5 ^ 2 := by simp [geom]; norm_num
  rw [this, Real.sqrt_sq (by norm_num)]
  norm_num

end Lyon.C03c
