/-
  C17b — the parser with its CONCRETE arc handling, and the parser against the SVG semantics of C15.

  What the code does with an `A`/`a` command (crates/extra/src/parser.rs): `output` is a plain
  `PathBuilder` — NOT an `SvgPathBuilder`; `WithSvg` does not implement `PathBuilder`, so
  `PathParser::parse` cannot drive `Path::builder().with_svg()` — and the arc is converted in the
  parser itself: `SvgArc{..}.is_straight_line()` → `line_to`, else `svg_arc.to_arc()
  .for_each_quadratic_bezier_with_t(..)` → one `quadratic_bezier_to` per piece with interpolated
  attributes.  `Model/ParserConcrete.lean` (`concreteNum`) is that code over a generic scalar (the
  arc model of C13, `Model/Geom/SvgArc.lean`); the correspondence driver runs exactly this instance
  at `Float32` (`Drive/C17.lean`, no advice).

  Part 1 — no arc hypothesis any more.  The only panic site of the modelled conversion is
  `cast::<S, i32>(n_steps).unwrap()` with `n_steps = ceil(min(|sweep|, 2π) / (π/4))`; `f32::min`
  ignores a NaN operand, so `n_steps` is never NaN whatever the operands (zero radii and equal end
  points take the `is_straight_line` branch; non-finite values reach `min`).  The four IEEE facts
  used are the hypothesis `NoNaNLaws α` (`Float32` is opaque to the kernel; `noNaNLaws_OI` proves
  them on a number type that has a NaN):
    `concrete_arc_total`, `parse_no_panic_concrete`, `parse_result_shape_concrete`,
    `parse_trace_wellnested_concrete`.

  Part 2 — composition with C15.  `parseCmds` (`Lemmas/ParserConcreteSvg.lean`) is the list of
  `SvgPathBuilder` commands the text stands for, read with the parser's own tokenizer and control
  flow (operands raw: `l 1 2` ↦ `relLineTo ⟨1,2⟩`).
    `parse_then_svg_wellnested`   feeding that list to the `WithSvg` model (any arc geometry, in
                                  particular the concrete one) gives a well-nested call sequence
                                  on the wrapped `PathBuilder`, for EVERY input string;
    `parse_is_svg_semantics`      if no arc command is read, the calls the PARSER itself sends
                                  (attributes erased, clean-up `end(false)` included, success or
                                  error) are exactly `specBuild` — the SVG reference semantics of
                                  `Props/C15.lean` — of that list;
    `parse_is_withsvg`            … hence exactly what `WithSvg` would send for it (C15
                                  `svg_semantics`): the parser's built-in handling of relative
                                  coordinates, H/V, smooth curves, close and move-to agrees with
                                  the `SvgPathBuilder` adapter's;
    `parse_is_svg_semantics_arcfree`  syntactic form: every text without the letters `a`/`A`.
  Arcs are excluded there because the two code paths really differ on them: the parser sets
  `current_position = to` and converts at `f32` with interpolated attributes, `WithSvg::arc_to`
  goes through the centre form at `f64` and ends at the last piece's end point.
-/
import LyonVerif.Lemmas.ParserConcrete
import LyonVerif.Lemmas.ParserConcreteSvg
import LyonVerif.Lemmas.ParserConcreteArcFree
import LyonVerif.Model.Path.SvgConcrete
import LyonVerif.Props.C15
import LyonVerif.Props.C17

set_option linter.unusedVariables false
set_option linter.unusedSectionVars false

namespace Lyon.C17
open Lyon Lyon.Parser Lyon.Path

/-! ### Part 1: the concrete arc conversion is total -/

section concrete
variable {α : Type} [Scalar α] [Transc α] [ArcConv.Eps α]

/-- `concrete_arc_total`: with the concrete geometry the arc branch always gets its list of
quadratic pieces — for every operand tuple (zero radii, equal end points, NaN, ±inf included) -/
theorem concrete_arc_total (h : NoNaNLaws α) (ofLexeme : List Char → α) (pos : Nat)
    (a : ArcArgs α) : (concreteNum ofLexeme).arc pos a = some (arcQuads a) :=
  concreteNum_arc h ofLexeme pos a

/-- `parse_no_panic_concrete`: the parser with its real arc handling never panics — every input
string, attribute count and stop character; no hypothesis on the arc conversion. -/
theorem parse_no_panic_concrete (h : NoNaNLaws α) (ofLexeme : List Char → α) (na : Nat)
    (stop : Option Char) (inp : List Char) :
    (parse (concreteNum ofLexeme) na stop inp).outcome ≠ .panic :=
  parse_no_panic _ na stop inp (concreteNum_arc_ne_none h ofLexeme)

/-- `parse_result_shape_concrete`: … it returns `Ok` or `Err`. -/
theorem parse_result_shape_concrete (h : NoNaNLaws α) (ofLexeme : List Char → α) (na : Nat)
    (stop : Option Char) (inp : List Char) : (parse (concreteNum ofLexeme) na stop inp).closed :=
  parse_result_shape _ na stop inp (concreteNum_arc_ne_none h ofLexeme)

/-- `parse_trace_wellnested_concrete`: … and the calls it sends, arcs' quadratic pieces and the
clean-up `end(false)` included, are `(begin edge* end)*`. -/
theorem parse_trace_wellnested_concrete (h : NoNaNLaws α) (ofLexeme : List Char → α) (na : Nat)
    (stop : Option Char) (inp : List Char) :
    WellNested (parse (concreteNum ofLexeme) na stop inp).trace :=
  parse_trace_wellnested _ na stop inp (parse_result_shape_concrete h ofLexeme na stop inp)

end concrete

/-- the hypothesis `NoNaNLaws` is satisfiable on a type with a NaN (`Option Int`, `none` = NaN) -/
example : NoNaNLaws OI := noNaNLaws_OI

/-! ### Part 2: parse, then `WithSvg` -/

section svg
variable {ν : Type} [Add ν] [Sub ν]

/-- `parse_then_svg_wellnested`: for EVERY input string, the command list read from it, fed to
the `WithSvg` model and built, makes a well-nested call sequence on the wrapped builder —
whatever the arc geometry `g`. -/
theorem parse_then_svg_wellnested (N : Num ν) (g : Svg.Geo ν (RawArc ν)) (na : Nat)
    (stop : Option Char) (inp : List Char) :
    WellNested (Svg.runBuild g N.zero (parseCmds N na stop inp)) :=
  C15.svg_trace_wellnested g N.zero _

/-- `parse_is_svg_semantics`: if the parse does not panic and reads no arc command, the calls
the parser sends to its builder — attributes erased; success or error, the clean-up `end(false)`
included — are those the SVG reference semantics (`Svg.specBuild`, C15) prescribes for the command
list read from the text. -/
theorem parse_is_svg_semantics {N : Num ν} (ho : Ops N) (g : Svg.Geo ν (RawArc ν)) (na : Nat)
    (stop : Option Char) (inp : List Char)
    (hp : (parse N na stop inp).outcome ≠ .panic)
    (hno : ∀ c ∈ parseCmds N na stop inp, c.isArc = false) :
    (parse N na stop inp).trace.map eraseCall =
      Svg.specBuild g N.zero (parseCmds N na stop inp) := by
  have h := loop_sim ho g na stop (inp.length + 1) (St.init N) (Src.new inp).skipWs
    (Svg.Spec.init N.zero) (rel_init N N.zero rfl) hno hp (parse_total N na stop inp)
  unfold Result.trace
  rw [List.map_map]
  exact h

/-- `parse_is_withsvg`: … and therefore exactly the calls `WithSvg` sends to the builder it
wraps when it is given that command list (`hα`: reflecting a point about itself gives the point,
see C15). -/
theorem parse_is_withsvg {N : Num ν} (ho : Ops N) (hα : ∀ a : ν, a + (a - a) = a)
    (g : Svg.Geo ν (RawArc ν)) (na : Nat) (stop : Option Char) (inp : List Char)
    (hp : (parse N na stop inp).outcome ≠ .panic)
    (hno : ∀ c ∈ parseCmds N na stop inp, c.isArc = false) :
    (parse N na stop inp).trace.map eraseCall =
      Svg.runBuild g N.zero (parseCmds N na stop inp) := by
  rw [parse_is_svg_semantics ho g na stop inp hp hno]
  exact ((C15.svg_semantics hα g N.zero _).1).symm

/-- `parse_is_svg_semantics_arcfree`: the syntactic form — a text that contains neither `a` nor
`A` reads no arc command (the implicit command is never an arc either), so for EVERY such string
the parser's calls are the SVG reference semantics of the command list read. -/
theorem parse_is_svg_semantics_arcfree {N : Num ν} (ho : Ops N) (g : Svg.Geo ν (RawArc ν))
    (na : Nat) (stop : Option Char) (inp : List Char) (ha : 'a' ∉ inp) (hA : 'A' ∉ inp)
    (hp : (parse N na stop inp).outcome ≠ .panic) :
    (parse N na stop inp).trace.map eraseCall =
      Svg.specBuild g N.zero (parseCmds N na stop inp) :=
  parse_is_svg_semantics ho g na stop inp hp (parseCmds_noArc N na stop inp ha hA)

end svg

/-! ### both parts together: the concrete parser -/

section both
variable {α : Type} [Scalar α] [Transc α] [ArcConv.Eps α]

/-- the arc geometry of `WithSvg` (`Model/Path/SvgConcrete.lean`) on raw path-data operands:
`arc_to(vector(rx, ry), Angle::degrees(rot), flags, to)` -/
def rawGeo (conv : Arc α → List (Quad α)) : Svg.Geo α (RawArc α) where
  center r cur := (Svg.concreteGeo conv).center
    ⟨⟨r.1, r.2.1⟩, toRadians r.2.2.1, r.2.2.2.1, r.2.2.2.2, ⟨Scalar.zero, Scalar.zero⟩, Scalar.zero⟩ cur
  endpoint r cur to := (Svg.concreteGeo conv).endpoint
    ⟨⟨r.1, r.2.1⟩, toRadians r.2.2.1, r.2.2.2.1, r.2.2.2.2, ⟨Scalar.zero, Scalar.zero⟩, Scalar.zero⟩
    cur to

/-- `parse_then_svg_wellnested` for the concrete parser and the concrete `WithSvg` geometry:
every input string, arcs included -/
theorem parse_then_svg_wellnested_concrete (ofLexeme : List Char → α)
    (conv : Arc α → List (Quad α)) (na : Nat) (stop : Option Char) (inp : List Char) :
    WellNested (Svg.runBuild (rawGeo conv) (Scalar.zero : α)
      (parseCmds (concreteNum ofLexeme) na stop inp)) :=
  C15.svg_trace_wellnested _ _ _

/-- `parse_is_svg_semantics` for the concrete parser: no panic hypothesis left; `+` commutative
is the only arithmetic assumed -/
theorem parse_is_svg_semantics_concrete (h : NoNaNLaws α) (hcomm : ∀ a b : α, a + b = b + a)
    (ofLexeme : List Char → α) (g : Svg.Geo α (RawArc α)) (na : Nat) (stop : Option Char)
    (inp : List Char)
    (hno : ∀ c ∈ parseCmds (concreteNum ofLexeme) na stop inp, c.isArc = false) :
    (parse (concreteNum ofLexeme) na stop inp).trace.map eraseCall =
      Svg.specBuild g (Scalar.zero : α) (parseCmds (concreteNum ofLexeme) na stop inp) :=
  parse_is_svg_semantics (N := concreteNum ofLexeme) ⟨fun _ _ => rfl, fun _ _ => rfl, hcomm⟩ g na
    stop inp (parse_no_panic_concrete h ofLexeme na stop inp) hno

/-- the concrete parser on EVERY string without `a`/`A`: its calls are the SVG reference
semantics (no hypothesis on the parse at all) -/
theorem parse_is_svg_semantics_arcfree_concrete (h : NoNaNLaws α)
    (hcomm : ∀ a b : α, a + b = b + a) (ofLexeme : List Char → α) (g : Svg.Geo α (RawArc α))
    (na : Nat) (stop : Option Char) (inp : List Char) (ha : 'a' ∉ inp) (hA : 'A' ∉ inp) :
    (parse (concreteNum ofLexeme) na stop inp).trace.map eraseCall =
      Svg.specBuild g (Scalar.zero : α) (parseCmds (concreteNum ofLexeme) na stop inp) :=
  parse_is_svg_semantics_concrete h hcomm ofLexeme g na stop inp
    (parseCmds_noArc _ na stop inp ha hA)

end both

/-! ### Non-vacuity -/

/-- `Ops` holds for the integer instance of `Props/C17.lean` -/
theorem ops_intNum : Ops intNum := ⟨fun _ _ => rfl, fun _ _ => rfl, Int.add_comm⟩

/-- a toy arc geometry on the integers -/
def tGeo : Svg.Geo Int (RawArc Int) := ⟨fun _ _ => .skip, fun _ _ _ => .straight⟩

/-- hypotheses of `parse_is_svg_semantics` / `parse_is_withsvg` on a string with relative,
implicit, H/V, smooth and close commands, two sub-paths, one attribute — and on a failing one -/
example :
    (parse intNum 1 none "m 1 1 7 2 2 8 h 3 9 S 1 2 3 4 5 t 1 1 6 z M 0 0 1 V 5 2".toList).outcome
      ≠ .panic ∧
    (∀ c ∈ parseCmds intNum 1 none "m 1 1 7 2 2 8 h 3 9 S 1 2 3 4 5 t 1 1 6 z M 0 0 1 V 5 2".toList,
      c.isArc = false) ∧
    (parse intNum 0 none "M 0 0 L 1 x".toList).outcome ≠ .panic ∧
    (∀ c ∈ parseCmds intNum 0 none "M 0 0 L 1 x".toList, c.isArc = false) ∧
    (∀ a : Int, a + (a - a) = a) := by
  refine ⟨by decide, by decide, by decide, by decide, fun a => by omega⟩

/-- … and what the statement says there -/
example :
    (parse intNum 1 none "m 1 1 7 2 2 8 h 3 9 S 1 2 3 4 5 t 1 1 6 z M 0 0 1 V 5 2".toList).trace.map
        eraseCall =
      [.begin ⟨1, 1⟩ (), .line ⟨3, 3⟩ (), .line ⟨6, 3⟩ (), .cubic ⟨6, 3⟩ ⟨1, 2⟩ ⟨3, 4⟩ (),
       .quad ⟨3, 4⟩ ⟨4, 5⟩ (), .end_ true, .begin ⟨0, 0⟩ (), .line ⟨0, 5⟩ (), .end_ false] ∧
    Svg.specBuild tGeo 0
        (parseCmds intNum 1 none "m 1 1 7 2 2 8 h 3 9 S 1 2 3 4 5 t 1 1 6 z M 0 0 1 V 5 2".toList) =
      [.begin ⟨1, 1⟩ (), .line ⟨3, 3⟩ (), .line ⟨6, 3⟩ (), .cubic ⟨6, 3⟩ ⟨1, 2⟩ ⟨3, 4⟩ (),
       .quad ⟨3, 4⟩ ⟨4, 5⟩ (), .end_ true, .begin ⟨0, 0⟩ (), .line ⟨0, 5⟩ (), .end_ false] := by
  decide

/-- hypotheses of `parse_is_svg_semantics_arcfree` -/
example : 'a' ∉ "M 0 0 L 1 x".toList ∧ 'A' ∉ "M 0 0 L 1 x".toList := by decide

/-- an arc command is read as an arc command (so the hypothesis `hno` excludes exactly these) -/
example : (parseCmds intNum 0 none "M0 0A1 1 0 0 1 5 5a1 1 0 0 1 5 5L1 1".toList).map Svg.Cmd.isArc =
    [false, true, true, false] := by decide

end Lyon.C17
