/-
  C01, growth: NO-PANIC THEOREMS ABOUT THE MODELLED SWEEP ("... for finite input the call terminates
  without panicking").

  `Model/Tess/Sweep.lean` has 22 `throw (.panic ..)` sites with 9 distinct messages (every Rust
  `unwrap`, index, `unreachable!`, `assert!`, integer underflow of fill.rs).  What is proved here,
  for EVERY input (every list of sub-paths / every event queue, entry point, fill rule, orientation,
  tolerance, `handle_intersections` flag) and - unless a hypothesis says otherwise - EVERY scalar
  type (`f32` with its NaNs included; no order law is used):

  site (fill.rs)                                   message     status
  ------------------------------------------------------------------------------------------------
  spans[i].tess() on an ended span (3 sites)       mDead       UNREACHABLE (all scalars)
  edges_below[idx], [idx+1] (2 sites)              mBelowIdx   UNREACHABLE (all scalars)
  edges_to_split index (split_edge)                mEdgeIdx    UNREACHABLE (all scalars)  [process_edges_above_sites]
  merge event: active.edges[above_start]           mEdgeIdx    UNREACHABLE (all scalars)  [process_edges_above_sites]
  process_intersection: active.edges[idx]          mEdgeIdx    UNREACHABLE (all scalars)  [update_active_edges_sites]
  sort_active_edges: edges[idx], edges[idx-1]      mEdgeIdx    UNREACHABLE (all scalars)  [recover_sites]
  split event: above_start - 1                     mSub        UNREACHABLE (all scalars)  [process_edges_below_sites]
  recover: begin_span(span_index)                  mSpanIns    UNREACHABLE (all scalars)  [recover_sites]
  splice(above_start..above_end)                   mSplice     UNREACHABLE when the two on-edge tests agree on
                                                               level edges (`HorizAgree`; holds over ordered fields)
  partial_cmp(..).unwrap() in sort_active_edges    mNaN        UNREACHABLE for scalar types without NaN (`NoNaN`)
  assert!(is_after(intersection, current))         mAssert     UNREACHABLE when `y < next_after(y)` (`NextUpOk`:
                                                               every finite f32 and -inf; ordered fields)
  sort_active_edges fix-up loop: idx - 1           (mSub)      WAS reachable on finite input, also on the real
                                                               FillTessellator (finding C01-sort-active-edges-
                                                               merge-underflow).  FIXED in lyon 747d7f78: the
                                                               loop returns Err(Internal(MergeVertexOutside));
                                                               the model mirrors it, the site is no panic any
                                                               more and `mSub` left every residue list
  spans[i] (vertex events, spans_to_end, split)    mSpanIdx    not proved: needs span/winding coherence
  begin_span(i) in process_edges_below/split_event mSpanIns    not proved: same
  split event: active.edges[above_start] (right)   mEdgeIdx    not proved: needs total winding of the
                                                               active list to be `out`

  The last three need the invariant "number of live spans = number of in-transitions of the active
  list" which in turn needs conservation of winding at every vertex, a property of the (pointer-level)
  event queue; they are reachable with `handle_intersections = false` on intersecting input (the
  documented precondition of that flag) and were never seen with the flag on.

  SPAN / WINDING COHERENCE (Lemmas/SweepSafeCoh*.lean).  The three unproved sites are exactly the ones
  that need the invariant `Coh`: every span live; number of spans = number of span-index increments
  of the winding fold over the active list (= number of `in` gaps); total winding `out`; every merge
  vertex inside an `in` region.  Proved, for every scalar type with agreeing on-edge tests:
  * `scan_winding_spec`     what a successful scan computes in terms of the winding fold (`ScanSem`:
                            `winding_before`, every span index handed out, the number of spans to end,
                            when split / merge / merge-split events are signalled);
  * `process_events_coherent` from a coherent state `process_events` has no reachable panic but the
                            assertion; its result is described relative to the scanned state (`EvPost`);
  * `coherence_after_event` if the winding is conserved at the vertex (`EventOkW`: the winding number
                            right of the new edges = the winding number right of the edges that ended;
                            no stray vertex) the new state is coherent again;
  * `sweep_no_panic_certified` (EVERY scalar type, f32 included, no hypothesis) a run whose EXECUTABLE
                            certificate `cleanB` (`Model/Tess/SweepCert.lean`) evaluates to `true` can only
                            panic on the assertion or the NaN sort key.  The certificate replays the run and
                            checks, at every event: the scan result passes `scanAgreeB` (what the proofs
                            need of `HorizAgree`), the winding is conserved (`eventOkB`).  Nothing else:
                            runs through `recover_from_error` are covered by `recovery_coherent` below.
                            The C01 check evaluates it on EVERY explored case
                            (family `sweepcert:32`: `cert ok` = not finite, or certificate true).
  * `recovery_coherent`     (EVERY scalar type, all inputs) from a coherent state `recover_from_error`
                            ends in a coherent state again, or in `Err(MergeVertexOutside)` (lyon 747d7f78),
                            or in the NaN-key panic of the sort: the insertion sort and the merge-vertex
                            fix-up permute the active list (total winding stays `out`, merge vertices keep
                            winding 0), the fix-up leaves every merge vertex inside an `in` region, the
                            final "last edge is a merge" swap is then a no-op, and the span list is
                            rebuilt to exactly the number of `in` transitions
                            (`Lemmas/SweepSafeCoh{Sort,Fix,Recover}.lean`);
  * `sweep_no_panic_winding_partial` / `sweep_no_panic_winding_field_partial` where the on-edge tests of
                            the scan agree (`HorizAgree`; every ordered field) the certificate needs the
                            winding check only (`windB`): over ordered fields winding conservation is the
                            ONLY unproved residue of the no-panic clause;
  * `sweep_no_panic_clean_partial` the same with `NextUpOk`, `NoNaN`: no panic at all;
                            `sweep_no_panic_clean_field_partial` over every ordered field.  `_partial`:
                            the certificate is a hypothesis about the run; winding conservation (a property
                            of the pointer-level event queue) and `scanAgreeB` are checked per run, NOT
                            proved for all inputs - this is exactly the unproved residue.

  Theorems:
  * `sweep_no_structural_panic`  (all scalar types, no hypothesis) a run never ends in `mDead` or
                                 `mBelowIdx`; precisely: a panic message is one of the seven others;
  * `sweep_no_panic_partial`     (`NoNaN`, `NextUpOk`, `HorizAgree`) a panic message is one of
                                 `mSpanIdx, mSpanIns, mEdgeIdx`;
  * `sweep_no_panic_field_partial` the same over every linearly ordered field (hypotheses discharged);
  * the `*_sites` theorems: per step function, the exact list of panic messages it can end in - from
    which the table above is read off (e.g. `mEdgeIdx` can only come out of `process_edges_below`,
    i.e. the split event; `recover_from_error` can only panic on a NaN sort key);
  * `sweep_impl_…`, `sweep_curves_…`: the same for `tessellate_impl` on any queue / curved input.
-/
import LyonVerif.Lemmas.SweepSafeField
import LyonVerif.Lemmas.SweepSafeCohRun
import LyonVerif.Lemmas.SweepIdxZ
import LyonVerif.Model.Tess.SweepCurves

set_option linter.unusedSectionVars false
set_option linter.unusedVariables false
set_option linter.unusedSimpArgs false

namespace Lyon.C01b
open Lyon Lyon.Scalar Lyon.Mono Lyon.Sweep Lyon.EQ Lyon.SweepSafe Lyon.SweepCoh
open Std.Do

section allScalars
variable {α : Type} [Scalar α] [Wide α]

/-- the panic messages not excluded for an arbitrary scalar type -/
def structuralResidue : List String := [mSpanIdx, mSpanIns, mEdgeIdx, mNaN, mAssert, mSplice]

/-- the panic messages not excluded for a NaN-free scalar type with `y < next_after(y)` and agreeing
on-edge tests -/
def semanticResidue : List String := [mSpanIdx, mSpanIns, mEdgeIdx]

theorem covers_structural (t : α) : Covers t structuralResidue :=
  ⟨by simp [structuralResidue], by simp [structuralResidue], by simp [structuralResidue],
   Or.inr (by simp [structuralResidue]), Or.inr (by simp [structuralResidue]),
   Or.inr (by simp [structuralResidue])⟩

theorem covers_semantic (t : α) (hNaN : NoNaN α) (hUp : NextUpOk α) (hH : HorizAgree t) :
    Covers t semanticResidue :=
  ⟨by simp [semanticResidue], by simp [semanticResidue], by simp [semanticResidue],
   Or.inl hNaN, Or.inl hUp, Or.inl hH⟩

/-- **No structural panic, every scalar type.**  Whatever the input and the options, the modelled
`FillTessellator` never ends in "dead span" or "edge below index out of range": if it panics, the
message is one of `structuralResidue`. -/
theorem sweep_no_structural_panic (entry : Entry) (rule : Slab.Rule) (horizontal : Bool) (tol : α)
    (handleIx : Bool) (subs : List (SubPath α)) (w : String)
    (h : (tessellate entry rule horizontal tol handleIx subs).1 = some (.panic w)) :
    w ∈ structuralResidue :=
  tessellate_allowed entry rule horizontal tol handleIx subs (covers_structural _) _ h w rfl

/-- the same for `tessellate_impl` started on ANY event queue -/
theorem sweep_impl_no_structural_panic (q : Queue α) (rule : Slab.Rule) (horizontal : Bool) (tol : α)
    (handleIx : Bool) (w : String) (h : (tessellateImpl q rule horizontal tol handleIx).1 = some (.panic w)) :
    w ∈ structuralResidue :=
  tessellateImpl_allowed q rule horizontal tol handleIx (covers_structural _) _ h w rfl

/-- the curved-input entry points (flattening feeds the same `tessellate_impl`; the queue builder
has one panic of its own, the `to_u32().unwrap()` of the flattening count) -/
theorem sweep_curves_no_structural_panic [Transc α] [FlatConst α] (mode : SweepCurves.IdMode) (rule : Slab.Rule)
    (horizontal : Bool) (tol : α) (handleIx : Bool) (cmds : List (SweepCurves.Cmd α)) (w : String)
    (h : (SweepCurves.tessellate mode rule horizontal tol handleIx cmds).1.1 = some (.panic w)) :
    w ∈ "flattening count.to_u32().unwrap()" :: structuralResidue := by
  unfold SweepCurves.tessellate at h
  split at h
  · cases h; simp
  · dsimp only at h
    split at h
    · cases h
    · exact List.mem_cons_of_mem _ (sweep_impl_no_structural_panic _ _ _ _ _ w h)

/-- **No panic but three messages**, for a scalar type without NaN, with `y < next_after(y)` and with
agreeing on-edge tests.  `_partial`: `mSpanIdx`, `mSpanIns`, `mEdgeIdx` (right neighbour of a split
vertex) need the span/winding coherence of the sweep state, which is proved only for runs with a
clean certificate (`sweep_no_panic_clean_partial`).  (The fourth message of the first version,
`mSub` of the fix-up loop of `sort_active_edges`, was a genuine defect of lyon - finding
`C01-sort-active-edges-merge-underflow` - and is gone since fix 747d7f78.) -/
theorem sweep_no_panic_partial (hNaN : NoNaN α) (hUp : NextUpOk α) (entry : Entry) (rule : Slab.Rule)
    (horizontal : Bool) (tol : α) (hH : HorizAgree (tol * half)) (handleIx : Bool) (subs : List (SubPath α))
    (w : String) (h : (tessellate entry rule horizontal tol handleIx subs).1 = some (.panic w)) :
    w ∈ semanticResidue :=
  tessellate_allowed entry rule horizontal tol handleIx subs (covers_semantic _ hNaN hUp hH) _ h w rfl

theorem sweep_impl_no_panic_partial (hNaN : NoNaN α) (hUp : NextUpOk α) (q : Queue α) (rule : Slab.Rule)
    (horizontal : Bool) (tol : α) (hH : HorizAgree (tol * half)) (handleIx : Bool)
    (w : String) (h : (tessellateImpl q rule horizontal tol handleIx).1 = some (.panic w)) :
    w ∈ semanticResidue :=
  tessellateImpl_allowed q rule horizontal tol handleIx (covers_semantic _ hNaN hUp hH) _ h w rfl

/-! ### per step function: the panic messages it can end in (`Allowed A`) -/

/-- `process_edges_above` after a successful scan of the same active list can only fail with a span
index out of range: the `edges_to_split` indices, the merge-event index and the liveness of every
span it touches are proved. -/
theorem process_edges_above_sites (tol : α) (scan : Scan) :
    ⦃fun s => ⌜Safe tol s ∧ ScanOk s scan⌝⦄ (processEdgesAbove scan : SM α Scan)
    ⦃safePost [mSpanIdx] fun sc s => Safe tol s ∧ Fit tol s sc⦄ :=
  processEdgesAbove_safeS (by simp) scan

/-- `scan_active_edges`: a successful scan satisfies `ScanOk` -/
theorem scan_ok (s : St α) (scan : Scan) (h : scanActiveEdges s = .ok scan) : ScanOk s scan := of_scan_ok h

/-- `process_edges_below`: `above_start - 1` never underflows, the `edges_below` indices are in
range; what is left is the right neighbour of a split vertex and the span indices. -/
theorem process_edges_below_sites (tol : α) (scan : Scan) :
    ⦃fun s => ⌜Safe tol s ∧ Fit tol s scan⌝⦄ (processEdgesBelow scan : SM α Unit)
    ⦃safePost [mEdgeIdx, mSpanIdx, mSpanIns] fun _ s => Safe tol s ∧ Fit tol s scan⦄ :=
  processEdgesBelow_safeS (by simp) (by simp) (by simp) scan

/-- `update_active_edges` (with `handle_intersections` / `process_intersection`): the active-edge
index of an intersection is in range; only the assertion and the splice remain -/
theorem update_active_edges_sites (tol : α) (scan : Scan) :
    ⦃fun s => ⌜Safe tol s ∧ Fit tol s scan⌝⦄ (updateActiveEdges scan : SM α Unit)
    ⦃safePost [mAssert, mSplice] fun _ s => Safe tol s⦄ :=
  updateActiveEdges_safeS (Or.inr (by simp)) (Or.inr (by simp)) scan

/-- ... and neither remains when `y < next_after(y)` and the on-edge tests agree: then
`update_active_edges` never panics. -/
theorem update_active_edges_no_panic (hUp : NextUpOk α) (tol : α) (hH : HorizAgree tol) (scan : Scan) :
    ⦃fun s => ⌜Safe tol s ∧ Fit tol s scan⌝⦄ (updateActiveEdges scan : SM α Unit)
    ⦃safePost [] fun _ s => Safe tol s⦄ :=
  updateActiveEdges_safeS (Or.inl hUp) (Or.inl hH) scan

/-- `process_events`: never an integer underflow, never `mNaN` -/
theorem process_events_sites (tol : α) :
    ⦃fun s => ⌜Safe tol s⌝⦄ (processEvents : SM α (Option IErr))
    ⦃safePost [mSpanIdx, mSpanIns, mEdgeIdx, mAssert, mSplice] fun _ s => Safe tol s⦄ :=
  processEvents_safe (by simp) (by simp) (by simp) (Or.inr (by simp)) (Or.inr (by simp))

/-- `recover_from_error`: the only panic is the NaN sort key; its `begin_span` and `pop` calls are
safe, and the fix-up loop of `sort_active_edges` ends in `Err(MergeVertexOutside)` instead of
underflowing (lyon 747d7f78) -/
theorem recover_sites (tol : α) :
    ⦃fun s => ⌜Safe tol s⌝⦄ (recoverFromError : SM α Unit) ⦃safePost [mNaN] fun _ s => Safe tol s⦄ :=
  recoverFromError_safe (Or.inr (by simp))

/-- ... and without NaN `recover_from_error` never panics -/
theorem recover_sites_no_nan (hNaN : NoNaN α) (tol : α) :
    ⦃fun s => ⌜Safe tol s⌝⦄ (recoverFromError : SM α Unit) ⦃safePost [] fun _ s => Safe tol s⦄ :=
  recoverFromError_safe (Or.inl hNaN)

/-- the assertion of `process_intersection` cannot fail when `y < next_after(y)`: with an in-range
edge index `process_intersection` never fails -/
theorem process_intersection_no_panic (hUp : NextUpOk α) (tol : α) (n : Nat) (ta tb : Wide.W α) (aei : Nat)
    (haei : aei < n) (eb0 : PendingEdge α) (belowSeg : Seg (Wide.W α)) :
    ⦃fun s => ⌜Core tol n [] s⌝⦄ (processIntersection ta tb aei eb0 belowSeg : SM α (PendingEdge α))
    ⦃safePost [] fun _ s => Core tol n [] s⦄ :=
  processIntersection_safe (Or.inl hUp) ta tb aei haei eb0 belowSeg

end allScalars

/-! ### span / winding coherence -/

section coherence
variable {α : Type} [Scalar α] [Wide α]

/-- **what a successful scan computes**, in terms of the winding fold `Wat s` over the active list -/
theorem scan_winding_spec (s : St α) (scan : Scan) (h : scanActiveEdges s = .ok scan) :
    ScanOk s scan ∧ ScanSem s scan := of_scan_both h

/-- **the invariant after an event with conserved winding**.  `ScanAgree` (a merge event consumed an
edge; a vertex in the filled region that connects to nothing is a split event) follows from
`HorizAgree` (`scanAgree_of_horiz`) and is decidable on the scan result (`scanAgreeB`). -/
theorem coherence_after_event {s0 s' : St α} {scan : Scan} {W : List Int} (hok : ScanOk s0 scan)
    (hsem : ScanSem s0 scan) (hc : Coh s0) (hG : ScanAgree s0 scan) (hev : EventOkW s0 scan W)
    (hN : NewSt s0 scan (Zf s0 scan W) W s') : Coh s' := coh_after hok hsem hc hG hev hN

/-- **`process_events` on a coherent state**: the only panic it can reach is the assertion (none when
`y < next_after(y)`); afterwards the state is the scanned state with the above-range replaced by the
pending edges (`EvPost`), whatever the winding balance -/
theorem process_events_coherent (hUp : NextUpOk α) (s1 : St α) (hc : Coh s1) (hH : HorizAgree s1.tolerance) :
    ⦃fun s => ⌜s = s1⌝⦄ (processEvents : SM α (Option IErr)) ⦃safePost [] fun r s' => EvPost s1 r s'⦄ :=
  processEvents_coh_at s1 hc (fun scan h => scanAgree_of_horiz (of_scan_both h).1 (of_scan_both h).2 hH)
    (Or.inl hUp)

/-- **`recover_from_error` re-establishes the coherence invariant - every scalar type, all inputs.**
From a coherent state the recovery (sort of the active list, merge-vertex fix-up, span repair) ends
in a coherent state, or fails with `Err(MergeVertexOutside)` / fuel / the unmodelled >20-element
inconsistent sort, or panics on a NaN sort key (`mNaN`; not at all when the scalar type has no NaN). -/
theorem recovery_coherent (tol : α) :
    ⦃fun s => ⌜Coh s ∧ s.tolerance = tol⌝⦄ (recoverFromError : SM α Unit)
    ⦃safePost [mNaN] fun _ s3 => Coh s3 ∧ s3.tolerance = tol⦄ :=
  recoverFromError_coh (Or.inr (by simp)) tol

theorem recovery_coherent_no_nan (hNaN : NoNaN α) (tol : α) :
    ⦃fun s => ⌜Coh s ∧ s.tolerance = tol⌝⦄ (recoverFromError : SM α Unit)
    ⦃safePost [] fun _ s3 => Coh s3 ∧ s3.tolerance = tol⦄ :=
  recoverFromError_coh (Or.inl hNaN) tol

/-- what the sort + fix-up of `recover_from_error` guarantee about the new active list: same total
winding, merge vertices with winding 0 and all inside `in` regions -/
theorem sort_active_edges_spec (s0 : St α) (hz : ∀ x ∈ sigs s0, x.1 = true → x.2 = 0) :
    ⦃fun s => ⌜Fr s0 s⌝⦄ (sortActiveEdges : SM α Unit) ⦃safePost [mNaN] fun _ s' => SortedOK s0 s'⦄ :=
  sortActiveEdges_coh (Or.inr (by simp)) s0 hz

/-- **A certified run can only panic on the assertion or on a NaN sort key - for EVERY scalar type**,
`f32` included, without any hypothesis: `cleanB` (executable, `Model/Tess/SweepCert.lean`) replays
the run and checks at every event that the scan result passes `scanAgreeB` and that the winding is
conserved (`eventOkB`) - nothing else (the state after a `recover_from_error` is coherent by
`recovery_coherent`).  The C01 check evaluates it on every explored case (family `sweepcert:32`). -/
theorem sweep_no_panic_certified (entry : Entry) (rule : Slab.Rule) (horizontal : Bool)
    (tol : α) (handleIx : Bool) (subs : List (SubPath α))
    (hB : cleanB entry rule horizontal tol handleIx subs = true) (w : String)
    (h : (tessellate entry rule horizontal tol handleIx subs).1 = some (.panic w)) :
    w ∈ [mAssert, mNaN] :=
  tessellate_clean (A := [mAssert, mNaN]) entry rule horizontal tol handleIx subs (Or.inr (by simp))
    (Or.inr (by simp)) true (Or.inl rfl) hB _ h w rfl

theorem sweep_impl_no_panic_certified (q : Queue α) (rule : Slab.Rule) (horizontal : Bool)
    (tol : α) (handleIx : Bool) (hB : cleanRunB q rule horizontal tol handleIx = true) (w : String)
    (h : (tessellateImpl q rule horizontal tol handleIx).1 = some (.panic w)) : w ∈ [mAssert, mNaN] :=
  tessellateImpl_clean (A := [mAssert, mNaN]) q rule horizontal tol handleIx (Or.inr (by simp))
    (Or.inr (by simp)) true (Or.inl rfl) hB _ h w rfl

/-- **A run with a clean certificate does not panic** (scalar types with `y < next_after(y)` and
without NaN).  `_partial`: the certificate is a hypothesis about the run, not proved for all inputs
(winding conservation is a property of the pointer-level event queue) - see the header. -/
theorem sweep_no_panic_clean_partial (hUp : NextUpOk α) (hNaN : NoNaN α) (entry : Entry) (rule : Slab.Rule)
    (horizontal : Bool) (tol : α) (handleIx : Bool) (subs : List (SubPath α))
    (hB : cleanB entry rule horizontal tol handleIx subs = true) (w : String) :
    (tessellate entry rule horizontal tol handleIx subs).1 ≠ some (.panic w) := by
  intro h
  have := tessellate_clean (A := []) entry rule horizontal tol handleIx subs (Or.inl hUp) (Or.inl hNaN) true
    (Or.inl rfl) hB _ h w rfl
  cases this

theorem sweep_impl_no_panic_clean_partial (hUp : NextUpOk α) (hNaN : NoNaN α) (q : Queue α) (rule : Slab.Rule)
    (horizontal : Bool) (tol : α) (handleIx : Bool)
    (hB : cleanRunB q rule horizontal tol handleIx = true) (w : String) :
    (tessellateImpl q rule horizontal tol handleIx).1 ≠ some (.panic w) := by
  intro h
  have := tessellateImpl_clean (A := []) q rule horizontal tol handleIx (Or.inl hUp) (Or.inl hNaN) true
    (Or.inl rfl) hB _ h w rfl
  cases this

/-- **Winding conservation is the only residue where the on-edge tests agree** (`HorizAgree`: every
ordered field): a run whose executable winding certificate `windB` (`eventOkB` at every event, nothing
else) is true does not panic. -/
theorem sweep_no_panic_winding_partial (hUp : NextUpOk α) (hNaN : NoNaN α) (entry : Entry) (rule : Slab.Rule)
    (horizontal : Bool) (tol : α) (hH : HorizAgree (tol * half)) (handleIx : Bool) (subs : List (SubPath α))
    (hB : windB entry rule horizontal tol handleIx subs = true) (w : String) :
    (tessellate entry rule horizontal tol handleIx subs).1 ≠ some (.panic w) := by
  intro h
  have := tessellate_clean (A := []) entry rule horizontal tol handleIx subs (Or.inl hUp) (Or.inl hNaN) false
    (Or.inr hH) hB _ h w rfl
  cases this

end coherence

/-! ### ordered fields: the hypotheses hold -/

section field
variable {K : Type} [Field K] [LinearOrder K] [IsStrictOrderedRing K]

/-- the exact `Wide` instance over a field: no widening, no NaN, `next_after(y) = y + 1`; `f32::MIN`,
`f32::EPSILON`, `sqrt` are parameters -/
@[reducible] noncomputable def exactWide (fmin eps : K) (sqrt : K → K) : Wide K where
  W := K
  scalarW := inferInstance
  sgnW := ⟨fun x => if x < 0 then -1 else 1⟩
  widen := id
  narrow := id
  nextUp := fun y => y + 1
  fmin := fmin
  isNaN := fun _ => false
  sqrt := sqrt
  eps := eps

theorem noNaN_exact (fmin eps : K) (sqrt : K → K) : @NoNaN K (exactWide fmin eps sqrt) := fun _ => rfl

theorem nextUpOk_exact (fmin eps : K) (sqrt : K → K) : @NextUpOk K _ (exactWide fmin eps sqrt) :=
  fun y => lt_add_one y

/-- **Over every linearly ordered field** (exact arithmetic), for every `f32::MIN`, `EPSILON`, `sqrt`:
a panic of the modelled sweep has one of the four messages of `semanticResidue`. -/
theorem sweep_no_panic_field_partial (fmin eps : K) (sqrt : K → K) (entry : Entry) (rule : Slab.Rule)
    (horizontal : Bool) (tol : K) (htol : 0 ≤ tol) (handleIx : Bool) (subs : List (SubPath K)) (w : String)
    (h : (@tessellate K _ (exactWide fmin eps sqrt) entry rule horizontal tol handleIx subs).1 = some (.panic w)) :
    w ∈ semanticResidue := by
  let _ := exactWide fmin eps sqrt
  refine sweep_no_panic_partial (noNaN_exact fmin eps sqrt) (nextUpOk_exact fmin eps sqrt) entry rule horizontal
    tol ?_ handleIx subs w h
  apply horizAgree_field
  show (0 : K) ≤ tol * (Scalar.ofSci 5 1)
  rw [sc_half]
  positivity

/-- the clean-run theorem over every linearly ordered field -/
theorem sweep_no_panic_clean_field_partial (fmin eps : K) (sqrt : K → K) (entry : Entry) (rule : Slab.Rule)
    (horizontal : Bool) (tol : K) (handleIx : Bool) (subs : List (SubPath K))
    (hB : @cleanB K _ (exactWide fmin eps sqrt) entry rule horizontal tol handleIx subs = true) (w : String) :
    (@tessellate K _ (exactWide fmin eps sqrt) entry rule horizontal tol handleIx subs).1 ≠ some (.panic w) := by
  let _ := exactWide fmin eps sqrt
  exact sweep_no_panic_clean_partial (nextUpOk_exact fmin eps sqrt) (noNaN_exact fmin eps sqrt) entry rule
    horizontal tol handleIx subs hB w

/-- **Over every linearly ordered field the only unproved residue of the no-panic clause is winding
conservation**: if the winding is conserved at every event of the run (`windB`, executable: the
windings of the edges leaving each vertex balance those of the edges that end there, no stray vertex)
the modelled sweep does not panic - whatever the input, options, entry point. -/
theorem sweep_no_panic_winding_field_partial (fmin eps : K) (sqrt : K → K) (entry : Entry) (rule : Slab.Rule)
    (horizontal : Bool) (tol : K) (htol : 0 ≤ tol) (handleIx : Bool) (subs : List (SubPath K))
    (hB : @windB K _ (exactWide fmin eps sqrt) entry rule horizontal tol handleIx subs = true) (w : String) :
    (@tessellate K _ (exactWide fmin eps sqrt) entry rule horizontal tol handleIx subs).1 ≠ some (.panic w) := by
  let _ := exactWide fmin eps sqrt
  refine sweep_no_panic_winding_partial (nextUpOk_exact fmin eps sqrt) (noNaN_exact fmin eps sqrt) entry rule
    horizontal tol ?_ handleIx subs hB w
  apply horizAgree_field
  show (0 : K) ≤ tol * (Scalar.ofSci 5 1)
  rw [sc_half]
  positivity

end field

/-! ### non-vacuity (kernel-evaluated on the exact integer instance `Z` of `Lemmas/SweepIdxZ.lean`) -/

section examples
open Lyon.SweepIdx (Z pz outcome)

/-- `NoNaN` fails for `Z` (one value is singled out as NaN), `NextUpOk` holds -/
example : NextUpOk Z := fun y => by show y.v < y.v + 1; omega

/-- a successful scan with a non-trivial result exists: the hypothesis `ScanOk s scan` of the step
theorems is inhabited (second event of a triangle: two edges active, the vertex connects to none) -/
example : ∃ (s : St Z) (scan : Scan), scanActiveEdges s = .ok scan ∧ scan.aboveEnd = 1 ∧ s.active.size = 2 := by
  refine ⟨{ q := Queue.empty, curPos := pz 0 2, curVertex := 1, curEvent := 0,
            active := #[⟨pz 1 0, pz 0 2, 1, false, 0, 0, ⟨1⟩⟩, ⟨pz 1 0, pz 3 3, -1, false, 0, 1, ⟨1⟩⟩],
            below := #[], spans := #[some Adv.new], pool := [], rule := .evenOdd, horizontal := false,
            tolerance := ⟨0⟩, handleIntersections := true, out := #[], nverts := 2 }, _, rfl, ?_, ?_⟩ <;>
  decide +kernel

/-- the on-edge tests agree on the exact integer instance (for a non-negative threshold) -/
theorem horizAgree_Z (t : Z) (ht : 0 ≤ t.v) : HorizAgree (α := Z) t := by
  apply horizAgree_of_law
  intro cur e h2 h3
  have h2' : ¬ (e.maxX).v < cur.x.v := h2
  have h3' : ¬ cur.x.v < (e.minX).v := h3
  refine ⟨⟨show cur.x.v ≤ (e.maxX).v by omega, show (e.minX).v ≤ cur.x.v by omega⟩, ?_⟩
  show ((⟨((cur.x.v - cur.x.v).natAbs : Int)⟩ : Z)).v ≤ (onEdgeThreshold t cur.x).v
  have : ((cur.x.v - cur.x.v).natAbs : Int) = 0 := by simp
  rw [this]
  unfold onEdgeThreshold
  show (0 : Int) ≤ (if t.v ≤ _ then _ else t).v
  split <;> omega

/-- non-vacuity of `sweep_no_panic_certified` / `sweep_no_panic_clean_partial`: the certificate of the
triangle `(1,0) (0,2) (3,3)` evaluates to `true` in the kernel -/
example :
    cleanB (α := Z) .path .nonZero false ⟨1⟩ true [([pz 1 0, pz 0 2, pz 3 3], true)] = true := by
  decide +kernel

example : HorizAgree (α := Z) ((⟨1⟩ : Z) * half) := horizAgree_Z _ (by decide)

/-- non-vacuity of `sweep_no_panic_winding_partial`: the winding-only certificate of the same triangle -/
example :
    windB (α := Z) .path .nonZero false ⟨1⟩ true [([pz 1 0, pz 0 2, pz 3 3], true)] = true := by
  decide +kernel

/-- a sweep state in the middle of a shape: two edges `(0,0)-(0,4)` (winding 1) and `(4,0)-(4,4)`
(winding -1) STORED IN THE WRONG ORDER, one span -/
def recState : St Z :=
  { q := Queue.empty, curPos := pz 1 2, curVertex := 1, curEvent := 0,
    active := #[⟨pz 4 0, pz 4 4, -1, false, 0, 0, ⟨1⟩⟩, ⟨pz 0 0, pz 0 4, 1, false, 1, 1, ⟨1⟩⟩], below := #[],
    spans := #[some Adv.new], pool := [], rule := .nonZero, horizontal := false, tolerance := ⟨0⟩,
    handleIntersections := true, out := #[], nverts := 2 }

/-- non-vacuity of `recovery_coherent`: `recState` is coherent (precondition inhabited by a state with
edges), and `recover_from_error` succeeds on it, re-sorting the two edges -/
example : Coh recState := coh_of_B (by decide +kernel)

example :
    (match ((recoverFromError (α := Z)).run.run recState : Except Fail Unit × St Z) with
     | (.ok _, s3) => (match s3.active.toList with | [a, b] => a.srcEdge == 1 && b.srcEdge == 0 | _ => false) && cohB s3
     | _ => false) = true := by
  decide +kernel

/-- the panic branches are real: on a state WITHOUT spans (not a state the sweep reaches) a vertex
event panics with a message of the residue -/
example :
    (match ((spanVertex (α := Z) 0 (pz 0 0) 0 true).run.run
      { q := Queue.empty, curPos := pz 0 2, curVertex := 1, curEvent := 0, active := #[], below := #[],
        spans := #[], pool := [], rule := .evenOdd, horizontal := false, tolerance := ⟨0⟩,
        handleIntersections := true, out := #[], nverts := 2 }).1 with
     | .error (.panic w) => w == mSpanIdx
     | _ => false) = true := by
  decide +kernel

/-- the triangle `(1,0) (0,2) (3,3)`, every entry point: no panic (outcome `ok`) -/
example :
    outcome (tessellate (α := Z) .path .nonZero false ⟨1⟩ true [([pz 1 0, pz 0 2, pz 3 3], true)]) = "ok" := by
  decide +kernel

end examples

end Lyon.C01b
