/-
  C09, part d.

  * `chk_hull_mono`, `chk_hull_quad_mono`, `chk_hull_cubic_mono`: the convex-hull checker is monotone in
    the squared radius `r2` — so the driver's search for the least accepted factor
    (`Drive/FlatChkIO.lean hullBucket`: `find?` over the increasing factors) returns the MINIMAL one and
    every larger factor is accepted as well (`bucket_search_minimal`).
  * `chk_arc_sound(_rat)`: the exact, trigonometry-free checker for flattened ARCS
    (Model/Geom/FlattenCertArc.lean): the ellipse is `A(unit circle)`, `A(p) = center + Rot(c,s)(rx·p.x,
    ry·p.y)` with `c² + s² = 1` exactly; acceptance ⟹ the emitted segments are chained exactly with
    strictly increasing parameter ranges from 0 to 1, every emitted vertex is within `eps` of the
    ellipse point `A(advice)` (`arc_advice_on_ellipse`: which satisfies the implicit equation), and
    EVERY ellipse point `A(Q)`, `Q` a unit vector in the cone of the two advice points of a segment (the
    short arc between them), is within `k·tol + eps` of that emitted segment.
-/
import LyonVerif.Lemmas.FlattenCertExactHull
import LyonVerif.Lemmas.FlattenCertExactArc
import LyonVerif.Model.RatScalar

set_option linter.unusedSectionVars false
set_option linter.unusedVariables false

namespace Lyon.C09
open Lyon Scalar Lyon.Flat Lyon.FlatChk Lyon.ArcChk

attribute [-instance] Lyon.instScalarRat

variable {K : Type} [Field K] [LinearOrder K] [IsStrictOrderedRing K]

theorem pts_near_mono (pts : List (P K)) (r2 r3 : K) (h : r2 ≤ r3) (sg : FlatSeg K)
    (hp : ptsNear pts r2 sg = true) : ptsNear pts r3 sg = true := by
  simp only [ptsNear, List.all_eq_true, decide_eq_true_eq] at hp ⊢
  exact fun p hpm => le_trans (hp p hpm) h

theorem chord_hull_mono (ctrl : K → K → List (P K)) (r2 r3 : K) (h : r2 ≤ r3) (ms : List Nat)
    (cands : List (FlatSeg K)) (sg : FlatSeg K) (hp : chordHullOK ctrl r2 ms cands sg = true) :
    chordHullOK ctrl r3 ms cands sg = true := by
  simp only [chordHullOK, rangeCovered, List.any_eq_true, List.all_eq_true, Bool.and_eq_true,
    decide_eq_true_eq, List.mem_range] at hp ⊢
  obtain ⟨m, hm, hpos, hcov⟩ := hp
  refine ⟨m, hm, hpos, ?_⟩
  intro j hj
  obtain ⟨c, hc, hn⟩ := hcov j hj
  exact ⟨c, hc, pts_near_mono _ r2 r3 h c hn⟩

theorem hull_all_mono (ctrl : K → K → List (P K)) (r2 r3 : K) (h : r2 ≤ r3) (ms : List Nat) (w : Nat)
    (all l : List (FlatSeg K)) (i : Nat) (hp : hullAll ctrl r2 ms w all l i = true) :
    hullAll ctrl r3 ms w all l i = true := by
  induction l generalizing i with
  | nil => rfl
  | cons sg r ih =>
    simp only [hullAll, Bool.and_eq_true] at hp ⊢
    exact ⟨chord_hull_mono ctrl r2 r3 h ms _ sg hp.1, ih (i + 1) hp.2⟩

/-- **chk_hull_mono**: acceptance with `r2` implies acceptance with every larger `r3`. -/
theorem chk_hull_mono (sample : K → P K) (ctrl : K → K → List (P K)) (p0 p1 : P K) (r2 r3 : K) (h : r2 ≤ r3)
    (ms : List Nat) (w : Nat) (l : List (FlatSeg K)) (hp : chkHull sample ctrl p0 p1 r2 ms w l = true) :
    chkHull sample ctrl p0 p1 r3 ms w l = true := by
  simp only [chkHull, Bool.and_eq_true] at hp ⊢
  refine ⟨⟨hp.1.1, ?_⟩, hull_all_mono ctrl r2 r3 h ms w l l 0 hp.2⟩
  have hv := hp.1.2
  simp only [vtxNear, List.all_eq_true, decide_eq_true_eq] at hv ⊢
  exact fun sg hsg => le_trans (hv sg hsg) h

theorem chk_hull_quad_mono (q : Quad K) (r2 r3 : K) (h : r2 ≤ r3) (ms : List Nat) (w : Nat) (l : List (FlatSeg K))
    (hp : chkHullQuad q r2 ms w l = true) : chkHullQuad q r3 ms w l = true :=
  chk_hull_mono _ _ _ _ r2 r3 h ms w l hp

theorem chk_hull_cubic_mono (c : Cubic K) (r2 r3 : K) (h : r2 ≤ r3) (ms : List Nat) (w : Nat) (l : List (FlatSeg K))
    (hp : chkHullCubic c r2 ms w l = true) : chkHullCubic c r3 ms w l = true :=
  chk_hull_mono _ _ _ _ r2 r3 h ms w l hp

/-- **bucket_search_minimal**: the driver's search `(List.range n).find? (fun b => accept (r b))` over
squared radii `r` increasing in the index: the index found is accepted, no smaller index is, and — by
monotonicity of the checker — every larger index is accepted too. -/
theorem bucket_search_minimal (accept : K → Bool) (hmono : ∀ a b : K, a ≤ b → accept a = true → accept b = true)
    (r : Nat → K) (hr : ∀ i j : Nat, i ≤ j → r i ≤ r j) (n b : Nat)
    (h : (List.range n).find? (fun i => accept (r i)) = some b) :
    accept (r b) = true ∧ (∀ j : Nat, j < b → accept (r j) = false) ∧ (∀ j : Nat, b ≤ j → accept (r j) = true) := by
  have h1 := List.find?_some h
  refine ⟨h1, ?_, fun j hj => hmono _ _ (hr b j hj) h1⟩
  intro j hj
  rw [List.find?_eq_some_iff_append] at h
  obtain ⟨_, as, bs, hab, hall⟩ := h
  have hlen : as.length = b := by
    have := congrArg (fun l => l.idxOf b) hab
    have hb : b ∈ List.range n := by rw [hab]; simp
    have hnd : (List.range n).Nodup := List.nodup_range
    -- position of b in range n is b
    have e1 : (List.range n)[as.length]? = some b := by rw [hab]; simp
    rw [List.getElem?_range] at e1
    · exact Option.some.inj e1
    · have : as.length < (List.range n).length := by rw [hab]; simp
      simpa using this
  have hj' : j ∈ as := by
    have e2 : (List.range n)[j]? = some j := by
      rw [List.getElem?_range]
      have : b < n := by
        have : b ∈ List.range n := by rw [hab]; simp
        simpa using this
      omega
    rw [hab] at e2
    rw [List.getElem?_append_left (by omega)] at e2
    exact List.mem_of_getElem? e2
  simpa using hall j hj'

/-- non-vacuity of `bucket_search_minimal` / `chk_hull_mono`: a threshold test is monotone -/
example : (∀ a b : ℚ, a ≤ b → decide ((3 : ℚ) ≤ a) = true → decide ((3 : ℚ) ≤ b) = true)
    ∧ (List.range 6).find? (fun (i : Nat) => decide ((3 : ℚ) ≤ ((i : ℚ) + 1))) = some 2 := by
  refine ⟨fun a b h ha => by simp only [decide_eq_true_eq] at ha ⊢; linarith, ?_⟩
  simp only [List.range, List.range.loop, List.find?]
  norm_num

/-! ## Arcs -/

/-- **chk_arc_sound**: if `chkArc f R kt eps p0 pe l` accepts (`kt = k·tol`) then the segments are
chained exactly from `(p0, 0)` to `(pe, 1)` with strictly increasing ranges, every emitted end point is
within `eps` of the image of its advice point (a point of the ellipse), and for every segment EVERY
point `A(Q)` of the ellipse with `Q` a unit vector in the cone spanned by the segment's advice points
(`ν·Q = λ·pa + μ·pb`, `λ, μ ≥ 0`, `ν > 0`: the short arc between them) is within `kt + eps` of the
emitted segment. -/
theorem chk_arc_sound (f : Frame K) (R kt eps : K) (p0 pe : P K) (l : List (ArcSeg K))
    (h : chkArc f R kt eps p0 pe l = true) :
    (l ≠ [] ∧ Chain p0 0 (l.map (·.sg)) ∧ lastPt p0 (l.map (·.sg)) = pe ∧ lastT 0 (l.map (·.sg)) = 1
      ∧ ∀ x ∈ l, 0 ≤ x.sg.t0 ∧ x.sg.t0 < x.sg.t1 ∧ x.sg.t1 ≤ 1)
    ∧ (∀ x ∈ l, x.pa.sqLen = 1 ∧ x.pb.sqLen = 1 ∧ (x.sg.a - f.map x.pa).sqLen ≤ eps * eps
        ∧ (x.sg.b - f.map x.pb).sqLen ≤ eps * eps)
    ∧ ∀ x ∈ l, ∀ (Q : P K) (lam mu nu : K), Q.sqLen = 1 → 0 ≤ lam → 0 ≤ mu → 0 < nu →
        nu * Q.x = lam * x.pa.x + mu * x.pb.x → nu * Q.y = lam * x.pa.y + mu * x.pb.y →
        ∃ s : K, 0 ≤ s ∧ s ≤ 1 ∧ (f.map Q - x.sg.a.lerp x.sg.b s).sqLen ≤ (kt + eps) * (kt + eps) := by
  simp only [chkArc, Bool.and_eq_true, decide_eq_true_eq, sc_zero, sc_one, sc_beq, List.all_eq_true] at h
  obtain ⟨⟨⟨⟨⟨⟨⟨⟨he, hkt⟩, hR⟩, hrx⟩, hry⟩, hcs⟩, hch⟩, _⟩, hall⟩ := h
  obtain ⟨hne, hchain, hlp, hlt, hinc⟩ := chainOK_spec p0 0 pe 1 _ hch
  obtain ⟨_, hrange⟩ := chain_params_range p0 0 _ hchain hinc
  have hseg : ∀ x ∈ l, x.pa.sqLen = 1 ∧ x.pb.sqLen = 1 ∧ (x.sg.a - f.map x.pa).sqLen ≤ eps * eps
      ∧ (x.sg.b - f.map x.pb).sqLen ≤ eps * eps
      ∧ (x.pb - x.pa).sqLen ≤ 4 * tau R kt * (2 - tau R kt) := by
    intro x hx
    have := hall x hx
    simp only [segOK, Bool.and_eq_true, decide_eq_true_eq, sc_beq, sc_one, sc_four, sc_two] at this
    exact ⟨this.1.1.1.1, this.1.1.1.2, this.1.1.2, this.1.2, this.2⟩
  refine ⟨⟨?_, hchain, hlp, hlt, ?_⟩, ?_, ?_⟩
  · intro hnil; apply hne; rw [hnil]; rfl
  · intro x hx
    have hm : x.sg ∈ l.map (·.sg) := List.mem_map.mpr ⟨x, hx, rfl⟩
    obtain ⟨r1, r2⟩ := hrange _ hm
    rw [hlt] at r2
    exact ⟨r1, hinc _ hm, r2⟩
  · intro x hx
    obtain ⟨a, b, c, d, _⟩ := hseg x hx
    exact ⟨a, b, c, d⟩
  · intro x hx Q lam mu nu hq hl hm hn hxx hyy
    obtain ⟨ha1, hb1, hva, hvb, hL⟩ := hseg x hx
    -- τ = min(kt/R, 1): 0 ≤ τ ≤ 1 and R·τ ≤ kt
    have hτ : 0 ≤ tau R kt ∧ tau R kt ≤ 1 ∧ R * tau R kt ≤ kt := by
      simp only [tau, sc_one]
      split_ifs with hle
      · refine ⟨div_nonneg hkt (le_of_lt hR), by rw [div_le_one hR]; exact hle, ?_⟩
        rw [mul_div_cancel₀ _ (ne_of_gt hR)]
      · exact ⟨zero_le_one, le_refl _, by rw [mul_one]; exact le_of_lt (not_le.mp hle)⟩
    obtain ⟨s, hs0, hs1, hd⟩ := unit_cone_sagitta x.pa x.pb Q lam mu nu (tau R kt) ha1 hb1 hq hl hm hn hxx hyy
      hτ.1 hτ.2.1 hL
    refine ⟨s, hs0, hs1, ?_⟩
    have hc := frame_map_contract f R hcs hrx hry Q (x.pa.lerp x.pb s)
    rw [frame_map_lerp] at hc
    have h1 : (f.map Q - (f.map x.pa).lerp (f.map x.pb) s).sqLen ≤ kt * kt := by
      refine le_trans hc ?_
      have hRτ0 : 0 ≤ R * tau R kt := mul_nonneg (le_of_lt hR) hτ.1
      calc R * R * (Q - x.pa.lerp x.pb s).sqLen ≤ R * R * (tau R kt * tau R kt) :=
            mul_le_mul_of_nonneg_left hd (mul_self_nonneg R)
        _ = (R * tau R kt) * (R * tau R kt) := by ring
        _ ≤ kt * kt := mul_self_le_mul_self hRτ0 hτ.2.2
    have h2 := lerp_shift (f.map x.pa) (f.map x.pb) x.sg.a x.sg.b (eps * eps) s hs0 hs1 hva hvb
    have e : f.map Q - x.sg.a.lerp x.sg.b s
        = (f.map Q - (f.map x.pa).lerp (f.map x.pb) s) + ((f.map x.pa).lerp (f.map x.pb) s - x.sg.a.lerp x.sg.b s) := by
      apply P.ext' <;> simp only [P.add_def, P.sub_def] <;> ring
    rw [e]
    exact sq_triangle _ _ kt eps hkt he h1 h2

/-- the advice points supplied as half-angle tangents are on the unit circle, and their images satisfy
the implicit equation of the ellipse in the arc's frame -/
theorem arc_advice_on_ellipse (f : Frame K) (hc : f.c * f.c + f.s * f.s = 1) (hrx : f.rx ≠ 0) (hry : f.ry ≠ 0)
    (u : K) (flip : Bool) :
    (unitPt u flip).sqLen = 1
    ∧ ((f.c * ((f.map (unitPt u flip)).x - f.center.x) + f.s * ((f.map (unitPt u flip)).y - f.center.y)) / f.rx) ^ 2
      + ((-f.s * ((f.map (unitPt u flip)).x - f.center.x) + f.c * ((f.map (unitPt u flip)).y - f.center.y)) / f.ry) ^ 2 = 1 :=
  ⟨unit_pt_on_circle u flip, frame_map_on_ellipse f hc hrx hry _ (unit_pt_on_circle u flip)⟩

/-- the sagitta test is the exact one for a circle: for unit vectors `P0, P1` and `0 ≤ τ ≤ 1` the
middle of the chord is at distance `√(1 − L²/4)` from the centre, and `L² ≤ 4τ(2−τ)` says exactly that
this is at least `1 − τ` -/
theorem sagitta_test_exact (L2 τ : K) (ht0 : 0 ≤ τ) (ht1 : τ ≤ 1) :
    L2 ≤ 4 * τ * (2 - τ) ↔ (1 - τ) * (1 - τ) ≤ 1 - L2 / 4 := by
  constructor <;> intro h <;> nlinarith

theorem ratScalar_eq_fieldScalar_c09d : (instScalarRat : Scalar ℚ) = fieldScalar := by
  unfold instScalarRat fieldScalar
  congr
  funext a
  split_ifs with h
  · exact (abs_of_neg h).symm
  · exact (abs_of_nonneg (not_lt.mp h)).symm

/-- `chk_arc_sound` for the executable checker on rationals -/
theorem chk_arc_sound_rat (f : Frame ℚ) (R kt eps : ℚ) (p0 pe : P ℚ) (l : List (ArcSeg ℚ))
    (h : @chkArc ℚ instScalarRat f R kt eps p0 pe l = true) :
    ∀ x ∈ l, ∀ (Q : P ℚ) (lam mu nu : ℚ), Q.sqLen = 1 → 0 ≤ lam → 0 ≤ mu → 0 < nu →
        nu * Q.x = lam * x.pa.x + mu * x.pb.x → nu * Q.y = lam * x.pa.y + mu * x.pb.y →
        ∃ s : ℚ, 0 ≤ s ∧ s ≤ 1 ∧ (f.map Q - x.sg.a.lerp x.sg.b s).sqLen ≤ (kt + eps) * (kt + eps) := by
  rw [ratScalar_eq_fieldScalar_c09d] at h
  exact (chk_arc_sound f R kt eps p0 pe l h).2.2

/-- non-vacuity: the quarter of the unit circle from `(1,0)` to `(0,1)` emitted as the two chords
through `(3/5,4/5)`… here as ONE chord `(1,0) → (3/5,4/5)` of the circle of radius 5 around the origin
(`L² = 4/5`), `kt = 1` (`τ = 1/5`, `4τ(2−τ) = 36/25`), `eps = 0`: accepted; a unit vector in the cone:
`Q = (4/5,3/5)`… with `ν·Q = λ·(1,0) + μ·(3/5,4/5)` for `λ = 7/4·ν·…` is an instance of the hypotheses -/
example : chkArc (⟨⟨0,0⟩, 5, 5, 1, 0⟩ : Frame ℚ) 5 1 0 ⟨5,0⟩ ⟨3,4⟩
    [⟨⟨⟨5,0⟩,⟨3,4⟩,0,1⟩, ⟨1,0⟩, ⟨3/5,4/5⟩⟩] = true := by
  simp only [chkArc, segOK, adviceChain, tau, Frame.map, chainOK, List.map_cons, List.map_nil, List.all_cons,
    List.all_nil, p_beq, sc_beq, geom, Bool.and_eq_true, decide_eq_true_eq]
  norm_num

example : ((⟨4/5,3/5⟩ : P ℚ).sqLen = 1) ∧ (0:ℚ) ≤ 7/4 ∧ (0:ℚ) ≤ 15/4 ∧ (0:ℚ) < 5
    ∧ (5:ℚ) * (4/5) = 7/4 * 1 + 15/4 * (3/5) ∧ (5:ℚ) * (3/5) = 7/4 * 0 + 15/4 * (4/5) := by
  simp only [P.sqLen]; norm_num

end Lyon.C09
