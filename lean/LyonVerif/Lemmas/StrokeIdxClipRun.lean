/-
  Index validity for the complete stroker model, part 7: the window invariant with a LINK between
  the second-newest endpoint's side points and the newest endpoint's position (fixed width).

  `Reg` of `Lemmas/StrokeIdxInv.lean` asks for "`flattened_step` never answers skip" for EVERY triple
  `prev, join, next` whose `prev` satisfies a relation `G position pos.next neg.next`.  With
  `LineJoin::MiterClip` no such relation exists: the clipped front side point of `prev` lies behind
  `prev` ALONG THE EDGE TOWARDS THE POINT THAT FOLLOWED IT, so the argument needs to know that `join`
  is that point.  The invariant is therefore extended by

      `Link S buf`:  for the last two entries `x, y` of the window, `S x.position x.pos.next x.neg.next y.position`

  with a strong relation `S` (established whenever a point is pushed) and a weak relation `W`
  (what `flattened_step` needs; `S → W`, and `S` survives as `W` when `close` moves the last point
  onto the first one after a merged step: `LinkLaw.fix`).  `LinkReg` collects the arithmetic facts
  (discharged over ordered fields in `Lemmas/StrokeIdxClipGeo.lean`); everything in this file is
  discrete and holds for every scalar type.

  The chain `fwJoin → fwStep → close → end → event loop` of `StrokeIdxStep/Run.lean` is repeated for
  the extended invariant (fixed width only: with a variable width `Reg` is already proved for every
  join).  The existing invariant `Inv` is reused with the trivial relation `TrivG`.
-/
import LyonVerif.Lemmas.StrokeIdxCls

set_option linter.unusedSectionVars false
set_option linter.unusedVariables false

namespace Lyon.C05c
open Lyon Scalar Lyon.Stroke Lyon.Stroke.Full Lyon.C05 Lyon.C05b

section
variable {α : Type} [Scalar α] [Transc α]

/-- the trivial side-point relation (the existing invariant `Inv` is used with it) -/
def TrivG : P α → P α → P α → Prop := fun _ _ _ => True

/-- a link relation applied to an endpoint `x` and the position `q` of the point after it -/
def LK (S : P α → P α → P α → P α → Prop) (x : EP α) (q : P α) : Prop :=
  S x.position x.pos.next x.neg.next q

/-- the last two entries of the window are linked -/
def Link (S : P α → P α → P α → P α → Prop) (buf : PointBuffer (EP α)) : Prop :=
  ∀ x y, buf.lastTwo = some (x, y) → LK S x y.position

/-- strong and weak link: `S → W`; `S` for `q` gives `W` for every `q'` within merge distance of `q` -/
structure LinkLaw (thr : α) (S W : P α → P α → P α → P α → Prop) : Prop where
  weaken : ∀ p a b q, S p a b q → W p a b q
  fix : ∀ p a b q q', S p a b q → pointsAreTooClose thr q q' = true → W p a b q'

/-- the arithmetic facts the fixed-width id logic needs, with the link: every function that writes
`pos.next` / `neg.next` of the point that becomes second-newest establishes `S` towards the pushed
point; under `W`, `flattened_step` does not answer "skip" -/
structure LinkReg (e : Env α) (c : Cls α) (S W : P α → P α → P α → P α → Prop) : Prop where
  law : LinkLaw e.thr S W
  first : ∀ first next : EP α, pointsAreTooClose e.thr first.position next.position = false →
    LK S (firstEdgeSetup first next).1 next.position
  joinFw : ∀ prev join next : EP α, c.F join →
    pointsAreTooClose e.thr join.position next.position = false →
    LK S (joinSidesFw e.ix prev join next e.o.miterLimit join.halfWidth) next.position
  flat : ∀ (prev join next : EP α) (d : VData α) (o : Out α),
    pointsAreTooClose e.thr join.position next.position = false →
    LK S (flattenedStep prev join next d o).join next.position
  noskip : ∀ (prev join next : EP α) (d : VData α) (o : Out α), LK W prev join.position →
    fastPath prev join next = true → (flattenedStep prev join next d o).skip = false

variable {c : Cls α} {S W : P α → P α → P α → P α → Prop}

theorem Link.weaken {thr : α} (law : LinkLaw thr S W) {buf : PointBuffer (EP α)} (h : Link S buf) : Link W buf :=
  fun x y hxy => law.weaken _ _ _ _ (h x y hxy)

theorem Link.of_count {buf : PointBuffer (EP α)} (h : buf.count < 2) : Link S buf := by
  intro x y hxy
  rw [lastTwo_none h] at hxy; cases hxy

/-- a step function keeps the invariant and the link: it needs the weak link and re-establishes the
strong one whenever it pushes a point -/
def StepSpecL (thr : α) (c : Cls α) (S W : P α → P α → P α → P α → Prop) (step : StepFn α) : Prop :=
  ∀ (st : St α) (next : EP α), Inv thr c TrivG st → Link W st.buf → c.F next →
    (Raw next.ids ∨ (3 ≤ st.buf.count ∧ Good st.out.nextId next.ids)) →
    StepRes thr c TrivG st next (step st next) ∧ ((step st next).2 = true → Link S (step st next).1.buf)

/-- with the strong link before the step, the strong link holds after it (pushed or merged) -/
theorem StepSpecL.run {thr : α} {step : StepFn α} (hstep : StepSpecL thr c S W step) (law : LinkLaw thr S W)
    {st : St α} {next : EP α} (hI : Inv thr c TrivG st) (hL : Link S st.buf) (hF : c.F next)
    (hn : Raw next.ids ∨ (3 ≤ st.buf.count ∧ Good st.out.nextId next.ids)) :
    StepRes thr c TrivG st next (step st next) ∧ Link S (step st next).1.buf := by
  obtain ⟨r, l⟩ := hstep st next hI (hL.weaken law) hF hn
  refine ⟨r, ?_⟩
  cases hr : (step st next).2
  · rw [(r.merged hr).1]; exact hL
  · exact l hr

/-! ## the join part of the fixed-width step, with a LOCAL no-skip premise -/

theorem fwJoin_specL {e : Env α} {st : St α} {prev join : EP α} (next : EP α)
    (hI : Inv e.thr c TrivG st) (hxy : st.buf.lastTwo = some (prev, join))
    (hns : fastPath prev join next = true →
      (flattenedStep prev { join with lineJoin := .miter } next
        (baseVertex join.src join.position join.halfWidth nan) st.out).skip = false) :
    ∃ j' n' o', fwJoin e st prev join next = (commitSt st prev j' o', n')
      ∧ Upd join j' ∧ Good o'.nextId j'.ids ∧ VSteps c.C st.out o'
      ∧ Upd next n' ∧ n'.ids = next.ids
      ∧ ((fastPath prev join next = true ∧ j' = (flattenedStep prev { join with lineJoin := .miter } next
              (baseVertex join.src join.position join.halfWidth nan) st.out).join)
        ∨ (j'.pos.next = (joinSidesFw e.ix prev join next e.o.miterLimit join.halfWidth).pos.next
            ∧ j'.neg.next = (joinSidesFw e.ix prev join next e.o.miterLimit join.halfWidth).neg.next)) := by
  have hFj : c.F join := hI.cls1 _ (hI.wf.lastTwo_last _ _ hxy)
  have hprev : st.buf.count > 2 → Good st.out.nextId prev.ids := fun h => (hI.three (by omega) _ _ hxy).1
  by_cases hfp : fastPath prev join next = true
  · have hns' := hns hfp
    obtain ⟨uj, un, idn, np, nn, _, hgood⟩ := flattenedStep_spec (C := c.C) prev { join with lineJoin := .miter } next
      (baseVertex join.src join.position join.halfWidth nan) st.out hFj.1
    obtain ⟨s1, g1⟩ := hgood hns'
    refine ⟨_, _, _, by unfold fwJoin; simp only []; rw [if_pos hfp]; rfl, ?_, ?_, ?_, un, idn, Or.inl ⟨hfp, rfl⟩⟩
    · exact Upd.trans (⟨rfl, rfl, rfl, rfl, Or.inr rfl⟩ : Upd join { join with lineJoin := .miter }) uj
    · exact g1.mono (VSteps.next_le (edgeAndJoin_vsteps (C := c.C) _ _ _ _ _ _ hFj.1
        (fun h => ((hprev h).mono s1.next_le).out0) g1
        (by rw [np, nn, joinInterior_none]; simp) (by rw [np]; simp) (by rw [nn]; simp)))
    · exact s1.trans (edgeAndJoin_vsteps (C := c.C) _ _ _ _ _ _ hFj.1
        (fun h => ((hprev h).mono s1.next_le).out0) g1
        (by rw [np, nn, joinInterior_none]; simp) (by rw [np]; simp) (by rw [nn]; simp))
  · have u1 := joinSidesFw_upd e.ix prev join next e.o.miterLimit join.halfWidth
    have hnx : ∃ a b : P α, a = (joinSidesFw e.ix prev join next e.o.miterLimit join.halfWidth).pos.next
        ∧ b = (joinSidesFw e.ix prev join next e.o.miterLimit join.halfWidth).neg.next := ⟨_, _, rfl, rfl⟩
    obtain ⟨a, b, ha, hb⟩ := hnx
    generalize hj1 : joinSidesFw e.ix prev join next e.o.miterLimit join.halfWidth = j1 at u1 ha hb
    have hdd : ∃ dd : VData α, dd = { baseVertex join.src join.position join.halfWidth nan with
        advancement := j1.advancement } ∧ c.C dd.src dd.halfWidth := ⟨_, rfl, hFj.1⟩
    obtain ⟨dd, edd, hC⟩ := hdd
    obtain ⟨s1, gd, u2, e1, e2, hint, hp, hn⟩ := baseVertices_spec (C := c.C) j1 dd st.out hC
    refine ⟨(baseVertices j1 dd st.out).1, next,
      edgeAndJoin e.o.tolerance st.buf.count prev (baseVertices j1 dd st.out).1 dd (baseVertices j1 dd st.out).2,
      ?_, u1.trans u2, ?_, ?_, Upd.refl _, rfl, Or.inr ⟨e1, e2⟩⟩
    · unfold fwJoin; simp only []; rw [if_neg hfp]
      show _ = _
      simp only [show (baseVertex join.src join.position join.halfWidth nan : VData α).halfWidth = join.halfWidth from rfl, hj1]
      rw [edd]; rfl
    · exact gd.mono (VSteps.next_le (edgeAndJoin_vsteps (C := c.C) _ _ _ _ _ _ hC
        (fun h => ((hprev h).mono s1.next_le).out0) gd hint hp hn))
    · exact s1.trans (edgeAndJoin_vsteps (C := c.C) _ _ _ _ _ _ hC
        (fun h => ((hprev h).mono s1.next_le).out0) gd hint hp hn)

/-! ## buffers after a push: the last two entries -/

theorem setLast_push_lastTwo {st : St α} (hwf : WF st.buf) (hc : 0 < st.buf.count) (a b : EP α) :
    ((st.setLast a).push b).buf.lastTwo = some (a, b) := by
  obtain ⟨b1, hb1, hwf1, _, hl1, _⟩ := hwf.replaceLast hc a
  obtain ⟨b2, hb2, _, _, _, hlt2⟩ := hwf1.push b
  have : ((st.setLast a).push b).buf = b2 := by simp [St.push, St.setLast, hb1, hb2]
  rw [this]
  exact hlt2 a hl1

theorem commit_push_lastTwo {st : St α} (hwf : WF st.buf) (hc : 0 < st.buf.count) (prev a b : EP α) (o' : Out α) :
    ((commitSt st prev a o').push b).buf.lastTwo = some (a, b) := by
  obtain ⟨b1, hb1, hwf1, _, hl1, _⟩ := hwf.replaceLast hc a
  obtain ⟨b2, hb2, _, _, _, hlt2⟩ := hwf1.push b
  have : ((commitSt st prev a o').push b).buf = b2 := by simp [commitSt, St.push, St.setLast, hb1, hb2]
  rw [this]
  exact hlt2 a hl1

theorem push_count_one {st : St α} (hwf : WF st.buf) (h0 : st.buf.count = 0) (b : EP α) :
    (st.push b).buf.count = 1 := by
  obtain ⟨b2, hb2, _, hc2, _, _⟩ := hwf.push b
  have : (st.push b).buf = b2 := by simp [St.push, hb2]
  rw [this, hc2, h0]; rfl

/-! ## `fixed_width_step_impl` -/

theorem fwStep_specL {e : Env α} (hreg : LinkReg e c S W) :
    StepSpecL e.thr c S W (fwStep e) := by
  intro st next hI hL hF hn
  by_cases hclose : st.tooClose e.thr next.position = true
  · have : fwStep e st next = ({ st with mayNeedEmptyCap := st.mayNeedEmptyCap || st.buf.count == 1 }, false) := by
      unfold fwStep; rw [if_pos hclose]
    rw [this]; exact ⟨step_merged next _ hI hclose, fun h => by simp at h⟩
  have hclose' : st.tooClose e.thr next.position = false := by simpa using hclose
  by_cases hc2 : 2 ≤ st.buf.count
  · obtain ⟨prev, join, hxy⟩ := hI.wf.lastTwo_some hc2
    have hlast := hI.wf.lastTwo_last _ _ hxy
    have hapart : pointsAreTooClose e.thr join.position next.position = false := by
      rw [← tooClose_eq hlast]; exact hclose'
    rw [fwStep_eq_join hclose' hxy]
    have hns : fastPath prev join next = true →
        (flattenedStep prev { join with lineJoin := .miter } next
          (baseVertex join.src join.position join.halfWidth nan) st.out).skip = false :=
      fun hfp => hreg.noskip prev { join with lineJoin := .miter } next _ _
        (show LK W prev join.position from hL _ _ hxy) hfp
    obtain ⟨j', n', o', ej, uj, hg, hs, un, idn, hcase⟩ := fwJoin_specL (c := c) next hI hxy hns
    rw [ej]
    obtain ⟨a1, a2, a3, a4, a5⟩ := step_commit hI hF hn hxy uj (trivial : GE TrivG j') hg hs un idn
    refine ⟨⟨a1, by rw [a2]; exact hs, fun h => by simp at h,
      fun _ => ⟨hclose', ⟨n', a3, un, idn⟩, fun h3 => ⟨a4, a5 h3⟩⟩⟩, fun _ => ?_⟩
    intro x y hl2
    have hl2' := commit_push_lastTwo hI.wf (by omega) prev j' n' o'
    rw [hl2'] at hl2
    simp only [Option.some.injEq, Prod.mk.injEq] at hl2
    obtain ⟨rfl, rfl⟩ := hl2
    show S j'.position j'.pos.next j'.neg.next n'.position
    rw [un.pos]
    rcases hcase with ⟨hfp, rfl⟩ | ⟨e1, e2⟩
    · exact hreg.flat prev { join with lineJoin := .miter } next _ _ hapart
    · have := hreg.joinFw prev join next (hI.cls1 _ hlast) hapart
      unfold LK at this
      rw [(joinSidesFw_upd e.ix prev join next e.o.miterLimit join.halfWidth).pos] at this
      rw [uj.pos, e1, e2]; exact this
  · have hlt : st.buf.lastTwo = none := lastTwo_none (by omega)
    by_cases hc1 : st.buf.count = 1
    · obtain ⟨first, hl⟩ := hI.wf.last_some (by omega)
      rw [fwStep_eq_first hclose' hlt hl]
      obtain ⟨u1, id1, u2, id2⟩ := firstEdgeSetup_spec first next
      refine ⟨step_second hI hF hn hclose' hc1 hl u1 id1 (trivial : GE TrivG _) u2 id2, fun _ => ?_⟩
      intro x y hl2
      rw [setLast_push_lastTwo hI.wf (by omega)] at hl2
      simp only [Option.some.injEq, Prod.mk.injEq] at hl2
      obtain ⟨rfl, rfl⟩ := hl2
      have hapart : pointsAreTooClose e.thr first.position next.position = false := by
        rw [← tooClose_eq hl]; exact hclose'
      have := hreg.first first next hapart
      rw [← u2.pos] at this
      exact this
    · rw [fwStep_eq_zero hclose' hlt (last_none (by omega))]
      exact ⟨step_zero hI hF hn hclose' (by omega),
        fun _ => Link.of_count (by rw [push_count_one hI.wf (by omega)]; omega)⟩

/-! ## `close`, `end` -/

/-- `close` (window full): two steps and the closing edge; only valid output -/
theorem close_specL {thr : α} {step : StepFn α} (hstep : StepSpecL thr c S W step) (law : LinkLaw thr S W)
    {st : St α} (hI : Inv thr c TrivG st) (hL : Link S st.buf) (h3 : 3 ≤ st.buf.count) :
    VSteps c.C st.out (close step st).out ∧ WF (close step st).buf := by
  obtain ⟨f0, f1, hf, r0, g1, hfar⟩ := hI.firsts h3
  have hle := hI.wf.count_le
  have hF0 : c.F f0 := hI.clsF f0 (by simp [hf])
  rw [close_eq step hf]
  -- first step
  have up : Upd f0 { f0 with advancement := nan } := ⟨rfl, rfl, rfl, rfl, Or.inl rfl⟩
  obtain ⟨r1, l1⟩ := hstep.run law (next := { f0 with advancement := nan }) hI hL (Cls.F_upd hF0 up) (Or.inl r0)
  have key : ∃ st2 : St α, st2 = closeFix (step st { f0 with advancement := nan }).1
        (step st { f0 with advancement := nan }).2 f0.position
      ∧ Inv thr c TrivG st2 ∧ Link W st2.buf ∧ VSteps c.C st.out st2.out ∧ st2.firsts = [f0, f1] ∧ st2.buf.count = 3
      ∧ ∃ l, st2.buf.last = some l ∧ l.position = f0.position := by
    refine ⟨_, rfl, ?_⟩
    cases hr : (step st { f0 with advancement := nan }).2
    · obtain ⟨e1, e2, e3, hcl⟩ := r1.merged hr
      have hI1 := r1.inv
      generalize (step st { f0 with advancement := nan }).1 = st1 at e1 e2 e3 hI1 l1
      obtain ⟨l, hl⟩ := hI1.wf.last_some (by rw [e1]; omega)
      have hFl : c.F ({ l with position := f0.position } : EP α) := by
        have := hI1.cls1 l hl; exact this
      obtain ⟨b', hb, hI2, hc2, hl2, hlt2⟩ := InvC.setLast hI1 hl hFl rfl (fun h => by rw [e1] at h; omega)
      have e : closeFix st1 false f0.position = { st1 with buf := b' } := by
        simp [closeFix, hl, St.setLast, hb]
      rw [e]
      refine ⟨hI2, ?_, by rw [show ({ st1 with buf := b' } : St α).out = st.out from e3]; exact VSteps.refl _,
        by rw [show ({ st1 with buf := b' } : St α).firsts = st.firsts from e2]; exact hf,
        by show b'.count = 3; rw [hc2, e1]; omega, _, hl2, rfl⟩
      -- the weak link survives the position fix-up
      intro x y hxy
      obtain ⟨x0, z0, h0⟩ := hI1.wf.lastTwo_some (by rw [e1]; omega)
      have hz0 : z0 = l := by
        have := hI1.wf.lastTwo_last _ _ h0
        rw [hl] at this; simp only [Option.some.injEq] at this; exact this.symm
      subst hz0
      obtain ⟨rfl, rfl⟩ := lastTwo_inj (hlt2 x0 z0 h0) hxy
      have hcl' : pointsAreTooClose thr z0.position f0.position = true := by
        have hl' : st.buf.last = some z0 := by rw [← e1]; exact hl
        rw [← tooClose_eq hl']; exact hcl
      exact law.fix _ _ _ _ _ (l1 _ _ h0) hcl'
    · obtain ⟨_, ⟨n', hl, un, _⟩, hcnt⟩ := r1.added hr
      obtain ⟨hc, hfs⟩ := hcnt h3
      have e : closeFix (step st { f0 with advancement := nan }).1 true f0.position
          = (step st { f0 with advancement := nan }).1 := by simp [closeFix]
      rw [e]
      exact ⟨r1.inv, l1.weaken law, r1.steps, by rw [hfs]; exact hf, hc, n', hl, un.pos⟩
  obtain ⟨st2, he, hI2, hL2, hs2, hf2, hc2, l, hl, hlp⟩ := key
  rw [← he]
  -- second step: never merged
  obtain ⟨f0', f1', hf2', _, g1', hfar'⟩ := hI2.firsts (by omega)
  rw [hf2] at hf2'
  simp only [List.cons.injEq, and_true] at hf2'
  obtain ⟨rfl, rfl⟩ := hf2'
  have hF1 : c.F f1 := hI2.clsF f1 (by simp [hf2])
  obtain ⟨r3, _⟩ := hstep st2 f1 hI2 hL2 hF1 (Or.inr ⟨by omega, g1'⟩)
  have hnot : st2.tooClose thr f1.position = false := by
    rw [tooClose_eq hl, hlp]; exact hfar'
  have hr3 : (step st2 f1).2 = true := by
    cases hr : (step st2 f1).2
    · have := (r3.merged hr).2.2.2
      rw [hnot] at this; cases this
    · rfl
  obtain ⟨_, ⟨n3, hl3, _, id3⟩, hcnt3⟩ := r3.added hr3
  obtain ⟨hc3, _⟩ := hcnt3 (by omega)
  have hI3 := r3.inv
  have hs3 := r3.steps
  generalize (step st2 f1).1 = st3 at hI3 hs3 hl3 hc3
  obtain ⟨q0, q1, hq⟩ := hI3.wf.lastTwo_some (by omega)
  have hq1 : q1 = n3 := by
    have := hI3.wf.lastTwo_last _ _ hq
    rw [hl3] at this; simp only [Option.some.injEq] at this; exact this.symm
  subst hq1
  have e : closeTail st3 f0.advancement = { st3 with out := ((closeVertices q0 f0.advancement st3.out).2.addTris
      (addEdgeTriangles (closeVertices q0 f0.advancement st3.out).1.ids q1.ids)) } := by
    simp [closeTail, hq]
  rw [e]
  refine ⟨(hs2.trans hs3).trans ?_, hI3.wf⟩
  exact closeVertices_spec q0 q1 f0.advancement st3.out (hI3.cls2 _ _ hq).1 (hI3.three (by omega) _ _ hq).1
    (by rw [id3]; exact g1'.mono hs3.next_le)

/-- `end(close)`: only valid output; afterwards the window is empty -/
theorem endSub_specL {thr : α} (e : Env α) {step : StepFn α} (hstep : StepSpecL thr c S W step)
    (law : LinkLaw thr S W) {st : St α} (hI : Inv thr c TrivG st) (hL : Link S st.buf) (closed : Bool) :
    VSteps c.C st.out (endSub e step st closed).out ∧ Inv thr c TrivG (endSub e step st closed)
      ∧ Link S (endSub e step st closed).buf := by
  have hI0 : Inv thr c TrivG ({ st with mayNeedEmptyCap := st.mayNeedEmptyCap || (closed && st.buf.count == 1) } : St α) := hI
  have h : VSteps c.C st.out (if closed && st.buf.count > 2
        then close step { st with mayNeedEmptyCap := st.mayNeedEmptyCap || (closed && st.buf.count == 1) }
        else endWithCaps e { st with mayNeedEmptyCap := st.mayNeedEmptyCap || (closed && st.buf.count == 1) }).out
      ∧ WF (if closed && st.buf.count > 2
        then close step { st with mayNeedEmptyCap := st.mayNeedEmptyCap || (closed && st.buf.count == 1) }
        else endWithCaps e { st with mayNeedEmptyCap := st.mayNeedEmptyCap || (closed && st.buf.count == 1) }).buf := by
    split_ifs with hc
    · have h3 : 3 ≤ st.buf.count := by
        simp only [Bool.and_eq_true, decide_eq_true_eq] at hc; exact hc.2
      exact close_specL hstep law hI0 hL h3
    · obtain ⟨s, w⟩ := endWithCaps_spec e hI0
      exact ⟨s, by rw [w]; exact hI.wf⟩
  refine ⟨h.1, InvC.cleared h.2 _, ?_⟩
  intro x y hxy
  have : (endSub e step st closed).buf.count = 0 := rfl
  rw [lastTwo_none (by omega)] at hxy; cases hxy

end

/-! ## the event loop -/

section Events
variable {α : Type} [Scalar α] [Transc α] [Asin α] [FlatConst α] {c : Cls α}
  {S W : P α → P α → P α → P α → Prop}

theorem feedList_specL {thr : α} {step : StepFn α} (hstep : StepSpecL thr c S W step) (law : LinkLaw thr S W) :
    ∀ (l : List (EP α)) (st : St α), Inv thr c TrivG st → Link S st.buf → (∀ q ∈ l, c.F q ∧ Raw q.ids) →
      Inv thr c TrivG (l.foldl (fun s q => (step s q).1) st)
      ∧ Link S (l.foldl (fun s q => (step s q).1) st).buf
      ∧ VSteps c.C st.out (l.foldl (fun s q => (step s q).1) st).out := by
  intro l
  induction l with
  | nil => intro st hI hL _; exact ⟨hI, hL, VSteps.refl _⟩
  | cons q qs ih =>
    intro st hI hL hq
    obtain ⟨hF, hr⟩ := hq q (by simp)
    obtain ⟨r1, l1⟩ := hstep.run law hI hL hF (Or.inl hr)
    obtain ⟨a, b, d⟩ := ih (step st q).1 r1.inv l1 (fun x hx => hq x (by simp [hx]))
    exact ⟨a, b, r1.steps.trans d⟩

/-- the invariant of the event loop, with the link -/
structure RInvL (e : Env α) (c : Cls α) (S : P α → P α → P α → P α → Prop) (K : Nat → Prop) (r : Run α) : Prop where
  base : RInv e c TrivG K r
  link : Link S r.st.buf

theorem envStep_specL {e : Env α} (hreg : LinkReg e c S W) (hfw : e.o.varWidth = false) :
    StepSpecL e.thr c S W e.step := by
  unfold Env.step
  rw [hfw]
  simpa using fwStep_specL hreg

theorem runEvent_specL {e : Env α} (hreg : LinkReg e c S W) (hfw : e.o.varWidth = false)
    (store : Nat → List α) {K : Nat → Prop} {r : Run α}
    (hr : RInvL e c S K r) {ev : IdEv α} (hev : EvOK e store c K ev) :
    RInvL e c S K (runEvent e store r ev) := by
  have hstep := envStep_specL (α := α) hreg hfw
  have law := hreg.law
  cases ev with
  | begin id p =>
    obtain ⟨hF, hk⟩ := hev
    have hI0 : Inv e.thr c TrivG ({ r.st with mayNeedEmptyCap := false } : St α) := hr.base.inv
    obtain ⟨r1, l1⟩ := hstep.run law (st := { r.st with mayNeedEmptyCap := false }) hI0 hr.link
      (hF r.st.subPathStartAdvancement) (Or.inl (mk'_raw _ _ _ _ _ _))
    exact ⟨⟨r1.inv, hr.base.steps.trans r1.steps, hk⟩, l1⟩
  | line id p =>
    obtain ⟨hF, hk⟩ := hev
    obtain ⟨r1, l1⟩ := hstep.run law hr.base.inv hr.link hF (Or.inl (mk'_raw _ _ _ _ _ _))
    exact ⟨⟨r1.inv, hr.base.steps.trans r1.steps, hk⟩, l1⟩
  | quad ctrl id p =>
    obtain ⟨hF, hk⟩ := hev
    show RInvL e c S K (r.feed e (quadPoints ⟨r.curPos, ctrl, p⟩ e.o.tolerance r.curId id
      (e.hwAt store r.curId id) e.o.join) id p)
    cases hq : quadPoints ⟨r.curPos, ctrl, p⟩ e.o.tolerance r.curId id (e.hwAt store r.curId id) e.o.join with
    | none => exact ⟨⟨hr.base.inv, hr.base.steps, hr.base.cur⟩, hr.link⟩
    | some l =>
      obtain ⟨a, b, d⟩ := feedList_specL hstep law l r.st hr.base.inv hr.link
        (fun q hql => ⟨hF r.curId r.curPos l hr.base.cur hq q hql, quadPoints_raw hq q hql⟩)
      exact ⟨⟨a, hr.base.steps.trans d, hk⟩, b⟩
  | cubic c1 c2 id p =>
    obtain ⟨hF, hk⟩ := hev
    show RInvL e c S K (r.feed e (cubicPoints ⟨r.curPos, c1, c2, p⟩ e.o.tolerance r.curId id
      (e.hwAt store r.curId id) e.o.join) id p)
    cases hq : cubicPoints ⟨r.curPos, c1, c2, p⟩ e.o.tolerance r.curId id (e.hwAt store r.curId id) e.o.join with
    | none => exact ⟨⟨hr.base.inv, hr.base.steps, hr.base.cur⟩, hr.link⟩
    | some l =>
      obtain ⟨a, b, d⟩ := feedList_specL hstep law l r.st hr.base.inv hr.link
        (fun q hql => ⟨hF r.curId r.curPos l hr.base.cur hq q hql, cubicPoints_raw hq q hql⟩)
      exact ⟨⟨a, hr.base.steps.trans d, hk⟩, b⟩
  | end_ cl =>
    obtain ⟨a, b, d⟩ := endSub_specL e hstep law hr.base.inv hr.link cl
    exact ⟨⟨b, hr.base.steps.trans a, hr.base.cur⟩, d⟩

/-- the whole run (fixed width) under `LinkReg`: every triangle emitted, at the moment it is emitted,
refers to three distinct vertices that have been emitted before; every vertex is of the class -/
theorem runEvents_specL {e : Env α} (hreg : LinkReg e c S W) (hfw : e.o.varWidth = false)
    (store : Nat → List α) {K : Nat → Prop} (hk : K unset)
    (evs : List (IdEv α)) (hev : ∀ ev ∈ evs, EvOK e store c K ev) :
    RInvL e c S K (runEvents e store evs) := by
  unfold runEvents
  suffices h : ∀ (evs : List (IdEv α)) (r : Run α), RInvL e c S K r → (∀ ev ∈ evs, EvOK e store c K ev) →
      RInvL e c S K (evs.foldl (fun r ev => if r.panicked then r else runEvent e store r ev) r) from
    h evs _ ⟨RInv.new e hk, Link.of_count (by show (0 : Nat) < 2; omega)⟩ hev
  intro evs
  induction evs with
  | nil => intro r hr _; exact hr
  | cons ev evs ih =>
    intro r hr hev
    refine ih _ ?_ (fun x hx => hev x (by simp [hx]))
    show RInvL e c S K (if r.panicked = true then r else runEvent e store r ev)
    split_ifs
    · exact hr
    · exact runEvent_specL hreg hfw store hr (hev ev (by simp))

end Events

end Lyon.C05c
