/-
  C02 growth 3 (`Props/C02f.lean`), part 10: the INNER basic tessellator of the advanced monotone
  tessellator.  It is fed a subsequence of the vertices (the ends of the buffered chains), each
  with a fresh id that is larger than every id it has seen.

  * `fanPos_le` — weak version of `fanPos`: a sorted reflex stack whose vertices lie weakly on
    the stack's side of `bot → cur` has every fan pair weakly positive: lyon's winding test does not
    swap a triangle of non-zero area (`fanLeT_canon`: `FanCanon`).
  * `TInv` — invariant of the inner tessellator relative to the ids `ha`, `hb` of the heads of the
    two buffered chains: the top of the stack is the head of one chain, the bottom entry the head of
    the other; ids decreasing; stack strictly reflex; entries above the bottom are vertices of the
    top's side.
  * `fwd_tinv` — forwarding the end `v` of the chain on side `l`: if the chord `head → v` of that
    chain has every vertex of the other side in between weakly on its own side (`hchord`), no fan
    triangle is swapped (`NoFlip`) and `TInv` holds again with `v` as the new head.
  * `fwd_le`, `flush_le` — the potential of `Lemmas/MonotoneAdvPot.lean` does not GROW when the
    forward does not flip (the converse inequalities of `fwd_pot`, `flush_pot`).
-/
import LyonVerif.Lemmas.MonotoneTileRun
import LyonVerif.Lemmas.MonotoneAdvNonneg

set_option linter.unusedSectionVars false
set_option linter.unusedVariables false
set_option linter.unusedSimpArgs false

namespace Lyon.C02f
open Lyon Lyon.Mono Lyon.C02 Lyon.C02c

section Geometry
variable {K : Type} [Field K] [LinearOrder K] [IsStrictOrderedRing K]

/-! ## the weak fan lemma -/

/-- TOP-FIRST: every fan pair `(y, z)` (older, newer) is weakly positive in the order of side `c` -/
def FanLeT (c : Bool) (cur : P K) : List (P K) → Prop
  | z :: y :: r => 0 ≤ sg c * wind y z cur ∧ FanLeT c cur (y :: r)
  | _ => True

theorem fan_step_le (c : Bool) {x y z cur : P K} (hyx : After y x) (hzy : After z y) (hcy : After cur y)
    (h1 : 0 ≤ sg c * wind x y cur) (h2 : sg c * wind x y z < 0) : 0 ≤ sg c * wind y z cur := by
  have hu := after_hv hyx
  have hv := after_hv hzy
  have he := after_hv hcy
  have e1 : wind x y cur = -((y - x).cross (cur - y)) := by simp only [wind]; geom_ring
  have e2 : wind x y z = -((y - x).cross (z - y)) := by simp only [wind]; geom_ring
  have e3 : wind y z cur = (cur - y).cross (z - y) := by simp only [wind]; geom_ring
  have e3' : wind y z cur = -((z - y).cross (cur - y)) := by simp only [wind]; geom_ring
  cases c
  · simp only [sg, Bool.false_eq_true, if_false] at h1 h2 ⊢
    have hvu : 0 ≤ (z - y).cross (y - x) := by rw [cross_flip]; rw [e2] at h2; linarith
    have hue : 0 ≤ (y - x).cross (cur - y) := by rw [e1] at h1; linarith
    have := cross_trans_le hv hu he hvu hue
    rw [e3']; linarith
  · simp only [sg, if_true, one_mul] at h1 h2 ⊢
    have heu : 0 ≤ (cur - y).cross (y - x) := by rw [cross_flip]; rw [e1] at h1; linarith
    have huv : 0 ≤ (y - x).cross (z - y) := by rw [e2] at h2; linarith
    have := cross_trans_le he hu hv heu huv
    rw [e3]; exact this

theorem fanPos_le (c : Bool) (cur bot : P K) (l : List (P K)) (hlast : l.getLast? = some bot)
    (hside : ∀ y ∈ l, y = bot ∨ 0 ≤ sg c * wind bot y cur)
    (hsort : l.Pairwise (fun a b => After a b)) (hcur : ∀ y ∈ l, After cur y) (hrefl : ReflexT c l) :
    FanLeT c cur l := by
  induction l with
  | nil => trivial
  | cons z r ih =>
    cases r with
    | nil => trivial
    | cons y r' =>
      rw [List.getLast?_cons_cons] at hlast
      have hs' := List.Pairwise.of_cons hsort
      have ih' := ih hlast (fun a ha => hside a (List.mem_cons_of_mem _ ha)) hs'
        (fun a ha => hcur a (List.mem_cons_of_mem _ ha)) hrefl.tail
      refine ⟨?_, ih'⟩
      have hzy : After z y := List.rel_of_pairwise_cons hsort (by simp)
      cases r' with
      | nil =>
        simp only [List.getLast?_singleton, Option.some.injEq] at hlast
        subst hlast
        rcases hside z (by simp) with e | e
        · exact absurd (e ▸ hzy) (after_irrefl _)
        · exact e
      | cons x r'' =>
        have hyx : After y x := List.rel_of_pairwise_cons hs' (by simp)
        exact fan_step_le c hyx hzy (hcur y (by simp)) ih'.1 hrefl.1

theorem fanLeT_canon (c : Bool) (cur : P K) (l : List (P K)) (h : FanLeT c cur l) :
    FanCanon c cur l.reverse := by
  induction l with
  | nil => trivial
  | cons z r ih =>
    cases r with
    | nil => trivial
    | cons y r' =>
      rw [List.reverse_cons, List.reverse_cons, List.append_assoc]
      show FanCanon c cur (r'.reverse ++ [y, z])
      rw [FanCanon_snoc, ← List.reverse_cons]
      exact ⟨ih h.2, h.1⟩

/-! ## the inner tessellator's invariant -/

variable (seq : List (P K × Bool))

/-- `ha`: id of the head of the buffered chain on side `l`, `hb`: of the other chain -/
structure TInv (tess : Basic K) (l : Bool) (ha hb : Nat) : Prop where
  top : ∃ rest, tess.stack = tess.previous :: rest
  good : ∀ v ∈ tess.stack, Good (posOf seq) v
  dec : tess.stack.Pairwise (fun a b => b.id < a.id)
  lt : ∀ v ∈ tess.stack, v.id < seq.length
  heads : ∀ bot, tess.stack.getLast? = some bot →
    (tess.previous.left = l → tess.previous.id = ha ∧ bot.id = hb) ∧
    (tess.previous.left ≠ l → tess.previous.id = hb ∧ bot.id = ha)
  sides : ∀ bot, tess.stack.getLast? = some bot → ∀ v ∈ tess.stack, v.id ≠ bot.id →
    sideAt seq v.id = tess.previous.left
  reflex : ReflexT tess.previous.left (tess.stack.map (·.pos))

theorem TInv.symm {tess : Basic K} {l : Bool} {ha hb : Nat} (h : TInv seq tess l ha hb) :
    TInv seq tess (!l) hb ha :=
  { top := h.top, good := h.good, dec := h.dec, lt := h.lt, sides := h.sides, reflex := h.reflex,
    heads := fun bot hb' => ⟨fun e => (h.heads bot hb').2 (by rw [e]; cases l <;> simp),
      fun e => (h.heads bot hb').1 (by revert e; cases tess.previous.left <;> cases l <;> simp)⟩ }

theorem TInv.pushTris {tess : Basic K} {l : Bool} {ha hb : Nat} (h : TInv seq tess l ha hb) (tr : List Tri) :
    TInv seq (tess.pushTris tr) l ha hb :=
  { top := h.top, good := h.good, dec := h.dec, lt := h.lt, sides := h.sides, reflex := h.reflex, heads := h.heads }

/-- the top of the stack has the largest id -/
theorem TInv.le_prev {tess : Basic K} {l : Bool} {ha hb : Nat} (h : TInv seq tess l ha hb) :
    ∀ v ∈ tess.stack, v.id ≤ tess.previous.id := by
  obtain ⟨rest, hst⟩ := h.top
  intro v hv
  rw [hst] at hv
  rcases List.mem_cons.mp hv with e | e
  · rw [e]
  · have := h.dec
    rw [hst] at this
    exact Nat.le_of_lt (List.rel_of_pairwise_cons this e)

/-- **forwarding the end `v` of the chain on side `l`** -/
theorem fwd_tinv (hval : SweepValid seq) (tess : Basic K) (l : Bool) (ha hb : Nat) (v : MV K)
    (h : TInv seq tess l ha hb) (hv : Good (posOf seq) v) (hvl : v.left = l) (hvs : sideAt seq v.id = l)
    (hvn : v.id < seq.length) (hva : ha < v.id) (hvb : hb < v.id)
    (hchord : tess.previous.left ≠ l → ∀ j, ha < j → j < v.id → sideAt seq j = !l →
      0 ≤ sg (!l) * wind (posOf seq ha) (posOf seq j) v.pos) :
    TInv seq (tess.vertex v) l v.id hb ∧ NoFlip tess v := by
  obtain ⟨rest, hst⟩ := h.top
  have hne0 : tess.stack ≠ [] := by rw [hst]; simp
  have hb0 : tess.stack.getLast? = some (tess.stack.getLast hne0) := List.getLast?_eq_some_getLast hne0
  generalize tess.stack.getLast hne0 = bot at hb0
  have hbmem : bot ∈ tess.stack := List.mem_of_getLast? hb0
  have hheads := h.heads bot hb0
  have hle := h.le_prev seq
  by_cases hside : tess.previous.left = l
  · -- same side: ears are popped
    have hcl : v.left = tess.previous.left := by rw [hvl, hside]
    have hne : (v.left != tess.previous.left) = false := by rw [hcl]; cases tess.previous.left <;> rfl
    have hvx : tess.vertex v = ⟨v :: (popLoop v tess.previous rest).1, v, tess.tris ++ (popLoop v tess.previous rest).2⟩ := by
      simp only [Basic.vertex, hne, Bool.false_eq_true, if_false, hst]
    have hsuf : (popLoop v tess.previous rest).1 <:+ tess.stack := hst ▸ popLoop_suffix v tess.previous rest
    have hnn := popLoop_nonempty v tess.previous rest
    have hgl := popLoop_getLast v tess.previous rest
    have hpid : tess.previous.id = ha := (hheads.1 hside).1
    refine ⟨?_, Or.inl hcl⟩
    rw [hvx]
    refine ⟨⟨_, rfl⟩, ?_, ?_, ?_, ?_, ?_, ?_⟩
    · intro w hw
      rcases List.mem_cons.mp hw with e | e
      · exact e ▸ hv
      · exact h.good w (hsuf.subset e)
    · refine List.Pairwise.cons ?_ (h.dec.sublist hsuf.sublist)
      intro a ha'
      have := hle a (hsuf.subset ha')
      omega
    · intro w hw
      rcases List.mem_cons.mp hw with e | e
      · rw [e]; exact hvn
      · exact h.lt w (hsuf.subset e)
    · intro b' hb'
      simp only at hb'
      rw [List.getLast?_cons_of_ne_nil hnn, hgl, ← hst, hb0] at hb'
      have : b' = bot := (Option.some.inj hb').symm
      rw [this]
      exact ⟨fun _ => ⟨rfl, (hheads.1 hside).2⟩, fun e => absurd hvl e⟩
    · intro b' hb' w hw hwb
      simp only at hb' hw ⊢
      rw [List.getLast?_cons_of_ne_nil hnn, hgl, ← hst, hb0] at hb'
      have eb : b' = bot := (Option.some.inj hb').symm
      rcases List.mem_cons.mp hw with e | e
      · rw [e, hvs, hvl]
      · rw [hcl]
        exact h.sides bot hb0 w (hsuf.subset e) (by rw [← eb]; exact hwb)
    · simp only [List.map_cons]
      apply popLoop_reflex
      have := h.reflex
      rw [hst] at this
      rw [hcl]; exact this
  · -- the side changes: fan
    have hopp : tess.previous.left = !l := bool_ne_not hside
    have hcl : v.left ≠ tess.previous.left := by rw [hvl]; exact fun e => hside e.symm
    have hne : (v.left != tess.previous.left) = true := by
      revert hcl; cases v.left <;> cases tess.previous.left <;> simp
    have hvx : tess.vertex v = ⟨[v, tess.previous], v, tess.tris ++ fanTris v tess.stack.reverse⟩ := by
      simp only [Basic.vertex, hne, if_true]
    have hpid : tess.previous.id = hb := (hheads.2 hside).1
    have hbid : bot.id = ha := (hheads.2 hside).2
    have hprevmem : tess.previous ∈ tess.stack := by rw [hst]; simp
    constructor
    · rw [hvx]
      refine ⟨⟨_, rfl⟩, ?_, ?_, ?_, ?_, ?_, by simp [ReflexT]⟩
      · intro w hw
        simp only [List.mem_cons, List.not_mem_nil, or_false] at hw
        rcases hw with e | e
        · exact e ▸ hv
        · exact e ▸ h.good _ hprevmem
      · simp only [List.pairwise_cons, List.mem_singleton, forall_eq, List.not_mem_nil, false_imp_iff,
          implies_true, List.Pairwise.nil, and_true]
        omega
      · intro w hw
        simp only [List.mem_cons, List.not_mem_nil, or_false] at hw
        rcases hw with e | e
        · rw [e]; exact hvn
        · rw [e]; exact h.lt _ hprevmem
      · intro b' hb'
        simp only [List.getLast?_cons_cons, List.getLast?_singleton, Option.some.injEq] at hb'
        subst hb'
        exact ⟨fun _ => ⟨rfl, hpid⟩, fun e => absurd hvl e⟩
      · intro b' hb' w hw hwb
        simp only [List.getLast?_cons_cons, List.getLast?_singleton, Option.some.injEq] at hb'
        subst hb'
        simp only [List.mem_cons, List.not_mem_nil, or_false] at hw
        rcases hw with e | e
        · rw [e, hvs, hvl]
        · exact absurd (by rw [e]) hwb
    · right
      rw [List.map_reverse]
      apply fanLeT_canon
      have hlo := pairwise_last tess.stack bot h.dec hb0
      apply fanPos_le tess.previous.left v.pos bot.pos
      · rw [List.getLast?_map, hb0]; rfl
      · intro y hy
        obtain ⟨w, hw, rfl⟩ := List.mem_map.mp hy
        rcases hlo w hw with e | e
        · left
          show w.pos = bot.pos
          rw [h.good w hw, h.good bot hbmem, e]
        · right
          have hws : sideAt seq w.id = !l := by
            rw [← hopp]; exact h.sides bot hb0 w hw (by omega)
          have := hchord hside w.id (by omega) (by have := hle w hw; omega) hws
          rw [hopp, h.good bot hbmem, hbid, h.good w hw]
          exact this
      · rw [List.pairwise_map]
        refine h.dec.imp_of_mem ?_
        intro a b ha' hb' hlt
        rw [h.good a ha', h.good b hb']
        exact valid_after hval hlt (h.lt a ha')
      · intro y hy
        obtain ⟨w, hw, rfl⟩ := List.mem_map.mp hy
        show After v.pos w.pos
        rw [h.good w hw, hv]
        exact valid_after hval (by have := hle w hw; omega) hvn
      · exact h.reflex

/-! ## the potential does not grow when the forward does not flip -/

theorem fwd_le {pos : Nat → P K} {tess : Basic K} {l : Bool} {ea eb : List Nat} {la lb : MV K}
    (h : PInvL pos tess l ea la eb lb) (hnf : NoFlip tess la) :
    Phi pos (tess.vertex la) l [la.id] la.pos eb lb.pos + sg l * chainPoly pos ea ≤
      Phi pos tess l ea la.pos eb lb.pos := by
  obtain ⟨v1, v2, v3, _, v5⟩ := vertex_area pos tess la h.binv h.gooda
  have v4 := v5 hnf
  have hs := h.sidea
  have hh : evPos pos [la.id] 0 = la.pos := by simp [evPos]; exact h.gooda.symm
  have ha := h.heada
  have hb := h.headb
  simp only [Phi, chainPoly_single, hh, quad, E_self]
  rw [ha, hb]
  rw [wind_eq] at v4
  generalize lastL tess = l0 at v4 ⊢
  generalize lastR tess = r0 at v4 ⊢
  cases l
  · simp only [sg, Bool.false_eq_true, if_false]
    rw [E_anti r0 la.pos, E_anti l0 r0] at v4
    linarith
  · simp only [sg, if_true]
    rw [E_anti r0 la.pos] at v4
    linarith

theorem flush_le {pos : Nat → P K} {tess : Basic K} {l : Bool} {a b : SideEv K}
    (h : PInvL pos tess l a.events a.last b.events b.last) (hnf : NoFlip tess a.last) :
    Phi pos ((tess.pushTris (flushLevels a.events.toArray a.events.length (!l) (a.events.length + 1) 1)).vertex a.last)
        l [a.last.id] a.last.pos b.events b.last.pos ≤
      Phi pos tess l a.events a.last.pos b.events b.last.pos := by
  obtain ⟨p1, p2⟩ := pushTris_pot h (flushLevels a.events.toArray a.events.length (!l) (a.events.length + 1) 1)
  have f2 := fwd_le p1 (show NoFlip (tess.pushTris _) a.last from hnf)
  rw [p2, flush_area, ← chainPoly_eq] at f2
  have : sgF (!l) = (sg l : K) := by cases l <;> simp [sgF, sg]
  rw [this] at f2
  linarith

end Geometry

end Lyon.C02f
