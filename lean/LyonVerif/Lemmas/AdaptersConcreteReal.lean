/-
  C16 with the concrete flatteners — the laws assumed of the non-field functions
  (`SqrtScales`, `SqrtLaws`, `CeilLaws`/`CountLaws`) all hold TOGETHER of the real numbers with
  the genuine `sqrt`, `ceil`, `floor` and the saturating cast: non-vacuity of the hypotheses of
  `Props/C16c.lean`, and the reading "in exact real arithmetic" of its theorems.
-/
import LyonVerif.Lemmas.AdaptersConcreteT
import LyonVerif.Lemmas.AdaptersConcreteSim
import LyonVerif.Lemmas.AdaptersConcreteEx
import LyonVerif.Lemmas.AdaptersConcreteTol
import LyonVerif.Lemmas.AdaptersConcreteSimNeg
import Mathlib.Analysis.SpecialFunctions.Sqrt
import Mathlib.Analysis.SpecialFunctions.Pow.Real

set_option linter.unusedSectionVars false
set_option linter.unusedVariables false

namespace Lyon.Adapt
open Lyon Lyon.Path Scalar Lyon.Flat

/-- ℝ with Mathlib's `sqrt`, `powf` (real power), `ceil`, `floor`, `⌊·⌋₊` (fields the flattening code does not use are
placeholders) -/
@[instance_reducible] noncomputable def exRealTransc : Transc ℝ :=
  { sqrt := Real.sqrt, cbrt := id, sin := id, cos := id, tan := id, acos := id,
    atan2 := fun a _ => a, pow := fun a b => a ^ b, log2 := id, ln := id,
    floor := fun x => ((⌊x⌋ : ℤ) : ℝ), ceil := fun x => ((⌈x⌉ : ℤ) : ℝ),
    toNat := fun x => ⌊x⌋₊, fmod := fun a _ => a, eps := 0, pi := 3, isNaN := fun _ => false,
    isFinite := fun _ => true }

/-- lyon's constants for an exact scalar: `EPSILON = 1e-4`, `value(m·10^-e)` exact -/
@[instance_reducible] noncomputable def exRealConst : FlatConst ℝ :=
  ⟨1 / 10000, fun m e => (m : ℝ) / 10 ^ e, (67 / 100) ^ 4⟩

theorem real_sqrtScales : @SqrtScales ℝ _ _ _ exRealTransc := by
  intro s x hs hx
  show Real.sqrt (s * s * x) = s * Real.sqrt x
  rw [Real.sqrt_mul (mul_self_nonneg s), Real.sqrt_mul_self hs]

theorem real_sqrtLaws : @SqrtLaws ℝ _ _ _ exRealTransc exRealConst :=
  @SqrtLaws.mk ℝ _ _ _ exRealTransc exRealConst (fun x => Real.sqrt_nonneg x)
    (fun x y _ h => Real.sqrt_le_sqrt h) (by show ((39 : ℕ) : ℝ) / 10 ^ 2 < 1; norm_num)

theorem real_countLaws : @CountLaws ℝ _ _ _ exRealTransc exRealConst :=
  @CountLaws.mk ℝ _ _ _ exRealTransc exRealConst (fun n => Nat.floor_natCast n)
    (fun x => ⟨⌈x⌉, rfl⟩) (by show (0 : ℝ) ≤ 1 / 10000; norm_num)
    (by show (1 / 10000 : ℝ) < 1; norm_num)

theorem real_ceilLaws : @CeilLaws ℝ _ _ _ exRealTransc exRealConst :=
  @CeilLaws.mk ℝ _ _ _ exRealTransc exRealConst real_countLaws (fun x => Int.ceil_lt_add_one x)

/-- a similarity of scale 5: rotation-scaling `(3, 4)`, translation `(1, 2)` -/
theorem exSim : IsSim (⟨3, 4, -4, 3, 1, 2⟩ : Xf ℝ) 5 :=
  ⟨rfl, rfl, by norm_num, by norm_num⟩

/-- the laws C09b's cubic tolerance theorems need (`x ≤ ceil x`, the sixth root) hold of ℝ -/
theorem real_cubicLaws : @CubicLaws ℝ _ _ _ exRealTransc exRealConst :=
  @CubicLaws.mk ℝ _ _ _ exRealTransc exRealConst real_countLaws (fun x => Int.le_ceil x)
    (fun y hy => ⟨Real.rpow_nonneg hy _, by
      show y ≤ (y ^ ((1 : ℝ) / 6)) ^ 6
      have := Real.rpow_inv_natCast_pow hy (by norm_num : (6 : ℕ) ≠ 0)
      rw [one_div]
      exact le_of_eq this.symm⟩)

/-- an orientation-reversing similarity of scale 5: the reflection-rotation `(3, 4)` -/
theorem exSimNeg : IsSimNeg (⟨3, 4, 4, -3, 1, 2⟩ : Xf ℝ) 5 :=
  ⟨rfl, rfl, by norm_num, by norm_num⟩

/-! ### a degenerate cubic (all four control points equal): flattened by both entry points -/

section Cubic
attribute [local instance 2000] fieldScalar

/-- its `num_quadratics` at `0.4·(1/10)` is 1 -/
theorem exNumQuadratics :
    @Cubic.numQuadraticsImpl ℝ _ exRealTransc (⟨⟨0, 0⟩, ⟨0, 0⟩, ⟨0, 0⟩, ⟨0, 0⟩⟩ : Cubic ℝ)
      ((1 / 10 : ℝ) * @FlatConst.value ℝ exRealConst 4 1) = 1 := by
  let _ := exRealTransc; let _ := exRealConst
  simp [Cubic.numQuadraticsImpl, geom]
  show ((⌈((0 : ℝ) ^ ((6 : ℝ)⁻¹))⌉ : ℤ) : ℝ) ≤ 1
  rw [Real.zero_rpow (by norm_num)]
  simp

/-- the callback form does not panic on it: `num_quadratics = ceil 0 ⊔ 1 = 1`, and its one
quadratic is accepted by `is_linear` -/
theorem exCbOkCubic : @cbOkCubic ℝ _ exRealTransc exRealConst (1 / 10) ⟨0, 0⟩ ⟨0, 0⟩ ⟨0, 0⟩ ⟨0, 0⟩ = true := by
  let _ := exRealTransc; let _ := exRealConst
  have hnq : (⟨⟨0, 0⟩, ⟨0, 0⟩, ⟨0, 0⟩, ⟨0, 0⟩⟩ : Cubic ℝ).numQuadraticsImpl
      ((1 / 10 : ℝ) * FlatConst.value 4 1) = 1 := by
    simp [Cubic.numQuadraticsImpl, geom]
    show ((⌈((0 : ℝ) ^ ((6 : ℝ)⁻¹))⌉ : ℤ) : ℝ) ≤ 1
    rw [Real.zero_rpow (by norm_num)]
    simp
  have hq : ∀ t0 t1 : ℝ, ((⟨⟨0, 0⟩, ⟨0, 0⟩, ⟨0, 0⟩, ⟨0, 0⟩⟩ : Cubic ℝ).splitRange t0 t1).toQuadratic
      = ⟨⟨0, 0⟩, ⟨0, 0⟩, ⟨0, 0⟩⟩ := by
    intro t0 t1
    simp [Cubic.splitRange, Cubic.toQuadratic, Cubic.sample, Quad.sample, geom]
  have hlin : ∀ tol : ℝ, 0 ≤ tol → (⟨⟨0, 0⟩, ⟨0, 0⟩, ⟨0, 0⟩⟩ : Quad ℝ).isLinear tol = true := by
    intro tol ht
    simp [Quad.isLinear, segSqDist, segClosestPoint, geom]
    positivity
  have hu : toU32 (1 : ℝ) = some 1 := by
    simp [toU32, show (one : ℝ) = 1 from sc_one, ofNat_eq]
    show ⌊(1 : ℝ)⌋₊ = 1
    simp
  have hok := @cbOkQuad_of_isLinear ℝ _ _ _ exRealTransc exRealConst
    ((1 / 10 : ℝ) * FlatConst.value 6 1) ⟨0, 0⟩ ⟨0, 0⟩ ⟨0, 0⟩
    (hlin _ (by show (0 : ℝ) ≤ 1 / 10 * (((6 : ℕ) : ℝ) / 10 ^ 1); norm_num))
  simp only [cbOkQuad, Option.isSome_iff_exists] at hok
  obtain ⟨l, hl⟩ := hok
  unfold cbOkCubic Cubic.forEachFlattenedWithT Cubic.forEachQuadraticWithT
  simp only [hnq, hu, Option.getD_some, Nat.sub_self, Cubic.quadsLoop, hq, Cubic.flatQuadsT, hl]
  rfl


/-- the cubic `Flattened` iterator is created without a panic and finishes within 3 pulls -/
theorem exItOkCubic :
    @itOkCubic ℝ _ exRealTransc exRealConst 3 (1 / 10) ⟨0, 0⟩ ⟨0, 0⟩ ⟨0, 0⟩ ⟨0, 0⟩ = true := by
  let _ := exRealTransc; let _ := exRealConst
  have hnq : (⟨⟨0, 0⟩, ⟨0, 0⟩, ⟨0, 0⟩, ⟨0, 0⟩⟩ : Cubic ℝ).numQuadraticsImpl
      ((1 / 10 : ℝ) * FlatConst.value 4 1) = 1 := by
    simp [Cubic.numQuadraticsImpl, geom]
    show ((⌈((0 : ℝ) ^ ((6 : ℝ)⁻¹))⌉ : ℤ) : ℝ) ≤ 1
    rw [Real.zero_rpow (by norm_num)]
    simp
  have hq : ∀ t0 t1 : ℝ, ((⟨⟨0, 0⟩, ⟨0, 0⟩, ⟨0, 0⟩, ⟨0, 0⟩⟩ : Cubic ℝ).splitRange t0 t1).toQuadratic
      = ⟨⟨0, 0⟩, ⟨0, 0⟩, ⟨0, 0⟩⟩ := by
    intro t0 t1
    simp [Cubic.splitRange, Cubic.toQuadratic, Cubic.sample, Quad.sample, geom]
  have hlin0 : ∀ tol : ℝ, 0 ≤ tol → (⟨⟨0, 0⟩, ⟨0, 0⟩, ⟨0, 0⟩⟩ : Quad ℝ).isLinear tol = true := by
    intro tol ht
    simp [Quad.isLinear, segSqDist, segClosestPoint, geom]
    positivity
  have hlin := hlin0 ((1 / 10 : ℝ) * FlatConst.value 6 1)
    (by show (0 : ℝ) ≤ 1 / 10 * (((6 : ℕ) : ℝ) / 10 ^ 1); norm_num)
  have hi : toI32 (1 : ℝ) = some 1 := by
    simp [toI32, ofNat_eq]
    show ⌊(1 : ℝ)⌋₊ = 1
    simp
  have hnew : CubicIter.new (⟨⟨0, 0⟩, ⟨0, 0⟩, ⟨0, 0⟩, ⟨0, 0⟩⟩ : Cubic ℝ) (1 / 10)
      = some ⟨⟨⟨0, 0⟩, ⟨0, 0⟩, ⟨0, 0⟩, ⟨0, 0⟩⟩, ⟨FlatParams.linear, one, false⟩, 0,
          (1 / 10 : ℝ) * FlatConst.value 6 1, one / 1, zero⟩ := by
    simp only [CubicIter.new, hnq, hi, hq, QuadTIter.new, FlatParams.new, hlin, if_true,
      Option.map_some, Nat.sub_self]
  have hat : (⟨FlatParams.linear, 1, false⟩ : QuadTIter ℝ).atEnd = true := by
    simp only [QuadTIter.atEnd, FlatParams.linear, decide_eq_true_eq,
      show (zero : ℝ) = 0 from sc_zero]
    show (0 : ℝ) - 1 / 10000 ≤ 1
    norm_num
  unfold itOkCubic
  rw [hnew]
  simp [CubicIter.collectDone, CubicIter.next, QuadTIter.next, hat, CubicIter.lastOr]

/-- a program with that cubic and two attributes -/
noncomputable def exProgC : List (Call (P ℝ) (List ℝ)) :=
  [.begin ⟨0, 0⟩ [1, 2], .cubic ⟨0, 0⟩ ⟨0, 0⟩ ⟨0, 0⟩ [3, 4], .end_ false]

theorem exBuilderOkC :
    ∃ out, @flatBuilderC ℝ _ exRealTransc exRealConst (1 / 10) ⟨0, 0⟩ 2 exProgC = some out := by
  refine ⟨_, if_pos ?_⟩
  simp only [exProgC, cbOkRun, Bool.and_eq_true, and_true]
  exact exCbOkCubic

theorem exIterOkC :
    ∃ out, @flatIterC ℝ _ exRealTransc exRealConst 3 (1 / 10) (specEvents exProgC) = some out := by
  refine ⟨_, if_pos ?_⟩
  simp only [exProgC, specEvents, specFrom, itOkEvents, Bool.and_eq_true, and_true]
  exact exItOkCubic

end Cubic

end Lyon.Adapt
