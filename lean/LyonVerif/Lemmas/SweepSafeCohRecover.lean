/-
  SPAN / WINDING COHERENCE, recovery, part 3: `sort_active_edges` and `recover_from_error` re-establish
  the coherence invariant `Coh` (or end in `Err(MergeVertexOutside)` / a NaN-key panic).
-/
import LyonVerif.Lemmas.SweepSafeCohFix

set_option linter.unusedSectionVars false
set_option linter.unusedVariables false
set_option linter.unusedSimpArgs false
set_option mvcgen.warning false

namespace Lyon.SweepCoh
open Lyon Lyon.Scalar Lyon.Mono Lyon.Sweep Lyon.EQ Lyon.SweepSafe
open Std.Do

variable {α : Type} [Scalar α] [Wide α]
variable {A : List String}

/-- the state agrees with `s0` on everything the invariants read -/
def Fr (s0 s : St α) : Prop :=
  s.spans = s0.spans ∧ s.active = s0.active ∧ s.rule = s0.rule ∧ s.tolerance = s0.tolerance

/-- the contribution of key `k` to the winding sum -/
def hk (a : Array (ActiveEdge α)) (k : α × Nat) : Int :=
  match a[k.2]? with
  | some e => gW (sigOf e)
  | none => 0

/-- the signature the key `k` selects -/
def sk (a : Array (ActiveEdge α)) (k : α × Nat) : Option (Bool × Int) := (a[k.2]?).map sigOf

theorem keysum (a : Array (ActiveEdge α)) (keys : Array (α × Nat)) (hn : keys.size = a.size)
    (hp : ∀ p (h : p < keys.size), keys[p].2 = p) : asum (hk a) keys = gsum (sgA a) := by
  unfold asum gsum lsum sgA
  congr 1
  apply List.ext_getElem
  · simp [hn]
  · intro i h1 h2
    simp only [List.getElem_map, Array.getElem_toList]
    have hi : i < keys.size := by simpa using h1
    have hia : i < a.size := hn ▸ hi
    unfold hk
    rw [hp i hi, Array.getElem?_eq_getElem hia]

theorem gsum_filterMap (a : Array (ActiveEdge α)) : ∀ l : List (α × Nat),
    gsum (l.filterMap (sk a)) = lsum (hk a) l
  | [] => rfl
  | k :: l => by
    have ih := gsum_filterMap a l
    rw [lsum_cons, List.filterMap_cons]
    unfold sk hk at *
    cases h : a[k.2]? with
    | none => simp only [Option.map_none]; rw [ih]; omega
    | some e => simp only [Option.map_some]; rw [gsum_cons, ih]

theorem mem_filterMap_sk (a : Array (ActiveEdge α)) (l : List (α × Nat)) (x : Bool × Int)
    (h : x ∈ l.filterMap (sk a)) : x ∈ sgA a := by
  rcases List.mem_filterMap.mp h with ⟨k, _, hk'⟩
  unfold sk at hk'
  cases h2 : a[k.2]? with
  | none => rw [h2] at hk'; cases hk'
  | some e =>
    rw [h2] at hk'
    simp only [Option.map_some, Option.some.injEq] at hk'
    rw [← hk']
    unfold sgA
    exact List.mem_map.mpr ⟨e, Array.mem_toList_iff.mpr (Array.mem_of_getElem? h2), rfl⟩

theorem keys_push {keys : Array (α × Nat)} {n i : Nat} {x : α} (hk : keys.size = n) (hi : i = n)
    (hp : ∀ p (h : p < keys.size), keys[p].2 = p) :
    ∀ p (h : p < (keys.push (x, i)).size), (keys.push (x, i))[p].2 = p := by
  intro p h
  rw [Array.getElem_push]
  split
  · exact hp p _
  · simp at h; omega

theorem sorted_facts (a : Array (ActiveEdge α)) (keys : Array (α × Nat)) (less : (α × Nat) → (α × Nat) → Bool)
    (r : Array (ActiveEdge α)) (hn : keys.size = a.size) (hp : ∀ p (h : p < keys.size), keys[p].2 = p)
    (hsg : sgA r = (insertionSort less keys).toList.filterMap (sk a)) :
    gsum (sgA r) = gsum (sgA a) ∧ ∀ x ∈ sgA r, x ∈ sgA a := by
  refine ⟨?_, fun x hx => mem_filterMap_sk a _ x (hsg ▸ hx)⟩
  rw [hsg, gsum_filterMap]
  show asum (hk a) (insertionSort less keys) = _
  rw [(insertionSort_sum_size _ _ _).1, keysum a keys hn hp]

/-- the loop invariant of the merge-vertex fix-up of `sort_active_edges` -/
structure FixInv (s0 : St α) (j : Nat) (edges : Array (ActiveEdge α)) (wn : Int) : Prop where
  sum : gsum (sgA edges) = gsum (sigs s0)
  mz : MZl (sgA edges)
  k4 : K4upto s0.rule (sgA edges) j
  wn : wn = gsum ((sgA edges).take j)

theorem gsum_take_succ (l : List (Bool × Int)) (j : Nat) (x : Bool × Int) (h : l[j]? = some x) :
    gsum (l.take (j + 1)) = gsum (l.take j) + gW x := by
  rw [List.take_add_one, h, gsum_append]
  simp [gsum_cons, gsum_nil]

theorem K4upto_succ {rule : Slab.Rule} {l : List (Bool × Int)} {j : Nat} (h : K4upto rule l j)
    (hj : ∀ x, l[j]? = some x → x.1 = true → rule.isIn (gsum (l.take j)) = true) : K4upto rule l (j + 1) := by
  intro p hp x hx hm
  by_cases hpj : p = j
  · subst hpj; exact hj x hx hm
  · exact h p (by omega) x hx hm

theorem FixInv.skip {s0 : St α} {j : Nat} {edges : Array (ActiveEdge α)} {wn : Int}
    (h : FixInv s0 j edges wn) (hn : edges[j]? = none) : FixInv s0 (j + 1) edges wn := by
  have hn' : (sgA edges)[j]? = none := by rw [sgA_getElem?, hn]; rfl
  refine ⟨h.sum, h.mz, K4upto_succ h.k4 (fun x hx => by rw [hn'] at hx; cases hx), ?_⟩
  have hl : (sgA edges).length ≤ j := List.getElem?_eq_none_iff.mp hn'
  rw [h.wn, List.take_of_length_le hl, List.take_of_length_le (by omega)]

theorem FixInv.merge_in {s0 : St α} {j : Nat} {edges : Array (ActiveEdge α)} {wn : Int} {e : ActiveEdge α}
    (h : FixInv s0 j edges wn) (he : edges[j]? = some e) (hm : e.isMerge = true)
    (hin : s0.rule.isIn wn = true) : FixInv s0 (j + 1) edges wn := by
  have he' : (sgA edges)[j]? = some (sigOf e) := by rw [sgA_getElem?, he]; rfl
  refine ⟨h.sum, h.mz, K4upto_succ h.k4 (fun x hx _ => by rw [← h.wn]; exact hin), ?_⟩
  rw [gsum_take_succ _ _ _ he', ← h.wn, gW_merge (by exact hm)]
  omega

theorem FixInv.edge {s0 : St α} {j : Nat} {edges : Array (ActiveEdge α)} {wn : Int} {e : ActiveEdge α}
    (h : FixInv s0 j edges wn) (he : edges[j]? = some e) (hm : ¬ e.isMerge = true) :
    FixInv s0 (j + 1) edges (wn + e.winding) := by
  have he' : (sgA edges)[j]? = some (sigOf e) := by rw [sgA_getElem?, he]; rfl
  refine ⟨h.sum, h.mz, K4upto_succ h.k4 (fun x hx hx1 => ?_), ?_⟩
  · rw [he'] at hx
    cases hx
    exact absurd hx1 hm
  · rw [gsum_take_succ _ _ _ he', ← h.wn]
    simp [gW, sigOf, hm]

theorem FixInv.swap {s0 : St α} {j : Nat} {edges : Array (ActiveEdge α)} {wn : Int} {e : ActiveEdge α}
    (h : FixInv s0 j edges wn) (he : edges[j]? = some e) (hm : e.isMerge = true)
    {f : Nat} {a : Array (ActiveEdge α)} (hs : swapBack s0.rule f edges j wn = .ok a) :
    FixInv s0 (j + 1) a wn := by
  have he' : (sgA edges)[j]? = some (sigOf e) := by rw [sgA_getElem?, he]; rfl
  have hj : j < (sgA edges).length := (List.getElem?_eq_some_iff.mp he').1
  have hdec : sgA edges = (sgA edges).take j ++ sigOf e :: (sgA edges).drop (j + 1) := by
    conv => lhs; rw [← List.take_append_drop j (sgA edges)]
    congr 1
    rw [List.drop_eq_getElem_cons hj]
    congr 1
    exact (List.getElem?_eq_some_iff.mp he').2
  have hlen : ((sgA edges).take j).length = j := by rw [List.length_take]; omega
  have r := swapBack_spec s0.rule f edges j wn a _ _ _ hs hdec hlen hm h.mz h.wn h.k4
  exact ⟨r.2.1.trans h.sum, r.2.2.1, r.2.2.2.1, by rw [r.2.2.2.2.2]; exact h.wn⟩

/-- what `sort_active_edges` guarantees about the new active list -/
structure SortedOK (s0 s' : St α) : Prop where
  spans : s'.spans = s0.spans
  rule : s'.rule = s0.rule
  tol : s'.tolerance = s0.tolerance
  sum : gsum (sigs s') = gsum (sigs s0)
  mz : MZl (sigs s')
  k4 : K4upto s0.rule (sigs s') (sigs s').length

theorem sortActiveEdges_coh (hNaN : NoNaN α ∨ mNaN ∈ A) (s0 : St α) (hz : MZl (sigs s0)) :
    ⦃fun s => ⌜Fr s0 s⌝⦄ (sortActiveEdges : SM α Unit) ⦃safePost A fun _ s' => SortedOK s0 s'⦄ := by
  unfold sortActiveEdges
  strip_mdata
  mvcgen [mark] invariants
  · post⟨fun r s => ⌜Fr s0 s ∧ r.2.2.2.2 = r.1.prefix.length ∧ r.2.1.size = r.1.prefix.length ∧
      (∀ p (hp : p < r.2.1.size), r.2.1[p].2 = p) ∧ (r.2.2.1 = false → ∀ e ∈ r.1.prefix, e.isMerge = false)⌝,
      fun f _ => ⌜Allowed A f⌝⟩
  · post⟨fun r s => ⌜Fr s0 s ∧ sgA r.2 = r.1.prefix.filterMap (sk s0.active)⌝, fun f _ => ⌜Allowed A f⌝⟩
  · post⟨fun r s => ⌜Fr s0 s ∧ FixInv s0 r.1.prefix.length r.2.1 r.2.2 ∧
      r.2.1.size = r.1.prefix.length + r.1.suffix.length⌝, fun f _ => ⌜Allowed A f⌝⟩
  with skip
  case vc1 =>
    have h := ‹Fr s0 _ ∧ _›
    obtain ⟨hf, hi, hk, hp, _⟩ := h
    refine ⟨hf, by simp +zetaDelta; omega, by simp +zetaDelta; omega, keys_push hk hi hp, fun hh => by cases hh⟩
  case vc2 =>
    have h := ‹Fr s0 _ ∧ _›
    have hm := ‹¬ _ = true›
    obtain ⟨hf, hi, hk, hp, hmm⟩ := h
    refine ⟨hf, by simp +zetaDelta; omega, by simp +zetaDelta; omega, keys_push hk hi hp, fun hh e he => ?_⟩
    rcases List.mem_append.mp he with he | he
    · exact hmm hh e he
    · simp only [List.mem_singleton] at he
      rw [he]; simpa using hm
  case vc3 =>
    refine ⟨by assumption, rfl, rfl, ?_, ?_⟩
    · intro p hp; exact absurd hp (Nat.not_lt_zero _)
    · intros; rename_i he; cases he
  case vc4 =>
    rcases hNaN with hNaN | hNaN
    · exfalso
      have h := ‹(decide (_ ≥ 2) && anyNaNKey _) = true›
      rw [anyNaN_false hNaN] at h
      simp at h
    · exact allowed_panic hNaN
  case vc5 => exact allowed_unmodelled _
  case vc6 =>
    have hfr := ‹Fr s0 _›
    rename_i pref cur suff hsp b e hx st h
    refine ⟨h.1, ?_⟩
    have : sk s0.active cur = some (sigOf e) := by unfold sk; rw [← hfr.2.1, hx]; rfl
    rw [List.filterMap_append, ← h.2]
    simp [sgA, this]
  case vc7 =>
    have hfr := ‹Fr s0 _›
    rename_i pref cur suff hsp b hx st h
    refine ⟨h.1, ?_⟩
    have : sk s0.active cur = none := by unfold sk; rw [← hfr.2.1, hx]; rfl
    rw [List.filterMap_append, ← h.2]
    simp [this]
  case vc8 => exact ⟨(by assumption : Fr s0 _ ∧ _).1, by simp [sgA]⟩
  case vc9 =>
    have h := ‹Fr s0 _ ∧ FixInv _ _ _ _ ∧ _›
    have hr := range_split ‹_ = _ ++ _ :: _›
    refine ⟨h.1, ?_, h.2.2.trans (by simp only [List.length_append, List.length_cons, List.length_nil]; omega)⟩
    rw [List.length_append, List.length_singleton]
    exact h.2.1.skip (by rw [← hr.1]; assumption)
  case vc10 =>
    have hfr := ‹Fr s0 _›
    have h := ‹Fr s0 _ ∧ FixInv _ _ _ _ ∧ _›
    have hr := range_split ‹_ = _ ++ _ :: _›
    have hs := ‹swapBack _ _ _ _ _ = _›
    refine ⟨h.1, ?_, (swapBack_size _ _ _ _ _ _ hs).trans
      (h.2.2.trans (by simp only [List.length_append, List.length_cons, List.length_nil]; omega))⟩
    rw [hfr.2.2.1, hr.1] at hs
    rw [List.length_append, List.length_singleton]
    exact h.2.1.swap (by rw [← hr.1]; assumption) (by assumption) hs
  case vc11 =>
    have hget := ‹_ = some _›
    have hx := ‹swapBack _ _ _ _ _ = _›
    have hlt := (Array.getElem?_eq_some_iff.mp hget).1
    rcases swapBack_err _ _ _ _ _ _ hlt hx with e | e
    · rw [e]; exact allowed_fuel
    · rw [e]; exact allowed_err _
  case vc12 =>
    have hfr := ‹Fr s0 _›
    have h := ‹Fr s0 _ ∧ FixInv _ _ _ _ ∧ _›
    have hr := range_split ‹_ = _ ++ _ :: _›
    have hin := ‹¬ (!_) = true›
    rw [hfr.2.2.1] at hin
    refine ⟨h.1, ?_, h.2.2.trans (by simp only [List.length_append, List.length_cons, List.length_nil]; omega)⟩
    rw [List.length_append, List.length_singleton]
    exact h.2.1.merge_in (by rw [← hr.1]; assumption) (by assumption) (by simpa using hin)
  case vc13 =>
    have h := ‹Fr s0 _ ∧ FixInv _ _ _ _ ∧ _›
    have hr := range_split ‹_ = _ ++ _ :: _›
    refine ⟨h.1, ?_, h.2.2.trans (by simp only [List.length_append, List.length_cons, List.length_nil]; omega)⟩
    rw [List.length_append, List.length_singleton]
    exact h.2.1.edge (by rw [← hr.1]; assumption) (by assumption)
  case vc14 =>
    have hfr := ‹Fr s0 _›
    have h := ‹Fr s0 _ ∧ sgA _ = _›
    have h1 := ‹Fr s0 _ ∧ _ = _ ∧ _›
    obtain ⟨_, _, hk, hp, _⟩ := h1
    have hsg := h.2
    rw [← hfr.2.1] at hsg
    have hf := sorted_facts _ _ _ _ (by simpa using hk) hp hsg
    rw [hfr.2.1] at hf
    refine ⟨h.1, ⟨hf.1, fun x hx => hz x (hf.2 x hx), fun p hp => absurd hp (Nat.not_lt_zero _), ?_⟩, ?_⟩
    · simp [gsum_nil]
    · rw [range_length]; simp
  case vc15 =>
    have h := ‹Fr s0 _ ∧ FixInv _ _ _ _ ∧ _›
    obtain ⟨hf, hi, hsz⟩ := h
    refine ⟨hf.1, hf.2.2.1, hf.2.2.2, hi.sum, hi.mz, ?_⟩
    have hl : (sgA _).length = _ := (sgA_length _).trans hsz
    show K4upto _ (sgA _) (sgA _).length
    rw [hl]
    simpa using hi.k4
  case vc17 =>
    have hfr := ‹Fr s0 _›
    have h := ‹Fr s0 _ ∧ sgA _ = _›
    have h1 := ‹Fr s0 _ ∧ _ = _ ∧ _›
    have hnm := ‹¬ _ = true›
    obtain ⟨_, _, hk, hp, hno⟩ := h1
    have hsg := h.2
    rw [← hfr.2.1] at hsg
    have hf := sorted_facts _ _ _ _ (by simpa using hk) hp hsg
    rw [hfr.2.1] at hf hno
    refine ⟨h.1.1, h.1.2.2.1, h.1.2.2.2, hf.1, fun x hx => hz x (hf.2 x hx), ?_⟩
    intro p _ x hx hm
    exfalso
    have hx1 : x ∈ sgA s0.active := hf.2 x (List.mem_of_getElem? hx)
    rcases List.mem_map.mp hx1 with ⟨e, he, hex⟩
    have := hno (by simpa using hnm) e he
    rw [← hex] at hm
    simp [sigOf, this] at hm

/-! ### the span repair of `recover_from_error` -/

/-- the state keeps the active list / rule / tolerance and all its spans are live -/
structure Keep (act : Array (ActiveEdge α)) (rl : Slab.Rule) (tol : α) (s : St α) : Prop where
  act : s.active = act
  rule : s.rule = rl
  tol : s.tolerance = tol
  live : SomeExcept [] s.spans

theorem Keep.frame {act : Array (ActiveEdge α)} {rl : Slab.Rule} {tol : α} {s s' : St α} (h : Keep act rl tol s)
    (h1 : s'.active = s.active) (h2 : s'.rule = s.rule) (h3 : s'.tolerance = s.tolerance)
    (h4 : s'.spans = s.spans) : Keep act rl tol s' :=
  ⟨h1.trans h.act, h2.trans h.rule, h3.trans h.tol, h4 ▸ h.live⟩

theorem beginSpan_keep (act : Array (ActiveEdge α)) (rl : Slab.Rule) (tol : α) (i : Int) (pos : P α) (id : Nat) :
    ⦃fun s => ⌜Keep act rl tol s ∧ (s.spans.size : Int) = i⌝⦄ (beginSpan i pos id : SM α Unit)
    ⦃safePost A fun _ s => Keep act rl tol s ∧ (s.spans.size : Int) = i + 1⦄ := by
  unfold beginSpan
  mvcgen
  · rename_i s h _ _
    refine ⟨⟨h.1.act, h.1.rule, h.1.tol, someExcept_insert h.1.live _ _⟩, ?_⟩
    have := h.2
    simp
    omega
  · rename_i s h hn
    exfalso
    have := h.2
    omega

/-- the part of `recover_from_error` after the sort (same text as in the model) -/
def recTail : SM α Unit := do
  let s ← get
  let len := s.active.size
  if len > 1 && (s.active[len-1]?.map (·.isMerge)).getD false then mark 24
  let active :=
    match s.active[len-1]?, s.active[len-2]? with
    | some l, some p => if len > 1 && l.isMerge then (s.active.setIfInBounds (len-1) p).setIfInBounds (len-2) l else s.active
    | _, _ => s.active
  modify fun s' => { s' with active := active }
  let mut w := WindingState.new
  for e in active do
    if e.isMerge then
      w := { w with spanIndex := w.spanIndex + 1 }
    else
      w := w.update s.rule e.winding
    if w.spanIndex ≥ ((← get).spans.size : Int) then
      mark 20
      beginSpan w.spanIndex e.from_ e.fromId
  let target := w.spanIndex + 1
  let s ← get
  let keep := target.toNat
  if s.spans.size > keep then
    for _ in [0:s.spans.size - keep] do
      let s' ← get
      let last := s'.spans.size - 1
      match s'.spans.getD last none with
      | none => throw (.panic "dead span")
      | some t =>
        set { s' with spans := s'.spans.pop, cov := s'.cov ||| (1 <<< 21) }
        emitTris t.tess.tris

theorem recoverFromError_eq : (recoverFromError : SM α Unit) = (do mark 0; sortActiveEdges; recTail) := rfl

/-- the last edge is not a merge vertex when the merge vertices lie in `in` regions and the total is `out` -/
theorem swapLast_id (rule : Slab.Rule) (a : Array (ActiveEdge α)) (hk4 : K4upto rule (sgA a) (sgA a).length)
    (hk3 : rule.isIn (gsum (sgA a)) = false) :
    (match a[a.size-1]?, a[a.size-2]? with
      | some l, some p => if a.size > 1 && l.isMerge then (a.setIfInBounds (a.size-1) p).setIfInBounds (a.size-2) l else a
      | _, _ => a) = a := by
  split
  · rename_i l p hl hp
    split
    · rename_i hc
      exfalso
      simp only [Bool.and_eq_true, decide_eq_true_eq] at hc
      have hl' : (sgA a)[a.size - 1]? = some (sigOf l) := by rw [sgA_getElem?, hl]; rfl
      have h1 := hk4 (a.size - 1) (by rw [sgA_length]; omega) _ hl' hc.2
      have h2 := gsum_take_succ _ _ _ hl'
      rw [gW_merge (by exact hc.2), List.take_of_length_le (by rw [sgA_length]; omega)] at h2
      rw [h2, Int.add_zero, h1] at hk3
      cases hk3
    · rfl
  · rfl

theorem wstep_si (rule : Slab.Rule) (w : WindingState) (e : ActiveEdge α) :
    w.spanIndex ≤ (wstep rule w e).spanIndex ∧ (wstep rule w e).spanIndex ≤ w.spanIndex + 1 := by
  unfold wstep
  split
  · constructor <;> (simp only; omega)
  · unfold WindingState.update
    simp only
    split <;> constructor <;> omega

theorem coh_of_sorted {s3 : St α} (hlive : SomeExcept [] s3.spans)
    (hsize : (s3.spans.size : Int) = (Wtot s3).spanIndex + 1) (hmz : MZl (sigs s3))
    (hk4 : K4upto s3.rule (sigs s3) (sigs s3).length) (hk3 : s3.rule.isIn (gsum (sigs s3)) = false) : Coh s3 := by
  refine ⟨hlive, hsize, ?_, ?_, hmz⟩
  · show (Wat s3 s3.active.size).isIn = false
    rw [Wat_eq_WatS, WatS_isIn, List.take_of_length_le (by rw [sigs_length]; omega), hk3]
  · intro k e hk hm
    rw [Wat_eq_WatS, WatS_isIn]
    have hlt : k < s3.active.size := (Array.getElem?_eq_some_iff.mp hk).1
    exact hk4 k (by rw [sigs_length]; exact hlt) (sigOf e) (by rw [sigs_getElem?, hk]; rfl) hm

theorem wfold_snoc (rule : Slab.Rule) (w : WindingState) (l : List (ActiveEdge α)) (e : ActiveEdge α) :
    wfold rule w (l ++ [e]) = wstep rule (wfold rule w l) e := by
  simp [wfold, List.foldl_append]

theorem need_update {w : WindingState} {rule : Slab.Rule} {x : Int} {n : Nat} (hlt : w.spanIndex < (n : Int))
    (hge : (w.update rule x).spanIndex ≥ (n : Int)) : (n : Int) = (w.update rule x).spanIndex := by
  unfold WindingState.update at *
  simp only at *
  split at hge <;> rename_i hc <;> simp only [hc, if_true, if_false] <;> omega

/-- the number of spans `recover_from_error` keeps -/
def keepOf (s1 : St α) : Nat := ((wfold s1.rule WindingState.new s1.active.toList).spanIndex + 1).toNat

theorem final_coh (s1 : St α) (tol : α) (hmz : MZl (sigs s1))
    (hk4 : K4upto s1.rule (sigs s1) (sigs s1).length) (hk3 : s1.rule.isIn (gsum (sigs s1)) = false)
    (s : St α) (hk : Keep s1.active s1.rule tol s) (hsz : s.spans.size = keepOf s1) : Coh s ∧ s.tolerance = tol := by
  have e1 : s.active = s1.active := hk.act
  have e2 : s.rule = s1.rule := hk.rule
  have e3 : sigs s = sigs s1 := by unfold sigs; rw [e1]
  have e4 : Wtot s = wfold s1.rule WindingState.new s1.active.toList := by
    unfold Wtot Wat
    rw [e1, e2, List.take_of_length_le (by simp)]
  refine ⟨coh_of_sorted hk.live ?_ (e3 ▸ hmz) (by rw [e3, e2]; exact hk4) (by rw [e3, e2]; exact hk3), hk.tol⟩
  have hg := (Wat_good s s.active.size).ge
  change -1 ≤ (Wtot s).spanIndex at hg
  rw [hsz]
  unfold keepOf
  rw [← e4]
  omega

theorem recTail_coh (s1 : St α) (tol : α) (h1 : Keep s1.active s1.rule tol s1) (hmz : MZl (sigs s1))
    (hk4 : K4upto s1.rule (sigs s1) (sigs s1).length) (hk3 : s1.rule.isIn (gsum (sigs s1)) = false) :
    ⦃fun s => ⌜s = s1⌝⦄ (recTail : SM α Unit) ⦃safePost A fun _ s3 => Coh s3 ∧ s3.tolerance = tol⦄ := by
  unfold recTail
  strip_mdata
  have h3 := beginSpan_keep (α := α) (A := A) s1.active s1.rule tol
  mvcgen [mark, emitTris, h3] invariants
  · post⟨fun r st => ⌜Keep s1.active s1.rule tol st ∧ r.2 = wfold s1.rule WindingState.new r.1.prefix ∧
      r.2.spanIndex < (st.spans.size : Int)⌝, fun f _ => ⌜Allowed A f⌝⟩
  · post⟨fun r st => ⌜Keep s1.active s1.rule tol st ∧ st.spans.size = keepOf s1 + r.1.suffix.length⌝,
      fun f _ => ⌜Allowed A f⌝⟩
  · post⟨fun r st => ⌜Keep s1.active s1.rule tol st ∧ r.2 = wfold s1.rule WindingState.new r.1.prefix ∧
      r.2.spanIndex < (st.spans.size : Int)⌝, fun f _ => ⌜Allowed A f⌝⟩
  · post⟨fun r st => ⌜Keep s1.active s1.rule tol st ∧ st.spans.size = keepOf s1 + r.1.suffix.length⌝,
      fun f _ => ⌜Allowed A f⌝⟩
  with skip
  case vc3 | vc7 | vc19 | vc23 => intro _ h; exact h
  case vc1 | vc17 =>
    rename_i s h hge t
    have e1 : t.2.spans = s.spans := rfl
    refine ⟨h.1.frame rfl rfl rfl rfl, ?_⟩
    rw [e1]
    have := h.2.2
    omega
  case vc5 | vc21 =>
    rename_i s h hge t
    have e1 : t.2.spans = s.spans := rfl
    refine ⟨h.1.frame rfl rfl rfl rfl, ?_⟩
    rw [e1]
    exact need_update h.2.2 hge
  case vc2 | vc18 =>
    rename_i hm s0 hinv _ _ _ s h
    refine ⟨h.1, ?_, by have := h.2; omega⟩
    rw [wfold_snoc, ← hinv.2.1]
    simp [wstep, hm]
  case vc6 | vc22 =>
    rename_i hm s0 hinv _ _ _ s h
    refine ⟨h.1, ?_, by have := h.2; omega⟩
    rw [wfold_snoc, ← hinv.2.1]
    subst_vars
    simp [wstep, hm]
  case vc4 | vc20 =>
    rename_i hm s h hge
    refine ⟨h.1, ?_, by omega⟩
    rw [wfold_snoc, ← h.2.1]
    simp [wstep, hm]
  case vc8 | vc24 =>
    rename_i hm s h hge
    refine ⟨h.1, ?_, by omega⟩
    rw [wfold_snoc, ← h.2.1]
    subst_vars
    simp [wstep, hm]
  case vc9 | vc25 =>
    subst_vars
    refine ⟨⟨?_, rfl, h1.tol, h1.live⟩, rfl, ?_⟩
    · exact swapLast_id _ _ hk4 hk3
    · show (-1 : Int) < _
      omega
  case vc10 | vc26 =>
    rename_i s h hx
    exfalso
    have hl : s.spans.size - 1 < s.spans.size := by
      have := h.2; simp only [List.length_cons] at this; omega
    rw [getD_eq hl] at hx
    have := h.1.live _ hl hx
    simp at this
  case vc11 | vc27 =>
    rename_i s h tt hx t
    have e1 : t.2.spans = s.spans.pop := rfl
    refine ⟨⟨h.1.act, h.1.rule, h.1.tol, ?_⟩, ?_⟩
    · rw [e1]; exact someExcept_pop h.1.live
    · rw [e1]
      have := h.2
      simp only [List.length_cons] at this
      simp only [Array.size_pop]
      omega
  case vc12 | vc28 =>
    rename_i t1 act t2 r s h keep hgt
    have hact : act = s1.active := by subst_vars; exact swapLast_id _ _ hk4 hk3
    have hk : keep = keepOf s1 := by
      show (r.spanIndex + 1).toNat = _
      rw [h.2.1, hact]; rfl
    refine ⟨h.1, ?_⟩
    rw [range_length, ← hk]
    omega
  case vc13 | vc29 =>
    rename_i s h
    exact final_coh s1 tol hmz hk4 hk3 s h.1 (by simpa using h.2)
  case vc15 | vc31 =>
    rename_i t1 act t2 r s h keep hgt
    have hact : act = s1.active := by subst_vars; exact swapLast_id _ _ hk4 hk3
    have hk : keep = keepOf s1 := by
      show (r.spanIndex + 1).toNat = _
      rw [h.2.1, hact]; rfl
    refine final_coh s1 tol hmz hk4 hk3 s h.1 ?_
    rw [← hk]
    have h2 := h.2.2
    have : keep = (r.spanIndex + 1).toNat := rfl
    omega

theorem coh_k3 {s0 : St α} (hc : Coh s0) : s0.rule.isIn (gsum (sigs s0)) = false := by
  have h := hc.out
  change (Wat s0 s0.active.size).isIn = false at h
  rw [Wat_eq_WatS, WatS_isIn, List.take_of_length_le (by rw [sigs_length]; omega)] at h
  exact h

theorem recTail_lift (s0 : St α) (hc : Coh s0) (tol : α) (ht : s0.tolerance = tol) :
    ⦃fun s => ⌜SortedOK s0 s⌝⦄ (recTail : SM α Unit) ⦃safePost A fun _ s3 => Coh s3 ∧ s3.tolerance = tol⦄ := by
  intro s hs
  have hs' : SortedOK s0 s := hs
  have h := recTail_coh (A := A) s tol ⟨rfl, rfl, hs'.tol.trans ht, hs'.spans ▸ hc.live⟩ hs'.mz
    (by rw [hs'.rule]; exact hs'.k4) (by rw [hs'.rule, hs'.sum]; exact coh_k3 hc)
  exact h s rfl

theorem recoverFromError_coh_at (hNaN : NoNaN α ∨ mNaN ∈ A) (s0 : St α) (hc : Coh s0) (tol : α)
    (ht : s0.tolerance = tol) :
    ⦃fun s => ⌜Fr s0 s⌝⦄ (recoverFromError : SM α Unit)
    ⦃safePost A fun _ s3 => Coh s3 ∧ s3.tolerance = tol⦄ := by
  rw [recoverFromError_eq]
  have h2 := sortActiveEdges_coh (A := A) hNaN s0 hc.mz
  have h3 := recTail_lift (A := A) s0 hc tol ht
  mvcgen [mark, h2, h3]
  all_goals first
    | (intro _ h; exact h)
    | (rename_i h _; exact ⟨h.1, h.2.1, h.2.2.1, h.2.2.2⟩)

/-- `recover_from_error` re-establishes the coherence invariant (or ends in an allowed failure:
`Err(MergeVertexOutside)`, fuel, unmodelled sort, or the NaN-key panic of the sort) -/
theorem recoverFromError_coh (hNaN : NoNaN α ∨ mNaN ∈ A) (tol : α) :
    ⦃fun s => ⌜Coh s ∧ s.tolerance = tol⌝⦄ (recoverFromError : SM α Unit)
    ⦃safePost A fun _ s3 => Coh s3 ∧ s3.tolerance = tol⦄ := by
  intro s hs
  exact recoverFromError_coh_at hNaN s hs.1 tol hs.2 s ⟨rfl, rfl, rfl, rfl⟩

end Lyon.SweepCoh
