/-
  C06b, part 6: covering lemmas for one edge and one join, in terms of an abstract predicate `E` on
  position triples ("this triangle is emitted").

  * `trap_cov`: the two triangles of an edge quad whose corners are shifted along the edge by
    `hw·a0, hw·a1` (start) and `hw·b0, hw·b1` (end) cover the trapezoid between them.
  * `end_corner` / `start_corner`: the part of an edge's rectangle that lies beyond the trapezoid's end
    (start) line at a join is covered by the join triangle or by the neighbouring trapezoid.
-/
import LyonVerif.Lemmas.StrokeCoverGeo
import Mathlib.Tactic.Linarith
import Mathlib.Tactic.LinearCombination

set_option linter.unusedSectionVars false
set_option linter.unusedVariables false

namespace Lyon.C06b
open Lyon Scalar Lyon.StrokeQuad Lyon.Stroke Lyon.C06

variable {K : Type} [Field K] [LinearOrder K] [IsStrictOrderedRing K]

/-- `q` lies in a triangle that is emitted -/
def Cov (E : P K × P K × P K → Prop) (q : P K) : Prop := ∃ T, E T ∧ InTri q T

section
variable [Transc K]

/-- the edge quad between shifted side points covers the trapezoid between them (`x` measured along
the unit tangent `t` from `X`, `y` across in half widths) -/
theorem trap_cov (E : P K × P K × P K → Prop) (X Y t : P K) (L hw a0 a1 b0 b1 x y : K)
    (hL : 0 < L) (hd : Y - X = t.smul L)
    (hQ1 : E (X - (perp t).smul hw + t.smul (hw * a0), X + (perp t).smul hw + t.smul (hw * a1),
      Y + (perp t).smul hw + t.smul (hw * b1)))
    (hQ2 : E (X - (perp t).smul hw + t.smul (hw * a0), Y + (perp t).smul hw + t.smul (hw * b1),
      Y - (perp t).smul hw + t.smul (hw * b0)))
    (h0 : hw * a0 < L + hw * b0) (h1 : hw * a1 < L + hw * b1) (hy : -1 ≤ y) (hy1 : y ≤ 1)
    (hlo : hw * ((1 - y) * a0 + (1 + y) * a1) / 2 ≤ x)
    (hhi : x ≤ L + hw * ((1 - y) * b0 + (1 + y) * b1) / 2) :
    Cov E (X + t.smul x + (perp t).smul (hw * y)) := by
  have hLne : L ≠ 0 := ne_of_gt hL
  have hs : ∀ z : K, (Y - X).smul (z / L) = t.smul z := by
    intro z; rw [hd]; apply P.ext' <;> simp only [geom] <;> field_simp
  have h := quad_covers_core X Y ((perp t).smul hw) (hw * a0 / L) (hw * a1 / L) (hw * b0 / L) (hw * b1 / L) (x / L) y
    (by rw [div_lt_iff₀ hL]; have : (1 + hw * b0 / L) * L = L + hw * b0 := by field_simp
        rw [this]; exact h0)
    (by rw [div_lt_iff₀ hL]; have : (1 + hw * b1 / L) * L = L + hw * b1 := by field_simp
        rw [this]; exact h1) hy hy1
    (by rw [le_div_iff₀ hL]
        have : ((1 - y) * (hw * a0 / L) + (1 + y) * (hw * a1 / L)) / 2 * L = hw * ((1 - y) * a0 + (1 + y) * a1) / 2 := by
          field_simp
        rw [this]; exact hlo)
    (by rw [div_le_iff₀ hL]
        have : (1 + ((1 - y) * (hw * b0 / L) + (1 + y) * (hw * b1 / L)) / 2) * L
            = L + hw * ((1 - y) * b0 + (1 + y) * b1) / 2 := by field_simp
        rw [this]; exact hhi)
  simp only [edgeQuad, bandPoint, hs] at h
  have hp : X + t.smul x + ((perp t).smul hw).smul y = X + t.smul x + (perp t).smul (hw * y) := by
    apply P.ext' <;> simp only [geom] <;> ring
  rw [hp] at h
  rcases h with h | h
  · exact ⟨_, hQ1, h⟩
  · exact ⟨_, hQ2, h⟩

/-- `perp (t0·c + perp t0·s) = perp t0·c − t0·s` -/
theorem perp_rot (t0 : P K) (c s : K) : perp (t0.smul c + (perp t0).smul s) = (perp t0).smul c - t0.smul s := by
  apply P.ext' <;> simp only [perp, geom] <;> ring

/-- **the end of an edge at a join.**  `t0`, `t1` the tangents in and out of the join `j`,
`t1 = c·t0 + (ε·σ)·perp t0` with `ε = ±1` the side of the inside of the turn, `σ = τ(1+c) ≥ 0`; the outer corners
of the two trapezoids are shifted by `κ·τ` half widths beyond the join, `κ ∈ [0, 1]`: `κ = 0` bevel-shaped join,
`κ = 1` kept miter, `0 < κ < 1` clipped `MiterClip` join.  A point of the incoming edge's rectangle
(`x ≤ 0` half widths before the join, `y ∈ [−1, 1]` towards the inside) beyond the end line of its
trapezoid is covered, provided the join triangle (`κ < 1`) and the near part of the outgoing
trapezoid are. -/
theorem end_corner (E : P K × P K × P K → Prop) (j t0 t1 : P K) (hw ε c σ τ κ : K)
    (hε : ε * ε = 1) (hτ : σ = τ * (1 + c)) (hcs : c * c + σ * σ = 1) (hc : 0 < 1 + c) (hσ : 0 ≤ σ)
    (hκ : 0 ≤ κ ∧ κ ≤ 1) (hrot : t1 = t0.smul c + (perp t0).smul (ε * σ))
    (hJ : κ < 1 → ∀ q, InTri q (j - (perp t0).smul (ε * hw) + t0.smul (κ * τ * hw),
      j + (perp t0).smul (ε * hw) - t0.smul (τ * hw),
      j - (perp t1).smul (ε * hw) - t1.smul (κ * τ * hw)) → Cov E q)
    (hT1 : ∀ x' y', -1 ≤ y' → y' ≤ 1 → τ * ((1 + y') - κ * (1 - y')) / 2 ≤ x' → x' ≤ 1 + τ →
      Cov E (j + t1.smul (hw * x') + (perp t1).smul (ε * hw * y')))
    (x y : K) (hy : -1 ≤ y) (hy1 : y ≤ 1) (hx0 : x ≤ 0) (hx : -(τ * ((1 + y) - κ * (1 - y)) / 2) ≤ x) :
    Cov E (j + t0.smul (hw * x) + (perp t0).smul (ε * hw * y)) := by
  obtain ⟨_, hτ0, _, _⟩ := turn_facts c σ τ hτ hcs hc hσ
  have hq : j + t0.smul (hw * x) + (perp t0).smul (ε * hw * y) = aff j (t0.smul hw) ((perp t0).smul (ε * hw)) x y := by
    apply P.ext' <;> simp only [aff, geom] <;> ring
  have hf1 : (t0.smul hw).smul c + ((perp t0).smul (ε * hw)).smul σ = t1.smul hw := by
    rw [hrot]; apply P.ext' <;> simp only [geom] <;> ring
  have hf2 : ((perp t0).smul (ε * hw)).smul c - (t0.smul hw).smul σ = (perp t1).smul (ε * hw) := by
    rw [hrot, perp_rot]; apply P.ext' <;> simp only [perp, geom]
    · linear_combination (t0.x * σ * hw) * hε
    · linear_combination (t0.y * σ * hw) * hε
  have hout : ∀ x' y', aff j (t1.smul hw) ((perp t1).smul (ε * hw)) x' y'
      = j + t1.smul (hw * x') + (perp t1).smul (ε * hw * y') := by
    intro x' y'; apply P.ext' <;> simp only [aff, geom] <;> ring
  rw [hq]
  by_cases hk1 : κ = 1
  · -- kept miter
    subst hk1
    have hx' : -τ * y ≤ x := by
      have : -(τ * ((1 + y) - 1 * (1 - y)) / 2) = -τ * y := by ring
      rw [← this]; exact hx
    obtain ⟨b1, b2, b3, b4⟩ := corner_miter c σ τ x y hτ hcs hc hσ hy hy1 hx' hx0
    rw [aff_rot j _ _ c σ x y hcs, hf1, hf2, hout]
    refine hT1 _ _ b1 b2 ?_ b4
    have : τ * ((1 + (c * y - σ * x)) - 1 * (1 - (c * y - σ * x))) / 2 = (c * y - σ * x) * τ := by ring
    rw [this]; exact b3
  · have hklt : κ < 1 := lt_of_le_of_ne hκ.2 hk1
    rcases eq_or_lt_of_le hτ0 with hz | hpos
    · -- no turn: the region is the end segment itself
      have hτz : τ = 0 := hz.symm
      have hσz : σ = 0 := by rw [hτ, hτz]; ring
      have hx2 : -τ * (1 + y) / 2 ≤ x := by rw [hτz]; rw [hτz] at hx; simpa using hx
      obtain ⟨b1, b2, b3⟩ := corner_band c σ τ x y hτ hcs hc hσ hy hy1 hx2 hx0
      rw [aff_rot j _ _ c σ x y hcs, hf1, hf2, hout]
      refine hT1 _ _ b1 b2 ?_ b3
      have hxz : x = 0 := by
        rw [hτz] at hx; have : 0 ≤ x := by simpa using hx
        linarith
      rw [hτz, hσz, hxz]; simp
    · have hl1 : κ * τ < τ := by nlinarith
      have hl0 : 0 ≤ κ * τ := mul_nonneg hκ.1 hτ0
      have hx' : -((τ * (1 + y) - κ * τ * (1 - y)) / 2) ≤ x := by
        have : -((τ * (1 + y) - κ * τ * (1 - y)) / 2) = -(τ * ((1 + y) - κ * (1 - y)) / 2) := by ring
        rw [this]; exact hx
      rcases corner_clip j (t0.smul hw) ((perp t0).smul (ε * hw)) c σ τ (κ * τ) x y hτ hcs hc hσ hl0 hl1 hy hy1 hx' hx0
        with h | h
      · apply hJ hklt
        have e1 : aff j (t0.smul hw) ((perp t0).smul (ε * hw)) (κ * τ) (-1)
            = j - (perp t0).smul (ε * hw) + t0.smul (κ * τ * hw) := by
          apply P.ext' <;> simp only [aff, geom] <;> ring
        have e2 : aff j (t0.smul hw) ((perp t0).smul (ε * hw)) (-τ) 1
            = j + (perp t0).smul (ε * hw) - t0.smul (τ * hw) := by
          apply P.ext' <;> simp only [aff, geom] <;> ring
        have e3 : aff j (t0.smul hw) ((perp t0).smul (ε * hw)) (σ - κ * τ * c) (-c - κ * τ * σ)
            = j - (perp t1).smul (ε * hw) - t1.smul (κ * τ * hw) := by
          rw [← hf2, show t1.smul (κ * τ * hw) = (t1.smul hw).smul (κ * τ) by
            apply P.ext' <;> simp only [geom] <;> ring, ← hf1]
          apply P.ext' <;> simp only [aff, geom] <;> ring
        rw [e1, e2, e3] at h; exact h
      · obtain ⟨b1, b2, b3, b4⟩ := h
        rw [aff_rot j _ _ c σ x y hcs, hf1, hf2, hout]
        refine hT1 _ _ b1 b2 ?_ b4
        have : τ * ((1 + (c * y - σ * x)) - κ * (1 - (c * y - σ * x))) / 2
            = (τ * (1 + (c * y - σ * x)) - κ * τ * (1 - (c * y - σ * x))) / 2 := by ring
        rw [this]; exact b3

/-- **the start of an edge at a join** (the mirror image of `end_corner`): a point of the outgoing
edge's rectangle (`x ≥ 0` half widths after the join) before the start line of its trapezoid is covered,
provided the join triangle and the far part of the incoming trapezoid are. -/
theorem start_corner (E : P K × P K × P K → Prop) (j t0 t1 : P K) (hw ε c σ τ κ : K)
    (hε : ε * ε = 1) (hτ : σ = τ * (1 + c)) (hcs : c * c + σ * σ = 1) (hc : 0 < 1 + c) (hσ : 0 ≤ σ)
    (hκ : 0 ≤ κ ∧ κ ≤ 1) (hrot : t1 = t0.smul c + (perp t0).smul (ε * σ))
    (hJ : κ < 1 → ∀ q, InTri q (j - (perp t0).smul (ε * hw) + t0.smul (κ * τ * hw),
      j + (perp t0).smul (ε * hw) - t0.smul (τ * hw),
      j - (perp t1).smul (ε * hw) - t1.smul (κ * τ * hw)) → Cov E q)
    (hT0 : ∀ x' y', -1 ≤ y' → y' ≤ 1 → τ * ((1 + y') - κ * (1 - y')) / 2 ≤ x' → x' ≤ 1 + τ →
      Cov E (j - t0.smul (hw * x') + (perp t0).smul (ε * hw * y')))
    (x y : K) (hy : -1 ≤ y) (hy1 : y ≤ 1) (hx0 : 0 ≤ x) (hx : x ≤ τ * ((1 + y) - κ * (1 - y)) / 2) :
    Cov E (j + t1.smul (hw * x) + (perp t1).smul (ε * hw * y)) := by
  obtain ⟨_, _, hst, _⟩ := turn_facts c σ τ hτ hcs hc hσ
  have hrot' : -t0 = (-t1).smul c + (perp (-t1)).smul (-ε * σ) := by
    rw [hrot]; apply P.ext' <;> simp only [perp, geom]
    · linear_combination t0.x * hcs + (t0.x * σ * σ) * hε
    · linear_combination t0.y * hcs + (t0.y * σ * σ) * hε
  have hpt : j + (-t1).smul (hw * -x) + (perp (-t1)).smul (-ε * hw * y)
      = j + t1.smul (hw * x) + (perp t1).smul (ε * hw * y) := by
    apply P.ext' <;> simp only [perp, geom] <;> ring
  rw [← hpt]
  refine end_corner E j (-t1) (-t0) hw (-ε) c σ τ κ (by linear_combination hε) hτ hcs hc hσ hκ hrot' ?_ ?_
    (-x) y hy hy1 (by linarith) (by linarith)
  · intro hk q hq
    apply hJ hk
    have e1 : j - (perp (-t1)).smul (-ε * hw) + (-t1).smul (κ * τ * hw) = j - (perp t1).smul (ε * hw) - t1.smul (κ * τ * hw) := by
      apply P.ext' <;> simp only [perp, geom] <;> ring
    have e2 : j + (perp (-t1)).smul (-ε * hw) - (-t1).smul (τ * hw)
        = j + (perp t0).smul (ε * hw) - t0.smul (τ * hw) := by
      rw [hrot]; apply P.ext' <;> simp only [perp, geom]
      · linear_combination (-(t0.y) * ε * hw) * hst + (-(t0.x * hw)) * hτ + (-(t0.x * σ * hw)) * hε
      · linear_combination (t0.x * ε * hw) * hst + (-(t0.y * hw)) * hτ + (-(t0.y * σ * hw)) * hε
    have e3 : j - (perp (-t0)).smul (-ε * hw) - (-t0).smul (κ * τ * hw) = j - (perp t0).smul (ε * hw) + t0.smul (κ * τ * hw) := by
      apply P.ext' <;> simp only [perp, geom] <;> ring
    rw [e1, e2, e3] at hq
    exact inTri_swap hq
  · intro x' y' h1 h2 h3 h4
    have : j + (-t0).smul (hw * x') + (perp (-t0)).smul (-ε * hw * y')
        = j - t0.smul (hw * x') + (perp t0).smul (ε * hw * y') := by
      apply P.ext' <;> simp only [perp, geom] <;> ring
    rw [this]; exact hT0 x' y' h1 h2 h3 h4

end

end Lyon.C06b
