/-
  C02 growth (`Props/C02c.lean`), part 6: the stack invariant `VInv` of the basic monotone
  tessellator (preserved by every step on every input) and, on valid sweep sequences, the
  consequence that no fan triangle is ever flipped (`valid_noFlip`, `feed_noFlipRun`).
  See the header of `Lemmas/MonotoneGeomValid.lean`.
-/
import LyonVerif.Lemmas.MonotoneGeomValid

set_option linter.unusedSectionVars false
set_option linter.unusedVariables false
set_option linter.unusedSimpArgs false

namespace Lyon.C02c
open Lyon Lyon.Mono Lyon.C02

section Geometry
variable {K : Type} [Field K] [LinearOrder K] [IsStrictOrderedRing K]

/-- a failed ear test is a STRICT reflex turn on the current side -/
theorem earConvex_false (cur lp top : MV K) (h : earConvex cur lp top = false) :
    sg cur.left * wind top.pos lp.pos cur.pos < 0 := by
  unfold earConvex at h
  unfold sg
  cases hl : cur.left
  · simp only [hl, Bool.false_eq_true, if_false, decide_eq_false_iff_not, not_le] at h ⊢
    have e : wind top.pos lp.pos cur.pos = -((cur.pos - lp.pos).cross (top.pos - lp.pos)) := by
      simp only [wind]; geom_ring
    rw [e]
    have h' : (cur.pos - lp.pos).cross (top.pos - lp.pos) < 0 := by simpa [geom] using h
    linarith
  · simp only [hl, if_true, decide_eq_false_iff_not, not_le, one_mul] at h ⊢
    have e : wind top.pos lp.pos cur.pos = (cur.pos - top.pos).cross (lp.pos - top.pos) := by
      simp only [wind]; geom_ring
    rw [e]
    simpa [geom] using h

theorem popLoop_suffix (cur lp : MV K) (st : List (MV K)) : (popLoop cur lp st).1 <:+ lp :: st := by
  induction st generalizing lp with
  | nil => simp [popLoop]
  | cons top rest ih =>
    simp only [popLoop]
    split
    · exact (ih top).trans (List.suffix_cons _ _)
    · exact List.suffix_refl _

theorem popLoop_reflex (cur lp : MV K) (st : List (MV K))
    (h : ReflexT cur.left (lp.pos :: st.map (·.pos))) :
    ReflexT cur.left (cur.pos :: (popLoop cur lp st).1.map (·.pos)) := by
  induction st generalizing lp with
  | nil => simp [popLoop, ReflexT]
  | cons top rest ih =>
    simp only [popLoop]
    split
    · exact ih top h.tail
    · rename_i hconv
      have hf : earConvex cur lp top = false := by simpa using hconv
      exact ⟨earConvex_false cur lp top hf, h⟩

theorem pairwise_last (l : List (MV K)) (b : MV K) (h : l.Pairwise (fun a b => b.id < a.id))
    (hl : l.getLast? = some b) : ∀ a ∈ l, a.id = b.id ∨ b.id < a.id := by
  induction l with
  | nil => intro a ha; cases ha
  | cons x r ih =>
    cases r with
    | nil =>
      intro a ha
      simp only [List.getLast?_singleton, Option.some.injEq] at hl
      simp only [List.mem_singleton] at ha
      left; rw [ha, hl]
    | cons y r' =>
      rw [List.getLast?_cons_cons] at hl
      intro a ha
      rcases List.mem_cons.mp ha with e | e
      · right; rw [e]
        exact List.rel_of_pairwise_cons h (List.mem_of_getLast? hl)
      · exact ih (List.Pairwise.of_cons h) hl a e

/-- the stack invariant (`k` = number of vertices fed = id of the next one) -/
structure VInv (seq : List (P K × Bool)) (s : Basic K) (k : Nat) : Prop where
  top : ∃ rest, s.stack = s.previous :: rest
  good : ∀ v ∈ s.stack, Good (posOf seq) v
  dec : s.stack.Pairwise (fun a b => b.id < a.id)
  lt : ∀ v ∈ s.stack, v.id < k
  prevId : s.previous.id + 1 = k
  prevSide : s.previous.id = 0 ∨ sideAt seq s.previous.id = s.previous.left
  run : ∀ bot, s.stack.getLast? = some bot →
    (∀ j, j < k → bot.id < j → sideAt seq j = s.previous.left) ∧
      (bot.id = 0 ∨ sideAt seq bot.id = !s.previous.left)
  reflex : ReflexT s.previous.left (s.stack.map (·.pos))

theorem begin_vInv (seq : List (P K × Bool)) (p0 : P K) (h0 : posOf seq 0 = p0) :
    VInv seq (Basic.begin p0 0) 1 := by
  refine ⟨⟨[], rfl⟩, ?_, ?_, ?_, rfl, Or.inl rfl, ?_, ?_⟩
  · intro v hv
    simp only [Basic.begin, List.mem_singleton] at hv
    subst hv; exact h0.symm
  · simp [Basic.begin]
  · intro v hv
    simp only [Basic.begin, List.mem_singleton] at hv
    subst hv; exact Nat.zero_lt_one
  · intro bot hb
    simp only [Basic.begin, List.getLast?_singleton, Option.some.injEq] at hb
    subst hb
    exact ⟨fun j h1 h2 => by simp only at h2; omega, Or.inl rfl⟩
  · simp [Basic.begin, ReflexT]

theorem vertex_vInv (seq : List (P K × Bool)) (s : Basic K) (k : Nat) (cur : MV K) (h : VInv seq s k)
    (hid : cur.id = k) (hpos : Good (posOf seq) cur) (hsd : sideAt seq k = cur.left) :
    VInv seq (s.vertex cur) (k + 1) := by
  obtain ⟨rest, hst⟩ := h.top
  have hprevmem : s.previous ∈ s.stack := by rw [hst]; simp
  by_cases hside : cur.left = s.previous.left
  · have hne : (cur.left != s.previous.left) = false := by rw [hside]; cases s.previous.left <;> rfl
    have hv : s.vertex cur = ⟨cur :: (popLoop cur s.previous rest).1, cur, s.tris ++ (popLoop cur s.previous rest).2⟩ := by
      simp only [Basic.vertex, hne, Bool.false_eq_true, if_false, hst]
    have hsuf : (popLoop cur s.previous rest).1 <:+ s.stack := hst ▸ popLoop_suffix cur s.previous rest
    have hnn := popLoop_nonempty cur s.previous rest
    have hgl := popLoop_getLast cur s.previous rest
    rw [hv]
    refine ⟨⟨_, rfl⟩, ?_, ?_, ?_, by simp [hid], Or.inr (by simp only [hid]; exact hsd), ?_, ?_⟩
    · intro v hv'
      rcases List.mem_cons.mp hv' with e | e
      · exact e ▸ hpos
      · exact h.good v (hsuf.subset e)
    · refine List.Pairwise.cons ?_ (h.dec.sublist hsuf.sublist)
      intro a ha
      have := h.lt a (hsuf.subset ha)
      omega
    · intro v hv'
      rcases List.mem_cons.mp hv' with e | e
      · rw [e, hid]; omega
      · have := h.lt v (hsuf.subset e); omega
    · intro bot hb
      simp only at hb ⊢
      rw [List.getLast?_cons_of_ne_nil hnn, hgl, ← hst] at hb
      obtain ⟨r1, r2⟩ := h.run bot hb
      rw [hside]
      refine ⟨?_, r2⟩
      intro j hj1 hj2
      by_cases e : j = k
      · rw [e, hsd, hside]
      · exact r1 j (by omega) hj2
    · simp only [List.map_cons]
      apply popLoop_reflex
      have := h.reflex
      rw [hst] at this
      rw [hside]; exact this
  · have hne : (cur.left != s.previous.left) = true := by
      revert hside; cases cur.left <;> cases s.previous.left <;> simp
    have hopp : s.previous.left = !cur.left := by
      revert hside; cases cur.left <;> cases s.previous.left <;> simp
    have hv : s.vertex cur = ⟨[cur, s.previous], cur, s.tris ++ fanTris cur s.stack.reverse⟩ := by
      simp only [Basic.vertex, hne, if_true]
    have hpid := h.prevId
    rw [hv]
    refine ⟨⟨_, rfl⟩, ?_, ?_, ?_, by simp [hid], Or.inr (by simp only [hid]; exact hsd), ?_, by simp [ReflexT]⟩
    · intro v hv'
      simp only [List.mem_cons, List.not_mem_nil, or_false] at hv'
      rcases hv' with e | e
      · exact e ▸ hpos
      · exact e ▸ h.good _ hprevmem
    · simp only [List.pairwise_cons, List.mem_singleton, forall_eq, List.not_mem_nil, false_imp_iff,
        implies_true, List.Pairwise.nil, and_true]
      omega
    · intro v hv'
      simp only [List.mem_cons, List.not_mem_nil, or_false] at hv'
      rcases hv' with e | e <;> rw [e] <;> omega
    · intro bot hb
      simp only [List.getLast?_cons_cons, List.getLast?_singleton, Option.some.injEq] at hb
      subst hb
      simp only
      refine ⟨?_, ?_⟩
      · intro j hj1 hj2
        have : j = k := by omega
        rw [this, hsd]
      · rcases h.prevSide with e | e
        · exact Or.inl e
        · right; rw [e, hopp]

/-- **no flip on valid sequences**: when the side changes, every fan pair is strictly positive in
the order determined by the stack's side; hence lyon's winding test never swaps -/
theorem valid_noFlip (seq : List (P K × Bool)) (s : Basic K) (k : Nat) (cur : MV K) (hval : SweepValid seq)
    (h : VInv seq s k) (hk : k < seq.length) (hid : cur.id = k) (hpos : Good (posOf seq) cur)
    (hsd : k + 1 = seq.length ∨ sideAt seq k = cur.left) :
    NoFlip s cur ∧ (cur.left ≠ s.previous.left → FanPosT s.previous.left cur.pos (s.stack.map (·.pos))) := by
  by_cases hside : cur.left = s.previous.left
  · exact ⟨Or.inl hside, fun hn => absurd hside hn⟩
  · have hopp : cur.left = !s.previous.left := by
      revert hside; cases cur.left <;> cases s.previous.left <;> simp
    obtain ⟨rest, hst⟩ := h.top
    have hne : s.stack ≠ [] := by rw [hst]; simp
    have hb : s.stack.getLast? = some (s.stack.getLast hne) := List.getLast?_eq_some_getLast hne
    generalize s.stack.getLast hne = bot at hb
    have hbmem : bot ∈ s.stack := List.mem_of_getLast? hb
    obtain ⟨r1, r2⟩ := h.run bot hb
    have hrun : RunBetween seq s.previous.left bot.id k :=
      ⟨r1, r2, hsd.imp id (fun e => by rw [e, hopp])⟩
    have hV := hval.2 k hk bot.id (h.lt bot hbmem) s.previous.left hrun
    have hcp : cur.pos = posOf seq k := by rw [← hid]; exact hpos
    have hfp : FanPosT s.previous.left cur.pos (s.stack.map (·.pos)) := by
      apply fanPos s.previous.left cur.pos bot.pos
      · rw [List.getLast?_map, hb]; rfl
      · intro y hy
        obtain ⟨v, hv, rfl⟩ := List.mem_map.mp hy
        rcases pairwise_last s.stack bot h.dec hb v hv with e | e
        · left
          show v.pos = bot.pos
          rw [h.good v hv, h.good bot hbmem, e]
        · right
          have := (onSide_iff _ _ _ _).mp (hV v.id (h.lt v hv) e)
          rw [h.good bot hbmem, h.good v hv, hcp]
          exact this
      · rw [List.pairwise_map]
        refine h.dec.imp_of_mem ?_
        intro a b ha hb' hlt
        rw [h.good a ha, h.good b hb']
        exact valid_after hval hlt (by have := h.lt a ha; omega)
      · intro y hy
        obtain ⟨v, hv, rfl⟩ := List.mem_map.mp hy
        show After cur.pos v.pos
        rw [h.good v hv, hcp]
        exact valid_after hval (h.lt v hv) hk
      · exact h.reflex
    refine ⟨Or.inr ?_, fun _ => hfp⟩
    rw [List.map_reverse]
    exact fanPosT_canon _ _ _ hfp

/-- a whole run on a valid sequence flips nothing -/
theorem feed_noFlipRun (seq : List (P K × Bool)) (hval : SweepValid seq) (vs : List (P K × Bool)) (s : Basic K)
    (k : Nat) (hvs : ∀ i (h : i < vs.length), seq[k + i]? = some vs[i]) (hk : k + vs.length + 1 = seq.length)
    (h : VInv seq s k) : NoFlipRun s k vs (posOf seq (k + vs.length)) (k + vs.length) := by
  induction vs generalizing s k with
  | nil =>
    simp only [NoFlipRun, List.length_nil, Nat.add_zero]
    simp only [List.length_nil, Nat.add_zero] at hk
    exact (valid_noFlip seq s k ⟨posOf seq k, k, !s.previous.left⟩ hval h (by omega) rfl (show Good (posOf seq) (⟨posOf seq k, k, !s.previous.left⟩ : MV K) from rfl) (Or.inl hk)).1
  | cons v r ih =>
    obtain ⟨p, l⟩ := v
    simp only [List.length_cons] at hk
    have h0 := hvs 0 (by simp)
    simp only [Nat.add_zero, List.getElem_cons_zero] at h0
    have hp : posOf seq k = p := by simp [posOf, h0]
    have hl : sideAt seq k = l := by simp [sideAt, h0]
    have hgood : Good (posOf seq) (⟨p, k, l⟩ : MV K) := hp.symm
    simp only [NoFlipRun, List.length_cons]
    refine ⟨(valid_noFlip seq s k _ hval h (by omega) rfl hgood (Or.inr hl)).1, ?_⟩
    have := ih (s.vertex ⟨p, k, l⟩) (k + 1) (by
      intro i hi
      have := hvs (i + 1) (by simp only [List.length_cons]; omega)
      simp only [List.getElem_cons_succ] at this
      rw [← this]; congr 1; omega) (by omega) (vertex_vInv seq s k _ h rfl hgood hl)
    rw [show k + (r.length + 1) = k + 1 + r.length by omega]
    exact this

end Geometry

end Lyon.C02c
