/-
  C16 helper lemmas for the stored route: `Path::apply_transform` (an `IdIter` walk writing
  through `points[id]`, `Model/Path/Adapters.lean`) evaluated on exactly the storage a builder
  program produces (`emitPts` / `emitVerbs` of the C14 lemmas), and `Iter` over the result.
  Mathlib-free.
-/
import LyonVerif.Model.Path.Adapters
import LyonVerif.Lemmas.Adapters
import LyonVerif.Lemmas.PathViews

namespace Lyon.Adapt
open Lyon Lyon.Path

variable {S : Type} [Inhabited S]
set_option linter.unusedSectionVars false
set_option linter.unusedVariables false
set_option linter.unusedSimpArgs false

/-- what the storage holds after `apply_transform`: every position slot written by a
`begin / line_to / quadratic_bezier_to / cubic_bezier_to` is transformed; the copy of the first
point that `end(true)` stores (and the attribute slots) are NOT — `IdEvent::End` is skipped by
`apply_transform`.  (`f`, `fa` = the builder's `first`, `first_attributes`, untransformed.) -/
def emitPtsT (g : Pt S → Pt S) : Pt S → List S → Prog S → List (Pt S)
  | _, _, [] => []
  | _, _, .begin p a :: r => endpointPts (g p) a ++ emitPtsT g p a r
  | f, fa, .line p a :: r => endpointPts (g p) a ++ emitPtsT g f fa r
  | f, fa, .quad c p a :: r => g c :: (endpointPts (g p) a ++ emitPtsT g f fa r)
  | f, fa, .cubic c1 c2 p a :: r => g c1 :: g c2 :: (endpointPts (g p) a ++ emitPtsT g f fa r)
  | f, fa, .end_ true :: r => endpointPts f fa ++ emitPtsT g f fa r
  | f, fa, .end_ false :: r => emitPtsT g f fa r

theorem modify_at_length (g : Pt S → Pt S) (pre : List (Pt S)) (x : Pt S) (r : List (Pt S)) :
    applyAt g (pre ++ x :: r) pre.length = pre ++ g x :: r := by
  induction pre with
  | nil => simp [applyAt]
  | cons a t ih => simpa [applyAt] using ih

theorem modify_at_length' (g : Pt S → Pt S) (pre : List (Pt S)) (x : Pt S) (r : List (Pt S))
    (i : Nat) (h : i = pre.length) : applyAt g (pre ++ x :: r) i = pre ++ g x :: r := by
  subst h; exact modify_at_length g pre x r

/-- `apply_transform` on the storage of a program: the `IdIter` walk writes exactly the
position slots (`emitPtsT`), whatever precedes and follows the program's storage. -/
theorem applyGo_emit (g : Pt S → Pt S) (n : Nat) (prog : Prog S) (inSub : Bool) (f : Pt S)
    (fa : List S) (pre post : List (Pt S)) (cur first : Nat)
    (hn : wellNestedFrom inSub prog = true) (ha : attrsOk n prog = true) (hfa : fa.length = n)
    (hidx : if inSub then cur + (attribStride n + 1) = pre.length else cur = pre.length) :
    (idIterGo (attribStride n + 1) (emitVerbs prog) cur first).foldl (applyEvent g)
        (pre ++ (emitPts f fa prog ++ post))
      = pre ++ (emitPtsT g f fa prog ++ post) := by
  induction prog generalizing inSub f fa pre cur first with
  | nil => simp [emitVerbs, idIterGo, emitPts, emitPtsT]
  | cons c r ih =>
    cases inSub with
    | false =>
      simp only [Bool.false_eq_true, if_false] at hidx
      cases c with
      | begin p a =>
        simp only [attrsOk, Bool.and_eq_true, beq_iff_eq] at ha
        have hlen : (pre ++ endpointPts (g p) a).length = cur + (attribStride n + 1) := by
          simp [endpointPts_length, ha.1, hidx]
        have := ih true p a (pre ++ endpointPts (g p) a) cur cur
          (by simpa [wellNestedFrom] using hn) ha.2 ha.1 (by simp [hlen])
        simp only [emitVerbs, idIterGo, List.foldl_cons, applyEvent, emitPts, emitPtsT, endpointPts,
          List.cons_append, modify_at_length' g pre p _ cur hidx]
        simpa [endpointPts, List.append_assoc] using this
      | line p a => simp [wellNestedFrom] at hn
      | quad k p a => simp [wellNestedFrom] at hn
      | cubic k1 k2 p a => simp [wellNestedFrom] at hn
      | end_ cl => simp [wellNestedFrom] at hn
    | true =>
      simp only [if_true] at hidx
      cases c with
      | begin p a => simp [wellNestedFrom] at hn
      | line p a =>
        simp only [attrsOk, Bool.and_eq_true, beq_iff_eq] at ha
        have hlen : (pre ++ endpointPts (g p) a).length
            = (cur + (attribStride n + 1)) + (attribStride n + 1) := by
          simp [endpointPts_length, ha.1, hidx]
        have := ih true f fa (pre ++ endpointPts (g p) a) (cur + (attribStride n + 1)) first
          (by simpa [wellNestedFrom] using hn) ha.2 hfa (by simp [hlen])
        simp only [emitVerbs, idIterGo, List.foldl_cons, applyEvent, emitPts, emitPtsT, endpointPts,
          List.cons_append, modify_at_length' g pre p _ _ hidx]
        simpa [endpointPts, List.append_assoc] using this
      | quad k p a =>
        simp only [attrsOk, Bool.and_eq_true, beq_iff_eq] at ha
        have hlen : (pre ++ g k :: endpointPts (g p) a).length
            = (cur + (attribStride n + 1) + 1) + (attribStride n + 1) := by
          simp [endpointPts_length, ha.1]; omega
        have := ih true f fa (pre ++ g k :: endpointPts (g p) a) (cur + (attribStride n + 1) + 1) first
          (by simpa [wellNestedFrom] using hn) ha.2 hfa (by simp [hlen])
        have h2 : applyAt g (pre ++ g k :: p :: (packAttrs a ++ (emitPts f fa r ++ post)))
            (cur + (attribStride n + 1) + 1)
            = (pre ++ [g k]) ++ g p :: (packAttrs a ++ (emitPts f fa r ++ post)) := by
          have := modify_at_length' g (pre ++ [g k]) p (packAttrs a ++ (emitPts f fa r ++ post))
            (cur + (attribStride n + 1) + 1) (by simp [hidx])
          simpa [List.append_assoc] using this
        simp only [emitVerbs, idIterGo, List.foldl_cons, applyEvent, emitPts, emitPtsT, endpointPts,
          List.cons_append, List.append_assoc, modify_at_length' g pre k _ _ hidx]
        rw [h2]
        simpa [endpointPts, List.append_assoc] using this
      | cubic k1 k2 p a =>
        simp only [attrsOk, Bool.and_eq_true, beq_iff_eq] at ha
        have hlen : (pre ++ g k1 :: g k2 :: endpointPts (g p) a).length
            = (cur + (attribStride n + 1) + 2) + (attribStride n + 1) := by
          simp [endpointPts_length, ha.1]; omega
        have := ih true f fa (pre ++ g k1 :: g k2 :: endpointPts (g p) a)
          (cur + (attribStride n + 1) + 2) first
          (by simpa [wellNestedFrom] using hn) ha.2 hfa (by simp [hlen])
        have h2 : applyAt g (pre ++ g k1 :: k2 :: p :: (packAttrs a ++ (emitPts f fa r ++ post)))
            (cur + (attribStride n + 1) + 1)
            = (pre ++ [g k1]) ++ g k2 :: p :: (packAttrs a ++ (emitPts f fa r ++ post)) := by
          have := modify_at_length' g (pre ++ [g k1]) k2 (p :: (packAttrs a ++ (emitPts f fa r ++ post)))
            (cur + (attribStride n + 1) + 1) (by simp [hidx])
          simpa [List.append_assoc] using this
        have h3 : applyAt g ((pre ++ [g k1]) ++ g k2 :: p :: (packAttrs a ++ (emitPts f fa r ++ post)))
            (cur + (attribStride n + 1) + 2)
            = (pre ++ [g k1, g k2]) ++ g p :: (packAttrs a ++ (emitPts f fa r ++ post)) := by
          have := modify_at_length' g (pre ++ [g k1, g k2]) p (packAttrs a ++ (emitPts f fa r ++ post))
            (cur + (attribStride n + 1) + 2) (by simp [hidx])
          simpa [List.append_assoc] using this
        simp only [emitVerbs, idIterGo, List.foldl_cons, applyEvent, emitPts, emitPtsT, endpointPts,
          List.cons_append, List.append_assoc, modify_at_length' g pre k1 _ _ hidx]
        rw [h2, h3]
        simpa [endpointPts, List.append_assoc] using this
      | end_ cl =>
        simp only [attrsOk] at ha
        cases cl with
        | true =>
          have hlen : (pre ++ endpointPts f fa).length = cur + (attribStride n + 1) * 2 := by
            simp [endpointPts_length, hfa]; omega
          have := ih false f fa (pre ++ endpointPts f fa) (cur + (attribStride n + 1) * 2) first
            (by simpa [wellNestedFrom] using hn) ha hfa (by simp [hlen])
          simp only [emitVerbs, idIterGo, List.foldl_cons, applyEvent, emitPts, emitPtsT]
          simpa [List.append_assoc] using this
        | false =>
          have := ih false f fa pre (cur + (attribStride n + 1)) first
            (by simpa [wellNestedFrom] using hn) ha hfa (by simp [hidx])
          simp only [emitVerbs, idIterGo, List.foldl_cons, applyEvent, emitPts, emitPtsT]
          simpa using this

/-- `Iter` over the transformed storage yields the events of the transformed program. -/
theorem iterGo_emitT (g : Pt S → Pt S) (n : Nat) (prog : Prog S) (st : Option (Pt S × Pt S))
    (f : Pt S) (fa : List S) (cur first : Pt S) (vs' : List Verb) (pts' : List (Pt S))
    (hn : wellNestedFrom st.isSome prog = true) (ha : attrsOk n prog = true) (hfa : fa.length = n)
    (hst : ∀ f0 c0, st = some (f0, c0) → f = f0 ∧ first = g f0 ∧ cur = g c0) :
    ∃ c' f', iterGo (attribStride n) (emitVerbs prog ++ vs') (emitPtsT g f fa prog ++ pts') cur first
      = (iterGo (attribStride n) vs' pts' c' f').map
          ((specFrom st prog).map (mapEvent g) ++ ·) := by
  induction prog generalizing st f fa cur first with
  | nil => exact ⟨cur, first, by cases st <;> simp [emitVerbs, emitPtsT, specFrom]⟩
  | cons c r ih =>
    cases st with
    | none =>
      cases c with
      | begin p a =>
        simp only [attrsOk, Bool.and_eq_true, beq_iff_eq] at ha
        obtain ⟨c', f', h⟩ := ih (some (p, p)) p a (g p) (g p) (by simpa [wellNestedFrom] using hn)
          ha.2 ha.1 (by intro f0 c0 h; cases h; exact ⟨rfl, rfl, rfl⟩)
        refine ⟨c', f', ?_⟩
        simp only [emitVerbs, emitPtsT, List.cons_append, List.append_assoc, iterGo,
          popSkip_endpoint n (g p) a _ ha.1, Option.bind_some, h, Option.map_map, specFrom,
          List.map_cons, mapEvent]
        rfl
      | line p a => simp [wellNestedFrom] at hn
      | quad c p a => simp [wellNestedFrom] at hn
      | cubic c1 c2 p a => simp [wellNestedFrom] at hn
      | end_ cl => simp [wellNestedFrom] at hn
    | some fc =>
      obtain ⟨f0, c0⟩ := fc
      obtain ⟨rfl, rfl, rfl⟩ := hst f0 c0 rfl
      cases c with
      | begin p a => simp [wellNestedFrom] at hn
      | line p a =>
        simp only [attrsOk, Bool.and_eq_true, beq_iff_eq] at ha
        obtain ⟨c', f', h⟩ := ih (some (f, p)) f fa (g p) (g f) (by simpa [wellNestedFrom] using hn)
          ha.2 hfa (by intro f0 c0 h; cases h; exact ⟨rfl, rfl, rfl⟩)
        refine ⟨c', f', ?_⟩
        simp only [emitVerbs, emitPtsT, List.cons_append, List.append_assoc, iterGo,
          popSkip_endpoint n (g p) a _ ha.1, Option.bind_some, h, Option.map_map, specFrom,
          List.map_cons, mapEvent]
        rfl
      | quad k p a =>
        simp only [attrsOk, Bool.and_eq_true, beq_iff_eq] at ha
        obtain ⟨c', f', h⟩ := ih (some (f, p)) f fa (g p) (g f) (by simpa [wellNestedFrom] using hn)
          ha.2 hfa (by intro f0 c0 h; cases h; exact ⟨rfl, rfl, rfl⟩)
        refine ⟨c', f', ?_⟩
        simp only [emitVerbs, emitPtsT, List.cons_append, List.append_assoc, iterGo, popPt,
          popSkip_endpoint n (g p) a _ ha.1, Option.bind_some, h, Option.map_map, specFrom,
          List.map_cons, mapEvent]
        rfl
      | cubic k1 k2 p a =>
        simp only [attrsOk, Bool.and_eq_true, beq_iff_eq] at ha
        obtain ⟨c', f', h⟩ := ih (some (f, p)) f fa (g p) (g f) (by simpa [wellNestedFrom] using hn)
          ha.2 hfa (by intro f0 c0 h; cases h; exact ⟨rfl, rfl, rfl⟩)
        refine ⟨c', f', ?_⟩
        simp only [emitVerbs, emitPtsT, List.cons_append, List.append_assoc, iterGo, popPt,
          popSkip_endpoint n (g p) a _ ha.1, Option.bind_some, h, Option.map_map, specFrom,
          List.map_cons, mapEvent]
        rfl
      | end_ cl =>
        simp only [attrsOk] at ha
        cases cl with
        | true =>
          obtain ⟨c', f', h⟩ := ih none f fa (g c0) (g f) (by simpa [wellNestedFrom] using hn) ha hfa
            (by intro f0 c0 h; cases h)
          refine ⟨c', f', ?_⟩
          simp only [emitVerbs, emitPtsT, List.cons_append, List.append_assoc, iterGo,
            popSkip_endpoint n f fa _ hfa, Option.bind_some, h, Option.map_map, specFrom,
            List.map_cons, mapEvent]
          rfl
        | false =>
          obtain ⟨c', f', h⟩ := ih none f fa (g f) (g f) (by simpa [wellNestedFrom] using hn) ha hfa
            (by intro f0 c0 h; cases h)
          refine ⟨c', f', ?_⟩
          simp only [emitVerbs, emitPtsT, List.cons_append, List.append_assoc, iterGo,
            Option.bind_some, h, Option.map_map, specFrom, List.map_cons, mapEvent]
          rfl

/-- `path.transformed(g).iter()` on the path stored from a valid program = the transformed
events of the program; no read outside the storage. -/
theorem stored_transform_iter (g : Pt S → Pt S) (n : Nat) (prog : Prog S)
    (hn : WellNested prog) (ha : attrsOk n prog = true) :
    (applyTransform g
        ⟨emitPts zeroPt (List.replicate n default) prog, emitVerbs prog, n⟩).iter
      = some ((specEvents prog).map (mapEvent g)) := by
  have hA := applyGo_emit g n prog false zeroPt (List.replicate n default) [] [] 0 0 hn ha
    (by simp) (by simp)
  obtain ⟨c', f', hB⟩ := iterGo_emitT g n prog none zeroPt (List.replicate n default) zeroPt zeroPt
    [] [] hn ha (by simp) (by intro f0 c0 h; cases h)
  simp only [List.nil_append, List.append_nil] at hA hB
  simp only [applyTransform, PathData.iter, PathData.idIter, hA, hB, iterGo, Option.map_some,
    List.append_nil, specEvents]

end Lyon.Adapt
