/-
  C16 helper lemmas for the stored route: `Path::apply_transform` (an `IdIter` walk writing
  through `points[id]`, `Model/Path/Adapters.lean`) evaluated on exactly the storage a builder
  program produces (`emitPts` / `emitVerbs` of the C14 lemmas): the result is the storage of the
  transformed program (`stored_transform`), every index in bounds.
  Mathlib-free.
-/
import LyonVerif.Model.Path.Adapters
import LyonVerif.Lemmas.Adapters
import LyonVerif.Lemmas.PathViews

namespace Lyon.Adapt
open Lyon Lyon.Path

variable {S : Type} [Inhabited S]
set_option linter.unusedSectionVars false
set_option linter.unusedVariables false
set_option linter.unusedSimpArgs false

/-- what the storage holds after `apply_transform`: every position slot written by a
`begin / line_to / quadratic_bezier_to / cubic_bezier_to` is transformed, and so is the copy of
the first point that `end(true)` stores (lyon commit f78412c3; before it that slot kept the
untransformed point); the attribute slots are untouched.  (`f`, `fa` = the builder's `first`,
`first_attributes`, untransformed.)  It is the storage of the transformed program:
`emitPtsT_eq`. -/
def emitPtsT (g : Pt S → Pt S) : Pt S → List S → Prog S → List (Pt S)
  | _, _, [] => []
  | _, _, .begin p a :: r => endpointPts (g p) a ++ emitPtsT g p a r
  | f, fa, .line p a :: r => endpointPts (g p) a ++ emitPtsT g f fa r
  | f, fa, .quad c p a :: r => g c :: (endpointPts (g p) a ++ emitPtsT g f fa r)
  | f, fa, .cubic c1 c2 p a :: r => g c1 :: g c2 :: (endpointPts (g p) a ++ emitPtsT g f fa r)
  | f, fa, .end_ true :: r => endpointPts (g f) fa ++ emitPtsT g f fa r
  | f, fa, .end_ false :: r => emitPtsT g f fa r

/-- the transformed storage of a program = the storage of the transformed program
(`builder::Transformed` in front of the same builder) -/
theorem emitPtsT_eq (g : Pt S → Pt S) (f : Pt S) (fa : List S) (prog : Prog S) :
    emitPtsT g f fa prog = emitPts (g f) fa (prog.map (mapCall g)) := by
  induction prog generalizing f fa with
  | nil => rfl
  | cons c r ih =>
    cases c with
    | end_ cl => cases cl <;> simp [emitPtsT, emitPts, mapCall, ih]
    | _ => simp [emitPtsT, emitPts, mapCall, ih]

theorem emitVerbs_map (g : Pt S → Pt S) (prog : Prog S) :
    emitVerbs (prog.map (mapCall g)) = emitVerbs prog := by
  induction prog with
  | nil => rfl
  | cons c r ih =>
    cases c with
    | end_ cl => cases cl <;> simp [emitVerbs, mapCall, ih]
    | _ => simp [emitVerbs, mapCall, ih]

theorem attrsOk_map (g : Pt S → Pt S) (n : Nat) (prog : Prog S) :
    attrsOk n (prog.map (mapCall g)) = attrsOk n prog := by
  induction prog with
  | nil => rfl
  | cons c r ih => cases c <;> simp [attrsOk, mapCall, ih]

theorem wellNestedFrom_map (g : Pt S → Pt S) (b : Bool) (prog : Prog S) :
    wellNestedFrom b (prog.map (mapCall g)) = wellNestedFrom b prog := by
  induction prog generalizing b with
  | nil => rfl
  | cons c r ih => cases b <;> cases c <;> simp [wellNestedFrom, mapCall, ih]

/-- outside a sub-path the builder's `first` / `first_attributes` are dead: a well-nested
program overwrites them (`begin`) before `end(true)` reads them -/
theorem emitPts_first_irrelevant (f f' : Pt S) (fa fa' : List S) (prog : Prog S)
    (hn : wellNestedFrom false prog = true) : emitPts f fa prog = emitPts f' fa' prog := by
  cases prog with
  | nil => rfl
  | cons c r => cases c <;> simp_all [wellNestedFrom, emitPts]

theorem modify_at_length (g : Pt S → Pt S) (pre : List (Pt S)) (x : Pt S) (r : List (Pt S)) :
    applyAt g (pre ++ x :: r) pre.length = some (pre ++ g x :: r) := by
  have h : (pre ++ x :: r).modify pre.length g = pre ++ g x :: r := by
    induction pre with
    | nil => simp
    | cons a t ih => simpa using ih
  simp [applyAt, h]

theorem modify_at_length' (g : Pt S → Pt S) (pre : List (Pt S)) (x : Pt S) (r : List (Pt S))
    (i : Nat) (h : i = pre.length) : applyAt g (pre ++ x :: r) i = some (pre ++ g x :: r) := by
  subst h; exact modify_at_length g pre x r

/-- a successful write is inside the storage and keeps its length -/
theorem applyAt_some (g : Pt S → Pt S) (pts q : List (Pt S)) (i : Nat)
    (h : applyAt g pts i = some q) : i < pts.length ∧ q.length = pts.length := by
  unfold applyAt at h
  split at h
  · cases h; exact ⟨by assumption, by simp⟩
  · cases h

theorem applyEvent_length (g : Pt S → Pt S) (stride : Nat) (pts q : List (Pt S)) (e : Event Nat)
    (h : applyEvent g stride pts e = some q) : q.length = pts.length := by
  cases e with
  | begin a => exact (applyAt_some g _ _ _ h).2
  | line a b => exact (applyAt_some g _ _ _ h).2
  | quad a c b =>
    simp only [applyEvent] at h
    cases h1 : applyAt g pts c with
    | none => simp [h1] at h
    | some q1 =>
      simp only [h1, Option.bind_some] at h
      rw [(applyAt_some g _ _ _ h).2, (applyAt_some g _ _ _ h1).2]
  | cubic a c d b =>
    simp only [applyEvent] at h
    cases h1 : applyAt g pts c with
    | none => simp [h1] at h
    | some q1 =>
      simp only [h1, Option.bind_some] at h
      cases h2 : applyAt g q1 d with
      | none => simp [h2] at h
      | some q2 =>
        simp only [h2, Option.bind_some] at h
        rw [(applyAt_some g _ _ _ h).2, (applyAt_some g _ _ _ h2).2, (applyAt_some g _ _ _ h1).2]
  | end_ l f cl =>
    cases cl with
    | true => exact (applyAt_some g _ _ _ h).2
    | false => simp only [applyEvent] at h; cases h; rfl

/-- if the whole walk succeeds, the write performed for every `End { close: true }` event —
index `last + stride + 1` — is inside the storage -/
theorem applyAll_close_in_bounds (g : Pt S → Pt S) (stride : Nat) (evs : List (Event Nat))
    (pts q : List (Pt S)) (h : applyAll g stride evs pts = some q) :
    q.length = pts.length ∧
      ∀ last first, Event.end_ last first true ∈ evs → last + stride + 1 < pts.length := by
  induction evs generalizing pts with
  | nil => simp only [applyAll] at h; cases h; simp
  | cons e r ih =>
    simp only [applyAll] at h
    cases h1 : applyEvent g stride pts e with
    | none => simp [h1] at h
    | some q1 =>
      simp only [h1, Option.bind_some] at h
      have hl := applyEvent_length g stride pts q1 e h1
      obtain ⟨hq, hr⟩ := ih q1 h
      refine ⟨by rw [hq, hl], ?_⟩
      intro last first hm
      rcases List.mem_cons.mp hm with he | hm'
      · subst he
        exact (applyAt_some g _ _ _ (by simpa [applyEvent] using h1)).1
      · rw [← hl]; exact hr last first hm'

/-- `apply_transform` on the storage of a program: the `IdIter` walk writes exactly the
position slots and the copies stored by `end(true)` (`emitPtsT`), every index inside the storage
(the result is `some`), whatever precedes and follows the program's storage. -/
theorem applyGo_emit (g : Pt S → Pt S) (n : Nat) (prog : Prog S) (inSub : Bool) (f : Pt S)
    (fa : List S) (pre post : List (Pt S)) (cur first : Nat)
    (hn : wellNestedFrom inSub prog = true) (ha : attrsOk n prog = true) (hfa : fa.length = n)
    (hidx : if inSub then cur + (attribStride n + 1) = pre.length else cur = pre.length) :
    applyAll g (attribStride n) (idIterGo (attribStride n + 1) (emitVerbs prog) cur first)
        (pre ++ (emitPts f fa prog ++ post))
      = some (pre ++ (emitPtsT g f fa prog ++ post)) := by
  induction prog generalizing inSub f fa pre cur first with
  | nil => simp [emitVerbs, idIterGo, emitPts, emitPtsT, applyAll]
  | cons c r ih =>
    cases inSub with
    | false =>
      simp only [Bool.false_eq_true, if_false] at hidx
      cases c with
      | begin p a =>
        simp only [attrsOk, Bool.and_eq_true, beq_iff_eq] at ha
        have hlen : (pre ++ endpointPts (g p) a).length = cur + (attribStride n + 1) := by
          simp [endpointPts_length, ha.1, hidx]
        have := ih true p a (pre ++ endpointPts (g p) a) cur cur
          (by simpa [wellNestedFrom] using hn) ha.2 ha.1 (by simp [hlen])
        simp only [emitVerbs, idIterGo, applyAll, applyEvent, emitPts, emitPtsT, endpointPts,
          List.cons_append, modify_at_length' g pre p _ cur hidx, Option.bind_some]
        simpa [endpointPts, List.append_assoc] using this
      | line p a => simp [wellNestedFrom] at hn
      | quad k p a => simp [wellNestedFrom] at hn
      | cubic k1 k2 p a => simp [wellNestedFrom] at hn
      | end_ cl => simp [wellNestedFrom] at hn
    | true =>
      simp only [if_true] at hidx
      cases c with
      | begin p a => simp [wellNestedFrom] at hn
      | line p a =>
        simp only [attrsOk, Bool.and_eq_true, beq_iff_eq] at ha
        have hlen : (pre ++ endpointPts (g p) a).length
            = (cur + (attribStride n + 1)) + (attribStride n + 1) := by
          simp [endpointPts_length, ha.1, hidx]
        have := ih true f fa (pre ++ endpointPts (g p) a) (cur + (attribStride n + 1)) first
          (by simpa [wellNestedFrom] using hn) ha.2 hfa (by simp [hlen])
        simp only [emitVerbs, idIterGo, applyAll, applyEvent, emitPts, emitPtsT, endpointPts,
          List.cons_append, modify_at_length' g pre p _ _ hidx, Option.bind_some]
        simpa [endpointPts, List.append_assoc] using this
      | quad k p a =>
        simp only [attrsOk, Bool.and_eq_true, beq_iff_eq] at ha
        have hlen : (pre ++ g k :: endpointPts (g p) a).length
            = (cur + (attribStride n + 1) + 1) + (attribStride n + 1) := by
          simp [endpointPts_length, ha.1]; omega
        have := ih true f fa (pre ++ g k :: endpointPts (g p) a) (cur + (attribStride n + 1) + 1) first
          (by simpa [wellNestedFrom] using hn) ha.2 hfa (by simp [hlen])
        have h2 : applyAt g (pre ++ g k :: p :: (packAttrs a ++ (emitPts f fa r ++ post)))
            (cur + (attribStride n + 1) + 1)
            = some ((pre ++ [g k]) ++ g p :: (packAttrs a ++ (emitPts f fa r ++ post))) := by
          have := modify_at_length' g (pre ++ [g k]) p (packAttrs a ++ (emitPts f fa r ++ post))
            (cur + (attribStride n + 1) + 1) (by simp [hidx])
          simpa [List.append_assoc] using this
        simp only [emitVerbs, idIterGo, applyAll, applyEvent, emitPts, emitPtsT, endpointPts,
          List.cons_append, List.append_assoc, modify_at_length' g pre k _ _ hidx, Option.bind_some]
        rw [h2]
        simpa [endpointPts, List.append_assoc] using this
      | cubic k1 k2 p a =>
        simp only [attrsOk, Bool.and_eq_true, beq_iff_eq] at ha
        have hlen : (pre ++ g k1 :: g k2 :: endpointPts (g p) a).length
            = (cur + (attribStride n + 1) + 2) + (attribStride n + 1) := by
          simp [endpointPts_length, ha.1]; omega
        have := ih true f fa (pre ++ g k1 :: g k2 :: endpointPts (g p) a)
          (cur + (attribStride n + 1) + 2) first
          (by simpa [wellNestedFrom] using hn) ha.2 hfa (by simp [hlen])
        have h2 : applyAt g (pre ++ g k1 :: k2 :: p :: (packAttrs a ++ (emitPts f fa r ++ post)))
            (cur + (attribStride n + 1) + 1)
            = some ((pre ++ [g k1]) ++ g k2 :: p :: (packAttrs a ++ (emitPts f fa r ++ post))) := by
          have := modify_at_length' g (pre ++ [g k1]) k2 (p :: (packAttrs a ++ (emitPts f fa r ++ post)))
            (cur + (attribStride n + 1) + 1) (by simp [hidx])
          simpa [List.append_assoc] using this
        have h3 : applyAt g ((pre ++ [g k1]) ++ g k2 :: p :: (packAttrs a ++ (emitPts f fa r ++ post)))
            (cur + (attribStride n + 1) + 2)
            = some ((pre ++ [g k1, g k2]) ++ g p :: (packAttrs a ++ (emitPts f fa r ++ post))) := by
          have := modify_at_length' g (pre ++ [g k1, g k2]) p (packAttrs a ++ (emitPts f fa r ++ post))
            (cur + (attribStride n + 1) + 2) (by simp [hidx])
          simpa [List.append_assoc] using this
        simp only [emitVerbs, idIterGo, applyAll, applyEvent, emitPts, emitPtsT, endpointPts,
          List.cons_append, List.append_assoc, modify_at_length' g pre k1 _ _ hidx, Option.bind_some]
        rw [h2, Option.bind_some, h3]
        simpa [endpointPts, List.append_assoc] using this
      | end_ cl =>
        simp only [attrsOk] at ha
        cases cl with
        | true =>
          -- the new write: `last + stride + 1` is the slot of the copy of `first`
          have hlen : (pre ++ endpointPts (g f) fa).length = cur + (attribStride n + 1) * 2 := by
            simp [endpointPts_length, hfa]; omega
          have := ih false f fa (pre ++ endpointPts (g f) fa) (cur + (attribStride n + 1) * 2) first
            (by simpa [wellNestedFrom] using hn) ha hfa (by simp [hlen])
          simp only [emitVerbs, idIterGo, applyAll, applyEvent, emitPts, emitPtsT, endpointPts,
            List.cons_append, modify_at_length' g pre f _ (cur + attribStride n + 1) (by omega),
            Option.bind_some]
          simpa [endpointPts, List.append_assoc] using this
        | false =>
          have := ih false f fa pre (cur + (attribStride n + 1)) first
            (by simpa [wellNestedFrom] using hn) ha hfa (by simp [hidx])
          simp only [emitVerbs, idIterGo, applyAll, applyEvent, emitPts, emitPtsT, Option.bind_some]
          simpa using this

/-- `apply_transform` on the storage `Path::builder_with_attributes(n)` holds for a valid
program: no index of the walk is outside the storage, and the result is the storage of the
transformed program — transforming after storing = storing through `builder::Transformed`, slot
for slot (so EVERY view of the transformed path is the view of the transformed program). -/
theorem stored_transform (g : Pt S → Pt S) (n : Nat) (prog : Prog S)
    (hn : WellNested prog) (ha : attrsOk n prog = true) :
    applyTransform g ⟨emitPts zeroPt (List.replicate n default) prog, emitVerbs prog, n⟩
      = some ⟨emitPts zeroPt (List.replicate n default) (prog.map (mapCall g)),
              emitVerbs (prog.map (mapCall g)), n⟩ := by
  have hA := applyGo_emit g n prog false zeroPt (List.replicate n default) [] [] 0 0 hn ha
    (by simp) (by simp)
  simp only [List.nil_append, List.append_nil] at hA
  have hirr := emitPts_first_irrelevant (g zeroPt) zeroPt (List.replicate n default)
    (List.replicate n default) (prog.map (mapCall g)) (by rw [wellNestedFrom_map]; exact hn)
  simp only [applyTransform, PathData.idIter, hA, Option.map_some, emitPtsT_eq, hirr, emitVerbs_map]

/-- `path.transformed(g).iter()` on the path stored from a valid program = the transformed
events of the program; no read or write outside the storage. -/
theorem stored_transform_iter (g : Pt S → Pt S) (n : Nat) (prog : Prog S)
    (hn : WellNested prog) (ha : attrsOk n prog = true) :
    (applyTransform g
        ⟨emitPts zeroPt (List.replicate n default) prog, emitVerbs prog, n⟩).bind PathData.iter
      = some ((specEvents prog).map (mapEvent g)) := by
  rw [stored_transform g n prog hn ha, Option.bind_some]
  obtain ⟨c', f', hB⟩ := iterGo_emit n (prog.map (mapCall g)) none zeroPt (List.replicate n default)
    zeroPt zeroPt [] [] (by rw [Option.isSome_none, wellNestedFrom_map]; exact hn) (by rw [attrsOk_map]; exact ha)
    (by simp) (by intro f0 c0 h; cases h)
  have hs := specFrom_map g none prog
  simp only [Option.map_none] at hs
  simp only [List.append_nil] at hB
  simp only [PathData.iter, hB, iterGo, Option.map_some, List.append_nil, specEvents, hs]

/-! ### the other views of the transformed program, in terms of the original's -/

/-- a point map acting on an endpoint that carries its attributes (attributes untouched) -/
def mapA (g : Pt S → Pt S) (q : APt S) : APt S := (g q.1, q.2)

theorem aCall_map (g : Pt S → Pt S) (prog : Prog S) :
    (prog.map (mapCall g)).map Path.aCall = (prog.map Path.aCall).map (mapCall (mapA g)) := by
  induction prog with
  | nil => rfl
  | cons c r ih => cases c <;> simp_all [mapCall, Path.aCall, mapA, ctl]

/-- the attribute-carrying events of the transformed program = the original's with every
position transformed and every attribute list unchanged -/
theorem specEvents_aCall_map (g : Pt S → Pt S) (prog : Prog S) :
    specEvents ((prog.map (mapCall g)).map Path.aCall)
      = (specEvents (prog.map Path.aCall)).map (mapEvent (mapA g)) := by
  rw [aCall_map]
  simpa [specEvents] using specFrom_map (mapA g) none (prog.map Path.aCall)

theorem withPoints_fst_mapA (g : Pt S → Pt S) (e : Event (APt S)) :
    withPoints Prod.fst (mapEvent (mapA g) e) = mapEvent g (withPoints Prod.fst e) := by
  cases e <;> simp [withPoints, mapEvent, mapA]

end Lyon.Adapt
