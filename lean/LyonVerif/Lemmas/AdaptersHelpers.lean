/-
  Helper lemmas for C16 about `Model/Path/AdaptersHelpers.lean`: the expansions of the PROVIDED
  methods of `PathBuilder` — protocol state (every `add_*` helper is empty or one complete
  sub-path), attribute counts, the `NoAttributes` forwarding, point-parameter helpers under a map.
  Core Lean only.
-/
import LyonVerif.Model.Path.AdaptersHelpers
import LyonVerif.Lemmas.Adapters
import LyonVerif.Lemmas.Trace

set_option linter.unusedSectionVars false

namespace Lyon.Adapt
open Lyon Lyon.Path Lyon.Scalar

section Generic
variable {π π' A B : Type}

theorem nestState_withAttr (a : B) (s : Bool) (l : List (Call π A)) :
    nestState s (l.map (withAttr a)) = nestState s l := by
  induction l generalizing s with
  | nil => rfl
  | cons c r ih => cases s <;> cases c <;> simp [nestState, withAttr, ih]

/-- a run of edges inside a sub-path leaves the protocol state as it is -/
theorem nestState_lines (f : π' → Call π A) (hf : ∀ q, callRole (f q) = .edge) (l : List π')
    (rest : List (Call π A)) : nestState true (l.map f ++ rest) = nestState true rest := by
  induction l with
  | nil => rfl
  | cons q r ih =>
    have h := hf q
    simp only [List.map_cons, List.cons_append]
    cases hq : f q <;> simp_all [nestState, callRole]

theorem withAttr_withAttr {C : Type} (a : B) (b : C) (c : Call π A) :
    withAttr b (withAttr a c) = withAttr b c := by cases c <;> rfl

theorem noAttrCall_withAttr {C : Type} (a : B) (c : Call π A) :
    noAttrCall (B := C) (withAttr a c) = withAttr ([] : List C) c := by cases c <;> rfl

theorem mapCall_withAttr (g : π → π') (a : B) (c : Call π A) :
    mapCall g (withAttr a c) = withAttr a (mapCall g c) := by cases c <;> rfl

theorem attrsLen_append (n : Nat) (l1 l2 : List (Call π (List A))) :
    attrsLen n (l1 ++ l2) = (attrsLen n l1 && attrsLen n l2) := by
  induction l1 with
  | nil => simp [attrsLen]
  | cons c r ih => cases c <;> simp [attrsLen, ih, Bool.and_assoc]

theorem attrsLen_withAttr (n : Nat) (a : List A) (h : a.length = n) (l : List (Call π B)) :
    attrsLen n (l.map (withAttr a)) = true := by
  induction l with
  | nil => rfl
  | cons c r ih => cases c <;> simp [attrsLen, withAttr, ih, h]

end Generic

section Shapes
variable {α : Type} [Scalar α]
open PathShapes

theorem nestState_addPolygon (pts : List (P α)) (closed : Bool) :
    nestState false (addPolygon pts closed) = some false := by
  cases pts with
  | nil => rfl
  | cons p r =>
    simp only [addPolygon, List.cons_append]
    show nestState true (r.map (fun q => Call.line q ()) ++ [Call.end_ closed]) = some false
    rw [nestState_lines (fun q => Call.line q ()) (fun _ => rfl)]
    rfl

theorem nestState_addRectangle (mn mx : P α) (w : Bool) :
    nestState false (addRectangle mn mx w) = some false :=
  nestState_addPolygon _ _

theorem nestState_addCircle (c : P α) (r : α) (w : Bool) :
    nestState false (addCircle c r w) = some false := rfl

theorem nestState_cornerCubic (r : α) (a b c : P α) (rest : Calls α) :
    nestState true (cornerCubic r a b c ++ rest) = nestState true rest := by
  unfold cornerCubic
  split <;> rfl

theorem nestState_rrCalls (p : Array (P α)) (r : Radii α) (w : Bool) :
    nestState false (rrCalls p r w) = some false := by
  unfold rrCalls
  split <;>
    simp only [List.cons_append, List.nil_append, List.append_assoc, nestState,
      nestState_cornerCubic]

theorem nestState_addRoundedRectangle (mn mx : P α) (radii : Radii α) (w : Bool) :
    nestState false (addRoundedRectangle mn mx radii w) = some false :=
  nestState_rrCalls _ _ _

theorem nestState_addEllipse [Transc α] (c radii : P α) (xrot : α) (w : Bool) :
    nestState false (addEllipse c radii xrot w) = some false := by
  simp only [addEllipse, List.cons_append]
  show nestState true ((ArcConv.quadsWithT (ellipseArc c radii xrot w)).map
    (fun q : Quad α × α × α => Call.quad q.1.c q.1.b ()) ++ [Call.end_ true]) = some false
  rw [nestState_lines (fun q : Quad α × α × α => Call.quad q.1.c q.1.b ()) (fun _ => rfl)]
  rfl

end Shapes

section Cmds
variable {α : Type} [Scalar α] [Transc α]

/-- an `add_*` helper (and the concatenation mark) expands to nothing or to one complete
sub-path -/
theorem nestState_expand_shape (c : Cmd α) (h : c.role = .shape) :
    nestState false c.expand = some false := by
  cases c with
  | prim k => cases k <;> simp [Cmd.role, callRole] at h
  | close => simp [Cmd.role] at h
  | pathEvent e a => cases e <;> simp [Cmd.role, eventRole] at h
  | event e => cases e <;> simp [Cmd.role, eventRole] at h
  | polygon pts closed a =>
    simpa [Cmd.expand, nestState_withAttr] using nestState_addPolygon pts closed
  | point p a => rfl
  | segment p q a => rfl
  | rectangle mn mx w a =>
    simpa [Cmd.expand, nestState_withAttr] using nestState_addRectangle mn mx w
  | roundedRectangle mn mx r w a =>
    simpa [Cmd.expand, nestState_withAttr] using nestState_addRoundedRectangle mn mx r w
  | circle c r w a =>
    simpa [Cmd.expand, nestState_withAttr] using nestState_addCircle c r w
  | ellipse c radii xrot w a =>
    simpa [Cmd.expand, nestState_withAttr] using nestState_addEllipse c radii xrot w
  | cut => rfl

/-- `close`, `path_event`, `event` and the primitives are ONE primitive call of the same role -/
theorem expand_single (c : Cmd α) (h : c.role ≠ .shape) :
    ∃ k, c.expand = [k] ∧ callRole k = c.role := by
  cases c with
  | prim k => exact ⟨k, rfl, rfl⟩
  | close => exact ⟨_, rfl, rfl⟩
  | pathEvent e a => cases e <;> exact ⟨_, rfl, rfl⟩
  | event e => cases e <;> exact ⟨_, rfl, rfl⟩
  | _ => simp [Cmd.role] at h

/-- a program with helper calls that follows the protocol expands to a program of primitive
calls that follows it -/
theorem nestState_expandProg (s : Bool) (cmds : List (Cmd α))
    (h : cmdsNestedFrom s cmds = true) : nestState s (expandProg cmds) = some false := by
  induction cmds generalizing s with
  | nil => cases s <;> simp_all [cmdsNestedFrom, expandProg, nestState]
  | cons c r ih =>
    simp only [expandProg, List.flatMap_cons] at ih ⊢
    unfold cmdsNestedFrom at h
    cases hr : c.role with
    | shape =>
      simp only [hr, Bool.and_eq_true, Bool.not_eq_true'] at h
      obtain ⟨hs, h⟩ := h
      subst hs
      exact nestState_append_of (nestState_expand_shape c hr) (ih false h)
    | begin =>
      simp only [hr, Bool.and_eq_true, Bool.not_eq_true'] at h
      obtain ⟨hs, h⟩ := h
      subst hs
      obtain ⟨k, hk, hkr⟩ := expand_single c (by simp [hr])
      rw [hk]
      cases k <;> simp_all [callRole, nestState]
    | edge =>
      simp only [hr, Bool.and_eq_true] at h
      obtain ⟨hs, h⟩ := h
      subst hs
      obtain ⟨k, hk, hkr⟩ := expand_single c (by simp [hr])
      rw [hk]
      cases k <;> simp_all [callRole, nestState]
    | end_ =>
      simp only [hr, Bool.and_eq_true] at h
      obtain ⟨hs, h⟩ := h
      subst hs
      obtain ⟨k, hk, hkr⟩ := expand_single c (by simp [hr])
      rw [hk]
      cases k <;> simp_all [callRole, nestState]

theorem attrsLen_expand (n : Nat) (c : Cmd α) (h : c.attrsLen n = true) :
    attrsLen n c.expand = true := by
  cases c with
  | prim k => simpa [Cmd.attrsLen, Cmd.expand] using h
  | close => rfl
  | pathEvent e a =>
    cases e <;> simp_all [Cmd.attrsLen, Cmd.expand, pathEventCall, attrsLen, eventRole]
  | event e => simpa [Cmd.attrsLen, Cmd.expand] using h
  | point p a => simp_all [Cmd.attrsLen, Cmd.expand, attrsLen]
  | segment p q a => simp_all [Cmd.attrsLen, Cmd.expand, attrsLen]
  | cut => rfl
  | polygon pts closed a =>
    exact attrsLen_withAttr n a (by simpa [Cmd.attrsLen] using h) _
  | rectangle mn mx w a =>
    exact attrsLen_withAttr n a (by simpa [Cmd.attrsLen] using h) _
  | roundedRectangle mn mx r w a =>
    exact attrsLen_withAttr n a (by simpa [Cmd.attrsLen] using h) _
  | circle c r w a =>
    exact attrsLen_withAttr n a (by simpa [Cmd.attrsLen] using h) _
  | ellipse c radii xrot w a =>
    exact attrsLen_withAttr n a (by simpa [Cmd.attrsLen] using h) _

theorem attrsLen_expandProg (n : Nat) (cmds : List (Cmd α))
    (h : ∀ c ∈ cmds, c.attrsLen n = true) : attrsLen n (expandProg cmds) = true := by
  induction cmds with
  | nil => rfl
  | cons c r ih =>
    simp only [expandProg, List.flatMap_cons, attrsLen_append, Bool.and_eq_true] at ih ⊢
    exact ⟨attrsLen_expand n c (h c (by simp)), ih fun c hc => h c (by simp [hc])⟩

/-- `NoAttributes<B>`'s inherent `add_x(..)` (forwarding to `B::add_x(.., NO_ATTRIBUTES)`) sends
what `NoAttributes<B>`'s `PathBuilder` impl sends for the default body of `add_x` -/
theorem expand_noAttrCmd (c : Cmd α) :
    (noAttrCmd c).expand = noAttrBuilder (B := α) c.expand := by
  cases c with
  | pathEvent e a => cases e <;> rfl
  | event e => cases e <;> rfl
  | polygon pts closed a =>
    simp [noAttrCmd, Cmd.expand, noAttrBuilder, List.map_map, Function.comp_def, noAttrCall_withAttr]
  | rectangle mn mx w a =>
    simp [noAttrCmd, Cmd.expand, noAttrBuilder, List.map_map, Function.comp_def, noAttrCall_withAttr]
  | roundedRectangle mn mx r w a =>
    simp [noAttrCmd, Cmd.expand, noAttrBuilder, List.map_map, Function.comp_def, noAttrCall_withAttr]
  | circle c r w a =>
    simp [noAttrCmd, Cmd.expand, noAttrBuilder, List.map_map, Function.comp_def, noAttrCall_withAttr]
  | ellipse c radii xrot w a =>
    simp [noAttrCmd, Cmd.expand, noAttrBuilder, List.map_map, Function.comp_def, noAttrCall_withAttr]
  | _ => rfl

theorem expandProg_noAttrCmd (cmds : List (Cmd α)) :
    expandProg (cmds.map noAttrCmd) = noAttrBuilder (B := α) (expandProg cmds) := by
  induction cmds with
  | nil => rfl
  | cons c r ih =>
    simp only [expandProg, List.map_cons, List.flatMap_cons, noAttrBuilder, List.map_append] at ih ⊢
    rw [ih, expand_noAttrCmd]
    rfl

/-- a helper whose parameters are all POINTS may be called with transformed parameters: its
expansion is the transformed expansion, for every point map -/
def Cmd.pointParams : Cmd α → Bool
  | .rectangle .. => false
  | .roundedRectangle .. => false
  | .circle .. => false
  | .ellipse .. => false
  | _ => true

theorem expand_mapParams_points (g : P α → P α) (c : Cmd α) (h : c.pointParams = true) :
    (c.mapParams g).expand = xfBuilder g c.expand := by
  cases c with
  | prim k => rfl
  | close => rfl
  | pathEvent e a => cases e <;> rfl
  | event e => cases e <;> rfl
  | polygon pts closed a =>
    cases pts with
    | nil => rfl
    | cons p r =>
      simp [Cmd.mapParams, Cmd.expand, xfBuilder, PathShapes.addPolygon, withAttr, mapCall,
        List.map_map, Function.comp_def]
  | point p a => rfl
  | segment p q a => rfl
  | cut => rfl
  | _ => simp [Cmd.pointParams] at h

/-! ### the pieces between `cut` marks -/

theorem expandProg_nil : expandProg ([] : List (Cmd α)) = [] := rfl

theorem expandProg_cons (c : Cmd α) (r : List (Cmd α)) :
    expandProg (c :: r) = c.expand ++ expandProg r := by
  simp [expandProg]

/-- splitting at the `cut` marks loses no call -/
theorem expandProg_splitCuts (cmds : List (Cmd α)) :
    ((splitCuts cmds).map expandProg).flatten = expandProg cmds := by
  induction cmds with
  | nil => rfl
  | cons c r ih =>
    rw [expandProg_cons, ← ih]
    cases hs : splitCuts r with
    | nil => cases c <;> simp [splitCuts, hs, expandProg_cons, expandProg_nil, Cmd.expand]
    | cons h t => cases c <;> simp [splitCuts, hs, expandProg_cons, expandProg_nil, Cmd.expand]

theorem expandProg_markPieces (d : Bool) (chunks : List (List (Cmd α))) :
    ((markPieces d chunks).map fun p => expandProg p.1).flatten
      = (chunks.map expandProg).flatten := by
  induction chunks generalizing d with
  | nil => rfl
  | cons p r ih =>
    unfold markPieces
    split
    · rename_i hp
      have : p = [] := by simpa using hp
      subst this
      simp [ih, expandProg_nil]
    · simp [ih]

/-- the pieces of a program, expanded and put together again, are the expanded program -/
theorem expandProg_piecesOf (cmds : List (Cmd α)) :
    ((piecesOf cmds).map fun p => expandProg p.1).flatten = expandProg cmds := by
  rw [← expandProg_splitCuts cmds]
  unfold piecesOf
  cases splitCuts cmds with
  | nil => rfl
  | cons p0 r => simp [expandProg_markPieces]

end Cmds

end Lyon.Adapt
