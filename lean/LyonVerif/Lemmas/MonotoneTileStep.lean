/-
  C02 growth 3 (`Props/C02f.lean`), part 7: one `vertex` call of the basic monotone tessellator on
  a valid sweep sequence in general position is a `Tiles` step from the remaining polygon of the
  state before to the remaining polygon of the state after (`same_step_tiles`, `fan_step_state`).
  The geometric side conditions come from `SweepValid` (instantiated at the edge of the opposite
  chain that spans the stack) and from the stack invariant `VInv`.
-/
import LyonVerif.Lemmas.MonotoneTileFut

set_option linter.unusedSectionVars false
set_option linter.unusedVariables false
set_option linter.unusedSimpArgs false

namespace Lyon.C02f
open Lyon Lyon.Mono Lyon.C02 Lyon.C02c

section Geometry
variable {K : Type} [Field K] [LinearOrder K] [IsStrictOrderedRing K]

/-- `OnSide τ a b v`: `v` is strictly on the inner side of the edge `a → b` of a chain on side `!τ` -/
theorem onSide_inner (τ : Bool) (a b v : P K) : OnSide τ a b v ↔ 0 < sg (!τ) * wind a b v := by
  rw [onSide_iff, sg_not, wind_swap_bc a b v]
  constructor <;> intro h <;> linarith

theorem bool_ne_not {a b : Bool} (h : a ≠ b) : a = !b := by
  revert h; cases a <;> cases b <;> simp

variable (seq : List (P K × Bool))

/-- facts about the stack of a state reached on a valid sequence -/
structure StackFacts (s : Basic K) (k : Nat) (bot : MV K) : Prop where
  last : s.stack.getLast? = some bot
  botPos : botPos s = bot.pos
  botLt : bot.id < k
  sort : (s.stack.map (·.pos)).Pairwise (fun a b => After a b)
  lo : ∀ v ∈ s.stack, v.id = bot.id ∨ bot.id < v.id
  loPos : ∀ v ∈ s.stack, AfterEq v.pos bot.pos
  before : ∀ v ∈ s.stack, ∀ j, j < seq.length → v.id < j → After (posOf seq j) v.pos

theorem stackFacts (hval : SweepValid seq) (s : Basic K) (k : Nat) (h : VInv seq s k) (hk : k < seq.length) :
    ∃ bot, StackFacts seq s k bot := by
  obtain ⟨rest, hst⟩ := h.top
  have hne : s.stack ≠ [] := by rw [hst]; simp
  have hb : s.stack.getLast? = some (s.stack.getLast hne) := List.getLast?_eq_some_getLast hne
  generalize s.stack.getLast hne = bot at hb
  have hbmem : bot ∈ s.stack := List.mem_of_getLast? hb
  have hlo := pairwise_last s.stack bot h.dec hb
  refine ⟨bot, hb, by simp [C02c.botPos, hb], h.lt bot hbmem, ?_, hlo, ?_, ?_⟩
  · rw [List.pairwise_map]
    refine h.dec.imp_of_mem ?_
    intro a b ha hb' hlt
    rw [h.good a ha, h.good b hb']
    exact valid_after hval hlt (by have := h.lt a ha; omega)
  · intro v hv
    rcases hlo v hv with e | e
    · left; rw [h.good v hv, h.good bot hbmem, e]
    · right; rw [h.good v hv, h.good bot hbmem]
      exact valid_after hval e (by have := h.lt v hv; omega)
  · intro v hv j hj hvj
    rw [h.good v hv]
    exact valid_after hval hvj hj

/-- `SweepValid` at the edge `bot → f` of the chain opposite to the stack: every stack vertex but
`bot`, and every vertex up to `f`, is strictly on the inner side of that edge -/
theorem span_edge_side (hval : SweepValid seq) (s : Basic K) (k : Nat) (bot : MV K) (h : VInv seq s k)
    (hF : StackFacts seq s k bot) (f : Nat) (hkf : k ≤ f) (hf : f < seq.length)
    (hrun : ∀ j, k ≤ j → j < f → sideAt seq j = s.previous.left)
    (hend : f + 1 = seq.length ∨ sideAt seq f = !s.previous.left) :
    ∀ j, bot.id < j → j < f → 0 < sg (!s.previous.left) * wind bot.pos (posOf seq f) (posOf seq j) := by
  intro j hj1 hj2
  obtain ⟨r1, r2⟩ := h.run bot hF.last
  have hrb : RunBetween seq s.previous.left bot.id f :=
    ⟨fun i hi1 hi2 => by
        by_cases g : i < k
        · exact r1 i g hi2
        · exact hrun i (by omega) hi1, r2, hend⟩
  have := hval.2 f hf bot.id (by have := hF.botLt; omega) s.previous.left hrb j hj2 hj1
  rw [onSide_inner] at this
  rw [h.good bot (List.mem_of_getLast? hF.last)]
  exact this

/-- **same-side step** -/
theorem same_step_tiles (hval : SweepValid seq) (s : Basic K) (k : Nat) (cur : MV K)
    (h : VInv seq s k) (hk1 : k + 1 < seq.length) (hid : cur.id = k) (hpos : Good (posOf seq) cur)
    (hsd : sideAt seq k = cur.left) (hside : cur.left = s.previous.left) :
    ∃ nt, (s.vertex cur).tris = s.tris ++ nt ∧
      Tiles (region seq s k) (TriIn (posOf seq)) (TriInC (posOf seq)) nt (region seq (s.vertex cur) (k + 1)) := by
  obtain ⟨rest, hst⟩ := h.top
  have hne : (cur.left != s.previous.left) = false := by rw [hside]; cases s.previous.left <;> rfl
  have hv : s.vertex cur = ⟨cur :: (popLoop cur s.previous rest).1, cur, s.tris ++ (popLoop cur s.previous rest).2⟩ := by
    simp only [Basic.vertex, hne, Bool.false_eq_true, if_false, hst]
  refine ⟨(popLoop cur s.previous rest).2, by rw [hv], ?_⟩
  obtain ⟨bot, hF⟩ := stackFacts seq hval s k h (by omega)
  have hcp : cur.pos = posOf seq k := by rw [← hid]; exact hpos
  have hsk : sideAt seq k = s.previous.left := by rw [hsd, hside]
  obtain ⟨f, restO, eO, f1, f2, f3, f4, f5, f6⟩ := futIds_head seq (!s.previous.left) _ (k + 1) hk1 rfl
  -- the region before
  have eL : region seq s k = InPoly cur.left (((s.previous :: rest).map (·.pos)).reverse ++ cur.pos :: fut seq cur.left (k + 1))
      (bot.pos :: posOf seq f :: restO.map (posOf seq)) := by
    unfold region
    rw [hF.botPos, ← hside, ← hst]
    have e1 : fut seq cur.left k = cur.pos :: fut seq cur.left (k + 1) := by
      simp only [fut]; rw [futIds_same seq cur.left (by omega) hsd, hcp]; rfl
    have e2 : fut seq (!cur.left) k = posOf seq f :: restO.map (posOf seq) := by
      simp only [fut]
      rw [futIds_other seq (!cur.left) (by omega) (by rw [hsd]; cases cur.left <;> simp), hside, eO]; rfl
    rw [e1, e2]
  -- the region after
  have hnn := popLoop_nonempty cur s.previous rest
  have hgl := popLoop_getLast cur s.previous rest
  have eR : region seq (s.vertex cur) (k + 1) =
      InPoly cur.left (((popLoop cur s.previous rest).1.map (·.pos)).reverse ++ cur.pos :: fut seq cur.left (k + 1))
        (bot.pos :: posOf seq f :: restO.map (posOf seq)) := by
    unfold region
    rw [hv]
    simp only
    have e0 : C02c.botPos (⟨cur :: (popLoop cur s.previous rest).1, cur, s.tris ++ (popLoop cur s.previous rest).2⟩ : Basic K) = bot.pos := by
      simp only [C02c.botPos]
      rw [List.getLast?_cons_of_ne_nil hnn, hgl, ← hst, hF.last]; rfl
    have e2 : fut seq (!cur.left) (k + 1) = posOf seq f :: restO.map (posOf seq) := by
      simp only [fut]; rw [hside, eO]; rfl
    rw [e0, e2]
    simp
  rw [eL, eR]
  have hsidef := span_edge_side seq hval s k bot h hF f (by omega) f2
    (fun j hj1 hj2 => by
      by_cases g : j = k
      · rw [g]; exact hsk
      · have := f3 j (by omega) hj2; simpa using this)
    f4
  rw [← hside] at hsidef
  refine pop_tiles (posOf seq) cur _ bot.pos (posOf seq f) _ hpos ?_ ?_ ?_ rest s.previous ?_ ?_ ?_ ?_ ?_
  · rw [hcp]; exact fut_sorted seq cur.left hval k (k + 1) (by omega) hk1
  · right; rw [hcp]; exact valid_after hval (by omega) f2
  · rw [hcp]; exact (hsidef k hF.botLt (by omega)).le
  · rw [← hst]; exact h.good
  · rw [← hst]; exact hF.sort
  · rw [← hst]; intro v hv'; rw [hcp]; exact hF.before v hv' k (by omega) (h.lt v hv')
  · rw [← hst]; exact hF.loPos
  · rw [← hst]
    intro v hv'
    rcases hF.lo v hv' with e | e
    · left; rw [h.good v hv', h.good bot (List.mem_of_getLast? hF.last), e]
    · right; rw [h.good v hv']
      exact hsidef v.id e (by have := h.lt v hv'; omega)

end Geometry

end Lyon.C02f
