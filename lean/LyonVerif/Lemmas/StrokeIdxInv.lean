/-
  Index validity for the complete stroker model `Lyon.Stroke.Full`, part 2: the window invariant.

  * `Cls`: a class of endpoints — which `(source, half width)` pairs occur (`C`, inherited by every
    vertex emitted for the endpoint) and which `(is_flattening_step, line_join)` pairs occur (`D`).
  * `SkipApart`, `Reg`: the two arithmetic facts the id logic of stroke.rs relies on that are NOT
    discrete (they hold in exact arithmetic, see `Lemmas/StrokeIdxField.lean`; they are vacuous for
    polylines):
      - variable width: when `flattened_step` asks to skip a join (`replace_last`), the new point is
        not within merge distance of the point before the dropped join (it lies further along);
      - fixed width: `flattened_step` never asks to skip (`fixed_width_step_impl` ignores the answer
        and would connect vertex ids that were never assigned).
  * `InvC` / `Inv`: the window invariant — which stored vertex ids will be read before they are
    overwritten, and that those are valid.
  * buffer-level preservation lemmas: `setLast`, `push_first`, `push_second`, `commit`, `skip`.
-/
import LyonVerif.Lemmas.StrokeIdxBase

set_option linter.unusedSectionVars false
set_option linter.unusedVariables false

namespace Lyon.C05c
open Lyon Scalar Lyon.Stroke Lyon.Stroke.Full Lyon.C05 Lyon.C05b

section
variable {α : Type} [Scalar α]

/-- a class of endpoints -/
structure Cls (α : Type) where
  /-- admissible `(source, half width)` pairs -/
  C : Src α → α → Prop
  /-- admissible `(is_flattening_step, line_join)` pairs -/
  D : Bool → LineJoin → Prop
  /-- the fast path of a flattened curve forces `line_join = Miter` -/
  miter : ∀ f lj, D f lj → D f .miter

def Cls.F (c : Cls α) (e : EP α) : Prop := c.C e.src e.halfWidth ∧ c.D e.isFlat e.lineJoin

theorem Cls.F_upd {c : Cls α} {e e' : EP α} (h : c.F e) (u : Upd e e') : c.F e' := by
  obtain ⟨h1, h2⟩ := h
  refine ⟨by rw [u.src, u.hw]; exact h1, ?_⟩
  rcases u.lj with g | g
  · rw [u.flat, g]; exact h2
  · rw [u.flat, g]; exact c.miter _ _ h2

/-- a skipped join moves away: if `a, b` and `b, c` are kept apart and the path goes forward at `b`,
then `a, c` are apart as well (exact arithmetic: `|c-a|² = |b-a|² + 2 (b-a)·(c-b) + |c-b|²`) -/
def SkipApart (thr : α) : Prop :=
  ∀ a b c : P α, pointsAreTooClose thr a b = false → pointsAreTooClose thr b c = false →
    (b - a).dot (c - b) > zero → pointsAreTooClose thr a c = false

end

section
variable {α : Type} [Scalar α] [Transc α]

/-- Arithmetic regularity of a scalar type for the environment `e` and the endpoint class `c`.
`G position pos.next neg.next` is a relation every endpoint satisfies once it has been the middle
point of a step (or the first point after the second arrived); `flattened_step` reads it from its
`prev` argument. -/
structure Reg (e : Env α) (c : Cls α) (G : P α → P α → P α → Prop) : Prop where
  first : ∀ first next : EP α, GE G (firstEdgeSetup first next).1
  joinFw : ∀ (prev join next : EP α) (vhw : α), c.F join →
    GE G (joinSidesFw e.ix prev join next e.o.miterLimit vhw)
  flat : ∀ (prev join next : EP α) (d : VData α) (o : Out α), GE G (flattenedStep prev join next d o).join
  /-- fixed width: `flattened_step` never answers "skip" -/
  noskip : e.o.varWidth = false → ∀ (prev join next : EP α) (d : VData α) (o : Out α),
    GE G prev → c.F join → fastPath prev join next = true →
    (flattenedStep prev { join with lineJoin := .miter } next d o).skip = false
  /-- variable width: nothing is required of the side points; a skipped join moves away from the
  point before it (`SkipApart` suffices, see `Reg.vw_of_skipApart`; vacuous without flattening steps) -/
  vw : e.o.varWidth = true → (∀ a b c, G a b c) ∧
    (∀ prev join next : EP α, c.F join → fastPath prev join next = true →
      pointsAreTooClose e.thr prev.position join.position = false →
      pointsAreTooClose e.thr join.position next.position = false →
      pointsAreTooClose e.thr prev.position next.position = false)

/-! ## the window invariant -/

/-- Which entries of the window carry ids that are read later (`n` = number of vertices so far):
* `count ≤ 2`: every point in the window is `Raw` (was never a join: fold flags `false`, its unset
  ids are never read), and the two points of a full pair are not within merge distance;
* `count = 3`: the second-newest point has been a join (`Good n`: its four ids are valid), the
  newest is `Raw` or `Good n` (the latter in `close`, which feeds the stored second endpoint again);
  `firsts = [f0, f1]`: the first endpoint (`Raw`) and the second one after its join (`Good n`),
  not within merge distance of each other (`close` relies on it: its second step is not merged). -/
structure InvC (thr : α) (c : Cls α) (G : P α → P α → P α → Prop)
    (buf : PointBuffer (EP α)) (fs : List (EP α)) (n : Nat) : Prop where
  wf : WF buf
  cls1 : ∀ y, buf.last = some y → c.F y
  cls2 : ∀ x y, buf.lastTwo = some (x, y) → c.F x
  clsF : ∀ f ∈ fs, c.F f
  geo : ∀ x y, buf.lastTwo = some (x, y) → GE G x
  one : buf.count ≤ 1 → ∀ y, buf.last = some y → Raw y.ids
  two : buf.count = 2 → ∀ x y, buf.lastTwo = some (x, y) →
    Raw x.ids ∧ Raw y.ids ∧ pointsAreTooClose thr x.position y.position = false
  three : 3 ≤ buf.count → ∀ x y, buf.lastTwo = some (x, y) → Good n x.ids ∧ (Raw y.ids ∨ Good n y.ids)
  firsts : 3 ≤ buf.count → ∃ f0 f1, fs = [f0, f1] ∧ Raw f0.ids ∧ Good n f1.ids
    ∧ pointsAreTooClose thr f0.position f1.position = false
  nofirsts : buf.count ≤ 2 → fs = []

def Inv (thr : α) (c : Cls α) (G : P α → P α → P α → Prop) (st : St α) : Prop :=
  InvC thr c G st.buf st.firsts st.out.nextId

variable {thr : α} {c : Cls α} {G : P α → P α → P α → Prop}

theorem InvC.new (d : EP α) (n : Nat) : InvC thr c G (PointBuffer.new d) [] n := by
  refine ⟨WF.new _, ?_, ?_, ?_, ?_, ?_, ?_, ?_, ?_, ?_⟩ <;>
    simp [PointBuffer.new, PointBuffer.last, PointBuffer.lastTwo]

theorem InvC.cleared {buf : PointBuffer (EP α)} (h : WF buf) (n : Nat) : InvC thr c G buf.clear [] n := by
  obtain ⟨l, hl⟩ := h
  refine ⟨⟨[], hl.clear⟩, ?_, ?_, ?_, ?_, ?_, ?_, ?_, ?_, ?_⟩ <;>
    simp [PointBuffer.clear, PointBuffer.last, PointBuffer.lastTwo]

theorem InvC.mono {buf : PointBuffer (EP α)} {firsts : List (EP α)} {n n' : Nat}
    (h : InvC thr c G buf firsts n) (hn : n ≤ n') : InvC thr c G buf firsts n' := by
  refine ⟨h.wf, h.cls1, h.cls2, h.clsF, h.geo, h.one, h.two, ?_, ?_, h.nofirsts⟩
  · intro h3 x y hxy
    obtain ⟨a, b⟩ := h.three h3 x y hxy
    exact ⟨a.mono hn, b.imp id (fun g => g.mono hn)⟩
  · intro h3
    obtain ⟨f0, f1, e, r0, g1, t⟩ := h.firsts h3
    exact ⟨f0, f1, e, r0, g1.mono hn, t⟩

theorem lastTwo_inj {β : Type} {b : PointBuffer β} {x y x' y' : β} (h : b.lastTwo = some (x, y))
    (h' : b.lastTwo = some (x', y')) : x' = x ∧ y' = y := by
  rw [h] at h'
  simp only [Option.some.injEq, Prod.mk.injEq] at h'
  exact ⟨h'.1.symm, h'.2.symm⟩

/-- `replace_last` with the same endpoint after a rewrite that keeps ids and fold flags (edge
attachment, the position fix-up of `close` when the window is full) -/
theorem InvC.setLast {buf : PointBuffer (EP α)} {firsts : List (EP α)} {n : Nat}
    (h : InvC thr c G buf firsts n) {y y' : EP α} (hl : buf.last = some y)
    (hF : c.F y') (hid : y'.ids = y.ids) (hpos : buf.count ≤ 2 → y'.position = y.position) :
    ∃ b', buf.replaceLast y' = some b' ∧ InvC thr c G b' firsts n ∧ b'.count = buf.count
      ∧ b'.last = some y' ∧ (∀ x z, buf.lastTwo = some (x, z) → b'.lastTwo = some (x, y')) := by
  have hc : 0 < buf.count := by
    by_contra hc
    rw [last_none (by omega)] at hl; cases hl
  obtain ⟨b', hb, hwf', hcnt', hlast', hlt'⟩ := h.wf.replaceLast hc y'
  refine ⟨b', hb, ⟨hwf', ?_, ?_, h.clsF, ?_, ?_, ?_, ?_, ?_, ?_⟩, hcnt', hlast', hlt'⟩
  · intro z hz
    rw [hlast'] at hz; simp only [Option.some.injEq] at hz; subst hz; exact hF
  · intro x z hxz
    obtain ⟨x0, z0, h0⟩ := h.wf.lastTwo_some (by have := WF.lastTwo_count x z hxz; omega)
    obtain ⟨rfl, _⟩ := lastTwo_inj (hlt' x0 z0 h0) hxz
    exact h.cls2 _ _ h0
  · intro x z hxz
    obtain ⟨x0, z0, h0⟩ := h.wf.lastTwo_some (by have := WF.lastTwo_count x z hxz; omega)
    obtain ⟨rfl, _⟩ := lastTwo_inj (hlt' x0 z0 h0) hxz
    exact h.geo _ _ h0
  · intro h1 z hz
    rw [hlast'] at hz; simp only [Option.some.injEq] at hz; subst hz
    rw [hid]; exact h.one (by omega) y hl
  · intro h2 x z hxz
    obtain ⟨x0, z0, h0⟩ := h.wf.lastTwo_some (by omega)
    obtain ⟨rfl, rfl⟩ := lastTwo_inj (hlt' x0 z0 h0) hxz
    have hz0 : z0 = y := by
      have := h.wf.lastTwo_last _ _ h0
      rw [hl] at this; simp only [Option.some.injEq] at this; exact this.symm
    subst hz0
    obtain ⟨a, b, t⟩ := h.two (by omega) _ _ h0
    exact ⟨a, by rw [hid]; exact b, by rw [hpos (by omega)]; exact t⟩
  · intro h3 x z hxz
    obtain ⟨x0, z0, h0⟩ := h.wf.lastTwo_some (by omega)
    obtain ⟨rfl, rfl⟩ := lastTwo_inj (hlt' x0 z0 h0) hxz
    have hz0 : z0 = y := by
      have := h.wf.lastTwo_last _ _ h0
      rw [hl] at this; simp only [Option.some.injEq] at this; exact this.symm
    subst hz0
    obtain ⟨a, b⟩ := h.three (by omega) _ _ h0
    exact ⟨a, by rw [hid]; exact b⟩
  · intro h3; exact h.firsts (by omega)
  · intro h2; exact h.nofirsts (by omega)

/-- the first point of a sub-path is pushed -/
theorem InvC.push_first {buf : PointBuffer (EP α)} {firsts : List (EP α)} {n : Nat}
    (h : InvC thr c G buf firsts n) (h0 : buf.count = 0) {next : EP α} (hF : c.F next) (hr : Raw next.ids) :
    ∃ b', buf.push next = some b' ∧ InvC thr c G b' firsts n ∧ b'.count = 1 ∧ b'.last = some next := by
  obtain ⟨b', hb, hwf', hcnt', hlast', hlt'⟩ := h.wf.push next
  have hc1 : b'.count = 1 := by rw [hcnt', h0]; rfl
  refine ⟨b', hb, ⟨hwf', ?_, ?_, h.clsF, ?_, ?_, ?_, ?_, ?_, ?_⟩, hc1, hlast'⟩
  · intro z hz
    rw [hlast'] at hz; simp only [Option.some.injEq] at hz; subst hz; exact hF
  · intro x z hxz; have := WF.lastTwo_count x z hxz; omega
  · intro x z hxz; have := WF.lastTwo_count x z hxz; omega
  · intro _ z hz
    rw [hlast'] at hz; simp only [Option.some.injEq] at hz; subst hz; exact hr
  · intro h2; omega
  · intro h3; omega
  · intro h3; omega
  · intro _; exact h.nofirsts (by omega)

/-- the second point arrives: the first point is rewritten (side points of the first edge), the
second is pushed -/
theorem InvC.push_second {buf : PointBuffer (EP α)} {firsts : List (EP α)} {n : Nat}
    (h : InvC thr c G buf firsts n) (h1 : buf.count = 1) {first first' next next' : EP α}
    (hl : buf.last = some first)
    (u1 : Upd first first') (id1 : first'.ids = first.ids) (g1 : GE G first')
    (hF : c.F next) (hr : Raw next.ids) (u2 : Upd next next') (id2 : next'.ids = next.ids)
    (hfar : pointsAreTooClose thr first.position next.position = false) :
    ∃ b1 b2, buf.replaceLast first' = some b1 ∧ b1.push next' = some b2
      ∧ InvC thr c G b2 firsts n ∧ b2.count = 2 ∧ b2.last = some next' := by
  obtain ⟨b1, hb1, hI1, hc1, hl1, _⟩ := h.setLast hl (Cls.F_upd (h.cls1 _ hl) u1) id1 (fun _ => u1.pos)
  obtain ⟨b2, hb2, hwf2, hc2, hl2, hlt2⟩ := hI1.wf.push next'
  have hcnt : b2.count = 2 := by rw [hc2, hc1, h1]; rfl
  refine ⟨b1, b2, hb1, hb2, ⟨hwf2, ?_, ?_, h.clsF, ?_, ?_, ?_, ?_, ?_, ?_⟩, hcnt, hl2⟩
  · intro z hz
    rw [hl2] at hz; simp only [Option.some.injEq] at hz; subst hz; exact Cls.F_upd hF u2
  · intro x z hxz
    obtain ⟨rfl, _⟩ := lastTwo_inj (hlt2 first' hl1) hxz
    exact Cls.F_upd (h.cls1 _ hl) u1
  · intro x z hxz
    obtain ⟨rfl, _⟩ := lastTwo_inj (hlt2 first' hl1) hxz
    exact g1
  · intro h; omega
  · intro _ x z hxz
    obtain ⟨rfl, rfl⟩ := lastTwo_inj (hlt2 first' hl1) hxz
    refine ⟨by rw [id1]; exact h.one (by omega) _ hl, by rw [id2]; exact hr, ?_⟩
    rw [u1.pos, u2.pos]; exact hfar
  · intro h3; omega
  · intro h3; omega
  · intro _; exact h.nofirsts (by omega)

/-- a join is committed: the middle point `join` is replaced by `j'` (all four ids valid), `firsts`
is set at the first join of the sub-path, `n'` is pushed -/
theorem InvC.commit {buf : PointBuffer (EP α)} {firsts : List (EP α)} {n m : Nat}
    (h : InvC thr c G buf firsts n) {prev join j' next n' : EP α}
    (hxy : buf.lastTwo = some (prev, join)) (hnm : n ≤ m)
    (uj : Upd join j') (gj : GE G j') (hg : Good m j'.ids)
    (hF : c.F next) (hn : Raw next.ids ∨ (3 ≤ buf.count ∧ Good n next.ids))
    (un : Upd next n') (idn : n'.ids = next.ids) :
    ∃ b1 b2, buf.replaceLast j' = some b1 ∧ b1.push n' = some b2
      ∧ InvC thr c G b2 (if buf.count == 2 then [prev, j'] else firsts) m
      ∧ b2.count = 3 ∧ b2.last = some n' := by
  have hc2 : 2 ≤ buf.count := WF.lastTwo_count _ _ hxy
  have hle := h.wf.count_le
  have hlast := h.wf.lastTwo_last _ _ hxy
  obtain ⟨b1, hb1, hwf1, hc1, hl1, hlt1⟩ := h.wf.replaceLast (by omega) j'
  obtain ⟨b2, hb2, hwf2, hcnt2, hl2, hlt2⟩ := hwf1.push n'
  have hc3 : b2.count = 3 := by rw [hcnt2, hc1]; omega
  have hFj : c.F j' := Cls.F_upd (h.cls1 _ hlast) uj
  refine ⟨b1, b2, hb1, hb2, ⟨hwf2, ?_, ?_, ?_, ?_, ?_, ?_, ?_, ?_, ?_⟩, hc3, hl2⟩
  · intro z hz
    rw [hl2] at hz; simp only [Option.some.injEq] at hz; subst hz; exact Cls.F_upd hF un
  · intro x z hxz
    obtain ⟨rfl, _⟩ := lastTwo_inj (hlt2 j' hl1) hxz
    exact hFj
  · intro f hf
    by_cases h2 : buf.count = 2
    · simp only [h2, beq_self_eq_true, if_true, List.mem_cons, List.mem_nil_iff, or_false] at hf
      rcases hf with rfl | rfl
      · exact h.cls2 _ _ hxy
      · exact hFj
    · have : (buf.count == 2) = false := by simpa using h2
      rw [this] at hf
      exact h.clsF f hf
  · intro x z hxz
    obtain ⟨rfl, _⟩ := lastTwo_inj (hlt2 j' hl1) hxz
    exact gj
  · intro h; omega
  · intro h; omega
  · intro _ x z hxz
    obtain ⟨rfl, rfl⟩ := lastTwo_inj (hlt2 j' hl1) hxz
    refine ⟨hg, ?_⟩
    rw [idn]
    rcases hn with hn | ⟨_, hn⟩
    · exact Or.inl hn
    · exact Or.inr (hn.mono hnm)
  · intro _
    by_cases h2 : buf.count = 2
    · obtain ⟨rx, ry, rc⟩ := h.two h2 _ _ hxy
      simp only [h2, beq_self_eq_true, if_true]
      exact ⟨prev, j', rfl, rx, hg, by rw [uj.pos]; exact rc⟩
    · have hne : (buf.count == 2) = false := by simpa using h2
      obtain ⟨f0, f1, e, r0, g1, t⟩ := h.firsts (by omega)
      rw [hne]
      exact ⟨f0, f1, e, r0, g1.mono hnm, t⟩
  · intro h; omega

/-- a join is skipped (variable width, `flattened_step` answered `true`): the middle point is
dropped, the new point takes its place; no output -/
theorem InvC.skip {buf : PointBuffer (EP α)} {firsts : List (EP α)} {n : Nat}
    (h : InvC thr c G buf firsts n) {prev join next n' : EP α}
    (hxy : buf.lastTwo = some (prev, join))
    (hF : c.F next) (hn : Raw next.ids ∨ (3 ≤ buf.count ∧ Good n next.ids))
    (un : Upd next n') (idn : n'.ids = next.ids)
    (hfar : buf.count = 2 → pointsAreTooClose thr prev.position next.position = false) :
    ∃ b1, buf.replaceLast n' = some b1 ∧ InvC thr c G b1 firsts n
      ∧ b1.count = buf.count ∧ b1.last = some n' := by
  have hc2 : 2 ≤ buf.count := WF.lastTwo_count _ _ hxy
  have hle := h.wf.count_le
  obtain ⟨b1, hb1, hwf1, hc1, hl1, hlt1⟩ := h.wf.replaceLast (by omega) n'
  refine ⟨b1, hb1, ⟨hwf1, ?_, ?_, h.clsF, ?_, ?_, ?_, ?_, ?_, ?_⟩, hc1, hl1⟩
  · intro z hz
    rw [hl1] at hz; simp only [Option.some.injEq] at hz; subst hz; exact Cls.F_upd hF un
  · intro x z hxz
    obtain ⟨rfl, _⟩ := lastTwo_inj (hlt1 _ _ hxy) hxz
    exact h.cls2 _ _ hxy
  · intro x z hxz
    obtain ⟨rfl, _⟩ := lastTwo_inj (hlt1 _ _ hxy) hxz
    exact h.geo _ _ hxy
  · intro h; omega
  · intro h2 x z hxz
    obtain ⟨rfl, rfl⟩ := lastTwo_inj (hlt1 _ _ hxy) hxz
    obtain ⟨rx, _, _⟩ := h.two (by omega) _ _ hxy
    refine ⟨rx, ?_, by rw [un.pos]; exact hfar (by omega)⟩
    rw [idn]
    rcases hn with hn | ⟨h3, _⟩
    · exact hn
    · omega
  · intro h3 x z hxz
    obtain ⟨rfl, rfl⟩ := lastTwo_inj (hlt1 _ _ hxy) hxz
    obtain ⟨gx, _⟩ := h.three (by omega) _ _ hxy
    refine ⟨gx, ?_⟩
    rw [idn]
    rcases hn with hn | ⟨_, hn⟩
    · exact Or.inl hn
    · exact Or.inr hn
  · intro h3; exact h.firsts (by omega)
  · intro h2; exact h.nofirsts (by omega)

end

end Lyon.C05c
