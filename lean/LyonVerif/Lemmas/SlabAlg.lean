/-
  Slab checker soundness, part 1: ordered-field algebra.

  * `xAt_eq`            the abscissa of an item's supporting line is affine in the ordinate
  * `crossY_eq_some`    `crossY` finds every ordinate where two non-parallel supporting lines meet
                        inside both items' closed y-ranges
  * `order_cross`       two items spanning a slab whose order differs at two ordinates of the open
                        slab have a `crossY` strictly inside the slab (order preservation,
                        contrapositive form)
  * `sqDistSeg_le_iff`  `sqDistSeg p a b ≤ d` iff some point of the segment is within `d` of `p`
  * `band_convex`       the band `{p | sqDistSeg p a b ≤ d}` is convex
  * `band_quad`         a point of a trapezoid with horizontal bases is in the band of a segment
                        if the four corners are
  * `bandRec_sound`     the bisecting band test only accepts trapezoids inside the outline's band
-/
import LyonVerif.Model.Slab
import LyonVerif.Lemmas.Field
import Mathlib.Tactic.Positivity
import Mathlib.Tactic.NormNum

set_option linter.unusedSectionVars false
set_option linter.unusedVariables false

namespace Lyon.Slab
open Lyon

variable {K : Type} [Field K] [LinearOrder K] [IsStrictOrderedRing K]

/-- slope `dx/dy` of the supporting line -/
noncomputable def Item.slope (it : Item K) : K := (it.b.x - it.a.x) / (it.b.y - it.a.y)

/-- abscissa of the supporting line at ordinate 0 -/
noncomputable def Item.icpt (it : Item K) : K := it.a.x - it.slope * it.a.y

theorem xAt_eq (it : Item K) (y : K) : it.xAt y = it.icpt + it.slope * y := by
  unfold Item.xAt Item.icpt Item.slope
  ring

theorem spans_iff (it : Item K) (y0 y1 : K) : it.spans y0 y1 = true ↔ it.a.y ≤ y0 ∧ y1 ≤ it.b.y := by
  unfold Item.spans
  simp

theorem leftOf_iff (it : Item K) (q : P K) :
    it.leftOf q = true ↔ it.a.y ≤ q.y ∧ q.y < it.b.y ∧ it.xAt q.y < q.x := by
  unfold Item.leftOf
  simp [and_assoc]

theorem crossY_self (i : Item K) : crossY i i = none := by
  unfold crossY
  split_ifs
  · rfl
  · unfold crossYLines
    simp only []
    rw [if_pos]
    rw [sc_beq]

/-- completeness of `crossY`: an ordinate where the two (non-parallel) supporting lines meet and
which lies in both closed y-ranges is returned -/
theorem crossY_eq_some (i j : Item K) (y : K) (hs : i.slope ≠ j.slope)
    (hx : i.xAt y = j.xAt y)
    (h1 : i.a.y ≤ y) (h2 : y ≤ i.b.y) (h3 : j.a.y ≤ y) (h4 : y ≤ j.b.y) :
    crossY i j = some y := by
  have hy : (j.icpt - i.icpt) / (i.slope - j.slope) = y := by
    rw [div_eq_iff (sub_ne_zero.mpr hs)]
    rw [xAt_eq, xAt_eq] at hx
    linear_combination (-1 : K) * hx
  unfold crossY
  have hg : ¬ ((decide (i.b.y < j.a.y) || decide (j.b.y < i.a.y)) = true) := by
    simp only [Bool.or_eq_true, decide_eq_true_eq, not_or, not_lt]
    exact ⟨le_trans h3 h2, le_trans h1 h4⟩
  rw [if_neg hg]
  unfold crossYLines
  simp only []
  have hne : ¬ (((i.b.x - i.a.x) / (i.b.y - i.a.y) == (j.b.x - j.a.x) / (j.b.y - j.a.y)) = true) := by
    rw [sc_beq]; exact hs
  rw [if_neg hne]
  unfold Item.icpt Item.slope at hy
  rw [hy]
  simp [h1, h2, h3, h4]

/-- **Order preservation** (contrapositive form).  Two items spanning the slab `(y0,y1)` with
`x_i(u) < x_j(u)` but `x_j(v) ≤ x_i(v)` at ordinates `u`, `v` of the open slab: their supporting
lines cross at an ordinate strictly inside the slab, and `crossY` reports it (in both argument
orders). -/
theorem order_cross (i j : Item K) (y0 y1 u v : K)
    (hi0 : i.a.y ≤ y0) (hi1 : y1 ≤ i.b.y) (hj0 : j.a.y ≤ y0) (hj1 : y1 ≤ j.b.y)
    (hu0 : y0 < u) (hu1 : u < y1) (hv0 : y0 < v) (hv1 : v < y1)
    (h : i.xAt u < j.xAt u) (hn : j.xAt v ≤ i.xAt v) :
    ∃ y, y0 < y ∧ y < y1 ∧ crossY i j = some y ∧ crossY j i = some y := by
  rw [xAt_eq, xAt_eq] at h hn
  set si := i.slope with hsi
  set sj := j.slope with hsj
  set ci := i.icpt with hci
  set cj := j.icpt with hcj
  have hD : 0 < (si - sj) * (v - u) := by nlinarith
  have hDne : si - sj ≠ 0 := by
    intro h0; rw [h0, zero_mul] at hD; exact lt_irrefl _ hD
  have hs : si ≠ sj := fun e => hDne (sub_eq_zero.mpr e)
  refine ⟨(cj - ci) / (si - sj), ?_, ?_, ?_, ?_⟩
  · rcases lt_or_gt_of_ne hDne with hneg | hpos
    · -- decreasing difference: v ≤ y* < u
      have : v ≤ (cj - ci) / (si - sj) := by
        rw [le_div_iff_of_neg hneg]; linarith
      linarith
    · have : u < (cj - ci) / (si - sj) := by
        rw [lt_div_iff₀ hpos]; linarith
      linarith
  · rcases lt_or_gt_of_ne hDne with hneg | hpos
    · have : (cj - ci) / (si - sj) < u := by
        rw [div_lt_iff_of_neg hneg]; linarith
      linarith
    · have : (cj - ci) / (si - sj) ≤ v := by
        rw [div_le_iff₀ hpos]; linarith
      linarith
  all_goals
    have hy0 : y0 < (cj - ci) / (si - sj) := by
      rcases lt_or_gt_of_ne hDne with hneg | hpos
      · have : v ≤ (cj - ci) / (si - sj) := by
          rw [le_div_iff_of_neg hneg]; linarith
        linarith
      · have : u < (cj - ci) / (si - sj) := by
          rw [lt_div_iff₀ hpos]; linarith
        linarith
    have hy1 : (cj - ci) / (si - sj) < y1 := by
      rcases lt_or_gt_of_ne hDne with hneg | hpos
      · have : (cj - ci) / (si - sj) < u := by
          rw [div_lt_iff_of_neg hneg]; linarith
        linarith
      · have : (cj - ci) / (si - sj) ≤ v := by
          rw [div_le_iff₀ hpos]; linarith
        linarith
    have hmeet : ci + si * ((cj - ci) / (si - sj)) = cj + sj * ((cj - ci) / (si - sj)) := by
      have : (si - sj) * ((cj - ci) / (si - sj)) = cj - ci := mul_div_cancel₀ _ hDne
      linear_combination this
  · apply crossY_eq_some i j _ hs
    · rw [xAt_eq, xAt_eq]; exact hmeet
    all_goals linarith
  · apply crossY_eq_some j i _ (Ne.symm hs)
    · rw [xAt_eq, xAt_eq]; exact hmeet.symm
    all_goals linarith

/-! ### the tolerance band -/

/-- squared distance from `p` to the point of parameter `t` on the segment `a b` -/
noncomputable def sqDistAt (p a b : P K) (t : K) : K :=
  (p.x - (a.x + (b.x - a.x) * t)) ^ 2 + (p.y - (a.y + (b.y - a.y) * t)) ^ 2

theorem sum_sq_zero {x y : K} (h : x * x + y * y = 0) : x = 0 ∧ y = 0 := by
  have hx : x * x = 0 := by nlinarith [mul_self_nonneg x, mul_self_nonneg y]
  have hy : y * y = 0 := by nlinarith [mul_self_nonneg x, mul_self_nonneg y]
  exact ⟨mul_self_eq_zero.mp hx, mul_self_eq_zero.mp hy⟩

/-- `sqDistSeg` is a lower bound of the squared distances to the points of the segment … -/
theorem sqDistSeg_le_at (p a b : P K) (t : K) (h0 : 0 ≤ t) (h1 : t ≤ 1) :
    sqDistSeg p a b ≤ sqDistAt p a b t := by
  unfold sqDistSeg sqDistAt
  simp only [geom, Nat.cast_zero, Nat.cast_one]
  by_cases hl : ((b.x - a.x) * (b.x - a.x) + (b.y - a.y) * (b.y - a.y) == (0:K)) = true
  · rw [if_pos hl]
    rw [sc_beq] at hl
    obtain ⟨hx, hy⟩ := sum_sq_zero hl
    rw [hx, hy]; apply le_of_eq; ring
  · rw [if_neg hl]
    rw [sc_beq] at hl
    set vx := b.x - a.x with hvx
    set vy := b.y - a.y with hvy
    set wx := p.x - a.x with hwx
    set wy := p.y - a.y with hwy
    have hl2 : 0 < vx * vx + vy * vy :=
      lt_of_le_of_ne (by nlinarith [mul_self_nonneg vx, mul_self_nonneg vy]) (Ne.symm hl)
    set l2 := vx * vx + vy * vy with hl2d
    set t0 := (wx * vx + wy * vy) / l2 with ht0
    have hdot : wx * vx + wy * vy = t0 * l2 := by rw [ht0, div_mul_cancel₀ _ hl2.ne']
    have hrhs : (p.x - (a.x + vx * t)) ^ 2 + (p.y - (a.y + vy * t)) ^ 2
        = (wx * wx + wy * wy) - 2 * t * (t0 * l2) + t * t * l2 := by
      rw [← hdot, hl2d, hwx, hwy]; ring
    rw [hrhs]
    by_cases hc1 : t0 ≤ 0
    · rw [if_pos hc1]
      have A := mul_nonneg h0 (mul_nonneg (neg_nonneg.mpr hc1) hl2.le)
      have B := mul_nonneg (mul_self_nonneg t) hl2.le
      linear_combination 2 * A + B
    · rw [if_neg hc1]
      by_cases hc2 : 1 ≤ t0
      · rw [if_pos hc2]
        have hlhs : (p.x - b.x) * (p.x - b.x) + (p.y - b.y) * (p.y - b.y)
            = (wx * wx + wy * wy) - 2 * (t0 * l2) + l2 := by
          rw [← hdot, hl2d, hwx, hwy, hvx, hvy]; ring
        rw [hlhs]
        have e1 : 0 ≤ (1 - t) * ((t0 - 1) * l2) :=
          mul_nonneg (by linarith) (mul_nonneg (by linarith) hl2.le)
        have e2 : 0 ≤ (1 - t) * (1 - t) * l2 := mul_nonneg (mul_self_nonneg _) hl2.le
        linear_combination 2 * e1 + e2
      · rw [if_neg hc2]
        have hlhs : (p.x - (a.x + vx * t0)) * (p.x - (a.x + vx * t0))
              + (p.y - (a.y + vy * t0)) * (p.y - (a.y + vy * t0))
            = (wx * wx + wy * wy) - 2 * t0 * (t0 * l2) + t0 * t0 * l2 := by
          rw [← hdot, hl2d, hwx, hwy]; ring
        rw [hlhs]
        have e : 0 ≤ (t - t0) * (t - t0) * l2 := mul_nonneg (mul_self_nonneg _) hl2.le
        linear_combination e

/-- … and is attained -/
theorem sqDistSeg_attained (p a b : P K) :
    ∃ t, 0 ≤ t ∧ t ≤ 1 ∧ sqDistSeg p a b = sqDistAt p a b t := by
  unfold sqDistSeg sqDistAt
  simp only [geom, Nat.cast_zero, Nat.cast_one]
  by_cases hl : ((b.x - a.x) * (b.x - a.x) + (b.y - a.y) * (b.y - a.y) == (0:K)) = true
  · rw [if_pos hl]
    exact ⟨0, le_refl _, zero_le_one, by ring⟩
  · rw [if_neg hl]
    by_cases hc1 : ((p.x - a.x) * (b.x - a.x) + (p.y - a.y) * (b.y - a.y))
        / ((b.x - a.x) * (b.x - a.x) + (b.y - a.y) * (b.y - a.y)) ≤ 0
    · rw [if_pos hc1]
      exact ⟨0, le_refl _, zero_le_one, by ring⟩
    · rw [if_neg hc1]
      by_cases hc2 : 1 ≤ ((p.x - a.x) * (b.x - a.x) + (p.y - a.y) * (b.y - a.y))
          / ((b.x - a.x) * (b.x - a.x) + (b.y - a.y) * (b.y - a.y))
      · rw [if_pos hc2]
        exact ⟨1, zero_le_one, le_refl _, by ring⟩
      · rw [if_neg hc2]
        exact ⟨_, (not_le.mp hc1).le, (not_le.mp hc2).le, by ring⟩

theorem sqDistSeg_le_iff (p a b : P K) (d : K) :
    sqDistSeg p a b ≤ d ↔ ∃ t, 0 ≤ t ∧ t ≤ 1 ∧ sqDistAt p a b t ≤ d := by
  constructor
  · intro h
    obtain ⟨t, h0, h1, e⟩ := sqDistSeg_attained p a b
    exact ⟨t, h0, h1, e ▸ h⟩
  · rintro ⟨t, h0, h1, h⟩
    exact le_trans (sqDistSeg_le_at p a b t h0 h1) h

/-- **The band of a segment is convex.** -/
theorem band_convex (a b : P K) (d : K) (p1 p2 p : P K) (lam : K) (h0 : 0 ≤ lam) (h1 : lam ≤ 1)
    (hx : p.x = (1 - lam) * p1.x + lam * p2.x) (hy : p.y = (1 - lam) * p1.y + lam * p2.y)
    (hp1 : sqDistSeg p1 a b ≤ d) (hp2 : sqDistSeg p2 a b ≤ d) : sqDistSeg p a b ≤ d := by
  rw [sqDistSeg_le_iff] at hp1 hp2 ⊢
  obtain ⟨t1, h10, h11, e1⟩ := hp1
  obtain ⟨t2, h20, h21, e2⟩ := hp2
  have hl' : 0 ≤ 1 - lam := by linarith
  refine ⟨(1 - lam) * t1 + lam * t2, ?_, ?_, ?_⟩
  · exact add_nonneg (mul_nonneg hl' h10) (mul_nonneg h0 h20)
  · nlinarith [mul_le_mul_of_nonneg_left h11 hl', mul_le_mul_of_nonneg_left h21 h0]
  · unfold sqDistAt at *
    rw [hx, hy]
    set u1x := p1.x - (a.x + (b.x - a.x) * t1) with hu1x
    set u1y := p1.y - (a.y + (b.y - a.y) * t1) with hu1y
    set u2x := p2.x - (a.x + (b.x - a.x) * t2) with hu2x
    set u2y := p2.y - (a.y + (b.y - a.y) * t2) with hu2y
    have ex : (1 - lam) * p1.x + lam * p2.x - (a.x + (b.x - a.x) * ((1 - lam) * t1 + lam * t2))
        = (1 - lam) * u1x + lam * u2x := by rw [hu1x, hu2x]; ring
    have ey : (1 - lam) * p1.y + lam * p2.y - (a.y + (b.y - a.y) * ((1 - lam) * t1 + lam * t2))
        = (1 - lam) * u1y + lam * u2y := by rw [hu1y, hu2y]; ring
    rw [ex, ey]
    have c : 0 ≤ lam * (1 - lam) := mul_nonneg h0 hl'
    have cx : 0 ≤ lam * (1 - lam) * (u1x - u2x) ^ 2 := mul_nonneg c (sq_nonneg _)
    have cy : 0 ≤ lam * (1 - lam) * (u1y - u2y) ^ 2 := mul_nonneg c (sq_nonneg _)
    have m1 := mul_le_mul_of_nonneg_left e1 hl'
    have m2 := mul_le_mul_of_nonneg_left e2 h0
    have key : ((1 - lam) * u1x + lam * u2x) ^ 2 + ((1 - lam) * u1y + lam * u2y) ^ 2
        = (1 - lam) * (u1x ^ 2 + u1y ^ 2) + lam * (u2x ^ 2 + u2y ^ 2)
          - lam * (1 - lam) * (u1x - u2x) ^ 2 - lam * (1 - lam) * (u1y - u2y) ^ 2 := by ring
    rw [key]
    linarith

/-- linear interpolation between the values `u0` at `y0` and `u1` at `y1` -/
noncomputable def lerpS (y0 y1 y u0 u1 : K) : K :=
  (1 - (y - y0) / (y1 - y0)) * u0 + (y - y0) / (y1 - y0) * u1

/-- the item's point at an ordinate of the slab is a convex combination of its points at the
slab's ends -/
theorem xAt_lerp (it : Item K) (y0 y1 y : K) (h : y0 ≠ y1) :
    it.xAt y = lerpS y0 y1 y (it.xAt y0) (it.xAt y1) := by
  unfold lerpS
  rw [xAt_eq, xAt_eq, xAt_eq]
  have hd : y1 - y0 ≠ 0 := sub_ne_zero.mpr (Ne.symm h)
  have e : (y - y0) / (y1 - y0) * (y1 - y0) = y - y0 := div_mul_cancel₀ _ hd
  linear_combination (-it.slope) * e

theorem lerpS_mid (y0 y1 y l0 l1 r0 r1 : K) :
    lerpS y0 y1 y ((l0 + r0) / 2) ((l1 + r1) / 2) = (lerpS y0 y1 y l0 l1 + lerpS y0 y1 y r0 r1) / 2 := by
  unfold lerpS; ring

/-- a line restricted to the lower half of the slab -/
theorem lerpS_lower (y0 y1 y u0 u1 : K) (h : y0 ≠ y1) :
    lerpS y0 ((y0 + y1) / 2) y u0 ((u0 + u1) / 2) = lerpS y0 y1 y u0 u1 := by
  unfold lerpS
  have hd : y1 - y0 ≠ 0 := sub_ne_zero.mpr (Ne.symm h)
  have e : (y0 + y1) / 2 - y0 = (y1 - y0) / 2 := by ring
  rw [e]
  field_simp
  ring

/-- a line restricted to the upper half of the slab -/
theorem lerpS_upper (y0 y1 y u0 u1 : K) (h : y0 ≠ y1) :
    lerpS ((y0 + y1) / 2) y1 y ((u0 + u1) / 2) u1 = lerpS y0 y1 y u0 u1 := by
  unfold lerpS
  have hd : y1 - y0 ≠ 0 := sub_ne_zero.mpr (Ne.symm h)
  have e : y1 - (y0 + y1) / 2 = (y1 - y0) / 2 := by ring
  rw [e]
  field_simp
  ring

/-- **A point of a trapezoid with horizontal bases is in the band of a segment if the four
corners are.** -/
theorem band_quad (a b : P K) (d : K) (y0 y1 l0 l1 r0 r1 : K) (q : P K) (hlt : y0 < y1)
    (hy0 : y0 ≤ q.y) (hy1 : q.y ≤ y1)
    (hl : lerpS y0 y1 q.y l0 l1 ≤ q.x) (hr : q.x ≤ lerpS y0 y1 q.y r0 r1)
    (hc : ∀ c ∈ quadCorners y0 y1 l0 l1 r0 r1, sqDistSeg c a b ≤ d) : sqDistSeg q a b ≤ d := by
  have hd : 0 < y1 - y0 := by linarith
  unfold lerpS at hl hr
  set t := (q.y - y0) / (y1 - y0) with ht
  have ht0 : 0 ≤ t := div_nonneg (by linarith) hd.le
  have ht1 : t ≤ 1 := by rw [ht, div_le_one hd]; linarith
  have hqy : q.y = (1 - t) * y0 + t * y1 := by
    have e : t * (y1 - y0) = q.y - y0 := div_mul_cancel₀ _ hd.ne'
    linear_combination (-1 : K) * e
  unfold quadCorners at hc
  have c1 := hc ⟨l0, y0⟩ (by simp)
  have c2 := hc ⟨r0, y0⟩ (by simp)
  have c3 := hc ⟨l1, y1⟩ (by simp)
  have c4 := hc ⟨r1, y1⟩ (by simp)
  have hL : sqDistSeg (⟨(1 - t) * l0 + t * l1, q.y⟩ : P K) a b ≤ d :=
    band_convex a b d _ _ _ t ht0 ht1 rfl hqy c1 c3
  have hR : sqDistSeg (⟨(1 - t) * r0 + t * r1, q.y⟩ : P K) a b ≤ d :=
    band_convex a b d _ _ _ t ht0 ht1 rfl hqy c2 c4
  set xl := (1 - t) * l0 + t * l1 with hxl
  set xr := (1 - t) * r0 + t * r1 with hxr
  rcases eq_or_lt_of_le (le_trans hl hr) with heq | hw
  · -- degenerate: the two lines meet at this ordinate, so `q` is that point
    have e : q = ⟨xl, q.y⟩ := by
      apply P.ext'
      · exact le_antisymm (by rw [heq]; exact hr) hl
      · rfl
    rw [e]; exact hL
  · have hw' : 0 < xr - xl := by linarith
    have hs0 : 0 ≤ (q.x - xl) / (xr - xl) := div_nonneg (by linarith) hw'.le
    have hs1 : (q.x - xl) / (xr - xl) ≤ 1 := by rw [div_le_one hw']; linarith
    refine band_convex a b d _ _ q ((q.x - xl) / (xr - xl)) hs0 hs1 ?_ ?_ hL hR
    · have e : (q.x - xl) / (xr - xl) * (xr - xl) = q.x - xl := div_mul_cancel₀ _ hw'.ne'
      show q.x = (1 - (q.x - xl) / (xr - xl)) * xl + (q.x - xl) / (xr - xl) * xr
      linear_combination (-1 : K) * e
    · show q.y = (1 - (q.x - xl) / (xr - xl)) * q.y + (q.x - xl) / (xr - xl) * q.y
      ring

/-- the outline's tolerance band: within `d2` of some outline edge -/
def inBandOf (edges : List (P K × P K)) (d2 : K) (q : P K) : Prop :=
  ∃ e ∈ edges, sqDistSeg q e.1 e.2 ≤ d2

theorem bandCovers_iff (edges : List (P K × P K)) (d2 : K) (cs : List (P K)) :
    bandCovers edges d2 cs = true ↔ ∃ e ∈ edges, ∀ c ∈ cs, sqDistSeg c e.1 e.2 ≤ d2 := by
  unfold bandCovers
  simp [List.any_eq_true, List.all_eq_true]

/-- **Soundness of the subdividing band test**: if `bandRec` accepts the trapezoid between the
lines `(l0,y0)–(l1,y1)` and `(r0,y0)–(r1,y1)`, every point of the slab between the two lines is
within `d2` of some outline edge. -/
theorem bandRec_sound (edges : List (P K × P K)) (d2 : K) (q : P K) :
    ∀ (depth : Nat) (y0 y1 l0 l1 r0 r1 : K), bandRec edges d2 depth y0 y1 l0 l1 r0 r1 = true →
      y0 < y1 → y0 ≤ q.y → q.y ≤ y1 →
      lerpS y0 y1 q.y l0 l1 ≤ q.x → q.x ≤ lerpS y0 y1 q.y r0 r1 → inBandOf edges d2 q := by
  have base : ∀ (y0 y1 l0 l1 r0 r1 : K), bandCovers edges d2 (quadCorners y0 y1 l0 l1 r0 r1) = true →
      y0 < y1 → y0 ≤ q.y → q.y ≤ y1 →
      lerpS y0 y1 q.y l0 l1 ≤ q.x → q.x ≤ lerpS y0 y1 q.y r0 r1 → inBandOf edges d2 q := by
    intro y0 y1 l0 l1 r0 r1 h hlt hy0 hy1 hl hr
    obtain ⟨e, he, hc⟩ := (bandCovers_iff _ _ _).mp h
    exact ⟨e, he, band_quad e.1 e.2 d2 y0 y1 l0 l1 r0 r1 q hlt hy0 hy1 hl hr hc⟩
  -- choosing the left or right part of a (half-)slab
  have side : ∀ (n : Nat) (ya yb la lb ra rb : K),
      (∀ (y0 y1 l0 l1 r0 r1 : K), bandRec edges d2 n y0 y1 l0 l1 r0 r1 = true →
        y0 < y1 → y0 ≤ q.y → q.y ≤ y1 →
        lerpS y0 y1 q.y l0 l1 ≤ q.x → q.x ≤ lerpS y0 y1 q.y r0 r1 → inBandOf edges d2 q) →
      bandRec edges d2 n ya yb la lb ((la + ra) / 2) ((lb + rb) / 2) = true →
      bandRec edges d2 n ya yb ((la + ra) / 2) ((lb + rb) / 2) ra rb = true →
      ya < yb → ya ≤ q.y → q.y ≤ yb →
      lerpS ya yb q.y la lb ≤ q.x → q.x ≤ lerpS ya yb q.y ra rb → inBandOf edges d2 q := by
    intro n ya yb la lb ra rb ih h1 h2 hlt hy0 hy1 hl hr
    have hm := lerpS_mid ya yb q.y la lb ra rb
    rcases le_total q.x ((lerpS ya yb q.y la lb + lerpS ya yb q.y ra rb) / 2) with hle | hge
    · exact ih ya yb la lb _ _ h1 hlt hy0 hy1 hl (by rw [hm]; exact hle)
    · exact ih ya yb _ _ ra rb h2 hlt hy0 hy1 (by rw [hm]; exact hge) hr
  intro depth
  induction depth with
  | zero =>
    intro y0 y1 l0 l1 r0 r1 h
    rw [bandRec] at h
    exact base y0 y1 l0 l1 r0 r1 h
  | succ n ih =>
    intro y0 y1 l0 l1 r0 r1 h hlt hy0 hy1 hl hr
    rw [bandRec] at h
    have e2 : (Scalar.two : K) = 2 := sc_two
    rw [e2, Bool.or_eq_true, Bool.and_eq_true, Bool.and_eq_true, Bool.and_eq_true] at h
    rcases h with h | ⟨⟨⟨h1, h2⟩, h3⟩, h4⟩
    · exact base y0 y1 l0 l1 r0 r1 h hlt hy0 hy1 hl hr
    · have hne : y0 ≠ y1 := hlt.ne
      rcases le_total q.y ((y0 + y1) / 2) with hlo | hhi
      · -- lower half
        refine side n y0 ((y0 + y1) / 2) l0 ((l0 + l1) / 2) r0 ((r0 + r1) / 2) ih h1 h2
          (by linarith) hy0 hlo ?_ ?_
        · rw [lerpS_lower _ _ _ _ _ hne]; exact hl
        · rw [lerpS_lower _ _ _ _ _ hne]; exact hr
      · -- upper half
        refine side n ((y0 + y1) / 2) y1 ((l0 + l1) / 2) l1 ((r0 + r1) / 2) r1 ih h3 h4
          (by linarith) hhi hy1 ?_ ?_
        · rw [lerpS_upper _ _ _ _ _ hne]; exact hl
        · rw [lerpS_upper _ _ _ _ _ hne]; exact hr

end Lyon.Slab
