/-
  Index validity of an emission sequence (`Array (Sweep.Emit α)`): vocabulary and list lemmas.

  * `nVerts l`       — number of `.vertex` emissions in `l`
  * `ValidFrom n l`  — every `.tri a b c` in `l` has `a, b, c < n + (number of `.vertex` before it)`
  * `OutOk out n`    — `ValidFrom 0 out.toList ∧ nVerts out.toList = n`
  * `validFrom_iff`  — the positional reading used in the statement of `sweep_indices_valid`
-/
import LyonVerif.Model.Tess.Sweep
import LyonVerif.Lemmas.SweepIdxMono

set_option linter.unusedSectionVars false
set_option linter.unusedVariables false
set_option linter.unusedSimpArgs false

namespace Lyon.SweepIdx
open Lyon Lyon.Scalar Lyon.Mono Lyon.Sweep

variable {α : Type}

/-- number of `.vertex` emissions -/
def nVerts : List (Emit α) → Nat
  | [] => 0
  | .vertex _ _ :: r => nVerts r + 1
  | .tri _ _ _ :: r => nVerts r

/-- every triangle names only vertices emitted before it (`n` = vertices emitted before the list) -/
def ValidFrom : Nat → List (Emit α) → Prop
  | _, [] => True
  | n, .vertex _ _ :: r => ValidFrom (n + 1) r
  | n, .tri a b c :: r => (a < n ∧ b < n ∧ c < n) ∧ ValidFrom n r

theorem nVerts_append : ∀ (a b : List (Emit α)), nVerts (a ++ b) = nVerts a + nVerts b
  | [], b => by simp [nVerts]
  | .vertex _ _ :: r, b => by simp only [List.cons_append, nVerts, nVerts_append r b]; omega
  | .tri _ _ _ :: r, b => by simp only [List.cons_append, nVerts, nVerts_append r b]

theorem validFrom_append : ∀ (n : Nat) (a b : List (Emit α)),
    ValidFrom n (a ++ b) ↔ ValidFrom n a ∧ ValidFrom (n + nVerts a) b
  | n, [], b => by simp [ValidFrom, nVerts]
  | n, .vertex _ _ :: r, b => by
    simp only [List.cons_append, ValidFrom, nVerts, validFrom_append (n + 1) r b]
    rw [show n + 1 + nVerts r = n + (nVerts r + 1) by omega]
  | n, .tri _ _ _ :: r, b => by
    simp only [List.cons_append, ValidFrom, nVerts, validFrom_append n r b, and_assoc]

/-- the triangles of a monotone tessellator, as emissions -/
def trisEmits (tris : List Mono.Tri) : List (Emit α) := tris.map fun t => .tri t.1 t.2.1 t.2.2

theorem nVerts_trisEmits : ∀ tris : List Mono.Tri, nVerts (trisEmits (α := α) tris) = 0
  | [] => rfl
  | _ :: r => by simp only [trisEmits, List.map_cons, nVerts]; exact nVerts_trisEmits r

theorem validFrom_trisEmits {n : Nat} : ∀ tris : List Mono.Tri, TrisLt n tris → ValidFrom n (trisEmits (α := α) tris)
  | [], _ => trivial
  | t :: r, h => by
    simp only [trisEmits, List.map_cons, ValidFrom]
    exact ⟨h t (by simp), validFrom_trisEmits r (fun u hu => h u (List.mem_cons_of_mem _ hu))⟩

/-- the `foldl … push` that `emitTris` and the final flush use -/
theorem foldl_push_tris (tris : List Mono.Tri) (o : Array (Emit α)) :
    (tris.foldl (fun o t => o.push (.tri t.1 t.2.1 t.2.2)) o).toList = o.toList ++ trisEmits tris := by
  induction tris generalizing o with
  | nil => simp [trisEmits]
  | cons t r ih => simp [List.foldl_cons, ih, trisEmits]

/-- the invariant on `St.out` / `St.nverts` -/
def OutOk (out : Array (Emit α)) (n : Nat) : Prop := ValidFrom 0 out.toList ∧ nVerts out.toList = n

theorem outOk_empty : OutOk (#[] : Array (Emit α)) 0 := ⟨trivial, rfl⟩

theorem outOk_push_tris {out : Array (Emit α)} {n : Nat} (h : OutOk out n) (tris : List Mono.Tri) (ht : TrisLt n tris) :
    OutOk (tris.foldl (fun o t => o.push (.tri t.1 t.2.1 t.2.2)) out) n := by
  unfold OutOk
  rw [foldl_push_tris, validFrom_append, nVerts_append, nVerts_trisEmits, h.2]
  exact ⟨⟨h.1, by simpa using validFrom_trisEmits tris ht⟩, rfl⟩

theorem outOk_push_vertex {out : Array (Emit α)} {n : Nat} (h : OutOk out n) (pos : P α)
    (recs : List (P α × EQ.EdgeData α)) : OutOk (out.push (.vertex pos recs)) (n + 1) := by
  unfold OutOk
  rw [Array.toList_push, validFrom_append, nVerts_append, h.2]
  exact ⟨⟨h.1, trivial⟩, rfl⟩

/-- positional reading: the triangle at position `i` names vertices emitted strictly before `i` -/
theorem validFrom_getElem : ∀ (n : Nat) (l : List (Emit α)), ValidFrom n l →
    ∀ (i a b c : Nat), l[i]? = some (.tri a b c) →
      a < n + nVerts (l.take i) ∧ b < n + nVerts (l.take i) ∧ c < n + nVerts (l.take i)
  | n, [], _, i, a, b, c, h => by simp at h
  | n, .vertex _ _ :: r, hv, 0, a, b, c, h => by simp at h
  | n, .vertex _ _ :: r, hv, i+1, a, b, c, h => by
    have := validFrom_getElem (n + 1) r hv i a b c (by simpa using h)
    simp only [List.take_succ_cons, nVerts]
    omega
  | n, .tri _ _ _ :: r, hv, 0, a, b, c, h => by
    simp only [List.getElem?_cons_zero, Option.some.injEq, Emit.tri.injEq] at h
    obtain ⟨rfl, rfl, rfl⟩ := h
    simpa [nVerts] using hv.1
  | n, .tri _ _ _ :: r, hv, i+1, a, b, c, h => by
    have := validFrom_getElem n r hv.2 i a b c (by simpa using h)
    simpa only [List.take_succ_cons, nVerts] using this

end Lyon.SweepIdx
