/-
  Reach of a single-segment stroke (fixed width, butt / square caps) in the complete stroker model:
  `begin p0, line_to p1, end(false)` emits four vertices; the two of the end point sit exactly at
  `p1 ± perp(t)·hw (+ t·hw for a square cap)`, the two of the start point at
  `p0 ± perp(t)·hw (− t·hw)`, `t` the unit tangent: squared distance `hw²` (butt) or `2·hw²` (square)
  from their endpoint.  Uses `Lyon.C06.cap_side_clip` (the cap clipping as a line intersection).
-/
import LyonVerif.Lemmas.StrokeIdxClipAdv
import LyonVerif.Lemmas.StrokeIdxClipGeo
import LyonVerif.Props.C06

set_option linter.unusedSectionVars false
set_option linter.unusedVariables false

namespace Lyon.C05c
open Lyon Scalar Lyon.Stroke Lyon.Stroke.Full Lyon.C05 Lyon.C05b
open Lyon.StrokeQuad (lineIntersection capSide)

section
variable {α : Type} [Scalar α] [Transc α] [Asin α] [FlatConst α]

/-- the output of `begin p0, line_to p1, end(false)` at the start of a tessellation: the last edge
(towards `p1`), then the first edge -/
theorem segment_out (e : Env α) (store : Nat → List α) (hfw : e.o.varWidth = false)
    (i0 i1 : Nat) (p0 p1 : P α) (hfar : pointsAreTooClose e.thr p0 p1 = false) :
    (runEvents e store [IdEv.begin i0 p0, IdEv.line i1 p1, IdEv.end_ false]).st.out
      = firstEdge e (firstPt e i0 i1 p0 p1)
          (lastEdge e (firstPt e i0 i1 p0 p1) (lastSidesFw (firstPt e i0 i1 p0 p1) (secondPt e i0 i1 p0 p1)) true (Out.empty 0)).1
          (lastEdge e (firstPt e i0 i1 p0 p1) (lastSidesFw (firstPt e i0 i1 p0 p1) (secondPt e i0 i1 p0 p1)) true (Out.empty 0)).2 := by
  obtain ⟨st2, hwf2, hab, hc2, hout, hrun⟩ := run_open_subpath_x e store hfw i0 i1 p0 p1 [] hfar
  have hl : (IdEv.begin i0 p0 :: IdEv.line i1 p1 :: (lineEvs ([] : List (Nat × P α)) ++ [IdEv.end_ false]))
      = [IdEv.begin i0 p0, IdEv.line i1 p1, IdEv.end_ false] := rfl
  rw [hl] at hrun
  rw [hrun]
  simp only [List.foldl_nil]
  have hcap : (({ st2 with mayNeedEmptyCap := st2.mayNeedEmptyCap || (false && st2.buf.count == 1) } : St α).mayNeedEmptyCap
      && ({ st2 with mayNeedEmptyCap := st2.mayNeedEmptyCap || (false && st2.buf.count == 1) } : St α).buf.count == 1) = false := by
    show ((st2.mayNeedEmptyCap || (false && st2.buf.count == 1)) && st2.buf.count == 1) = false
    simp [hc2]
  rw [endWithCaps_eq_some hcap (show ({ st2 with mayNeedEmptyCap := _ } : St α).buf.lastTwo = some _ from hab)]
  show firstEdge e (if st2.buf.count > 2 then _ else _) (if st2.buf.count > 2 then _ else _) _ = _
  rw [if_neg (by omega), if_neg (by omega)]
  unfold capsOut
  show firstEdge e _ (lastEdge e _ (if e.o.varWidth then _ else _) (st2.buf.count == 2) st2.out).1
    (lastEdge e _ (if e.o.varWidth then _ else _) (st2.buf.count == 2) st2.out).2 = _
  rw [hfw, hc2, hout]
  rfl

end
section Field
variable {K : Type} [Field K] [LinearOrder K] [IsStrictOrderedRing K] [Transc K]

/-- squared distance of a cap corner from its endpoint: `hw²` (butt), `2·hw²` (square) -/
def capReachSq (cap : LineCap) (hw : K) : K :=
  match cap with
  | .square => 2 * (hw * hw)
  | _ => hw * hw

theorem clipSidePos_eq_capSide (ix : Lyon.StrokeQuad.Ix K) (cap : LineCap) (p q : P K) (hw : K) (s o : P K) :
    clipSidePos ix cap p q hw s o = capSide ix cap p q s o hw := by
  unfold clipSidePos capSide capClip Lyon.StrokeQuad.Cap.clip
  cases cap <;> rfl

/-- what a vertex constructor reads back: `position_on_path + ((x − position_on_path)/hw)·hw = x` -/
theorem emit_position (p x : P K) (hw : K) (h : hw ≠ 0) : p + ((x - p).sdiv hw).smul hw = x := by
  apply P.ext' <;> simp only [geom] <;> field_simp <;> ring

/-- how far a cap moves the side points along the edge: `hw` (square), `0` (butt) -/
def capShift (cap : LineCap) (hw : K) : K :=
  match cap with
  | .square => hw
  | _ => 0

theorem capReachSq_eq (cap : LineCap) (hw : K) : capReachSq cap hw = hw * hw + capShift cap hw * capShift cap hw := by
  cases cap <;> simp only [capReachSq, capShift] <;> ring

/-- one clipped cap corner: the side point `p + perp(t)·c` (`t = normalize (p − q)` a unit vector), whose
side line runs along the edge (`sidePos − other = t·mu`, `|mu| > eps`), moves by `0` (butt) or `hw`
(square) along `t` -/
theorem clip_side_value (eps : K) (heps : 0 ≤ eps) (cap : LineCap) (hcap : cap ≠ .round) (p q other : P K) (c hw mu : K)
    (hunit : (normalize (p - q)).sqLen = 1)
    (hpar : (p + (perp (normalize (p - q))).smul c) - other = (normalize (p - q)).smul mu)
    (hmu : eps < |mu|) :
    clipSidePos (lineIntersection eps) cap p q hw (p + (perp (normalize (p - q))).smul c) other
      = p + (perp (normalize (p - q))).smul c + (normalize (p - q)).smul (capShift cap hw) := by
  rw [clipSidePos_eq_capSide]
  have hdet : eps < |(perp (normalize (p - q))).cross ((p + (perp (normalize (p - q))).smul c) - other)| := by
    rw [hpar]
    have e : (perp (normalize (p - q))).cross ((normalize (p - q)).smul mu) = -mu := by
      generalize normalize (p - q) = t at hunit
      simp only [perp, geom] at hunit ⊢
      linear_combination (-mu) * hunit
    rw [e, abs_neg]; exact hmu
  cases cap with
  | round => exact absurd rfl hcap
  | butt =>
    rw [Lyon.C06.cap_side_butt eps heps p q other c hw hdet]
    apply P.ext' <;> simp only [capShift, geom] <;> ring
  | square =>
    rw [Lyon.C06.cap_side_square eps heps p q other c hw mu hpar hdet]
    rfl

/-- the squared distance of such a corner from `p` -/
theorem corner_dist (p t : P K) (c s : K) (hunit : t.sqLen = 1) :
    ((p + (perp t).smul c + t.smul s) - p).sqLen = c * c + s * s := by
  simp only [perp, geom] at hunit ⊢
  linear_combination (c * c + s * s) * hunit

theorem normalize_swap (a b : P K) : normalize (a - b) = (normalize (b - a)).smul (-1) := by
  unfold Stroke.normalize
  have : (a - b).sqLen = (b - a).sqLen := by simp only [geom]; ring
  rw [this]
  apply P.ext' <;> simp only [geom] <;> ring

/-- a vertex sits on `pop` and reads one of the positions `xs` -/
def AtPos (pop : P K) (xs : List (P K)) (v : VData K) : Prop :=
  v.positionOnPath = pop ∧ v.read.position ∈ xs

theorem lastEdge_positions (e : Env K) (hc : e.o.endCap ≠ .round) (p0 p1 : EP K) (isFirst : Bool) (o : Out K)
    (hw0 : p1.halfWidth ≠ 0) :
    Emits (AtPos p1.position
        [clipSidePos e.ix e.o.endCap p1.position p0.position p1.halfWidth p1.pos.prev p0.pos.next,
         clipSidePos e.ix e.o.endCap p1.position p0.position p1.halfWidth p1.neg.prev p0.neg.next])
      o (lastEdge e p0 p1 isFirst o).2 := by
  have hr : (e.o.endCap == Lyon.StrokeQuad.Cap.round) = false := by
    cases h : e.o.endCap <;> simp_all
  have h1 := emit_position p1.position
    (clipSidePos e.ix e.o.endCap p1.position p0.position p1.halfWidth p1.pos.prev p0.pos.next) p1.halfWidth hw0
  have h2 := emit_position p1.position
    (clipSidePos e.ix e.o.endCap p1.position p0.position p1.halfWidth p1.neg.prev p0.neg.next) p1.halfWidth hw0
  unfold lastEdge
  simp only [hr, Bool.false_eq_true, if_false]
  split_ifs
  · exact ((Emits.refl _ _).vert ⟨rfl, by rw [List.mem_cons]; exact Or.inl h1⟩).vert
      ⟨rfl, by rw [List.mem_cons, List.mem_cons]; exact Or.inr (Or.inl h2)⟩
  · exact (((Emits.refl _ _).vert ⟨rfl, by rw [List.mem_cons]; exact Or.inl h1⟩).vert
      ⟨rfl, by rw [List.mem_cons, List.mem_cons]; exact Or.inr (Or.inl h2)⟩).tris _

theorem firstEdge_positions (e : Env K) (hc : e.o.startCap ≠ .round) (f s : EP K) (o : Out K)
    (hw0 : f.halfWidth ≠ 0) :
    Emits (AtPos f.position
        [clipSidePos e.ix e.o.startCap f.position s.position f.halfWidth f.pos.next s.pos.prev,
         clipSidePos e.ix e.o.startCap f.position s.position f.halfWidth f.neg.next s.neg.prev])
      o (firstEdge e f s o) := by
  have hr : (e.o.startCap == Lyon.StrokeQuad.Cap.round) = false := by
    cases h : e.o.startCap <;> simp_all
  have h1 := emit_position f.position
    (clipSidePos e.ix e.o.startCap f.position s.position f.halfWidth f.pos.next s.pos.prev) f.halfWidth hw0
  have h2 := emit_position f.position
    (clipSidePos e.ix e.o.startCap f.position s.position f.halfWidth f.neg.next s.neg.prev) f.halfWidth hw0
  unfold firstEdge
  simp only [hr, Bool.false_eq_true, if_false]
  exact (((Emits.refl _ _).vert ⟨rfl, by rw [List.mem_cons]; exact Or.inl h1⟩).vert
      ⟨rfl, by rw [List.mem_cons, List.mem_cons]; exact Or.inr (Or.inl h2)⟩).tris _

variable [Asin K] [FlatConst K]

/-- **(c) reach of a single-segment stroke.**  Fixed width `2·hw`, `hw > 0`, butt or square caps, the
exact `Line::intersection` with guard `eps`, the `sqrt` laws, an edge longer than `eps`:
`begin p0, line_to p1, end(false)` emits only vertices that sit on `p1` at squared distance `hw²` (butt
end cap) / `2·hw²` (square) from it, or on `p0` at squared distance `hw²` / `2·hw²` by the start cap -/
theorem segment_reach (e : Env K) (eps : K) (hix : e.ix = lineIntersection eps) (heps : 0 ≤ eps)
    (hs0 : ∀ x : K, 0 ≤ x → 0 ≤ Transc.sqrt x) (hs : ∀ x : K, 0 ≤ x → Transc.sqrt x * Transc.sqrt x = x)
    (store : Nat → List K) (hfw : e.o.varWidth = false)
    (hsc : e.o.startCap ≠ .round) (hec : e.o.endCap ≠ .round)
    (i0 i1 : Nat) (p0 p1 : P K) (hfar : pointsAreTooClose e.thr p0 p1 = false)
    (hlen : eps < len (p1 - p0)) (hhw : 0 < e.hwFw) :
    ∀ v ∈ (runEvents e store [IdEv.begin i0 p0, IdEv.line i1 p1, IdEv.end_ false]).st.out.verts,
      (v.positionOnPath = p1 ∧ (v.read.position - p1).sqLen = capReachSq e.o.endCap e.hwFw)
      ∨ (v.positionOnPath = p0 ∧ (v.read.position - p0).sqLen = capReachSq e.o.startCap e.hwFw) := by
  rw [segment_out e store hfw i0 i1 p0 p1 hfar]
  have hw0 : e.hwFw ≠ 0 := ne_of_gt hhw
  -- the unit tangent
  have hL0 : 0 < len (p1 - p0) := lt_of_le_of_lt heps hlen
  have hnn : (0 : K) ≤ (p1 - p0).sqLen := by simp only [geom]; exact add_nonneg (mul_self_nonneg _) (mul_self_nonneg _)
  have hL2 : len (p1 - p0) * len (p1 - p0) = (p1 - p0).sqLen := hs _ hnn
  have hsq : 0 < (p1 - p0).sqLen := by rw [← hL2]; exact mul_pos hL0 hL0
  have hunit : (normalize (p1 - p0)).sqLen = 1 := (sdiv_unit hs0 hs (p1 - p0) hsq).2
  have hE : (normalize (p1 - p0)).smul (len (p1 - p0)) = p1 - p0 := by
    have hne : len (p1 - p0) ≠ 0 := ne_of_gt hL0
    show ((p1 - p0).sdiv (len (p1 - p0))).smul (len (p1 - p0)) = p1 - p0
    generalize len (p1 - p0) = L0 at hne
    apply P.ext' <;> simp only [geom] <;> exact div_mul_cancel₀ _ hne
  have hswap := normalize_swap p0 p1
  have hunit' : (normalize (p0 - p1)).sqLen = 1 := by
    rw [hswap]; simp only [geom] at hunit ⊢; linear_combination hunit
  generalize hL : len (p1 - p0) = L at hL0 hE hlen
  generalize ht : normalize (p1 - p0) = t at hunit hE hswap
  set hw := e.hwFw with hhwdef
  set sE := capShift e.o.endCap hw with hsE
  have hsE0 : 0 ≤ sE := by
    rw [hsE]; cases e.o.endCap <;> simp only [capShift] <;> linarith
  -- the four corners
  have hmuE : eps < |L| := by rw [abs_of_pos hL0]; exact hlen
  have hv1 : clipSidePos e.ix e.o.endCap p1 p0 hw (p1 + (perp (normalize (p1 - p0))).smul hw) (p0 + (perp t).smul hw)
      = p1 + (perp t).smul hw + t.smul sE := by
    rw [hix]
    have := clip_side_value eps heps e.o.endCap hec p1 p0 (p0 + (perp t).smul hw) hw hw L (by rw [ht]; exact hunit)
      (by rw [ht, hE]; apply P.ext' <;> simp only [geom] <;> ring) hmuE
    rw [ht] at this ⊢; exact this
  have hv2 : clipSidePos e.ix e.o.endCap p1 p0 hw (p1 - (perp (normalize (p1 - p0))).smul hw) (p0 - (perp t).smul hw)
      = p1 + (perp t).smul (-hw) + t.smul sE := by
    rw [hix]
    have e1 : p1 - (perp (normalize (p1 - p0))).smul hw = p1 + (perp (normalize (p1 - p0))).smul (-hw) := by
      apply P.ext' <;> simp only [geom] <;> ring
    rw [e1]
    have := clip_side_value eps heps e.o.endCap hec p1 p0 (p0 - (perp t).smul hw) (-hw) hw L (by rw [ht]; exact hunit)
      (by rw [ht, hE]; apply P.ext' <;> simp only [geom] <;> ring) hmuE
    rw [ht] at this ⊢; exact this
  have hmuS : eps < |L + sE| := by rw [abs_of_pos (by linarith)]; linarith
  set sS := capShift e.o.startCap hw with hsS
  have hv3 : clipSidePos e.ix e.o.startCap p0 p1 hw (p0 + (perp t).smul hw) (p1 + (perp t).smul hw + t.smul sE)
      = p0 + (perp (normalize (p0 - p1))).smul (-hw) + (normalize (p0 - p1)).smul sS := by
    rw [hix]
    have e1 : p0 + (perp t).smul hw = p0 + (perp (normalize (p0 - p1))).smul (-hw) := by
      rw [hswap]; apply P.ext' <;> simp only [perp, geom] <;> ring
    rw [e1]
    exact clip_side_value eps heps e.o.startCap hsc p0 p1 _ (-hw) hw (L + sE) hunit'
      (by
        rw [hswap]
        have hx : p1.x - p0.x = t.x * L := by have := congrArg P.x hE; simpa only [geom] using this.symm
        have hy : p1.y - p0.y = t.y * L := by have := congrArg P.y hE; simpa only [geom] using this.symm
        apply P.ext' <;> simp only [perp, geom]
        · linear_combination (-1 : K) * hx
        · linear_combination (-1 : K) * hy) hmuS
  have hv4 : clipSidePos e.ix e.o.startCap p0 p1 hw (p0 - (perp t).smul hw) (p1 + (perp t).smul (-hw) + t.smul sE)
      = p0 + (perp (normalize (p0 - p1))).smul hw + (normalize (p0 - p1)).smul sS := by
    rw [hix]
    have e1 : p0 - (perp t).smul hw = p0 + (perp (normalize (p0 - p1))).smul hw := by
      rw [hswap]; apply P.ext' <;> simp only [perp, geom] <;> ring
    rw [e1]
    exact clip_side_value eps heps e.o.startCap hsc p0 p1 _ hw hw (L + sE) hunit'
      (by
        rw [hswap]
        have hx : p1.x - p0.x = t.x * L := by have := congrArg P.x hE; simpa only [geom] using this.symm
        have hy : p1.y - p0.y = t.y * L := by have := congrArg P.y hE; simpa only [geom] using this.symm
        apply P.ext' <;> simp only [perp, geom]
        · linear_combination (-1 : K) * hx
        · linear_combination (-1 : K) * hy) hmuS
  -- the emitted vertices
  have E1 := lastEdge_positions e hec (firstPt e i0 i1 p0 p1)
    (lastSidesFw (firstPt e i0 i1 p0 p1) (secondPt e i0 i1 p0 p1)) true (Out.empty 0) hw0
  have E2 := firstEdge_positions e hsc (firstPt e i0 i1 p0 p1)
    (lastEdge e (firstPt e i0 i1 p0 p1) (lastSidesFw (firstPt e i0 i1 p0 p1) (secondPt e i0 i1 p0 p1)) true (Out.empty 0)).1
    (lastEdge e (firstPt e i0 i1 p0 p1) (lastSidesFw (firstPt e i0 i1 p0 p1) (secondPt e i0 i1 p0 p1)) true (Out.empty 0)).2 hw0
  have Q1 : ∀ v, AtPos p1 [p1 + (perp t).smul hw + t.smul sE, p1 + (perp t).smul (-hw) + t.smul sE] v →
      (v.positionOnPath = p1 ∧ (v.read.position - p1).sqLen = capReachSq e.o.endCap hw)
      ∨ (v.positionOnPath = p0 ∧ (v.read.position - p0).sqLen = capReachSq e.o.startCap hw) := by
    rintro v ⟨hp, hx⟩
    left
    refine ⟨hp, ?_⟩
    simp only [List.mem_cons, List.mem_nil_iff, or_false] at hx
    rcases hx with hx | hx <;> (rw [hx, corner_dist _ _ _ _ hunit, capReachSq_eq]; try ring)
  have Q2 : ∀ v, AtPos p0 [p0 + (perp (normalize (p0 - p1))).smul (-hw) + (normalize (p0 - p1)).smul sS,
        p0 + (perp (normalize (p0 - p1))).smul hw + (normalize (p0 - p1)).smul sS] v →
      (v.positionOnPath = p1 ∧ (v.read.position - p1).sqLen = capReachSq e.o.endCap hw)
      ∨ (v.positionOnPath = p0 ∧ (v.read.position - p0).sqLen = capReachSq e.o.startCap hw) := by
    rintro v ⟨hp, hx⟩
    right
    refine ⟨hp, ?_⟩
    simp only [List.mem_cons, List.mem_nil_iff, or_false] at hx
    rcases hx with hx | hx <;> (rw [hx, corner_dist _ _ _ _ hunit', capReachSq_eq]; try ring)
  have E1' := Emits.mono Q1 (by
    have : AtPos p1 [p1 + (perp t).smul hw + t.smul sE, p1 + (perp t).smul (-hw) + t.smul sE]
        = AtPos (lastSidesFw (firstPt e i0 i1 p0 p1) (secondPt e i0 i1 p0 p1)).position
          [clipSidePos e.ix e.o.endCap (lastSidesFw (firstPt e i0 i1 p0 p1) (secondPt e i0 i1 p0 p1)).position
              (firstPt e i0 i1 p0 p1).position (lastSidesFw (firstPt e i0 i1 p0 p1) (secondPt e i0 i1 p0 p1)).halfWidth
              (lastSidesFw (firstPt e i0 i1 p0 p1) (secondPt e i0 i1 p0 p1)).pos.prev (firstPt e i0 i1 p0 p1).pos.next,
           clipSidePos e.ix e.o.endCap (lastSidesFw (firstPt e i0 i1 p0 p1) (secondPt e i0 i1 p0 p1)).position
              (firstPt e i0 i1 p0 p1).position (lastSidesFw (firstPt e i0 i1 p0 p1) (secondPt e i0 i1 p0 p1)).halfWidth
              (lastSidesFw (firstPt e i0 i1 p0 p1) (secondPt e i0 i1 p0 p1)).neg.prev (firstPt e i0 i1 p0 p1).neg.next] := by
      rw [← hv1, ← hv2, ← ht]; rfl
    rw [this]; exact E1)
  have E2' := Emits.mono Q2 (by
    have : AtPos p0 [p0 + (perp (normalize (p0 - p1))).smul (-hw) + (normalize (p0 - p1)).smul sS,
          p0 + (perp (normalize (p0 - p1))).smul hw + (normalize (p0 - p1)).smul sS]
        = AtPos (firstPt e i0 i1 p0 p1).position
          [clipSidePos e.ix e.o.startCap (firstPt e i0 i1 p0 p1).position
              (lastEdge e (firstPt e i0 i1 p0 p1) (lastSidesFw (firstPt e i0 i1 p0 p1) (secondPt e i0 i1 p0 p1)) true (Out.empty 0)).1.position
              (firstPt e i0 i1 p0 p1).halfWidth (firstPt e i0 i1 p0 p1).pos.next
              (lastEdge e (firstPt e i0 i1 p0 p1) (lastSidesFw (firstPt e i0 i1 p0 p1) (secondPt e i0 i1 p0 p1)) true (Out.empty 0)).1.pos.prev,
           clipSidePos e.ix e.o.startCap (firstPt e i0 i1 p0 p1).position
              (lastEdge e (firstPt e i0 i1 p0 p1) (lastSidesFw (firstPt e i0 i1 p0 p1) (secondPt e i0 i1 p0 p1)) true (Out.empty 0)).1.position
              (firstPt e i0 i1 p0 p1).halfWidth (firstPt e i0 i1 p0 p1).neg.next
              (lastEdge e (firstPt e i0 i1 p0 p1) (lastSidesFw (firstPt e i0 i1 p0 p1) (secondPt e i0 i1 p0 p1)) true (Out.empty 0)).1.neg.prev] := by
      rw [← hv3, ← hv4, ← hv1, ← hv2, ← ht]; rfl
    rw [this]; exact E2)
  obtain ⟨vs, ev, qv⟩ := E1'.trans E2'
  intro v hv
  have h0 : (Out.empty 0 : Out K).verts = [] := rfl
  rw [h0, List.nil_append] at ev
  exact qv v (ev ▸ hv)

end Field

end Lyon.C05c
