/-
  C02 growth 4 (`Props/C02g.lean`), part 7: the chain polygon of a buffered chain (the region
  `flush_side`'s fan tiles) lies INSIDE the monotone polygon (`chain_poly_inside`):
  * its own side: the chain's edges are edges of the polygon's chain of that side;
  * the opposite side: for the opposite edge `o₁ → o₂` that spans the point — both ends within the
    chain's sweep range: `ChordClear` + `seg_side`; one end outside: that chain end is strictly
    inside of `o₁ → o₂` (`SweepValid`) and the other end of the edge is beyond the chord (two
    turns); both ends outside: every chain vertex is strictly inside of `o₁ → o₂` (supplied by the
    caller for the fan triangle that contains the point, `inTri_side`).
-/
import LyonVerif.Lemmas.MonotoneTileAdvSetAdj

set_option linter.unusedSectionVars false
set_option linter.unusedVariables false
set_option linter.unusedSimpArgs false

namespace Lyon.C02f
open Lyon Lyon.Mono Lyon.C02 Lyon.C02c

section Geometry
variable {K : Type} [Field K] [LinearOrder K] [IsStrictOrderedRing K]

/-- lines through `z`: `m` inside of `a → z`, `q` inside of `m → z` ⟹ `q` inside of `a → z` -/
theorem turn_chain_z (c : Bool) {a m z q : P K} (hza : After z a) (hzm : After z m) (hzq : After z q)
    (h1 : 0 < sg c * wind a z m) (h2 : 0 < sg c * wind m z q) : 0 < sg c * wind a z q := by
  have ha := after_hv hza
  have hm := after_hv hzm
  have hq := after_hv hzq
  rw [wind_cross_b] at h1 h2 ⊢
  cases c
  · simp only [sg, Bool.false_eq_true, if_false, neg_one_mul] at h1 h2 ⊢
    have a1 : 0 < (z - m).cross (z - a) := by rw [cross_flip]; linarith
    have a2 : 0 < (z - q).cross (z - m) := by rw [cross_flip]; linarith
    have := cross_trans hq hm ha a2 a1
    rw [cross_flip] at this; linarith
  · simp only [sg, if_true, one_mul] at h1 h2 ⊢
    exact cross_trans ha hm hq h1 h2

/-- lines through `a`: `m` inside of `a → z`, `q` inside of `a → m` ⟹ `q` inside of `a → z` -/
theorem turn_chain_a (c : Bool) {a m z q : P K} (hma : After m a) (hza : After z a) (hqa : AfterEq q a)
    (h1 : 0 < sg c * wind a z m) (h2 : 0 < sg c * wind a m q) : 0 < sg c * wind a z q := by
  rcases hqa with e | hqa
  · rw [e, wind_self_left] at h2; simp at h2
  have hm := after_hv hma
  have hz := after_hv hza
  have hq := after_hv hqa
  rw [wind_cross_a] at h1 h2 ⊢
  cases c
  · simp only [sg, Bool.false_eq_true, if_false, neg_one_mul] at h1 h2 ⊢
    have a1 : 0 < (z - a).cross (m - a) := by rw [cross_flip]; linarith
    have a2 : 0 < (m - a).cross (q - a) := by rw [cross_flip]; linarith
    have := cross_trans hz hm hq a1 a2
    rw [cross_flip] at this; linarith
  · simp only [sg, if_true, one_mul] at h1 h2 ⊢
    exact cross_trans hq hm hz h2 h1

/-- a point strictly inside a triangle is strictly on the side of a line on which the three
vertices strictly lie -/
theorem inTri_side {τ : Bool} {a b c q o1 o2 : P K} (h : InTri a b c q)
    (ha : 0 < sg τ * wind o1 o2 a) (hb : 0 < sg τ * wind o1 o2 b) (hc : 0 < sg τ * wind o1 o2 c) :
    0 < sg τ * wind o1 o2 q := by
  have hW := inTri_pos h
  obtain ⟨w3, w1, w2⟩ := h
  have e := bary_wind a b c q o1 o2
  have : 0 < wind a b c * (sg τ * wind o1 o2 q) := by
    have e' : wind a b c * (sg τ * wind o1 o2 q) =
        wind b c q * (sg τ * wind o1 o2 a) + wind c a q * (sg τ * wind o1 o2 b) + wind a b q * (sg τ * wind o1 o2 c) := by
      linear_combination (sg τ) * e
    rw [e']
    have := mul_pos w1 ha
    have := mul_pos w2 hb
    have := mul_pos w3 hc
    linarith
  exact (pos_iff_pos_of_mul_pos this).mp hW

variable (seq : List (P K × Bool))

theorem futIds_getLast (τ : Bool) (n : Nat) : ∀ k, k < seq.length → seq.length - k = n →
    (futIds seq τ k).getLast? = some (seq.length - 1) := by
  induction n with
  | zero => intro k hk hn; omega
  | succ n ih =>
    intro k hk hn
    by_cases hl : k + 1 = seq.length
    · rw [futIds_last seq τ hl]; simp; omega
    · have hk1 : k + 1 < seq.length := by omega
      have := ih (k + 1) hk1 (by omega)
      rw [futIds_step seq τ hk1]
      split
      · obtain ⟨f, rest, e, _⟩ := futIds_head seq τ _ (k + 1) hk1 rfl
        rw [e] at this ⊢
        rw [List.getLast?_cons_cons]; exact this
      · exact this

/-- in a strictly increasing list two adjacent entries have no entry in between -/
theorem adj_gap (A B : List Nat) (a b m : Nat) (h : (A ++ a :: b :: B).Pairwise (· < ·)) (hm : m ∈ A ++ a :: b :: B) :
    m ≤ a ∨ b ≤ m := by
  rw [List.pairwise_append] at h
  obtain ⟨_, h2, h3⟩ := h
  rcases List.mem_append.mp hm with g | g
  · left; exact Nat.le_of_lt (h3 m g a (by simp))
  · rcases List.mem_cons.mp g with g | g
    · left; omega
    · rcases List.mem_cons.mp g with g | g
      · right; omega
      · right
        have := List.Pairwise.of_cons h2
        exact Nat.le_of_lt (List.rel_of_pairwise_cons this g)

/-- a point between apex and bottom is spanned by an edge of the chain of side `τ` -/
theorem lchain_span (τ : Bool) (h2 : 2 ≤ seq.length) (x : P K) (h1 : AfterEq x (posOf seq 0))
    (hn : After (posOf seq (seq.length - 1)) x) :
    ∃ A i j B, 0 :: futIds seq τ 1 = A ++ i :: j :: B ∧ Span (posOf seq i) (posOf seq j) x := by
  obtain ⟨f, rest, e, _⟩ := futIds_head seq τ _ 1 (by omega) rfl
  have hl : (0 :: futIds seq τ 1).getLast? = some (seq.length - 1) := by
    rw [e, List.getLast?_cons_cons, ← e]
    exact futIds_getLast seq τ _ 1 (by omega) rfl
  exact span_exists (posOf seq) x _ 0 (seq.length - 1) rfl hl h1 hn

theorem chain_poly_inside (hval : SweepValid seq) (h2 : 2 ≤ seq.length) {l : Bool} {k : Nat} {s : SideEv K}
    (hc : SideChain seq l k s) (hk : k + 1 ≤ seq.length) (hcl : ChordClear seq l s) (hl2 : 2 ≤ s.events.length)
    (x : P K) (hx : InPoly l (s.events.map (posOf seq)) [posOf seq (headId s), s.last.pos] x)
    (hD : ∀ i j, i < headId s → s.last.id < j → j < seq.length →
        (∀ m, i < m → m < j → 0 < sg (!l) * wind (posOf seq i) (posOf seq j) (posOf seq m)) →
        0 < sg (!l) * wind (posOf seq i) (posOf seq j) x) :
    ChainIn l ((0 :: futIds seq l 1).map (posOf seq)) x ∧
      ChainIn (!l) ((0 :: futIds seq (!l) 1).map (posOf seq)) x := by
  obtain ⟨hm, hhl⟩ := hc.last_tail seq hl2
  have hT : s.last.pos = posOf seq s.last.id := hc.good
  have htk : s.last.id < k := hc.lt _ (hc.last_mem seq)
  have hhk : headId s < k := by omega
  obtain ⟨hx1, hx2⟩ := hx
  have hx2' : Span (posOf seq (headId s)) s.last.pos x ∧ 0 < sg (!l) * wind (posOf seq (headId s)) s.last.pos x := by
    rcases hx2 with g | g
    · exact g
    · exact absurd g (chainIn_single _ _ x)
  obtain ⟨⟨hxH, hTx⟩, hxin⟩ := hx2'
  rw [hT] at hTx hxin
  -- between apex and bottom
  have h0x : AfterEq x (posOf seq 0) := by
    by_cases e : headId s = 0
    · rw [← e]; exact hxH
    · exact Or.inr (afterEq_trans_after hxH (valid_after hval (by omega) (by omega)))
  have hxn : After (posOf seq (seq.length - 1)) x := by
    by_cases e : s.last.id = seq.length - 1
    · rw [← e]; exact hTx
    · exact after_trans (valid_after hval (by omega) (by omega)) hTx
  constructor
  · -- own side: the spanning chain edge is an edge of the polygon's chain
    obtain ⟨A, a, b, B, e, hsp, hin⟩ := chainIn_exists l (posOf seq) x s.events hx1
    have hinc := hc.inc
    rw [e] at hinc
    have hab : a < b := by
      rw [List.pairwise_append] at hinc
      exact List.rel_of_pairwise_cons hinc.2.1 (by simp)
    have hamem : a ∈ s.events := by rw [e]; simp
    have hbmem : b ∈ s.events := by rw [e]; simp
    have hbk : b < k := hc.lt b hbmem
    have hha : headId s ≤ a := by
      have := hc.inc
      rw [hc.head_mem seq] at this hamem
      rcases List.mem_cons.mp hamem with g | g
      · omega
      · exact Nat.le_of_lt (List.rel_of_pairwise_cons this g)
    have hbt : b ∈ s.events.tail := by
      have := hbmem
      rw [hc.head_mem seq] at this
      rcases List.mem_cons.mp this with g | g
      · omega
      · exact g
    have hsb : sideAt seq b = l := hc.side b hbt
    have hsa : a = 0 ∨ sideAt seq a = l := by
      have := hamem
      rw [hc.head_mem seq] at this
      rcases List.mem_cons.mp this with g | g
      · rw [g]; exact hc.hside
      · exact Or.inr (hc.side a g)
    obtain ⟨A', i, j, B', e', hsp'⟩ := lchain_span seq l h2 x h0x hxn
    obtain ⟨hij, hjn, hi0, hj0, hbet⟩ := adj_props seq l h2 A' i j B' e'
    have hib : i < b := id_lt_of_after seq hval (by omega) (by omega) (after_trans_afterEq hsp.2 hsp'.1)
    have haj : a < j := id_lt_of_after seq hval hjn (by omega) (after_trans_afterEq hsp'.2 hsp.1)
    have hgap : ∀ m, m ∈ s.events → m ≤ a ∨ b ≤ m := by
      intro m hm'
      rw [e] at hm'
      exact adj_gap A B a b m hinc hm'
    -- i = a
    have hia : i = a := by
      rcases Nat.lt_trichotomy i a with g | g | g
      · exfalso
        have := hbet a g haj
        rcases hsa with z | z
        · omega
        · rw [z] at this; revert this; cases l <;> simp
      · exact g
      · exfalso
        rcases hi0 with z | z
        · omega
        · have := hgap i (hc.complete i (by omega) (by omega) z)
          omega
    -- j = b
    have hjb : j = b := by
      rcases Nat.lt_trichotomy j b with g | g | g
      · exfalso
        rcases hj0 with z | z
        · omega
        · have := hgap j (hc.complete j (by omega) (by omega) z)
          omega
      · exact g
      · exfalso
        have := hbet b (by omega) g
        rw [hsb] at this; revert this; cases l <;> simp
    rw [e']
    rw [hia, hjb]
    exact chainIn_of_split l (posOf seq) x A' B' a b hsp hin
  · -- opposite side
    obtain ⟨A', i, j, B', e', hsp'⟩ := lchain_span seq (!l) h2 x h0x hxn
    obtain ⟨hij, hjn, hi0, hj0, hbet⟩ := adj_props seq (!l) h2 A' i j B' e'
    rw [Bool.not_not] at hbet
    rw [e']
    refine chainIn_of_split (!l) (posOf seq) x A' B' i j hsp' ?_
    -- every vertex strictly between `i` and `j` is strictly inside of the edge `i → j`
    have hf : ∀ m, i < m → m < j → 0 < sg (!l) * wind (posOf seq i) (posOf seq j) (posOf seq m) := by
      intro m h1 h2'
      have hrb : RunBetween seq l i j := ⟨fun t ht1 ht2 => hbet t ht2 ht1, hi0, hj0⟩
      have := hval.2 j hjn i hij l hrb m h2' h1
      rwa [onSide_inner] at this
    have hit : i < s.last.id := id_lt_of_after seq hval (by omega) (by omega) (after_trans_afterEq hTx hsp'.1)
    have hhj : headId s < j := id_lt_of_after seq hval hjn (by omega) (after_trans_afterEq hsp'.2 hxH)
    have hst : sideAt seq s.last.id = l := hc.side _ hm
    have hjt : j ≠ s.last.id := by
      intro g
      rcases hj0 with z | z
      · omega
      · rw [g, hst] at z; revert z; cases l <;> simp
    have hchord := chord_of_chain seq hval hc (by omega) hl2 hcl
    rw [hT] at hchord
    have hHT : After (posOf seq s.last.id) (posOf seq (headId s)) := valid_after hval hhl (by omega)
    -- a vertex of the opposite side within the chain's range is weakly beyond the chord
    have hbey : ∀ m, headId s ≤ m → m < s.last.id → (m = 0 ∨ sideAt seq m = !l) → (m = headId s ∨ sideAt seq m = !l) →
        0 ≤ sg (!l) * wind (posOf seq (headId s)) (posOf seq m) (posOf seq s.last.id) := by
      intro m h1 h2' _ h4
      by_cases g : m = headId s
      · rw [g, wind_self_mid]; simp
      · rcases h4 with z | z
        · exact absurd z g
        · exact hchord m (by omega) h2' z
    have hi4 : headId s ≤ i → (i = headId s ∨ sideAt seq i = !l) := by
      intro g
      rcases hi0 with z | z
      · left; omega
      · exact Or.inr z
    by_cases c1 : i < headId s <;> by_cases c2 : s.last.id < j
    · exact hD i j c1 c2 hjn hf
    · -- the head is strictly inside of `i → j`, `j` is beyond the chord
      have hjt' : j < s.last.id := by omega
      have hsj : sideAt seq j = !l := by
        rcases hj0 with z | z
        · omega
        · exact z
      have hjb := hbey j (by omega) hjt' (Or.inr hsj) (Or.inr hsj)
      have hHj : After (posOf seq j) (posOf seq (headId s)) := valid_after hval hhj hjn
      have step1 : 0 < sg (!l) * wind (posOf seq (headId s)) (posOf seq j) x := by
        rcases hjb.lt_or_eq with g | g
        · exact turn_from_x (!l) hHj hHT hxH g hxin
        · have z : wind (posOf seq (headId s)) (posOf seq j) (posOf seq s.last.id) = 0 := by
            rcases mul_eq_zero.mp g.symm with z | z
            · exact absurd z (sg_ne_zero _)
            · exact z
          exact (flat_from_x (!l) hHj hHT z).mpr hxin
      exact turn_chain_z (!l) (valid_after hval hij hjn) hHj hsp'.2 (hf _ c1 hhj) step1
    · -- the last vertex is strictly inside of `i → j`, `i` is beyond the chord
      have hhi : headId s ≤ i := by omega
      have hib := hbey i hhi hit hi0 (hi4 hhi)
      have hTi : After (posOf seq s.last.id) (posOf seq i) := valid_after hval hit (by omega)
      have step1 : 0 < sg (!l) * wind (posOf seq i) (posOf seq s.last.id) x := by
        rcases hib.lt_or_eq with g | g
        · exact turn_to_z (!l) hHT hTi hTx g hxin
        · have z : wind (posOf seq (headId s)) (posOf seq i) (posOf seq s.last.id) = 0 := by
            rcases mul_eq_zero.mp g.symm with z | z
            · exact absurd z (sg_ne_zero _)
            · exact z
          exact (flat_to_z (!l) hTi hHT z).mpr hxin
      exact turn_chain_a (!l) hTi (valid_after hval hij hjn) hsp'.1 (hf _ hit c2) step1
    · -- both ends within the chain's range
      have hhi : headId s ≤ i := by omega
      have hjt' : j < s.last.id := by omega
      have hsj : sideAt seq j = !l := by
        rcases hj0 with z | z
        · omega
        · exact z
      have g1 := hbey i hhi hit hi0 (hi4 hhi)
      have g2 := hbey j (by omega) hjt' (Or.inr hsj) (Or.inr hsj)
      exact seg_side (!l) hHT hsp'.1 hsp'.2 g1 g2 hxin

end Geometry

end Lyon.C02f
