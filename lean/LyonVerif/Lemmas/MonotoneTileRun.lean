/-
  C02 growth 3 (`Props/C02f.lean`), part 9: the whole run.  `feed_tiles`: from any reachable state
  the remaining `vertex` calls and `end` tile the remaining polygon completely; `run_tiles`: the
  triangles of `Basic.run seq` tile `InsidePoly seq`, the open region between the left and the
  right chain of the sweep sequence (`leftChain`, `rightChain`: the two boundary chains of
  `polygonOf seq`, see `polygonOf_chains`).
-/
import LyonVerif.Lemmas.MonotoneTileStepFan
import LyonVerif.Lemmas.MonotoneGeomRun

set_option linter.unusedSectionVars false
set_option linter.unusedVariables false
set_option linter.unusedSimpArgs false

namespace Lyon.C02f
open Lyon Lyon.Mono Lyon.C02 Lyon.C02c

section Geometry
variable {K : Type} [Field K] [LinearOrder K] [IsStrictOrderedRing K]

variable (seq : List (P K × Bool))

/-- after the last vertex nothing remains -/
theorem region_end (s : Basic K) (k : Nat) (hk : seq.length ≤ k) (q : P K) : ¬ region seq s k q := by
  intro g
  unfold region at g
  simp only [fut] at g
  rw [futIds_end seq _ hk, futIds_end seq _ hk] at g
  exact chainIn_single _ _ q g.2

theorem feed_tiles (hval : SweepValid seq) (vs : List (P K × Bool)) (s : Basic K) (k : Nat)
    (hvs : ∀ i (h : i < vs.length), seq[k + i]? = some vs[i]) (hk : k + vs.length + 1 = seq.length)
    (h : VInv seq s k) :
    ∃ nt, ((feed s k vs).end_ (posOf seq (k + vs.length)) (k + vs.length)).tris = s.tris ++ nt ∧
      Tiles (region seq s k) (TriIn (posOf seq)) (TriInC (posOf seq)) nt (fun _ => False) := by
  induction vs generalizing s k with
  | nil =>
    simp only [List.length_nil, Nat.add_zero] at hk ⊢
    obtain ⟨nt, e, t⟩ := vertex_tiles seq hval s k ⟨posOf seq k, k, !s.previous.left⟩ h (by omega) rfl
      (show Good (posOf seq) (⟨posOf seq k, k, !s.previous.left⟩ : MV K) from rfl) (Or.inl ⟨hk, rfl⟩)
    refine ⟨nt, by simpa [feed, Basic.end_] using e, ?_⟩
    refine t.rebase (fun _ g => g) (fun _ g => Or.inl g) ?_
    intro q
    exact ⟨fun g => absurd g id, fun g => absurd g (region_end seq _ _ (by omega) q)⟩
  | cons v r ih =>
    obtain ⟨p, l⟩ := v
    simp only [List.length_cons] at hk
    have h0 := hvs 0 (by simp)
    simp only [Nat.add_zero, List.getElem_cons_zero] at h0
    have hp : posOf seq k = p := by simp [posOf, h0]
    have hl : sideAt seq k = l := by simp [sideAt, h0]
    have hgood : Good (posOf seq) (⟨p, k, l⟩ : MV K) := hp.symm
    obtain ⟨nt1, e1, t1⟩ := vertex_tiles seq hval s k ⟨p, k, l⟩ h (by omega) rfl hgood (Or.inr ⟨by omega, hl⟩)
    obtain ⟨nt2, e2, t2⟩ := ih (s.vertex ⟨p, k, l⟩) (k + 1) (by
      intro i hi
      have := hvs (i + 1) (by simp only [List.length_cons]; omega)
      simp only [List.getElem_cons_succ] at this
      rw [← this]; congr 1; omega) (by omega) (vertex_vInv seq s k _ h rfl hgood hl)
    refine ⟨nt1 ++ nt2, ?_, t1.trans t2⟩
    simp only [feed, List.length_cons]
    rw [show k + (r.length + 1) = k + 1 + r.length by omega, e2, e1, List.append_assoc]

/-! ## the polygon of the sequence as two chains -/

/-- apex, left chain, bottom vertex -/
def leftChain : List (P K) := posOf seq 0 :: fut seq true 1
/-- apex, right chain, bottom vertex -/
def rightChain : List (P K) := posOf seq 0 :: fut seq false 1

/-- `q` lies strictly inside the y-monotone polygon of the sweep sequence: strictly to the right
of the left chain and strictly to the left of the right chain (each tested at the chain edge that
spans `q` in sweep order) -/
def InsidePoly (q : P K) : Prop := InPoly true (leftChain seq) (rightChain seq) q

theorem futAux_map (τ : Bool) : ∀ (l : List (P K × Bool)) (k : Nat) (hne : l ≠ []),
    (∀ i (h : i < l.length), seq[k + i]? = some l[i]) →
    (futAux τ l k).map (posOf seq) =
      ((l.dropLast.filter (fun v => decide (v.2 = τ))).map (·.1)) ++ [(l.getLast hne).1]
  | [], _, hne, _ => absurd rfl hne
  | [v], k, _, h => by
    have := h 0 (by simp)
    simp only [Nat.add_zero, List.getElem_cons_zero] at this
    simp [futAux, posOf, this]
  | v :: w :: r, k, _, h => by
    have h0 := h 0 (by simp)
    simp only [Nat.add_zero, List.getElem_cons_zero] at h0
    have ih := futAux_map τ (w :: r) (k + 1) (by simp) (by
      intro i hi
      have := h (i + 1) (by simp only [List.length_cons] at hi ⊢; omega)
      simp only [List.getElem_cons_succ] at this
      rw [← this]; congr 1; omega)
    simp only [futAux, List.dropLast_cons_cons, List.getLast_cons_cons]
    by_cases g : v.2 = τ
    · simp only [g, if_true, List.map_cons, List.filter_cons, decide_true, List.cons_append]
      rw [ih]
      simp [posOf, h0]
    · simp only [g, if_false, List.filter_cons, decide_false]
      rw [ih]
      simp

theorem leftChain_eq (p0 : P K) (b0 : Bool) (v1 : P K × Bool) (rest : List (P K × Bool)) :
    leftChain ((p0, b0) :: v1 :: rest) = p0 :: leftsOf ((v1 :: rest).take ((v1 :: rest).length - 1)) ++
      [(((v1 :: rest).getLast?.map (·.1)).getD p0)] := by
  unfold leftChain fut futIds
  have := futAux_map ((p0, b0) :: v1 :: rest) true (v1 :: rest) 1 (by simp) (by
    intro i hi
    rw [show 1 + i = i + 1 by omega, List.getElem?_cons_succ, List.getElem?_eq_getElem hi])
  simp only [List.drop_succ_cons, List.drop_zero]
  rw [this]
  simp only [posOf, List.getElem?_cons_zero, leftsOf, List.dropLast_eq_take, List.cons_append]
  congr 2
  · congr 1
    apply List.filter_congr
    intro x _
    cases x.2 <;> simp

theorem rightChain_eq (p0 : P K) (b0 : Bool) (v1 : P K × Bool) (rest : List (P K × Bool)) :
    rightChain ((p0, b0) :: v1 :: rest) = p0 :: rightsOf ((v1 :: rest).take ((v1 :: rest).length - 1)) ++
      [(((v1 :: rest).getLast?.map (·.1)).getD p0)] := by
  unfold rightChain fut futIds
  have := futAux_map ((p0, b0) :: v1 :: rest) false (v1 :: rest) 1 (by simp) (by
    intro i hi
    rw [show 1 + i = i + 1 by omega, List.getElem?_cons_succ, List.getElem?_eq_getElem hi])
  simp only [List.drop_succ_cons, List.drop_zero]
  rw [this]
  simp only [posOf, List.getElem?_cons_zero, rightsOf, List.dropLast_eq_take, List.cons_append]
  congr 2
  · congr 1
    apply List.filter_congr
    intro x _
    cases x.2 <;> simp

/-- the two chains are the two halves of the boundary loop `polygonOf seq` whose shoelace area the
area theorems of `Props/C02c.lean` speak about: apex, left chain downwards, bottom vertex, then the
right chain upwards -/
theorem polygonOf_chains (h2 : 2 ≤ seq.length) :
    polygonOf seq = leftChain seq ++ ((rightChain seq).tail.dropLast).reverse := by
  match seq, h2 with
  | (p0, b0) :: v1 :: rest, _ =>
    rw [leftChain_eq, rightChain_eq]
    simp [polygonOf]

/-- **the triangles of `Basic.run` tile the polygon** (valid sweep sequence; a zero-area triangle on three
collinear chain vertices is an empty open tile) -/
theorem run_tiles (h2 : 2 ≤ seq.length) (hval : SweepValid seq) :
    Tiles (InsidePoly seq) (TriIn (posOf seq)) (TriInC (posOf seq)) (Basic.run seq) (fun _ => False) := by
  match seq, h2 with
  | (p0, b0) :: v1 :: rest, _ =>
    have hlen : 0 + 1 + (List.take ((v1 :: rest).length - 1) (v1 :: rest)).length = (v1 :: rest).length := by
      simp only [List.length_take, List.length_cons]; omega
    have hpos : ∀ i (h : i < (List.take ((v1 :: rest).length - 1) (v1 :: rest)).length),
        ((p0, b0) :: v1 :: rest)[0 + 1 + i]? = some (List.take ((v1 :: rest).length - 1) (v1 :: rest))[i] := by
      intro i hi
      simp only [List.length_take, List.length_cons] at hi
      simp only [List.getElem_take]
      rw [show 0 + 1 + i = i + 1 by omega, List.getElem?_cons_succ,
        List.getElem?_eq_getElem (by simp only [List.length_cons]; omega)]
    have hpe : posOf ((p0, b0) :: v1 :: rest) (v1 :: rest).length = ((v1 :: rest).getLast?.map (·.1)).getD p0 := by
      simp only [posOf, List.length_cons, List.getElem?_cons_succ]
      rw [List.getLast?_eq_getElem?]
      simp only [List.length_cons, Nat.add_sub_cancel]
      rw [List.getElem?_eq_getElem (by simp only [List.length_cons]; omega)]
      rfl
    obtain ⟨nt, e, t⟩ := feed_tiles ((p0, b0) :: v1 :: rest) hval (List.take ((v1 :: rest).length - 1) (v1 :: rest))
      (Basic.begin p0 0) (0 + 1) hpos (by rw [hlen]; simp) (begin_vInv _ p0 (by simp [posOf]))
    rw [hlen, hpe] at e
    have erun : Basic.run ((p0, b0) :: v1 :: rest) = nt := by
      simp only [Basic.run, foldl_zipIdx_eq_feed]
      rw [e]; simp [Basic.begin]
    rw [erun]
    have ereg : region ((p0, b0) :: v1 :: rest) (Basic.begin p0 0) (0 + 1) = InsidePoly ((p0, b0) :: v1 :: rest) := by
      unfold region InsidePoly leftChain rightChain
      simp [Basic.begin, C02c.botPos, posOf]
    rw [← ereg]
    exact t

end Geometry

end Lyon.C02f
