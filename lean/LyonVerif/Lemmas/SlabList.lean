/-
  Slab checker soundness, part 2: the cut ordinates and other list facts.

  * `ordinates_strict`, `mem_ordinates`   `ordinates` is strictly increasing and has exactly the
                                          collected values as members
  * `slab_locate`       an ordinate that is not a cut ordinate is below all, above all, or strictly
                        inside exactly one slab, and no cut ordinate is strictly inside a slab
  * `mem_allCrossings`  `allCrossings` contains `crossY i j` for any two items of the list
  * `pairwise_split`    a sorted list splits into the elements satisfying a down-closed predicate
                        followed by the others
  * facts about `mkItem`, `edgeItems`, `triItems`
-/
import LyonVerif.Lemmas.SlabAlg

set_option linter.unusedSectionVars false
set_option linter.unusedVariables false

namespace Lyon.Slab
open Lyon

variable {K : Type} [Field K] [LinearOrder K] [IsStrictOrderedRing K]

/-! ### `dedupSorted` -/

theorem mem_of_mem_dedupSorted : ∀ (l : List K) (x : K), x ∈ dedupSorted l → x ∈ l
  | [], x, h => by simp [dedupSorted] at h
  | [a], x, h => by simpa [dedupSorted] using h
  | a :: b :: r, x, h => by
    rw [dedupSorted] at h
    split_ifs at h with hab
    · rcases List.mem_cons.mp h with rfl | h'
      · simp
      · exact List.mem_cons_of_mem _ (mem_of_mem_dedupSorted (b :: r) x h')
    · exact List.mem_cons_of_mem _ (mem_of_mem_dedupSorted (b :: r) x h)

theorem mem_dedupSorted : ∀ (l : List K) (hl : l.Pairwise (· ≤ ·)) (x : K), x ∈ l → x ∈ dedupSorted l
  | [], _, x, h => by simp at h
  | [a], _, x, h => by simpa [dedupSorted] using h
  | a :: b :: r, hl, x, h => by
    rw [dedupSorted]
    have hl' : (b :: r).Pairwise (· ≤ ·) := (List.pairwise_cons.mp hl).2
    have hab : a ≤ b := (List.pairwise_cons.mp hl).1 b (by simp)
    split_ifs with hlt
    · rcases List.mem_cons.mp h with rfl | h'
      · simp
      · exact List.mem_cons_of_mem _ (mem_dedupSorted (b :: r) hl' x h')
    · have e : a = b := le_antisymm hab (not_lt.mp hlt)
      rcases List.mem_cons.mp h with rfl | h'
      · exact mem_dedupSorted (b :: r) hl' x (by rw [e]; simp)
      · exact mem_dedupSorted (b :: r) hl' x h'

theorem dedupSorted_strict : ∀ (l : List K) (hl : l.Pairwise (· ≤ ·)), (dedupSorted l).Pairwise (· < ·)
  | [], _ => by simp [dedupSorted]
  | [a], _ => by simp [dedupSorted]
  | a :: b :: r, hl => by
    rw [dedupSorted]
    have hl' : (b :: r).Pairwise (· ≤ ·) := (List.pairwise_cons.mp hl).2
    split_ifs with hlt
    · rw [List.pairwise_cons]
      refine ⟨fun x hx => ?_, dedupSorted_strict (b :: r) hl'⟩
      have hx' := mem_of_mem_dedupSorted (b :: r) x hx
      rcases List.mem_cons.mp hx' with rfl | hxr
      · exact hlt
      · exact lt_of_lt_of_le hlt ((List.pairwise_cons.mp hl').1 x hxr)
    · exact dedupSorted_strict (b :: r) hl'

/-! ### `ordinates` -/

theorem sortLe_pairwise (l : List K) : (l.mergeSort (fun a b => a ≤ b)).Pairwise (· ≤ ·) := by
  have h := List.pairwise_mergeSort (le := fun (a b : K) => decide (a ≤ b))
    (fun a b c hab hbc => by simp only [decide_eq_true_eq] at *; exact le_trans hab hbc)
    (fun a b => by simp only [Bool.or_eq_true, decide_eq_true_eq]; exact le_total a b) l
  exact h.imp (fun {a b} hab => by simpa using hab)

/-- the values collected by `ordinates` before sorting -/
noncomputable def rawOrdinates (items : List (Item K)) (extra : List K) : List K :=
  items.flatMap (fun it => [it.a.y, it.b.y]) ++ extra ++ allCrossings items

theorem mem_ordinates (items : List (Item K)) (extra : List K) (y : K) :
    y ∈ ordinates items extra ↔ y ∈ rawOrdinates items extra := by
  unfold ordinates rawOrdinates
  simp only []
  constructor
  · intro h
    exact List.mem_mergeSort.mp (mem_of_mem_dedupSorted _ y h)
  · intro h
    exact mem_dedupSorted _ (sortLe_pairwise _) y (List.mem_mergeSort.mpr h)

theorem ordinates_strict (items : List (Item K)) (extra : List K) :
    (ordinates items extra).Pairwise (· < ·) := by
  unfold ordinates
  exact dedupSorted_strict _ (sortLe_pairwise _)

theorem mem_allCrossings : ∀ (l : List (Item K)) (i j : Item K) (y : K), i ∈ l → j ∈ l →
    crossY i j = some y → crossY j i = some y → y ∈ allCrossings l
  | [], i, j, y, hi, _, _, _ => by simp at hi
  | h :: t, i, j, y, hi, hj, hij, hji => by
    rw [allCrossings, List.mem_append]
    rcases List.mem_cons.mp hi with rfl | hi'
    · rcases List.mem_cons.mp hj with rfl | hj'
      · rw [crossY_self] at hij; exact absurd hij (by simp)
      · left; exact List.mem_filterMap.mpr ⟨j, hj', hij⟩
    · rcases List.mem_cons.mp hj with rfl | hj'
      · left; exact List.mem_filterMap.mpr ⟨i, hi', hji⟩
      · right; exact mem_allCrossings t i j y hi' hj' hij hji

/-! ### `slabPairs` -/

theorem slab_locate : ∀ (ys : List K) (hs : ys.Pairwise (· < ·)) (y : K) (hy : y ∉ ys),
    (∀ z ∈ ys, y < z) ∨ (∀ z ∈ ys, z < y) ∨
      ∃ p ∈ slabPairs ys, p.1 < y ∧ y < p.2 ∧ ∀ z ∈ ys, z ≤ p.1 ∨ p.2 ≤ z
  | [], _, y, _ => by left; simp
  | [a], _, y, hy => by
    have hne : y ≠ a := by simpa using hy
    rcases lt_or_gt_of_ne hne with h | h
    · left; simpa using h
    · right; left; simpa using h
  | a :: b :: r, hs, y, hy => by
    have hs' : (b :: r).Pairwise (· < ·) := (List.pairwise_cons.mp hs).2
    have ha : ∀ z ∈ b :: r, a < z := (List.pairwise_cons.mp hs).1
    have hb : ∀ z ∈ r, b < z := (List.pairwise_cons.mp hs').1
    have hya : y ≠ a := fun e => hy (by rw [e]; simp)
    have hyb : y ≠ b := fun e => hy (by rw [e]; simp)
    have hy' : y ∉ b :: r := fun h => hy (List.mem_cons_of_mem _ h)
    rcases lt_or_gt_of_ne hya with h | h
    · left
      intro z hz
      rcases List.mem_cons.mp hz with rfl | hz'
      · exact h
      · exact lt_trans h (ha z hz')
    · rcases lt_or_gt_of_ne hyb with h2 | h2
      · right; right
        refine ⟨(a, b), by simp [slabPairs], h, h2, ?_⟩
        intro z hz
        rcases List.mem_cons.mp hz with rfl | hz'
        · left; exact le_refl _
        · right
          rcases List.mem_cons.mp hz' with rfl | hz''
          · exact le_refl _
          · exact (hb z hz'').le
      · rcases slab_locate (b :: r) hs' y hy' with h3 | h3 | ⟨p, hp, hp1, hp2, hp3⟩
        · exact absurd (h3 b (by simp)) (not_lt.mpr h2.le)
        · right; left
          intro z hz
          rcases List.mem_cons.mp hz with rfl | hz'
          · exact h
          · exact h3 z hz'
        · right; right
          refine ⟨p, by rw [slabPairs]; exact List.mem_cons_of_mem _ hp, hp1, hp2, ?_⟩
          intro z hz
          rcases List.mem_cons.mp hz with rfl | hz'
          · left
            rcases hp3 b (by simp) with h4 | h4
            · exact le_trans (ha b (by simp)).le h4
            · exact absurd (lt_of_lt_of_le hp2 h4) (not_lt.mpr h2.le)
          · exact hp3 z hz'

/-! ### splitting a sorted list at a down-closed predicate -/

theorem pairwise_split {β : Type} (r : β → β → Prop) (p : β → Bool) :
    ∀ (l : List β) (hl : l.Pairwise r)
      (hsep : ∀ a b, a ∈ l → b ∈ l → p a = false → p b = true → ¬ r a b),
      l = l.filter p ++ l.filter (fun x => !p x)
  | [], _, _ => by simp
  | x :: t, hl, hsep => by
    have hl' := (List.pairwise_cons.mp hl).2
    have hx := (List.pairwise_cons.mp hl).1
    have ih := pairwise_split r p t hl'
      (fun a b ha hb => hsep a b (List.mem_cons_of_mem _ ha) (List.mem_cons_of_mem _ hb))
    by_cases hpx : p x = true
    · simp only [List.filter_cons, hpx, if_true, Bool.not_true, Bool.false_eq_true, if_false,
        List.cons_append]
      rw [← ih]
    · have hpx' : p x = false := by simpa using hpx
      have hall : ∀ b ∈ t, p b = false := by
        intro b hb
        by_contra hb'
        have hb'' : p b = true := by simpa using hb'
        exact hsep x b (by simp) (List.mem_cons_of_mem _ hb) hpx' hb'' (hx b hb)
      have e1 : t.filter p = [] := by
        rw [List.filter_eq_nil_iff]; intro b hb; rw [hall b hb]; simp
      have e2 : t.filter (fun x => !p x) = t := by
        rw [List.filter_eq_self]; intro b hb; rw [hall b hb]; simp
      simp only [List.filter_cons, hpx', Bool.false_eq_true, if_false, Bool.not_false, if_true, e1, e2,
        List.nil_append]

/-! ### items -/

theorem mkItem_some {p q : P K} {e : Bool} {tri : Nat} {it : Item K} (h : mkItem p q e tri = some it) :
    it.a.y < it.b.y ∧ it.tri = tri ∧ (e = false → it.dir = 0) := by
  unfold mkItem at h
  by_cases h1 : p.y < q.y
  · rw [if_pos h1] at h; cases h; exact ⟨h1, rfl, fun he => by simp [he]⟩
  · rw [if_neg h1] at h
    by_cases h2 : q.y < p.y
    · rw [if_pos h2] at h; cases h; exact ⟨h2, rfl, fun he => by simp [he]⟩
    · rw [if_neg h2] at h; cases h

theorem mem_edgeItems {edges : List (P K × P K)} {it : Item K} (h : it ∈ edgeItems edges) :
    it.a.y < it.b.y ∧ it.tri = 0 := by
  unfold edgeItems at h
  obtain ⟨e, _, he⟩ := List.mem_filterMap.mp h
  exact ⟨(mkItem_some he).1, (mkItem_some he).2.1⟩

/-- the (at most three) items of one triangle, tagged `tag` -/
noncomputable def triOf (t : P K × P K × P K) (tag : Nat) : List (Item K) :=
  [mkItem t.1 t.2.1 false tag, mkItem t.2.1 t.2.2 false tag, mkItem t.2.2 t.1 false tag].filterMap id

theorem triItems_eq (tris : List (P K × P K × P K)) :
    triItems tris = (tris.zipIdx).flatMap (fun ti => triOf ti.1 (ti.2 + 1)) := by
  unfold triItems
  congr 1

theorem mem_triOf {t : P K × P K × P K} {tag : Nat} {it : Item K} (h : it ∈ triOf t tag) :
    it.a.y < it.b.y ∧ it.tri = tag ∧ it.dir = 0 := by
  unfold triOf at h
  obtain ⟨o, ho, he⟩ := List.mem_filterMap.mp h
  simp only [id] at he
  subst he
  simp only [List.mem_cons, List.mem_nil_iff, or_false] at ho
  rcases ho with ho | ho | ho <;>
    exact ⟨(mkItem_some ho.symm).1, (mkItem_some ho.symm).2.1, (mkItem_some ho.symm).2.2 rfl⟩

theorem mem_triItems {tris : List (P K × P K × P K)} {it : Item K} (h : it ∈ triItems tris) :
    it.a.y < it.b.y ∧ 1 ≤ it.tri ∧ it.tri ≤ tris.length ∧ it.dir = 0 := by
  rw [triItems_eq] at h
  obtain ⟨ti, hti, hit⟩ := List.mem_flatMap.mp h
  obtain ⟨h1, h2, h3⟩ := mem_triOf hit
  have hlt : ti.2 < tris.length := by
    have := List.mem_zipIdx hti
    omega
  refine ⟨h1, by omega, by omega, h3⟩

end Lyon.Slab
