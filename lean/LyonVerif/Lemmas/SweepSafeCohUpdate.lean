/-
  SPAN / WINDING COHERENCE, part 6: `update_active_edges` (`handle_intersections` changes neither a
  winding nor a merge flag; the splice).
-/
import Lean.Elab.Tactic
import LyonVerif.Lemmas.SweepSafeCohBelow

set_option linter.unusedSectionVars false
set_option linter.unusedVariables false
set_option linter.unusedSimpArgs false
set_option mvcgen.warning false

namespace Lyon.SweepCoh
open Lyon Lyon.Scalar Lyon.Mono Lyon.Sweep Lyon.EQ Lyon.SweepSafe
open Std.Do

variable {α : Type} [Scalar α] [Wide α]
variable {A : List String}

open Lean Elab Tactic Meta in
/-- `note_of C h`: the most recent hypothesis of the form `C ..` (or `_ ∧ C ..`, `C .. ∧ _`) is added to
the context as `h` -/
elab "note_of " c:ident h:ident : tactic => do
  let cn ← realizeGlobalConstNoOverloadWithInfo c
  let g ← getMainGoal
  g.withContext do
    let lctx ← getLCtx
    let decls := (lctx.decls.toList.filterMap id).reverse
    for d in decls do
      if d.isImplementationDetail then continue
      let ty ← whnfR (← instantiateMVars d.type)
      let cand : Option (Expr × Expr) :=
        if ty.isAppOf cn then some (d.toExpr, ty)
        else if ty.isAppOf ``And && (ty.getArg! 1).isAppOf cn then some (mkProj ``And 1 d.toExpr, ty.getArg! 1)
        else if ty.isAppOf ``And && (ty.getArg! 0).isAppOf cn then some (mkProj ``And 0 d.toExpr, ty.getArg! 0)
        else none
      match cand with
      | none => continue
      | some (pf, t) =>
        let g1 ← g.assert h.getId t pf
        let (_, g2) ← g1.intro1P
        replaceMainGoal [g2]
        return
    throwError "note_of: no hypothesis found"

/-- `RelZ` plus the windings of the pending edges -/
structure RelU (s0 : St α) (scan : Scan) (Z : Nat) (W : List Int) (s : St α) : Prop where
  rel : RelZ s0 scan Z s
  bw : bwOf s.below = W

theorem sig_set {a : Array (ActiveEdge α)} {i : Nat} {v e : ActiveEdge α} (h : a[i]? = some e)
    (hv : sigOf v = sigOf e) (k : Nat) : ((a.setIfInBounds i v)[k]?).map sigOf = (a[k]?).map sigOf := by
  rw [Array.getElem?_setIfInBounds]
  split
  · rename_i hk
    have hi : i < a.size := by rcases Array.getElem?_eq_some_iff.mp h with ⟨hh, _⟩; exact hh
    rw [← hk, h]
    simp [hi, hv]
  · rfl

theorem RelZ.set_active {s0 : St α} {scan : Scan} {Z : Nat} {s s' : St α} {i : Nat} {v e : ActiveEdge α}
    (h : RelZ s0 scan Z s) (he : s.active[i]? = some e) (h2 : s'.active = s.active.setIfInBounds i v)
    (hv : sigOf v = sigOf e) (h1 : s'.spans = s.spans) (h3 : s'.rule = s.rule)
    (h4 : s'.tolerance = s.tolerance) : RelZ s0 scan Z s' := by
  refine ⟨h1 ▸ h.live, by rw [h1]; exact h.size, by rw [h2]; simp [h.asize], ?_, ?_, by rw [h3]; exact h.rule,
    by rw [h4]; exact h.tol⟩
  · intro k hk; rw [h2, sig_set he hv]; exact h.sig k hk
  · intro hm; rw [h2, sig_set he hv]; exact h.merged hm

theorem processIntersection_relU (s0 : St α) (scan : Scan) (Z : Nat) (W : List Int) (hUp : NextUpOk α ∨ mAssert ∈ A)
    (ta tb : Wide.W α) (aei : Nat) (haei : aei < s0.active.size) (eb0 : PendingEdge α) (belowSeg : Seg (Wide.W α)) :
    ⦃fun s => ⌜RelU s0 scan Z W s⌝⦄ (processIntersection ta tb aei eb0 belowSeg : SM α (PendingEdge α))
    ⦃safePost A fun eb s => RelU s0 scan Z W s ∧ eb.winding = eb0.winding⦄ := by
  unfold processIntersection
  mvcgen
  case vc1 =>
    rename_i s h hx
    exfalso
    have : aei < s.active.size := h.rel.asize ▸ haei
    simp [this] at hx
  case vc3 =>
    rcases hUp with hUp | hUp
    · exfalso
      rename_i hna
      have h1 := assert_ok hUp (narrowP (belowSeg.sample tb)) ‹St α›.curPos
      have h2 : (!Sweep.isAfter (if !Sweep.isAfter (narrowP (belowSeg.sample tb)) ‹St α›.curPos
          then (⟨(narrowP (belowSeg.sample tb)).x, Wide.nextUp ‹St α›.curPos.y⟩ : P α)
          else narrowP (belowSeg.sample tb)) ‹St α›.curPos) = true := hna
      rw [h1] at h2
      cases h2
    · exact allowed_panic hUp
  all_goals
    have h := ‹RelU s0 scan Z W _›
    have hx := ‹_ = some _›
    refine RelU.mk ?_ h.bw
    exact RelZ.set_active (s' := _) h.rel hx rfl rfl rfl rfl rfl


theorem bw_set {bl : Array (PendingEdge α)} {bi : Nat} {eb' : PendingEdge α}
    (h : ∀ e, bl[bi]? = some e → e.winding = eb'.winding) : bwOf (bl.setIfInBounds bi eb') = bwOf bl := by
  unfold bwOf
  apply List.ext_getElem?
  intro k
  simp only [List.getElem?_map, Array.getElem?_toList]
  rw [Array.getElem?_setIfInBounds]
  split
  · rename_i hk
    rw [← hk]
    by_cases hb : bi < bl.size
    · simp only [hb, if_true]
      have := h bl[bi] (by simp [hb])
      simp [hb, this]
    · simp [hb]
  · rfl

theorem bw_getElem {bl bl' : Array (PendingEdge α)} (h : bwOf bl' = bwOf bl) (bi : Nat) (e e' : PendingEdge α)
    (he : bl[bi]? = some e) (he' : bl'[bi]? = some e') : e'.winding = e.winding := by
  unfold bwOf at h
  have := congrArg (fun l => l[bi]?) h
  simp only [List.getElem?_map, Array.getElem?_toList, he, he', Option.map_some] at this
  exact Option.some.inj this

theorem handleIntersectionsStep_relU (s0 : St α) (scan : Scan) (Z : Nat) (W : List Int)
    (hUp : NextUpOk α ∨ mAssert ∈ A) (skipS skipE : Nat) :
    ⦃fun s => ⌜RelU s0 scan Z W s⌝⦄ (handleIntersectionsStep skipS skipE : SM α Unit)
    ⦃safePost A fun _ s => RelU s0 scan Z W s⦄ := by
  unfold handleIntersectionsStep
  have h1 := fun ta tb aei haei =>
    processIntersection_relU (α := α) (A := A) s0 scan Z W hUp ta tb aei haei
  mvcgen [h1] invariants
  · post⟨fun _ s => ⌜RelU s0 scan Z W s⌝, fun f _ => ⌜Allowed A f⌝⟩
  · post⟨fun r s => ⌜RelU s0 scan Z W s ∧ r.2.2.2 = r.1.prefix.length ∧
        ∀ x, r.2.2.1 = some x → x.2.2 < r.1.prefix.length⌝, fun f _ => ⌜Allowed A f⌝⟩
  with skip
  case vc9 =>
    rename_i r1 r hx s h
    have hh := h.2.2 r hx
    simp only [Array.length_toList] at hh
    have key : ∀ s' : St α, RelU s0 scan Z W s' → s'.active.size = s0.active.size := fun s' h' => h'.rel.asize
    have e1 := key _ ‹RelU s0 scan Z W _›
    omega
  case vc11 =>
    rename_i s h t
    have hcap := ‹RelU s0 scan Z W _›
    have hb := ‹_ = some (_ : PendingEdge α)›
    refine RelU.mk ((relZ_frame s0 scan Z).apply h.1.rel _ rfl rfl rfl rfl) ?_
    show bwOf (s.below.setIfInBounds _ _) = W
    rw [bw_set, h.1.bw]
    intro e he
    rw [h.2]
    exact bw_getElem (h.1.bw.trans hcap.bw.symm) _ _ _ hb he
  all_goals first
    | (intro _ h; exact h)
    | exact (‹RelU s0 scan Z W _ ∧ _›).1
    | (rename_i h
       obtain ⟨ha, hb, hc⟩ := h
       refine ⟨ha, ?_, ?_⟩
       · simp only [List.length_append, List.length_cons, List.length_nil]
         exact congrArg (· + 1) hb
       · intro x hx
         simp only [List.length_append, List.length_cons, List.length_nil]
         first
           | (have := hc x hx; omega)
           | (have e : x.2.2 = _ := (congrArg (fun y => y.2.2) (Option.some.inj hx)).symm.trans hb
              omega))
    | (refine ⟨by assumption, rfl, ?_⟩; intro x hx; have hx' : (none : Option _) = some x := hx; cases hx')


/-- the signatures of the active list after the event -/
def newSigs (s0 : St α) (scan : Scan) (W : List Int) : List (Bool × Int) :=
  (sigs s0).take scan.aboveStart ++ (if scan.mergeEvent then [(true, (0 : Int))] else []) ++
    W.map (fun k => (false, k)) ++ (sigs s0).drop scan.aboveEnd

/-- the state after `update_active_edges`, relative to the scanned state -/
structure NewSt (s0 : St α) (scan : Scan) (Z : Nat) (W : List Int) (s : St α) : Prop where
  live : SomeExcept [] s.spans
  size : s.spans.size = Z
  rule : s.rule = s0.rule
  tol : s.tolerance = s0.tolerance
  sg : sigs s = newSigs s0 scan W

theorem relZ_sigs_take {s0 : St α} {scan : Scan} {Z : Nat} {s : St α} (h : RelZ s0 scan Z s) :
    (sigs s).take scan.aboveStart = (sigs s0).take scan.aboveStart := by
  apply List.ext_getElem?
  intro k
  simp only [List.getElem?_take, sigs, List.getElem?_map, Array.getElem?_toList]
  split
  · rename_i hk
    exact h.sig k (fun _ => by omega)
  · rfl

theorem relZ_sigs_drop {s0 : St α} {scan : Scan} {Z : Nat} {s : St α} (h : RelZ s0 scan Z s)
    (hm : scan.mergeEvent = true → scan.aboveStart < scan.aboveEnd) :
    (sigs s).drop scan.aboveEnd = (sigs s0).drop scan.aboveEnd := by
  apply List.ext_getElem?
  intro k
  simp only [List.getElem?_drop, sigs, List.getElem?_map, Array.getElem?_toList]
  exact h.sig _ (fun hme => by have := hm hme; omega)

theorem relZ_sigs_take_merge {s0 : St α} {scan : Scan} {Z : Nat} {s : St α} (h : RelZ s0 scan Z s)
    (hm : scan.mergeEvent = true) (hlt : scan.aboveStart < s0.active.size) :
    (sigs s).take (scan.aboveStart + 1) = (sigs s0).take scan.aboveStart ++ [(true, 0)] := by
  have hlen : scan.aboveStart < (sigs s).length := by simp [sigs, h.asize]; exact hlt
  rw [List.take_succ_eq_append_getElem hlen, relZ_sigs_take h]
  congr 2
  have := h.merged hm
  simp only [sigs, List.getElem_map, Array.getElem_toList]
  have hlt' : scan.aboveStart < s.active.size := by rw [h.asize]; exact hlt
  simp only [hlt', Array.getElem?_eq_getElem, Option.map_some, Option.some.injEq] at this
  exact this

theorem ar_start_le {s0 : St α} {scan : Scan} (hok : ScanOk s0 scan) (hG : ScanAgree s0 scan) :
    (aboveResult scan).aboveStart ≤ scan.aboveEnd ∧ scan.aboveEnd ≤ s0.active.size := by
  refine ⟨?_, hok.end_le⟩
  unfold aboveResult
  split
  · rename_i hm
    have := hG.1 hm
    dsimp only; omega
  · exact hok.start_le

theorem newSt_of {s0 : St α} {scan : Scan} (hok : ScanOk s0 scan) (hG : ScanAgree s0 scan)
    {Z : Nat} {W : List Int} {s s' : St α} (h : RelU s0 scan Z W s) (f : PendingEdge α → ActiveEdge α)
    (hf : ∀ e, sigOf (f e) = (false, e.winding))
    (h1 : s'.spans = s.spans) (h2 : s'.rule = s.rule) (h3 : s'.tolerance = s.tolerance)
    (h4 : s'.active = s.active.extract 0 (aboveResult scan).aboveStart ++ s.below.map f ++
      s.active.extract scan.aboveEnd s.active.size) : NewSt s0 scan Z W s' := by
  refine ⟨h1 ▸ h.rel.live, by rw [h1]; exact h.rel.size, by rw [h2]; exact h.rel.rule,
    by rw [h3]; exact h.rel.tol, ?_⟩
  have hle := ar_start_le hok hG
  unfold sigs newSigs
  rw [h4]
  simp only [Array.toList_append, Array.toList_extract, Array.toList_map, List.map_append, List.map_map]
  have e1 : (List.extract s.active.toList 0 (aboveResult scan).aboveStart).map sigOf =
      (sigs s).take (aboveResult scan).aboveStart := by
    simp [List.extract, sigs, List.map_take]
  have e2 : (List.extract s.active.toList scan.aboveEnd s.active.size).map sigOf =
      (sigs s).drop scan.aboveEnd := by
    simp only [List.extract, sigs, List.map_drop, List.map_take]
    apply List.take_of_length_le
    simp
  have e3 : List.map (sigOf ∘ f) s.below.toList = W.map (fun k => (false, k)) := by
    rw [← h.bw]
    unfold bwOf
    rw [List.map_map]
    apply List.map_congr_left
    intro e _
    exact hf e
  rw [e1, e2, e3, relZ_sigs_drop h.rel (fun hm => hG.1 hm)]
  unfold aboveResult
  by_cases hm : scan.mergeEvent = true
  · simp only [hm, if_true]
    rw [relZ_sigs_take_merge h.rel hm (hok.merge_lt hm)]
  · simp only [hm, Bool.false_eq_true, if_false]
    rw [relZ_sigs_take h.rel]
    simp

theorem updateActiveEdges_relU (s0 : St α) (scan : Scan) (hok : ScanOk s0 scan) (hG : ScanAgree s0 scan)
    (Z : Nat) (W : List Int) (hUp : NextUpOk α ∨ mAssert ∈ A) (sc : Scan) :
    ⦃fun s => ⌜sc = aboveResult scan ∧ RelU s0 scan Z W s⌝⦄ (updateActiveEdges sc : SM α Unit)
    ⦃safePost A fun _ s => NewSt s0 scan Z W s⦄ := by
  unfold updateActiveEdges
  have h1 := handleIntersectionsStep_relU (α := α) (A := A) s0 scan Z W hUp
  mvcgen [h1]
  all_goals first
    | exact (‹_ ∧ RelU s0 scan Z W _›).2
    | (exfalso
       have hsc := (‹sc = aboveResult scan ∧ RelU s0 scan Z W _›).1
       have hor := ‹sc.aboveStart > sc.aboveEnd ∨ _›
       note_of RelU hr
       have hle := ar_start_le hok hG
       have := hr.rel.asize
       rw [hsc, ar_end] at hor
       omega)
    | (have hsc := (‹sc = aboveResult scan ∧ RelU s0 scan Z W _›).1
       note_of RelU hr
       subst hsc
       exact newSt_of hok hG hr _ (fun e => rfl) rfl rfl rfl (by rw [ar_end]))

end Lyon.SweepCoh
