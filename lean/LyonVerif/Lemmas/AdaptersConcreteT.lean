/-
  C16 with the concrete flatteners — the parameters `t.end` the callback flattener of a
  QUADRATIC reports (and `private::flatten_quadratic_bezier` / `for_each_flattened` interpolate
  the attributes with): over ordered fields they are strictly increasing, start above 0 and end
  with exactly 1.  From C09's `tAt_strict_mono`, `general_signs`, `tAt_zero`, `tAt_count`, given
  the laws of the non-field functions that those use (`SqrtLaws`: `sqrt` non-negative and
  monotone, `0.39 < 1`) and `CeilLaws` (`CountLaws` + `ceil x < x + 1`).
-/
import LyonVerif.Lemmas.AdaptersConcreteAgree
import LyonVerif.Lemmas.AdaptersConcreteCb
import LyonVerif.Props.C09

set_option linter.unusedSectionVars false
set_option linter.unusedVariables false

namespace Lyon.Adapt
open Lyon Lyon.Path Scalar Lyon.Flat

section field
variable {K : Type} [Field K] [LinearOrder K] [IsStrictOrderedRing K] [Transc K] [FlatConst K]

/-- the laws of `sqrt` and of the constant `0.39` that C09's monotonicity theorems use -/
structure SqrtLaws (K : Type) [Field K] [LinearOrder K] [IsStrictOrderedRing K] [Transc K]
    [FlatConst K] : Prop where
  sqrt_nonneg : ∀ x : K, 0 ≤ Transc.sqrt x
  sqrt_mono : ∀ x y : K, 0 ≤ x → x ≤ y → Transc.sqrt x ≤ Transc.sqrt y
  b_lt_one : (FlatConst.value 39 2 : K) < 1

/-- `CountLaws` and the upper bound of `ceil` -/
structure CeilLaws (K : Type) [Field K] [LinearOrder K] [IsStrictOrderedRing K] [Transc K]
    [FlatConst K] : Prop extends CountLaws K where
  ceil_lt : ∀ x : K, Transc.ceil x < x + 1

/-- strictly increasing, starting above `t` -/
def IncrFrom (t : K) : List K → Prop
  | [] => True
  | x :: r => t < x ∧ IncrFrom x r

theorem incrFrom_bounds (t : K) (l : List K) (h : IncrFrom t l) : ∀ x ∈ l, t < x := by
  induction l generalizing t with
  | nil => intro x hx; cases hx
  | cons y r ih =>
    intro x hx
    rcases List.mem_cons.mp hx with rfl | hx'
    · exact h.1
    · exact lt_trans h.1 (ih y h.2 x hx')

theorem incrFrom_le_getLastD (t : K) (l : List K) (h : IncrFrom t l) : t ≤ l.getLastD t := by
  induction l generalizing t with
  | nil => simp
  | cons y r ih =>
    rw [List.getLastD_cons]
    exact le_trans (le_of_lt h.1) (ih y h.2)

/-- every element of an increasing list is at most its last element -/
theorem incrFrom_le_last (t : K) (l : List K) (h : IncrFrom t l) :
    ∀ x ∈ l, x ≤ l.getLastD t := by
  induction l generalizing t with
  | nil => intro x hx; cases hx
  | cons y r ih =>
    intro x hx
    rw [List.getLastD_cons]
    rcases List.mem_cons.mp hx with rfl | hx'
    · exact incrFrom_le_getLastD x r h.2
    · exact ih y h.2 x hx'

/-- what `FlatteningParameters::new` computes in its general branch, as far as `t_at_iteration`
is concerned -/
theorem generalCore_shape (q : Quad K) (tol : K) :
    ∃ pF pT scale : K,
      (FlatParams.generalCore q tol).integralFrom = approxParabolaIntegral pF ∧
      (FlatParams.generalCore q tol).invIntegralFrom
        = approxParabolaInvIntegral (approxParabolaIntegral pF) ∧
      (FlatParams.generalCore q tol).divInvIntegralDiff
        = one / (approxParabolaInvIntegral (approxParabolaIntegral pT)
            - approxParabolaInvIntegral (approxParabolaIntegral pF)) ∧
      (FlatParams.generalCore q tol).count
        = FlatParams.fixCount (Transc.ceil (FlatParams.countEstimate pF pT
            (approxParabolaIntegral pT - approxParabolaIntegral pF) scale tol)) ∧
      (FlatParams.generalCore q tol).integralStep
        = (approxParabolaIntegral pT - approxParabolaIntegral pF) / (FlatParams.generalCore q tol).count :=
  ⟨_, _, _, rfl, rfl, rfl, rfl, rfl⟩

theorem new_eq_generalCore_or (q : Quad K) (tol : K) :
    FlatParams.new q tol = FlatParams.generalCore q tol ∨ (FlatParams.new q tol).count = 0 := by
  unfold FlatParams.new
  split
  · right; simp [FlatParams.linear]
  · unfold FlatParams.general
    split
    · right; simp [FlatParams.linear]
    · left; rfl

/-- the loop of `for_each_flattened_with_t` from iteration `k` on: the reported `t.end`s
increase strictly from `t_from = t_at_iteration(k − 1)` to the final `1 = t_at_iteration(count)` -/
theorem quad_loop_t_incr (q : Quad K) (p : FlatParams K) (n : ℕ)
    (mono : ∀ i j : K, i < j → p.tAt i < p.tAt j) (h1 : p.tAt (n : K) = 1)
    (m k : ℕ) (hk : 1 ≤ k) (hkm : k + m = n) (frm : P K) :
    IncrFrom (p.tAt ((k - 1 : ℕ) : K))
      ((q.flatLoop p m (k : K) frm (p.tAt ((k - 1 : ℕ) : K))).map (·.t1)) := by
  induction m generalizing k frm with
  | zero =>
    simp only [Quad.flatLoop, List.map_cons, List.map_nil, IncrFrom, and_true]
    rw [show (one : K) = 1 from sc_one, ← h1]
    apply mono
    have : k - 1 < n := by omega
    exact_mod_cast this
  | succ m ih =>
    have hi : (k : K) + one = ((k + 1 : ℕ) : K) := by
      rw [show (one : K) = 1 from sc_one]; push_cast; ring
    have hk1 : ((k + 1 - 1 : ℕ) : K) = (k : K) := by
      congr 1
    simp only [Quad.flatLoop, List.map_cons, IncrFrom]
    refine ⟨?_, ?_⟩
    · apply mono
      have : k - 1 < k := by omega
      exact_mod_cast this
    · have := ih (k + 1) (by omega) (by omega) (q.sample (p.tAt (k : K)))
      rw [hk1] at this
      rw [hi]
      exact this

/-- **quad_flat_t_increasing**: the `t.end`s of the callbacks of a quadratic's
`for_each_flattened_with_t` are strictly increasing, the first is above 0 and the last is
exactly 1 — so every one lies in `(0, 1]` (`quad_flat_t_range`). -/
theorem quad_flat_t_increasing (S : SqrtLaws K) (L : CeilLaws K) (q : Quad K) (tol : K)
    (l : List (FlatSeg K)) (h : q.forEachFlattenedWithT tol = some l) :
    IncrFrom 0 (l.map (·.t1)) ∧ (l.map (·.t1)).getLastD 0 = 1 := by
  have hlast : (l.map (·.t1)).getLastD 0 = 1 := by
    obtain ⟨hne, _, _, ht, _⟩ := quad_flat_structure q tol l h
    obtain ⟨l', x, rfl, _, hx⟩ := snoc_of_ne_nil q.a zero l hne
    rw [ht] at hx
    simp [← hx, show (one : K) = 1 from sc_one]
  refine ⟨?_, hlast⟩
  simp only [Quad.forEachFlattenedWithT, Option.map_eq_some_iff] at h
  obtain ⟨n, hn, rfl⟩ := h
  have hc := count_eq_of_toU32 L.toCountLaws _ (flatParams_count_int L.toCountLaws q tol) n hn
  by_cases hn2 : n ≤ 1
  · have : n - 1 = 0 := by omega
    simp [Quad.flatWith, this, Quad.flatLoop, IncrFrom, show (one : K) = 1 from sc_one]
  · have hn2' : 2 ≤ n := by omega
    have hcpos : (0 : K) < (FlatParams.new q tol).count := by
      rw [hc]; exact_mod_cast (by omega : 0 < n)
    rcases new_eq_generalCore_or q tol with hg | h0
    swap
    · rw [h0] at hcpos; exact absurd hcpos (lt_irrefl _)
    obtain ⟨pF, pT, scale, e1, e2, e3, e4, e5⟩ := generalCore_shape q tol
    rw [← hg] at e1 e2 e3 e4 e5
    set p := FlatParams.new q tol with hp
    set i0 := approxParabolaIntegral pF with hi0
    set i1 := approxParabolaIntegral pT with hi1
    -- the two integrals differ: otherwise the count would be `ceil 0 < 1`
    have hne : i0 ≠ i1 := by
      intro heq
      have hest : FlatParams.countEstimate pF pT (i1 - i0) scale tol = 0 := by
        simp [FlatParams.countEstimate, heq, sc_abs]
      rw [hest] at e4
      have hlt : p.count < 1 := by
        rw [e4]; unfold FlatParams.fixCount
        split
        · have := L.ceil_lt 0; simpa using this
        · simp [show (zero : K) = 0 from sc_zero]
      rw [hc] at hlt
      have : (n : K) < ((1 : ℕ) : K) := by simpa using hlt
      have : n < 1 := by exact_mod_cast this
      omega
    have hsign := C09.general_signs S.sqrt_nonneg S.sqrt_mono S.b_lt_one i0 i1 p.count hcpos hne
    rw [show (1 : K) / (approxParabolaInvIntegral i1 - approxParabolaInvIntegral i0)
        = p.divInvIntegralDiff by rw [e3, show (one : K) = 1 from sc_one],
      ← e5] at hsign
    have mono : ∀ i j : K, i < j → p.tAt i < p.tAt j := fun i j hij =>
      C09.tAt_strict_mono S.sqrt_nonneg S.sqrt_mono S.b_lt_one p i j hij hsign
    have hinv : p.invIntegralFrom = approxParabolaInvIntegral p.integralFrom := by rw [e2, e1]
    have ht0 : p.tAt 0 = 0 := C09.tAt_zero p hinv
    have hne' : approxParabolaInvIntegral i1 ≠ approxParabolaInvIntegral p.integralFrom := by
      rw [e1]
      intro heq
      rcases lt_or_gt_of_ne hne with hlt | hgt
      · exact absurd heq (ne_of_gt (C09.inv_integral_strict_mono S.sqrt_nonneg S.sqrt_mono S.b_lt_one _ _ hlt))
      · exact absurd heq (ne_of_lt (C09.inv_integral_strict_mono S.sqrt_nonneg S.sqrt_mono S.b_lt_one _ _ hgt))
    have htn : p.tAt (n : K) = 1 := by
      rw [← hc]
      refine C09.tAt_count p i1 ?_ hinv ?_ hne'
      · rw [e5, e1]
        field_simp [ne_of_gt hcpos]
        ring
      · rw [e3, e1, show (one : K) = 1 from sc_one]
    have := quad_loop_t_incr q p n mono htn (n - 1) 1 (le_refl 1) (by omega) q.a
    simp only [Nat.sub_self, Nat.cast_zero, ht0, Nat.cast_one] at this
    simpa [Quad.flatWith, show (one : K) = 1 from sc_one, show (zero : K) = 0 from sc_zero] using this

/-- … hence every reported `t.end` lies in `(0, 1]` -/
theorem quad_flat_t_range (S : SqrtLaws K) (L : CeilLaws K) (q : Quad K) (tol : K)
    (l : List (FlatSeg K)) (h : q.forEachFlattenedWithT tol = some l) :
    ∀ s ∈ l, 0 < s.t1 ∧ s.t1 ≤ 1 := by
  obtain ⟨hi, hl⟩ := quad_flat_t_increasing S L q tol l h
  intro s hs
  have hm : s.t1 ∈ l.map (·.t1) := List.mem_map_of_mem hs
  refine ⟨incrFrom_bounds 0 _ hi _ hm, ?_⟩
  have := incrFrom_le_last 0 _ hi _ hm
  rwa [hl] at this

end field

end Lyon.Adapt
