/-
  C02 growth 3 (`Props/C02f.lean`), part 12: the invariant `Y3` of the advanced monotone
  tessellator on a valid sweep sequence (inner tessellator `TInv` + the two chains `SideChain` +
  the order of chain ends and heads) carried through `flushOpp`, `flushOwn`, `stepSides`; under
  `ChordClear` of the two chains every forward to the inner tessellator is flip-free and the
  potential `Phi3` of `Lemmas/MonotoneAdvRun.lean` does not grow (so it is CONSTANT, with the
  converse inequalities proved there).
-/
import LyonVerif.Lemmas.MonotoneTileAdvChain

set_option linter.unusedSectionVars false
set_option linter.unusedVariables false
set_option linter.unusedSimpArgs false

namespace Lyon.C02f
open Lyon Lyon.Mono Lyon.C02 Lyon.C02c

section Geometry
variable {K : Type} [Field K] [LinearOrder K] [IsStrictOrderedRing K]

variable (seq : List (P K × Bool))

structure Y3 (l : Bool) (k : Nat) (tess : Basic K) (a b : SideEv K) : Prop where
  p3 : PInvL (posOf seq) tess l a.events a.last b.events b.last
  tinv : TInv seq tess l (headId a) (headId b)
  ca : SideChain seq l k a
  cb : SideChain seq (!l) k b
  oab : 2 ≤ a.events.length → headId b < a.last.id
  oba : 2 ≤ b.events.length → headId a < b.last.id

/-- the invariant on a triple -/
def Y3t (l : Bool) (k : Nat) (x : Trip K) : Prop := Y3 seq l k x.1 x.2.1 x.2.2

theorem Y3.symm {l : Bool} {k : Nat} {tess : Basic K} {a b : SideEv K} (h : Y3 seq l k tess a b) :
    Y3 seq (!l) k tess b a :=
  { p3 := PInvL.symm h.p3, tinv := h.tinv.symm, ca := h.cb, cb := by rw [Bool.not_not]; exact h.ca,
    oab := h.oba, oba := h.oab }

/-- flushing the OTHER side `b` (when the end of side `a` comes after the end of side `b`) -/
theorem flushOpp_y (hval : SweepValid seq) (tess : Basic K) (a b : SideEv K) (l : Bool) (k : Nat)
    (hk : k ≤ seq.length) (h : Y3 seq l k tess a b) (hcb : ChordClear seq (!l) b)
    (haft : After a.last.pos b.last.pos) :
    Y3t seq l k (flushOpp tess a b l) ∧
      Phi3 (posOf seq) l (flushOpp tess a b l) ≤ Phi3 (posOf seq) l (tess, a, b) ∧
      (flushOpp tess a b l).2.1.events = a.events ∧ (flushOpp tess a b l).2.1.last = a.last ∧
      (flushOpp tess a b l).2.2.last = b.last ∧ (flushOpp tess a b l).2.2.events.length < 2 := by
  have hp3 : P3 (posOf seq) l (flushOpp tess a b l) := (flushOpp_pot (posOf seq) tess a b l h.p3).1
  unfold flushOpp at hp3 ⊢
  rcases flushSide_cases b l with ⟨hl, e⟩ | ⟨hl, e1, e2, e3, e4⟩
  · rw [e]; exact ⟨h, le_refl _, rfl, rfl, rfl, hl⟩
  · rw [e4] at hp3 ⊢
    obtain ⟨hm, hhl⟩ := h.cb.last_tail seq hl
    have hbn : b.last.id < seq.length := by have := h.cb.lt _ (h.cb.last_mem seq); omega
    have han : a.last.id < seq.length := by have := h.ca.lt _ (h.ca.last_mem seq); omega
    have hchord := chord_of_chain seq hval h.cb hk hl hcb
    obtain ⟨t1, nf⟩ := fwd_tinv seq hval (tess.pushTris (flushSide b l).2.1) (!l) (headId b) (headId a) b.last
      (h.tinv.symm.pushTris seq _) h.cb.good h.p3.sideb (h.cb.side _ hm) hbn hhl (h.oba hl) (fun _ => hchord)
    have t2 := t1.symm
    rw [Bool.not_not] at t2
    have hs : PInvL (posOf seq) tess (!l) b.events b.last a.events a.last := PInvL.symm h.p3
    have fl := flush_le (l := !l) (a := b) (b := a) hs nf
    rw [Bool.not_not] at fl
    rw [Phi_symm, Phi_symm] at fl
    have hhb : headId (flushSide b l).1 = b.last.id := by simp [headId, e1]
    have hlt : b.last.id < a.last.id := by
      have ha := h.ca.good
      have hb := h.cb.good
      unfold Good at ha hb
      rw [ha, hb] at haft
      exact id_lt_of_after seq hval han hbn haft
    have hy : Y3 seq l k ((tess.pushTris (flushSide b l).2.1).vertex b.last)
        { a with consRefX := a.refPt.x } (flushSide b l).1 :=
      { p3 := hp3
        tinv := by
          show TInv seq _ l (headId a) (headId (flushSide b l).1)
          rw [hhb]; exact t2
        ca := h.ca.congr seq rfl rfl
        cb := h.cb.restart seq hl e1 e2
        oab := fun _ => by
          show headId (flushSide b l).1 < a.last.id
          rw [hhb]; exact hlt
        oba := fun h2 => by
          exfalso
          rw [e1] at h2
          simp at h2 }
    refine ⟨hy, ?_, rfl, rfl, e2, by show (flushSide b l).1.events.length < 2; rw [e1]; simp⟩
    simp only [Phi3, e1, e2, e3]
    exact fl

/-- flushing the side `a` that receives the next vertex -/
theorem flushOwn_y (hval : SweepValid seq) (tess : Basic K) (a b : SideEv K) (p : P K) (l : Bool) (k : Nat)
    (hk : k ≤ seq.length) (h : Y3 seq l k tess a b) (hca : ChordClear seq l a)
    (hord : 2 ≤ b.events.length → a.last.id < b.last.id) :
    Y3t seq l k (flushOwn tess a b p l) ∧
      Phi3 (posOf seq) l (flushOwn tess a b p l) ≤ Phi3 (posOf seq) l (tess, a, b) ∧
      (flushOwn tess a b p l).2.1.events.length < 2 ∧ (flushOwn tess a b p l).2.1.last = a.last ∧
      (flushOwn tess a b p l).2.2.last = b.last ∧ (flushOwn tess a b p l).2.2.events = b.events ∧
      (2 ≤ a.events.length → (flushOwn tess a b p l).2.1.events = [a.last.id]) ∧
      (a.events.length < 2 → (flushOwn tess a b p l).2.1.events = a.events) := by
  have hp3 : P3 (posOf seq) l (flushOwn tess a b p l) := (flushOwn_pot (posOf seq) tess a b p l h.p3).1
  unfold flushOwn at hp3 ⊢
  rcases flushSide_cases a (!l) with ⟨hl, e⟩ | ⟨hl, e1, e2, e3, e4⟩
  · rw [e]; exact ⟨h, le_refl _, hl, rfl, rfl, rfl, fun g => by omega, fun _ => rfl⟩
  · rw [e4] at hp3 ⊢
    obtain ⟨hm, hhl⟩ := h.ca.last_tail seq hl
    have han : a.last.id < seq.length := by have := h.ca.lt _ (h.ca.last_mem seq); omega
    have hchord := chord_of_chain seq hval h.ca hk hl hca
    obtain ⟨t1, nf⟩ := fwd_tinv seq hval (tess.pushTris (flushSide a (!l)).2.1) l (headId a) (headId b) a.last
      (h.tinv.pushTris seq _) h.ca.good h.p3.sidea (h.ca.side _ hm) han hhl (h.oab hl) (fun _ => hchord)
    have fl := flush_le (l := l) (a := a) (b := b) h.p3 nf
    have r1 : (reRef (flushSide a !l).1 p l).events = [a.last.id] := e1
    have r2 : (reRef (flushSide a !l).1 p l).last = a.last := e2
    have hha : headId (reRef (flushSide a !l).1 p l) = a.last.id := by simp [headId, r1]
    have hy : Y3 seq l k ((tess.pushTris (flushSide a (!l)).2.1).vertex a.last)
        (reRef (flushSide a !l).1 p l) { b with consRefX := b.refPt.x } :=
      { p3 := hp3
        tinv := by
          show TInv seq _ l (headId (reRef (flushSide a !l).1 p l)) (headId b)
          rw [hha]; exact t1
        ca := h.ca.restart seq hl r1 r2
        cb := h.cb.congr seq rfl rfl
        oab := fun h2 => by
          exfalso
          rw [r1] at h2
          simp at h2
        oba := fun h2 => by
          show headId (reRef (flushSide a !l).1 p l) < b.last.id
          rw [hha]; exact hord h2 }
    refine ⟨hy, ?_, by show (reRef (flushSide a !l).1 p l).events.length < 2; rw [r1]; simp, r2, rfl, rfl,
      fun _ => r1, fun g => by omega⟩
    simp only [Phi3, r1, r2, e3]
    exact fl

/-- the ends of the two chains have different ids unless both chains are the apex alone -/
theorem Y3.ends_ne {l : Bool} {k : Nat} {tess : Basic K} {a b : SideEv K} (h : Y3 seq l k tess a b)
    (h2 : 2 ≤ b.events.length) : a.last.id ≠ b.last.id := by
  obtain ⟨hm, hhl⟩ := h.cb.last_tail seq h2
  have hsb := h.cb.side _ hm
  intro e
  by_cases ha : 2 ≤ a.events.length
  · have hsa := h.ca.side _ (h.ca.last_tail seq ha).1
    rw [e, hsb] at hsa
    revert hsa; cases l <;> simp
  · obtain ⟨_, hh⟩ := h.ca.single_head seq (by omega)
    rcases h.ca.hside with g | g
    · rw [hh, e] at g; omega
    · rw [hh, e, hsb] at g
      revert g; cases l <;> simp

theorem headId_push (s : SideEv K) (v : MV K) (hne : s.events ≠ []) : headId (s.push v) = headId s := by
  simp only [headId, SideEv.push]
  cases hs : s.events with
  | nil => exact absurd hs hne
  | cons x r => simp

/-- **one `vertex` call** on the triple (side `a` receives the vertex `k`) -/
theorem stepSides_y (hval : SweepValid seq) (tess : Basic K) (a b : SideEv K) (dx : K) (p : P K) (l : Bool) (k : Nat)
    (hk : k + 1 < seq.length) (h : Y3 seq l k tess a b) (hp : posOf seq k = p) (hs : sideAt seq k = l)
    (hca : ChordClear seq l a) (hcb : ChordClear seq (!l) b) :
    Y3t seq l (k + 1) (stepSides tess a b dx p k l) ∧
      Phi3 (posOf seq) l (stepSides tess a b dx p k l) ≤
        Phi3 (posOf seq) l (tess, a, b) + wind (outL l a.last.pos b.last.pos) p (outR l a.last.pos b.last.pos) := by
  dsimp only [stepSides]
  have hv : Good (posOf seq) (⟨p, k, l⟩ : MV K) := hp.symm
  have hnl : sideAt seq k ≠ !l := by rw [hs]; cases l <;> simp
  have han : a.last.id < seq.length := by have := h.ca.lt _ (h.ca.last_mem seq); omega
  have hbn : b.last.id < seq.length := by have := h.cb.lt _ (h.cb.last_mem seq); omega
  -- the state after the optional flush of the other side
  have h1 : Y3t seq l k (if isAfter a.last.pos b.last.pos then flushOpp tess a b l else (tess, a, b)) ∧
      Phi3 (posOf seq) l (if isAfter a.last.pos b.last.pos then flushOpp tess a b l else (tess, a, b)) ≤
        Phi3 (posOf seq) l (tess, a, b) ∧
      (if isAfter a.last.pos b.last.pos then flushOpp tess a b l else (tess, a, b)).2.1.events = a.events ∧
      (if isAfter a.last.pos b.last.pos then flushOpp tess a b l else (tess, a, b)).2.1.last = a.last ∧
      (if isAfter a.last.pos b.last.pos then flushOpp tess a b l else (tess, a, b)).2.2.last = b.last ∧
      (2 ≤ (if isAfter a.last.pos b.last.pos then flushOpp tess a b l else (tess, a, b)).2.2.events.length →
        a.last.id < b.last.id) := by
    split
    · rename_i hia
      obtain ⟨g1, g2, g3, g4, g5, g6⟩ := flushOpp_y seq hval tess a b l k (by omega) h hcb ((isAfter_iff _ _).mp hia)
      exact ⟨g1, g2, g3, g4, g5, fun g => by omega⟩
    · rename_i hia
      refine ⟨h, le_refl _, rfl, rfl, rfl, ?_⟩
      intro h2
      have h2' : 2 ≤ b.events.length := h2
      have hna : ¬ After a.last.pos b.last.pos := fun g => hia ((isAfter_iff _ _).mpr g)
      have ha := h.ca.good
      have hb := h.cb.good
      unfold Good at ha hb
      rw [ha, hb] at hna
      have := id_le_of_not_after seq hval han hbn hna
      have := h.ends_ne seq h2'
      omega
  by_cases hcond : (outwardTurn a p l (decide (dx < (p.y - a.refPt.y) * Scalar.ofSci 1 1)) ||
        decide (dx < (p.y - a.refPt.y) * Scalar.ofSci 1 1)) = true
  · rw [if_pos hcond]
    generalize (if isAfter a.last.pos b.last.pos then flushOpp tess a b l else (tess, a, b)) = r1 at h1 ⊢
    obtain ⟨r1t, r1a, r1b⟩ := r1
    obtain ⟨h1a, h1b, h1e, h1c, h1d, h1o⟩ := h1
    have h1a' : Y3 seq l k r1t r1a r1b := h1a
    have h1e' : r1a.events = a.events := h1e
    have h1c' : r1a.last = a.last := h1c
    have h1d' : r1b.last = b.last := h1d
    have h1o' : 2 ≤ r1b.events.length → a.last.id < b.last.id := h1o
    have h1b' : Phi (posOf seq) r1t l r1a.events r1a.last.pos r1b.events r1b.last.pos ≤
        Phi (posOf seq) tess l a.events a.last.pos b.events b.last.pos := h1b
    have hca1 : ChordClear seq l r1a := hca.congr seq h1e' h1c'
    obtain ⟨g1, g2, g3, g4, g5, g6, g7, g8⟩ := flushOwn_y seq hval r1t r1a r1b p l k (by omega) h1a' hca1
      (fun g => by rw [h1c', h1d']; exact h1o' g)
    show Y3t seq l (k + 1) ((flushOwn r1t r1a r1b p l).1, (flushOwn r1t r1a r1b p l).2.1.push ⟨p, k, l⟩,
        (flushOwn r1t r1a r1b p l).2.2) ∧ _
    generalize flushOwn r1t r1a r1b p l = r at g1 g2 g3 g4 g5 g6 g7 g8 ⊢
    obtain ⟨rt, ra, rb⟩ := r
    have g1' : Y3 seq l k rt ra rb := g1
    have g2' : Phi (posOf seq) rt l ra.events ra.last.pos rb.events rb.last.pos ≤
        Phi (posOf seq) r1t l r1a.events r1a.last.pos r1b.events r1b.last.pos := g2
    have g4' : ra.last = r1a.last := g4
    have g5' : rb.last = r1b.last := g5
    have g6' : rb.events = r1b.events := g6
    have g7' : 2 ≤ r1a.events.length → ra.events = [r1a.last.id] := g7
    have g8' : r1a.events.length < 2 → ra.events = r1a.events := g8
    obtain ⟨q1, q2⟩ := push_pot (l := l) g1'.p3 ⟨p, k, l⟩ hv rfl
    have hheadA := headId_push ra ⟨p, k, l⟩ g1'.ca.ne
    have hy : Y3 seq l (k + 1) rt (ra.push ⟨p, k, l⟩) rb :=
      { p3 := q1
        tinv := by rw [hheadA]; exact g1'.tinv
        ca := g1'.ca.push seq p hp hs
        cb := g1'.cb.mono seq hnl
        oab := fun _ => by
          show headId rb < k
          exact g1'.cb.lt _ (by rw [g1'.cb.head_mem seq]; simp)
        oba := fun h2 => by
          rw [hheadA]
          by_cases h2a : 2 ≤ r1a.events.length
          · have : headId ra = r1a.last.id := by simp [headId, g7' h2a]
            rw [this, g5', h1c', h1d']
            exact h1o' (by rw [← g6']; exact h2)
          · have hev : ra.events = r1a.events := g8' (by omega)
            have : headId ra = headId r1a := by simp [headId, hev]
            rw [this, g5']
            exact h1a'.oba (by rw [← g6']; exact h2) }
    refine ⟨hy, ?_⟩
    show Phi (posOf seq) rt l (ra.push ⟨p, k, l⟩).events (ra.push ⟨p, k, l⟩).last.pos rb.events rb.last.pos ≤
      Phi (posOf seq) tess l a.events a.last.pos b.events b.last.pos + _
    simp only [SideEv.push]
    rw [g4', g5', h1c', h1d'] at q2
    rw [g5', h1d', q2]
    rw [g4', g5', h1c', h1d'] at g2'
    rw [h1c', h1d'] at h1b'
    linarith
  · rw [if_neg hcond]
    obtain ⟨q1, q2⟩ := push_pot (l := l) h.p3 ⟨p, k, l⟩ hv rfl
    have hheadA := headId_push a ⟨p, k, l⟩ h.ca.ne
    have hy : Y3 seq l (k + 1) tess (a.push ⟨p, k, l⟩) b :=
      { p3 := q1
        tinv := by rw [hheadA]; exact h.tinv
        ca := h.ca.push seq p hp hs
        cb := h.cb.mono seq hnl
        oab := fun _ => by
          show headId b < k
          exact h.cb.lt _ (by rw [h.cb.head_mem seq]; simp)
        oba := fun h2 => by rw [hheadA]; exact h.oba h2 }
    refine ⟨hy, ?_⟩
    show Phi (posOf seq) tess l (a.push ⟨p, k, l⟩).events (a.push ⟨p, k, l⟩).last.pos b.events b.last.pos ≤
      Phi (posOf seq) tess l a.events a.last.pos b.events b.last.pos + _
    simp only [SideEv.push]
    rw [q2]

end Geometry

end Lyon.C02f
