/-
  C03c — the geometry of `fill_circle`'s triangles, over an ordered field with `cos`, `sin`, `π`
  as parameters (`Transc K`) and the laws used collected in `CircTrig` (all discharged for
  Mathlib's real functions in `Props/C03Real.lean`).

  * `CircTrig`                  the laws: `cos² + sin² = 1`, addition formulas, `sin > 0` on `(0, π)`,
                                `π > 0`, `cos (π/2) = 0`, `sin x ≤ x` for `x ≥ 0`
  * `leafEdges_regular`         the leaf edges of a border call between angles `a0`, `a1` are the
                                `2ⁿ` chords between the angles `a0 + k·(a1 − a0)/2ⁿ` (the mid vertex
                                of the model IS at the mid angle: `(a0 + a1)·0.5`)
  * `circleEdges_regular`       the boundary edges of the circle mesh are sides of the regular
                                `4·2ⁿ`-gon `V k = c + r·(cos kδ, sin kδ)`, `δ = π/(2·2ⁿ)`
  * `chord_inner`               a point at distance `≤ r·cos η` from the centre is on the inner side
                                of the chord between the angles `μ − η`, `μ + η`
  * `border_good`/`circle_good` every emitted triangle has its three vertices on the circle and is
                                non-degenerate (area `2r²·sin h·(1 − cos h) ≠ 0`)
  * `inTri_in_disc`             a non-degenerate triangle with vertices in the disc lies in the disc
-/
import LyonVerif.Lemmas.CircleCoverMesh

set_option linter.unusedSectionVars false
set_option linter.unusedVariables false

namespace Lyon.C03c
open Lyon Lyon.Shapes Lyon.C03

variable {K : Type} [Field K] [LinearOrder K] [IsStrictOrderedRing K] [Transc K]

/-- the laws of `cos`, `sin`, `π` used by the circle theorems -/
structure CircTrig (K : Type) [Field K] [LinearOrder K] [IsStrictOrderedRing K] [Transc K] : Prop where
  cos_sq_add_sin_sq : ∀ x : K, Transc.cos x * Transc.cos x + Transc.sin x * Transc.sin x = 1
  cos_add : ∀ x y : K, Transc.cos (x + y) = Transc.cos x * Transc.cos y - Transc.sin x * Transc.sin y
  sin_add : ∀ x y : K, Transc.sin (x + y) = Transc.sin x * Transc.cos y + Transc.cos x * Transc.sin y
  sin_pos : ∀ x : K, 0 < x → x < Transc.pi → 0 < Transc.sin x
  pi_pos : (0 : K) < Transc.pi
  cos_pi_div_two : Transc.cos ((Transc.pi : K) / 2) = 0
  sin_le : ∀ x : K, 0 ≤ x → Transc.sin x ≤ x

namespace CircTrig
variable (L : CircTrig K)
include L

theorem cos_sub (x y : K) :
    Transc.cos (x - y) = Transc.cos x * Transc.cos y + Transc.sin x * Transc.sin y := by
  have hc := L.cos_add (x - y) y
  have hs := L.sin_add (x - y) y
  have hp := L.cos_sq_add_sin_sq y
  rw [sub_add_cancel] at hc hs
  linear_combination (-Transc.cos y) * hc - Transc.sin y * hs - Transc.cos (x - y) * hp

theorem sin_sub (x y : K) :
    Transc.sin (x - y) = Transc.sin x * Transc.cos y - Transc.cos x * Transc.sin y := by
  have hc := L.cos_add (x - y) y
  have hs := L.sin_add (x - y) y
  have hp := L.cos_sq_add_sin_sq y
  rw [sub_add_cancel] at hc hs
  linear_combination (Transc.sin y) * hc - Transc.cos y * hs - Transc.sin (x - y) * hp

theorem cos_zero : Transc.cos (0 : K) = 1 := by
  have := L.cos_sub 0 0
  rw [sub_zero] at this
  rw [this]; exact L.cos_sq_add_sin_sq 0

theorem sin_zero : Transc.sin (0 : K) = 0 := by
  have := L.sin_sub 0 0
  rw [sub_zero] at this
  rw [this]; ring

theorem sin_pi_div_two : Transc.sin ((Transc.pi : K) / 2) = 1 := by
  have hp := L.cos_sq_add_sin_sq ((Transc.pi : K) / 2)
  rw [L.cos_pi_div_two] at hp
  have hpos : 0 < Transc.sin ((Transc.pi : K) / 2) :=
    L.sin_pos _ (by have := L.pi_pos; linarith) (by have := L.pi_pos; linarith)
  have h0 : (Transc.sin ((Transc.pi : K) / 2) - 1) * (Transc.sin ((Transc.pi : K) / 2) + 1) = 0 := by
    linear_combination hp
  rcases mul_eq_zero.1 h0 with h | h
  · linarith
  · linarith

theorem cos_pi : Transc.cos (Transc.pi : K) = -1 := by
  have := L.cos_add ((Transc.pi : K) / 2) ((Transc.pi : K) / 2)
  rw [add_halves, L.cos_pi_div_two, L.sin_pi_div_two] at this
  rw [this]; ring

theorem sin_pi : Transc.sin (Transc.pi : K) = 0 := by
  have := L.sin_add ((Transc.pi : K) / 2) ((Transc.pi : K) / 2)
  rw [add_halves, L.cos_pi_div_two, L.sin_pi_div_two] at this
  rw [this]; ring

theorem cos_three_pi_div_two : Transc.cos (3 * (Transc.pi : K) / 2) = 0 := by
  have e : 3 * (Transc.pi : K) / 2 = Transc.pi + Transc.pi / 2 := by ring
  rw [e, L.cos_add, L.cos_pi, L.sin_pi, L.cos_pi_div_two]; ring

theorem sin_three_pi_div_two : Transc.sin (3 * (Transc.pi : K) / 2) = -1 := by
  have e : 3 * (Transc.pi : K) / 2 = Transc.pi + Transc.pi / 2 := by ring
  rw [e, L.sin_add, L.cos_pi, L.sin_pi, L.sin_pi_div_two]; ring

theorem cos_two_pi : Transc.cos (2 * (Transc.pi : K)) = 1 := by
  rw [two_mul, L.cos_add, L.cos_pi, L.sin_pi]; ring

theorem sin_two_pi : Transc.sin (2 * (Transc.pi : K)) = 0 := by
  rw [two_mul, L.sin_add, L.cos_pi, L.sin_pi]; ring

/-- `cos > 0` on `(-π/2, π/2)` -/
theorem cos_pos (x : K) (h0 : -(Transc.pi / 2) < x) (h1 : x < (Transc.pi : K) / 2) : 0 < Transc.cos x := by
  have h := L.sin_add x ((Transc.pi : K) / 2)
  rw [L.cos_pi_div_two, L.sin_pi_div_two] at h
  have hp := L.sin_pos (x + Transc.pi / 2) (by linarith) (by linarith)
  rw [h] at hp
  linarith

/-- `cos x < 1` when `sin x ≠ 0` -/
theorem cos_lt_one (x : K) (hs : Transc.sin x ≠ 0) : Transc.cos x < 1 := by
  have hp := L.cos_sq_add_sin_sq x
  have : 0 < Transc.sin x * Transc.sin x := mul_self_pos.2 hs
  nlinarith

end CircTrig

noncomputable section

/-! ### the model's angle constants -/

theorem half_eq : (Scalar.half : K) = 1 / 2 := sc_half
theorem mid_eq (a0 a1 : K) : (a0 + a1) * Scalar.half = (a0 + a1) / 2 := by rw [half_eq]; ring
theorem ang_three_half : Scalar.ofSci 15 1 * (Transc.pi : K) = 3 * Transc.pi / 2 := by
  simp only [ofSci_eq]; norm_num; ring
theorem ang_two : Scalar.two * (Transc.pi : K) = 2 * Transc.pi := by simp
theorem ang_half : (Transc.pi : K) * Scalar.half = Transc.pi / 2 := by rw [half_eq]; ring
theorem ang_zero : (Scalar.zero : K) = 0 := sc_zero

theorem pos_x (c : P K) (r a : K) : (pos c r a).x = c.x + Transc.cos a * r := rfl
theorem pos_y (c : P K) (r a : K) : (pos c r a).y = c.y + Transc.sin a * r := rfl

theorem pos_on_circle (L : CircTrig K) (c : P K) (r a : K) : OnCircle c r (pos c r a) := by
  have := L.cos_sq_add_sin_sq a
  simp only [OnCircle, pos_x, pos_y]
  linear_combination (r * r) * this

/-- **the axis vertices are the points at the angles the code passes** -/
theorem axisVerts_eq (L : CircTrig K) (c : P K) (r : K) :
    (axisVerts c r).getD 0 c = pos c r Transc.pi ∧
    (axisVerts c r).getD 1 c = pos c r (Scalar.ofSci 15 1 * Transc.pi) ∧
    (axisVerts c r).getD 2 c = pos c r (Scalar.two * Transc.pi) ∧
    (axisVerts c r).getD 2 c = pos c r Scalar.zero ∧
    (axisVerts c r).getD 3 c = pos c r (Transc.pi * Scalar.half) := by
  simp only [axisVerts, List.getD_cons_zero, List.getD_cons_succ]
  refine ⟨?_, ?_, ?_, ?_, ?_⟩
  · apply P.ext' <;> simp [pos_x, pos_y, L.cos_pi, L.sin_pi, geom]
  · apply P.ext' <;>
      simp only [pos_x, pos_y, ang_three_half, L.cos_three_pi_div_two, L.sin_three_pi_div_two] <;> simp [geom]
  · apply P.ext' <;> simp only [pos_x, pos_y, ang_two, L.cos_two_pi, L.sin_two_pi] <;> simp [geom]
  · apply P.ext' <;> simp only [pos_x, pos_y, ang_zero, L.cos_zero, L.sin_zero] <;> simp [geom]
  · apply P.ext' <;> simp only [pos_x, pos_y, ang_half, L.cos_pi_div_two, L.sin_pi_div_two] <;> simp [geom]

/-! ### the leaf edges are the chords of a regular subdivision -/

/-- **the mid vertex is at the mid angle, recursively**: the leaf edges of a border call of depth `n`
between the angles `a0`, `a1` are the `2ⁿ` chords between consecutive angles `a0 + k·(a1 − a0)/2ⁿ` -/
theorem leafEdges_regular (c : P K) (r : K) (n : Nat) (a0 a1 : K) :
    leafEdges c r n a0 a1 (pos c r a0) (pos c r a1) =
      (List.range (2 ^ n)).map (fun k : Nat =>
        (pos c r (a0 + (k : K) * ((a1 - a0) / 2 ^ n)), pos c r (a0 + ((k : K) + 1) * ((a1 - a0) / 2 ^ n)))) := by
  induction n generalizing a0 a1 with
  | zero =>
    simp only [leafEdges, pow_zero, List.range_one, List.map_cons, List.map_nil, Nat.cast_zero]
    congr 3 <;> ring
  | succ n ih =>
    simp only [leafEdges]
    rw [ih, ih]
    have h2 : 2 ^ (n + 1) = 2 ^ n + 2 ^ n := by rw [pow_succ]; ring
    rw [h2, List.range_add, List.map_append, List.map_map]
    have hne : (2 : K) ^ n ≠ 0 := pow_ne_zero _ two_ne_zero
    congr 1
    · apply List.map_congr_left
      intro k _
      rw [mid_eq]
      congr 2
      · rw [pow_succ]; field_simp; ring
      · rw [pow_succ]; field_simp; ring
    · apply List.map_congr_left
      intro k _
      simp only [Function.comp, Nat.cast_add, Nat.cast_pow, Nat.cast_ofNat]
      rw [mid_eq]
      congr 2
      · rw [pow_succ]; field_simp; ring
      · rw [pow_succ]; field_simp; ring

/-- the `k`-th vertex of the regular `4·2ⁿ`-gon inscribed in the circle, first vertex at angle 0 -/
def regVert (c : P K) (r : K) (n k : Nat) : P K :=
  pos c r ((k : K) * ((Transc.pi : K) / (2 * 2 ^ n)))

/-- the sides `V k → V (k+1)` for `k = lo, …, lo + cnt − 1` -/
def regSides (c : P K) (r : K) (n lo cnt : Nat) : List (P K × P K) :=
  (List.range cnt).map (fun j : Nat => (regVert c r n (lo + j), regVert c r n (lo + j + 1)))

/-- the leaf edges of the border call of quadrant `q` (angles `q·π/2 … (q+1)·π/2`) are the sides
`q·2ⁿ … (q+1)·2ⁿ − 1` of the regular polygon, in order -/
theorem leafEdges_quadrant (c : P K) (r : K) (n q : Nat) (a0 a1 : K)
    (h0 : a0 = (q : K) * (Transc.pi / 2)) (h1 : a1 = ((q : K) + 1) * (Transc.pi / 2)) :
    leafEdges c r n a0 a1 (pos c r a0) (pos c r a1) = regSides c r n (q * 2 ^ n) (2 ^ n) := by
  rw [leafEdges_regular, regSides]
  apply List.map_congr_left
  intro k _
  have hne : (2 : K) ^ n ≠ 0 := pow_ne_zero _ two_ne_zero
  simp only [regVert, Nat.cast_add, Nat.cast_mul, Nat.cast_pow, Nat.cast_ofNat, Nat.cast_one]
  subst h0 h1
  congr 2
  · field_simp; ring
  · field_simp; ring

/-- **the boundary of the circle mesh IS the inscribed regular `4·2ⁿ`-gon**: the boundary edges,
in the order the four border calls produce them, are the sides `V k → V (k+1)` of the third, the
fourth, the first and the second quadrant; `V k = c + r·(cos kδ, sin kδ)`, `δ = π/(2·2ⁿ)` -/
theorem circleEdges_eq (L : CircTrig K) (c : P K) (r : K) (n : Nat) :
    circleEdges c r n = regSides c r n (2 * 2 ^ n) (2 ^ n) ++ regSides c r n (3 * 2 ^ n) (2 ^ n) ++
      regSides c r n (0 * 2 ^ n) (2 ^ n) ++ regSides c r n (1 * 2 ^ n) (2 ^ n) := by
  obtain ⟨v0, v1, v2, v2', v3⟩ := axisVerts_eq L c r
  simp only [circleEdges]
  congr 1
  congr 1
  congr 1
  · rw [v0, v1]
    exact leafEdges_quadrant c r n 2 _ _ (by push_cast; ring) (by rw [ang_three_half]; push_cast; ring)
  · rw [v1, v2]
    exact leafEdges_quadrant c r n 3 _ _ (by rw [ang_three_half]; push_cast; ring) (by rw [ang_two]; push_cast; ring)
  · rw [v2', v3]
    exact leafEdges_quadrant c r n 0 _ _ (by rw [ang_zero]; push_cast; ring) (by rw [ang_half]; push_cast; ring)
  · rw [v3, v0]
    exact leafEdges_quadrant c r n 1 _ _ (by rw [ang_half]; push_cast; ring) (by push_cast; ring)

theorem mem_regSides (c : P K) (r : K) (n lo cnt : Nat) (e : P K × P K) :
    e ∈ regSides c r n lo cnt ↔ ∃ k, lo ≤ k ∧ k < lo + cnt ∧ e = (regVert c r n k, regVert c r n (k + 1)) := by
  simp only [regSides, List.mem_map, List.mem_range]
  constructor
  · rintro ⟨j, hj, rfl⟩
    exact ⟨lo + j, by omega, by omega, rfl⟩
  · rintro ⟨k, h1, h2, rfl⟩
    refine ⟨k - lo, by omega, ?_⟩
    have : lo + (k - lo) = k := by omega
    rw [this]

/-- **a pair is a boundary edge of the circle mesh iff it is a side `V k → V (k+1)`, `k < 4·2ⁿ`,
of the inscribed regular polygon** -/
theorem mem_circleEdges_iff (L : CircTrig K) (c : P K) (r : K) (n : Nat) (e : P K × P K) :
    e ∈ circleEdges c r n ↔ ∃ k : Nat, k < 4 * 2 ^ n ∧ e = (regVert c r n k, regVert c r n (k + 1)) := by
  rw [circleEdges_eq L]
  simp only [List.mem_append, mem_regSides]
  constructor
  · rintro (((⟨k, _, h, rfl⟩ | ⟨k, _, h, rfl⟩) | ⟨k, _, h, rfl⟩) | ⟨k, _, h, rfl⟩) <;> exact ⟨k, by omega, rfl⟩
  · rintro ⟨k, hk, rfl⟩
    have hp : 0 < 2 ^ n := Nat.pos_of_ne_zero (by positivity)
    by_cases h1 : k < 1 * 2 ^ n
    · exact Or.inl (Or.inr ⟨k, by omega, by omega, rfl⟩)
    by_cases h2 : k < 2 * 2 ^ n
    · exact Or.inr ⟨k, by omega, by omega, rfl⟩
    by_cases h3 : k < 3 * 2 ^ n
    · exact Or.inl (Or.inl (Or.inl ⟨k, by omega, by omega, rfl⟩))
    · exact Or.inl (Or.inl (Or.inr ⟨k, by omega, by omega, rfl⟩))

theorem circleEdges_regular (L : CircTrig K) (c : P K) (r : K) (n : Nat) (e : P K × P K)
    (he : e ∈ circleEdges c r n) :
    ∃ k : Nat, k < 4 * 2 ^ n ∧ e = (regVert c r n k, regVert c r n (k + 1)) :=
  (mem_circleEdges_iff L c r n e).1 he

/-! ### the half-plane of a chord contains the disc of radius `r·cos η` -/

theorem pos_add (L : CircTrig K) (c : P K) (r μ η : K) :
    pos c r (μ + η) = ⟨c.x + (Transc.cos μ * Transc.cos η - Transc.sin μ * Transc.sin η) * r,
                       c.y + (Transc.sin μ * Transc.cos η + Transc.cos μ * Transc.sin η) * r⟩ := by
  apply P.ext'
  · rw [pos_x, L.cos_add]
  · rw [pos_y, L.sin_add]

theorem pos_sub (L : CircTrig K) (c : P K) (r μ η : K) :
    pos c r (μ - η) = ⟨c.x + (Transc.cos μ * Transc.cos η + Transc.sin μ * Transc.sin η) * r,
                       c.y + (Transc.sin μ * Transc.cos η - Transc.cos μ * Transc.sin η) * r⟩ := by
  apply P.ext'
  · rw [pos_x, L.cos_sub]
  · rw [pos_y, L.sin_sub]

/-- **a point within `r·cos η` of the centre is on the inner side of the chord** from angle
`μ − η` to angle `μ + η` (`sin η ≥ 0`, `cos η ≥ 0`, `r ≥ 0`): the chord is at distance `r·cos η`. -/
theorem chord_inner (L : CircTrig K) (c : P K) (r μ η : K) (p : P K) (hr : 0 ≤ r)
    (hs : 0 ≤ Transc.sin η) (hc : 0 ≤ Transc.cos η)
    (hp : (p - c).sqLen ≤ (r * Transc.cos η) * (r * Transc.cos η)) :
    Inner (pos c r (μ - η), pos c r (μ + η)) p := by
  have hpy := L.cos_sq_add_sin_sq μ
  set C := Transc.cos μ
  set S := Transc.sin μ
  set ch := Transc.cos η
  set sh := Transc.sin η
  simp only [Inner, pos_add L, pos_sub L]
  simp only [geom] at hp ⊢
  set qx := p.x - c.x with hqx
  set qy := p.y - c.y with hqy
  have key : (c.x + (C * ch - S * sh) * r - (c.x + (C * ch + S * sh) * r)) * (p.y - (c.y + (S * ch - C * sh) * r))
      - (c.y + (S * ch + C * sh) * r - (c.y + (S * ch - C * sh) * r)) * (p.x - (c.x + (C * ch + S * sh) * r))
      = 2 * r * sh * (r * ch * (C * C + S * S) - (C * qx + S * qy)) := by
    rw [hqx, hqy]; ring
  rw [key, hpy]
  have hdot : (C * qx + S * qy) * (C * qx + S * qy) ≤ qx * qx + qy * qy := by
    nlinarith [sq_nonneg (C * qy - S * qx)]
  have hle : C * qx + S * qy ≤ r * ch := by
    by_contra hlt
    rw [not_le] at hlt
    have h0 : 0 ≤ r * ch := mul_nonneg hr hc
    have := mul_self_lt_mul_self h0 hlt
    linarith
  have : 0 ≤ 2 * r * sh := by positivity
  exact mul_nonneg this (by linarith)

/-! ### every emitted triangle is non-degenerate with its vertices on the circle -/

/-- twice the signed area of the triangle `(μ + h, μ, μ − h)` of one subdivision step -/
theorem step_area (L : CircTrig K) (c : P K) (r μ h : K) :
    (pos c r μ - pos c r (μ + h)).cross (pos c r (μ - h) - pos c r (μ + h))
      = -(2 * (r * r) * Transc.sin h * (1 - Transc.cos h)) := by
  have hpy := L.cos_sq_add_sin_sq μ
  rw [pos_add L, pos_sub L]
  simp only [geom, pos_x, pos_y]
  linear_combination (-(2 * (r * r) * Transc.sin h * (1 - Transc.cos h))) * hpy

/-- mesh invariant: every triangle has its vertices on the circle and non-zero area -/
def Good (c : P K) (r : K) (m : Mesh K) : Prop :=
  ∀ t ∈ m.tris, ∃ A B C : P K, m.verts[t.1]? = some A ∧ m.verts[t.2.1]? = some B ∧
    m.verts[t.2.2]? = some C ∧ OnCircle c r A ∧ OnCircle c r B ∧ OnCircle c r C ∧
    (B - A).cross (C - A) ≠ 0

theorem Good.extend {c : P K} {r : K} {m m' : Mesh K} (hg : Good c r m) (he : Extends m m')
    (hnew : ∀ t ∈ m'.tris, t ∈ m.tris ∨ ∃ A B C : P K, m'.verts[t.1]? = some A ∧ m'.verts[t.2.1]? = some B ∧
      m'.verts[t.2.2]? = some C ∧ OnCircle c r A ∧ OnCircle c r B ∧ OnCircle c r C ∧
      (B - A).cross (C - A) ≠ 0) : Good c r m' := by
  intro t ht
  rcases hnew t ht with h | h
  · obtain ⟨A, B, C, hA, hB, hC, r1⟩ := hg t h
    exact ⟨A, B, C, he.vert hA, he.vert hB, he.vert hC, r1⟩
  · exact h

/-- **`fill_border_radius` emits only non-degenerate triangles with vertices on the circle**, when
called on two vertices at angles `a0 < a1 < a0 + 2π` -/
theorem border_good (L : CircTrig K) (c : P K) (r : K) (hr : r ≠ 0) (n : Nat) (a0 a1 : K) (va vb : Nat)
    (m : Mesh K) (hA : m.verts[va]? = some (pos c r a0)) (hB : m.verts[vb]? = some (pos c r a1))
    (h0 : 0 < a1 - a0) (h1 : a1 - a0 < 2 * Transc.pi) (hg : Good c r m) :
    Good c r (fillBorderRadius c a0 a1 r va vb n m) := by
  induction n generalizing a0 a1 va vb m with
  | zero => exact hg
  | succ n ih =>
    simp only [fillBorderRadius]
    set mid := (a0 + a1) * Scalar.half with hmid
    have hmid2 : mid = (a0 + a1) / 2 := mid_eq a0 a1
    set M : P K := c + (⟨Transc.cos mid, Transc.sin mid⟩ : P K).smul r with hM
    have hMp : M = pos c r mid := rfl
    set m1 : Mesh K := ⟨m.verts ++ [M], m.tris ++ [(vb, m.verts.length, va)]⟩ with hm1
    have e1 : Extends m m1 := ⟨⟨[M], rfl⟩, ⟨[_], rfl⟩⟩
    have hMv : m1.verts[m.verts.length]? = some (pos c r mid) := by simp [hm1, hMp]
    have g1 : Good c r m1 := by
      refine hg.extend e1 ?_
      intro t ht
      simp only [hm1, List.mem_append, List.mem_cons, List.not_mem_nil, or_false] at ht
      rcases ht with ht | ht
      · exact Or.inl ht
      · right
        subst ht
        refine ⟨pos c r a1, pos c r mid, pos c r a0, e1.vert hB, hMv, e1.vert hA,
          pos_on_circle L .., pos_on_circle L .., pos_on_circle L .., ?_⟩
        set h := (a1 - a0) / 2 with hh
        have ea1 : a1 = mid + h := by rw [hmid2, hh]; ring
        have ea0 : a0 = mid - h := by rw [hmid2, hh]; ring
        have hs : 0 < Transc.sin h := L.sin_pos h (by rw [hh]; linarith) (by rw [hh]; linarith)
        have hc : Transc.cos h < 1 := L.cos_lt_one h (ne_of_gt hs)
        have harea := step_area L c r mid h
        rw [← ea1, ← ea0] at harea
        rw [harea]
        have hrr : 0 < r * r := mul_self_pos.2 hr
        have : 0 < 2 * (r * r) * Transc.sin h * (1 - Transc.cos h) := by
          have : 0 < 1 - Transc.cos h := by linarith
          positivity
        linarith
    set m2 := fillBorderRadius c a0 mid r va m.verts.length n m1 with hm2
    have e2 : Extends m1 m2 := border_extends ..
    have g2 : Good c r m2 :=
      ih a0 mid va m.verts.length m1 (e1.vert hA) hMv (by rw [hmid2]; linarith) (by rw [hmid2]; linarith) g1
    exact ih mid a1 m.verts.length vb m2 (e2.vert hMv) ((e1.trans e2).vert hB)
      (by rw [hmid2]; linarith) (by rw [hmid2]; linarith) g2

/-- **every triangle of the circle mesh is non-degenerate with its vertices on the circle** -/
theorem circle_good (L : CircTrig K) (c : P K) (r tol : K) (m : Mesh K) (h : fillCircle c r tol = some m) :
    Good c (Scalar.abs r) m := by
  unfold fillCircle at h
  simp only [] at h
  split at h
  · exact absurd h (by simp)
  · rename_i hz
    injection h with h
    subst h
    set R := Scalar.abs r with hR
    have hR0 : R ≠ 0 := by
      intro h0
      apply hz
      rw [h0]
      exact (sc_beq _ _).2 sc_zero.symm
    set n := circleRecursions R tol with hn
    obtain ⟨v0, v1, v2, v2', v3⟩ := axisVerts_eq L c R
    have hpi := L.pi_pos
    have hVd : axisVerts c R = [c + (⟨-Scalar.one, Scalar.zero⟩ : P K).smul R, c + (⟨Scalar.zero, -Scalar.one⟩ : P K).smul R,
      c + (⟨Scalar.one, Scalar.zero⟩ : P K).smul R, c + (⟨Scalar.zero, Scalar.one⟩ : P K).smul R] := rfl
    set m0 : Mesh K := ⟨axisVerts c R, [(0, 3, 1), (1, 3, 2)]⟩ with hm0
    have g0 : m0.verts[0]? = some ((axisVerts c R).getD 0 c) := by simp [hm0, hVd]
    have g1 : m0.verts[1]? = some ((axisVerts c R).getD 1 c) := by simp [hm0, hVd]
    have g2 : m0.verts[2]? = some ((axisVerts c R).getD 2 c) := by simp [hm0, hVd]
    have g3 : m0.verts[3]? = some ((axisVerts c R).getD 3 c) := by simp [hm0, hVd]
    have hRR : 0 < R * R := mul_self_pos.2 hR0
    have good0 : Good c R m0 := by
      intro t ht
      simp only [hm0, List.mem_cons, List.not_mem_nil, or_false] at ht
      rcases ht with ht | ht
      · subst ht
        refine ⟨_, _, _, g0, g3, g1, ?_, ?_, ?_, ?_⟩
        · rw [v0]; exact pos_on_circle L ..
        · rw [v3]; exact pos_on_circle L ..
        · rw [v1]; exact pos_on_circle L ..
        · simp only [hVd, List.getD_cons_zero, List.getD_cons_succ, geom, Nat.cast_zero, Nat.cast_one]
          intro h; nlinarith
      · subst ht
        refine ⟨_, _, _, g1, g3, g2, ?_, ?_, ?_, ?_⟩
        · rw [v1]; exact pos_on_circle L ..
        · rw [v3]; exact pos_on_circle L ..
        · rw [v2]; exact pos_on_circle L ..
        · simp only [hVd, List.getD_cons_zero, List.getD_cons_succ, geom, Nat.cast_zero, Nat.cast_one]
          intro h; nlinarith
    show Good c R (fillBorderRadius c (Transc.pi * Scalar.half) Transc.pi R 3 0 n
      (fillBorderRadius c Scalar.zero (Transc.pi * Scalar.half) R 2 3 n
        (fillBorderRadius c (Scalar.ofSci 15 1 * Transc.pi) (Scalar.two * Transc.pi) R 1 2 n
          (fillBorderRadius c Transc.pi (Scalar.ofSci 15 1 * Transc.pi) R 0 1 n m0))))
    set m1 := fillBorderRadius c Transc.pi (Scalar.ofSci 15 1 * Transc.pi) R 0 1 n m0 with hm1
    set m2 := fillBorderRadius c (Scalar.ofSci 15 1 * Transc.pi) (Scalar.two * Transc.pi) R 1 2 n m1 with hm2
    set m3 := fillBorderRadius c Scalar.zero (Transc.pi * Scalar.half) R 2 3 n m2 with hm3
    have e1 : Extends m0 m1 := border_extends ..
    have e2 : Extends m1 m2 := border_extends ..
    have e3 : Extends m2 m3 := border_extends ..
    have good1 : Good c R m1 := border_good L c R hR0 n _ _ 0 1 m0 (v0 ▸ g0) (v1 ▸ g1)
      (by rw [ang_three_half]; linarith) (by rw [ang_three_half]; linarith) good0
    have good2 : Good c R m2 := border_good L c R hR0 n _ _ 1 2 m1 (e1.vert (v1 ▸ g1)) (e1.vert (v2 ▸ g2))
      (by rw [ang_three_half, ang_two]; linarith) (by rw [ang_three_half, ang_two]; linarith) good1
    have good3 : Good c R m3 := border_good L c R hR0 n _ _ 2 3 m2 ((e1.trans e2).vert (v2' ▸ g2))
      ((e1.trans e2).vert (v3 ▸ g3))
      (by rw [ang_zero, ang_half]; linarith) (by rw [ang_zero, ang_half]; linarith) good2
    exact border_good L c R hR0 n _ _ 3 0 m3 ((e1.trans (e2.trans e3)).vert (v3 ▸ g3))
      ((e1.trans (e2.trans e3)).vert (v0 ▸ g0))
      (by rw [ang_half]; linarith) (by rw [ang_half]; linarith) good3

/-! ### a non-degenerate triangle with vertices in the disc lies in the disc -/

/-- Cauchy–Schwarz in the form used: a non-negative combination of three vectors -/
theorem comb3_sq_le (a b d x1 y1 x2 y2 x3 y3 : K) (ha : 0 ≤ a) (hb : 0 ≤ b) (hd : 0 ≤ d) :
    (a * x1 + b * x2 + d * x3) * (a * x1 + b * x2 + d * x3) + (a * y1 + b * y2 + d * y3) * (a * y1 + b * y2 + d * y3)
      ≤ (a + b + d) * (a * (x1 * x1 + y1 * y1) + b * (x2 * x2 + y2 * y2) + d * (x3 * x3 + y3 * y3)) := by
  have t1 := mul_nonneg (mul_nonneg ha hb) (add_nonneg (mul_self_nonneg (x1 - x2)) (mul_self_nonneg (y1 - y2)))
  have t2 := mul_nonneg (mul_nonneg ha hd) (add_nonneg (mul_self_nonneg (x1 - x3)) (mul_self_nonneg (y1 - y3)))
  have t3 := mul_nonneg (mul_nonneg hb hd) (add_nonneg (mul_self_nonneg (x2 - x3)) (mul_self_nonneg (y2 - y3)))
  have id : (a + b + d) * (a * (x1 * x1 + y1 * y1) + b * (x2 * x2 + y2 * y2) + d * (x3 * x3 + y3 * y3))
      - ((a * x1 + b * x2 + d * x3) * (a * x1 + b * x2 + d * x3) + (a * y1 + b * y2 + d * y3) * (a * y1 + b * y2 + d * y3))
      = a * b * ((x1 - x2) * (x1 - x2) + (y1 - y2) * (y1 - y2)) + a * d * ((x1 - x3) * (x1 - x3) + (y1 - y3) * (y1 - y3))
        + b * d * ((x2 - x3) * (x2 - x3) + (y2 - y3) * (y2 - y3)) := by ring
  linarith

/-- **a closed non-degenerate triangle whose vertices are on the circle lies in the closed disc** -/
theorem inTri_in_disc (c : P K) (r : K) (A B C p : P K) (hA : OnCircle c r A) (hB : OnCircle c r B)
    (hC : OnCircle c r C) (hD : (B - A).cross (C - A) ≠ 0) (h : inTri A B C p) :
    (p - c).sqLen ≤ r * r := by
  simp only [OnCircle] at hA hB hC
  simp only [inTri, geom] at h hD ⊢
  set l1 := (B.x - A.x) * (p.y - A.y) - (B.y - A.y) * (p.x - A.x) with hl1
  set l2 := (C.x - B.x) * (p.y - B.y) - (C.y - B.y) * (p.x - B.x) with hl2
  set l3 := (A.x - C.x) * (p.y - C.y) - (A.y - C.y) * (p.x - C.x) with hl3
  set D := (B.x - A.x) * (C.y - A.y) - (B.y - A.y) * (C.x - A.x) with hDd
  have hsum : l1 + l2 + l3 = D := by rw [hl1, hl2, hl3, hDd]; ring
  have hx : D * (p.x - c.x) = l2 * (A.x - c.x) + l3 * (B.x - c.x) + l1 * (C.x - c.x) := by
    rw [hl1, hl2, hl3, hDd]; ring
  have hy : D * (p.y - c.y) = l2 * (A.y - c.y) + l3 * (B.y - c.y) + l1 * (C.y - c.y) := by
    rw [hl1, hl2, hl3, hDd]; ring
  have hDD : 0 < D * D := mul_self_pos.2 hD
  have main : D * D * ((p.x - c.x) * (p.x - c.x) + (p.y - c.y) * (p.y - c.y)) ≤ D * D * (r * r) := by
    rcases h with ⟨p1, p2, p3⟩ | ⟨p1, p2, p3⟩
    · have := comb3_sq_le l2 l3 l1 (A.x - c.x) (A.y - c.y) (B.x - c.x) (B.y - c.y) (C.x - c.x) (C.y - c.y) p2 p3 p1
      rw [← hx, ← hy, hA, hB, hC] at this
      have e : l2 + l3 + l1 = D := by linarith
      rw [e] at this
      have e2 : l2 * (r * r) + l3 * (r * r) + l1 * (r * r) = D * (r * r) := by rw [← e]; ring
      rw [e2] at this
      linarith
    · have := comb3_sq_le (-l2) (-l3) (-l1) (A.x - c.x) (A.y - c.y) (B.x - c.x) (B.y - c.y) (C.x - c.x) (C.y - c.y)
        (by linarith) (by linarith) (by linarith)
      have hx' : -l2 * (A.x - c.x) + -l3 * (B.x - c.x) + -l1 * (C.x - c.x) = -(D * (p.x - c.x)) := by rw [hx]; ring
      have hy' : -l2 * (A.y - c.y) + -l3 * (B.y - c.y) + -l1 * (C.y - c.y) = -(D * (p.y - c.y)) := by rw [hy]; ring
      rw [hx', hy', hA, hB, hC] at this
      have e : -l2 + -l3 + -l1 = -D := by linarith
      rw [e] at this
      have e2 : -l2 * (r * r) + -l3 * (r * r) + -l1 * (r * r) = -D * (r * r) := by rw [← e]; ring
      rw [e2] at this
      linarith
  exact le_of_mul_le_mul_left main hDD

/-- under `Good`, a covered point is in the closed disc -/
theorem Good.covered_in_disc {c : P K} {r : K} {m : Mesh K} (hg : Good c r m) {p : P K}
    (hc : Covered m p) : (p - c).sqLen ≤ r * r := by
  obtain ⟨t, ht, A, B, C, hA, hB, hC, hin⟩ := hc
  obtain ⟨A', B', C', hA', hB', hC', oA, oB, oC, hD⟩ := hg t ht
  rw [hA] at hA'; rw [hB] at hB'; rw [hC] at hC'
  injection hA' with eA; injection hB' with eB; injection hC' with eC
  subst eA eB eC
  exact inTri_in_disc c r A B C p oA oB oC hD hin

end

end Lyon.C03c
