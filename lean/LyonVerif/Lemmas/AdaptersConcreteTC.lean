/-
  C16 with the concrete flatteners — the parameters `t.end` the callback flattener of a CUBIC
  reports: strictly increasing, above 0, ending with exactly 1 (ordered fields; same laws as for
  the quadratic, `Lemmas/AdaptersConcreteT.lean`).

  The cubic is cut into `N` quadratic approximations over the ranges
  `[0, step], [step, 2·step], …, [(N−1)·step, 1]` (`step = 1/num_quadratics`); the inner
  `t ∈ (0, 1]` of the quadratic over `[r0, r1]` is reported as `t·(r1 − r0) + r0`, and the very
  last one as the literal `1`.
-/
import LyonVerif.Lemmas.AdaptersConcreteT

set_option linter.unusedSectionVars false
set_option linter.unusedVariables false

namespace Lyon.Adapt
open Lyon Lyon.Path Scalar Lyon.Flat

section field
variable {K : Type} [Field K] [LinearOrder K] [IsStrictOrderedRing K] [Transc K] [FlatConst K]

/-! ### lists increasing from a bound -/

theorem incrFrom_append (t u : K) (A B : List K) (hA : IncrFrom t A) (hu : A.getLastD t = u)
    (hB : IncrFrom u B) : IncrFrom t (A ++ B) ∧ (A ++ B).getLastD t = B.getLastD u := by
  induction A generalizing t with
  | nil =>
    simp only [List.getLastD_nil] at hu
    subst hu
    exact ⟨hB, rfl⟩
  | cons x r ih =>
    rw [List.getLastD_cons] at hu
    obtain ⟨h1, h2⟩ := ih x hA.2 hu
    exact ⟨⟨hA.1, h1⟩, by rw [List.cons_append, List.getLastD_cons]; exact h2⟩

theorem incrFrom_map_affine (t len r0 : K) (hlen : 0 < len) (l : List K) (h : IncrFrom t l) :
    IncrFrom (t * len + r0) (l.map fun x => x * len + r0)
      ∧ (l.map fun x => x * len + r0).getLastD (t * len + r0) = l.getLastD t * len + r0 := by
  induction l generalizing t with
  | nil => exact ⟨trivial, rfl⟩
  | cons x r ih =>
    obtain ⟨h1, h2⟩ := ih x h.2
    refine ⟨⟨?_, h1⟩, ?_⟩
    · have := mul_lt_mul_of_pos_right h.1 hlen
      linarith
    · rw [List.map_cons, List.getLastD_cons, List.getLastD_cons]; exact h2

/-! ### `rerange` in a field: an affine map of the inner parameters -/

theorem rerange_t1 (r0 len : K) (lq : Bool) (hlq : lq = true → len + r0 = 1)
    (l : List (FlatSeg K)) (tFrom : K) :
    (Cubic.rerange r0 len lq l tFrom).1.map (·.t1) = l.map fun s => s.t1 * len + r0 := by
  induction l generalizing tFrom with
  | nil => rfl
  | cons s r ih =>
    simp only [Cubic.rerange, List.map_cons, ih]
    congr 1
    split
    · rename_i hc
      simp only [Bool.and_eq_true] at hc
      have h1 : s.t1 = 1 := by
        have := (sc_beq _ _).mp hc.2
        rwa [show (one : K) = 1 from sc_one] at this
      rw [h1, one_mul, hlq hc.1, show (one : K) = 1 from sc_one]
    · rfl

/-! ### the ranges of `for_each_quadratic_bezier_with_t` -/

/-- the ranges abut, each has positive length, the last one ends at 1 -/
def RangesOK : K → List (Quad K × K × K) → Prop
  | _, [] => True
  | t, (_, r0, r1) :: rest => r0 = t ∧ r0 < r1 ∧ (rest = [] → r1 = 1) ∧ RangesOK r1 rest

theorem quadsLoop_ranges (c : Cubic K) (step : K) (hstep : 0 < step) (n : ℕ) (t0 : K)
    (h : t0 + (n : K) * step < 1) : RangesOK t0 (c.quadsLoop step n t0) := by
  induction n generalizing t0 with
  | zero =>
    simp only [Cubic.quadsLoop, RangesOK, and_true, true_and, show (one : K) = 1 from sc_one,
      implies_true]
    simpa using h
  | succ n ih =>
    simp only [Cubic.quadsLoop, RangesOK, true_and]
    refine ⟨by linarith, ?_, ?_⟩
    · intro hnil
      cases n <;> simp [Cubic.quadsLoop] at hnil
    · apply ih
      push_cast at h
      linarith

/-- the nested loops: increasing from the start of the first range, ending with 1 -/
theorem flatQuadsT_t_incr (S : SqrtLaws K) (L : CeilLaws K) (tol : K)
    (qs : List (Quad K × K × K)) (t tFrom : K) (hr : RangesOK t qs) (l : List (FlatSeg K))
    (h : Cubic.flatQuadsT tol qs tFrom = some l) :
    IncrFrom t (l.map (·.t1)) ∧ (qs ≠ [] → (l.map (·.t1)).getLastD t = 1) := by
  induction qs generalizing t tFrom l with
  | nil =>
    simp only [Cubic.flatQuadsT, Option.some.injEq] at h
    subst h
    exact ⟨trivial, fun hh => absurd rfl hh⟩
  | cons x rest ih =>
    obtain ⟨q, r0, r1⟩ := x
    obtain ⟨h0, hlt, hlast, hrest⟩ := hr
    subst h0
    obtain ⟨lq, lr, hf, hrr, rfl⟩ := flatQuadsT_cons tol q r0 r1 rest tFrom l h
    obtain ⟨hi, hl1⟩ := quad_flat_t_increasing S L q tol lq hf
    have hlen : 0 < r1 - r0 := by linarith
    have hmap := rerange_t1 r0 (r1 - r0) (r1 == one)
      (by
        intro hb
        have := (sc_beq _ _).mp hb
        rw [show (one : K) = 1 from sc_one] at this
        rw [this]; ring) lq tFrom
    obtain ⟨a1, a2⟩ := incrFrom_map_affine 0 (r1 - r0) r0 hlen _ hi
    have e0 : (0 : K) * (r1 - r0) + r0 = r0 := by ring
    rw [e0] at a1 a2
    rw [List.map_map] at a1 a2
    have a2' : (List.map ((fun x => x * (r1 - r0) + r0) ∘ fun s : FlatSeg K => s.t1) lq).getLastD r0 = r1 := by
      rw [a2, hl1]; ring
    obtain ⟨b1, b2⟩ := ih r1 _ hrest lr hrr
    have hcomp : (List.map ((fun x => x * (r1 - r0) + r0) ∘ fun s : FlatSeg K => s.t1) lq)
        = lq.map fun s => s.t1 * (r1 - r0) + r0 := rfl
    rw [hcomp] at a1 a2'
    obtain ⟨c1, c2⟩ := incrFrom_append r0 r1 _ _ a1 a2' b1
    rw [List.map_append, hmap]
    refine ⟨c1, fun _ => ?_⟩
    rw [c2]
    by_cases hre : rest = []
    · subst hre
      simp only [Cubic.flatQuadsT, Option.some.injEq] at hrr
      subst hrr
      simpa using hlast rfl
    · exact b2 hre

theorem max_ceil_one_int (L : CountLaws K) (y : K) :
    (∃ z : ℤ, Scalar.max (Transc.ceil y) (one : K) = (z : K)) ∧ 1 ≤ Scalar.max (Transc.ceil y) (one : K) := by
  simp only [sc_max, show (one : K) = 1 from sc_one]
  constructor
  · obtain ⟨z, hz⟩ := L.ceil_int y
    exact ⟨max z 1, by rw [hz]; push_cast; rfl⟩
  · exact le_max_right _ _

/-- `num_quadratics_impl` is an integer ≥ 1 -/
theorem numQuadraticsImpl_int (L : CountLaws K) (c : Cubic K) (tol : K) :
    (∃ z : ℤ, c.numQuadraticsImpl tol = (z : K)) ∧ 1 ≤ c.numQuadraticsImpl tol := by
  unfold Cubic.numQuadraticsImpl
  exact max_ceil_one_int L _

/-- **cubic_flat_t_increasing**: the `t.end`s of the callbacks of a cubic's
`for_each_flattened_with_t` are strictly increasing, the first above 0, the last exactly 1 -/
theorem cubic_flat_t_increasing (S : SqrtLaws K) (L : CeilLaws K) (c : Cubic K) (tol : K)
    (l : List (FlatSeg K)) (h : c.forEachFlattenedWithT tol = some l) :
    IncrFrom 0 (l.map (·.t1)) ∧ (l.map (·.t1)).getLastD 0 = 1 := by
  simp only [Cubic.forEachFlattenedWithT, Cubic.forEachQuadraticWithT] at h
  set nq := c.numQuadraticsImpl (tol * FlatConst.value 4 1) with hnq
  obtain ⟨hint, hge⟩ := numQuadraticsImpl_int L.toCountLaws c (tol * FlatConst.value 4 1)
  rw [← hnq] at hint hge
  have hpos : (0 : K) < nq := lt_of_lt_of_le one_pos hge
  have hstep : (0 : K) < one / nq := by
    rw [show (one : K) = 1 from sc_one]; exact one_div_pos.mpr hpos
  have hr : RangesOK (zero : K) (c.quadsLoop (one / nq) ((toU32 nq).getD 1 - 1) zero) := by
    apply quadsLoop_ranges c _ hstep
    rw [show (zero : K) = 0 from sc_zero, zero_add, show (one : K) = 1 from sc_one]
    cases hu : toU32 nq with
    | none => simp
    | some N =>
      have hN := count_eq_of_toU32 L.toCountLaws nq hint N hu
      simp only [Option.getD_some]
      have hN1 : 1 ≤ N := by
        have : (1 : K) ≤ (N : K) := by rw [← hN]; exact hge
        exact_mod_cast this
      rw [hN, mul_one_div, div_lt_one (by rw [← hN]; exact hpos)]
      have : N - 1 < N := by omega
      exact_mod_cast this
  have hne : c.quadsLoop (one / nq) ((toU32 nq).getD 1 - 1) zero ≠ [] := by
    have := (cubic_quads_structure c (one / nq) ((toU32 nq).getD 1 - 1) zero).2.2
    intro hh; rw [hh] at this; simp at this
  obtain ⟨r1, r2⟩ := flatQuadsT_t_incr S L _ _ zero zero hr l h
  have r3 := r2 hne
  rw [show (zero : K) = 0 from sc_zero] at r1 r3
  exact ⟨r1, r3⟩

theorem cubic_flat_t_range (S : SqrtLaws K) (L : CeilLaws K) (c : Cubic K) (tol : K)
    (l : List (FlatSeg K)) (h : c.forEachFlattenedWithT tol = some l) :
    ∀ s ∈ l, 0 < s.t1 ∧ s.t1 ≤ 1 := by
  obtain ⟨hi, hl⟩ := cubic_flat_t_increasing S L c tol l h
  intro s hs
  have hm : s.t1 ∈ l.map (·.t1) := List.mem_map_of_mem hs
  refine ⟨incrFrom_bounds 0 _ hi _ hm, ?_⟩
  have := incrFrom_le_last 0 _ hi _ hm
  rwa [hl] at this

end field

end Lyon.Adapt
