/-
  C07b - the record invariant of the WHOLE modelled sweep (`Model/Tess/Sweep.lean`).

  `SInv IdP U s` (a predicate on the sweep state `St α`, for ANY scalar type `α`):
  * the event queue is structurally well formed (`QOk`) and the current event is a `Link`;
  * every stored edge record `edge_data[i]` satisfies `DOk`: its endpoint-id pair satisfies `IdP`
    (an arbitrary predicate on `(from_id, to_id)`: e.g. "is the id pair of an input record") and
    its `range.start`, `range.end` satisfy `U` (an arbitrary predicate on parameters: `True` for the
    discrete theorem, `lo ≤ t ≤ hi` over an ordered field);
  * every active edge and every pending edge names a stored record (`src_edge < edge_data.len()`)
    and its `range_end` satisfies `U`;
  * every record emitted with a vertex (`Emit.vertex pos recs`) satisfies `DOk`.

  The `U` part is relative to the coverage instrumentation of the model: once the run has taken
  the `edge-split-at-vertex` branch (bit 5, `split_edge` of `process_edges_above`) or the
  `coincident-split` branch (bit 7, `merge_coincident_edges`), whose split parameter
  `Sources.splitT` is NOT confined to `[0,1]` by the tests of the code (the vertex only has to be
  within the tolerance of the edge; see `Props/C07b.lean`), the state is `Tnt` (tainted) and the
  `U` claims are void (`Uc U cov t := Tnt cov ∨ U t`).  The id claims (`IdP`) and the structural
  claims are unconditional.
-/
import Std.Do
import Std.Tactic.Do
import Lean.Elab.Tactic
import LyonVerif.Lemmas.SweepRepQueue
import LyonVerif.Lemmas.SweepIdxLoop

set_option linter.unusedSectionVars false
set_option linter.unusedVariables false
set_option linter.unusedSimpArgs false

namespace Lyon.SweepRep
open Lyon Lyon.Scalar Lyon.Mono Lyon.Sweep Lyon.EQ
open Std.Do

variable {α : Type} [Scalar α] [Wide α]

/-! ### coverage bits: monotone, and the two split branches -/

/-- the run has taken a branch whose split parameter is not confined by the code
(bit 5 `edge-split-at-vertex`, bit 7 `coincident-split`) -/
def Tnt (c : Nat) : Prop := c.testBit 5 = true ∨ c.testBit 7 = true

def CovLe (c c' : Nat) : Prop := ∀ i, c.testBit i = true → c'.testBit i = true

theorem CovLe.refl (c : Nat) : CovLe c c := fun _ h => h
theorem CovLe.trans {a b c : Nat} (h1 : CovLe a b) (h2 : CovLe b c) : CovLe a c := fun i h => h2 i (h1 i h)
theorem CovLe.or_right (c x : Nat) : CovLe c (c ||| x) := by
  intro i h; simp [Nat.testBit_or, h]
theorem CovLe.or_step {a c : Nat} (x : Nat) (h : CovLe a c) : CovLe a (c ||| x) := h.trans (CovLe.or_right c x)
theorem CovLe.ite {a c1 c2 : Nat} {p : Prop} [Decidable p] (h1 : CovLe a c1) (h2 : CovLe a c2) :
    CovLe a (if p then c1 else c2) := by split <;> assumption

theorem Tnt.mono {c c' : Nat} (h : CovLe c c') (t : Tnt c) : Tnt c' := t.imp (h 5) (h 7)

theorem tnt_bit5 (c : Nat) : Tnt (c ||| 32) := by
  left; rw [Nat.testBit_or]; simp; right; decide
theorem tnt_bit7 (c : Nat) : Tnt (c ||| 128) := by
  right; rw [Nat.testBit_or]; simp; right; decide

/-- closes `CovLe a (…a ||| b ||| c …)` goals, through `if`s -/
macro "cov_le" : tactic =>
  `(tactic| (repeat (first
      | exact CovLe.refl _
      | assumption
      | apply CovLe.or_step
      | apply CovLe.ite)))

/-- `U`, void once the state is tainted -/
def Uc (U : α → Prop) (c : Nat) (t : α) : Prop := Tnt c ∨ U t

theorem Uc.mono {U : α → Prop} {c c' : Nat} (h : CovLe c c') {t : α} (u : Uc U c t) : Uc U c' t :=
  u.imp (Tnt.mono h) id

theorem Uc.tnt {U : α → Prop} {c : Nat} (h : Tnt c) (t : α) : Uc U c t := Or.inl h

/-! ### the invariant -/

variable (IdP : Nat → Nat → Prop) (U : α → Prop)

/-- an edge record: endpoint ids and both ends of the `t`-range -/
def DOk (V : α → Prop) (d : EdgeData α) : Prop := IdP d.fromId d.toId ∧ V d.t0 ∧ V d.t1

/-- an active edge: names a stored record; `range_end` -/
def AOk (V : α → Prop) (n : Nat) (e : ActiveEdge α) : Prop := e.srcEdge < n ∧ V e.rangeEnd

/-- a pending edge -/
def BOk (V : α → Prop) (n : Nat) (e : PendingEdge α) : Prop := e.srcEdge < n ∧ V e.rangeEnd

variable {IdP U}

theorem DOk.mono {V V' : α → Prop} (h : ∀ t, V t → V' t) {d : EdgeData α} (hd : DOk IdP V d) : DOk IdP V' d :=
  ⟨hd.1, h _ hd.2.1, h _ hd.2.2⟩
theorem AOk.mono {V V' : α → Prop} (h : ∀ t, V t → V' t) {n m : Nat} (hnm : n ≤ m) {e : ActiveEdge α}
    (he : AOk V n e) : AOk V' m e := ⟨Nat.lt_of_lt_of_le he.1 hnm, h _ he.2⟩
theorem BOk.mono {V V' : α → Prop} (h : ∀ t, V t → V' t) {n m : Nat} (hnm : n ≤ m) {e : PendingEdge α}
    (he : BOk V n e) : BOk V' m e := ⟨Nat.lt_of_lt_of_le he.1 hnm, h _ he.2⟩

variable (IdP U)

/-- the records of the queue satisfy `DOk` -/
def QData (c : Nat) (q : Queue α) : Prop := ∀ i (h : i < q.edgeData.size), DOk IdP (Uc U c) q.edgeData[i]

def OutOkR (c : Nat) (out : Array (Emit α)) : Prop :=
  ∀ pos recs, Emit.vertex pos recs ∈ out → ∀ r ∈ recs, DOk IdP (Uc U c) r.2

structure SInv (s : St α) : Prop where
  qok : QOk s.q
  cur : Link s.q.events.size s.curEvent
  data : QData IdP U s.cov s.q
  active : ∀ e ∈ s.active, AOk (Uc U s.cov) s.q.edgeData.size e
  below : ∀ e ∈ s.below, BOk (Uc U s.cov) s.q.edgeData.size e
  out : OutOkR IdP U s.cov s.out

variable {IdP U}

theorem QData.mono {c c' : Nat} (h : CovLe c c') {q : Queue α} (hd : QData IdP U c q) : QData IdP U c' q :=
  fun i hi => (hd i hi).mono (fun _ => Uc.mono h)

theorem OutOkR.mono {c c' : Nat} (h : CovLe c c') {o : Array (Emit α)} (hd : OutOkR IdP U c o) : OutOkR IdP U c' o :=
  fun p r hm x hx => (hd p r hm x hx).mono (fun _ => Uc.mono h)

theorem QData.push {c : Nat} {q : Queue α} (hd : QData IdP U c q) {ed : Array (EdgeData α)} {d : EdgeData α}
    (he : ed = q.edgeData.push d) (hok : DOk IdP (Uc U c) d) :
    ∀ i (h : i < ed.size), DOk IdP (Uc U c) ed[i] := by
  subst he
  intro i hi
  rw [Array.getElem_push]
  split
  · exact hd i _
  · exact hok

theorem QData.ed {c : Nat} {q : Queue α} (hd : QData IdP U c q) {i : Nat} (hi : i < q.edgeData.size) :
    DOk IdP (Uc U c) (q.ed i) := by
  have : q.ed i = q.edgeData[i] := by simp [Queue.ed, Array.getD, hi]
  rw [this]; exact hd i hi

/-! ### array helpers -/

theorem all_set {γ : Type} {P : γ → Prop} {a : Array γ} (h : ∀ e ∈ a, P e) (i : Nat) (v : γ) (hv : P v) :
    ∀ e ∈ a.setIfInBounds i v, P e := by
  intro e he
  rcases SweepIdx.mem_setIfInBounds he with r | r
  · exact r ▸ hv
  · exact h e r

theorem all_push {γ : Type} {P : γ → Prop} {a : Array γ} (h : ∀ e ∈ a, P e) (v : γ) (hv : P v) :
    ∀ e ∈ a.push v, P e := by
  intro e he
  rcases Array.mem_push.mp he with r | r
  · exact h e r
  · exact r ▸ hv

theorem all_empty {γ : Type} {P : γ → Prop} : ∀ e ∈ (#[] : Array γ), P e := by
  intro e he; simp at he

theorem mem_of_mem_eraseIdxIfInBounds {γ : Type} {a : Array γ} {i : Nat} {x : γ}
    (h : x ∈ a.eraseIdxIfInBounds i) : x ∈ a := by
  unfold Array.eraseIdxIfInBounds at h
  split at h
  · exact Array.mem_of_mem_eraseIdx h
  · exact h

theorem all_erase {γ : Type} {P : γ → Prop} {a : Array γ} (h : ∀ e ∈ a, P e) (i : Nat) :
    ∀ e ∈ a.eraseIdxIfInBounds i, P e := fun e he => h e (mem_of_mem_eraseIdxIfInBounds he)

theorem all_getElem? {γ : Type} {P : γ → Prop} {a : Array γ} (h : ∀ e ∈ a, P e) {i : Nat} {x : γ}
    (hx : a[i]? = some x) : P x := h x (SweepIdx.mem_of_getElem? hx)

theorem all_mono {γ : Type} {P Q : γ → Prop} {a : Array γ} (h : ∀ e ∈ a, P e) (hpq : ∀ e, P e → Q e) :
    ∀ e ∈ a, Q e := fun e he => hpq e (h e he)

/-- `siftLeft` only moves elements around -/
theorem siftLeft_mem {γ : Type} (less : γ → γ → Bool) (tmp : γ) : ∀ (j : Nat) (a : Array γ) (x : γ),
    x ∈ siftLeft less tmp j a → x = tmp ∨ x ∈ a
  | 0, a, x, h => by
    simp only [siftLeft] at h
    exact SweepIdx.mem_setIfInBounds h
  | j+1, a, x, h => by
    simp only [siftLeft] at h
    split at h
    · rcases siftLeft_mem less tmp j _ x h with r | r
      · exact Or.inl r
      · rcases SweepIdx.mem_setIfInBounds r with r | r
        · by_cases hj : j < a.size
          · have : a.getD j tmp = a[j] := by simp [Array.getD, hj]
            rw [this] at r
            exact Or.inr (r ▸ Array.getElem_mem hj)
          · have : a.getD j tmp = tmp := by simp [Array.getD, hj]
            exact Or.inl (r.trans this)
        · exact Or.inr r
    · exact SweepIdx.mem_setIfInBounds h

theorem insertionSort_mem {γ : Type} (less : γ → γ → Bool) (a : Array γ) (x : γ)
    (h : x ∈ insertionSort less a) : x ∈ a := by
  unfold insertionSort at h
  have key : ∀ (l : List Nat) (b : Array γ), (∀ y ∈ b, y ∈ a) →
      ∀ y ∈ l.foldl (fun a i => match a[i]? with
        | some tmp => if i == 0 then a else siftLeft less tmp i a
        | none => a) b, y ∈ a := by
    intro l
    induction l with
    | nil => intro b hb y hy; exact hb y hy
    | cons i l ih =>
      intro b hb y hy
      simp only [List.foldl_cons] at hy
      refine ih _ ?_ y hy
      intro z hz
      split at hz
      · rename_i tmp ht
        split at hz
        · exact hb z hz
        · rcases siftLeft_mem less tmp i b z hz with r | r
          · exact r ▸ hb tmp (SweepIdx.mem_of_getElem? ht)
          · exact hb z r
      · exact hb z hz
  exact key _ a (fun y hy => hy) x h

theorem all_insertionSort {γ : Type} {P : γ → Prop} {a : Array γ} (h : ∀ e ∈ a, P e) (less : γ → γ → Bool) :
    ∀ e ∈ insertionSort less a, P e := fun e he => h e (insertionSort_mem less a e he)

/-! ### frames -/

/-- a state that differs in fields the invariant does not read; the coverage only grows; active and
pending edges are still fine (relative to the OLD state) -/
theorem SInv.frame {s s' : St α} (h : SInv IdP U s) (hq : s'.q = s.q) (hc : s'.curEvent = s.curEvent)
    (hcov : CovLe s.cov s'.cov)
    (ha : ∀ e ∈ s'.active, AOk (Uc U s.cov) s.q.edgeData.size e)
    (hb : ∀ e ∈ s'.below, BOk (Uc U s.cov) s.q.edgeData.size e)
    (ho : ∀ pos recs, Emit.vertex pos recs ∈ s'.out → Emit.vertex pos recs ∈ s.out) : SInv IdP U s' := by
  refine ⟨hq ▸ h.qok, by rw [hq, hc]; exact h.cur, by rw [hq]; exact h.data.mono hcov, ?_, ?_, ?_⟩
  · intro e he; rw [hq]; exact (ha e he).mono (fun _ => Uc.mono hcov) (Nat.le_refl _)
  · intro e he; rw [hq]; exact (hb e he).mono (fun _ => Uc.mono hcov) (Nat.le_refl _)
  · intro p r hm; exact h.out.mono hcov p r (ho p r hm)

/-- nothing the invariant reads has changed, except that the coverage may have grown -/
theorem SInv.frame0 {s s' : St α} (h : SInv IdP U s) (hq : s'.q = s.q) (hc : s'.curEvent = s.curEvent)
    (hcov : CovLe s.cov s'.cov) (ha : s'.active = s.active) (hb : s'.below = s.below) (ho : s'.out = s.out) :
    SInv IdP U s' :=
  h.frame hq hc hcov (ha ▸ h.active) (hb ▸ h.below) (fun _ _ hm => ho ▸ hm)

/-- the queue has grown by well-formed operations -/
theorem SInv.grow {s s' : St α} (h : SInv IdP U s) (hq : QOk s'.q) (hsz : s.q.edgeData.size ≤ s'.q.edgeData.size)
    (hc : s'.curEvent = s.curEvent) (hcov : CovLe s.cov s'.cov)
    (hd : QData IdP U s'.cov s'.q)
    (ha : ∀ e ∈ s'.active, AOk (Uc U s'.cov) s'.q.edgeData.size e)
    (hb : ∀ e ∈ s'.below, BOk (Uc U s'.cov) s'.q.edgeData.size e)
    (ho : ∀ pos recs, Emit.vertex pos recs ∈ s'.out → Emit.vertex pos recs ∈ s.out) : SInv IdP U s' := by
  refine ⟨hq, ?_, hd, ha, hb, ?_⟩
  · rw [hc]
    have : s.q.events.size ≤ s'.q.events.size := by rw [← h.qok.size, ← hq.size]; exact hsz
    exact h.cur.mono this
  · intro p r hm; exact h.out.mono hcov p r (ho p r hm)

theorem tris_vertex_mem {out : Array (Emit α)} (tris : List Mono.Tri) {pos : P α} {recs : List (P α × EdgeData α)}
    (h : Emit.vertex pos recs ∈ tris.foldl (fun o t => o.push (.tri t.1 t.2.1 t.2.2)) out) :
    Emit.vertex pos recs ∈ out := by
  induction tris generalizing out with
  | nil => exact h
  | cons t ts ih =>
    simp only [List.foldl_cons] at h
    have := ih h
    rcases Array.mem_push.mp this with r | r
    · exact r
    · cases r

/-- the postcondition shape of `SM` -/
abbrev SMps (α : Type) : PostShape := .except Fail (.arg (St α) .pure)

variable (IdP U)

/-- "the invariant holds afterwards, whether the step returned or threw" -/
abbrev keepsR {β : Type} : PostCond β (SMps α) :=
  post⟨fun _ s => ⌜SInv IdP U s⌝, fun _ s => ⌜SInv IdP U s⌝⟩

variable {IdP U}

open Lean Elab Tactic Meta in
/-- `try_sinv tac`: for every hypothesis `h : SInv IdP U s` (most recent first) runs `tac` on the main
goal with `h` available under the name `hS`; keeps the first run that closes the goal. -/
elab "try_sinv " t:tacticSeq : tactic => do
  let g ← getMainGoal
  let rest := (← getGoals).drop 1
  let decls ← g.withContext do
    let lctx ← getLCtx
    pure ((lctx.decls.toList.filterMap id).reverse)
  for d in decls do
    if d.isImplementationDetail then continue
    let ty ← g.withContext do whnfR (← instantiateMVars d.type)
    let cand : Option Expr :=
      if ty.isAppOf ``SInv then some d.toExpr
      else if ty.isAppOf ``And && (ty.getArg! 0).isAppOf ``SInv then some (mkProj ``And 0 d.toExpr)
      else none
    match cand with
    | none => continue
    | some h =>
      let s ← saveState
      try
        let hty ← g.withContext do inferType h
        let g1 ← g.assert `hS hty h
        let (_, g2) ← g1.intro1P
        setGoals [g2]
        Term.withoutErrToSorry (withoutRecover (evalTactic t))
        unless (← getGoals).isEmpty do throwError "try_sinv: goals remain"
        setGoals rest
        return
      catch _ => s.restore
  throwError "try_sinv: no hypothesis `SInv IdP U s` works"

set_option hygiene false in
macro "sinv0" : tactic =>
  `(tactic| first | assumption | try_sinv (apply SInv.frame0 hS <;> first | rfl | cov_le))


end Lyon.SweepRep
