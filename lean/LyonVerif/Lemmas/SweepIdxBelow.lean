/-
  Index validity, `process_edges_below`: `sort_edges_below`, `merge_coincident_edges`,
  `handle_coincident_edges_below`, `split_event` and `process_edges_below` preserve `Inv1 n`
  (success and failure).  The ids handed to `begin_span` are the current vertex or the `fromId` of
  an active edge.
-/
import LyonVerif.Lemmas.SweepIdxSpans

set_option linter.unusedSectionVars false
set_option linter.unusedVariables false
set_option linter.unusedSimpArgs false
set_option mvcgen.warning false

namespace Lyon.SweepIdx
open Lyon Lyon.Scalar Lyon.Mono Lyon.Sweep Lyon.EQ
open Std.Do

variable {α : Type} [Scalar α] [Wide α]

theorem sortEdgesBelow_spec (n : Nat) :
    ⦃fun s => ⌜Inv1 n s⌝⦄ (sortEdgesBelow : SM α Unit) ⦃keeps n⦄ := by
  unfold sortEdgesBelow
  strip_mdata
  mvcgen
  all_goals inv_vc

theorem mergeCoincidentEdges_spec (n : Nat) (a b : Nat) :
    ⦃fun s => ⌜Inv1 n s⌝⦄ (mergeCoincidentEdges a b : SM α Unit) ⦃keeps n⦄ := by
  unfold mergeCoincidentEdges
  mvcgen
  all_goals inv_frame

theorem handleCoincidentEdgesBelow_spec (n : Nat) :
    ⦃fun s => ⌜Inv1 n s⌝⦄ (handleCoincidentEdgesBelow : SM α Unit) ⦃keeps n⦄ := by
  unfold handleCoincidentEdgesBelow
  have h1 := mergeCoincidentEdges_spec (α := α) n
  mvcgen [h1] invariants
  · post⟨fun _ s => ⌜Inv1 n s⌝, fun _ s => ⌜Inv1 n s⌝⟩
  with skip

theorem splitEvent_spec (n : Nat) (leftEdge : Nat) (leftSpan : Int) :
    ⦃fun s => ⌜Inv1 n s⌝⦄ (splitEvent leftEdge leftSpan : SM α Unit) ⦃keeps n⦄ := by
  unfold splitEvent
  have h1 := spanVertex_spec (α := α) n
  have h2 := beginSpan_spec (α := α) n
  mvcgen [h1, h2]
  all_goals inv_pre

theorem processEdgesBelow_spec (n : Nat) (scan : Scan) :
    ⦃fun s => ⌜Inv1 n s⌝⦄ (processEdgesBelow scan : SM α Unit) ⦃keeps n⦄ := by
  unfold processEdgesBelow
  have h1 := sortEdgesBelow_spec (α := α) n
  have h2 := handleCoincidentEdgesBelow_spec (α := α) n
  have h3 := splitEvent_spec (α := α) n
  have h4 := beginSpan_spec (α := α) n
  mvcgen [h1, h2, h3, h4] invariants
  · post⟨fun _ s => ⌜Inv1 n s⌝, fun _ s => ⌜Inv1 n s⌝⟩
  · post⟨fun _ s => ⌜Inv1 n s⌝, fun _ s => ⌜Inv1 n s⌝⟩
  with skip
  all_goals inv_pre

