/-
  SPAN / WINDING COHERENCE, part 9: the loop and the executable certificate
  (`Model/Tess/SweepCert.lean`: `allOkB`, `cleanRunB`, `cleanB`).

  Theorem (`loop_coh`, `tessellateImpl_clean`, `tessellate_clean`): a run whose certificate is `true`
  fails only in the ways `A` allows, under `NextUpOk α ∨ mAssert ∈ A` and `NoNaN α ∨ mNaN ∈ A` - for
  EVERY scalar type: the agreement of the scan's two on-edge tests is not a hypothesis any more but
  part of the certificate (`scanAgreeB`, checked on every scan result), and so is the coherence of
  the state that `recover_from_error` leaves (`cohB`).
-/
import LyonVerif.Lemmas.SweepSafeCohRecover

set_option linter.unusedSectionVars false
set_option linter.unusedVariables false
set_option linter.unusedSimpArgs false
set_option mvcgen.warning false

namespace Lyon.SweepCoh
open Lyon Lyon.Scalar Lyon.Mono Lyon.Sweep Lyon.EQ Lyon.SweepSafe
open Std.Do

variable {α : Type} [Scalar α] [Wide α]
variable {A : List String}

/-- one `process_events` call from `s1` to `s2`: the scan succeeded and the winding is conserved -/
def StepOk (s1 s2 : St α) : Prop :=
  match scanActiveEdges s1 with
  | .error _ => False
  | .ok scan => ∀ W, NewSt s1 scan (Zf s1 scan W) W s2 → EventOkW s1 scan W

theorem initializeEvents_frame (s : St α) :
    ⦃fun s' => ⌜s' = s⌝⦄ (initializeEvents : SM α Unit)
    ⦃safePost A fun _ s1 => s1.spans = s.spans ∧ s1.active = s.active ∧ s1.rule = s.rule ∧
      s1.tolerance = s.tolerance⦄ := by
  unfold initializeEvents
  strip_mdata
  mvcgen
  all_goals first
    | exact allowed_err _
    | exact allowed_fuel
    | (have h := ‹(_ : St α) = s›; subst h; exact ⟨rfl, rfl, rfl, rfl⟩)


theorem Wof_eq {s1 s2 : St α} {scan : Scan} {Z : Nat} {W : List Int} (hok : ScanOk s1 scan)
    (hN : NewSt s1 scan Z W s2) : Wof s1 scan s2 = W := by
  have hab := hok.start_le
  have hbn := hok.end_le
  have hlen := sigs_length s1
  unfold Wof
  rw [hN.sg]
  unfold newSigs
  have h1 : ((sigs s1).take scan.aboveStart ++ (if scan.mergeEvent then [(true, (0 : Int))] else [])).length =
      scan.aboveStart + bi scan.mergeEvent := by
    rw [List.length_append, List.length_take, Nat.min_eq_left (by omega)]
    cases scan.mergeEvent <;> simp [bi]
  rw [List.append_assoc, List.append_assoc, ← List.append_assoc ((sigs s1).take scan.aboveStart)]
  rw [← h1, List.drop_left]
  have h2 : ((sigs s1).take scan.aboveStart ++ (if scan.mergeEvent then [(true, (0 : Int))] else []) ++
      (W.map (fun k => (false, k)) ++ (sigs s1).drop scan.aboveEnd)).length -
      ((sigs s1).take scan.aboveStart ++ (if scan.mergeEvent then [(true, (0 : Int))] else [])).length -
      (s1.active.size - scan.aboveEnd) = (W.map (fun k => ((false, k) : Bool × Int))).length := by
    simp only [List.length_append, List.length_drop, List.length_map]
    omega
  rw [h2, List.take_left]
  simp only [List.map_map]
  have : ((fun x : Bool × Int => x.2) ∘ fun k => ((false, k) : Bool × Int)) = id := by funext k; rfl
  rw [this, List.map_id]

theorem eventOk_of_B {s1 : St α} {scan : Scan} {W : List Int} (h : eventOkB s1 scan W = true) :
    EventOkW s1 scan W := by
  unfold eventOkB at h
  simp only [Bool.and_eq_true, Bool.or_eq_true, decide_eq_true_eq, Bool.not_eq_true'] at h
  obtain ⟨⟨h1, h2⟩, h3⟩ := h
  refine ⟨h1, ?_, ?_⟩
  · intro hW
    rcases h2 with ((h2 | h2) | h2) | h2
    · rw [hW] at h2; simp at h2
    · exact Or.inl h2
    · exact Or.inr (Or.inl ⟨h2.1.1, h2.1.2, h2.2⟩)
    · exact Or.inr (Or.inr ⟨h2.1, h2.2⟩)
  · intro hm
    rcases h3 with h3 | h3
    · rw [hm] at h3; cases h3
    · cases W <;> simp_all

theorem stepOk_of_B {s1 s2 : St α} (h : stepOkB s1 s2 = true) : StepOk s1 s2 := by
  unfold stepOkB at h
  unfold StepOk
  cases hsc : scanActiveEdges s1 with
  | error e => rw [hsc] at h; cases h
  | ok scan =>
    rw [hsc] at h
    intro W hN
    dsimp only at h
    rw [Wof_eq (of_scan_both hsc).1 hN] at h
    exact eventOk_of_B h


theorem coh_of_B {s : St α} (h : cohB s = true) : Coh s := by
  unfold cohB at h
  simp only [Bool.and_eq_true, decide_eq_true_eq, Bool.not_eq_true'] at h
  obtain ⟨⟨⟨h1, h2⟩, h3⟩, h4⟩ := h
  have h5 : ∀ k e, s.active[k]? = some e → e.isMerge = true → (Wat s k).isIn = true ∧ e.winding = 0 := by
    intro k e hk hm
    have hlt : k < s.active.size := by
      rcases Array.getElem?_eq_some_iff.mp hk with ⟨hh, _⟩; exact hh
    have := (List.all_eq_true.mp h4) k (by simpa using hlt)
    rw [hk] at this
    simp only [hm, Bool.not_true, Bool.false_or, Bool.and_eq_true, beq_iff_eq] at this
    exact this
  refine ⟨?_, h2, h3, fun k e hk hm => (h5 k e hk hm).1, ?_⟩
  · intro k hk hn
    exfalso
    have := (Array.all_eq_true.mp h1) k hk
    rw [hn] at this
    cases this
  · intro x hx hm
    unfold sigs at hx
    rcases List.mem_map.mp hx with ⟨e, he, hex⟩
    rcases Array.mem_iff_getElem?.mp (Array.mem_toList_iff.mp he) with ⟨k, hk⟩
    rw [← hex] at hm ⊢
    exact (h5 k e hk hm).2

theorem Coh.next {s : St α} (h : Coh s) : Coh (nextSt s) := h.frame rfl rfl rfl

theorem Coh.safe {tol : α} {s : St α} (h : Coh s) (ht : s.tolerance = tol) : Safe tol s :=
  safe_iff.mpr ⟨h.live, ht⟩

variable {tol : α}

/-- where `ScanAgree` comes from: checked on the scan result (`g`), or a theorem (`HorizAgree`: ordered fields) -/
def GOk (g : Bool) (tol : α) : Prop := g = true ∨ HorizAgree tol

theorem GOk.agree {g : Bool} {tol : α} (hg : GOk g tol) {s1 : St α} (ht : s1.tolerance = tol) {scan : Scan}
    (hsc : scanActiveEdges s1 = .ok scan) (h : (!g || scanAgreeB s1 scan) = true) : ScanAgree s1 scan := by
  rcases hg with hg | hg
  · subst hg
    exact scanAgree_of_B (by simpa using h)
  · exact scanAgree_of_horiz (of_scan_both hsc).1 (of_scan_both hsc).2 (ht ▸ hg)

/-- the outcome of `process_events` on a coherent state whose scan succeeds and passes the checks -/
theorem proc_core (hUp : NextUpOk α ∨ mAssert ∈ A) (rec : St α → Bool) (s1 : St α) (hc : Coh s1)
    (ht : s1.tolerance = tol) (scan : Scan) (hsc : scanActiveEdges s1 = .ok scan)
    (hG : ScanAgree s1 scan) (hT : procTailB rec s1 = true) :
    match ((processEvents : SM α (Option IErr)).run.run s1 : Except Fail (Option IErr) × St α) with
    | (.ok r, s2) => r = none ∧ Coh s2 ∧ s2.tolerance = tol ∧ rec (nextSt s2) = true
    | (.error f, _) => Allowed A f := by
  have hG' : ∀ sc, scanActiveEdges s1 = .ok sc → ScanAgree s1 sc := by
    intro sc h
    rw [hsc] at h
    cases h
    exact hG
  have hf := (wp_iff_run _ _ _ s1).mp (processEvents_coh_at (A := A) s1 hc hG' hUp s1 rfl)
  unfold procTailB at hT
  revert hT
  revert hf
  generalize ((processEvents : SM α (Option IErr)).run.run s1 : Except Fail (Option IErr) × St α) = r
  obtain ⟨res, s2⟩ := r
  cases res with
  | error e => intro hf _; exact hf
  | ok r =>
    intro hf hT
    simp only [Bool.and_eq_true] at hT
    have hstep := stepOk_of_B hT.1
    unfold EvPost at hf
    unfold StepOk at hstep
    rw [hsc] at hf hstep
    obtain ⟨hr, W, hN⟩ := hf
    have hb := of_scan_both hsc
    exact ⟨hr, coh_after hb.1 hb.2 hc hG (hstep W hN) hN, by rw [hN.tol]; exact ht, hT.2⟩

/-- ... and when the scan fails: `process_events` hands the error back, nothing the invariants read
has changed -/
theorem proc_err_core (hUp : NextUpOk α ∨ mAssert ∈ A) (s1 : St α) (hc : Coh s1) (ht : s1.tolerance = tol)
    (e : IErr) (hsc : scanActiveEdges s1 = .error e) :
    match ((processEvents : SM α (Option IErr)).run.run s1 : Except Fail (Option IErr) × St α) with
    | (.ok r, s2) => r = some e ∧ Coh s2 ∧ s2.tolerance = tol
    | (.error f, _) => Allowed A f := by
  have hG' : ∀ sc, scanActiveEdges s1 = .ok sc → ScanAgree s1 sc := by
    intro sc h; rw [hsc] at h; cases h
  have hf := (wp_iff_run _ _ _ s1).mp (processEvents_coh_at (A := A) s1 hc hG' hUp s1 rfl)
  revert hf
  generalize ((processEvents : SM α (Option IErr)).run.run s1 : Except Fail (Option IErr) × St α) = r
  obtain ⟨res, s2⟩ := r
  cases res with
  | error f => intro hf; exact hf
  | ok r =>
    intro hf
    unfold EvPost at hf
    rw [hsc] at hf
    exact ⟨hf.1, hc.frame hf.2.1 hf.2.2.1 hf.2.2.2.1, by rw [hf.2.2.2.2]; exact ht⟩

theorem init_spec (g : Bool) (rec : St α → Bool) :
    ⦃fun s => ⌜Coh s ∧ s.tolerance = tol ∧ initTailGB g rec s = true⌝⦄ (initializeEvents : SM α Unit)
    ⦃safePost A fun _ s1 => Coh s1 ∧ s1.tolerance = tol ∧ firstGB g rec s1 = true⦄ := by
  intro s h
  have hf := (wp_iff_run _ _ _ s).mp (initializeEvents_frame (A := A) s s rfl)
  refine (wp_iff_run _ _ _ s).mpr ?_
  have hI := h.2.2
  unfold initTailGB at hI
  revert hI
  revert hf
  generalize ((initializeEvents : SM α Unit).run.run s : Except Fail Unit × St α) = r
  obtain ⟨res, s1⟩ := r
  cases res with
  | error e => intro hf _; exact hf
  | ok u =>
    intro hf hI
    exact ⟨h.1.frame hf.1 hf.2.1 hf.2.2.1, by rw [hf.2.2.2]; exact h.2.1, hI⟩

/-- first attempt at an event -/
theorem proc1_spec (hUp : NextUpOk α ∨ mAssert ∈ A) (g : Bool) (hg : GOk g tol) (rec : St α → Bool) :
    ⦃fun s1 => ⌜Coh s1 ∧ s1.tolerance = tol ∧ firstGB g rec s1 = true⌝⦄ (processEvents : SM α (Option IErr))
    ⦃safePost A fun r s2 => (r = none ∧ Coh s2 ∧ s2.tolerance = tol ∧ rec (nextSt s2) = true) ∨
      (r ≠ none ∧ Coh s2 ∧ s2.tolerance = tol ∧ recTailGB g rec s2 = true)⦄ := by
  intro s1 h
  refine (wp_iff_run _ _ _ s1).mpr ?_
  have hF := h.2.2
  unfold firstGB at hF
  cases hsc : scanActiveEdges s1 with
  | ok scan =>
    rw [hsc] at hF
    simp only [Bool.and_eq_true] at hF
    have := proc_core (A := A) hUp rec s1 h.1 h.2.1 scan hsc (hg.agree h.2.1 hsc hF.1) hF.2
    revert this
    generalize ((processEvents : SM α (Option IErr)).run.run s1 : Except Fail (Option IErr) × St α) = r
    obtain ⟨res, s2⟩ := r
    cases res with
    | error f => intro h'; exact h'
    | ok r => intro h'; exact Or.inl h'
  | error e =>
    rw [hsc] at hF
    have := proc_err_core (A := A) hUp s1 h.1 h.2.1 e hsc
    revert hF
    revert this
    generalize ((processEvents : SM α (Option IErr)).run.run s1 : Except Fail (Option IErr) × St α) = r
    obtain ⟨res, s2⟩ := r
    cases res with
    | error f => intro h' _; exact h'
    | ok r => intro h' hF; exact Or.inr ⟨by rw [h'.1]; simp, h'.2.1, h'.2.2, hF⟩

theorem rec_spec (hNaN : NoNaN α ∨ mNaN ∈ A) (g : Bool) (rec : St α → Bool) :
    ⦃fun s => ⌜Coh s ∧ s.tolerance = tol ∧ recTailGB g rec s = true⌝⦄ (recoverFromError : SM α Unit)
    ⦃safePost A fun _ s3 => Coh s3 ∧ s3.tolerance = tol ∧ secondGB g rec s3 = true⦄ := by
  intro s h
  have hf := (wp_iff_run _ _ _ s).mp (recoverFromError_coh (α := α) (A := A) hNaN tol s ⟨h.1, h.2.1⟩)
  refine (wp_iff_run _ _ _ s).mpr ?_
  have hR := h.2.2
  unfold recTailGB at hR
  revert hR
  revert hf
  generalize ((recoverFromError : SM α Unit).run.run s : Except Fail Unit × St α) = r
  obtain ⟨res, s3⟩ := r
  cases res with
  | error e => intro hf _; exact hf
  | ok u =>
    intro hf hR
    exact ⟨hf.1, hf.2, hR⟩

/-- the second `process_events` of an event (after the recovery), as a constant of its own so that the
two calls get different specifications -/
def processEventsAgain : SM α (Option IErr) := processEvents

theorem proc2_spec (hUp : NextUpOk α ∨ mAssert ∈ A) (g : Bool) (hg : GOk g tol) (rec : St α → Bool) :
    ⦃fun s3 => ⌜Coh s3 ∧ s3.tolerance = tol ∧ secondGB g rec s3 = true⌝⦄ (processEventsAgain : SM α (Option IErr))
    ⦃safePost A fun r s4 => r = none → Coh s4 ∧ s4.tolerance = tol ∧ rec (nextSt s4) = true⦄ := by
  intro s3 h
  unfold processEventsAgain
  refine (wp_iff_run _ _ _ s3).mpr ?_
  have hF := h.2.2
  unfold secondGB at hF
  cases hsc : scanActiveEdges s3 with
  | ok scan =>
    rw [hsc] at hF
    simp only [Bool.and_eq_true] at hF
    have := proc_core (A := A) hUp rec s3 h.1 h.2.1 scan hsc (hg.agree h.2.1 hsc hF.1) hF.2
    revert this
    generalize ((processEvents : SM α (Option IErr)).run.run s3 : Except Fail (Option IErr) × St α) = r
    obtain ⟨res, s4⟩ := r
    cases res with
    | error f => intro h'; exact h'
    | ok r => intro h' _; exact h'.2
  | error e =>
    have := proc_err_core (A := A) hUp s3 h.1 h.2.1 e hsc
    revert this
    generalize ((processEvents : SM α (Option IErr)).run.run s3 : Except Fail (Option IErr) × St α) = r
    obtain ⟨res, s4⟩ := r
    cases res with
    | error f => intro h'; exact h'
    | ok r => intro h' hr; rw [h'.1] at hr; cases hr

theorem tessellatorLoop_eq (f : Nat) : (tessellatorLoop (f + 1) : SM α Unit) = (do
    let s ← get
    if s.curEvent == INVALID then return
    initializeEvents
    match ← processEvents with
    | none => pure ()
    | some _ =>
      recoverFromError
      match ← processEventsAgain with
      | none => pure ()
      | some e =>
        mark 1
        throw (.err s!"Internal({e.toString})")
    let s ← get
    if s.q.fuelOut then throw .fuel
    set { s with curEvent := s.q.nextId s.curEvent }
    tessellatorLoop f) := by
  rfl

/-- **the loop**: from a coherent state, a run with a `true` certificate fails only in the ways `A`
allows -/
theorem loop_coh (hUp : NextUpOk α ∨ mAssert ∈ A) (hNaN : NoNaN α ∨ mNaN ∈ A) (g : Bool) (hg : GOk g tol) :
    ∀ f : Nat,
    ⦃fun s => ⌜Coh s ∧ s.tolerance = tol ∧ allOkGB g f s = true⌝⦄ (tessellatorLoop f : SM α Unit)
    ⦃safePost A fun _ _ => True⦄
  | 0 => by
    unfold tessellatorLoop
    mvcgen
    exact allowed_fuel
  | f+1 => by
    have ih := loop_coh hUp hNaN g hg f
    have h1 := init_spec (α := α) (A := A) (tol := tol) g (allOkGB g f)
    have h2 := proc1_spec (α := α) (A := A) (tol := tol) hUp g hg (allOkGB g f)
    have h3 := rec_spec (α := α) (A := A) (tol := tol) hNaN g (allOkGB g f)
    have h4 := proc2_spec (α := α) (A := A) (tol := tol) hUp g hg (allOkGB g f)
    rw [tessellatorLoop_eq]
    strip_mdata
    mvcgen [mark, ih, h1, h2, h3, h4]
    all_goals first
      | exact allowed_fuel
      | exact allowed_err _
      | (rename_i s h hne
         refine ⟨h.1, h.2.1, ?_⟩
         have hA := h.2.2
         unfold allOkGB at hA
         simp only [Bool.or_eq_true] at hA
         rcases hA with hA | hA
         · exact absurd hA hne
         · exact hA)
      | (have h := ‹(True ∧ _) ∨ _›
         rcases h with h | h
         · exact ⟨h.2.1.next, h.2.2.1, h.2.2.2⟩
         · exact absurd rfl h.1)
      | (have h := ‹(some _ = none ∧ _) ∨ _›
         rcases h with h | h
         · exact absurd h.1 (by simp)
         · exact h.2)
      | (have h := ‹Coh _ ∧ _ ∧ _›
         exact ⟨h.1.next, h.2.1, h.2.2⟩)

/-! ### `tessellate_impl` / `tessellate` -/

theorem coh_init (q : Queue α) (rule : Slab.Rule) (horizontal : Bool) (tol : α) (handleIx : Bool) :
    Coh (initSt q rule horizontal tol handleIx) := by
  refine ⟨by intro k hk; simp [initSt] at hk, ?_, ?_, ?_, ?_⟩
  · simp [Wtot, Wat, wfold, initSt, WindingState.new]
  · simp [Wtot, Wat, wfold, initSt, WindingState.new]
  · intro k e hk; simp [initSt] at hk
  · intro x hx; simp [sigs, initSt] at hx


theorem tessellateImpl_clean (q : Queue α) (rule : Slab.Rule) (horizontal : Bool) (tol : α) (handleIx : Bool)
    (hUp : NextUpOk α ∨ mAssert ∈ A) (hNaN : NoNaN α ∨ mNaN ∈ A) (g : Bool) (hg : GOk g (tol * half))
    (hB : cleanRunGB g q rule horizontal tol handleIx = true) (f : Fail)
    (hf : (tessellateImpl q rule horizontal tol handleIx).1 = some f) : Allowed A f := by
  unfold tessellateImpl at hf
  split at hf
  · cases hf; exact allowed_err _
  · dsimp only at hf
    have h := (wp_iff_run _ _ _ _).mp (loop_coh (α := α) (A := A) (tol := tol * half) hUp hNaN g hg _
      (initSt q rule horizontal tol handleIx) ⟨coh_init q rule horizontal tol handleIx, rfl, hB⟩)
    split at hf
    · rename_i f' heq
      have hff : f' = f := by simpa using hf
      subst hff
      have heq' : ((tessellatorLoop (4 * q.events.size * q.events.size + 1000)).run.run
          (initSt q rule horizontal tol handleIx)).1 = Except.error f' := heq
      revert h heq'
      generalize ((tessellatorLoop (4 * q.events.size * q.events.size + 1000)).run.run
          (initSt q rule horizontal tol handleIx) : Except Fail Unit × St α) = r
      obtain ⟨res, s1⟩ := r
      intro h heq'
      cases res with
      | error e => cases heq'; exact h
      | ok u => cases heq'
    · cases hf

theorem tessellate_clean (entry : Entry) (rule : Slab.Rule) (horizontal : Bool) (tol : α) (handleIx : Bool)
    (subs : List (SubPath α)) (hUp : NextUpOk α ∨ mAssert ∈ A) (hNaN : NoNaN α ∨ mNaN ∈ A)
    (g : Bool) (hg : GOk g (tol * half))
    (hB : cleanGB g entry rule horizontal tol handleIx subs = true) (f : Fail)
    (hf : (tessellate entry rule horizontal tol handleIx subs).1 = some f) : Allowed A f := by
  unfold tessellate at hf
  dsimp only at hf
  split at hf
  · cases hf; exact allowed_unmodelled _
  · exact tessellateImpl_clean _ _ _ _ _ hUp hNaN g hg hB f hf

end Lyon.SweepCoh
