/-
  SPAN / WINDING COHERENCE, part 9: the loop.  `AllOk f s`: in the run of `tessellator_loop f` from
  `s`, every `process_events` call scans without error and conserves the winding (`StepOk`).
  Theorem: from a coherent state such a run never panics (except for the assertion when
  `next_after` is not increasing).
-/
import LyonVerif.Lemmas.SweepSafeCohLoop

set_option linter.unusedSectionVars false
set_option linter.unusedVariables false
set_option linter.unusedSimpArgs false
set_option mvcgen.warning false

namespace Lyon.SweepCoh
open Lyon Lyon.Scalar Lyon.Mono Lyon.Sweep Lyon.EQ Lyon.SweepSafe
open Std.Do

variable {α : Type} [Scalar α] [Wide α]
variable {A : List String}

/-- the state handed to the next iteration of `tessellator_loop` -/
def nextSt (s : St α) : St α := { s with curEvent := s.q.nextId s.curEvent }

/-- one `process_events` call from `s1` to `s2`: the scan succeeded and the winding is conserved -/
def StepOk (s1 s2 : St α) : Prop :=
  match scanActiveEdges s1 with
  | .error _ => False
  | .ok scan => ∀ W, NewSt s1 scan (Zf s1 scan W) W s2 → EventOkW s1 scan W

def ProcOk (P : St α → Prop) (s1 : St α) : Prop :=
  match ((processEvents : SM α (Option IErr)).run.run s1 : Except Fail (Option IErr) × St α) with
  | (.ok _, s2) => StepOk s1 s2 ∧ P (nextSt s2)
  | (.error _, _) => True

def InitOk (P : St α → Prop) (s : St α) : Prop :=
  match ((initializeEvents : SM α Unit).run.run s : Except Fail Unit × St α) with
  | (.ok _, s1) => ProcOk P s1
  | (.error _, _) => True

/-- every event of the run of `tessellator_loop f` from `s` is a `StepOk` -/
def AllOk : Nat → St α → Prop
  | 0, _ => True
  | f+1, s => s.curEvent = INVALID ∨ InitOk (AllOk f) s

theorem initializeEvents_frame (s : St α) :
    ⦃fun s' => ⌜s' = s⌝⦄ (initializeEvents : SM α Unit)
    ⦃safePost A fun _ s1 => s1.spans = s.spans ∧ s1.active = s.active ∧ s1.rule = s.rule ∧
      s1.tolerance = s.tolerance⦄ := by
  unfold initializeEvents
  strip_mdata
  mvcgen
  all_goals first
    | exact allowed_err _
    | exact allowed_fuel
    | (have h := ‹(_ : St α) = s›; subst h; exact ⟨rfl, rfl, rfl, rfl⟩)


variable {tol : α}

theorem init_ok_spec (P : St α → Prop) :
    ⦃fun s => ⌜Coh s ∧ s.tolerance = tol ∧ InitOk P s⌝⦄ (initializeEvents : SM α Unit)
    ⦃safePost A fun _ s1 => Coh s1 ∧ s1.tolerance = tol ∧ ProcOk P s1⦄ := by
  intro s h
  have hf := (wp_iff_run _ _ _ s).mp (initializeEvents_frame (A := A) s s rfl)
  refine (wp_iff_run _ _ _ s).mpr ?_
  have hI := h.2.2
  unfold InitOk at hI
  revert hf hI
  generalize ((initializeEvents : SM α Unit).run.run s : Except Fail Unit × St α) = r
  obtain ⟨res, s1⟩ := r
  cases res with
  | error e => intro hf _; exact hf
  | ok u =>
    intro hf hI
    exact ⟨h.1.frame hf.1 hf.2.1 hf.2.2.1, by rw [hf.2.2.2]; exact h.2.1, hI⟩

theorem proc_ok_spec (hH : HorizAgree tol) (hUp : NextUpOk α ∨ mAssert ∈ A) (P : St α → Prop) :
    ⦃fun s1 => ⌜Coh s1 ∧ s1.tolerance = tol ∧ ProcOk P s1⌝⦄ (processEvents : SM α (Option IErr))
    ⦃safePost A fun r s2 => r = none ∧ Coh s2 ∧ s2.tolerance = tol ∧ P (nextSt s2)⦄ := by
  intro s1 h
  have hH1 : HorizAgree s1.tolerance := by rw [h.2.1]; exact hH
  have hf := (wp_iff_run _ _ _ s1).mp (processEvents_coh_at (A := A) s1 h.1 hH1 hUp s1 rfl)
  refine (wp_iff_run _ _ _ s1).mpr ?_
  have hI := h.2.2
  unfold ProcOk at hI
  revert hf hI
  generalize ((processEvents : SM α (Option IErr)).run.run s1 : Except Fail (Option IErr) × St α) = r
  obtain ⟨res, s2⟩ := r
  cases res with
  | error e => intro hf _; exact hf
  | ok r =>
    intro hf hI
    obtain ⟨hstep, hP⟩ := hI
    unfold EvPost at hf
    unfold StepOk at hstep
    cases hsc : scanActiveEdges s1 with
    | error e => rw [hsc] at hstep; exact hstep.elim
    | ok scan =>
      rw [hsc] at hf hstep
      obtain ⟨hr, W, hN⟩ := hf
      have hb := of_scan_both hsc
      have hev := hstep W hN
      exact ⟨hr, coh_after hb.1 hb.2 h.1 hH1 hev hN, by rw [hN.tol]; exact h.2.1, hP⟩

theorem Coh.next {s : St α} (h : Coh s) : Coh (nextSt s) := h.frame rfl rfl rfl

/-- **the loop**: from a coherent state, a run in which every event is `StepOk` fails only in the ways
`A` allows - with `NextUpOk` not at all by a panic -/
theorem loop_coh (hH : HorizAgree tol) (hUp : NextUpOk α ∨ mAssert ∈ A) : ∀ f : Nat,
    ⦃fun s => ⌜Coh s ∧ s.tolerance = tol ∧ AllOk f s⌝⦄ (tessellatorLoop f : SM α Unit)
    ⦃safePost A fun _ _ => True⦄
  | 0 => by
    unfold tessellatorLoop
    mvcgen
    exact allowed_fuel
  | f+1 => by
    have ih := loop_coh hH hUp f
    have h1 := init_ok_spec (α := α) (A := A) (tol := tol) (AllOk f)
    have h2 := proc_ok_spec (α := α) (A := A) (tol := tol) hH hUp (AllOk f)
    unfold tessellatorLoop
    strip_mdata
    mvcgen [ih, h1, h2]
    all_goals first
      | exact allowed_fuel
      | (rename_i s h hne
         refine ⟨h.1, h.2.1, ?_⟩
         have hA := h.2.2
         unfold AllOk at hA
         rcases hA with hA | hA
         · exfalso; rw [hA] at hne; simp at hne
         · exact hA)
      | (have h := ‹True ∧ Coh _ ∧ _›
         exact ⟨h.2.1.next, h.2.2.1, h.2.2.2⟩)
      | (have h := ‹some _ = none ∧ _›
         exact absurd h.1 (by simp))


/-! ### an executable certificate for `AllOk` -/

/-- the windings of the edges inserted by the event, read off the new active list -/
def Wof (s1 : St α) (scan : Scan) (s2 : St α) : List Int :=
  (((sigs s2).drop (scan.aboveStart + bi scan.mergeEvent)).take
    ((sigs s2).length - (scan.aboveStart + bi scan.mergeEvent) - (s1.active.size - scan.aboveEnd))).map (·.2)

theorem Wof_eq {s1 s2 : St α} {scan : Scan} {Z : Nat} {W : List Int} (hok : ScanOk s1 scan)
    (hN : NewSt s1 scan Z W s2) : Wof s1 scan s2 = W := by
  have hab := hok.start_le
  have hbn := hok.end_le
  have hlen := sigs_length s1
  unfold Wof
  rw [hN.sg]
  unfold newSigs
  have h1 : ((sigs s1).take scan.aboveStart ++ (if scan.mergeEvent then [(true, (0 : Int))] else [])).length =
      scan.aboveStart + bi scan.mergeEvent := by
    rw [List.length_append, List.length_take, Nat.min_eq_left (by omega)]
    cases scan.mergeEvent <;> simp [bi]
  rw [List.append_assoc, List.append_assoc, ← List.append_assoc ((sigs s1).take scan.aboveStart)]
  rw [← h1, List.drop_left]
  have h2 : ((sigs s1).take scan.aboveStart ++ (if scan.mergeEvent then [(true, (0 : Int))] else []) ++
      (W.map (fun k => (false, k)) ++ (sigs s1).drop scan.aboveEnd)).length -
      ((sigs s1).take scan.aboveStart ++ (if scan.mergeEvent then [(true, (0 : Int))] else [])).length -
      (s1.active.size - scan.aboveEnd) = (W.map (fun k => ((false, k) : Bool × Int))).length := by
    simp only [List.length_append, List.length_drop, List.length_map]
    omega
  rw [h2, List.take_left]
  simp only [List.map_map]
  have : ((fun x : Bool × Int => x.2) ∘ fun k => ((false, k) : Bool × Int)) = id := by funext k; rfl
  rw [this, List.map_id]

def eventOkB (s1 : St α) (scan : Scan) (W : List Int) : Bool :=
  decide ((pfold s1.rule (Wat s1 scan.aboveStart) W).number = (Wat s1 scan.aboveEnd).number) &&
  (!W.isEmpty || scan.mergeEvent ||
    (decide (scan.aboveStart < scan.aboveEnd) && !scan.mergeSplitEvent && !(Wat s1 scan.aboveStart).isIn) ||
    (decide (scan.aboveStart = scan.aboveEnd) && !(Wat s1 scan.aboveStart).isIn)) &&
  (!scan.mergeEvent || W.isEmpty)

theorem eventOk_of_B {s1 : St α} {scan : Scan} {W : List Int} (h : eventOkB s1 scan W = true) :
    EventOkW s1 scan W := by
  unfold eventOkB at h
  simp only [Bool.and_eq_true, Bool.or_eq_true, decide_eq_true_eq, Bool.not_eq_true'] at h
  obtain ⟨⟨h1, h2⟩, h3⟩ := h
  refine ⟨h1, ?_, ?_⟩
  · intro hW
    rcases h2 with ((h2 | h2) | h2) | h2
    · rw [hW] at h2; simp at h2
    · exact Or.inl h2
    · exact Or.inr (Or.inl ⟨h2.1.1, h2.1.2, h2.2⟩)
    · exact Or.inr (Or.inr ⟨h2.1, h2.2⟩)
  · intro hm
    rcases h3 with h3 | h3
    · rw [hm] at h3; cases h3
    · cases W <;> simp_all

def stepOkB (s1 s2 : St α) : Bool :=
  match scanActiveEdges s1 with
  | .error _ => false
  | .ok scan => eventOkB s1 scan (Wof s1 scan s2)

theorem stepOk_of_B {s1 s2 : St α} (h : stepOkB s1 s2 = true) : StepOk s1 s2 := by
  unfold stepOkB at h
  unfold StepOk
  cases hsc : scanActiveEdges s1 with
  | error e => rw [hsc] at h; cases h
  | ok scan =>
    rw [hsc] at h
    intro W hN
    dsimp only at h
    rw [Wof_eq (of_scan_both hsc).1 hN] at h
    exact eventOk_of_B h

/-- the executable version of `AllOk` -/
def allOkB : Nat → St α → Bool
  | 0, _ => true
  | f+1, s =>
    s.curEvent == INVALID ||
    (match ((initializeEvents : SM α Unit).run.run s : Except Fail Unit × St α) with
     | (.ok _, s1) =>
       (match ((processEvents : SM α (Option IErr)).run.run s1 : Except Fail (Option IErr) × St α) with
        | (.ok _, s2) => stepOkB s1 s2 && allOkB f (nextSt s2)
        | (.error _, _) => true)
     | (.error _, _) => true)

theorem allOk_of_B : ∀ (f : Nat) (s : St α), allOkB f s = true → AllOk f s
  | 0, _, _ => trivial
  | f+1, s, h => by
    unfold allOkB at h
    unfold AllOk
    simp only [Bool.or_eq_true, beq_iff_eq] at h
    rcases h with h | h
    · exact Or.inl h
    · right
      unfold InitOk
      revert h
      generalize ((initializeEvents : SM α Unit).run.run s : Except Fail Unit × St α) = r
      obtain ⟨res, s1⟩ := r
      cases res with
      | error e => intro _; trivial
      | ok u =>
        unfold ProcOk
        dsimp only
        generalize ((processEvents : SM α (Option IErr)).run.run s1 : Except Fail (Option IErr) × St α) = r2
        obtain ⟨res2, s2⟩ := r2
        cases res2 with
        | error e => intro _; trivial
        | ok r =>
          intro h
          simp only [Bool.and_eq_true] at h
          exact ⟨stepOk_of_B h.1, allOk_of_B f _ h.2⟩


/-! ### `tessellate_impl` / `tessellate` -/

/-- the initial state of `tessellate_impl` -/
def initSt (q : Queue α) (rule : Slab.Rule) (horizontal : Bool) (tol : α) (handleIx : Bool) : St α where
  q := q
  curPos := ⟨Wide.fmin, Wide.fmin⟩
  curVertex := INVALID
  curEvent := q.firstId
  active := #[]
  below := #[]
  spans := #[]
  pool := []
  rule := rule
  horizontal := horizontal
  tolerance := tol * half
  handleIntersections := handleIx
  out := #[]
  nverts := 0

theorem coh_init (q : Queue α) (rule : Slab.Rule) (horizontal : Bool) (tol : α) (handleIx : Bool) :
    Coh (initSt q rule horizontal tol handleIx) := by
  refine ⟨by intro k hk; simp [initSt] at hk, ?_, ?_, ?_⟩
  · simp [Wtot, Wat, wfold, initSt, WindingState.new]
  · simp [Wtot, Wat, wfold, initSt, WindingState.new]
  · intro k e hk; simp [initSt] at hk

/-- the executable certificate: every event of the run scans without error and conserves the winding -/
def cleanRunB (q : Queue α) (rule : Slab.Rule) (horizontal : Bool) (tol : α) (handleIx : Bool) : Bool :=
  allOkB (4 * q.events.size * q.events.size + 1000) (initSt q rule horizontal tol handleIx)

theorem tessellateImpl_clean (q : Queue α) (rule : Slab.Rule) (horizontal : Bool) (tol : α) (handleIx : Bool)
    (hH : HorizAgree (tol * half)) (hUp : NextUpOk α ∨ mAssert ∈ A)
    (hB : cleanRunB q rule horizontal tol handleIx = true) (f : Fail)
    (hf : (tessellateImpl q rule horizontal tol handleIx).1 = some f) : Allowed A f := by
  unfold tessellateImpl at hf
  split at hf
  · cases hf; exact allowed_err _
  · dsimp only at hf
    have hall := allOk_of_B _ _ hB
    have h := (wp_iff_run _ _ _ _).mp (loop_coh (α := α) (A := A) (tol := tol * half) hH hUp _
      (initSt q rule horizontal tol handleIx) ⟨coh_init q rule horizontal tol handleIx, rfl, hall⟩)
    split at hf
    · rename_i f' heq
      have hff : f' = f := by simpa using hf
      subst hff
      have heq' : ((tessellatorLoop (4 * q.events.size * q.events.size + 1000)).run.run
          (initSt q rule horizontal tol handleIx)).1 = Except.error f' := heq
      revert h heq'
      generalize ((tessellatorLoop (4 * q.events.size * q.events.size + 1000)).run.run
          (initSt q rule horizontal tol handleIx) : Except Fail Unit × St α) = r
      obtain ⟨res, s1⟩ := r
      intro h heq'
      cases res with
      | error e => cases heq'; exact h
      | ok u => cases heq'
    · cases hf

/-- the certificate for the whole `FillTessellator` on polygonal input -/
def cleanB (entry : Entry) (rule : Slab.Rule) (horizontal : Bool) (tol : α) (handleIx : Bool)
    (subs : List (SubPath α)) : Bool :=
  cleanRunB (buildQueue entry horizontal subs).sort rule horizontal tol handleIx

theorem tessellate_clean (entry : Entry) (rule : Slab.Rule) (horizontal : Bool) (tol : α) (handleIx : Bool)
    (subs : List (SubPath α)) (hH : HorizAgree (tol * half)) (hUp : NextUpOk α ∨ mAssert ∈ A)
    (hB : cleanB entry rule horizontal tol handleIx subs = true) (f : Fail)
    (hf : (tessellate entry rule horizontal tol handleIx subs).1 = some f) : Allowed A f := by
  unfold tessellate at hf
  dsimp only at hf
  split at hf
  · cases hf; exact allowed_unmodelled _
  · exact tessellateImpl_clean _ _ _ _ _ hH hUp hB f hf

end Lyon.SweepCoh
