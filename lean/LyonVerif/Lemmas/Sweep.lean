/-
  Helper lemmas for `Props/Sweep.lean`: the (y, x) order behind `compare_positions`, the fold of
  `WindingState::update`, and the list-level merge (`EQ.Spec.mergeG` / `mergeSortG`).
-/
import LyonVerif.Lemmas.Field
import LyonVerif.Model.Tess.Sweep
import Mathlib.Data.List.Perm.Basic
import Mathlib.Data.List.Range
import Mathlib.Tactic.Ring
import Mathlib.Tactic.Linarith

set_option linter.unusedSectionVars false
set_option linter.unusedVariables false

namespace Lyon.SweepProps
open Lyon Lyon.EQ Lyon.Sweep

variable {K : Type} [Field K] [LinearOrder K] [IsStrictOrderedRing K]

/-! ### `compare_positions` -/

/-- the (y, x) lexicographic order the sweep visits points in -/
def lexLt (a b : P K) : Prop := a.y < b.y ∨ (a.y = b.y ∧ a.x < b.x)

theorem compare_lt_iff (a b : P K) : comparePositions a b = .lt ↔ lexLt a b := by
  unfold comparePositions lexLt
  by_cases h1 : b.y < a.y
  · simp [h1, not_lt.mpr h1.le]; intro h; exact absurd h (ne_of_gt h1)
  · by_cases h2 : a.y < b.y
    · simp [h1, h2]
    · have hy : a.y = b.y := le_antisymm (not_lt.mp h1) (not_lt.mp h2)
      by_cases h3 : b.x < a.x
      · simp [h3, hy, not_lt.mpr h3.le]
      · by_cases h4 : a.x < b.x <;> simp [h3, h4, hy]

theorem compare_gt_iff (a b : P K) : comparePositions a b = .gt ↔ lexLt b a := by
  unfold comparePositions lexLt
  by_cases h1 : b.y < a.y
  · simp [h1]
  · by_cases h2 : a.y < b.y
    · simp [h1, h2]; intro h; exact absurd h (ne_of_gt h2)
    · have hy : a.y = b.y := le_antisymm (not_lt.mp h1) (not_lt.mp h2)
      by_cases h3 : b.x < a.x
      · simp [h3, hy]
      · by_cases h4 : a.x < b.x <;> simp [h3, h4, hy]

theorem compare_eq_iff (a b : P K) : comparePositions a b = .eq ↔ a = b := by
  unfold comparePositions
  constructor
  · intro h
    by_cases h1 : b.y < a.y
    · simp [h1] at h
    · by_cases h2 : a.y < b.y
      · simp [h1, h2] at h
      · by_cases h3 : b.x < a.x
        · simp [h1, h2, h3] at h
        · by_cases h4 : a.x < b.x
          · simp [h1, h2, h3, h4] at h
          · exact P.ext' (le_antisymm (not_lt.mp h3) (not_lt.mp h4)) (le_antisymm (not_lt.mp h1) (not_lt.mp h2))
  · rintro rfl; simp

theorem lexLt_irrefl (a : P K) : ¬ lexLt a a := by
  unfold lexLt; rintro (h | ⟨_, h⟩) <;> exact lt_irrefl _ h

theorem lexLt_trans {a b c : P K} (h1 : lexLt a b) (h2 : lexLt b c) : lexLt a c := by
  unfold lexLt at *
  rcases h1 with h1 | ⟨e1, h1⟩ <;> rcases h2 with h2 | ⟨e2, h2⟩
  · exact Or.inl (lt_trans h1 h2)
  · exact Or.inl (e2 ▸ h1)
  · exact Or.inl (e1 ▸ h2)
  · exact Or.inr ⟨e1.trans e2, lt_trans h1 h2⟩

theorem lexLt_total (a b : P K) : lexLt a b ∨ a = b ∨ lexLt b a := by
  unfold lexLt
  rcases lt_trichotomy a.y b.y with h | h | h
  · exact Or.inl (Or.inl h)
  · rcases lt_trichotomy a.x b.x with h' | h' | h'
    · exact Or.inl (Or.inr ⟨h, h'⟩)
    · exact Or.inr (Or.inl (P.ext' h' h))
    · exact Or.inr (Or.inr (Or.inr ⟨h.symm, h'⟩))
  · exact Or.inr (Or.inr (Or.inl h))

/-! ### `WindingState` -/

/-- the winding state after scanning edges with the given windings (step 1 of
`scan_active_edges` on non-merge edges) -/
def windingAfter (rule : Slab.Rule) (ws : List Int) : WindingState :=
  ws.foldl (fun w e => w.update rule e) WindingState.new

/-- how many non-empty prefixes of `ws`, shifted by `acc`, are `in` -/
def inPrefixes (rule : Slab.Rule) : Int → List Int → Int
  | _, [] => 0
  | acc, w :: ws => (if rule.isIn (acc + w) then 1 else 0) + inPrefixes rule (acc + w) ws

theorem foldl_update (rule : Slab.Rule) (ws : List Int) (w0 : WindingState) :
    let r := ws.foldl (fun w e => w.update rule e) w0
    r.number = w0.number + ws.sum ∧
    (ws ≠ [] → r.isIn = rule.isIn (w0.number + ws.sum)) ∧
    r.spanIndex = w0.spanIndex + inPrefixes rule w0.number ws := by
  induction ws generalizing w0 with
  | nil => simp [inPrefixes]
  | cons w ws ih =>
    have h := ih (w0.update rule w)
    simp only [List.foldl_cons, List.sum_cons, ne_eq, reduceCtorEq, not_false_eq_true, forall_const] at h ⊢
    obtain ⟨h1, h2, h3⟩ := h
    have hn : (w0.update rule w).number = w0.number + w := rfl
    have hi : (w0.update rule w).isIn = rule.isIn (w0.number + w) := rfl
    have hs : (w0.update rule w).spanIndex = w0.spanIndex + (if rule.isIn (w0.number + w) then 1 else 0) := by
      simp only [WindingState.update]; split <;> simp
    refine ⟨by rw [h1, hn]; ring, ?_, ?_⟩
    · by_cases hws : ws = []
      · subst hws; simp [hi]
      · rw [h2 hws, hn]; congr 1; ring
    · rw [h3, hn, hs]; simp only [inPrefixes]; ring

theorem isIn_zero (rule : Slab.Rule) : rule.isIn 0 = false := by cases rule <;> rfl

/-! ### the queue's sort (list-level specification `EQ.Spec`) -/

open EQ.Spec

/-- position of a sibling group = position of its first event -/
def key (pos : Nat → P K) (g : List Nat) : P K := pos (g.headD 0)

/-- a well-formed sibling group: non-empty, all its events at one position -/
def GroupOk (pos : Nat → P K) (g : List Nat) : Prop := g ≠ [] ∧ ∀ i ∈ g, pos i = key pos g

/-- sweep order: group positions strictly increase -/
def SortedG (pos : Nat → P K) (l : List (List Nat)) : Prop :=
  l.Pairwise (fun g h => lexLt (key pos g) (key pos h)) ∧ ∀ g ∈ l, GroupOk pos g

theorem key_append (pos : Nat → P K) {g h : List Nat} (hg : g ≠ []) : key pos (g ++ h) = key pos g := by
  cases g with
  | nil => exact absurd rfl hg
  | cons a t => rfl

theorem groupOk_append (pos : Nat → P K) {g h : List Nat} (hg : GroupOk pos g) (hh : GroupOk pos h)
    (e : key pos g = key pos h) : GroupOk pos (g ++ h) := by
  refine ⟨by simp [hg.1], ?_⟩
  intro i hi
  rw [key_append pos hg.1]
  rcases List.mem_append.mp hi with hi | hi
  · exact hg.2 i hi
  · rw [hh.2 i hi, e]

theorem perm_swap_mid (a b c : List Nat) : (b ++ (a ++ c)).Perm (a ++ (b ++ c)) := by
  rw [← List.append_assoc, ← List.append_assoc]
  exact List.Perm.append_right _ List.perm_append_comm

theorem pairwise_mem_ne {β : Type} {R : β → β → Prop} {l : List β} (h : l.Pairwise R) {a b : β}
    (ha : a ∈ l) (hb : b ∈ l) (hne : a ≠ b) : R a b ∨ R b a := by
  induction h with
  | nil => cases ha
  | cons hx _ ih =>
    rcases List.mem_cons.mp ha with e1 | ha'
    · rcases List.mem_cons.mp hb with e2 | hb'
      · exact absurd (e1.trans e2.symm) hne
      · exact Or.inl (e1 ▸ hx b hb')
    · rcases List.mem_cons.mp hb with e2 | hb'
      · exact Or.inr (e2 ▸ hx a ha')
      · exact ih ha' hb'

theorem mergeG_perm (pos : Nat → P K) (la lb : List (List Nat)) :
    (mergeG pos la lb).flatten.Perm (la.flatten ++ lb.flatten) := by
  induction la, lb using mergeG.induct (pos := pos) with
  | case1 lb => simp [mergeG]
  | case2 la hla => simp [mergeG]
  | case3 ga ra gb rb h ih =>
    rw [mergeG, h]; simp only [List.flatten_cons, List.append_assoc]
    exact (List.Perm.append_left ga (by simpa using ih))
  | case4 ga ra gb rb h ih =>
    rw [mergeG, h]; simp only [List.flatten_cons]
    exact (List.Perm.append_left gb ih).trans (perm_swap_mid _ _ _)
  | case5 ga ra gb rb h ih =>
    rw [mergeG, h]
    refine ih.trans ?_
    simp only [List.flatten_cons, List.append_assoc]
    exact List.Perm.append_left ga (perm_swap_mid _ _ _)

/-- every group of the merge carries the position of a group of one of the inputs -/
theorem mergeG_keys (pos : Nat → P K) (la lb : List (List Nat))
    (hla : ∀ g ∈ la, g ≠ []) :
    ∀ x ∈ mergeG pos la lb, ∃ y, (y ∈ la ∨ y ∈ lb) ∧ key pos x = key pos y := by
  induction la, lb using mergeG.induct (pos := pos) with
  | case1 lb => intro x hx; rw [mergeG] at hx; exact ⟨x, Or.inr hx, rfl⟩
  | case2 la hne =>
    intro x hx
    have : mergeG pos la [] = la := by cases la <;> simp [mergeG]
    rw [this] at hx; exact ⟨x, Or.inl hx, rfl⟩
  | case3 ga ra gb rb h ih =>
    intro x hx; rw [mergeG, h] at hx
    rcases List.mem_cons.mp hx with rfl | hx
    · exact ⟨x, Or.inl (List.mem_cons_self), rfl⟩
    · obtain ⟨y, hy, e⟩ := ih (fun g hg => hla g (List.mem_cons_of_mem _ hg)) x hx
      exact ⟨y, hy.imp (List.mem_cons_of_mem _) id, e⟩
  | case4 ga ra gb rb h ih =>
    intro x hx; rw [mergeG, h] at hx
    rcases List.mem_cons.mp hx with rfl | hx
    · exact ⟨x, Or.inr (List.mem_cons_self), rfl⟩
    · obtain ⟨y, hy, e⟩ := ih hla x hx
      exact ⟨y, hy.imp id (List.mem_cons_of_mem _), e⟩
  | case5 ga ra gb rb h ih =>
    intro x hx; rw [mergeG, h] at hx
    have hne : ∀ g ∈ (ga ++ gb) :: ra, g ≠ [] := by
      intro g hg
      rcases List.mem_cons.mp hg with rfl | hg
      · simp [hla ga (List.mem_cons_self)]
      · exact hla g (List.mem_cons_of_mem _ hg)
    obtain ⟨y, hy, e⟩ := ih hne x hx
    rcases hy with hy | hy
    · rcases List.mem_cons.mp hy with rfl | hy
      · exact ⟨ga, Or.inl (List.mem_cons_self), by rw [e, key_append pos (hla ga (List.mem_cons_self))]⟩
      · exact ⟨y, Or.inl (List.mem_cons_of_mem _ hy), e⟩
    · exact ⟨y, Or.inr (List.mem_cons_of_mem _ hy), e⟩

theorem mergeG_sorted (pos : Nat → P K) (la lb : List (List Nat))
    (ha : SortedG pos la) (hb : SortedG pos lb) : SortedG pos (mergeG pos la lb) := by
  induction la, lb using mergeG.induct (pos := pos) with
  | case1 lb => rw [mergeG]; exact hb
  | case2 la hne =>
    have : mergeG pos la [] = la := by cases la <;> simp [mergeG]
    rw [this]; exact ha
  | case3 ga ra gb rb h ih =>
    rw [mergeG, h]
    have hlt : lexLt (key pos ga) (key pos gb) := (compare_lt_iff _ _).mp h
    obtain ⟨hpa, hoa⟩ := ha
    obtain ⟨hpb, hob⟩ := hb
    rw [List.pairwise_cons] at hpa hpb
    have hra : SortedG pos ra := ⟨hpa.2, fun g hg => hoa g (List.mem_cons_of_mem _ hg)⟩
    have ih' := ih hra ⟨List.pairwise_cons.mpr hpb, hob⟩
    refine ⟨List.pairwise_cons.mpr ⟨?_, ih'.1⟩, ?_⟩
    · intro x hx
      obtain ⟨y, hy, e⟩ := mergeG_keys pos ra (gb :: rb) (fun g hg => (hra.2 g hg).1) x hx
      rw [e]
      rcases hy with hy | hy
      · exact hpa.1 y hy
      · rcases List.mem_cons.mp hy with rfl | hy
        · exact hlt
        · exact lexLt_trans hlt (hpb.1 y hy)
    · intro g hg
      rcases List.mem_cons.mp hg with rfl | hg
      · exact hoa g (List.mem_cons_self)
      · exact ih'.2 g hg
  | case4 ga ra gb rb h ih =>
    rw [mergeG, h]
    have hlt : lexLt (key pos gb) (key pos ga) := (compare_gt_iff _ _).mp h
    obtain ⟨hpa, hoa⟩ := ha
    obtain ⟨hpb, hob⟩ := hb
    rw [List.pairwise_cons] at hpa hpb
    have hrb : SortedG pos rb := ⟨hpb.2, fun g hg => hob g (List.mem_cons_of_mem _ hg)⟩
    have ih' := ih ⟨List.pairwise_cons.mpr hpa, hoa⟩ hrb
    refine ⟨List.pairwise_cons.mpr ⟨?_, ih'.1⟩, ?_⟩
    · intro x hx
      obtain ⟨y, hy, e⟩ := mergeG_keys pos (ga :: ra) rb (fun g hg => (hoa g hg).1) x hx
      rw [e]
      rcases hy with hy | hy
      · rcases List.mem_cons.mp hy with rfl | hy
        · exact hlt
        · exact lexLt_trans hlt (hpa.1 y hy)
      · exact hpb.1 y hy
    · intro g hg
      rcases List.mem_cons.mp hg with rfl | hg
      · exact hob g (List.mem_cons_self)
      · exact ih'.2 g hg
  | case5 ga ra gb rb h ih =>
    rw [mergeG, h]
    have heq : key pos ga = key pos gb := (compare_eq_iff _ _).mp h
    obtain ⟨hpa, hoa⟩ := ha
    obtain ⟨hpb, hob⟩ := hb
    rw [List.pairwise_cons] at hpa hpb
    have hga := hoa ga (List.mem_cons_self)
    have hgb := hob gb (List.mem_cons_self)
    refine ih ⟨List.pairwise_cons.mpr ⟨?_, hpa.2⟩, ?_⟩ ⟨hpb.2, fun g hg => hob g (List.mem_cons_of_mem _ hg)⟩
    · intro x hx; rw [key_append pos hga.1]; exact hpa.1 x hx
    · intro g hg
      rcases List.mem_cons.mp hg with rfl | hg
      · exact groupOk_append pos hga hgb heq
      · exact hoa g (List.mem_cons_of_mem _ hg)

theorem range_split (s m e : Nat) (h1 : s ≤ m) (h2 : m ≤ e) :
    List.range' s (m - s) ++ List.range' m (e - m) = List.range' s (e - s) := by
  obtain ⟨a, rfl⟩ := Nat.exists_eq_add_of_le h1
  obtain ⟨b, rfl⟩ := Nat.exists_eq_add_of_le h2
  have e1 : s + a - s = a := by omega
  have e2 : s + a + b - (s + a) = b := by omega
  have e3 : s + a + b - s = a + b := by omega
  rw [e1, e2, e3, List.range'_append_1]

theorem mergeSortG_spec_aux (pos : Nat → P K) : ∀ (k s e : Nat), e - s ≤ k → s < e →
    (mergeSortG pos s e).flatten.Perm (List.range' s (e - s)) ∧ SortedG pos (mergeSortG pos s e) := by
  intro k
  induction k with
  | zero => intro s e hk hse; omega
  | succ k ih =>
    intro s e hk hse
    rw [mergeSortG]
    by_cases hsplit : (s + e) / 2 = s
    · simp only [hsplit, ↓reduceDIte]
      have h1 : e - s = 1 := by omega
      rw [h1]
      refine ⟨by simp [List.range'], by simp, ?_⟩
      intro g hg
      have hg' : g = [s] := by simpa using hg
      subst hg'
      exact ⟨by simp, by simp [key]⟩
    · have hle : ¬ e ≤ (s + e) / 2 := by omega
      simp only [hsplit, hle, ↓reduceDIte]
      obtain ⟨pa, sa⟩ := ih s ((s + e) / 2) (by omega) (by omega)
      obtain ⟨pb, sb⟩ := ih ((s + e) / 2) e (by omega) (by omega)
      refine ⟨?_, mergeG_sorted pos _ _ sa sb⟩
      refine (mergeG_perm pos _ _).trans ((pa.append pb).trans ?_)
      rw [range_split s ((s + e) / 2) e (by omega) (by omega)]

theorem mergeSortG_spec (pos : Nat → P K) (s e : Nat) (hse : s < e) :
    (mergeSortG pos s e).flatten.Perm (List.range' s (e - s)) ∧ SortedG pos (mergeSortG pos s e) :=
  mergeSortG_spec_aux pos (e - s) s e le_rfl hse

end Lyon.SweepProps
