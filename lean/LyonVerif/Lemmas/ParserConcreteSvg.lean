/-
  C17b, part 2: the parser's own interpretation of path data IS the SVG reference semantics of
  C15 (`Model/Path/SvgSpec.lean`), applied to the command list read from the text.

  `PathParser` does not produce a command list and does not drive an `SvgPathBuilder`: it resolves
  relative coordinates, `H`/`V`, smooth control points and `Z` itself and calls a plain
  `PathBuilder`.  To compare it with `WithSvg` / the SVG rules we read the command list off the
  text with the parser's OWN tokenizer and control flow:

  * `readCmd N na cmd`   — the operands of one command as RAW values (no `+ current_position`),
                            packed into the `SvgPathBuilder` command `Svg.Cmd` the letter stands for
                            (`l 1 2` ↦ `relLineTo ⟨1,2⟩`, `S…` ↦ `smoothCubicTo`, `a…` ↦ `relArcTo`);
                            the custom attributes are read and dropped (`WithSvg` has none).
  * `loopCmds`/`parseCmds` — the commands of the iterations of `parse_path` that complete
                            (the iteration structure is `Parser.step`'s, by definition).
  * `eraseCall`          — a builder call without its attributes.

  `step_sim`: one completed iteration whose command is not an arc sends exactly the calls
  `Svg.Spec.step` prescribes for the command read, and keeps the relation `Rel` between parser
  state and reference state.  `loop_sim`: whole parses, success or error (the clean-up `end(false)`
  is the reference semantics' "end the open sub-path").
-/
import LyonVerif.Lemmas.Parser
import LyonVerif.Model.Path.SvgSpec

set_option linter.unusedVariables false
set_option linter.unusedSectionVars false

namespace Lyon.Parser
open Lyon.Path Lyon.Svg

variable {ν : Type}

/-- raw operands of an arc command: `rx ry x-axis-rotation(degrees) large-arc sweep` -/
abbrev RawArc (ν : Type) := ν × ν × ν × Bool × Bool
/-- the `SvgPathBuilder` commands path data stands for -/
abbrev SCmd (ν : Type) := Svg.Cmd ν (RawArc ν)

def sp (p : Parser.Pt ν) : Svg.Pt ν := ⟨p.1, p.2⟩

/-- a builder call without its custom attributes -/
def eraseCall : PCall ν → Call (Svg.Pt ν) Unit
  | .begin p _ => .begin (sp p) ()
  | .line p _ => .line (sp p) ()
  | .quad c p _ => .quad (sp c) (sp p) ()
  | .cubic c1 c2 p _ => .cubic (sp c1) (sp c2) (sp p) ()
  | .end_ b => .end_ b

/-! ### reading commands -/

/-- a coordinate pair as written -/
def rawPoint (N : Num ν) : PM (Svg.Pt ν) := do
  let x ← parseNumber N
  let y ← parseNumber N
  pure ⟨x, y⟩

/-- a coordinate pair as written, then `na` attribute values (dropped) -/
def rdEnd (N : Num ν) (na : Nat) : PM (Svg.Pt ν) := do
  let p ← rawPoint N
  let _ ← parseAttrs N na
  pure p

def rdL (N : Num ν) (na : Nat) (rel : Bool) : PM (SCmd ν) := do
  let p ← rdEnd N na
  pure (if rel then .relLineTo p else .lineTo p)

def rdH (N : Num ν) (na : Nat) (rel : Bool) : PM (SCmd ν) := do
  let x ← parseNumber N
  let _ ← parseAttrs N na
  pure (if rel then .relHLineTo x else .hLineTo x)

def rdV (N : Num ν) (na : Nat) (rel : Bool) : PM (SCmd ν) := do
  let y ← parseNumber N
  let _ ← parseAttrs N na
  pure (if rel then .relVLineTo y else .vLineTo y)

def rdQ (N : Num ν) (na : Nat) (rel : Bool) : PM (SCmd ν) := do
  let c ← rawPoint N
  let p ← rdEnd N na
  pure (if rel then .relQuadTo c p else .quadTo c p)

def rdT (N : Num ν) (na : Nat) (rel : Bool) : PM (SCmd ν) := do
  let p ← rdEnd N na
  pure (if rel then .smoothRelQuadTo p else .smoothQuadTo p)

def rdC (N : Num ν) (na : Nat) (rel : Bool) : PM (SCmd ν) := do
  let c1 ← rawPoint N
  let c2 ← rawPoint N
  let p ← rdEnd N na
  pure (if rel then .relCubicTo c1 c2 p else .cubicTo c1 c2 p)

def rdS (N : Num ν) (na : Nat) (rel : Bool) : PM (SCmd ν) := do
  let c2 ← rawPoint N
  let p ← rdEnd N na
  pure (if rel then .smoothRelCubicTo c2 p else .smoothCubicTo c2 p)

def rdA (N : Num ν) (na : Nat) (rel : Bool) : PM (SCmd ν) := do
  let rx ← parseNumber N
  let ry ← parseNumber N
  let rot ← parseNumber N
  let large ← parseFlag
  let sweep ← parseFlag
  let p ← rdEnd N na
  pure (if rel then .relArcTo (rx, ry, rot, large, sweep) p
        else .arcTo (rx, ry, rot, large, sweep) p)

def rdM (N : Num ν) (na : Nat) (rel : Bool) : PM (SCmd ν) := do
  let p ← rdEnd N na
  pure (if rel then .relMoveTo p else .moveTo p)

/-- the reader of an edge command — same dispatch as `edgeCmd` -/
def readEdge (N : Num ν) (na : Nat) (cmd : Char) : Option (PM (SCmd ν)) :=
  if cmd == 'l' || cmd == 'L' then some (rdL N na cmd.isLower)
  else if cmd == 'h' || cmd == 'H' then some (rdH N na cmd.isLower)
  else if cmd == 'v' || cmd == 'V' then some (rdV N na cmd.isLower)
  else if cmd == 'q' || cmd == 'Q' then some (rdQ N na cmd.isLower)
  else if cmd == 't' || cmd == 'T' then some (rdT N na cmd.isLower)
  else if cmd == 'c' || cmd == 'C' then some (rdC N na cmd.isLower)
  else if cmd == 's' || cmd == 'S' then some (rdS N na cmd.isLower)
  else none

/-- the command a letter and the text after it stand for — same dispatch as `dispatchCmd` -/
def readCmd (N : Num ν) (na : Nat) (cmd : Char) : PM (SCmd ν) :=
  match readEdge N na cmd with
  | some m => m
  | none =>
    if cmd == 'a' || cmd == 'A' then rdA N na cmd.isLower
    else if cmd == 'm' || cmd == 'M' then rdM N na cmd.isLower
    else pure .close

/-- the command of the iteration that starts at `s` in state `st` -/
def cmdAt (N : Num ν) (na : Nat) (st : St ν) (s : Src) : SCmd ν :=
  match readCmd N na (cmdOf st s) (afterCmd s) with
  | .ok c _ => c
  | .err _ _ => .close

/-- the commands of the iterations of `Parser.loop` that complete -/
def loopCmds (N : Num ν) (na : Nat) (stop : Option Char) : Nat → St ν → Src → List (SCmd ν)
  | 0, _, _ => []
  | fuel + 1, st, s =>
    if s.fin then []
    else if stop == some s.cur then []
    else
      match step N na st s with
      | .cont st' s' _ => cmdAt N na st s :: loopCmds N na stop fuel st' s'.skipWs
      | .fail .. => []
      | .panic .. => []

/-- the command list `PathParser::parse` reads from `inp` before it returns -/
def parseCmds (N : Num ν) (na : Nat) (stop : Option Char) (inp : List Char) : List (SCmd ν) :=
  loopCmds N na stop (inp.length + 1) (St.init N) (Src.new inp).skipWs

/-! ### raw operands vs resolved operands -/

theorem parsePoint_raw (N : Num ν) (rel : Bool) (cur : Parser.Pt ν) (s : Src) (p : Parser.Pt ν)
    (s' : Src) (h : parsePoint N rel cur s = .ok p s') :
    ∃ v, rawPoint N s = .ok v s' ∧ p = (relX N rel cur v.x, relY N rel cur v.y) := by
  unfold parsePoint at h
  obtain ⟨x, s1, hx, h⟩ := bind_ok h
  obtain ⟨y, s2, hy, h⟩ := bind_ok h
  have hp := pure_ok h
  refine ⟨⟨x, y⟩, ?_, hp.1⟩
  unfold rawPoint
  rw [bind_of_ok hx, bind_of_ok hy, hp.2]; rfl

theorem parseEndpoint_raw (N : Num ν) (na : Nat) (rel : Bool) (cur : Parser.Pt ν) (s : Src)
    (e : Parser.Pt ν × List ν) (s' : Src) (h : parseEndpoint N na rel cur s = .ok e s') :
    ∃ v, rdEnd N na s = .ok v s' ∧ e.1 = (relX N rel cur v.x, relY N rel cur v.y) := by
  unfold parseEndpoint at h
  obtain ⟨p, s1, hp, h⟩ := bind_ok h
  obtain ⟨a, s2, ha, h⟩ := bind_ok h
  obtain ⟨v, hv, hpv⟩ := parsePoint_raw N rel cur s p s1 hp
  have hq := pure_ok h
  refine ⟨v, ?_, by rw [hq.1]; exact hpv⟩
  unfold rdEnd
  rw [bind_of_ok hv, bind_of_ok ha, hq.2]; rfl

/-! ### the relation between parser state and reference state -/

section sim
variable [Add ν] [Sub ν]

/-- `N.add`/`N.sub` are the `+`/`-` the reference semantics uses; `+` commutes (the parser
computes `x + current.x`, `WithSvg` and the SVG rule `current.x + x`) -/
structure Ops (N : Num ν) : Prop where
  add : ∀ a b, N.add a b = a + b
  sub : ∀ a b, N.sub a b = a - b
  comm : ∀ a b : ν, a + b = b + a

def pcOf : Svg.Prev ν → Option (Parser.Pt ν)
  | .cubic c => some (c.x, c.y)
  | _ => none

def pqOf : Svg.Prev ν → Option (Parser.Pt ν)
  | .quad c => some (c.x, c.y)
  | _ => none

structure Rel (st : St ν) (s : Svg.Spec ν) : Prop where
  cur : s.cur = sp st.cur
  start : s.start = sp st.first
  isOpen : s.isOpen = st.needEnd
  ns : st.needStart = !st.needEnd
  pc : st.prevCubic = pcOf s.prev
  pq : st.prevQuad = pqOf s.prev

/-- target of a coordinate pair: offset from the current point if relative -/
def tgt (rel : Bool) (c v : Svg.Pt ν) : Svg.Pt ν := if rel then c + v else v

theorem sp_rel {N : Num ν} (ho : Ops N) (rel : Bool) (cur : Parser.Pt ν) (v : Svg.Pt ν) :
    sp (relX N rel cur v.x, relY N rel cur v.y) = tgt rel (sp cur) v := by
  cases rel
  · rfl
  · show (⟨N.add v.x cur.1, N.add v.y cur.2⟩ : Svg.Pt ν) = ⟨cur.1 + v.x, cur.2 + v.y⟩
    rw [ho.add, ho.add, ho.comm v.x, ho.comm v.y]

theorem draw_open (s : Svg.Spec ν) (h : s.isOpen = true) (to : Svg.Pt ν)
    (edge : Call (Svg.Pt ν) Unit) (prev : Svg.Prev ν) :
    s.draw to edge prev = ({ s with cur := to, prev := prev }, [edge]) := by
  simp [Svg.Spec.draw, h]

theorem sp_smooth_cubic {N : Num ν} (ho : Ops N) {st : St ν} {s : Svg.Spec ν} (hr : Rel st s) :
    sp (smoothCtrl N st.cur st.prevCubic) = s.smoothCubic := by
  unfold Svg.Spec.smoothCubic
  rw [hr.pc, hr.cur]
  cases s.prev <;> simp [pcOf, smoothCtrl, sp, ho.add, ho.sub] <;> rfl

theorem sp_smooth_quad {N : Num ν} (ho : Ops N) {st : St ν} {s : Svg.Spec ν} (hr : Rel st s) :
    sp (smoothCtrl N st.cur st.prevQuad) = s.smoothQuad := by
  unfold Svg.Spec.smoothQuad
  rw [hr.pq, hr.cur]
  cases s.prev <;> simp [pqOf, smoothCtrl, sp, ho.add, ho.sub] <;> rfl

/-- what an edge command must satisfy: whenever the parser's branch succeeds, the reader
succeeds at the same place with a non-arc command whose reference step emits the same calls and
leads to a related state -/
def EdgeSim (g : Svg.Geo ν (RawArc ν)) (cmd : Char) (st : St ν) (s : Svg.Spec ν)
    (m : PM (EdgeOut ν)) (r : PM (SCmd ν)) : Prop :=
  ∀ x o x', m x = .ok o x' →
    ∃ c, r x = .ok c x' ∧ c.isArc = false ∧ o.1.map eraseCall = (s.step g c).2 ∧
      Rel (o.2.after cmd) (s.step g c).1

theorem simL {N : Num ν} (ho : Ops N) (g : Svg.Geo ν (RawArc ν)) (na : Nat) (rel : Bool)
    (cmd : Char) (hq : isQuadCmd cmd = false) (hc : isCubicCmd cmd = false) {st : St ν}
    {s : Svg.Spec ν} (hr : Rel st s) (hop : s.isOpen = true) :
    EdgeSim g cmd st s (cmdL N na rel st) (rdL N na rel) := by
  intro x o x' h
  unfold cmdL at h
  obtain ⟨e, s1, he, h⟩ := bind_ok h
  obtain ⟨v, hv, hev⟩ := parseEndpoint_raw N na rel st.cur x e s1 he
  have hp := pure_ok h
  refine ⟨if rel then .relLineTo v else .lineTo v, ?_, by cases rel <;> rfl, ?_, ?_⟩
  · unfold rdL; rw [bind_of_ok hv, hp.2]; rfl
  · have : s.step g (if rel then .relLineTo v else .lineTo v) =
        s.draw (tgt rel s.cur v) (.line (tgt rel s.cur v) ()) .other := by cases rel <;> rfl
    rw [this, draw_open s hop, hp.1, hr.cur, ← sp_rel ho, ← hev]; rfl
  · have : s.step g (if rel then .relLineTo v else .lineTo v) =
        s.draw (tgt rel s.cur v) (.line (tgt rel s.cur v) ()) .other := by cases rel <;> rfl
    rw [this, draw_open s hop, hp.1, hr.cur, ← sp_rel ho, ← hev]
    constructor <;> simp [St.after, hq, hc, pcOf, pqOf, hr.start, hr.isOpen, hr.ns]

theorem sp_relH {N : Num ν} (ho : Ops N) (rel : Bool) (cur : Parser.Pt ν) (x : ν) :
    sp (relX N rel cur x, cur.2) = if rel then ⟨(sp cur).x + x, (sp cur).y⟩ else ⟨x, (sp cur).y⟩ := by
  cases rel
  · rfl
  · show (⟨N.add x cur.1, cur.2⟩ : Svg.Pt ν) = ⟨cur.1 + x, cur.2⟩
    rw [ho.add, ho.comm]

theorem sp_relV {N : Num ν} (ho : Ops N) (rel : Bool) (cur : Parser.Pt ν) (y : ν) :
    sp (cur.1, relY N rel cur y) = if rel then ⟨(sp cur).x, (sp cur).y + y⟩ else ⟨(sp cur).x, y⟩ := by
  cases rel
  · rfl
  · show (⟨cur.1, N.add y cur.2⟩ : Svg.Pt ν) = ⟨cur.1, cur.2 + y⟩
    rw [ho.add, ho.comm]

theorem simH {N : Num ν} (ho : Ops N) (g : Svg.Geo ν (RawArc ν)) (na : Nat) (rel : Bool)
    (cmd : Char) (hq : isQuadCmd cmd = false) (hc : isCubicCmd cmd = false) {st : St ν}
    {s : Svg.Spec ν} (hr : Rel st s) (hop : s.isOpen = true) :
    EdgeSim g cmd st s (cmdH N na rel st) (rdH N na rel) := by
  intro x o x' h
  unfold cmdH at h
  obtain ⟨v, s1, hv, h⟩ := bind_ok h
  obtain ⟨a, s2, ha, h⟩ := bind_ok h
  have hp := pure_ok h
  have this : s.step g (if rel then .relHLineTo v else .hLineTo v) =
      s.draw (if rel then ⟨s.cur.x + v, s.cur.y⟩ else ⟨v, s.cur.y⟩)
        (.line (if rel then ⟨s.cur.x + v, s.cur.y⟩ else ⟨v, s.cur.y⟩) ()) .other := by
    cases rel <;> rfl
  refine ⟨if rel then .relHLineTo v else .hLineTo v, ?_, by cases rel <;> rfl, ?_, ?_⟩
  · unfold rdH; rw [bind_of_ok hv, bind_of_ok ha, hp.2]; rfl
  · rw [this, draw_open s hop, hp.1, hr.cur, ← sp_relH ho]; rfl
  · rw [this, draw_open s hop, hp.1, hr.cur, ← sp_relH ho]
    constructor <;> simp [St.after, hq, hc, pcOf, pqOf, hr.start, hr.isOpen, hr.ns]

theorem simV {N : Num ν} (ho : Ops N) (g : Svg.Geo ν (RawArc ν)) (na : Nat) (rel : Bool)
    (cmd : Char) (hq : isQuadCmd cmd = false) (hc : isCubicCmd cmd = false) {st : St ν}
    {s : Svg.Spec ν} (hr : Rel st s) (hop : s.isOpen = true) :
    EdgeSim g cmd st s (cmdV N na rel st) (rdV N na rel) := by
  intro x o x' h
  unfold cmdV at h
  obtain ⟨v, s1, hv, h⟩ := bind_ok h
  obtain ⟨a, s2, ha, h⟩ := bind_ok h
  have hp := pure_ok h
  have this : s.step g (if rel then .relVLineTo v else .vLineTo v) =
      s.draw (if rel then ⟨s.cur.x, s.cur.y + v⟩ else ⟨s.cur.x, v⟩)
        (.line (if rel then ⟨s.cur.x, s.cur.y + v⟩ else ⟨s.cur.x, v⟩) ()) .other := by
    cases rel <;> rfl
  refine ⟨if rel then .relVLineTo v else .vLineTo v, ?_, by cases rel <;> rfl, ?_, ?_⟩
  · unfold rdV; rw [bind_of_ok hv, bind_of_ok ha, hp.2]; rfl
  · rw [this, draw_open s hop, hp.1, hr.cur, ← sp_relV ho]; rfl
  · rw [this, draw_open s hop, hp.1, hr.cur, ← sp_relV ho]
    constructor <;> simp [St.after, hq, hc, pcOf, pqOf, hr.start, hr.isOpen, hr.ns]

theorem simQ {N : Num ν} (ho : Ops N) (g : Svg.Geo ν (RawArc ν)) (na : Nat) (rel : Bool)
    (cmd : Char) (hq : isQuadCmd cmd = true) (hc : isCubicCmd cmd = false) {st : St ν}
    {s : Svg.Spec ν} (hr : Rel st s) (hop : s.isOpen = true) :
    EdgeSim g cmd st s (cmdQ N na rel st) (rdQ N na rel) := by
  intro x o x' h
  unfold cmdQ at h
  obtain ⟨c, s1, hc1, h⟩ := bind_ok h
  obtain ⟨e, s2, he, h⟩ := bind_ok h
  obtain ⟨w, hw, hcw⟩ := parsePoint_raw N rel st.cur x c s1 hc1
  obtain ⟨v, hv, hev⟩ := parseEndpoint_raw N na rel st.cur s1 e s2 he
  have hp := pure_ok h
  have this : s.step g (if rel then .relQuadTo w v else .quadTo w v) =
      s.draw (tgt rel s.cur v) (.quad (tgt rel s.cur w) (tgt rel s.cur v) ())
        (.quad (tgt rel s.cur w)) := by cases rel <;> rfl
  refine ⟨if rel then .relQuadTo w v else .quadTo w v, ?_, by cases rel <;> rfl, ?_, ?_⟩
  · unfold rdQ; rw [bind_of_ok hw, bind_of_ok hv, hp.2]; rfl
  · rw [this, draw_open s hop, hp.1, hr.cur, ← sp_rel ho, ← sp_rel ho, ← hev, ← hcw]; rfl
  · rw [this, draw_open s hop, hp.1, hr.cur, ← sp_rel ho, ← sp_rel ho, ← hev, ← hcw]
    constructor <;> simp [St.after, hq, hc, pcOf, pqOf, hr.start, hr.isOpen, hr.ns, sp]

theorem simT {N : Num ν} (ho : Ops N) (g : Svg.Geo ν (RawArc ν)) (na : Nat) (rel : Bool)
    (cmd : Char) (hq : isQuadCmd cmd = true) (hc : isCubicCmd cmd = false) {st : St ν}
    {s : Svg.Spec ν} (hr : Rel st s) (hop : s.isOpen = true) :
    EdgeSim g cmd st s (cmdT N na rel st) (rdT N na rel) := by
  intro x o x' h
  unfold cmdT at h
  obtain ⟨e, s2, he, h⟩ := bind_ok h
  obtain ⟨v, hv, hev⟩ := parseEndpoint_raw N na rel st.cur x e s2 he
  have hp := pure_ok h
  have this : s.step g (if rel then .smoothRelQuadTo v else .smoothQuadTo v) =
      s.draw (tgt rel s.cur v) (.quad s.smoothQuad (tgt rel s.cur v) ())
        (.quad s.smoothQuad) := by cases rel <;> rfl
  refine ⟨if rel then .smoothRelQuadTo v else .smoothQuadTo v, ?_, by cases rel <;> rfl, ?_, ?_⟩
  · unfold rdT; rw [bind_of_ok hv, hp.2]; rfl
  · rw [this, draw_open s hop, hp.1, ← sp_smooth_quad ho hr, hr.cur, ← sp_rel ho, ← hev]; rfl
  · rw [this, draw_open s hop, hp.1, ← sp_smooth_quad ho hr, hr.cur, ← sp_rel ho, ← hev]
    constructor <;> simp [St.after, hq, hc, pcOf, pqOf, hr.start, hr.isOpen, hr.ns, sp]

theorem simC {N : Num ν} (ho : Ops N) (g : Svg.Geo ν (RawArc ν)) (na : Nat) (rel : Bool)
    (cmd : Char) (hq : isQuadCmd cmd = false) (hc : isCubicCmd cmd = true) {st : St ν}
    {s : Svg.Spec ν} (hr : Rel st s) (hop : s.isOpen = true) :
    EdgeSim g cmd st s (cmdC N na rel st) (rdC N na rel) := by
  intro x o x' h
  unfold cmdC at h
  obtain ⟨c1, s1, hc1, h⟩ := bind_ok h
  obtain ⟨c2, s2, hc2, h⟩ := bind_ok h
  obtain ⟨e, s3, he, h⟩ := bind_ok h
  obtain ⟨w1, hw1, hcw1⟩ := parsePoint_raw N rel st.cur x c1 s1 hc1
  obtain ⟨w2, hw2, hcw2⟩ := parsePoint_raw N rel st.cur s1 c2 s2 hc2
  obtain ⟨v, hv, hev⟩ := parseEndpoint_raw N na rel st.cur s2 e s3 he
  have hp := pure_ok h
  have this : s.step g (if rel then .relCubicTo w1 w2 v else .cubicTo w1 w2 v) =
      s.draw (tgt rel s.cur v) (.cubic (tgt rel s.cur w1) (tgt rel s.cur w2) (tgt rel s.cur v) ())
        (.cubic (tgt rel s.cur w2)) := by cases rel <;> rfl
  refine ⟨if rel then .relCubicTo w1 w2 v else .cubicTo w1 w2 v, ?_, by cases rel <;> rfl, ?_, ?_⟩
  · unfold rdC; rw [bind_of_ok hw1, bind_of_ok hw2, bind_of_ok hv, hp.2]; rfl
  · rw [this, draw_open s hop, hp.1, hr.cur, ← sp_rel ho, ← sp_rel ho, ← sp_rel ho, ← hev, ← hcw1,
      ← hcw2]; rfl
  · rw [this, draw_open s hop, hp.1, hr.cur, ← sp_rel ho, ← sp_rel ho, ← sp_rel ho, ← hev, ← hcw1,
      ← hcw2]
    constructor <;> simp [St.after, hq, hc, pcOf, pqOf, hr.start, hr.isOpen, hr.ns, sp]

theorem simS {N : Num ν} (ho : Ops N) (g : Svg.Geo ν (RawArc ν)) (na : Nat) (rel : Bool)
    (cmd : Char) (hq : isQuadCmd cmd = false) (hc : isCubicCmd cmd = true) {st : St ν}
    {s : Svg.Spec ν} (hr : Rel st s) (hop : s.isOpen = true) :
    EdgeSim g cmd st s (cmdS N na rel st) (rdS N na rel) := by
  intro x o x' h
  unfold cmdS at h
  obtain ⟨c2, s2, hc2, h⟩ := bind_ok h
  obtain ⟨e, s3, he, h⟩ := bind_ok h
  obtain ⟨w2, hw2, hcw2⟩ := parsePoint_raw N rel st.cur x c2 s2 hc2
  obtain ⟨v, hv, hev⟩ := parseEndpoint_raw N na rel st.cur s2 e s3 he
  have hp := pure_ok h
  have this : s.step g (if rel then .smoothRelCubicTo w2 v else .smoothCubicTo w2 v) =
      s.draw (tgt rel s.cur v) (.cubic s.smoothCubic (tgt rel s.cur w2) (tgt rel s.cur v) ())
        (.cubic (tgt rel s.cur w2)) := by cases rel <;> rfl
  refine ⟨if rel then .smoothRelCubicTo w2 v else .smoothCubicTo w2 v, ?_, by cases rel <;> rfl,
    ?_, ?_⟩
  · unfold rdS; rw [bind_of_ok hw2, bind_of_ok hv, hp.2]; rfl
  · rw [this, draw_open s hop, hp.1, ← sp_smooth_cubic ho hr, hr.cur, ← sp_rel ho, ← sp_rel ho,
      ← hev, ← hcw2]; rfl
  · rw [this, draw_open s hop, hp.1, ← sp_smooth_cubic ho hr, hr.cur, ← sp_rel ho, ← sp_rel ho,
      ← hev, ← hcw2]
    constructor <;> simp [St.after, hq, hc, pcOf, pqOf, hr.start, hr.isOpen, hr.ns, sp]

/-! ### move-to, arcs (operands only), dispatch -/

theorem simM {N : Num ν} (ho : Ops N) (g : Svg.Geo ν (RawArc ν)) (na : Nat) (rel : Bool)
    (cmd : Char) (hq : isQuadCmd cmd = false) (hc : isCubicCmd cmd = false) {st : St ν}
    {s : Svg.Spec ν} (hr : Rel st s) (x : Src) (e : Parser.Pt ν × List ν) (x' : Src)
    (h : parseEndpoint N na rel st.cur x = .ok e x') :
    ∃ c, rdM N na rel x = .ok c x' ∧ c.isArc = false ∧
      (if st.needEnd then [Call.end_ false] else []) ++ [.begin (sp e.1) ()] = (s.step g c).2 ∧
      Rel ({ st with cur := e.1, attrs := e.2, first := e.1, needEnd := true,
                     needStart := false }.after cmd) (s.step g c).1 := by
  obtain ⟨v, hv, hev⟩ := parseEndpoint_raw N na rel st.cur x e x' h
  have this : s.step g (if rel then .relMoveTo v else .moveTo v) = s.moveTo (tgt rel s.cur v) := by
    cases rel <;> rfl
  refine ⟨if rel then .relMoveTo v else .moveTo v, ?_, by cases rel <;> rfl, ?_, ?_⟩
  · unfold rdM; rw [bind_of_ok hv]; rfl
  · rw [this, hr.cur, ← sp_rel ho, ← hev]; simp [Svg.Spec.moveTo, hr.isOpen]
  · rw [this, hr.cur, ← sp_rel ho, ← hev]
    constructor <;> simp [St.after, hq, hc, pcOf, pqOf, Svg.Spec.moveTo]

theorem cmdAArgs_raw (N : Num ν) (na : Nat) (rel : Bool) (st : St ν) (x : Src) (a : ArcArgs ν)
    (x' : Src) (h : cmdAArgs N na rel st x = .ok a x') :
    ∃ c, rdA N na rel x = .ok c x' ∧ c.isArc = true := by
  unfold cmdAArgs at h
  obtain ⟨rx, s1, h1, h⟩ := bind_ok h
  obtain ⟨ry, s2, h2, h⟩ := bind_ok h
  obtain ⟨rot, s3, h3, h⟩ := bind_ok h
  obtain ⟨lg, s4, h4, h⟩ := bind_ok h
  obtain ⟨sw, s5, h5, h⟩ := bind_ok h
  obtain ⟨e, s6, h6, h⟩ := bind_ok h
  obtain ⟨v, hv, _⟩ := parseEndpoint_raw N na rel st.cur s5 e s6 h6
  have hp := pure_ok h
  refine ⟨if rel then .relArcTo (rx, ry, rot, lg, sw) v else .arcTo (rx, ry, rot, lg, sw) v, ?_,
    by cases rel <;> rfl⟩
  unfold rdA
  rw [bind_of_ok h1, bind_of_ok h2, bind_of_ok h3, bind_of_ok h4, bind_of_ok h5, bind_of_ok hv,
    hp.2]; rfl

theorem readEdge_none (N : Num ν) (na : Nat) (cmd : Char) (st : St ν)
    (h : edgeCmd N na cmd st = none) : readEdge N na cmd = none := by
  unfold edgeCmd at h
  unfold readEdge
  split at h
  · cases h
  rename_i n1; rw [if_neg n1]
  split at h
  · cases h
  rename_i n2; rw [if_neg n2]
  split at h
  · cases h
  rename_i n3; rw [if_neg n3]
  split at h
  · cases h
  rename_i n4; rw [if_neg n4]
  split at h
  · cases h
  rename_i n5; rw [if_neg n5]
  split at h
  · cases h
  rename_i n6; rw [if_neg n6]
  split at h
  · cases h
  rename_i n7; rw [if_neg n7]

theorem cmdAt_of {N : Num ν} {na : Nat} {st : St ν} {x x' : Src} {r : PM (SCmd ν)} {c : SCmd ν}
    (hr : readCmd N na (cmdOf st x) = r) (hc : r (afterCmd x) = .ok c x') :
    cmdAt N na st x = c := by
  unfold cmdAt; rw [hr, hc]

theorem cmd_cases {cmd a b : Char} (h : (cmd == a || cmd == b) = true) : cmd = a ∨ cmd = b := by
  simpa using h

theorem edgeCmd_sim {N : Num ν} (ho : Ops N) (g : Svg.Geo ν (RawArc ν)) (na : Nat) (cmd : Char)
    {st : St ν} {s : Svg.Spec ν} (hr : Rel st s) (hop : s.isOpen = true) (m : PM (EdgeOut ν))
    (hm : edgeCmd N na cmd st = some m) :
    ∃ r, readEdge N na cmd = some r ∧ EdgeSim g cmd st s m r := by
  unfold edgeCmd at hm
  unfold readEdge
  split at hm
  · rename_i h1; cases hm; rw [if_pos h1]
    exact ⟨_, rfl, simL ho g na _ cmd (by rcases cmd_cases h1 with rfl | rfl <;> decide)
      (by rcases cmd_cases h1 with rfl | rfl <;> decide) hr hop⟩
  rename_i n1; rw [if_neg n1]
  split at hm
  · rename_i h1; cases hm; rw [if_pos h1]
    exact ⟨_, rfl, simH ho g na _ cmd (by rcases cmd_cases h1 with rfl | rfl <;> decide)
      (by rcases cmd_cases h1 with rfl | rfl <;> decide) hr hop⟩
  rename_i n2; rw [if_neg n2]
  split at hm
  · rename_i h1; cases hm; rw [if_pos h1]
    exact ⟨_, rfl, simV ho g na _ cmd (by rcases cmd_cases h1 with rfl | rfl <;> decide)
      (by rcases cmd_cases h1 with rfl | rfl <;> decide) hr hop⟩
  rename_i n3; rw [if_neg n3]
  split at hm
  · rename_i h1; cases hm; rw [if_pos h1]
    exact ⟨_, rfl, simQ ho g na _ cmd (by rcases cmd_cases h1 with rfl | rfl <;> decide)
      (by rcases cmd_cases h1 with rfl | rfl <;> decide) hr hop⟩
  rename_i n4; rw [if_neg n4]
  split at hm
  · rename_i h1; cases hm; rw [if_pos h1]
    exact ⟨_, rfl, simT ho g na _ cmd (by rcases cmd_cases h1 with rfl | rfl <;> decide)
      (by rcases cmd_cases h1 with rfl | rfl <;> decide) hr hop⟩
  rename_i n5; rw [if_neg n5]
  split at hm
  · rename_i h1; cases hm; rw [if_pos h1]
    exact ⟨_, rfl, simC ho g na _ cmd (by rcases cmd_cases h1 with rfl | rfl <;> decide)
      (by rcases cmd_cases h1 with rfl | rfl <;> decide) hr hop⟩
  rename_i n6; rw [if_neg n6]
  split at hm
  · rename_i h1; cases hm; rw [if_pos h1]
    exact ⟨_, rfl, simS ho g na _ cmd (by rcases cmd_cases h1 with rfl | rfl <;> decide)
      (by rcases cmd_cases h1 with rfl | rfl <;> decide) hr hop⟩
  · cases hm

/-! ### one iteration, whole parses -/

theorem needEnd_of {st : St ν} {s : Svg.Spec ν} (hr : Rel st s) (hns : st.needStart = false) :
    st.needEnd = true := by
  have := hr.ns; rw [hns] at this; cases h : st.needEnd <;> simp [h] at this ⊢

/-- the calls of an emission list, attributes erased -/
def eraseEm (em : List (Emit ν)) : List (Call (Svg.Pt ν) Unit) := em.map (fun e => eraseCall e.2)

theorem eraseEm_emitAt (x : Src) (l : List (PCall ν)) : eraseEm (emitAt x l) = l.map eraseCall := by
  simp [eraseEm, emitAt, List.map_map, Function.comp_def]

theorem eraseEm_append (a b : List (Emit ν)) : eraseEm (a ++ b) = eraseEm a ++ eraseEm b := by
  simp [eraseEm]

theorem eraseEm_closing (b : Bool) (x : Src) :
    eraseEm (closing b x : List (Emit ν)) = if b then [.end_ false] else [] := by
  cases b <;> simp [closing, eraseEm, emitAt, eraseCall]

/-- what the reference semantics adds at the end of the data -/
def specEnd (s : Svg.Spec ν) : List (Call (Svg.Pt ν) Unit) := if s.isOpen then [.end_ false] else []

def StepSim (N : Num ν) (g : Svg.Geo ν (RawArc ν)) (na : Nat) (st : St ν) (s : Svg.Spec ν)
    (x : Src) : StepOut ν → Prop
  | .cont st' _ em =>
    (cmdAt N na st x).isArc = false →
      eraseEm em = (s.step g (cmdAt N na st x)).2 ∧ Rel st' (s.step g (cmdAt N na st x)).1
  | .fail _ ne x' em => eraseEm (em ++ closing ne x') = specEnd s
  | .panic _ _ => True

theorem step_sim {N : Num ν} (ho : Ops N) (g : Svg.Geo ν (RawArc ν)) (na : Nat) {st : St ν}
    {s : Svg.Spec ν} (hr : Rel st s) (x : Src) : StepSim N g na st s x (step N na st x) := by
  have hclose : ∀ y : Src, eraseEm ([] ++ closing st.needEnd y : List (Emit ν)) = specEnd s := by
    intro y; rw [List.nil_append, eraseEm_closing, specEnd, hr.isOpen]
  unfold step
  split
  · exact hclose _
  rename_i hguard
  unfold dispatchCmd
  split
  · -- an edge command
    rename_i m hm
    have hd := edgeCmd_drawing N na _ st m hm
    have hns : st.needStart = false := by
      cases h : st.needStart
      · rfl
      · exact absurd (by simp [h, hd]) hguard
    have hop : s.isOpen = true := by rw [hr.isOpen]; exact needEnd_of hr hns
    obtain ⟨r, hre, hsim⟩ := edgeCmd_sim ho g na _ hr hop m hm
    unfold runEdge
    split
    · rename_i o x' heq
      obtain ⟨c, hc, _, hcalls, hrel⟩ := hsim _ _ _ heq
      have hcmd : cmdAt N na st x = c := cmdAt_of (by unfold readCmd; rw [hre]) hc
      intro _
      rw [hcmd, eraseEm_emitAt]
      exact ⟨hcalls, hrel⟩
    · exact hclose _
  rename_i hnone
  have hrn := readEdge_none N na _ st hnone
  split
  · -- arc
    rename_i ha
    unfold runArc
    split
    · rename_i a x' heq
      obtain ⟨c, hc, hisarc⟩ := cmdAArgs_raw N na _ st _ a x' heq
      have hcmd : cmdAt N na st x = c :=
        cmdAt_of (by unfold readCmd; rw [hrn]; dsimp only; rw [if_pos ha]) hc
      unfold arcEmit
      split
      · intro h; rw [hcmd, hisarc] at h; cases h
      · split
        · trivial
        · split
          · trivial
          · intro h; rw [hcmd, hisarc] at h; cases h
    · exact hclose _
  rename_i hna
  split
  · -- move-to
    rename_i hmv
    have hq : isQuadCmd (cmdOf st x) = false := by rcases cmd_cases hmv with h | h <;> (rw [h]; decide)
    have hc : isCubicCmd (cmdOf st x) = false := by
      rcases cmd_cases hmv with h | h <;> (rw [h]; decide)
    unfold runMove
    split
    · rename_i e x' heq
      obtain ⟨c, hcr, _, hcalls, hrel⟩ := simM ho g na _ _ hq hc hr _ e x' heq
      have hcmd : cmdAt N na st x = c :=
        cmdAt_of (by unfold readCmd; rw [hrn]; dsimp only; rw [if_neg hna, if_pos hmv]) hcr
      intro _
      rw [hcmd, ← hcalls, eraseEm_append, eraseEm_emitAt]
      refine ⟨?_, hrel⟩
      cases st.needEnd <;> simp [eraseEm, emitAt, eraseCall]
    · simp only [StepSim]
      rw [eraseEm_append, eraseEm_closing, specEnd, hr.isOpen]
      cases st.needEnd <;> simp [eraseEm, emitAt, eraseCall]
  rename_i hnm
  split
  · -- close
    rename_i hz
    have hd : isDrawingCmd (cmdOf st x) = true := by
      rcases cmd_cases hz with h | h <;> (rw [h]; decide)
    have hq : isQuadCmd (cmdOf st x) = false := by rcases cmd_cases hz with h | h <;> (rw [h]; decide)
    have hc : isCubicCmd (cmdOf st x) = false := by rcases cmd_cases hz with h | h <;> (rw [h]; decide)
    have hns : st.needStart = false := by
      cases h : st.needStart
      · rfl
      · exact absurd (by simp [h, hd]) hguard
    have hne : st.needEnd = true := needEnd_of hr hns
    have hop : s.isOpen = true := by rw [hr.isOpen, hne]
    have hcmd : cmdAt N na st x = .close :=
      cmdAt_of (x' := afterCmd x) (r := (pure Cmd.close : PM (SCmd ν)))
        (by unfold readCmd; rw [hrn]; dsimp only; rw [if_neg hna, if_neg hnm])
        (show (pure Cmd.close : PM (SCmd ν)) (afterCmd x) = .ok .close (afterCmd x) from rfl)
    unfold runClose
    intro _
    rw [hcmd, eraseEm_emitAt]
    refine ⟨by simp [Svg.Spec.step, Svg.Spec.close, hop, eraseCall], ?_⟩
    constructor <;>
      simp [Svg.Spec.step, Svg.Spec.close, hop, St.after, hq, hc, pcOf, pqOf, hr.start]
  · exact hclose _

theorem loopCmds_succ (N : Num ν) (na : Nat) (stop : Option Char) (fuel : Nat) (st : St ν)
    (x : Src) :
    loopCmds N na stop (fuel + 1) st x =
      if x.fin then []
      else if stop == some x.cur then []
      else
        match step N na st x with
        | .cont st' x' _ => cmdAt N na st x :: loopCmds N na stop fuel st' x'.skipWs
        | .fail .. => []
        | .panic .. => [] := rfl

/-- whole parses: if the parse neither panics nor runs out of fuel and reads no arc command, the
calls it sends (attributes erased; the clean-up `end(false)` included) are those of the SVG
reference semantics on the command list read, ended if a sub-path is open -/
theorem loop_sim {N : Num ν} (ho : Ops N) (g : Svg.Geo ν (RawArc ν)) (na : Nat)
    (stop : Option Char) (fuel : Nat) :
    ∀ (st : St ν) (x : Src) (s : Svg.Spec ν), Rel st s →
      (∀ c ∈ loopCmds N na stop fuel st x, c.isArc = false) →
      (loop N na stop fuel st x).outcome ≠ .panic →
      (loop N na stop fuel st x).outcome ≠ .stuck →
      eraseEm (loop N na stop fuel st x).calls =
        (Svg.Spec.run g s (loopCmds N na stop fuel st x)).2 ++
          specEnd (Svg.Spec.run g s (loopCmds N na stop fuel st x)).1 := by
  induction fuel with
  | zero => intro st x s _ _ _ h; exact absurd rfl h
  | succ fuel ih =>
    intro st x s hr hno hp hs
    rw [loop_succ] at hp hs ⊢
    rw [loopCmds_succ] at hno ⊢
    by_cases hf : x.fin = true
    · simp only [hf, if_true]
      rw [eraseEm_closing]; simp [Svg.Spec.run, specEnd, hr.isOpen]
    by_cases hstop : (stop == some x.cur) = true
    · simp only [hf, hstop, if_true, if_false, Bool.false_eq_true]
      rw [eraseEm_closing]; simp [Svg.Spec.run, specEnd, hr.isOpen]
    simp only [hf, hstop, if_false, Bool.false_eq_true] at hp hs hno ⊢
    have hsim := step_sim ho g na hr x
    cases hstep : step N na st x with
    | cont st' x' em =>
      rw [hstep] at hsim hp hs hno
      simp only at hp hs hno ⊢
      obtain ⟨hcalls, hrel⟩ := hsim (hno _ (List.mem_cons_self ..))
      have := ih st' x'.skipWs _ hrel (fun c hc => hno c (List.mem_cons_of_mem _ hc)) hp hs
      simp only [Result.cons, Svg.Spec.run]
      rw [eraseEm_append, this, hcalls, List.append_assoc]
    | fail e ne x' em =>
      rw [hstep] at hsim
      simp only [Svg.Spec.run]
      simpa [StepSim] using hsim
    | panic x' em =>
      rw [hstep] at hp
      exact absurd rfl hp

theorem rel_init (N : Num ν) (zero : ν) (hz : N.zero = zero) :
    Rel (St.init N) (Svg.Spec.init zero) := by
  constructor <;> simp [St.init, Svg.Spec.init, sp, hz, pcOf, pqOf]

end sim
end Lyon.Parser
