/-
  C02 growth 4 (`Props/C02g.lean`), part 2: one level of `flush_side`'s doubling loop as an ear
  sequence.  `q 0 … q (len−1)` is a chain on side `c`, strictly sorted and strictly convex
  (`hconv`: every index triple `a < b < d` turns to side `c`).  At level `s` the live vertices are
  the multiples of `s` below `len`; `polyAt q c len s` is the region between that chain and its
  chord.  The level cuts the ears at the odd multiples (`mains_tiles`) and, if their number is odd,
  the last vertex across the chord (`tail_ear_tiles`), leaving `polyAt q c len (2 s)`.
-/
import LyonVerif.Lemmas.MonotoneTileAdvSetGeom

set_option linter.unusedSectionVars false
set_option linter.unusedVariables false
set_option linter.unusedSimpArgs false

namespace Lyon.C02f
open Lyon Lyon.Mono Lyon.C02 Lyon.C02c

section Geometry
variable {K : Type} [Field K] [LinearOrder K] [IsStrictOrderedRing K]

/-- the chain vertices at the positions `j · s`, `j ∈ l` -/
def pts (q : Nat → P K) (s : Nat) (l : List Nat) : List (P K) := l.map (fun j => q (j * s))

/-- region between the level-`s` chain and its chord -/
def polyAt (q : Nat → P K) (c : Bool) (len s : Nat) : P K → Prop :=
  InPoly c (pts q s (List.range ((len - 1) / s + 1))) [q 0, q ((len - 1) / s * s)]

variable (q : Nat → P K) (c : Bool) (len : Nat)

/-- hypotheses on the chain: strictly sorted, strictly convex to side `c` -/
structure ConvexChain : Prop where
  sort : ∀ a b, a < b → b < len → After (q b) (q a)
  conv : ∀ a b d, a < b → b < d → d < len → 0 < sg c * wind (q a) (q b) (q d)

variable {q c len}

theorem ConvexChain.sorted_pts (h : ConvexChain q c len) (s : Nat) (hs : 1 ≤ s) (l : List Nat)
    (hl : l.Pairwise (· < ·)) (hb : ∀ j ∈ l, j * s < len) : SortedP (pts q s l) := by
  unfold SortedP pts
  rw [List.pairwise_map]
  refine hl.imp_of_mem ?_
  intro a b ha hb' hab
  exact h.sort _ _ (Nat.mul_lt_mul_of_pos_right hab (by omega)) (hb b hb')

/-- every chain vertex between the chord's ends lies weakly (strictly, if it is not an end) on side
`c` of the chord `q 0 → q t` -/
theorem ConvexChain.chord_side (h : ConvexChain q c len) {p t : Nat} (hp : p ≤ t) (ht : t < len) :
    0 ≤ sg (!c) * wind (q 0) (q t) (q p) ∧ (0 < p → p < t → 0 < sg (!c) * wind (q 0) (q t) (q p)) := by
  have e : sg (!c) * wind (q 0) (q t) (q p) = sg c * wind (q 0) (q p) (q t) := by
    rw [sg_not, wind_swap_bc]; ring
  rw [e]
  by_cases h0 : p = 0
  · subst h0; rw [wind_self_mid]; simp
  by_cases h1 : p = t
  · subst h1; rw [wind_self_right]; simp
  · have := h.conv 0 p t (by omega) (by omega) ht
    exact ⟨this.le, fun _ _ => this⟩

/-- the chain after `n` ears of the level have been cut -/
def chainN (q : Nat → P K) (s m n : Nat) : List (P K) :=
  pts q (2 * s) (List.range (n + 1)) ++ pts q s (List.range' (2 * n + 1) (m - 2 * n))

/-- the ears of one level, as position triples -/
def triS (s i : Nat) : Nat × Nat × Nat := (i * 2 * s, i * 2 * s + s, i * 2 * s + s + s)

theorem chainN_zero (s m : Nat) : chainN q s m 0 = pts q s (List.range (m + 1)) := by
  simp only [chainN, pts, List.range_one, List.map_cons, List.map_nil, Nat.zero_mul, Nat.mul_zero, Nat.zero_add,
    Nat.sub_zero, List.singleton_append]
  rw [List.range_eq_range', List.range'_succ]
  simp

theorem chainN_step (s m n : Nat) (hn : 2 * n + 2 ≤ m) :
    chainN q s m n = pts q (2 * s) (List.range n) ++ q (n * 2 * s) :: q (n * 2 * s + s) :: q (n * 2 * s + s + s) ::
        pts q s (List.range' (2 * n + 3) (m - 2 * n - 2)) ∧
    chainN q s m (n + 1) = pts q (2 * s) (List.range n) ++ q (n * 2 * s) :: q (n * 2 * s + s + s) ::
        pts q s (List.range' (2 * n + 3) (m - 2 * n - 2)) := by
  have e1 : n * (2 * s) = n * 2 * s := by ring
  have e2 : (2 * n + 1) * s = n * 2 * s + s := by ring
  have e3 : (2 * n + 1 + 1) * s = n * 2 * s + s + s := by ring
  have e4 : (n + 1) * (2 * s) = n * 2 * s + s + s := by ring
  obtain ⟨r, hr⟩ : ∃ r, m - 2 * n = r + 1 + 1 := ⟨m - 2 * n - 2, by omega⟩
  have hr2 : m - 2 * n - 2 = r := by omega
  have hr3 : m - 2 * (n + 1) = r := by omega
  constructor
  · simp only [chainN, pts]
    rw [List.range_succ, List.map_append, List.append_assoc, hr2, hr, List.range'_succ, List.range'_succ]
    simp only [List.map_cons, List.map_nil, List.singleton_append, e1, e2, e3]
  · simp only [chainN, pts]
    rw [List.range_succ, List.map_append, List.range_succ, List.map_append, List.append_assoc, List.append_assoc,
      hr2, hr3, show 2 * (n + 1) + 1 = 2 * n + 3 by ring]
    simp only [List.map_cons, List.map_nil, List.singleton_append, List.cons_append, List.nil_append, e1, e4]

/-- **the ears at the odd multiples** -/
theorem mains_tiles (h : ConvexChain q c len) (s m : Nat) (hs : 1 ≤ s) (hm : m * s < len) (n : Nat)
    (hn : 2 * n ≤ m) :
    Tiles (InPoly c (pts q s (List.range (m + 1))) [q 0, q (m * s)])
      (fun t : Nat × Nat × Nat => InTriS c (q t.1) (q t.2.1) (q t.2.2))
      (fun t => InTriSC c (q t.1) (q t.2.1) (q t.2.2))
      ((List.range n).map (triS s)) (InPoly c (chainN q s m n) [q 0, q (m * s)]) := by
  induction n with
  | zero =>
    rw [chainN_zero]
    exact Tiles.refl _ _ _
  | succ n ih =>
    have ih' := ih (by omega)
    obtain ⟨e1, e2⟩ := chainN_step (q := q) s m n (by omega)
    rw [List.range_succ (n := n), List.map_append]
    refine ih'.trans ?_
    rw [e1, e2]
    have hms : ∀ j, j ≤ m → j * s < len := fun j hj => lt_of_le_of_lt (Nat.mul_le_mul_right s hj) hm
    have hx : n * 2 * s < n * 2 * s + s := by omega
    have hz : n * 2 * s + s + s ≤ m * s := by
      have : (2 * n + 2) * s ≤ m * s := Nat.mul_le_mul_right s (by omega)
      have e : (2 * n + 2) * s = n * 2 * s + s + s := by ring
      omega
    have hyx : After (q (n * 2 * s + s)) (q (n * 2 * s)) := h.sort _ _ (by omega) (by omega)
    have hzy : After (q (n * 2 * s + s + s)) (q (n * 2 * s + s)) := h.sort _ _ (by omega) (by omega)
    have hconv := h.conv (n * 2 * s) (n * 2 * s + s) (n * 2 * s + s + s) (by omega) (by omega) (by omega)
    have hA : SortedP (pts q (2 * s) (List.range n) ++ [q (n * 2 * s)]) := by
      have := h.sorted_pts (2 * s) (by omega) (List.range (n + 1)) (by
        rw [List.range_eq_range']; exact List.pairwise_lt_range') (by
        intro j hj
        have : j ≤ n := by have := List.mem_range.mp hj; omega
        have : j * (2 * s) ≤ n * (2 * s) := Nat.mul_le_mul_right _ this
        have e : n * (2 * s) = n * 2 * s := by ring
        omega)
      rw [List.range_succ] at this
      simpa [pts, Nat.mul_assoc] using this
    have hB : SortedP (q (n * 2 * s + s + s) :: pts q s (List.range' (2 * n + 3) (m - 2 * n - 2))) := by
      have := h.sorted_pts s hs (List.range' (2 * n + 2) (m - 2 * n - 2 + 1)) List.pairwise_lt_range' (by
        intro j hj
        have := List.mem_range'_1.mp hj
        exact hms j (by omega))
      rw [List.range'_succ] at this
      have e : (2 * n + 2) * s = n * 2 * s + s + s := by ring
      simpa [pts, e] using this
    have hxo : AfterEq (q (n * 2 * s)) (q 0) := by
      by_cases h0 : n * 2 * s = 0
      · rw [h0]; exact Or.inl rfl
      · exact Or.inr (h.sort _ _ (by omega) (by omega))
    have hzo : AfterEq (q (m * s)) (q (n * 2 * s + s + s)) := by
      by_cases h0 : n * 2 * s + s + s = m * s
      · rw [h0]; exact Or.inl rfl
      · exact Or.inr (h.sort _ _ (by omega) hm)
    have step := ear_tiles c (pts q (2 * s) (List.range n)) (pts q s (List.range' (2 * n + 3) (m - 2 * n - 2))) []
      hyx hzy hconv hA hB hxo hzo
      (h.chord_side (by omega) hm).1
      ((h.chord_side (p := n * 2 * s + s) (by omega) hm).2 (by omega) (by omega))
      (h.chord_side hz hm).1
    exact step.map (fun _ => triS s n) (fun _ _ _ => Iff.rfl) (fun _ _ _ g => g)

end Geometry

end Lyon.C02f
