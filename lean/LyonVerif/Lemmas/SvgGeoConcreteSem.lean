/-
  C15b, the semantics predicates and helper lemmas for `Props/C15b.lean`: the concrete geometry over
  ℝ (`realGeo`), what `arc_to` must do (`ArcToSem`) and the proof that it does (`arcTo_sem`), the
  centre-form arc (`arcOf`, `arcStart`), the witness state of the repaired finding
  C15-arc-zero-sweep-stale-position, the side condition on centre-form arcs in whole sequences
  (`CenterArcsOk`) and the laws `RunOk` of the concrete geometry (`runOk_real`).
-/
import LyonVerif.Lemmas.SvgGeoConcreteReal

set_option linter.unusedSectionVars false
set_option linter.unusedVariables false
set_option linter.unusedSimpArgs false

namespace Lyon.C15b
open Lyon Lyon.Path Lyon.Svg Lyon.ArcConv Lyon.C13

/-- the concrete geometry over ℝ (`Arc::cast::<f64>()` / `cast::<f32>()` are the identity there) -/
noncomputable def realGeo [Eps ℝ] : Geo ℝ (ArcArgs ℝ) := concreteGeo quadsOf
/-- … with the start point of every piece -/
noncomputable def realGeoQ [Eps ℝ] : GeoQ ℝ (ArcArgs ℝ) := concreteGeoQ quadsOf

/-- what the wrapped builder receives before the pieces of an `arc_to`: the implicit move-to at the
current position, or (inside a sub-path) the zero-length `line_to(arc_start = current_position)` -/
def arcToLead (s : St ℝ) : Calls ℝ :=
  if s.needMoveTo then endIfNeeded s ++ [.begin s.cur ()] else [.line s.cur ()]

/-- … of a centre-form `arc` whose ellipse point at the start angle is `start` -/
noncomputable def arcLead (s : St ℝ) (start : Pt ℝ) : Calls ℝ :=
  if s.needMoveTo then endIfNeeded s ++ [.begin start ()]
  else if nearStart start s.cur then [.line start ()] else []

/-- the semantics of `arc_to(radii, x_rotation, flags, to)` issued in state `s`, as a predicate on
the resulting state and calls -/
def ArcToSem [Eps ℝ] (s : St ℝ) (r : ArcArgs ℝ) (tgt : Pt ℝ) (out : St ℝ × Calls ℝ) : Prop :=
  (ArcConv.isStraightLine (svgArcOf r s.cur tgt) = true → out = lineTo s tgt)
  ∧ (ArcConv.isStraightLine (svgArcOf r s.cur tgt) = false →
      quadsOf (fromSvgArc (svgArcOf r s.cur tgt)) ≠ []
      ∧ Run (toP s.cur) (quadsOf (fromSvgArc (svgArcOf r s.cur tgt))) (toP tgt)
      ∧ out.2 = arcToLead s ++ quadCalls ((quadsOf (fromSvgArc (svgArcOf r s.cur tgt))).map pieceCall)
      ∧ out.1.first = (if s.needMoveTo then s.cur else s.first))
  ∧ out.1.cur = tgt
  ∧ out.1.needMoveTo = false
  ∧ ∀ p, lastPoint p out.2 = some tgt

theorem lineTo_target (s : St ℝ) (tgt : Pt ℝ) :
    (lineTo s tgt).1.cur = tgt ∧ (lineTo s tgt).1.needMoveTo = false
      ∧ ∀ p, lastPoint p (lineTo s tgt).2 = some tgt := by
  rw [lineTo_eq]
  unfold beginIfNeeded
  cases hn : s.needMoveTo <;> cases he : s.isEmpty <;>
    simp [moveTo, lastPoint, lastPoint_append, lastPoint_endIfNeeded_begin, hn]

theorem nearStart_self (p : Pt ℝ) : nearStart p p = true := by
  simp only [nearStart, sub_self, mul_zero, add_zero, decide_eq_true_eq, ofSci_eq]
  norm_num

theorem arcTo_sem [Eps ℝ] (heps : 2 / 10 ^ 6 ≤ (Eps.eps : ℝ)) (s : St ℝ) (r : ArcArgs ℝ)
    (tgt : Pt ℝ) : ArcToSem s r tgt (arcTo s tgt (realGeo.endpoint r s.cur tgt)) := by
  have heps0 : (0 : ℝ) ≤ Eps.eps := le_trans (by norm_num) heps
  unfold ArcToSem
  cases hs : ArcConv.isStraightLine (svgArcOf r s.cur tgt)
  · -- a true arc
    obtain ⟨hrx, hry, hne⟩ := nondegenerate_of_not_straight _ heps0 hs
    have hskip := not_approxEq_center_real _ hrx hry hne heps hs
    have harc := centerArc_of_svg_real _ hrx hry hne
    obtain ⟨e0, e1⟩ := svg_arc_endpoints_real _ hrx hry hne
    obtain ⟨_, _, ⟨_, hne0, hlt, _, _⟩, _⟩ := svg_arc_real heps0 _ hs
    obtain ⟨e, hrun, hend, _, hnil⟩ := quadsOf_run_real (fromSvgArc (svgArcOf r s.cur tgt))
    have he : e = toP tgt := by rw [hend (le_of_lt hlt), e1]; rfl
    rw [e0, he] at hrun
    have hout : realGeo.endpoint r s.cur tgt =
        .arc (.curve s.cur true ((quadsOf (fromSvgArc (svgArcOf r s.cur tgt))).map pieceCall)) := by
      show (svgArcOutQ quadsOf r s.cur tgt).erase = _
      have hf : toP s.cur = (svgArcOf r s.cur tgt).from_ := rfl
      have hc : ofP (svgArcOf r s.cur tgt).from_ = s.cur := rfl
      simp only [svgArcOutQ, hs, Bool.false_eq_true, if_false, arcOutQ, hf, harc, SvgArcOutQ.erase,
        ArcOutQ.erase, e0, hc, nearStart_self]
      rw [hc] at hskip
      simp only [hskip, Bool.false_eq_true, if_false, Scalar.zero, sc_zero, e0, hc, nearStart_self,
        ArcOutQ.erase]
    have hlast : lastTo s.cur ((quadsOf (fromSvgArc (svgArcOf r s.cur tgt))).map pieceCall) = tgt := by
      rw [lastTo_pieces]; exact congrArg ofP hrun.end_eq
    have hnn : quadsOf (fromSvgArc (svgArcOf r s.cur tgt)) ≠ [] := fun h => hne0 (hnil.mp h)
    refine ⟨fun h => Bool.noConfusion h, fun _ => ?_, ?_, ?_, ?_⟩
    · refine ⟨hnn, hrun, ?_, ?_⟩
      · rw [hout]; simp only [arcTo, arc_curve_eq, arcToLead]
        cases hn : s.needMoveTo <;> simp
      · rw [hout]; simp only [arcTo, arc_curve_eq]
        cases hn : s.needMoveTo <;> simp
    · rw [hout]; simp only [arcTo, arc_curve_eq]
      cases hn : s.needMoveTo <;> simp [hlast]
    · rw [hout]; simp only [arcTo, arc_curve_eq]
      cases hn : s.needMoveTo <;> simp
    · intro p
      rw [hout]; simp only [arcTo, arc_curve_eq]
      cases hn : s.needMoveTo
      · simp only [Bool.false_eq_true, if_false, if_true, lastPoint_append, lastPoint,
          lastPoint_quadCalls, hlast]
      · simp only [if_true]
        rw [lastPoint_append p (endIfNeeded s ++ ([Call.begin s.cur ()] : Calls ℝ)),
          lastPoint_endIfNeeded_begin, lastPoint_quadCalls, hlast]
  · -- straight line: `line_to(to)`
    have hout : realGeo.endpoint r s.cur tgt = .straight := by
      show (svgArcOutQ quadsOf r s.cur tgt).erase = _
      simp only [svgArcOutQ, hs, if_true, SvgArcOutQ.erase]
    obtain ⟨l1, l2, l3⟩ := lineTo_target s tgt
    rw [hout]
    exact ⟨fun _ => rfl, fun h => Bool.noConfusion h, l1, l2, l3⟩

/-- the arc `WithSvg::arc` builds in state `s` -/
noncomputable def arcOf (s : St ℝ) (r : ArcArgs ℝ) : Arc ℝ :=
  centerArc (toP r.center) (toP r.radii) r.sweepAngle r.xrot (toP s.cur)

/-- its start point `arc.from()`: the ellipse point at the start angle -/
noncomputable def arcStart (s : St ℝ) (r : ArcArgs ℝ) : Pt ℝ := ofP ((arcOf s r).sample 0)

/-- centre form, non-zero radii, current position on the ellipse: the arc starts exactly at the
current position -/
theorem arcStart_on_curve (s : St ℝ) (r : ArcArgs ℝ) (hx : r.radii.x ≠ 0) (hy : r.radii.y ≠ 0)
    (t : ℝ) (ht : toP s.cur = toP r.center + Arc.sampleEllipse (toP r.radii) r.xrot t) :
    arcStart s r = s.cur := by
  unfold arcStart arcOf
  rw [ht, start_on_ellipse_real _ _ _ _ _ hx hy, ← ht]; rfl

/-- lyon's `f32` value of `S::EPSILON` (`WithSvg` works on `f32` points) -/
@[instance_reducible] noncomputable def f32Eps : Eps ℝ := ⟨1 / 10 ^ 4⟩

/-- sub-path opened at (21/20, 0): 0.05 outside the unit circle about the origin -/
noncomputable def wS : St ℝ := (moveTo (St.init 0) ⟨21 / 20, 0⟩).1
/-- `arc(center (0,0), radii (1,1), sweep 0, x_rotation 0)` -/
noncomputable def wR : ArcArgs ℝ := ⟨⟨1, 1⟩, 0, false, false, ⟨0, 0⟩, 0⟩

theorem wArc_start : (arcOf wS wR).sample 0 = ⟨1, 0⟩ := by
  have hv : startVec (toP wR.center) wR.xrot (toP wS.cur) = ⟨21 / 20, 0⟩ := by
    apply P.ext' <;>
      simp [startVec, Arc.rotate, wS, wR, moveTo, toP, transc_sin_real, transc_cos_real, geom]
  have ha : startAngle (toP wR.center) (toP wR.radii) wR.xrot (toP wS.cur) = 0 := by
    unfold startAngle
    rw [hv, transc_atan2_real]
    simp only [wR, toP, div_one]
    have : (⟨21 / 20, 0⟩ : ℂ) = ((21 / 20 : ℝ) : ℂ) := rfl
    rw [this]
    exact Complex.arg_ofReal_of_nonneg (by norm_num)
  have hs : (arcOf wS wR).sample 0 = toP wR.center + Arc.sampleEllipse (toP wR.radii) wR.xrot
      (startAngle (toP wR.center) (toP wR.radii) wR.xrot (toP wS.cur) + wR.sweepAngle * 0) := rfl
  rw [hs, ha]
  apply P.ext' <;>
    simp [Arc.sampleEllipse, Arc.rotate, wR, toP, transc_sin_real, transc_cos_real, geom]

/-- the condition on centre-form `arc` commands for the CHAIN statement (not needed for
`current_position`): issued outside a sub-path, or skipped, or the arc's start point is less than 0.1
from the current position (the code then draws the connecting line), or the sweep is zero (no
piece), or the current position lies on the ellipse (what the code's comment "if the current position
is not on the arc …" expects).  What is excluded: inside a sub-path, start point 0.1 or more away —
the code draws no connecting line and the first piece does not start at the path's current point. -/
def CenterArcOk [Eps ℝ] (s : St ℝ) : Cmd ℝ (ArcArgs ℝ) → Prop
  | .arc r => s.needMoveTo = true ∨ approxEqPt s.cur r.center = true ∨
      nearStart (arcStart s r) s.cur = true ∨ r.sweepAngle = 0 ∨
      (r.radii.x ≠ 0 ∧ r.radii.y ≠ 0 ∧
        ∃ t, toP s.cur = toP r.center + Arc.sampleEllipse (toP r.radii) r.xrot t)
  | _ => True

def CenterArcsOk [Eps ℝ] (s : St ℝ) : List (Cmd ℝ (ArcArgs ℝ)) → Prop
  | [] => True
  | c :: rest => CenterArcOk s c ∧ CenterArcsOk (step realGeo s c).1 rest

theorem endpoint_ok_real [Eps ℝ] (heps : 2 / 10 ^ 6 ≤ (Eps.eps : ℝ)) (r : ArcArgs ℝ) (cur tgt : Pt ℝ)
    (b : Bool) : SvgOutOk b cur (realGeoQ.endpoint r cur tgt) := by
  have heps0 : (0 : ℝ) ≤ Eps.eps := le_trans (by norm_num) heps
  show SvgOutOk b cur (svgArcOutQ quadsOf r cur tgt)
  cases hs : ArcConv.isStraightLine (svgArcOf r cur tgt)
  · obtain ⟨hrx, hry, hne⟩ := nondegenerate_of_not_straight _ heps0 hs
    have harc := centerArc_of_svg_real _ hrx hry hne
    obtain ⟨e0, _⟩ := svg_arc_endpoints_real _ hrx hry hne
    have hf : toP cur = (svgArcOf r cur tgt).from_ := rfl
    simp only [svgArcOutQ, hs, Bool.false_eq_true, if_false, SvgOutOk, arcOutQ, hf, harc]
    split
    · trivial
    · refine ⟨fun _ _ _ => ?_, ?_⟩
      · simp only [Scalar.zero, sc_zero, e0]; rfl
      · rw [toP_ofP]
        simp only [Scalar.zero, sc_zero]
        exact ⟨_, quadsOf_run _⟩
  · simp only [svgArcOutQ, hs, if_true, SvgOutOk]

theorem center_ok_real [Eps ℝ] (s : St ℝ) (r : ArcArgs ℝ) (h : CenterArcOk s (.arc r)) :
    OutOk (!s.needMoveTo) s.cur (realGeoQ.center r s.cur) := by
  show OutOk (!s.needMoveTo) s.cur (arcOutQ quadsOf (toP r.center) (toP r.radii) r.sweepAngle r.xrot s.cur)
  unfold arcOutQ
  split
  · trivial
  · rename_i hsk
    refine ⟨fun hin hnear hq => ?_, ?_⟩
    · rcases h with h | h | h | h | ⟨hx, hy, t, ht⟩
      · simp [h] at hin
      · exact absurd h hsk
      · simp only [arcStart, arcOf] at h
        simp only [Scalar.zero, sc_zero] at hnear
        rw [h] at hnear; exact absurd hnear (by simp)
      · exfalso
        obtain ⟨_, _, _, _, hnil⟩ := quadsOf_run_real (arcOf s r)
        exact hq (hnil.mpr h)
      · have := arcStart_on_curve s r hx hy t ht
        simpa only [arcStart, arcOf, Scalar.zero, sc_zero] using this
    · rw [toP_ofP]
      simp only [Scalar.zero, sc_zero]
      exact ⟨_, quadsOf_run _⟩

theorem runOk_real [Eps ℝ] (heps : 2 / 10 ^ 6 ≤ (Eps.eps : ℝ)) (cmds : List (Cmd ℝ (ArcArgs ℝ)))
    (s : St ℝ) (hc : CenterArcsOk s cmds) : RunOk realGeoQ s cmds := by
  induction cmds generalizing s with
  | nil => trivial
  | cons c rest ih =>
    refine ⟨?_, ih _ hc.2⟩
    cases c <;> first
      | trivial
      | exact endpoint_ok_real heps _ _ _ _
      | exact center_ok_real s _ hc.1

theorem centerArcsOk_of_noCenterArc [Eps ℝ] (cmds : List (Cmd ℝ (ArcArgs ℝ))) (s : St ℝ)
    (h : NoCenterArc cmds) : CenterArcsOk s cmds := by
  induction cmds generalizing s with
  | nil => trivial
  | cons c rest ih =>
    cases c <;> first
      | exact h.elim
      | exact ⟨trivial, ih _ h⟩

/-- hypotheses of `svg_arc_on_curve_real` / third alternative of `CenterArcOk`: the point (1, 0) is
on the unit circle about the origin (parameter 0) -/
theorem on_unit_circle : toP (⟨1, 0⟩ : Pt ℝ)
    = toP (⟨0, 0⟩ : Pt ℝ) + Arc.sampleEllipse (toP (⟨1, 1⟩ : Pt ℝ)) 0 0 := by
  apply P.ext' <;>
    simp [Arc.sampleEllipse, Arc.rotate, toP, transc_sin_real, transc_cos_real, geom]

/-- a toy geometry over ℤ that satisfies the laws: every `arc_to` is one quadratic from the current
point to the target -/
def lawfulGeoQ : GeoQ Int Unit where
  center _ _ := .skip
  endpoint _ cur tgt := .arc (.curve cur true [⟨toP cur, ⟨15, 5⟩, toP tgt⟩])

end Lyon.C15b
