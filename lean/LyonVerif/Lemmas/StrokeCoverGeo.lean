/-
  C06b, part 1: the plane geometry of a stroke join, free of the model.

  Around a join `j` between a unit tangent `t0` (incoming) and `t1` (outgoing) everything the cover
  argument needs is AFFINE in a frame `(e1, e2)` at `j` (`e1` along the edge the query point belongs
  to, pointing towards the join; `e2` towards the INNER side of the turn, both of length `w/2`), so the
  two corner lemmas below are stated for arbitrary vectors `e1 e2` and the numbers
  `c = cos θ`, `σ = |sin θ|`, `τ = tan(θ/2)`:

      σ = τ·(1 + c),   c² + σ² = 1,   1 + c > 0,   σ ≥ 0.

  In that frame the inner miter point is `(−τ, 1)`, the outer end of the edge `(0, −1)`, the outer
  start of the next edge `(σ, −c)`, the frame of the next edge is `f1 = c·e1 + σ·e2`,
  `f2 = c·e2 − σ·e1`.
  * `corner_bevel`: a point of the edge's rectangle beyond the trapezoid's end line (from the inner
    miter point to the outer end) lies in the join triangle or in the near part of the next
    trapezoid.
  * `corner_miter`: with a kept miter (end line from the inner to the outer miter point) it lies in
    the near part of the next trapezoid.
-/
import LyonVerif.Props.C06

set_option linter.unusedSectionVars false
set_option linter.unusedVariables false

namespace Lyon.C06b
open Lyon Scalar Lyon.StrokeQuad Lyon.Stroke Lyon.C06

variable {K : Type} [Field K] [LinearOrder K] [IsStrictOrderedRing K]

/-- the point `j + x·e1 + y·e2` -/
noncomputable def aff (j e1 e2 : P K) (x y : K) : P K := j + e1.smul x + e2.smul y

/-- the same point in the rotated frame `f1 = c·e1 + σ·e2`, `f2 = c·e2 − σ·e1` -/
theorem aff_rot (j e1 e2 : P K) (c σ x y : K) (hcs : c * c + σ * σ = 1) :
    aff j e1 e2 x y = aff j (e1.smul c + e2.smul σ) (e2.smul c - e1.smul σ) (c * x + σ * y) (c * y - σ * x) := by
  apply P.ext' <;> simp only [aff, geom]
  · linear_combination (-(e1.x * x) - e2.x * y) * hcs
  · linear_combination (-(e1.y * x) - e2.y * y) * hcs

/-- `InTri` does not depend on the order of the corners -/
theorem inTri_rot {q a b c : P K} (h : InTri q (a, b, c)) : InTri q (b, c, a) := by
  obtain ⟨l, m, n, hl, hm, hn, hs, hx, hy⟩ := h
  exact ⟨m, n, l, hm, hn, hl, by linarith, by simp only [] at hx ⊢; linarith, by simp only [] at hy ⊢; linarith⟩

theorem inTri_swap {q a b c : P K} (h : InTri q (a, b, c)) : InTri q (c, b, a) := by
  obtain ⟨l, m, n, hl, hm, hn, hs, hx, hy⟩ := h
  exact ⟨n, m, l, hn, hm, hl, by linarith, by simp only [] at hx ⊢; linarith, by simp only [] at hy ⊢; linarith⟩

theorem inTri_swap12 {q a b c : P K} (h : InTri q (a, b, c)) : InTri q (b, a, c) := by
  obtain ⟨l, m, n, hl, hm, hn, hs, hx, hy⟩ := h
  exact ⟨m, l, n, hm, hl, hn, by linarith, by simp only [] at hx ⊢; linarith, by simp only [] at hy ⊢; linarith⟩

/-- `c ∈ [−1, 1]`, `τ ≥ 0`, `σ·τ = 1 − c` from the standing relations -/
theorem turn_facts (c σ τ : K) (hτ : σ = τ * (1 + c)) (hcs : c * c + σ * σ = 1) (hc : 0 < 1 + c) (hσ : 0 ≤ σ) :
    c ≤ 1 ∧ 0 ≤ τ ∧ σ * τ = 1 - c ∧ σ ≤ 1 := by
  have hc1 : c ≤ 1 := by nlinarith [mul_self_nonneg σ, mul_self_nonneg (c - 1)]
  have hτ0 : 0 ≤ τ := by
    by_contra h
    have : τ * (1 + c) < 0 := mul_neg_of_neg_of_pos (lt_of_not_ge h) hc
    linarith
  have hst : σ * τ = 1 - c := by
    have h1 : (1 + c) * (σ * τ) = (1 + c) * (1 - c) := by
      have : σ * σ = (1 + c) * (1 - c) := by linear_combination hcs
      calc (1 + c) * (σ * τ) = σ * (τ * (1 + c)) := by ring
        _ = σ * σ := by rw [← hτ]
        _ = (1 + c) * (1 - c) := this
    exact mul_left_cancel₀ (ne_of_gt hc) h1
  have hs1 : σ ≤ 1 := by nlinarith [mul_self_nonneg c, mul_self_nonneg (σ - 1)]
  exact ⟨hc1, hτ0, hst, hs1⟩

/-- the three bounds shared by both corner lemmas: in the next edge's frame the point stays inside the
band and not farther than `1 + τ` half widths along the edge -/
theorem corner_band (c σ τ x y : K) (hτ : σ = τ * (1 + c)) (hcs : c * c + σ * σ = 1) (hc : 0 < 1 + c) (hσ : 0 ≤ σ)
    (hy : -1 ≤ y) (hy1 : y ≤ 1) (hx : -τ * (1 + y) / 2 ≤ x) (hx0 : x ≤ 0) :
    -1 ≤ c * y - σ * x ∧ c * y - σ * x ≤ 1 ∧ c * x + σ * y ≤ 1 + τ := by
  obtain ⟨hc1, hτ0, hst, hs1⟩ := turn_facts c σ τ hτ hcs hc hσ
  refine ⟨?_, ?_, ?_⟩
  · have h1 : 0 ≤ σ * (-x) := mul_nonneg hσ (by linarith)
    have h2 : 0 ≤ (1 + c) * (1 + y) := mul_nonneg (le_of_lt hc) (by linarith)
    have h3 : 0 ≤ (1 - c) * (1 - y) := mul_nonneg (by linarith) (by linarith)
    nlinarith
  · have h1 : 0 ≤ σ * (x + τ * (1 + y) / 2) := mul_nonneg hσ (by linarith)
    have h2 : 0 ≤ (1 + c) * (1 - y) := mul_nonneg (le_of_lt hc) (by linarith)
    nlinarith
  · have h1 : 0 ≤ (1 + c) * (-x) := mul_nonneg (le_of_lt hc) (by linarith)
    have h2 : 0 ≤ σ * (1 - y) := mul_nonneg hσ (by linarith)
    have h3 : 0 ≤ τ * (1 - y) := mul_nonneg hτ0 (by linarith)
    nlinarith

/-- **bevel-shaped join** (bevel join, or a miter beyond the limit).  A point `(x, y)` of the edge's
rectangle (`x ≤ 0`, `|y| ≤ 1`) beyond the end line of the edge's trapezoid (`x ≥ −τ(1+y)/2`) lies in
the join triangle (outer end, inner miter point, outer start of the next edge) or, in the next
edge's frame `(x', y') = (cx + σy, cy − σx)`, beyond that trapezoid's start line inside the band. -/
theorem corner_bevel (j e1 e2 : P K) (c σ τ x y : K)
    (hτ : σ = τ * (1 + c)) (hcs : c * c + σ * σ = 1) (hc : 0 < 1 + c) (hσ : 0 ≤ σ)
    (hy : -1 ≤ y) (hy1 : y ≤ 1) (hx : -τ * (1 + y) / 2 ≤ x) (hx0 : x ≤ 0) :
    InTri (aff j e1 e2 x y) (aff j e1 e2 0 (-1), aff j e1 e2 (-τ) 1, aff j e1 e2 σ (-c))
    ∨ (-1 ≤ c * y - σ * x ∧ c * y - σ * x ≤ 1 ∧ (1 + (c * y - σ * x)) * τ / 2 ≤ c * x + σ * y
        ∧ c * x + σ * y ≤ 1 + τ) := by
  obtain ⟨hc1, hτ0, hst, hs1⟩ := turn_facts c σ τ hτ hcs hc hσ
  obtain ⟨b1, b2, b3⟩ := corner_band c σ τ x y hτ hcs hc hσ hy hy1 hx hx0
  rcases eq_or_lt_of_le hσ with h0 | hpos
  · -- no turn: τ = 0, the region is the end segment itself
    right
    have hτz : τ = 0 := by
      have : τ * (1 + c) = 0 := by rw [← hτ, ← h0]
      rcases mul_eq_zero.mp this with h | h
      · exact h
      · exact absurd h (ne_of_gt hc)
    refine ⟨b1, b2, ?_, b3⟩
    rw [hτz] at hx ⊢
    have hx' : x = 0 := le_antisymm hx0 (by simpa using hx)
    rw [← h0, hx']; simp
  · have hτpos : 0 < τ := by
      rcases eq_or_lt_of_le hτ0 with h | h
      · rw [← h] at hτ; rw [hτ] at hpos; simp at hpos
      · exact h
    have h3c : 0 < 3 + c := by linarith
    have hτne : τ ≠ 0 := ne_of_gt hτpos
    have h3ne : 3 + c ≠ 0 := ne_of_gt h3c
    -- barycentric coordinates with respect to (outer end, inner miter point, outer start)
    obtain ⟨ν, hν⟩ : ∃ ν : K, ν = (2 * x / τ + y + 1) / (3 + c) := ⟨_, rfl⟩
    obtain ⟨μ, hμ⟩ : ∃ μ : K, μ = ν * (1 + c) - x / τ := ⟨_, rfl⟩
    obtain ⟨l, hl⟩ : ∃ l : K, l = 1 - μ - ν := ⟨_, rfl⟩
    have hlsum : l + μ + ν = 1 := by rw [hl]; ring
    have hν0 : 0 ≤ ν := by
      rw [hν]
      apply div_nonneg _ (le_of_lt h3c)
      have : -(1 + y) ≤ 2 * x / τ := by
        rw [le_div_iff₀ hτpos]; nlinarith
      linarith
    have hμ0 : 0 ≤ μ := by
      have h1 : x / τ ≤ 0 := div_nonpos_of_nonpos_of_nonneg hx0 hτ0
      have h2 : 0 ≤ ν * (1 + c) := mul_nonneg hν0 (le_of_lt hc)
      rw [hμ]; linarith
    have hxe : x = -μ * τ + ν * σ := by
      rw [hμ, hτ]; field_simp; ring
    have hye : y = -l + μ - ν * c := by
      rw [hl, hμ, hν]; field_simp; ring
    by_cases hl0 : 0 ≤ l
    · left
      refine ⟨l, μ, ν, hl0, hμ0, hν0, hlsum, ?_, ?_⟩
      · simp only [aff, geom]
        linear_combination e1.x * hxe + e2.x * hye - j.x * hlsum
      · simp only [aff, geom]
        linear_combination e1.y * hxe + e2.y * hye - j.y * hlsum
    · right
      refine ⟨b1, b2, ?_, b3⟩
      have hneg : 0 < -l := by linarith [lt_of_not_ge hl0]
      have key : c * x + σ * y - (1 + (c * y - σ * x)) * τ / 2 = (-l) * (σ + (1 - c) * τ / 2) := by
        rw [hxe, hye]
        linear_combination μ * hτ + (τ / 2) * hlsum + (τ / 2 * ν) * hcs - (τ / 2 * μ) * hst
      have hfac : 0 ≤ σ + (1 - c) * τ / 2 := by
        have : 0 ≤ (1 - c) * τ := mul_nonneg (by linarith) hτ0
        linarith
      have : 0 ≤ (-l) * (σ + (1 - c) * τ / 2) := mul_nonneg (le_of_lt hneg) hfac
      linarith

/-- **kept miter.**  The trapezoid's end line runs from the inner to the outer miter point
(`x = −τ·y`); a point of the rectangle beyond it lies beyond the next trapezoid's start line
(`x' ≥ τ·y'`), inside its band. -/
theorem corner_miter (c σ τ x y : K)
    (hτ : σ = τ * (1 + c)) (hcs : c * c + σ * σ = 1) (hc : 0 < 1 + c) (hσ : 0 ≤ σ)
    (hy : -1 ≤ y) (hy1 : y ≤ 1) (hx : -τ * y ≤ x) (hx0 : x ≤ 0) :
    -1 ≤ c * y - σ * x ∧ c * y - σ * x ≤ 1 ∧ (c * y - σ * x) * τ ≤ c * x + σ * y
      ∧ c * x + σ * y ≤ 1 + τ := by
  obtain ⟨hc1, hτ0, hst, hs1⟩ := turn_facts c σ τ hτ hcs hc hσ
  have hx2 : -τ * (1 + y) / 2 ≤ x := by
    have : 0 ≤ τ * (1 - y) := mul_nonneg hτ0 (by linarith)
    linarith
  obtain ⟨b1, b2, b3⟩ := corner_band c σ τ x y hτ hcs hc hσ hy hy1 hx2 hx0
  refine ⟨b1, b2, ?_, b3⟩
  have key : c * x + σ * y - (c * y - σ * x) * τ = x + τ * y := by
    linear_combination (y) * hτ + x * hst
  linarith

/-- `c`, `σ` as rational functions of `τ`: `c = (1 − τ²)/(1 + τ²)`, `σ = 2τ/(1 + τ²)` -/
theorem cs_of_tau (c σ τ : K) (hτ : σ = τ * (1 + c)) (hcs : c * c + σ * σ = 1) (hc : 0 < 1 + c) :
    c = (1 - τ * τ) / (1 + τ * τ) ∧ σ = 2 * τ / (1 + τ * τ) := by
  have hD : 0 < 1 + τ * τ := by nlinarith [mul_self_nonneg τ]
  have hDne : 1 + τ * τ ≠ 0 := ne_of_gt hD
  have h2 : (1 + c) * (1 + τ * τ) = 2 := by
    have h3 : (1 + c) * ((1 + c) * (1 + τ * τ) - 2) = 0 := by
      rw [hτ] at hcs; linear_combination hcs
    rcases mul_eq_zero.mp h3 with h | h
    · exact absurd h (ne_of_gt hc)
    · linarith
  have hc' : c = (1 - τ * τ) / (1 + τ * τ) := by
    rw [eq_div_iff hDne]; linear_combination h2
  refine ⟨hc', ?_⟩
  rw [hτ, eq_div_iff hDne]; linear_combination τ * h2

/-- **clipped `MiterClip` join** (and, for `lam = 0`, the bevel-shaped join): the outer corners of the two
trapezoids are shifted by `lam ∈ [0, τ)` half widths beyond the join (`(lam, −1)` on the incoming edge,
`(σ − lam·c, −c − lam·σ)` on the outgoing one).  A point of the rectangle beyond the trapezoid's end line
(from the inner miter point `(−τ, 1)` to `(lam, −1)`) lies in the join triangle or beyond the start line of the
next trapezoid, inside its band. -/
theorem corner_clip (j e1 e2 : P K) (c σ τ lam x y : K)
    (hτ : σ = τ * (1 + c)) (hcs : c * c + σ * σ = 1) (hc : 0 < 1 + c) (hσ : 0 ≤ σ)
    (hl0 : 0 ≤ lam) (hl1 : lam < τ)
    (hy : -1 ≤ y) (hy1 : y ≤ 1) (hx : -((τ * (1 + y) - lam * (1 - y)) / 2) ≤ x) (hx0 : x ≤ 0) :
    InTri (aff j e1 e2 x y) (aff j e1 e2 lam (-1), aff j e1 e2 (-τ) 1, aff j e1 e2 (σ - lam * c) (-c - lam * σ))
    ∨ (-1 ≤ c * y - σ * x ∧ c * y - σ * x ≤ 1
        ∧ (τ * (1 + (c * y - σ * x)) - lam * (1 - (c * y - σ * x))) / 2 ≤ c * x + σ * y
        ∧ c * x + σ * y ≤ 1 + τ) := by
  have hτ0 : 0 < τ := lt_of_le_of_lt hl0 hl1
  have hx2 : -τ * (1 + y) / 2 ≤ x := by
    have : 0 ≤ lam * (1 - y) := mul_nonneg hl0 (by linarith)
    linarith
  obtain ⟨b1, b2, b3⟩ := corner_band c σ τ x y hτ hcs hc hσ hy hy1 hx2 hx0
  obtain ⟨hc', hσ'⟩ := cs_of_tau c σ τ hτ hcs hc
  have hD : 0 < 1 + τ * τ := by nlinarith [mul_self_nonneg τ]
  have hDne : 1 + τ * τ ≠ 0 := ne_of_gt hD
  have hP : 0 < τ - lam := by linarith
  have hQ : 0 < 2 + τ * τ + lam * τ := by nlinarith [mul_self_nonneg τ, mul_nonneg hl0 (le_of_lt hτ0)]
  have hW : 0 < (τ - lam) * (2 + τ * τ + lam * τ) := mul_pos hP hQ
  have hWne : (τ - lam) * (2 + τ * τ + lam * τ) ≠ 0 := ne_of_gt hW
  have hQne : 2 + τ * τ + lam * τ ≠ 0 := ne_of_gt hQ
  -- barycentric coordinates with respect to (outer end, inner miter point, outer start)
  obtain ⟨ν, hν⟩ : ∃ ν : K, ν = (2 * x + (τ + lam) * y + (τ - lam)) * (1 + τ * τ) / (2 * ((τ - lam) * (2 + τ * τ + lam * τ))) :=
    ⟨_, rfl⟩
  obtain ⟨l, hl⟩ : ∃ l : K, l = -(x * (2 + 2 * lam * τ) + y * (3 * τ + τ * τ * τ - lam + lam * τ * τ)
      - (τ - lam) * (1 + τ * τ)) / (2 * ((τ - lam) * (2 + τ * τ + lam * τ))) := ⟨_, rfl⟩
  obtain ⟨μ, hμ⟩ : ∃ μ : K, μ = (y - τ * x + 1 + lam * τ) / (2 + τ * τ + lam * τ) := ⟨_, rfl⟩
  have hsum : l + μ + ν = 1 := by rw [hl, hμ, hν]; field_simp; ring
  have hν0 : 0 ≤ ν := by
    rw [hν]
    apply div_nonneg _ (by linarith)
    apply mul_nonneg _ (le_of_lt hD)
    linarith
  have hμ0 : 0 ≤ μ := by
    rw [hμ]
    apply div_nonneg _ (le_of_lt hQ)
    have : 0 ≤ τ * (-x) := mul_nonneg (le_of_lt hτ0) (by linarith)
    have : 0 ≤ lam * τ := mul_nonneg hl0 (le_of_lt hτ0)
    linarith
  -- the line functional of the next trapezoid's start line is `-l` times a positive number
  have hS : (c * x + σ * y - (τ * (1 + (c * y - σ * x)) - lam * (1 - (c * y - σ * x))) / 2) * (1 + τ * τ)
      = -l * ((τ - lam) * (2 + τ * τ + lam * τ)) := by
    rw [hl, hc', hσ']; field_simp; ring
  by_cases hl0' : 0 ≤ l
  · left
    refine ⟨l, μ, ν, hl0', hμ0, hν0, hsum, ?_, ?_⟩
    · have hxe : x = l * lam + μ * (-τ) + ν * (σ - lam * c) := by
        rw [hl, hμ, hν, hc', hσ']; field_simp; ring
      have hye : y = l * (-1) + μ * 1 + ν * (-c - lam * σ) := by
        rw [hl, hμ, hν, hc', hσ']; field_simp; ring
      simp only [aff, geom]
      linear_combination e1.x * hxe + e2.x * hye - j.x * hsum
    · have hxe : x = l * lam + μ * (-τ) + ν * (σ - lam * c) := by
        rw [hl, hμ, hν, hc', hσ']; field_simp; ring
      have hye : y = l * (-1) + μ * 1 + ν * (-c - lam * σ) := by
        rw [hl, hμ, hν, hc', hσ']; field_simp; ring
      simp only [aff, geom]
      linear_combination e1.y * hxe + e2.y * hye - j.y * hsum
  · right
    refine ⟨b1, b2, ?_, b3⟩
    have hneg : 0 < -l := by linarith [lt_of_not_ge hl0']
    have : 0 < -l * ((τ - lam) * (2 + τ * τ + lam * τ)) := mul_pos hneg hW
    rw [← hS] at this
    have h5 := (mul_pos_iff_of_pos_right hD).mp this
    linarith

end Lyon.C06b
