/-
  C16 with the concrete flatteners, iterator side (`Model/Path/AdaptersConcrete.lean`):
  the `Flattened` iterators of lyon_geom (`QuadIter`, `CubicIter` of `Model/Geom/Flatten.lean`),
  when they finish, end with the curve's stored end point — for EVERY scalar type whose `==`
  accepts `1 == 1` (all the cubic iterator needs: `t_inner == S::ONE`, repair e20d2048).

  Core Lean only (no Mathlib).
-/
import LyonVerif.Model.Path.AdaptersConcrete
import LyonVerif.Lemmas.Adapters

set_option linter.unusedSectionVars false
set_option linter.unusedVariables false

namespace Lyon.Adapt
open Lyon Lyon.Path Scalar

section iter_any
variable {α : Type} [Scalar α] [Transc α] [FlatConst α]

/-! ### `collectDone` is `collect` that also reports completion -/

theorem quad_collect_of_done (f : Nat) (s : QuadIter α) (l : List (P α))
    (h : s.collectDone f = some l) : s.collect f = l := by
  induction f generalizing s l with
  | zero => simp [QuadIter.collectDone] at h
  | succ f ih =>
    rw [QuadIter.collectDone] at h
    rw [QuadIter.collect]
    cases hn : s.next with
    | mk o s' =>
      cases o with
      | none => simp only [hn] at h ⊢; exact Option.some.inj h
      | some p =>
        simp only [hn, Option.map_eq_some_iff] at h ⊢
        obtain ⟨l', hl', rfl⟩ := h
        rw [ih s' l' hl']

theorem cubic_collect_of_done (f : Nat) (s : CubicIter α) (l : List (P α))
    (h : s.collectDone f = some l) : s.collect f = l := by
  induction f generalizing s l with
  | zero => simp [CubicIter.collectDone] at h
  | succ f ih =>
    rw [CubicIter.collectDone] at h
    rw [CubicIter.collect]
    cases hn : s.next with
    | mk o s' =>
      cases o with
      | none => simp only [hn] at h ⊢; exact Option.some.inj h
      | some p =>
        simp only [hn, Option.map_eq_some_iff] at h ⊢
        obtain ⟨l', hl', rfl⟩ := h
        rw [ih s' l' hl']

/-! ### the quadratic iterator ends with `to` -/

theorem quadIter_done_ends (f : Nat) (s : QuadIter α) (hd : s.done = false) (l : List (P α))
    (h : s.collectDone f = some l) : ∃ l', l = l' ++ [s.curve.b] := by
  induction f generalizing s l with
  | zero => simp [QuadIter.collectDone] at h
  | succ f ih =>
    rw [QuadIter.collectDone] at h
    by_cases he : s.atEnd = true
    · have hn : s.next = (some s.curve.b, { s with done := true }) := by
        simp [QuadIter.next, hd, he]
      simp only [hn, Option.map_eq_some_iff] at h
      obtain ⟨l', hl', rfl⟩ := h
      cases f with
      | zero => simp [QuadIter.collectDone] at hl'
      | succ f' =>
        rw [QuadIter.collectDone] at hl'
        have hn' : ({ s with done := true } : QuadIter α).next = (none, { s with done := true }) := by
          simp [QuadIter.next]
        simp only [hn'] at hl'
        cases Option.some.inj hl'
        exact ⟨[], rfl⟩
    · have hn : s.next = (some (s.curve.sample (s.params.tAt s.i)), { s with i := s.i + one }) := by
        simp [QuadIter.next, hd, he]
      simp only [hn, Option.map_eq_some_iff] at h
      obtain ⟨l', hl', rfl⟩ := h
      obtain ⟨l'', rfl⟩ := ih { s with i := s.i + one } hd l' hl'
      exact ⟨_ :: l'', rfl⟩

/-- `QuadraticBezierSegment::flattened(tol)`, once it has finished, has yielded a non-empty
sequence whose last point is the stored `to` — every scalar type, every tolerance -/
theorem quadIter_ends (fuel : Nat) (q : Quad α) (tol : α) (l : List (P α))
    (h : (QuadIter.new q tol).collectDone fuel = some l) : ∃ l', l = l' ++ [q.b] :=
  quadIter_done_ends fuel (QuadIter.new q tol) rfl l h

/-! ### the cubic iterator ends with `to` -/

/-- the parameter iterator yields `none` exactly when it is done -/
theorem quadTIter_next_none (s : QuadTIter α) : s.next.1 = none ↔ s.done = true := by
  unfold QuadTIter.next
  by_cases hd : s.done = true
  · simp [hd]
  · by_cases he : s.atEnd = true <;> simp [hd, he]

/-- when a parameter iterator that was not done is done after `next`, it has yielded `1` -/
theorem quadTIter_next_done (s : QuadTIter α) (hd : s.done = false) (h : s.next.2.done = true) :
    s.next.1 = some one := by
  unfold QuadTIter.next at h ⊢
  by_cases he : s.atEnd = true
  · simp [hd, he]
  · simp [hd, he] at h

theorem quadTIter_next_some (s : QuadTIter α) (hd : s.done = false) : ∃ t, s.next.1 = some t := by
  unfold QuadTIter.next
  by_cases he : s.atEnd = true <;> simp [hd, he]

/-- invariant: if the current sub-curve is finished and it was the last one, the point yielded
last was the stored end point -/
def CubicInv (s : CubicIter α) (last : Option (P α)) : Prop :=
  s.current.done = true → s.remaining = 0 → last = some s.curve.b

theorem cubicIter_step (hone : ((one : α) == one) = true) (s s' : CubicIter α) (p : P α)
    (last : Option (P α)) (hn : s.next = (some p, s')) :
    s'.curve = s.curve ∧ CubicInv s' (some p) := by
  unfold CubicIter.next at hn
  cases hc : s.current.next with
  | mk o cur =>
    cases o with
    | some tInner =>
      simp only [hc, Prod.mk.injEq, Option.some.injEq] at hn
      obtain ⟨hp, rfl⟩ := hn
      refine ⟨rfl, ?_⟩
      intro hdone hrem
      simp only at hdone hrem
      have hd0 : s.current.done = false := by
        cases hd : s.current.done with
        | false => rfl
        | true =>
          have := (quadTIter_next_none s.current).2 hd
          rw [hc] at this; cases this
      have ht : s.current.next.1 = some one := quadTIter_next_done s.current hd0 (by rw [hc]; exact hdone)
      rw [hc] at ht
      cases Option.some.inj ht
      rw [← hp]
      simp [CubicIter.lastOr, hrem, hone]
    | none =>
      simp only [hc] at hn
      by_cases hr : s.remaining = 0
      · simp [hr] at hn
      · simp only [hr, if_false, CubicIter.advance, Prod.mk.injEq, Option.some.injEq] at hn
        obtain ⟨hp, rfl⟩ := hn
        refine ⟨rfl, ?_⟩
        intro hdone hrem
        simp only at hdone hrem
        have ht := quadTIter_next_done
          (QuadTIter.new ((s.curve.splitRange (s.rangeStart + s.rangeStep)
            (s.rangeStart + s.rangeStep + s.rangeStep)).toQuadratic) s.tolerance) rfl hdone
        rw [← hp]
        simp [CubicIter.lastOr, hrem, ht, hone]

theorem cubicIter_done_ends (hone : ((one : α) == one) = true) (f : Nat) (s : CubicIter α)
    (last : Option (P α)) (hinv : CubicInv s last) (l : List (P α))
    (h : s.collectDone f = some l) :
    (l.getLast?.or last) = some s.curve.b := by
  induction f generalizing s l last with
  | zero => simp [CubicIter.collectDone] at h
  | succ f ih =>
    rw [CubicIter.collectDone] at h
    cases hn : s.next with
    | mk o s' =>
      cases o with
      | none =>
        simp only [hn] at h
        cases Option.some.inj h
        -- `next` returned `None`: the sub-curve is done and none remains
        have h1 : s.current.done = true ∧ s.remaining = 0 := by
          unfold CubicIter.next at hn
          cases hc : s.current.next with
          | mk o cur =>
            cases o with
            | some t => simp [hc] at hn
            | none =>
              have hd := (quadTIter_next_none s.current).1 (by rw [hc])
              simp only [hc] at hn
              by_cases hr : s.remaining = 0
              · exact ⟨hd, hr⟩
              · simp [hr, CubicIter.advance] at hn
        simpa using hinv h1.1 h1.2
      | some p =>
        simp only [hn, Option.map_eq_some_iff] at h
        obtain ⟨l', hl', rfl⟩ := h
        obtain ⟨hcv, hinv'⟩ := cubicIter_step hone s s' p last hn
        have := ih s' (some p) hinv' l' hl'
        rw [hcv] at this
        cases l' with
        | nil => simpa using this
        | cons q r =>
          rw [List.getLast?_cons_cons]
          cases hz : (q :: r).getLast? with
          | none => simp at hz
          | some z => simpa [hz] using this

theorem cubicIter_new (c : Cubic α) (tol : α) (it : CubicIter α) (h : CubicIter.new c tol = some it) :
    it.curve = c ∧ it.current.done = false := by
  simp only [CubicIter.new, Option.map_eq_some_iff] at h
  obtain ⟨n, _, rfl⟩ := h
  exact ⟨rfl, rfl⟩

/-- `CubicBezierSegment::flattened(tol)`, once it has finished, has yielded a non-empty sequence
whose last point is the stored `to` (lyon commit e20d2048) — every scalar type with `1 == 1` -/
theorem cubicIter_ends (hone : ((one : α) == one) = true) (fuel : Nat) (c : Cubic α) (tol : α)
    (it : CubicIter α) (hnew : CubicIter.new c tol = some it) (l : List (P α))
    (h : it.collectDone fuel = some l) : ∃ l', l = l' ++ [c.b] := by
  obtain ⟨hc, hd⟩ := cubicIter_new c tol it hnew
  have := cubicIter_done_ends hone fuel it none (by intro h1; rw [hd] at h1; cases h1) l h
  rw [hc, Option.or_none] at this
  exact List.getLast?_eq_some_iff.mp this

/-! ### the iterator flattener made total (so that `IterEndsAtTo` quantifies over all curves) -/

/-- `itModel` on the curves whose iterator finishes within the fuel, the single point `to`
elsewhere (never reached by an adapter whose `itOkEvents` holds: `flatIter_itTot`) -/
def itTot (fuel : Nat) (tol : α) : IterFlattener (P α) where
  quad a c b := if itOkQuad fuel tol a c b then (itModel fuel tol).quad a c b else [b]
  cubic a c1 c2 b := if itOkCubic fuel tol a c1 c2 b then (itModel fuel tol).cubic a c1 c2 b else [b]

theorem itModel_quad_ends (fuel : Nat) (tol : α) (a c b : P α) (h : itOkQuad fuel tol a c b = true) :
    ∃ l, (itModel fuel tol).quad a c b = l ++ [b] := by
  simp only [itOkQuad, Option.isSome_iff_exists] at h
  obtain ⟨l, hl⟩ := h
  obtain ⟨l', rfl⟩ := quadIter_ends fuel ⟨a, c, b⟩ tol l hl
  exact ⟨l', quad_collect_of_done _ _ _ hl⟩

theorem itModel_cubic_ends (hone : ((one : α) == one) = true) (fuel : Nat) (tol : α)
    (a c1 c2 b : P α) (h : itOkCubic fuel tol a c1 c2 b = true) :
    ∃ l, (itModel fuel tol).cubic a c1 c2 b = l ++ [b] := by
  simp only [itOkCubic] at h
  cases hn : CubicIter.new ⟨a, c1, c2, b⟩ tol with
  | none => simp [hn] at h
  | some it =>
    simp only [hn, Option.isSome_iff_exists] at h
    obtain ⟨l, hl⟩ := h
    obtain ⟨l', rfl⟩ := cubicIter_ends hone fuel ⟨a, c1, c2, b⟩ tol it hn l hl
    refine ⟨l', ?_⟩
    simp only [itModel, hn]
    exact cubic_collect_of_done _ _ _ hl

theorem itTot_ends (hone : ((one : α) == one) = true) (fuel : Nat) (tol : α) :
    (∀ a c b, ∃ l, (itTot fuel tol).quad a c b = l ++ [b]) ∧
    (∀ a c d b, ∃ l, (itTot fuel tol).cubic a c d b = l ++ [b]) := by
  constructor
  · intro a c b
    by_cases h : itOkQuad fuel tol a c b = true
    · simpa [itTot, h] using itModel_quad_ends fuel tol a c b h
    · exact ⟨[], by simp [itTot, h]⟩
  · intro a c d b
    by_cases h : itOkCubic fuel tol a c d b = true
    · simpa [itTot, h] using itModel_cubic_ends hone fuel tol a c d b h
    · exact ⟨[], by simp [itTot, h]⟩

/-- on an event stream all of whose curves are fine the adapter does not see the difference -/
theorem flatIter_itTot (fuel : Nat) (tol : α) (evs : List (Event (P α)))
    (h : itOkEvents fuel tol evs = true) :
    flatIter (itModel fuel tol) evs = flatIter (itTot fuel tol) evs := by
  induction evs with
  | nil => rfl
  | cons e r ih =>
    cases e with
    | begin p => simp only [itOkEvents] at h; simp [flatIter, ih h]
    | line a b => simp only [itOkEvents] at h; simp [flatIter, ih h]
    | end_ l f cl => simp only [itOkEvents] at h; simp [flatIter, ih h]
    | quad a c b =>
      simp only [itOkEvents, Bool.and_eq_true] at h
      simp [flatIter, ih h.2, itTot, h.1]
    | cubic a c d b =>
      simp only [itOkEvents, Bool.and_eq_true] at h
      simp [flatIter, ih h.2, itTot, h.1]

end iter_any

end Lyon.Adapt
