/-
  C02 growth (`Props/C02c.lean`), part 4: the signed-area identity of the BASIC monotone
  tessellator, for EVERY (position, side) sequence.

  State potential `G s = Σ wind(emitted triangles) ± wind-area(stack polygon)`.  Feeding `cur` adds
  exactly `wind(lastLeft, cur, lastRight)` — the area the polygon-so-far gains — plus a non-negative
  excess that is zero when no fan triangle is flipped by the winding test (`vertex_area`).
  Summed over a run: `Σ wind(triangles) ≥ polyAcc` (all sequences), `= polyAcc` when no fan
  triangle is flipped; `polyAcc` is the shoelace area of the polygon (`polyAcc_eq_shoelace`).
-/
import LyonVerif.Lemmas.MonotoneGeom

set_option linter.unusedSectionVars false
set_option linter.unusedVariables false
set_option linter.unusedSimpArgs false

namespace Lyon.C02c
open Lyon Lyon.Mono Lyon.C02

section Geometry
variable {K : Type} [Field K] [LinearOrder K] [IsStrictOrderedRing K]

theorem fanC_telescope_ne (cur : P K) (L : List (P K)) (h : L ≠ []) :
    fanC cur L = chainE L + E (L.getLast h) cur + E cur (L.head h) := by
  cases L with
  | nil => exact absurd rfl h
  | cons a l => exact fanC_telescope cur a l

/-- position of the bottom of the stack -/
def botPos (s : Basic K) : P K := (s.stack.getLast?.map (·.pos)).getD s.previous.pos

/-- last vertex of the left / right chain fed so far (the apex counts for both) -/
def lastL (s : Basic K) : P K := if s.previous.left then s.previous.pos else botPos s
def lastR (s : Basic K) : P K := if s.previous.left then botPos s else s.previous.pos

/-- emitted area + signed area of the stack polygon (the part not yet triangulated) -/
noncomputable def G (pos : Nat → P K) (s : Basic K) : K :=
  sumW pos s.tris + sg s.previous.left * (chainT (s.stack.map (·.pos)) + E s.previous.pos (botPos s))

/-- `previous` is the top of the stack; stack records carry the registered positions -/
def BInv (pos : Nat → P K) (s : Basic K) : Prop :=
  (∃ rest, s.stack = s.previous :: rest) ∧ ∀ v ∈ s.stack, Good pos v

/-- feeding `cur` flips no fan triangle: same side (no fan), or every fan pair passes the winding
test in the side-determined order -/
def NoFlip (s : Basic K) (cur : MV K) : Prop :=
  cur.left = s.previous.left ∨ FanCanon s.previous.left cur.pos (s.stack.reverse.map (·.pos))

theorem area_algebra (c : Bool) (prev bot cur : P K) :
    sg c * (E prev cur + E cur bot - E prev bot) =
      wind (if c then prev else bot) cur (if c then bot else prev) := by
  cases c
  · simp only [sg, Bool.false_eq_true, if_false, wind_eq]
    rw [E_anti cur bot, E_anti prev cur]; ring
  · simp only [sg, if_true, wind_eq]
    rw [E_anti prev bot]; ring

theorem vertex_area (pos : Nat → P K) (s : Basic K) (cur : MV K) (h : BInv pos s) (hc : Good pos cur) :
    BInv pos (s.vertex cur) ∧
    lastL (s.vertex cur) = (if cur.left then cur.pos else lastL s) ∧
    lastR (s.vertex cur) = (if cur.left then lastR s else cur.pos) ∧
    G pos s + wind (lastL s) cur.pos (lastR s) ≤ G pos (s.vertex cur) ∧
    (NoFlip s cur → G pos (s.vertex cur) = G pos s + wind (lastL s) cur.pos (lastR s)) := by
  obtain ⟨⟨rest, hst⟩, hgood⟩ := h
  have hprev : Good pos s.previous := hgood _ (by rw [hst]; simp)
  have hbot : botPos s = ((s.previous :: rest).getLast (by simp)).pos := by
    simp only [botPos, hst, List.getLast?_eq_some_getLast (l := s.previous :: rest) (by simp), Option.map_some,
      Option.getD_some]
  have halg := area_algebra s.previous.left s.previous.pos (botPos s) cur.pos
  by_cases hside : cur.left = s.previous.left
  · -- same side
    have hne : (cur.left != s.previous.left) = false := by rw [hside]; cases s.previous.left <;> rfl
    have hv : s.vertex cur = ⟨cur :: (popLoop cur s.previous rest).1, cur, s.tris ++ (popLoop cur s.previous rest).2⟩ := by
      simp only [Basic.vertex, hne, Bool.false_eq_true, if_false, hst]
    have hpl := popLoop_area pos cur s.previous rest hc hprev
      (fun v hv => hgood v (by rw [hst]; exact List.mem_cons_of_mem _ hv))
    have hgl := popLoop_getLast cur s.previous rest
    have hnn := popLoop_nonempty cur s.previous rest
    have hw := (popLoop_wind pos cur s.previous rest hc hprev
      (fun v hv => hgood v (by rw [hst]; exact List.mem_cons_of_mem _ hv))).1
    have hbot' : botPos (s.vertex cur) = botPos s := by
      simp only [botPos, hv, hst]
      rw [List.getLast?_cons_of_ne_nil hnn, hgl,
        List.getLast?_eq_some_getLast (l := s.previous :: rest) (by simp)]
      rfl
    have hG : G pos (s.vertex cur) = G pos s + wind (lastL s) cur.pos (lastR s) := by
      simp only [G, hbot']
      simp only [hv, sumW_append, List.map_cons]
      rw [← hside] at halg ⊢
      simp only [lastL, lastR, ← hside]
      rw [← halg, hst]
      simp only [List.map_cons]
      have e1 := chainT_cons2 cur.pos s.previous.pos (rest.map (·.pos))
      rw [e1] at hpl
      linear_combination -hpl
    refine ⟨⟨⟨_, by rw [hv]⟩, ?_⟩, ?_, ?_, le_of_eq hG.symm, fun _ => hG⟩
    · intro v hv'
      rw [hv] at hv'
      simp only [List.mem_cons] at hv'
      rcases hv' with e | e
      · exact e ▸ hc
      · exact hw v e
    · simp only [lastL, hbot']; rw [hv]; simp only [← hside]
      cases cur.left <;> simp
    · simp only [lastR, hbot']; rw [hv]; simp only [← hside]
      cases cur.left <;> simp
  · -- changed side
    have hne : (cur.left != s.previous.left) = true := by
      revert hside; cases cur.left <;> cases s.previous.left <;> simp
    have hv : s.vertex cur = ⟨[cur, s.previous], cur, s.tris ++ fanTris cur s.stack.reverse⟩ := by
      simp only [Basic.vertex, hne, if_true]
    have hfan := fanTris_sumW pos s.previous.left cur s.stack.reverse hc
      (fun v hv => hgood v (List.mem_reverse.mp hv))
    have hrne : s.stack.reverse.map (·.pos) ≠ [] := by rw [hst]; simp
    have htel := fanC_telescope_ne cur.pos (s.stack.reverse.map (·.pos)) hrne
    have hlast : (s.stack.reverse.map (·.pos)).getLast hrne = s.previous.pos := by
      simp only [hst, List.reverse_cons, List.map_append, List.map_cons, List.map_nil]
      simp
    have hhead : (s.stack.reverse.map (·.pos)).head hrne = botPos s := by
      rw [hbot]
      simp only [hst, List.map_reverse]
      rw [List.head_reverse, List.getLast_map]
    have hch : chainE (s.stack.reverse.map (·.pos)) = chainT (s.stack.map (·.pos)) := by
      simp only [chainT, List.map_reverse]
    rw [hlast, hhead, hch] at htel
    have hbot' : botPos (s.vertex cur) = s.previous.pos := by simp [botPos, hv]
    have hGnew : G pos (s.vertex cur) = sumW pos s.tris + sumW pos (fanTris cur s.stack.reverse) := by
      simp only [G, hbot']
      simp only [hv, sumW_append, List.map_cons, List.map_nil, chainT_cons2, chainT_single]
      rw [E_anti cur.pos s.previous.pos]; ring
    have hcanon : sg s.previous.left * fanC cur.pos (s.stack.reverse.map (·.pos)) =
        sg s.previous.left * (chainT (s.stack.map (·.pos)) + E s.previous.pos (botPos s)) +
          wind (lastL s) cur.pos (lastR s) := by
      simp only [lastL, lastR]
      rw [← halg, htel]; ring
    refine ⟨⟨⟨_, by rw [hv]⟩, ?_⟩, ?_, ?_, ?_, ?_⟩
    · intro v hv'
      rw [hv] at hv'
      simp only [List.mem_cons, List.not_mem_nil, or_false] at hv'
      rcases hv' with e | e
      · exact e ▸ hc
      · exact e ▸ hprev
    · simp only [lastL, hbot']; rw [hv]
      revert hside; cases cur.left <;> cases s.previous.left <;> simp
    · simp only [lastR, hbot']; rw [hv]
      revert hside; cases cur.left <;> cases s.previous.left <;> simp
    · rw [hGnew]; simp only [G]
      linarith [hfan.1, hcanon]
    · intro hnf
      rcases hnf with e | e
      · exact absurd e hside
      · rw [hGnew]; simp only [G]
        rw [hfan.2 e, hcanon]; ring

/-! ## a whole run -/

/-- a state whose stack is `[previous, x]` (what a change of side leaves): the stack polygon is empty -/
theorem G_two (pos : Nat → P K) (s : Basic K) (x : MV K) (h : s.stack = [s.previous, x]) :
    G pos s = sumW pos s.tris := by
  simp only [G, botPos, h, List.map_cons, List.map_nil, chainT_cons2, chainT_single]
  simp only [List.getLast?_cons_cons, List.getLast?_singleton, Option.map_some, Option.getD_some]
  rw [E_anti s.previous.pos x.pos]; ring

theorem end_stack (s : Basic K) (pe : P K) (ide : Nat) :
    (s.vertex ⟨pe, ide, !s.previous.left⟩).stack = [(s.vertex ⟨pe, ide, !s.previous.left⟩).previous, s.previous] := by
  have : ((!s.previous.left) != s.previous.left) = true := by cases s.previous.left <;> rfl
  simp only [Basic.vertex, this, if_true]

/-- area the polygon still gains when the remaining vertices (`vs`, then the bottom vertex `pe`)
are fed: each vertex `p` adds the triangle `(lastLeft, p, lastRight)` -/
noncomputable def polyAcc (lL lR : P K) : List (P K × Bool) → P K → K
  | [], pe => wind lL pe lR
  | (p, l) :: r, pe => wind lL p lR + polyAcc (if l then p else lL) (if l then lR else p) r pe

/-- no fan triangle is flipped during the rest of the run -/
def NoFlipRun (s : Basic K) (k : Nat) : List (P K × Bool) → P K → Nat → Prop
  | [], pe, ide => NoFlip s ⟨pe, ide, !s.previous.left⟩
  | (p, l) :: r, pe, ide => NoFlip s ⟨p, k, l⟩ ∧ NoFlipRun (s.vertex ⟨p, k, l⟩) (k + 1) r pe ide

theorem feed_area (pos : Nat → P K) (vs : List (P K × Bool)) (s : Basic K) (k : Nat) (pe : P K) (ide : Nat)
    (hpos : ∀ i (h : i < vs.length), pos (k + i) = vs[i].1) (hpe : pos ide = pe) (h : BInv pos s) :
    G pos s + polyAcc (lastL s) (lastR s) vs pe ≤ sumW pos ((feed s k vs).end_ pe ide).tris ∧
    (NoFlipRun s k vs pe ide →
      sumW pos ((feed s k vs).end_ pe ide).tris = G pos s + polyAcc (lastL s) (lastR s) vs pe) := by
  induction vs generalizing s k with
  | nil =>
    have hc : Good pos (⟨pe, ide, !s.previous.left⟩ : MV K) := hpe.symm
    obtain ⟨_, _, _, h4, h5⟩ := vertex_area pos s _ h hc
    have hg := G_two pos _ _ (end_stack s pe ide)
    simp only [feed, Basic.end_, polyAcc, NoFlipRun]
    rw [hg] at h4 h5
    exact ⟨h4, h5⟩
  | cons v r ih =>
    obtain ⟨p, l⟩ := v
    have hc : Good pos (⟨p, k, l⟩ : MV K) := by
      have := hpos 0 (by simp)
      simpa [Good] using this.symm
    obtain ⟨h1, h2, h3, h4, h5⟩ := vertex_area pos s _ h hc
    have ih' := ih (s.vertex ⟨p, k, l⟩) (k + 1) (by
      intro i hi
      have := hpos (i + 1) (by simp only [List.length_cons]; omega)
      simp only [List.getElem_cons_succ] at this
      rw [← this]; congr 1; omega) h1
    simp only [feed, polyAcc, NoFlipRun]
    rw [h2, h3] at ih'
    constructor
    · linarith [ih'.1]
    · rintro ⟨n1, n2⟩
      rw [ih'.2 n2, h5 n1]; ring

/-! ## the initial state -/

theorem begin_bInv (pos : Nat → P K) (p0 : P K) (h0 : pos 0 = p0) : BInv pos (Basic.begin p0 0) := by
  refine ⟨⟨[], rfl⟩, ?_⟩
  intro v hv
  simp only [Basic.begin, List.mem_singleton] at hv
  subst hv; exact h0.symm

theorem begin_G (pos : Nat → P K) (p0 : P K) : G pos (Basic.begin p0 0) = 0 := by
  simp [G, Basic.begin, botPos, sg, E_self]

theorem begin_lastL (p0 : P K) : lastL (Basic.begin p0 0) = p0 := by simp [lastL, Basic.begin]
theorem begin_lastR (p0 : P K) : lastR (Basic.begin p0 0) = p0 := by simp [lastR, Basic.begin, botPos]

/-! ## the polygon of a sweep sequence and its shoelace area -/

def leftsOf (mids : List (P K × Bool)) : List (P K) := (mids.filter (fun v => v.2)).map (·.1)
def rightsOf (mids : List (P K × Bool)) : List (P K) := (mids.filter (fun v => !v.2)).map (·.1)

/-- the polygon as a closed vertex loop: apex, left chain downwards, bottom vertex, right chain
upwards (the side flags of the first and the last entry are ignored, as `begin`/`end` do) -/
def polygonOf (seq : List (P K × Bool)) : List (P K) :=
  match seq with
  | [] => []
  | [a] => [a.1]
  | (p0, _) :: rest =>
    p0 :: leftsOf (rest.take (rest.length - 1)) ++ [(rest.getLast?.map (·.1)).getD p0]
      ++ (rightsOf (rest.take (rest.length - 1))).reverse

/-- closed-polygon shoelace sum in lyon's orientation (y axis down):
`Σ E(q_i, q_{i+1}) = Σ (x_{i+1} y_i − x_i y_{i+1})`, twice the signed area -/
noncomputable def shoelaceW (l : List (P K)) : K :=
  match l with
  | [] => 0
  | a :: r => chainE (a :: r ++ [a])

theorem chainE_eq_sum (a z : P K) (r : List (P K)) :
    chainE (a :: r ++ [z]) = (((a :: r).zip (r ++ [z])).map (fun e => e.2.x * e.1.y - e.2.y * e.1.x)).sum := by
  induction r generalizing a with
  | nil => simp [chainE, E, geom]
  | cons b r' ih =>
    have := ih b
    simp only [List.cons_append, chainE_cons2, List.zip_cons_cons, List.map_cons, List.sum_cons] at this ⊢
    rw [this]
    simp [E, geom]

/-- `shoelaceW` written out: `Σ (x_{i+1} y_i − y_{i+1} x_i)` over the closed loop -/
theorem shoelaceW_eq_sum (a : P K) (r : List (P K)) :
    shoelaceW (a :: r) = (((a :: r).zip (r ++ [a])).map (fun e => e.2.x * e.1.y - e.2.y * e.1.x)).sum :=
  chainE_eq_sum a a r

theorem polyAcc_eq (a b : P K) (mids : List (P K × Bool)) (pe : P K) :
    polyAcc a b mids pe =
      chainE (a :: leftsOf mids ++ [pe]) - chainE (b :: rightsOf mids ++ [pe]) - E a b := by
  induction mids generalizing a b with
  | nil => simp [polyAcc, leftsOf, rightsOf, chainE, wind_eq, E_anti b a, E_anti b pe]; ring
  | cons v r ih =>
    obtain ⟨p, l⟩ := v
    cases l
    · simp only [polyAcc, Bool.false_eq_true, if_false, ih, leftsOf, rightsOf, List.filter_cons, Bool.not_false,
        if_true, List.map_cons, List.cons_append, chainE_cons2, wind_eq]
      rw [E_anti b a, E_anti b p]; ring
    · simp only [polyAcc, if_true, ih, leftsOf, rightsOf, List.filter_cons, Bool.not_true, Bool.false_eq_true,
        if_false, List.map_cons, List.cons_append, chainE_cons2, wind_eq]
      rw [E_anti b a]; ring

theorem shoelace_chains (p0 pe : P K) (L R : List (P K)) :
    shoelaceW (p0 :: L ++ [pe] ++ R.reverse) = chainE (p0 :: L ++ [pe]) - chainE (p0 :: R ++ [pe]) := by
  show chainE (p0 :: (L ++ [pe] ++ R.reverse) ++ [p0]) = _
  have e : p0 :: (L ++ [pe] ++ R.reverse) ++ [p0] = (p0 :: L) ++ pe :: (R.reverse ++ [p0]) := by simp
  have e2 : pe :: (R.reverse ++ [p0]) = (p0 :: R ++ [pe]).reverse := by simp
  rw [e, chainE_append, e2, chainE_reverse]
  simp only [List.cons_append]; ring

/-- `polyAcc` from the apex is the shoelace area of the polygon -/
theorem polyAcc_eq_shoelace (p0 : P K) (b0 : Bool) (v1 : P K × Bool) (rest : List (P K × Bool)) :
    polyAcc p0 p0 (List.take ((v1 :: rest).length - 1) (v1 :: rest)) (((v1 :: rest).getLast?.map (·.1)).getD p0) =
      shoelaceW (polygonOf ((p0, b0) :: v1 :: rest)) := by
  rw [polyAcc_eq, E_self]
  simp only [polygonOf]
  rw [shoelace_chains]; ring

end Geometry

end Lyon.C02c
