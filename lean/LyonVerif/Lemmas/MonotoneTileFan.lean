/-
  C02 growth 3 (`Props/C02f.lean`), part 3: emitted triangles as point sets, and the CHANGE-OF-SIDE
  step of the basic monotone tessellator as a `Tiles` step.

  * `TriIn pos t q` / `TriInC pos t q` — `q` strictly inside / in the closed triangle `t` (ids, in
    the EMITTED vertex order) at the registered positions;
  * `earTri_in`, `fanTri_in` — the emitted order is the positively oriented one;
  * `fan_tiles` — the fan `(s_i, s_{i+1}, cur)` over a reflex stack triangulates the polygon
    `U = s_0 … s_m, cur` (ears popped from the top);
  * `split_tiles` — the diagonal `s_m → cur` splits the remaining polygon into `U` and the new
    remaining polygon `P'`; together: `fan_step_tiles`.
-/
import LyonVerif.Lemmas.MonotoneTileChain

set_option linter.unusedSectionVars false
set_option linter.unusedVariables false
set_option linter.unusedSimpArgs false

namespace Lyon.C02f
open Lyon Lyon.Mono Lyon.C02 Lyon.C02c

section Geometry
variable {K : Type} [Field K] [LinearOrder K] [IsStrictOrderedRing K]

theorem wind_swap_bc (a b c : P K) : wind a c b = -wind a b c := by simp only [wind]; geom_ring
theorem wind_self_mid (a b : P K) : wind a a b = 0 := by simp only [wind]; geom_ring

/-! ## emitted triangles as point sets -/

/-- `q` lies strictly inside the emitted triangle `t` (vertex ids in emitted order) -/
def TriIn (pos : Nat → P K) (t : Tri) (q : P K) : Prop := InTri (pos t.1) (pos t.2.1) (pos t.2.2) q

/-- `q` lies in the closed emitted triangle `t` -/
def TriInC (pos : Nat → P K) (t : Tri) (q : P K) : Prop := InTriC (pos t.1) (pos t.2.1) (pos t.2.2) q

theorem earTri_in (pos : Nat → P K) (cur lp top : MV K) (hc : Good pos cur) (hlp : Good pos lp)
    (ht : Good pos top) (q : P K) :
    (TriIn pos (earTri cur lp top) q ↔ InTriS cur.left top.pos lp.pos cur.pos q) ∧
    (InTriSC cur.left top.pos lp.pos cur.pos q → TriInC pos (earTri cur lp top) q) := by
  unfold Good at hc hlp ht
  unfold earTri TriIn TriInC
  cases cur.left
  · simp only [Bool.false_eq_true, if_false]
    rw [← hc, ← hlp, ← ht, inTriS_false, inTriSC_false]
    exact ⟨Iff.rfl, id⟩
  · simp only [if_true]
    rw [← hc, ← hlp, ← ht, inTriS_true, inTriSC_true]
    exact ⟨Iff.rfl, id⟩

theorem fanTri_in (pos : Nat → P K) (c : Bool) (cur a b : MV K) (hc : Good pos cur) (ha : Good pos a)
    (hb : Good pos b) (hpos : 0 < sg c * wind a.pos b.pos cur.pos) (q : P K) :
    (TriIn pos (fanTri cur a b) q ↔ InTriS c a.pos b.pos cur.pos q) ∧
    (InTriSC c a.pos b.pos cur.pos q → TriInC pos (fanTri cur a b) q) := by
  unfold Good at hc ha hb
  rcases fanTri_cases cur a b with ⟨e, h⟩ | ⟨e, h⟩
  · have hc' : c = true := by
      cases c
      · simp only [sg, Bool.false_eq_true, if_false, neg_one_mul] at hpos; linarith
      · rfl
    subst hc'
    rw [e]; unfold TriIn TriInC
    simp only
    rw [← hc, ← ha, ← hb, inTriS_true, inTriSC_true]
    exact ⟨Iff.rfl, id⟩
  · have hc' : c = false := by
      cases c
      · rfl
      · simp only [sg, if_true, one_mul] at hpos
        rw [wind_swap] at h; linarith
    subst hc'
    rw [e]; unfold TriIn TriInC
    simp only
    rw [← hc, ← ha, ← hb, inTriS_false, inTriSC_false]
    exact ⟨Iff.rfl, id⟩

/-! ## the fan, popped from the top -/

/-- the fan triangles over a TOP-FIRST stack, top pair first -/
def fanTop {α : Type} [Scalar α] (cur : MV α) : List (MV α) → List Tri
  | y :: x :: r => fanTri cur x y :: fanTop cur (x :: r)
  | _ => []

theorem fanTris_snoc {α : Type} [Scalar α] (cur : MV α) (l : List (MV α)) (x y : MV α) :
    fanTris cur (l ++ [x, y]) = fanTris cur (l ++ [x]) ++ [fanTri cur x y] := by
  induction l with
  | nil => simp [fanTris]
  | cons a r ih =>
    cases r with
    | nil => simp [fanTris]
    | cons b r' =>
      simp only [List.cons_append, fanTris] at ih ⊢
      rw [ih]

/-- lyon emits the fan bottom pair first: the reverse of the pop order -/
theorem fanTris_reverse {α : Type} [Scalar α] (cur : MV α) (st : List (MV α)) :
    fanTris cur st.reverse = (fanTop cur st).reverse := by
  induction st with
  | nil => simp [fanTris, fanTop]
  | cons y r ih =>
    cases r with
    | nil => simp [fanTris, fanTop]
    | cons x r' =>
      rw [List.reverse_cons, List.reverse_cons, List.append_assoc]
      show fanTris cur (r'.reverse ++ [x, y]) = _
      rw [fanTris_snoc, ← List.reverse_cons, ih]
      simp [fanTop]

/-- in a top-first sorted list every element is at or after the last one -/
theorem last_le (l : List (P K)) (b : P K) (hs : l.Pairwise (fun a b => After a b)) (hl : l.getLast? = some b) :
    ∀ a ∈ l, AfterEq a b := by
  induction l with
  | nil => intro a ha; cases ha
  | cons x r ih =>
    cases r with
    | nil =>
      intro a ha
      simp only [List.getLast?_singleton, Option.some.injEq] at hl
      simp only [List.mem_singleton] at ha
      left; rw [ha, hl]
    | cons y r' =>
      rw [List.getLast?_cons_cons] at hl
      intro a ha
      rcases List.mem_cons.mp ha with e | e
      · right; rw [e]
        exact List.rel_of_pairwise_cons hs (List.mem_of_getLast? hl)
      · exact ih (List.Pairwise.of_cons hs) hl a e

theorem sortedP_reverse (l : List (P K)) (hs : l.Pairwise (fun a b => After a b)) : SortedP l.reverse := by
  unfold SortedP
  rw [List.pairwise_reverse]
  exact hs

/-- **the fan triangulates `U`** (`st` = the stack, top first; `bot` its last entry; every fan
pair strictly positive; every stack vertex but `bot` strictly on the stack's side of `bot → cur`) -/
theorem fan_tiles (pos : Nat → P K) (c : Bool) (cur bot : MV K) (O : List (P K)) (st : List (MV K))
    (hgood : ∀ v ∈ st, Good pos v) (hcur : Good pos cur) (hlast : st.getLast? = some bot)
    (hsort : (st.map (·.pos)).Pairwise (fun a b => After a b))
    (hcs : ∀ v ∈ st, After cur.pos v.pos)
    (hside : ∀ v ∈ st, v.pos = bot.pos ∨ 0 < sg c * wind bot.pos v.pos cur.pos)
    (hfan : FanPosT c cur.pos (st.map (·.pos))) :
    Tiles (InPoly c ((st.map (·.pos)).reverse ++ [cur.pos]) (bot.pos :: cur.pos :: O)) (TriIn pos) (TriInC pos)
      (fanTop cur st) (InPoly c [bot.pos, cur.pos] (bot.pos :: cur.pos :: O)) := by
  induction st with
  | nil => simp at hlast
  | cons y r ih =>
    cases r with
    | nil =>
      simp only [List.getLast?_singleton, Option.some.injEq] at hlast
      subst hlast
      simp only [fanTop, List.map_cons, List.map_nil, List.reverse_cons, List.reverse_nil, List.nil_append,
        List.cons_append]
      exact Tiles.refl _ _ _
    | cons x r' =>
      have hlast' : (x :: r').getLast? = some bot := by rw [List.getLast?_cons_cons] at hlast; exact hlast
      have hsort' := List.Pairwise.of_cons hsort
      have ih' := ih (fun v hv => hgood v (List.mem_cons_of_mem _ hv)) hlast' hsort'
        (fun v hv => hcs v (List.mem_cons_of_mem _ hv)) (fun v hv => hside v (List.mem_cons_of_mem _ hv)) hfan.2
      have hyx : After y.pos x.pos := List.rel_of_pairwise_cons hsort (by simp)
      have hdy : After cur.pos y.pos := hcs y (by simp)
      have hconv : 0 < sg c * wind x.pos y.pos cur.pos := hfan.1
      have hxb : AfterEq x.pos bot.pos :=
        last_le ((x :: r').map (·.pos)) bot.pos hsort' (by rw [List.getLast?_map, hlast']; rfl) x.pos (by simp)
      have conv : ∀ p : P K, sg (!c) * wind bot.pos cur.pos p = sg c * wind bot.pos p cur.pos := by
        intro p; rw [sg_not, wind_swap_bc]; ring
      have hx0 : 0 ≤ sg (!c) * wind bot.pos cur.pos x.pos := by
        rw [conv]
        rcases hside x (by simp) with e | e
        · rw [e, wind_self_mid]; simp
        · exact e.le
      have hy0 : 0 < sg (!c) * wind bot.pos cur.pos y.pos := by
        rw [conv]
        rcases hside y (by simp) with e | e
        · exfalso
          have : After y.pos bot.pos := after_trans_afterEq hyx hxb
          exact after_ne this e
        · exact e
      have hz0 : 0 ≤ sg (!c) * wind bot.pos cur.pos cur.pos := by rw [wind_self_right]; simp
      have hA : SortedP ((r'.map (·.pos)).reverse ++ [x.pos]) := by
        have := sortedP_reverse _ hsort'
        simpa using this
      have step := ear_tiles c ((r'.map (·.pos)).reverse) [] O hyx hdy hconv hA (by simp [SortedP]) hxb (Or.inl rfl)
        hx0 hy0 hz0
      have step' := step.map (fun _ => fanTri cur x y)
        (fun _ _ q => (fanTri_in pos c cur x y hcur (hgood x (by simp)) (hgood y (by simp)) hconv q).1)
        (fun _ _ q => (fanTri_in pos c cur x y hcur (hgood x (by simp)) (hgood y (by simp)) hconv q).2)
      have e1 : ((y :: x :: r').map (·.pos)).reverse ++ [cur.pos] =
          (r'.map (·.pos)).reverse ++ x.pos :: y.pos :: cur.pos :: [] := by simp
      have e2 : ((x :: r').map (·.pos)).reverse ++ [cur.pos] = (r'.map (·.pos)).reverse ++ x.pos :: cur.pos :: [] := by
        simp
      rw [e1]
      rw [e2] at ih'
      exact step'.trans ih'

/-! ## the diagonal `top → cur` -/

/-- a point of the diagonal `y → d` is in the closed triangle `(x, y, d)` -/
theorem diag_closed (c : Bool) {x y d q : P K} (hyx : After y x) (hdy : After d y) (hqy : AfterEq q y)
    (hdq : After d q) (hconv : 0 < sg c * wind x y d) (h0 : wind y d q = 0) : InTriSC c x y d q := by
  have hb := bary_sum x y d q
  rcases hqy with e | hqy
  · refine ⟨by rw [e, wind_self_right]; simp, by rw [h0]; simp, ?_⟩
    have : wind d x q = wind x y d := by rw [e, wind_cyc y d x, wind_cyc x y d]
    rw [this]; exact hconv.le
  have hu := after_hv hyx
  have hr := after_hv hqy
  have hr' := after_hv hdq
  have e1 : wind x y q = (q - y).cross (y - x) := by simp only [wind]; geom_ring
  have e2 : wind y d q = (q - y).cross (d - q) := by simp only [wind]; geom_ring
  have e3 : wind d x q = (d - q).cross (y - x) := by
    have : wind d x q = (d - q).cross (y - x) - wind y d q := by simp only [wind]; geom_ring
    rw [this, h0, sub_zero]
  refine ⟨?_, by rw [h0]; simp, ?_⟩
  · rw [e1]
    by_contra hn
    have hn := not_le.mp hn
    rw [hb, h0, e1, e3] at hconv
    rw [e2] at h0
    cases c
    · simp only [sg, Bool.false_eq_true, if_false, neg_one_mul] at hn hconv
      -- r×u > 0, so r'×u < 0: u×r' > 0, hence r×r' > 0
      have a1 : 0 < (q - y).cross (y - x) := by linarith
      have a2 : 0 < (y - x).cross (d - q) := by rw [cross_flip]; linarith
      have := cross_trans hr hu hr' a1 a2
      linarith
    · simp only [sg, if_true, one_mul] at hn hconv
      have a1 : 0 < (y - x).cross (q - y) := by rw [cross_flip]; linarith
      have a2 : 0 < (d - q).cross (y - x) := by linarith
      have := cross_trans hr' hu hr a2 a1
      rw [cross_flip] at this; linarith
  · rw [e3]
    by_contra hn
    have hn := not_le.mp hn
    rw [hb, h0, e1, e3] at hconv
    rw [e2] at h0
    cases c
    · simp only [sg, Bool.false_eq_true, if_false, neg_one_mul] at hn hconv
      have a1 : 0 < (d - q).cross (y - x) := by linarith
      have a2 : 0 < (y - x).cross (q - y) := by rw [cross_flip]; linarith
      have := cross_trans hr' hu hr a1 a2
      rw [cross_flip] at this; linarith
    · simp only [sg, if_true, one_mul] at hn hconv
      have a1 : 0 < (y - x).cross (d - q) := by rw [cross_flip]; linarith
      have a2 : 0 < (q - y).cross (y - x) := by linarith
      have := cross_trans hr hu hr' a2 a1
      linarith

end Geometry

end Lyon.C02f
