/-
  C14 helper lemmas: the views of `Model/Path/Store.lean` evaluated on exactly the storage a
  builder program produces (`emitPts`, `emitVerbs` of `Lemmas/PathStore.lean`).  Mathlib-free.
-/
import LyonVerif.Lemmas.PathStore

namespace Lyon.Path

variable {S : Type} [Inhabited S]
set_option linter.unusedSectionVars false
set_option linter.unusedVariables false
set_option linter.unusedSimpArgs false

/-! ### `Iter` -/

/-- `Iter` over the storage of a program (followed by anything) yields the program's
specification events and continues on what follows. -/
theorem iterGo_emit (n : Nat) (prog : Prog S) (st : Option (Pt S × Pt S)) (f : Pt S) (fa : List S)
    (cur first : Pt S) (vs' : List Verb) (pts' : List (Pt S))
    (hn : wellNestedFrom st.isSome prog = true) (ha : attrsOk n prog = true) (hfa : fa.length = n)
    (hst : ∀ f0 c0, st = some (f0, c0) → f = f0 ∧ first = f0 ∧ cur = c0) :
    ∃ c' f', iterGo (attribStride n) (emitVerbs prog ++ vs') (emitPts f fa prog ++ pts') cur first
      = (iterGo (attribStride n) vs' pts' c' f').map (specFrom st prog ++ ·) := by
  induction prog generalizing st f fa cur first with
  | nil => exact ⟨cur, first, by cases st <;> simp [emitVerbs, emitPts, specFrom]⟩
  | cons c r ih =>
    cases st with
    | none =>
      cases c with
      | begin p a =>
        simp only [attrsOk, Bool.and_eq_true, beq_iff_eq] at ha
        obtain ⟨c', f', h⟩ := ih (some (p, p)) p a p p (by simpa [wellNestedFrom] using hn) ha.2 ha.1
          (by intro f0 c0 h; cases h; exact ⟨rfl, rfl, rfl⟩)
        refine ⟨c', f', ?_⟩
        simp only [emitVerbs, emitPts, List.cons_append, List.append_assoc, iterGo,
          popSkip_endpoint n p a _ ha.1, Option.bind_some, h, Option.map_map, specFrom]
        rfl
      | line p a => simp [wellNestedFrom] at hn
      | quad c p a => simp [wellNestedFrom] at hn
      | cubic c1 c2 p a => simp [wellNestedFrom] at hn
      | end_ cl => simp [wellNestedFrom] at hn
    | some fc =>
      obtain ⟨f0, c0⟩ := fc
      obtain ⟨rfl, rfl, rfl⟩ := hst f0 c0 rfl
      cases c with
      | begin p a => simp [wellNestedFrom] at hn
      | line p a =>
        simp only [attrsOk, Bool.and_eq_true, beq_iff_eq] at ha
        obtain ⟨c', f', h⟩ := ih (some (first, p)) first fa p first (by simpa [wellNestedFrom] using hn) ha.2 hfa
          (by intro f0 c0 h; cases h; exact ⟨rfl, rfl, rfl⟩)
        refine ⟨c', f', ?_⟩
        simp only [emitVerbs, emitPts, List.cons_append, List.append_assoc, iterGo,
          popSkip_endpoint n p a _ ha.1, Option.bind_some, h, Option.map_map, specFrom]
        rfl
      | quad k p a =>
        simp only [attrsOk, Bool.and_eq_true, beq_iff_eq] at ha
        obtain ⟨c', f', h⟩ := ih (some (first, p)) first fa p first (by simpa [wellNestedFrom] using hn) ha.2 hfa
          (by intro f0 c0 h; cases h; exact ⟨rfl, rfl, rfl⟩)
        refine ⟨c', f', ?_⟩
        simp only [emitVerbs, emitPts, List.cons_append, List.append_assoc, iterGo, popPt,
          popSkip_endpoint n p a _ ha.1, Option.bind_some, h, Option.map_map, specFrom]
        rfl
      | cubic k1 k2 p a =>
        simp only [attrsOk, Bool.and_eq_true, beq_iff_eq] at ha
        obtain ⟨c', f', h⟩ := ih (some (first, p)) first fa p first (by simpa [wellNestedFrom] using hn) ha.2 hfa
          (by intro f0 c0 h; cases h; exact ⟨rfl, rfl, rfl⟩)
        refine ⟨c', f', ?_⟩
        simp only [emitVerbs, emitPts, List.cons_append, List.append_assoc, iterGo, popPt,
          popSkip_endpoint n p a _ ha.1, Option.bind_some, h, Option.map_map, specFrom]
        rfl
      | end_ cl =>
        simp only [attrsOk] at ha
        cases cl with
        | true =>
          obtain ⟨c', f', h⟩ := ih none first fa cur first (by simpa [wellNestedFrom] using hn) ha hfa
            (by intro f0 c0 h; cases h)
          refine ⟨c', f', ?_⟩
          simp only [emitVerbs, emitPts, List.cons_append, List.append_assoc, iterGo,
            popSkip_endpoint n first fa _ hfa, Option.bind_some, h, Option.map_map, specFrom]
          rfl
        | false =>
          obtain ⟨c', f', h⟩ := ih none first fa first first (by simpa [wellNestedFrom] using hn) ha hfa
            (by intro f0 c0 h; cases h)
          refine ⟨c', f', ?_⟩
          simp only [emitVerbs, emitPts, List.cons_append, List.append_assoc, iterGo,
            Option.bind_some, h, Option.map_map, specFrom]
          rfl

/-! ### `IterWithAttributes` -/

/-- a builder call seen as a call on attribute-carrying points (control points carry none) -/
def aCall : Call (Pt S) (List S) → Call (APt S) (List S)
  | .begin p a => .begin (p, a) a
  | .line p a => .line (p, a) a
  | .quad c p a => .quad (ctl c) (p, a) a
  | .cubic c1 c2 p a => .cubic (ctl c1) (ctl c2) (p, a) a
  | .end_ cl => .end_ cl

theorem wellNestedFrom_map_aCall (s : Bool) (prog : Prog S) :
    wellNestedFrom s (prog.map aCall) = wellNestedFrom s prog := by
  induction prog generalizing s with
  | nil => cases s <;> simp [wellNestedFrom]
  | cons c r ih => cases s <;> cases c <;> simp [wellNestedFrom, aCall, ih]

theorem iterAttrGo_emit (n : Nat) (prog : Prog S) (st : Option (APt S × APt S)) (f : Pt S)
    (fa : List S) (cur first : APt S) (vs' : List Verb) (pts' : List (Pt S))
    (hn : wellNestedFrom st.isSome prog = true) (ha : attrsOk n prog = true) (hfa : fa.length = n)
    (hst : ∀ f0 c0, st = some (f0, c0) → (f, fa) = f0 ∧ first = f0 ∧ cur = c0) :
    ∃ c' f', iterAttrGo n (emitVerbs prog ++ vs') (emitPts f fa prog ++ pts') cur first
      = (iterAttrGo n vs' pts' c' f').map (specFrom st (prog.map aCall) ++ ·) := by
  induction prog generalizing st f fa cur first with
  | nil => exact ⟨cur, first, by cases st <;> simp [emitVerbs, emitPts, specFrom]⟩
  | cons c r ih =>
    cases st with
    | none =>
      cases c with
      | begin p a =>
        simp only [attrsOk, Bool.and_eq_true, beq_iff_eq] at ha
        obtain ⟨c', f', h⟩ := ih (some ((p, a), (p, a))) p a (p, a) (p, a)
          (by simpa [wellNestedFrom] using hn) ha.2 ha.1
          (by intro f0 c0 h; cases h; exact ⟨rfl, rfl, rfl⟩)
        refine ⟨c', f', ?_⟩
        simp only [emitVerbs, emitPts, List.cons_append, List.append_assoc, iterAttrGo, List.map_cons,
          aCall, popEndpoint_endpoint n p a _ ha.1, Option.bind_some, h, Option.map_map, specFrom]
        rfl
      | line p a => simp [wellNestedFrom] at hn
      | quad c p a => simp [wellNestedFrom] at hn
      | cubic c1 c2 p a => simp [wellNestedFrom] at hn
      | end_ cl => simp [wellNestedFrom] at hn
    | some fc =>
      obtain ⟨f0, c0⟩ := fc
      obtain ⟨h1, rfl, rfl⟩ := hst f0 c0 rfl
      cases c with
      | begin p a => simp [wellNestedFrom] at hn
      | line p a =>
        simp only [attrsOk, Bool.and_eq_true, beq_iff_eq] at ha
        obtain ⟨c', f', h⟩ := ih (some (first, (p, a))) f fa (p, a) first
          (by simpa [wellNestedFrom] using hn) ha.2 hfa
          (by intro f0 c0 h; cases h; exact ⟨h1, rfl, rfl⟩)
        refine ⟨c', f', ?_⟩
        simp only [emitVerbs, emitPts, List.cons_append, List.append_assoc, iterAttrGo, List.map_cons,
          aCall, popEndpoint_endpoint n p a _ ha.1, Option.bind_some, h, Option.map_map, specFrom]
        rfl
      | quad k p a =>
        simp only [attrsOk, Bool.and_eq_true, beq_iff_eq] at ha
        obtain ⟨c', f', h⟩ := ih (some (first, (p, a))) f fa (p, a) first
          (by simpa [wellNestedFrom] using hn) ha.2 hfa
          (by intro f0 c0 h; cases h; exact ⟨h1, rfl, rfl⟩)
        refine ⟨c', f', ?_⟩
        simp only [emitVerbs, emitPts, List.cons_append, List.append_assoc, iterAttrGo, List.map_cons,
          aCall, popPt, popEndpoint_endpoint n p a _ ha.1, Option.bind_some, h, Option.map_map, specFrom]
        rfl
      | cubic k1 k2 p a =>
        simp only [attrsOk, Bool.and_eq_true, beq_iff_eq] at ha
        obtain ⟨c', f', h⟩ := ih (some (first, (p, a))) f fa (p, a) first
          (by simpa [wellNestedFrom] using hn) ha.2 hfa
          (by intro f0 c0 h; cases h; exact ⟨h1, rfl, rfl⟩)
        refine ⟨c', f', ?_⟩
        simp only [emitVerbs, emitPts, List.cons_append, List.append_assoc, iterAttrGo, List.map_cons,
          aCall, popPt, popEndpoint_endpoint n p a _ ha.1, Option.bind_some, h, Option.map_map, specFrom]
        rfl
      | end_ cl =>
        simp only [attrsOk] at ha
        cases cl with
        | true =>
          obtain ⟨c', f', h⟩ := ih none f fa (f, fa) first (by simpa [wellNestedFrom] using hn) ha hfa
            (by intro f0 c0 h; cases h)
          refine ⟨c', f', ?_⟩
          simp only [emitVerbs, emitPts, List.cons_append, List.append_assoc, iterAttrGo, List.map_cons,
            aCall, popEndpoint_endpoint n f fa _ hfa, Option.bind_some, h, Option.map_map, specFrom]
          rfl
        | false =>
          obtain ⟨c', f', h⟩ := ih none f fa first first (by simpa [wellNestedFrom] using hn) ha hfa
            (by intro f0 c0 h; cases h)
          refine ⟨c', f', ?_⟩
          simp only [emitVerbs, emitPts, List.cons_append, List.append_assoc, iterAttrGo, List.map_cons,
            aCall, Option.bind_some, h, Option.map_map, specFrom]
          rfl

/-! ### `IdIter` resolved through the path's position and attribute stores -/


theorem endpointA_at (P : PathData S) (pre rest : List (Pt S)) (p : Pt S) (a : List S)
    (hpts : P.points = pre ++ (endpointPts p a ++ rest)) (ha : a.length = P.numAttributes) :
    P.endpointA pre.length = some (p, a) := by
  have h1 : P.points[pre.length]? = some p := by simp [hpts, endpointPts]
  have h2 : P.points.drop (pre.length + 1) = packAttrs a ++ rest := by
    simp [hpts, endpointPts, List.drop_append]
  have h3 : pre.length + 1 + attribStride P.numAttributes ≤ P.points.length := by
    simp [hpts, endpointPts_length, ha]; omega
  simp only [PathData.endpointA, PathData.point, PathData.attributes, h1, Option.bind_some,
    interpolatedAttributes, h2, h3, if_true]
  by_cases h0 : P.numAttributes = 0
  · have : a = [] := List.eq_nil_of_length_eq_zero (by omega)
    simp [h0, this]
  · simp [h0, ← ha, flat_pack_take]

theorem ctrlA_at (P : PathData S) (pre rest : List (Pt S)) (c : Pt S)
    (hpts : P.points = pre ++ (c :: rest)) : P.ctrlA pre.length = some (ctl c) := by
  simp [PathData.ctrlA, PathData.point, hpts]


theorem resolveA_emit (P : PathData S) (prog : Prog S) (st : Option (APt S × APt S)) (f : Pt S)
    (fa : List S) (pre : List (Pt S)) (cur first : Nat)
    (hall : P.points = pre ++ emitPts f fa prog)
    (hn : wellNestedFrom st.isSome prog = true) (ha : attrsOk P.numAttributes prog = true)
    (hfa : fa.length = P.numAttributes)
    (hst0 : st = none → cur = pre.length)
    (hst : ∀ f0 c0, st = some (f0, c0) → (f, fa) = f0 ∧
      cur + (attribStride P.numAttributes + 1) = pre.length ∧
      P.endpointA cur = some c0 ∧ P.endpointA first = some f0) :
    resolveAll P.endpointA P.ctrlA
        (idIterGo (attribStride P.numAttributes + 1) (emitVerbs prog) cur first)
      = some (specFrom st (prog.map aCall)) := by
  induction prog generalizing st f fa pre cur first with
  | nil => cases st <;> simp [emitVerbs, idIterGo, resolveAll, specFrom]
  | cons c r ih =>
    cases st with
    | none =>
      have hc := hst0 rfl
      subst hc
      cases c with
      | begin p a =>
        simp only [attrsOk, Bool.and_eq_true, beq_iff_eq] at ha
        simp only [emitPts] at hall
        have hA := endpointA_at P pre _ p a hall ha.1
        have h := ih (some ((p, a), (p, a))) p a (pre ++ endpointPts p a) pre.length pre.length
          (by simpa using hall) (by simpa [wellNestedFrom] using hn) ha.2 ha.1 (by simp)
          (by intro f0 c0 h; cases h
              exact ⟨rfl, by simp [endpointPts_length, ha.1], hA, hA⟩)
        simp [emitVerbs, idIterGo, resolveAll, resolveEvent, hA, h, specFrom, aCall]
      | line p a => simp [wellNestedFrom] at hn
      | quad c p a => simp [wellNestedFrom] at hn
      | cubic c1 c2 p a => simp [wellNestedFrom] at hn
      | end_ cl => simp [wellNestedFrom] at hn
    | some fc =>
      obtain ⟨f0, c0⟩ := fc
      obtain ⟨h1, hlen, hcur, hfirst⟩ := hst f0 c0 rfl
      cases c with
      | begin p a => simp [wellNestedFrom] at hn
      | line p a =>
        simp only [attrsOk, Bool.and_eq_true, beq_iff_eq] at ha
        simp only [emitPts] at hall
        have hA := endpointA_at P pre _ p a hall ha.1
        rw [← hlen] at hA
        have h := ih (some (f0, (p, a))) f fa (pre ++ endpointPts p a)
          (cur + (attribStride P.numAttributes + 1)) first
          (by simpa using hall) (by simpa [wellNestedFrom] using hn) ha.2 hfa (by simp)
          (by intro f0' c0' h; cases h
              exact ⟨h1, by simp [endpointPts_length, ha.1, hlen], hA, hfirst⟩)
        simp [emitVerbs, idIterGo, resolveAll, resolveEvent, hA, hcur, h, specFrom, aCall]
      | quad k p a =>
        simp only [attrsOk, Bool.and_eq_true, beq_iff_eq] at ha
        simp only [emitPts] at hall
        have hK := ctrlA_at P pre _ k hall
        have hall' : P.points = (pre ++ [k]) ++ (endpointPts p a ++ emitPts f fa r) := by simpa using hall
        have hA := endpointA_at P (pre ++ [k]) _ p a hall' ha.1
        rw [← hlen] at hK
        simp only [List.length_append, List.length_singleton, ← hlen] at hA
        have h := ih (some (f0, (p, a))) f fa (pre ++ [k] ++ endpointPts p a)
          (cur + (attribStride P.numAttributes + 1) + 1) first
          (by simpa using hall) (by simpa [wellNestedFrom] using hn) ha.2 hfa (by simp)
          (by intro f0' c0' h; cases h
              exact ⟨h1, by simp [endpointPts_length, ha.1, ← hlen]; omega, hA, hfirst⟩)
        simp [emitVerbs, idIterGo, resolveAll, resolveEvent, hA, hK, hcur, h, specFrom, aCall]
      | cubic k1 k2 p a =>
        simp only [attrsOk, Bool.and_eq_true, beq_iff_eq] at ha
        simp only [emitPts] at hall
        have hK1 := ctrlA_at P pre _ k1 hall
        have hall1 : P.points = (pre ++ [k1]) ++ (k2 :: (endpointPts p a ++ emitPts f fa r)) := by
          simpa using hall
        have hK2 := ctrlA_at P (pre ++ [k1]) _ k2 hall1
        have hall' : P.points = (pre ++ [k1] ++ [k2]) ++ (endpointPts p a ++ emitPts f fa r) := by
          simpa using hall
        have hA := endpointA_at P (pre ++ [k1] ++ [k2]) _ p a hall' ha.1
        rw [← hlen] at hK1
        simp only [List.length_append, List.length_singleton, ← hlen] at hA hK2
        have h := ih (some (f0, (p, a))) f fa (pre ++ [k1] ++ [k2] ++ endpointPts p a)
          (cur + (attribStride P.numAttributes + 1) + 2) first
          (by simpa using hall) (by simpa [wellNestedFrom] using hn) ha.2 hfa (by simp)
          (by intro f0' c0' h; cases h
              exact ⟨h1, by simp [endpointPts_length, ha.1, ← hlen]; omega, hA, hfirst⟩)
        simp [emitVerbs, idIterGo, resolveAll, resolveEvent, hA, hK1, hK2, hcur, h, specFrom, aCall]
      | end_ cl =>
        simp only [attrsOk] at ha
        cases cl with
        | true =>
          simp only [emitPts] at hall
          have h := ih none f fa (pre ++ endpointPts f fa)
            (cur + (attribStride P.numAttributes + 1) * 2) first
            (by simpa using hall) (by simpa [wellNestedFrom] using hn) ha hfa
            (by intro _; simp [endpointPts_length, hfa, ← hlen]; omega)
            (by intro f0' c0' h; cases h)
          simp [emitVerbs, idIterGo, resolveAll, resolveEvent, hcur, hfirst, h, specFrom, aCall]
        | false =>
          simp only [emitPts] at hall
          have h := ih none f fa pre
            (cur + (attribStride P.numAttributes + 1)) first
            hall (by simpa [wellNestedFrom] using hn) ha hfa
            (by intro _; exact hlen)
            (by intro f0' c0' h; cases h)
          simp [emitVerbs, idIterGo, resolveAll, resolveEvent, hcur, hfirst, h, specFrom, aCall]


/-! ### dropping the attributes -/

theorem specFrom_aCall_fst (st : Option (APt S × APt S)) (prog : Prog S) :
    (specFrom st (prog.map aCall)).map (withPoints Prod.fst)
      = specFrom (st.map fun x => (x.1.1, x.2.1)) prog := by
  induction prog generalizing st with
  | nil => cases st <;> simp [specFrom]
  | cons c r ih =>
    cases st with
    | none => cases c <;> simp [specFrom, aCall, withPoints, ih]
    | some fc =>
      obtain ⟨f, c0⟩ := fc
      cases c <;> simp [specFrom, aCall, withPoints, ctl, ih]

theorem point_of_endpointA (P : PathData S) (i : Nat) (x : APt S) (h : P.endpointA i = some x) :
    P.point i = some x.1 := by
  simp only [PathData.endpointA] at h
  cases hp : P.point i with
  | none => simp [hp] at h
  | some q =>
    cases ha : P.attributes i with
    | none => simp [hp, ha] at h
    | some a => simp [hp, ha] at h; simp [← h]

theorem point_of_ctrlA (P : PathData S) (i : Nat) (x : APt S) (h : P.ctrlA i = some x) :
    P.point i = some x.1 := by
  simp only [PathData.ctrlA] at h
  cases hp : P.point i with
  | none => simp [hp] at h
  | some q => simp [hp] at h; simp [← h, ctl]

theorem resolveEvent_fst (P : PathData S) (e : Event Nat) (e' : Event (APt S))
    (h : resolveEvent P.endpointA P.ctrlA e = some e') :
    resolveEvent P.point P.point e = some (withPoints Prod.fst e') := by
  cases e with
  | begin a =>
    simp only [resolveEvent] at h ⊢
    cases ha : P.endpointA a with
    | none => simp [ha] at h
    | some x => simp [ha] at h; simp [point_of_endpointA P a x ha, ← h, withPoints]
  | line a b =>
    simp only [resolveEvent] at h ⊢
    cases ha : P.endpointA a with
    | none => simp [ha] at h
    | some x =>
      cases hb : P.endpointA b with
      | none => simp [ha, hb] at h
      | some y =>
        simp [ha, hb] at h
        simp [point_of_endpointA P a x ha, point_of_endpointA P b y hb, ← h, withPoints]
  | quad a c b =>
    simp only [resolveEvent] at h ⊢
    cases ha : P.endpointA a with
    | none => simp [ha] at h
    | some x =>
      cases hc : P.ctrlA c with
      | none => simp [ha, hc] at h
      | some k =>
        cases hb : P.endpointA b with
        | none => simp [ha, hb, hc] at h
        | some y =>
          simp [ha, hb, hc] at h
          simp [point_of_endpointA P a x ha, point_of_endpointA P b y hb, point_of_ctrlA P c k hc,
            ← h, withPoints]
  | cubic a c d b =>
    simp only [resolveEvent] at h ⊢
    cases ha : P.endpointA a with
    | none => simp [ha] at h
    | some x =>
      cases hc : P.ctrlA c with
      | none => simp [ha, hc] at h
      | some k =>
        cases hd : P.ctrlA d with
        | none => simp [ha, hc, hd] at h
        | some k2 =>
          cases hb : P.endpointA b with
          | none => simp [ha, hb, hc, hd] at h
          | some y =>
            simp [ha, hb, hc, hd] at h
            simp [point_of_endpointA P a x ha, point_of_endpointA P b y hb, point_of_ctrlA P c k hc,
              point_of_ctrlA P d k2 hd, ← h, withPoints]
  | end_ l f cl =>
    simp only [resolveEvent] at h ⊢
    cases ha : P.endpointA l with
    | none => simp [ha] at h
    | some x =>
      cases hb : P.endpointA f with
      | none => simp [ha, hb] at h
      | some y =>
        simp [ha, hb] at h
        simp [point_of_endpointA P l x ha, point_of_endpointA P f y hb, ← h, withPoints]

theorem resolveAll_fst (P : PathData S) (ids : List (Event Nat)) (evs : List (Event (APt S)))
    (h : resolveAll P.endpointA P.ctrlA ids = some evs) :
    resolveAll P.point P.point ids = some (evs.map (withPoints Prod.fst)) := by
  induction ids generalizing evs with
  | nil => simp [resolveAll] at h ⊢; simp [← h]
  | cons e r ih =>
    simp only [resolveAll] at h ⊢
    cases he : resolveEvent P.endpointA P.ctrlA e with
    | none => simp [he] at h
    | some e' =>
      cases hr : resolveAll P.endpointA P.ctrlA r with
      | none => simp [he, hr] at h
      | some r' =>
        simp [he, hr] at h
        simp [resolveEvent_fst P e e' he, ih r' hr, ← h]

end Lyon.Path
