/-
  C03f — the triangles of `fill_circle` do not overlap: from the mesh to point triples, and the
  whole circle.

  * `meshTris`            the triangles of a mesh as point triples (vertex ids resolved)
  * `border_meshTris`     a border call appends exactly `capTris`
  * `circle_meshTris`     the circle mesh = the two triangles of the square ++ the four caps
  * `circleTris_pairwise` that list is pairwise disjoint: the caps are separated from each other and
                          from the square by their chords, the two halves of the square by its diagonal
-/
import LyonVerif.Lemmas.CircleCoverDisjoint

set_option linter.unusedSectionVars false
set_option linter.unusedVariables false

namespace Lyon.C03c
open Lyon Lyon.Shapes Lyon.C03

variable {K : Type} [Field K] [LinearOrder K] [IsStrictOrderedRing K] [Transc K]

noncomputable section

/-- a triangle of the index buffer with its vertex ids resolved (`d` for an invalid id: never used,
`C03.circle_tris_distinct`) -/
def ptsOf (vs : List (P K)) (d : P K) (t : Tri) : Tri3 K := (vs.getD t.1 d, vs.getD t.2.1 d, vs.getD t.2.2 d)

/-- the triangles of a mesh as point triples, in emission order -/
def meshTris (m : Mesh K) (d : P K) : List (Tri3 K) := m.tris.map (ptsOf m.verts d)

def IdsOk (m : Mesh K) : Prop :=
  ∀ t ∈ m.tris, t.1 < m.verts.length ∧ t.2.1 < m.verts.length ∧ t.2.2 < m.verts.length

theorem getD_append_left (l1 l2 : List (P K)) (d : P K) (i : Nat) (h : i < l1.length) :
    (l1 ++ l2).getD i d = l1.getD i d := by
  simp [List.getD, List.getElem?_append_left h]

theorem getD_of_getElem? (l : List (P K)) (d X : P K) (i : Nat) (h : l[i]? = some X) : l.getD i d = X := by
  simp [List.getD, h]

/-- **a border call appends exactly `capTris`** to the resolved triangle list -/
theorem border_meshTris (c d : P K) (r : K) (n : Nat) (a0 a1 : K) (va vb : Nat) (m : Mesh K) (A B : P K)
    (hA : m.verts[va]? = some A) (hB : m.verts[vb]? = some B) (hok : IdsOk m) :
    meshTris (fillBorderRadius c a0 a1 r va vb n m) d = meshTris m d ++ capTris c r n a0 a1 A B ∧
    IdsOk (fillBorderRadius c a0 a1 r va vb n m) := by
  induction n generalizing a0 a1 va vb m A B with
  | zero => exact ⟨by simp [fillBorderRadius, capTris], hok⟩
  | succ n ih =>
    simp only [fillBorderRadius]
    set mid := (a0 + a1) * Scalar.half with hmid
    set M : P K := c + (⟨Transc.cos mid, Transc.sin mid⟩ : P K).smul r with hM
    have hMp : M = pos c r mid := rfl
    set m1 : Mesh K := ⟨m.verts ++ [M], m.tris ++ [(vb, m.verts.length, va)]⟩ with hm1
    have e1 : Extends m m1 := ⟨⟨[M], rfl⟩, ⟨[_], rfl⟩⟩
    have hMv : m1.verts[m.verts.length]? = some M := by simp [hm1]
    have hlen1 : m1.verts.length = m.verts.length + 1 := by simp [hm1]
    have hva : va < m.verts.length := by
      by_contra hc; rw [List.getElem?_eq_none (not_lt.1 hc)] at hA; exact absurd hA (by simp)
    have hvb : vb < m.verts.length := by
      by_contra hc; rw [List.getElem?_eq_none (not_lt.1 hc)] at hB; exact absurd hB (by simp)
    have hok1 : IdsOk m1 := by
      intro t ht
      simp only [hm1, List.mem_append, List.mem_cons, List.not_mem_nil, or_false] at ht
      rcases ht with ht | ht
      · obtain ⟨x, y, z⟩ := hok t ht
        rw [hlen1]; exact ⟨by omega, by omega, by omega⟩
      · subst ht; rw [hlen1]
        show vb < m.verts.length + 1 ∧ m.verts.length < m.verts.length + 1 ∧ va < m.verts.length + 1
        exact ⟨by omega, by omega, by omega⟩
    have hmt1 : meshTris m1 d = meshTris m d ++ [(B, M, A)] := by
      simp only [meshTris, hm1, List.map_append, List.map_cons, List.map_nil]
      congr 1
      · apply List.map_congr_left
        intro t ht
        obtain ⟨x, y, z⟩ := hok t ht
        simp only [ptsOf, getD_append_left _ _ _ _ x, getD_append_left _ _ _ _ y, getD_append_left _ _ _ _ z]
      · have g1 := getD_of_getElem? _ d _ _ (e1.vert hB)
        have g2 := getD_of_getElem? _ d _ _ hMv
        have g3 := getD_of_getElem? _ d _ _ (e1.vert hA)
        simp only [hm1] at g1 g2 g3
        simp only [ptsOf, g1, g2, g3]
    set m2 := fillBorderRadius c a0 mid r va m.verts.length n m1 with hm2
    have e2 : Extends m1 m2 := border_extends ..
    obtain ⟨t2, ok2⟩ := ih a0 mid va m.verts.length m1 A M (e1.vert hA) hMv hok1
    obtain ⟨t3, ok3⟩ := ih mid a1 m.verts.length vb m2 M B (e2.vert hMv) ((e1.trans e2).vert hB) ok2
    refine ⟨?_, ok3⟩
    rw [t3, t2, hmt1, List.append_assoc, List.append_assoc]
    rfl

/-- the triangles of the circle mesh of depth `n`, as point triples: the square, then the four caps -/
def circleTris (c : P K) (r : K) (n : Nat) : List (Tri3 K) :=
  let pi := (Transc.pi : K)
  let v := fun i => (axisVerts c r).getD i c
  [(v 0, v 3, v 1), (v 1, v 3, v 2)] ++
  capTris c r n pi (Scalar.ofSci 15 1 * pi) (v 0) (v 1) ++
  capTris c r n (Scalar.ofSci 15 1 * pi) (Scalar.two * pi) (v 1) (v 2) ++
  capTris c r n Scalar.zero (pi * Scalar.half) (v 2) (v 3) ++
  capTris c r n (pi * Scalar.half) pi (v 3) (v 0)

/-- **the triangles `fill_circle` emits, resolved to points, are `circleTris`** -/
theorem circle_meshTris (c : P K) (r tol : K) (m : Mesh K) (h : fillCircle c r tol = some m) :
    meshTris m c = circleTris c (Scalar.abs r) (circleRecursions (Scalar.abs r) tol) := by
  unfold fillCircle at h
  simp only [] at h
  split at h
  · exact absurd h (by simp)
  · injection h with h
    subst h
    set R := Scalar.abs r with hR
    set n := circleRecursions R tol with hn
    set pi := (Transc.pi : K) with hpi
    have hVd : axisVerts c R = [c + (⟨-Scalar.one, Scalar.zero⟩ : P K).smul R, c + (⟨Scalar.zero, -Scalar.one⟩ : P K).smul R,
      c + (⟨Scalar.one, Scalar.zero⟩ : P K).smul R, c + (⟨Scalar.zero, Scalar.one⟩ : P K).smul R] := rfl
    set m0 : Mesh K := ⟨axisVerts c R, [(0, 3, 1), (1, 3, 2)]⟩ with hm0
    have g0 : m0.verts[0]? = some ((axisVerts c R).getD 0 c) := by simp [hm0, hVd]
    have g1 : m0.verts[1]? = some ((axisVerts c R).getD 1 c) := by simp [hm0, hVd]
    have g2 : m0.verts[2]? = some ((axisVerts c R).getD 2 c) := by simp [hm0, hVd]
    have g3 : m0.verts[3]? = some ((axisVerts c R).getD 3 c) := by simp [hm0, hVd]
    have ok0 : IdsOk m0 := by
      intro t ht
      simp only [hm0, List.mem_cons, List.not_mem_nil, or_false] at ht
      rcases ht with ht | ht <;> subst ht <;> simp [hm0, hVd]
    have t0 : meshTris m0 c = [((axisVerts c R).getD 0 c, (axisVerts c R).getD 3 c, (axisVerts c R).getD 1 c),
        ((axisVerts c R).getD 1 c, (axisVerts c R).getD 3 c, (axisVerts c R).getD 2 c)] := by
      simp [meshTris, ptsOf, hm0]
    set m1 := fillBorderRadius c pi (Scalar.ofSci 15 1 * pi) R 0 1 n m0 with hm1
    set m2 := fillBorderRadius c (Scalar.ofSci 15 1 * pi) (Scalar.two * pi) R 1 2 n m1 with hm2
    set m3 := fillBorderRadius c Scalar.zero (pi * Scalar.half) R 2 3 n m2 with hm3
    have e1 : Extends m0 m1 := border_extends ..
    have e2 : Extends m1 m2 := border_extends ..
    have e3 : Extends m2 m3 := border_extends ..
    obtain ⟨t1, ok1⟩ := border_meshTris c c R n _ _ 0 1 m0 _ _ g0 g1 ok0
    obtain ⟨t2, ok2⟩ := border_meshTris c c R n _ _ 1 2 m1 _ _ (e1.vert g1) (e1.vert g2) ok1
    obtain ⟨t3, ok3⟩ := border_meshTris c c R n _ _ 2 3 m2 _ _ ((e1.trans e2).vert g2) ((e1.trans e2).vert g3) ok2
    obtain ⟨t4, _⟩ := border_meshTris c c R n _ _ 3 0 m3 _ _ ((e1.trans (e2.trans e3)).vert g3)
      ((e1.trans (e2.trans e3)).vert g0) ok3
    show meshTris (fillBorderRadius c (pi * Scalar.half) pi R 3 0 n m3) c = _
    rw [t4, t3, t2, t1, t0]
    rfl

/-! ### the whole circle -/

/-- the two triangles of the square are separated by its vertical diagonal -/
theorem square_disj (c : P K) (r : K) (hr : 0 ≤ r) :
    Disj ((axisVerts c r).getD 1 c, (axisVerts c r).getD 3 c, (axisVerts c r).getD 2 c)
         ((axisVerts c r).getD 0 c, (axisVerts c r).getD 3 c, (axisVerts c r).getD 1 c) := by
  apply disj_of_sep _ _ c ⟨0, 1⟩ (Or.inr one_ne_zero)
  · simp only [axisVerts, List.getD_cons_zero, List.getD_cons_succ, geom, Nat.cast_zero, Nat.cast_one]
    refine ⟨?_, ?_, ?_⟩ <;> nlinarith
  · simp only [axisVerts, List.getD_cons_zero, List.getD_cons_succ, geom, Nat.cast_zero, Nat.cast_one]
    refine ⟨?_, ?_, ?_⟩ <;> nlinarith

/-- **the triangles of the circle mesh are pairwise disjoint** (no point strictly inside two) -/
theorem circleTris_pairwise (L : CircTrig K) (c : P K) (r : K) (hr : 0 < r) (n : Nat) :
    (circleTris c r n).Pairwise Disj := by
  obtain ⟨v0, v1, v2, v2', v3⟩ := axisVerts_eq L c r
  have hpi := L.pi_pos
  have hr0 : r ≠ 0 := ne_of_gt hr
  set π := (Transc.pi : K) with hπ
  -- the four quadrant angle pairs, in plain form
  have A1 : Scalar.ofSci 15 1 * π = 3 * π / 2 := ang_three_half
  have A2 : Scalar.two * π = 2 * π := ang_two
  have A0 : (Scalar.zero : K) = 0 := ang_zero
  have Ah : π * Scalar.half = π / 2 := ang_half
  -- the axis vertices on arcs (every representation used below)
  have p0 : ∀ lo hi : K, (lo ≤ π ∧ π ≤ hi) ∨ (lo ≤ 3 * π ∧ 3 * π ≤ hi) → OnArc c r lo hi ((axisVerts c r).getD 0 c) := by
    rintro lo hi (⟨a, b⟩ | ⟨a, b⟩)
    · exact ⟨π, a, b, v0⟩
    · exact ⟨π + 2 * π, by linarith, by linarith, by rw [pos_periodic L]; exact v0⟩
  have p1 : ∀ lo hi : K, (lo ≤ 3 * π / 2 ∧ 3 * π / 2 ≤ hi) ∨ (lo ≤ 7 * π / 2 ∧ 7 * π / 2 ≤ hi) →
      OnArc c r lo hi ((axisVerts c r).getD 1 c) := by
    rintro lo hi (⟨a, b⟩ | ⟨a, b⟩)
    · exact ⟨3 * π / 2, a, b, by rw [v1, A1]⟩
    · exact ⟨3 * π / 2 + 2 * π, by linarith, by linarith, by rw [pos_periodic L, v1, A1]⟩
  have p2 : ∀ lo hi : K, (lo ≤ 2 * π ∧ 2 * π ≤ hi) ∨ (lo ≤ 0 ∧ 0 ≤ hi) → OnArc c r lo hi ((axisVerts c r).getD 2 c) := by
    rintro lo hi (⟨a, b⟩ | ⟨a, b⟩)
    · exact ⟨2 * π, a, b, by rw [v2, A2]⟩
    · exact ⟨0, a, b, by rw [v2', A0]⟩
  have p3 : ∀ lo hi : K, (lo ≤ π / 2 ∧ π / 2 ≤ hi) ∨ (lo ≤ 5 * π / 2 ∧ 5 * π / 2 ≤ hi) →
      OnArc c r lo hi ((axisVerts c r).getD 3 c) := by
    rintro lo hi (⟨a, b⟩ | ⟨a, b⟩)
    · exact ⟨π / 2, a, b, by rw [v3, Ah]⟩
    · exact ⟨π / 2 + 2 * π, by linarith, by linarith, by rw [pos_periodic L, v3, Ah]⟩
  -- the caps, with their arcs
  have q1 := cap_arc c r n π (Scalar.ofSci 15 1 * π) (by rw [A1]; linarith)
  have q2 := cap_arc c r n (Scalar.ofSci 15 1 * π) (Scalar.two * π) (by rw [A1, A2]; linarith)
  have q3 := cap_arc c r n Scalar.zero (π * Scalar.half) (by rw [A0, Ah]; linarith)
  have q4 := cap_arc c r n (π * Scalar.half) π (by rw [Ah]; linarith)
  have w1 := cap_pairwise L c r hr0 n π (Scalar.ofSci 15 1 * π) (by rw [A1]; linarith) (by rw [A1]; linarith)
  have w2 := cap_pairwise L c r hr0 n (Scalar.ofSci 15 1 * π) (Scalar.two * π) (by rw [A1, A2]; linarith) (by rw [A1, A2]; linarith)
  have w3 := cap_pairwise L c r hr0 n Scalar.zero (π * Scalar.half) (by rw [A0, Ah]; linarith) (by rw [A0, Ah]; linarith)
  have w4 := cap_pairwise L c r hr0 n (π * Scalar.half) π (by rw [Ah]; linarith) (by rw [Ah]; linarith)
  rw [← v0, ← v1] at q1 w1
  rw [← v1, ← v2] at q2 w2
  rw [← v2', ← v3] at q3 w3
  rw [← v3, ← v0] at q4 w4
  -- the same with the arcs in plain form
  have r1 : ∀ T ∈ capTris c r n π (Scalar.ofSci 15 1 * π) ((axisVerts c r).getD 0 c) ((axisVerts c r).getD 1 c),
      ArcTri c r π (3 * π / 2) T := fun T hT => by have := q1 T hT; rwa [A1] at this
  have r2 : ∀ T ∈ capTris c r n (Scalar.ofSci 15 1 * π) (Scalar.two * π) ((axisVerts c r).getD 1 c) ((axisVerts c r).getD 2 c),
      ArcTri c r (3 * π / 2) (2 * π) T := fun T hT => by have := q2 T hT; rwa [A1, A2] at this
  have r3 : ∀ T ∈ capTris c r n Scalar.zero (π * Scalar.half) ((axisVerts c r).getD 2 c) ((axisVerts c r).getD 3 c),
      ArcTri c r 0 (π / 2) T := fun T hT => by have := q3 T hT; rwa [A0, Ah] at this
  have r4 : ∀ T ∈ capTris c r n (π * Scalar.half) π ((axisVerts c r).getD 3 c) ((axisVerts c r).getD 0 c),
      ArcTri c r (π / 2) π T := fun T hT => by have := q4 T hT; rwa [Ah] at this
  -- a cap triangle (arc [a,b]) against a triangle on the complementary arc
  have sep : ∀ (a b : K) (T1 T2 : Tri3 K), 0 < b - a → b - a < 2 * π → ArcTri c r a b T1 →
      ArcTri c r b (a + 2 * π) T2 → Disj T2 T1 := fun a b T1 T2 h0 h1 t1 t2 =>
    (disj_of_arcs L c r a b hr0 h0 h1 T1 T2 t1 t2).symm
  -- the two square triangles
  set S1 : Tri3 K := ((axisVerts c r).getD 0 c, (axisVerts c r).getD 3 c, (axisVerts c r).getD 1 c) with hS1
  set S2 : Tri3 K := ((axisVerts c r).getD 1 c, (axisVerts c r).getD 3 c, (axisVerts c r).getD 2 c) with hS2
  have sq : ∀ lo hi : K, ((lo ≤ π ∧ π ≤ hi) ∨ (lo ≤ 3 * π ∧ 3 * π ≤ hi)) →
      ((lo ≤ 3 * π / 2 ∧ 3 * π / 2 ≤ hi) ∨ (lo ≤ 7 * π / 2 ∧ 7 * π / 2 ≤ hi)) →
      ((lo ≤ 2 * π ∧ 2 * π ≤ hi) ∨ (lo ≤ 0 ∧ 0 ≤ hi)) →
      ((lo ≤ π / 2 ∧ π / 2 ≤ hi) ∨ (lo ≤ 5 * π / 2 ∧ 5 * π / 2 ≤ hi)) →
      ArcTri c r lo hi S1 ∧ ArcTri c r lo hi S2 := fun lo hi h0 h1 h2 h3 =>
    ⟨⟨p0 lo hi h0, p3 lo hi h3, p1 lo hi h1⟩, ⟨p1 lo hi h1, p3 lo hi h3, p2 lo hi h2⟩⟩
  -- the square on the complementary arc of each quadrant
  have sq1 := sq (3 * π / 2) (π + 2 * π) (Or.inr ⟨by linarith, by linarith⟩) (Or.inl ⟨by linarith, by linarith⟩)
    (Or.inl ⟨by linarith, by linarith⟩) (Or.inr ⟨by linarith, by linarith⟩)
  have sq2 := sq (2 * π) (3 * π / 2 + 2 * π) (Or.inr ⟨by linarith, by linarith⟩) (Or.inr ⟨by linarith, by linarith⟩)
    (Or.inl ⟨by linarith, by linarith⟩) (Or.inr ⟨by linarith, by linarith⟩)
  have sq3 := sq (π / 2) (0 + 2 * π) (Or.inl ⟨by linarith, by linarith⟩) (Or.inl ⟨by linarith, by linarith⟩)
    (Or.inl ⟨by linarith, by linarith⟩) (Or.inl ⟨by linarith, by linarith⟩)
  have sq4 := sq π (π / 2 + 2 * π) (Or.inl ⟨by linarith, by linarith⟩) (Or.inl ⟨by linarith, by linarith⟩)
    (Or.inl ⟨by linarith, by linarith⟩) (Or.inr ⟨by linarith, by linarith⟩)
  have hSS : Disj S1 S2 := (square_disj c r (le_of_lt hr)).symm
  simp only [circleTris]
  rw [List.pairwise_append, List.pairwise_append, List.pairwise_append, List.pairwise_append]
  refine ⟨⟨⟨⟨?_, w1, ?_⟩, w2, ?_⟩, w3, ?_⟩, w4, ?_⟩
  · rw [List.pairwise_cons]
    refine ⟨?_, List.pairwise_singleton _ _⟩
    intro T hT
    rw [List.mem_singleton] at hT
    rw [hT]; exact hSS
  · -- square vs Q1
    intro T hT T' hT'
    simp only [List.mem_cons, List.not_mem_nil, or_false] at hT
    rcases hT with rfl | rfl
    · exact sep π (3 * π / 2) T' _ (by linarith) (by linarith) (r1 T' hT') sq1.1
    · exact sep π (3 * π / 2) T' _ (by linarith) (by linarith) (r1 T' hT') sq1.2
  · -- square, Q1 vs Q2
    intro T hT T' hT'
    simp only [List.mem_append, List.mem_cons, List.not_mem_nil, or_false] at hT
    rcases hT with (rfl | rfl) | hT
    · exact sep (3 * π / 2) (2 * π) T' _ (by linarith) (by linarith) (r2 T' hT') sq2.1
    · exact sep (3 * π / 2) (2 * π) T' _ (by linarith) (by linarith) (r2 T' hT') sq2.2
    · exact sep (3 * π / 2) (2 * π) T' T (by linarith) (by linarith) (r2 T' hT')
        (((r1 T hT).shift L).mono (by linarith) (by linarith))
  · -- square, Q1, Q2 vs Q3
    intro T hT T' hT'
    simp only [List.mem_append, List.mem_cons, List.not_mem_nil, or_false] at hT
    rcases hT with ((rfl | rfl) | hT) | hT
    · exact sep 0 (π / 2) T' _ (by linarith) (by linarith) (r3 T' hT') sq3.1
    · exact sep 0 (π / 2) T' _ (by linarith) (by linarith) (r3 T' hT') sq3.2
    · exact sep 0 (π / 2) T' T (by linarith) (by linarith) (r3 T' hT') ((r1 T hT).mono (by linarith) (by linarith))
    · exact sep 0 (π / 2) T' T (by linarith) (by linarith) (r3 T' hT') ((r2 T hT).mono (by linarith) (by linarith))
  · -- square, Q1, Q2, Q3 vs Q4
    intro T hT T' hT'
    simp only [List.mem_append, List.mem_cons, List.not_mem_nil, or_false] at hT
    rcases hT with (((rfl | rfl) | hT) | hT) | hT
    · exact sep (π / 2) π T' _ (by linarith) (by linarith) (r4 T' hT') sq4.1
    · exact sep (π / 2) π T' _ (by linarith) (by linarith) (r4 T' hT') sq4.2
    · exact sep (π / 2) π T' T (by linarith) (by linarith) (r4 T' hT') ((r1 T hT).mono (by linarith) (by linarith))
    · exact sep (π / 2) π T' T (by linarith) (by linarith) (r4 T' hT') ((r2 T hT).mono (by linarith) (by linarith))
    · exact sep (π / 2) π T' T (by linarith) (by linarith) (r4 T' hT')
        (((r3 T hT).shift L).mono (by linarith) (by linarith))

end

end Lyon.C03c
