/-
  C02 growth 5 (`Props/C02h.lean`), part 2: the inner tessellator's steps and the chain-polygon cut
  WITHOUT general position: a fan pair may be degenerate and stack vertices may lie ON the chord
  `bot → cur` (`fan_tilesW`, `fan_step_tilesW`: `FanLeT` instead of `FanPosT`), a popped ear may be
  degenerate (`pop_tilesW`), the chain polygon's fan may contain zero-area triangles
  (`chain_fan_tilesW`).
-/
import LyonVerif.Lemmas.MonotoneTileAdvAllFan

set_option linter.unusedSectionVars false
set_option linter.unusedVariables false
set_option linter.unusedSimpArgs false

namespace Lyon.C02f
open Lyon Lyon.Mono Lyon.C02 Lyon.C02c

section Geometry
variable {K : Type} [Field K] [LinearOrder K] [IsStrictOrderedRing K]

/-- a degenerate fan triangle has no interior, whichever way `fanTri` orders it -/
theorem fanTri_in_flat (pos : Nat → P K) (c : Bool) (cur a b : MV K) (hc : Good pos cur) (ha : Good pos a)
    (hb : Good pos b) (h0 : wind a.pos b.pos cur.pos = 0) (q : P K) :
    TriIn pos (fanTri cur a b) q ↔ InTriS c a.pos b.pos cur.pos q := by
  unfold Good at hc ha hb
  constructor
  · intro h
    exfalso
    rcases fanTri_cases cur a b with ⟨e, _⟩ | ⟨e, _⟩
    · rw [e] at h; unfold TriIn at h; simp only at h
      rw [← hc, ← ha, ← hb] at h
      have := inTri_pos h; rw [h0] at this; simp at this
    · rw [e] at h; unfold TriIn at h; simp only at h
      rw [← hc, ← ha, ← hb] at h
      have := inTri_pos h; rw [wind_swap, h0] at this; simp at this
  · intro h
    exfalso
    have := inTriS_pos h; rw [h0] at this; simp at this

/-- a point of a degenerate closed triangle (all three `wind`s zero) is in the closed emitted triangle -/
theorem fanTri_inC_flat (pos : Nat → P K) (c : Bool) (cur a b : MV K) (hc : Good pos cur) (ha : Good pos a)
    (hb : Good pos b) (h0 : wind a.pos b.pos cur.pos = 0) (q : P K) (h : InTriSC c a.pos b.pos cur.pos q) :
    TriInC pos (fanTri cur a b) q := by
  unfold Good at hc ha hb
  obtain ⟨h1, h2, h3⟩ := h
  have hs := bary_sum a.pos b.pos cur.pos q
  rw [h0] at hs
  have hsum : sg c * wind b.pos cur.pos q + sg c * wind cur.pos a.pos q + sg c * wind a.pos b.pos q = 0 := by
    have : sg c * (wind b.pos cur.pos q + wind cur.pos a.pos q + wind a.pos b.pos q) = 0 := by rw [← hs]; ring
    linarith
  have z : ∀ {w : K}, sg c * w = 0 → w = 0 := by
    intro w hw
    rcases mul_eq_zero.mp hw with g | g
    · exact absurd g (sg_ne_zero _)
    · exact g
  have z1 : wind a.pos b.pos q = 0 := z (by linarith)
  have z2 : wind b.pos cur.pos q = 0 := z (by linarith)
  have z3 : wind cur.pos a.pos q = 0 := z (by linarith)
  rcases fanTri_cases cur a b with ⟨e, _⟩ | ⟨e, _⟩
  · rw [e]; unfold TriInC InTriC; simp only
    rw [← hc, ← ha, ← hb, z1, z2, z3]; simp
  · rw [e]; unfold TriInC InTriC; simp only
    rw [← hc, ← ha, ← hb, wind_swap a.pos b.pos q, wind_swap cur.pos a.pos q, wind_swap b.pos cur.pos q, z1, z2, z3]
    simp

/-- the fan over a weakly positive stack (`FanLeT`), stack vertices possibly on the chord -/
theorem fan_tilesW (pos : Nat → P K) (c : Bool) (cur bot : MV K) (O : List (P K)) (st : List (MV K))
    (hgood : ∀ v ∈ st, Good pos v) (hcur : Good pos cur) (hlast : st.getLast? = some bot)
    (hsort : (st.map (·.pos)).Pairwise (fun a b => After a b))
    (hcs : ∀ v ∈ st, After cur.pos v.pos)
    (hside : ∀ v ∈ st, v.pos = bot.pos ∨ 0 ≤ sg c * wind bot.pos v.pos cur.pos)
    (hfan : FanLeT c cur.pos (st.map (·.pos))) :
    Tiles (InPoly c ((st.map (·.pos)).reverse ++ [cur.pos]) (bot.pos :: cur.pos :: O)) (TriIn pos) (TriInC pos)
      (fanTop cur st) (InPoly c [bot.pos, cur.pos] (bot.pos :: cur.pos :: O)) := by
  induction st with
  | nil => simp at hlast
  | cons y r ih =>
    cases r with
    | nil =>
      simp only [List.getLast?_singleton, Option.some.injEq] at hlast
      subst hlast
      simp only [fanTop, List.map_cons, List.map_nil, List.reverse_cons, List.reverse_nil, List.nil_append,
        List.cons_append]
      exact Tiles.refl _ _ _
    | cons x r' =>
      have hlast' : (x :: r').getLast? = some bot := by rw [List.getLast?_cons_cons] at hlast; exact hlast
      have hsort' := List.Pairwise.of_cons hsort
      have ih' := ih (fun v hv => hgood v (List.mem_cons_of_mem _ hv)) hlast' hsort'
        (fun v hv => hcs v (List.mem_cons_of_mem _ hv)) (fun v hv => hside v (List.mem_cons_of_mem _ hv)) hfan.2
      have hyx : After y.pos x.pos := List.rel_of_pairwise_cons hsort (by simp)
      have hdy : After cur.pos y.pos := hcs y (by simp)
      have hconvw : 0 ≤ sg c * wind x.pos y.pos cur.pos := hfan.1
      have hxb : AfterEq x.pos bot.pos :=
        last_le ((x :: r').map (·.pos)) bot.pos hsort' (by rw [List.getLast?_map, hlast']; rfl) x.pos (by simp)
      have conv : ∀ p : P K, sg (!c) * wind bot.pos cur.pos p = sg c * wind bot.pos p cur.pos := by
        intro p; rw [sg_not, wind_swap_bc]; ring
      have hx0 : 0 ≤ sg (!c) * wind bot.pos cur.pos x.pos := by
        rw [conv]
        rcases hside x (by simp) with e | e
        · rw [e, wind_self_mid]; simp
        · exact e
      have hy0 : 0 ≤ sg (!c) * wind bot.pos cur.pos y.pos := by
        rw [conv]
        rcases hside y (by simp) with e | e
        · rw [e, wind_self_mid]; simp
        · exact e
      have hz0 : 0 ≤ sg (!c) * wind bot.pos cur.pos cur.pos := by rw [wind_self_right]; simp
      have hcb : After cur.pos bot.pos := afterEq_trans_after (Or.inr hdy) (after_trans_afterEq hyx hxb) |> fun g => g
      have hA : SortedP ((r'.map (·.pos)).reverse ++ [x.pos]) := by
        have := sortedP_reverse _ hsort'
        simpa using this
      have step' : Tiles (InPoly c ((r'.map (·.pos)).reverse ++ x.pos :: y.pos :: cur.pos :: []) (bot.pos :: cur.pos :: O))
          (TriIn pos) (TriInC pos) [fanTri cur x y]
          (InPoly c ((r'.map (·.pos)).reverse ++ x.pos :: cur.pos :: []) (bot.pos :: cur.pos :: O)) := by
        by_cases hflat : wind x.pos y.pos cur.pos = 0
        · have step := flat_tiles c ((r'.map (·.pos)).reverse) [] (bot.pos :: cur.pos :: O) hyx hdy hflat
          exact step.map (fun _ => fanTri cur x y)
            (fun _ _ q => fanTri_in_flat pos c cur x y hcur (hgood x (by simp)) (hgood y (by simp)) hflat q)
            (fun _ _ q g => fanTri_inC_flat pos c cur x y hcur (hgood x (by simp)) (hgood y (by simp)) hflat q g)
        · have hconv : 0 < sg c * wind x.pos y.pos cur.pos := by
            refine lt_of_le_of_ne hconvw (Ne.symm ?_)
            intro e
            rcases mul_eq_zero.mp e with z | z
            · exact sg_ne_zero _ z
            · exact hflat z
          have step := ear_tiles_op c ((r'.map (·.pos)).reverse) [] (ChainIn (!c) (bot.pos :: cur.pos :: O)) hyx hdy hconv hA
            (by simp [SortedP]) (by
              intro q hq
              refine Or.inl ⟨⟨Or.inr (after_trans_afterEq (inTriS_after hyx hdy hq).1 hxb), (inTriS_after hyx hdy hq).2⟩, ?_⟩
              exact inTriS_side_weak hcb hq hx0 hy0 hz0)
          exact step.map (fun _ => fanTri cur x y)
            (fun _ _ q => (fanTri_in pos c cur x y hcur (hgood x (by simp)) (hgood y (by simp)) hconv q).1)
            (fun _ _ q => (fanTri_in pos c cur x y hcur (hgood x (by simp)) (hgood y (by simp)) hconv q).2)
      have e1 : ((y :: x :: r').map (·.pos)).reverse ++ [cur.pos] =
          (r'.map (·.pos)).reverse ++ x.pos :: y.pos :: cur.pos :: [] := by simp
      have e2 : ((x :: r').map (·.pos)).reverse ++ [cur.pos] = (r'.map (·.pos)).reverse ++ x.pos :: cur.pos :: [] := by
        simp
      rw [e1]
      rw [e2] at ih'
      exact step'.trans ih'


/-- the same-side step with an arbitrary opposite side that contains every possible ear -/
theorem pop_tilesW (pos : Nat → P K) (cur : MV K) (B : List (P K)) (Op : P K → Prop)
    (hcur : Good pos cur) (hB : SortedP (cur.pos :: B)) (st : List (MV K)) (lp : MV K)
    (hgood : ∀ v ∈ lp :: st, Good pos v)
    (hsort : ((lp :: st).map (·.pos)).Pairwise (fun a b => After a b))
    (hcs : ∀ v ∈ lp :: st, After cur.pos v.pos)
    (hO : ∀ u ∈ lp :: st, ∀ w ∈ lp :: st, After w.pos u.pos → ∀ q, InTriS cur.left u.pos w.pos cur.pos q → Op q) :
    Tiles (fun q => ChainIn cur.left (((lp :: st).map (·.pos)).reverse ++ cur.pos :: B) q ∧ Op q)
      (TriIn pos) (TriInC pos) (popLoop cur lp st).2
      (fun q => ChainIn cur.left (((popLoop cur lp st).1.map (·.pos)).reverse ++ cur.pos :: B) q ∧ Op q) := by
  induction st generalizing lp with
  | nil =>
    simp only [popLoop]
    exact Tiles.refl _ _ _
  | cons top rest ih =>
    simp only [popLoop]
    split
    · rename_i hconvb
      have hsort' := List.Pairwise.of_cons hsort
      have ih' := ih top (fun v hv => hgood v (List.mem_cons_of_mem _ hv)) hsort'
        (fun v hv => hcs v (List.mem_cons_of_mem _ hv))
        (fun u hu w hw => hO u (List.mem_cons_of_mem _ hu) w (List.mem_cons_of_mem _ hw))
      have hyx : After lp.pos top.pos := List.rel_of_pairwise_cons hsort (by simp)
      have hzy : After cur.pos lp.pos := hcs lp (by simp)
      have hA : SortedP ((rest.map (·.pos)).reverse ++ [top.pos]) := by
        have := sortedP_reverse _ hsort'
        simpa using this
      have step' : Tiles (fun q => ChainIn cur.left ((rest.map (·.pos)).reverse ++ top.pos :: lp.pos :: cur.pos :: B) q ∧ Op q)
          (TriIn pos) (TriInC pos) [earTri cur lp top]
          (fun q => ChainIn cur.left ((rest.map (·.pos)).reverse ++ top.pos :: cur.pos :: B) q ∧ Op q) := by
        by_cases hne : wind top.pos lp.pos cur.pos = 0
        · have step := flat_tiles_op cur.left ((rest.map (·.pos)).reverse) B Op
            (fun _ => InTriSC cur.left top.pos lp.pos cur.pos) hyx hzy hne
          exact step.map (fun _ => earTri cur lp top)
            (fun _ _ q => (earTri_in pos cur lp top hcur (hgood lp (by simp)) (hgood top (by simp)) q).1)
            (fun _ _ q => (earTri_in pos cur lp top hcur (hgood lp (by simp)) (hgood top (by simp)) q).2)
        · have hconv : 0 < sg cur.left * wind top.pos lp.pos cur.pos := by
            refine lt_of_le_of_ne (earConvex_true cur lp top hconvb) ?_
            intro e
            rcases mul_eq_zero.mp e.symm with z | z
            · exact sg_ne_zero _ z
            · exact hne z
          have step := ear_tiles_op cur.left ((rest.map (·.pos)).reverse) B Op hyx hzy hconv hA hB
            (hO top (by simp) lp (by simp) hyx)
          exact step.map (fun _ => earTri cur lp top)
            (fun _ _ q => (earTri_in pos cur lp top hcur (hgood lp (by simp)) (hgood top (by simp)) q).1)
            (fun _ _ q => (earTri_in pos cur lp top hcur (hgood lp (by simp)) (hgood top (by simp)) q).2)
      have e1 : ((lp :: top :: rest).map (·.pos)).reverse ++ cur.pos :: B =
          (rest.map (·.pos)).reverse ++ top.pos :: lp.pos :: cur.pos :: B := by simp
      have e2 : ((top :: rest).map (·.pos)).reverse ++ cur.pos :: B =
          (rest.map (·.pos)).reverse ++ top.pos :: cur.pos :: B := by simp
      rw [e1]
      rw [e2] at ih'
      exact step'.trans ih'
    · exact Tiles.refl _ _ _



/-- `split_sub_P0` when the stack's top may lie on the line `bot → cur` -/
theorem split_sub_PW (c : Bool) (S' Fc F' : List (P K)) {top bot d : P K} (hdt : After d top)
    (htb : top = bot ∨ (After top bot ∧ 0 ≤ sg c * wind bot top d)) (q : P K)
    (h : InPoly c (top :: Fc) (top :: d :: F') q) : InPoly c (S' ++ top :: Fc) (bot :: d :: F') q := by
  rcases htb with e | ⟨htb, hw⟩
  · exact split_sub_P0 c S' Fc F' hdt (Or.inl e) q h
  · by_cases hflat : wind bot top d = 0
    · refine ⟨(chainIn_append c S' top Fc q).mpr (Or.inr h.1), ?_⟩
      rcases h.2 with ⟨⟨hqt, hdq⟩, hin⟩ | g
      · left
        exact ⟨⟨Or.inr (afterEq_trans_after hqt htb), hdq⟩, (flat_to_z (!c) hdt (after_trans hdt htb) hflat).mp hin⟩
      · exact Or.inr g
    · refine split_sub_P0 c S' Fc F' hdt (Or.inr ⟨htb, lt_of_le_of_ne hw (Ne.symm ?_)⟩) q h
      intro e
      rcases mul_eq_zero.mp e with z | z
      · exact sg_ne_zero _ z
      · exact hflat z

/-- **change of side, generalised**: `Fc` is whatever follows the stack's top on the stack's chain;
`hU`: a point of the diagonal's span that is strictly on the inner side of the diagonal `top → cur`
is on the inner side of that continuation -/
theorem fan_step_tilesW (pos : Nat → P K) (c : Bool) (cur bot topv : MV K) (rest : List (MV K))
    (Fc F' : List (P K))
    (hgood : ∀ v ∈ topv :: rest, Good pos v) (hcur : Good pos cur)
    (hlast : (topv :: rest).getLast? = some bot)
    (hsort : ((topv :: rest).map (·.pos)).Pairwise (fun a b => After a b))
    (hcs : ∀ v ∈ topv :: rest, After cur.pos v.pos)
    (hside : ∀ v ∈ topv :: rest, v.pos = bot.pos ∨ 0 ≤ sg c * wind bot.pos v.pos cur.pos)
    (hfan : FanLeT c cur.pos ((topv :: rest).map (·.pos)))
    (hFc : SortedP (topv.pos :: Fc)) (hO : SortedP (cur.pos :: F'))
    (hU : ∀ q, Span topv.pos cur.pos q → 0 < sg c * wind topv.pos cur.pos q → ChainIn c (topv.pos :: Fc) q) :
    Tiles (InPoly c (((topv :: rest).map (·.pos)).reverse ++ Fc) (bot.pos :: cur.pos :: F'))
      (TriIn pos) (TriInC pos) (fanTris cur (topv :: rest).reverse)
      (InPoly c (topv.pos :: Fc) (topv.pos :: cur.pos :: F')) := by
  have hdt : After cur.pos topv.pos := hcs topv (by simp)
  have t1 := fan_tilesW pos c cur bot F' (topv :: rest) hgood hcur hlast hsort hcs hside hfan
  have t2 := t1.reverse
  rw [← fanTris_reverse] at t2
  have eS : ((topv :: rest).map (·.pos)).reverse = (rest.map (·.pos)).reverse ++ [topv.pos] := by simp
  have hS : SortedP ((rest.map (·.pos)).reverse ++ [topv.pos]) := by
    rw [← eS]; exact sortedP_reverse _ hsort
  rw [eS, List.append_assoc] at t2 ⊢
  simp only [List.singleton_append] at t2 ⊢
  have t3 := t2.frame (InPoly c (topv.pos :: Fc) (topv.pos :: cur.pos :: F'))
    (split_apart0 c _ Fc F' hS hFc hO)
  have htb : topv.pos = bot.pos ∨ (After topv.pos bot.pos ∧ 0 ≤ sg c * wind bot.pos topv.pos cur.pos) := by
    rcases hside topv (by simp) with e | e
    · exact Or.inl e
    · rcases last_le _ bot.pos hsort (by rw [List.getLast?_map, hlast]; rfl) topv.pos (by simp) with g | g
      · exact Or.inl g
      · exact Or.inr ⟨g, e⟩
  refine t3.rebase ?_ ?_ ?_
  · rintro q (g | g)
    · -- the fan polygon is part of the remaining polygon
      refine ⟨?_, g.2⟩
      have h1 := g.1
      rw [chainIn_append] at h1 ⊢
      rcases h1 with h1 | ⟨hsp, hin⟩ | h1
      · exact Or.inl h1
      · exact Or.inr (hU q hsp hin)
      · exact absurd h1 (chainIn_single c _ q)
    · exact split_sub_PW c _ Fc F' hdt htb q g
  · -- covering: the fan polygon, the new remaining polygon, or the diagonal
    rintro q ⟨h1, h2⟩
    rw [chainIn_append] at h1
    rcases h1 with g | g
    · exact Or.inl (Or.inl ⟨(chainIn_append c _ topv.pos [cur.pos] q).mpr (Or.inl g), h2⟩)
    rcases h2 with ⟨⟨hqb, hdq⟩, hin2⟩ | g2
    · have hqt := chainIn_lower c topv.pos Fc q hFc g
      rcases lt_trichotomy 0 (sg c * wind topv.pos cur.pos q) with t | t | t
      · exact Or.inl (Or.inl ⟨(chainIn_append c _ topv.pos [cur.pos] q).mpr (Or.inr (Or.inl ⟨⟨hqt, hdq⟩, t⟩)),
          Or.inl ⟨⟨hqb, hdq⟩, hin2⟩⟩)
      · right
        cases rest with
        | nil =>
          exfalso
          simp only [List.getLast?_singleton, Option.some.injEq] at hlast
          rw [← hlast, sg_not] at hin2
          linarith
        | cons xv r =>
          have htx : After topv.pos xv.pos := List.rel_of_pairwise_cons hsort (by simp)
          have hz : wind topv.pos cur.pos q = 0 := by
            rcases mul_eq_zero.mp t.symm with z | z
            · exact absurd z (sg_ne_zero _)
            · exact z
          refine ⟨fanTri cur xv topv, ?_, ?_⟩
          · rw [fanTris_reverse]; simp [fanTop]
          · by_cases hflat : wind xv.pos topv.pos cur.pos = 0
            · -- the top fan triangle is degenerate: `q` is on the common line
              have hD := after_hv hdt
              have a1 : (xv.pos - topv.pos).cross (cur.pos - topv.pos) = 0 := by
                have : wind xv.pos topv.pos cur.pos = (xv.pos - topv.pos).cross (cur.pos - topv.pos) := rfl
                rw [← this]; exact hflat
              have a2 : (q - topv.pos).cross (cur.pos - topv.pos) = 0 := by
                have : wind topv.pos cur.pos q = (q - topv.pos).cross (cur.pos - topv.pos) := wind_cross_a _ _ _
                rw [← this]; exact hz
              have w1 : wind xv.pos topv.pos q = 0 := cross_par hD a1 a2
              have w3 : wind cur.pos xv.pos q = 0 := by
                have := bary_sum xv.pos topv.pos cur.pos q
                rw [hflat, hz, w1] at this; linarith
              exact fanTri_inC_flat pos c cur xv topv hcur (hgood xv (by simp)) (hgood topv (by simp)) hflat q
                ⟨by rw [w1]; simp, by rw [hz]; simp, by rw [w3]; simp⟩
            · have hconv : 0 < sg c * wind xv.pos topv.pos cur.pos := by
                refine lt_of_le_of_ne hfan.1 (Ne.symm ?_)
                intro e
                rcases mul_eq_zero.mp e with z | z
                · exact sg_ne_zero _ z
                · exact hflat z
              exact (fanTri_in pos c cur xv topv hcur (hgood xv (by simp)) (hgood topv (by simp)) hconv q).2
                (diag_closed c htx hdt hqt hdq hconv hz)
      · exact Or.inl (Or.inr ⟨g, Or.inl ⟨⟨hqt, hdq⟩, by rw [sg_not]; linarith⟩⟩)
    · exact Or.inl (Or.inr ⟨g, Or.inr g2⟩)
  · intro q
    constructor
    · intro h; exact Or.inr h
    · rintro (h | h)
      · exact absurd h (fan_rest_empty c F' hO q)
      · exact h

/-- **the chain polygon cut off a region**, possibly with zero-area fan triangles: `hfanC` tiles the
chain polygon closed on its chord side, `hopen`: the open tiles lie in the open chain polygon -/
theorem chain_fan_tilesW {T : Type} (c : Bool) (A M B : List (P K)) (h last : P K) (Op : P K → Prop)
    (I Ic : T → P K → Prop) (ts : List T)
    (hfanC : Tiles (fun x => ChainIn c (h :: M ++ [last]) x ∧ CSide c h last x) I Ic ts (fun _ => False))
    (hopen : ∀ t ∈ ts, ∀ q, I t q → InPoly c (h :: M ++ [last]) [h, last] q)
    (hA : SortedP (A ++ [h])) (hB : SortedP (last :: B)) (hE : SortedP (h :: M ++ [last]))
    (hlh : After last h) (hconv : ∀ v ∈ h :: M ++ [last], 0 ≤ sg c * wind h v last)
    (hCP : ∀ q, InPoly c (h :: M ++ [last]) [h, last] q → Op q) :
    Tiles (fun q => ChainIn c (A ++ h :: M ++ last :: B) q ∧ Op q) I Ic ts
      (fun q => ChainIn c (A ++ h :: last :: B) q ∧ Op q) := by
  have hspan : ∀ q, InPoly c (h :: M ++ [last]) [h, last] q → Span h last q ∧ 0 < sg (!c) * wind h last q := by
    rintro q ⟨_, g | g⟩
    · exact g
    · exact absurd g (chainIn_single _ _ q)
  refine ⟨?_, ?_, ?_, hfanC.disj, ?_⟩
  · intro t ht q hq
    have hcp := hopen t ht q hq
    exact ⟨(chainIn_three c A M B h last q).mpr (Or.inr (Or.inl hcp.1)), hCP q hcp⟩
  · rintro q ⟨h1, h2⟩
    refine ⟨?_, h2⟩
    rcases (chainIn_chord c A B h last q).mp h1 with g | ⟨⟨hqh, hlq⟩, hin⟩ | g
    · exact (chainIn_three c A M B h last q).mpr (Or.inl g)
    · refine (chainIn_three c A M B h last q).mpr (Or.inr (Or.inl ?_))
      exact chain_side c hlh hin (h :: M ++ [last]) h last hE rfl (List.getLast?_concat) hconv hqh hlq
    · exact (chainIn_three c A M B h last q).mpr (Or.inr (Or.inr g))
  · rintro t ht q hq ⟨h1, _⟩
    obtain ⟨⟨hqh, hlq⟩, hin⟩ := hspan q (hopen t ht q hq)
    rcases (chainIn_chord c A B h last q).mp h1 with g | ⟨_, g⟩ | g
    · exact not_after_of_afterEq hqh (chainIn_upper c _ q h hA (by simp) g)
    · rw [sg_not] at hin; linarith
    · exact not_after_of_afterEq (chainIn_lower c last B q hB g) hlq
  · rintro q ⟨h1, h2⟩
    rcases (chainIn_three c A M B h last q).mp h1 with g | g | g
    · exact Or.inl ⟨(chainIn_chord c A B h last q).mpr (Or.inl g), h2⟩
    · have hqh := chainIn_lower c h (M ++ [last]) q hE g
      have hlq := chainIn_upper c (h :: M ++ [last]) q last hE List.getLast?_concat g
      by_cases t : 0 < sg c * wind h last q
      · exact Or.inl ⟨(chainIn_chord c A B h last q).mpr (Or.inr (Or.inl ⟨⟨hqh, hlq⟩, t⟩)), h2⟩
      · right
        rcases hfanC.cover q ⟨g, ⟨hqh, hlq⟩, by rw [sg_not]; linarith [not_lt.mp t]⟩ with e | e
        · exact absurd e id
        · exact e
    · exact Or.inl ⟨(chainIn_chord c A B h last q).mpr (Or.inr (Or.inr g)), h2⟩

end Geometry

end Lyon.C02f
