/-
  Advancement bookkeeping of the complete stroker model on CLOSED polyline sub-paths (`end(true)`).
  With fewer than three kept points `end(true)` is `end_with_caps` (a single kept point always gets the
  empty cap).  With three or more, `close()` feeds the first point again (advancement reset to NaN) and
  then the second endpoint, and re-creates two vertices at the first point:
    * the join at the last kept point `l` carries `A_l = A_prev + |edge|` (the table's last entry);
    * the join at the first point carries `A_l + |p0 − p_l|` (start + perimeter);
    * the two re-created vertices (`closeVertices`) carry the START value `s0`;
    * if the first point is within merge distance of `l`, `l` is MOVED onto it (it keeps its own
      endpoint id): its join then sits on `p0` and carries `A_prev + |p0 − p_prev|`, the first point gets
      no join of its own, and the two re-created vertices (start value) name `l`'s endpoint.
  `close()` does not touch `sub_path_start_advancement`.
-/
import LyonVerif.Lemmas.StrokeAdvMerge

set_option linter.unusedSectionVars false
set_option linter.unusedVariables false

namespace Lyon.C05c
open Lyon Scalar Lyon.Stroke Lyon.Stroke.Full Lyon.C05 Lyon.C05b

section
variable {α : Type} [Scalar α] [Transc α] [Asin α] [FlatConst α]

/-- what the `line_to` loop keeps about `firsts` and the pending advancement, for `close()` -/
def FirstsOK (e : Env α) (st : St α) (a b F : EP α) (P1 : P α) : Prop :=
  (st.buf.count = 2 ∧ a = F ∧ b.position = P1)
  ∨ (st.buf.count = 3 ∧ (∃ f1, st.firsts = [F, f1] ∧ f1.position = P1) ∧ b.advancement = nan)

/-- the `line_to` loop with merged points, with what `close()` needs afterwards -/
theorem feedFw_advs_c {e : Env α} (hnan : Transc.isNaN (nan : α) = true)
    (F : EP α) (P1 : P α) (rest : List (Nat × P α)) :
    ∀ (st : St α) (a b : EP α) (ia ib : Nat), WF st.buf → st.buf.lastTwo = some (a, b) → Fresh e b →
      a.src = .endpoint ia → b.src = .endpoint ib →
      (b.advancement = nan ∨ b.advancement = a.advancement + len (b.position - a.position)) →
      FirstsOK e st a b F P1 →
      ∃ a' b' ia' il, (rest.foldl (fun s q => (fwStep e s (linePt e q)).1) st).buf.lastTwo = some (a', b')
        ∧ Emits (AdvOK (advTable (a.advancement + len (b.position - a.position))
              ((ib, b.position) :: keptFrom e.thr b.position rest)))
            st.out (rest.foldl (fun s q => (fwStep e s (linePt e q)).1) st).out
        ∧ a'.src = .endpoint ia' ∧ b'.src = .endpoint il
        ∧ (advTable (a.advancement + len (b.position - a.position))
              ((ib, b.position) :: keptFrom e.thr b.position rest)).getLast?
            = some (il, b'.position, a'.advancement + len (b'.position - a'.position))
        ∧ (ia', a'.position, a'.advancement) ∈ (ia, a.position, a.advancement) ::
            advTable (a.advancement + len (b.position - a.position)) ((ib, b.position) :: keptFrom e.thr b.position rest)
        ∧ FirstsOK e (rest.foldl (fun s q => (fwStep e s (linePt e q)).1) st) a' b' F P1
        ∧ Fresh e b'
        ∧ (b'.advancement = nan ∨ b'.advancement = a'.advancement + len (b'.position - a'.position))
        ∧ WF (rest.foldl (fun s q => (fwStep e s (linePt e q)).1) st).buf := by
  induction rest with
  | nil =>
    intro st a b ia ib hwf hab hb hsa hsrc hadv hfirst
    exact ⟨a, b, ia, ib, hab, Emits.refl _ _, hsa, hsrc, by simp [advTable, keptFrom], by simp, hfirst, hb, hadv, hwf⟩
  | cons q rest ih =>
    intro st a b ia ib hwf hab hb hsa hsrc hadv hfirst
    have hlast := hwf.lastTwo_last _ _ hab
    by_cases hclose : pointsAreTooClose e.thr b.position q.2 = true
    · have hc : st.tooClose e.thr (linePt e q).position = true := by rw [tooClose_eq hlast]; exact hclose
      rw [List.foldl_cons, fwStep_merged hc]
      have hk : keptFrom e.thr b.position (q :: rest) = keptFrom e.thr b.position rest := by
        simp only [keptFrom]; rw [if_pos hclose]
      rw [hk]
      exact ih { st with mayNeedEmptyCap := st.mayNeedEmptyCap || st.buf.count == 1 } a b ia ib hwf hab hb hsa hsrc hadv hfirst
    · have hfar : pointsAreTooClose e.thr b.position (linePt e q).position = false := by
        show pointsAreTooClose e.thr b.position q.2 = false
        simpa using hclose
      have hk : keptFrom e.thr b.position (q :: rest) = q :: keptFrom e.thr q.2 rest := by
        simp only [keptFrom]; rw [if_neg hclose]
      rw [hk]
      obtain ⟨b1, h1, h2, h3, h4, h5, h6, h7, h8⟩ := fwStep_join_advs hwf hab hb (linePt e q) hfar
      have hA := joinAdv_eq hnan hadv
      rw [hA] at h5 h6
      have hfirst' : FirstsOK e (fwStep e st (linePt e q)).1 b1 (linePt e q) F P1 := by
        right
        refine ⟨h7, ?_, rfl⟩
        rw [h8]
        rcases hfirst with ⟨hc, rfl, hp⟩ | ⟨hc, hf, _⟩
        · simp only [hc, beq_self_eq_true, if_true]
          exact ⟨b1, rfl, by rw [h3]; exact hp⟩
        · have : (st.buf.count == 2) = false := by simp [hc]
          rw [this]; exact hf
      obtain ⟨a'', b'', ia'', il, g1, g2, g3a, g3, g4l, g4m, g5, g6, g7, g8⟩ :=
        ih _ b1 (linePt e q) ib q.1 h2 h1 (fresh_mk' e _ _ _) (by rw [h4]; exact hsrc) rfl (Or.inl rfl) hfirst'
      have hpos : (linePt e q).position = q.2 := rfl
      rw [h5, h3, hpos] at g2 g4l g4m
      refine ⟨a'', b'', ia'', il, g1, ?_, g3a, g3,
        by rw [advTable_getLast _ (ib, b.position) q _]; exact g4l, ?_, g5, g6, g7, g8⟩
      · rw [List.foldl_cons]
        refine Emits.trans (Emits.mono ?_ h6) (Emits.mono ?_ g2)
        · rintro v ⟨v1, v2, v3⟩
          exact ⟨_, advTable_head _ (ib, b.position) (q :: keptFrom e.thr q.2 rest), by rw [v1, hsrc], v2, v3⟩
        · rintro v ⟨t, ht, hv⟩
          exact ⟨t, advTable_tail _ (ib, b.position) q _ t ht, hv⟩
      · right
        rcases List.mem_cons.mp g4m with h | h
        · rw [h]; exact advTable_head _ (ib, b.position) (q :: keptFrom e.thr q.2 rest)
        · exact advTable_tail _ (ib, b.position) q _ _ h

theorem fwStep_sps (e : Env α) (st : St α) (next : EP α) :
    (fwStep e st next).1.subPathStartAdvancement = st.subPathStartAdvancement := by
  unfold fwStep
  split_ifs
  · rfl
  · cases h2 : st.buf.lastTwo with
    | some pj =>
      obtain ⟨prev, join⟩ := pj
      simp only []
      unfold fwJoin
      simp only []
      split_ifs <;> rfl
    | none =>
      simp only []
      cases st.buf.last <;> rfl

theorem foldl_fwStep_sps (e : Env α) (l : List (Nat × P α)) : ∀ st : St α,
    (l.foldl (fun s q => (fwStep e s (linePt e q)).1) st).subPathStartAdvancement = st.subPathStartAdvancement := by
  induction l with
  | nil => intro st; rfl
  | cons q r ih => intro st; rw [List.foldl_cons, ih, fwStep_sps]

theorem fwStep_added {e : Env α} {st : St α} {next prev join : EP α}
    (h1 : st.tooClose e.thr next.position = false) (h2 : st.buf.lastTwo = some (prev, join)) :
    (fwStep e st next).2 = true := by
  rw [fwStep_eq_join h1 h2]

/-- the two vertices `close` re-creates carry the advancement it is given -/
theorem closeTail_emits (st3 : St α) (q0 q1 : EP α) (adv : α) (h : st3.buf.lastTwo = some (q0, q1)) :
    Emits (SiteOK q0.src q0.position adv) st3.out (closeTail st3 adv).out := by
  unfold closeTail
  rw [h]
  show Emits _ _ ((closeVertices q0 adv st3.out).2.addTris _)
  unfold closeVertices
  simp only []
  exact (((Emits.refl _ _).vert ⟨rfl, rfl, rfl⟩).vert ⟨rfl, rfl, rfl⟩).tris _

theorem closeTail_rest (st3 : St α) (adv : α) :
    (closeTail st3 adv).buf = st3.buf ∧ (closeTail st3 adv).subPathStartAdvancement = st3.subPathStartAdvancement := by
  unfold closeTail
  cases st3.buf.lastTwo with
  | none => exact ⟨rfl, rfl⟩
  | some q => exact ⟨rfl, rfl⟩

/-- **`close()`**, window full: which vertex carries which advancement (see the header) -/
theorem close_advs {e : Env α} (hnan : Transc.isNaN (nan : α) = true) {st : St α} {a' b' F f1 : EP α}
    {p0 P1 : P α} (hwf : WF st.buf) (hab : st.buf.lastTwo = some (a', b')) (hc3 : st.buf.count = 3)
    (hfs : st.firsts = [F, f1]) (hf1 : f1.position = P1) (hFp : F.position = p0) (hFf : Fresh e F)
    (hb : Fresh e b') (hbadv : b'.advancement = nan)
    (hP : pointsAreTooClose e.thr p0 P1 = false) :
    (pointsAreTooClose e.thr b'.position p0 = false →
      Emits (fun v => SiteOK b'.src b'.position (a'.advancement + len (b'.position - a'.position)) v
          ∨ SiteOK F.src p0 (a'.advancement + len (b'.position - a'.position) + len (p0 - b'.position)) v
          ∨ SiteOK F.src p0 F.advancement v) st.out (close (fwStep e) st).out)
    ∧ (pointsAreTooClose e.thr b'.position p0 = true →
      Emits (fun v => SiteOK b'.src p0 (a'.advancement + len (p0 - a'.position)) v
          ∨ SiteOK b'.src p0 F.advancement v) st.out (close (fwStep e) st).out)
    ∧ WF (close (fwStep e) st).buf
    ∧ (close (fwStep e) st).subPathStartAdvancement = st.subPathStartAdvancement := by
  have hlast := hwf.lastTwo_last _ _ hab
  rw [close_eq (fwStep e) hfs]
  have hn1F : Fresh e ({ F with advancement := nan } : EP α) := ⟨hFf.ps, hFf.ns, hFf.flat, hFf.lj, hFf.hw⟩
  by_cases hclose : pointsAreTooClose e.thr b'.position p0 = true
  · -- the first point merges into the last kept one: that point is moved
    have hc : st.tooClose e.thr ({ F with advancement := nan } : EP α).position = true := by
      rw [tooClose_eq hlast]; show pointsAreTooClose e.thr b'.position F.position = true; rw [hFp]; exact hclose
    rw [fwStep_merged hc]
    have hl1 : ({ st with mayNeedEmptyCap := st.mayNeedEmptyCap || st.buf.count == 1 } : St α).buf.last = some b' := hlast
    obtain ⟨bb, hbb, hwfb, hcb, hlb, hltb⟩ := hwf.replaceLast (by omega) ({ b' with position := F.position } : EP α)
    have hfix : closeFix ({ st with mayNeedEmptyCap := st.mayNeedEmptyCap || st.buf.count == 1 } : St α) false F.position
        = { st with mayNeedEmptyCap := st.mayNeedEmptyCap || st.buf.count == 1, buf := bb } := by
      simp [closeFix, hl1, St.setLast, hbb]
    simp only [hfix]
    set st2 : St α := { st with mayNeedEmptyCap := st.mayNeedEmptyCap || st.buf.count == 1, buf := bb } with hst2
    have hab2 : st2.buf.lastTwo = some (a', ({ b' with position := F.position } : EP α)) := hltb _ _ hab
    have hbm : Fresh e ({ b' with position := F.position } : EP α) := ⟨hb.ps, hb.ns, hb.flat, hb.lj, hb.hw⟩
    have hfar2 : pointsAreTooClose e.thr ({ b' with position := F.position } : EP α).position f1.position = false := by
      show pointsAreTooClose e.thr F.position f1.position = false; rw [hFp, hf1]; exact hP
    obtain ⟨q0, h1, h2, h3, h4, h5, h6, _, _⟩ := fwStep_join_advs (st := st2) hwfb hab2 hbm f1 hfar2
    have hj : joinAdv a' ({ b' with position := F.position } : EP α) = a'.advancement + len (p0 - a'.position) := by
      rw [joinAdv_eq (a := a') (b := ({ b' with position := F.position } : EP α)) hnan (Or.inl hbadv)]
      show a'.advancement + len (F.position - a'.position) = _; rw [hFp]
    rw [hj] at h6
    obtain ⟨r1, r2⟩ := closeTail_rest (fwStep e st2 f1).1 F.advancement
    refine ⟨fun h => ?_, fun _ => ?_, ?_, ?_⟩
    · rw [hclose] at h; exact absurd h (by simp)
    · have t := closeTail_emits (fwStep e st2 f1).1 q0 f1 F.advancement h1
      rw [h4, h3] at t
      have hpm : ({ b' with position := F.position } : EP α).position = p0 := hFp
      have hsm : ({ b' with position := F.position } : EP α).src = b'.src := rfl
      rw [hpm, hsm] at t h6
      exact Emits.trans (Emits.mono (fun v hv => Or.inl hv) h6) (Emits.mono (fun v hv => Or.inr hv) t)
    · rw [r1]; exact h2
    · rw [r2, fwStep_sps]
  · -- the first point is fed again
    have hfar1 : pointsAreTooClose e.thr b'.position ({ F with advancement := nan } : EP α).position = false := by
      show pointsAreTooClose e.thr b'.position F.position = false; rw [hFp]; simpa using hclose
    have hcl1 : st.tooClose e.thr ({ F with advancement := nan } : EP α).position = false := by
      rw [tooClose_eq hlast]; exact hfar1
    obtain ⟨b1, h1, h2, h3, h4, h5, h6, h7, h8⟩ := fwStep_join_advs hwf hab hb ({ F with advancement := nan } : EP α) hfar1
    have hadd := fwStep_added hcl1 hab
    have hfix : closeFix (fwStep e st { F with advancement := nan }).1 (fwStep e st { F with advancement := nan }).2 F.position
        = (fwStep e st { F with advancement := nan }).1 := by rw [hadd]; simp [closeFix]
    simp only [hfix]
    have hA : joinAdv a' b' = a'.advancement + len (b'.position - a'.position) := joinAdv_eq hnan (Or.inl hbadv)
    rw [hA] at h5 h6
    have hsps1 := fwStep_sps e st ({ F with advancement := nan } : EP α)
    generalize (fwStep e st { F with advancement := nan }).1 = st1 at h1 h2 h6 h7 h8 hsps1 ⊢
    have hfar2 : pointsAreTooClose e.thr ({ F with advancement := nan } : EP α).position f1.position = false := by
      show pointsAreTooClose e.thr F.position f1.position = false; rw [hFp, hf1]; exact hP
    obtain ⟨q0, k1, k2, k3, k4, k5, k6, _, _⟩ := fwStep_join_advs (st := st1) h2 h1 hn1F f1 hfar2
    have hj : joinAdv b1 ({ F with advancement := nan } : EP α)
        = a'.advancement + len (b'.position - a'.position) + len (p0 - b'.position) := by
      rw [joinAdv_eq (a := b1) (b := ({ F with advancement := nan } : EP α)) hnan (Or.inl rfl), h5, h3]
      show _ + len (F.position - b'.position) = _; rw [hFp]
    rw [hj] at k6
    obtain ⟨r1, r2⟩ := closeTail_rest (fwStep e st1 f1).1 F.advancement
    refine ⟨fun _ => ?_, fun h => ?_, ?_, ?_⟩
    · have t := closeTail_emits (fwStep e st1 f1).1 q0 f1 F.advancement k1
      rw [k4, k3] at t
      have hpm : ({ F with advancement := nan } : EP α).position = p0 := hFp
      have hsm : ({ F with advancement := nan } : EP α).src = F.src := rfl
      rw [hpm, hsm] at t k6
      exact (Emits.mono (fun v hv => Or.inl hv) h6).trans
        ((Emits.mono (fun v hv => Or.inr (Or.inl hv)) k6).trans (Emits.mono (fun v hv => Or.inr (Or.inr hv)) t))
    · exact absurd h hclose
    · rw [r1]; exact k2
    · rw [r2, fwStep_sps, hsps1]

theorem endSub_closed_two (e : Env α) (step : StepFn α) (st : St α) (hc : st.buf.count = 2) :
    endSub e step st true = endSub e step st false := by
  unfold endSub; simp [hc]

/-- the extra table entries of a closed sub-path (see the header): none when `close()` does not run
(fewer than three kept points); else the first point's join (start + perimeter), or — first point
merged into the last kept point `l` — `l` moved onto `p0` with its join and the two re-created
vertices under `l`'s id -/
def CloseX (thr s0 : α) (i0 : Nat) (p0 : P α) (T X : List (Nat × P α × α)) : Prop :=
  X = [] ∨ ∃ il pl Al, T.getLast? = some (il, pl, Al) ∧
    ((pointsAreTooClose thr pl p0 = false ∧ X = [(i0, p0, Al + len (p0 - pl))])
     ∨ (pointsAreTooClose thr pl p0 = true ∧ ∃ ia pa Aa, (ia, pa, Aa) ∈ T
          ∧ X = [(il, p0, Aa + len (p0 - pa)), (il, p0, s0)]))

/-- **a closed sub-path after its `begin`, any points** -/
theorem sub_from_one_closed {e : Env α} (hfw : e.o.varWidth = false) (hnan : Transc.isNaN (nan : α) = true)
    (i0 : Nat) (p0 : P α) (s0 : α) (pts : List (Nat × P α)) :
    ∀ st : St α, WF st.buf → st.buf.count = 1 →
      st.buf.last = some (EP.mk' p0 e.hwFw s0 e.o.join (.endpoint i0) false) →
      st.subPathStartAdvancement = s0 →
      ∃ X, CloseX e.thr s0 i0 p0 (advTable s0 ((i0, p0) :: keptFrom e.thr p0 pts)) X
      ∧ Emits (AdvOK (advTable s0 ((i0, p0) :: keptFrom e.thr p0 pts) ++ X)) st.out
        (endSub e (fwStep e) (pts.foldl (fun s q => (fwStep e s (linePt e q)).1) st) true).out
      ∧ WF (endSub e (fwStep e) (pts.foldl (fun s q => (fwStep e s (linePt e q)).1) st) true).buf
      ∧ (endSub e (fwStep e) (pts.foldl (fun s q => (fwStep e s (linePt e q)).1) st) true).buf.count = 0
      ∧ ((endSub e (fwStep e) (pts.foldl (fun s q => (fwStep e s (linePt e q)).1) st) true).subPathStartAdvancement
            = lastAdv s0 (advTable s0 ((i0, p0) :: keptFrom e.thr p0 pts))
         ∨ (endSub e (fwStep e) (pts.foldl (fun s q => (fwStep e s (linePt e q)).1) st) true).subPathStartAdvancement = s0) := by
  induction pts with
  | nil =>
    intro st hwf hc hl hs
    simp only [List.foldl_nil, keptFrom, advTable]
    have hg : st.buf.get 0 = some (EP.mk' p0 e.hwFw s0 e.o.join (.endpoint i0) false) := by
      have := hl
      simp only [PointBuffer.last, hc, Nat.sub_self] at this
      simpa using this
    have hendsub : endSub e (fwStep e) st true
        = { (endWithCaps e { st with mayNeedEmptyCap := true }) with
            buf := (endWithCaps e { st with mayNeedEmptyCap := true }).buf.clear, firsts := [] } := by
      unfold endSub; simp [hc]
    rw [hendsub]
    have hcap : (({ st with mayNeedEmptyCap := true } : St α).mayNeedEmptyCap
        && ({ st with mayNeedEmptyCap := true } : St α).buf.count == 1) = true := by
      show (true && st.buf.count == 1) = true; simp [hc]
    rw [endWithCaps_eq_cap hcap]
    refine ⟨[], Or.inl rfl, ?_, ?_, rfl, Or.inr ?_⟩
    · refine Emits.mono ?_ (emptyCap_emits e { st with mayNeedEmptyCap := true } _ hg)
      rintro v ⟨v1, v2, v3⟩
      exact ⟨(i0, p0, s0), by simp, v1, v2, v3⟩
    · obtain ⟨l, hl'⟩ := hwf; exact ⟨[], hl'.clear⟩
    · exact hs
  | cons q r ih =>
    intro st hwf hc hl hs
    rw [List.foldl_cons]
    by_cases hclose : pointsAreTooClose e.thr p0 q.2 = true
    · have hcl : st.tooClose e.thr (linePt e q).position = true := by rw [tooClose_eq hl]; exact hclose
      rw [fwStep_merged hcl]
      have hk : keptFrom e.thr p0 (q :: r) = keptFrom e.thr p0 r := by
        simp only [keptFrom]; rw [if_pos hclose]
      rw [hk]
      exact ih { st with mayNeedEmptyCap := st.mayNeedEmptyCap || st.buf.count == 1 } hwf hc hl hs
    · have hfar : pointsAreTooClose e.thr p0 q.2 = false := by simpa using hclose
      have hk : keptFrom e.thr p0 (q :: r) = q :: keptFrom e.thr q.2 r := by
        simp only [keptFrom]; rw [if_neg hclose]
      rw [hk]
      have hcl : st.tooClose e.thr (linePt e q).position = false := by rw [tooClose_eq hl]; exact hfar
      rw [fwStep_eq_first hcl (lastTwo_none (by omega)) hl]
      set A := (firstEdgeSetup (EP.mk' p0 e.hwFw s0 e.o.join (.endpoint i0) false) (linePt e q)).1 with hA
      set B := (firstEdgeSetup (EP.mk' p0 e.hwFw s0 e.o.join (.endpoint i0) false) (linePt e q)).2 with hB
      obtain ⟨b1, hb1, hwf1, hc1, hl1, _⟩ := hwf.replaceLast (by omega) A
      obtain ⟨b2, hb2, hwf2, hc2, _, hlt2⟩ := hwf1.push B
      have est2 : (st.setLast A).push B = { st with buf := b2 } := by
        simp [St.push, St.setLast, hb1, hb2]
      rw [est2]
      have hab : ({ st with buf := b2 } : St α).buf.lastTwo = some (A, B) := hlt2 _ hl1
      have hcnt : ({ st with buf := b2 } : St α).buf.count = 2 := by show b2.count = 2; rw [hc2, hc1, hc]; rfl
      have hBadv : B.advancement = A.advancement + len (B.position - A.position) := by
        show (if Transc.isNaN (nan : α) then s0 + len (q.2 - p0) else nan) = s0 + len (q.2 - p0)
        rw [hnan]; rfl
      obtain ⟨a', b', ia', il, g1, g2, g3a, g3, g4l, g4m, g5, g6, g7, g8⟩ :=
        feedFw_advs_c hnan A q.2 r { st with buf := b2 } A B i0 q.1 hwf2 hab
          ⟨rfl, rfl, rfl, rfl, rfl⟩ rfl rfl (Or.inr hBadv) (Or.inl ⟨hcnt, rfl, rfl⟩)
      have eA : A.advancement + len (B.position - A.position) = s0 + len (q.2 - p0) := rfl
      have eBp : B.position = q.2 := rfl
      have eAp : A.position = p0 := rfl
      have eAa : A.advancement = s0 := rfl
      rw [eA, eBp] at g2 g4l g4m
      rw [eAp, eAa] at g4m
      set T := advTable s0 ((i0, p0) :: q :: keptFrom e.thr q.2 r) with hTdef
      have hT : ∀ t ∈ advTable (s0 + len (q.2 - p0)) ((q.1, q.2) :: keptFrom e.thr q.2 r), t ∈ T :=
        advTable_tail s0 (i0, p0) q _
      have hTl : T.getLast? = some (il, b'.position, a'.advancement + len (b'.position - a'.position)) := by
        rw [hTdef, advTable_getLast s0 (i0, p0) q _]; exact g4l
      have hTa : (ia', a'.position, a'.advancement) ∈ T := by
        rcases List.mem_cons.mp g4m with h | h
        · rw [h]; exact advTable_head s0 (i0, p0) _
        · exact hT _ h
      set st' := r.foldl (fun s q => (fwStep e s (linePt e q)).1) ({ st with buf := b2 } : St α) with hst'
      have s1 : Emits (AdvOK T) st.out st'.out := Emits.mono (fun v ⟨t, ht, hv⟩ => ⟨t, hT t ht, hv⟩) g2
      rcases g5 with ⟨hc2', haF, _⟩ | ⟨hc3, ⟨f1, hfs, hf1⟩, hbn⟩
      · -- two kept points: `end_with_caps`
        rw [endSub_closed_two e _ st' hc2']
        obtain ⟨k1, k2, k3, k4⟩ := endSub_open_advs (T := T) hfw g8 g1 g3 (List.mem_of_getLast? hTl)
          (Or.inl ⟨hc2', haF⟩) ⟨(i0, p0, s0), advTable_head s0 (i0, p0) _, rfl, rfl, rfl⟩
        refine ⟨[], Or.inl rfl, ?_, k2, k3, Or.inl ?_⟩
        · rw [List.append_nil]; exact s1.trans k1
        · rw [k4]; unfold lastAdv; rw [hTl]; rfl
      · -- three or more: `close()`
        have hendsub : endSub e (fwStep e) st' true
            = { (close (fwStep e) { st' with mayNeedEmptyCap := st'.mayNeedEmptyCap || (true && st'.buf.count == 1) }) with
                buf := (close (fwStep e) { st' with mayNeedEmptyCap := st'.mayNeedEmptyCap || (true && st'.buf.count == 1) }).buf.clear,
                firsts := [] } := by
          unfold endSub; simp [hc3]
        rw [hendsub]
        obtain ⟨c1, c2, c3, c4⟩ := close_advs (e := e) hnan
          (st := { st' with mayNeedEmptyCap := st'.mayNeedEmptyCap || (true && st'.buf.count == 1) })
          (a' := a') (b' := b') (F := A) (f1 := f1) (p0 := p0) (P1 := q.2) g8 g1 hc3 hfs hf1 rfl
          ⟨rfl, rfl, rfl, rfl, rfl⟩ g6 hbn hfar
        have hwfc : WF ((close (fwStep e) { st' with mayNeedEmptyCap := st'.mayNeedEmptyCap || (true && st'.buf.count == 1) }).buf.clear) := by
          obtain ⟨l, hl'⟩ := c3; exact ⟨[], hl'.clear⟩
        by_cases hm : pointsAreTooClose e.thr b'.position p0 = true
        · refine ⟨[(il, p0, a'.advancement + len (p0 - a'.position)), (il, p0, s0)],
            Or.inr ⟨il, b'.position, _, hTl, Or.inr ⟨hm, ia', a'.position, a'.advancement, hTa, rfl⟩⟩,
            (Emits.mono (fun v ⟨t, ht, hv⟩ => ⟨t, List.mem_append_left _ ht, hv⟩) s1).trans (Emits.mono ?_ (c2 hm)), hwfc, rfl,
            Or.inr (by show (close _ _).subPathStartAdvancement = s0; rw [c4]; show st'.subPathStartAdvancement = s0; rw [hst', foldl_fwStep_sps]; exact hs)⟩
          rintro v (⟨v1, v2, v3⟩ | ⟨v1, v2, v3⟩)
          · exact ⟨(il, p0, a'.advancement + len (p0 - a'.position)), List.mem_append_right _ (by simp), by rw [v1]; exact g3, v2, v3⟩
          · exact ⟨(il, p0, s0), List.mem_append_right _ (by simp), by rw [v1]; exact g3, v2, v3⟩
        · have hm' : pointsAreTooClose e.thr b'.position p0 = false := by simpa using hm
          refine ⟨[(i0, p0, a'.advancement + len (b'.position - a'.position) + len (p0 - b'.position))],
            Or.inr ⟨il, b'.position, _, hTl, Or.inl ⟨hm', rfl⟩⟩,
            (Emits.mono (fun v ⟨t, ht, hv⟩ => ⟨t, List.mem_append_left _ ht, hv⟩) s1).trans (Emits.mono ?_ (c1 hm')), hwfc, rfl,
            Or.inr (by show (close _ _).subPathStartAdvancement = s0; rw [c4]; show st'.subPathStartAdvancement = s0; rw [hst', foldl_fwStep_sps]; exact hs)⟩
          rintro v (⟨v1, v2, v3⟩ | ⟨v1, v2, v3⟩ | ⟨v1, v2, v3⟩)
          · exact ⟨_, List.mem_append_left _ (List.mem_of_getLast? hTl), by rw [v1]; exact g3, v2, v3⟩
          · exact ⟨(i0, p0, a'.advancement + len (b'.position - a'.position) + len (p0 - b'.position)),
              List.mem_append_right _ (by simp), v1, v2, v3⟩
          · exact ⟨(i0, p0, s0), List.mem_append_left _ (advTable_head s0 (i0, p0) _), v1, v2, v3⟩

/-- the events of a polyline sub-path, open or closed -/
def subEvsC (i0 : Nat) (p0 : P α) (pts : List (Nat × P α)) (closed : Bool) : List (IdEv α) :=
  IdEv.begin i0 p0 :: (lineEvs pts ++ [IdEv.end_ closed])

/-- **one polyline sub-path, open or closed, any points, started in any idle state** -/
theorem subpath_advancement_c (e : Env α) (store : Nat → List α) (hfw : e.o.varWidth = false)
    (hnan : Transc.isNaN (nan : α) = true) (r0 : Run α) (h0 : Idle r0)
    (i0 : Nat) (p0 : P α) (pts : List (Nat × P α)) (closed : Bool) :
    ∃ X, (closed = false → X = [])
      ∧ CloseX e.thr r0.st.subPathStartAdvancement i0 p0
          (advTable r0.st.subPathStartAdvancement ((i0, p0) :: keptFrom e.thr p0 pts)) X
      ∧ Idle (runFrom e store r0 (subEvsC i0 p0 pts closed))
      ∧ Emits (AdvOK (advTable r0.st.subPathStartAdvancement ((i0, p0) :: keptFrom e.thr p0 pts) ++ X))
          r0.st.out (runFrom e store r0 (subEvsC i0 p0 pts closed)).st.out
      ∧ ((runFrom e store r0 (subEvsC i0 p0 pts closed)).st.subPathStartAdvancement
            = lastAdv r0.st.subPathStartAdvancement
                (advTable r0.st.subPathStartAdvancement ((i0, p0) :: keptFrom e.thr p0 pts))
         ∨ (closed = true ∧ (runFrom e store r0 (subEvsC i0 p0 pts closed)).st.subPathStartAdvancement
            = r0.st.subPathStartAdvancement)) := by
  cases closed with
  | false =>
    obtain ⟨k1, k2, k3⟩ := subpath_advancement_m e store hfw hnan r0 h0 i0 p0 pts
    refine ⟨[], fun _ => rfl, Or.inl rfl, k1, by rw [List.append_nil]; exact k2, Or.inl ?_⟩
    unfold lastAdv
    have : runFrom e store r0 (subEvsC i0 p0 pts false) = runFrom e store r0 (subEvsM i0 p0 pts) := rfl
    rw [this, k3]; rfl
  | true =>
    obtain ⟨st1, e1, hwf1, hc1, hl1, hs1, hout1⟩ := run_begin_g e store hfw r0 h0 i0 p0
    have hsplit : subEvsC i0 p0 pts true = [IdEv.begin i0 p0] ++ (lineEvs pts ++ [IdEv.end_ true]) := rfl
    rw [hsplit, runFrom_append, e1, runFrom_append]
    obtain ⟨r1, r2⟩ := runFrom_lines hfw store pts ⟨st1, i0, p0, false⟩ rfl
    generalize runFrom e store ⟨st1, i0, p0, false⟩ (lineEvs pts) = rr at r1 r2
    have hend : runFrom e store rr [IdEv.end_ true] = { rr with st := endSub e (fwStep e) rr.st true } := by
      unfold runFrom
      simp only [List.foldl_cons, List.foldl_nil]
      rw [if_neg (by simp [r2])]
      show ({ rr with st := endSub e e.step rr.st true } : Run α) = _
      rw [step_fixed hfw]
    rw [hend]
    obtain ⟨X, x1, k1, k2, k3, k4⟩ := sub_from_one_closed hfw hnan i0 p0 r0.st.subPathStartAdvancement pts st1 hwf1 hc1 hl1 hs1
    rw [← r1] at k1 k2 k3 k4
    rw [hout1] at k1
    refine ⟨X, (fun h => Bool.noConfusion h), x1, ⟨r2, k2, k3⟩, k1, ?_⟩
    rcases k4 with h | h
    · exact Or.inl h
    · exact Or.inr ⟨rfl, h⟩

/-! ## a whole polyline path, open and closed sub-paths -/

/-- a polyline sub-path -/
structure SubC (α : Type) where
  i0 : Nat
  p0 : P α
  pts : List (Nat × P α)
  closed : Bool

def pathEvsC (subs : List (SubC α)) : List (IdEv α) := subs.flatMap (fun s => subEvsC s.i0 s.p0 s.pts s.closed)

/-- a vertex agrees with the advancement bookkeeping of the path whose first sub-path starts at `a`:
it agrees with the table of some sub-path (kept points, plus `CloseX` for a closed one), where each
sub-path starts at the value the table of the previous one ends with — or, after a CLOSED sub-path on
which `close()` ran (three or more kept points), at the same value as that sub-path -/
inductive PathAdv (thr : α) : α → List (SubC α) → VData α → Prop
  | here (a : α) (s : SubC α) (r : List (SubC α)) (v : VData α) (X : List (Nat × P α × α)) :
      (s.closed = false → X = []) →
      CloseX thr a s.i0 s.p0 (advTable a ((s.i0, s.p0) :: keptFrom thr s.p0 s.pts)) X →
      AdvOK (advTable a ((s.i0, s.p0) :: keptFrom thr s.p0 s.pts) ++ X) v → PathAdv thr a (s :: r) v
  | there (a a' : α) (s : SubC α) (r : List (SubC α)) (v : VData α) :
      (a' = lastAdv a (advTable a ((s.i0, s.p0) :: keptFrom thr s.p0 s.pts)) ∨ (s.closed = true ∧ a' = a)) →
      PathAdv thr a' r v → PathAdv thr a (s :: r) v

theorem path_advancement_c_from (e : Env α) (store : Nat → List α) (hfw : e.o.varWidth = false)
    (hnan : Transc.isNaN (nan : α) = true) :
    ∀ (subs : List (SubC α)) (r0 : Run α), Idle r0 →
      Idle (runFrom e store r0 (pathEvsC subs))
      ∧ Emits (PathAdv e.thr r0.st.subPathStartAdvancement subs) r0.st.out
          (runFrom e store r0 (pathEvsC subs)).st.out := by
  intro subs
  induction subs with
  | nil => intro r0 h0; exact ⟨h0, Emits.refl _ _⟩
  | cons s r ih =>
    intro r0 h0
    obtain ⟨X, x0, x1, k1, k2, k3⟩ := subpath_advancement_c e store hfw hnan r0 h0 s.i0 s.p0 s.pts s.closed
    have hev : pathEvsC (s :: r) = subEvsC s.i0 s.p0 s.pts s.closed ++ pathEvsC r := by simp [pathEvsC]
    rw [hev, runFrom_append]
    obtain ⟨j1, j2⟩ := ih (runFrom e store r0 (subEvsC s.i0 s.p0 s.pts s.closed)) k1
    refine ⟨j1, Emits.trans (Emits.mono ?_ k2) (Emits.mono ?_ j2)⟩
    · intro v hv; exact PathAdv.here _ s r v X x0 x1 hv
    · intro v hv
      exact PathAdv.there _ _ s r v k3 hv

/-- **advancement along a whole polyline path — open and closed sub-paths, any points** -/
theorem path_advancement_c (e : Env α) (store : Nat → List α) (hfw : e.o.varWidth = false)
    (hnan : Transc.isNaN (nan : α) = true) (subs : List (SubC α)) :
    ∀ v ∈ (runEvents e store (pathEvsC subs)).st.out.verts, PathAdv e.thr zero subs v := by
  obtain ⟨_, vs, ev, qv⟩ := path_advancement_c_from e store hfw hnan subs _ idle_new
  intro v hv
  rw [runEvents_eq_runFrom] at hv
  have h0 : (⟨St.new, unset, nanP, false⟩ : Run α).st.out.verts = [] := rfl
  rw [h0, List.nil_append] at ev
  exact qv v (ev ▸ hv)

end
end Lyon.C05c
