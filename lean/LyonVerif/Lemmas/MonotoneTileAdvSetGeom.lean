/-
  C02 growth 4 (`Props/C02g.lean`), part 1: geometry for `flush_side`'s fan as an ear sequence.

  * `seg_side`   — a chain edge `p₁ → p₂` whose endpoints lie weakly on side `c` of a line `o → b`
                   has every point of its sweep range that is strictly on the other side of the line
                   strictly on its inner side;
  * `chain_side` — hence a chain that bulges to side `c` of its chord `o → b` has every such point on
                   its inner side;
  * `tail_ear_tiles` — cutting the LAST vertex `z` of a chain `C ++ [b, z]` off the chain polygon
                   (the region between the chain and its chord `o → z`): the triangle `(o, b, z)` and
                   the chain polygon of `C ++ [b]` with chord `o → b`.  This is the step of
                   `flush_side`'s left-over triangle `(events[0], events[b], events[c])`.
-/
import LyonVerif.Lemmas.MonotoneTileAdvSepRun

set_option linter.unusedSectionVars false
set_option linter.unusedVariables false
set_option linter.unusedSimpArgs false

namespace Lyon.C02f
open Lyon Lyon.Mono Lyon.C02 Lyon.C02c

section Geometry
variable {K : Type} [Field K] [LinearOrder K] [IsStrictOrderedRing K]

/-- `p₁, p₂` weakly on side `c` of the line `o → b`, `q` in the sweep range of `p₁ → p₂` strictly on
the other side of that line ⟹ `q` strictly on the inner side of `p₁ → p₂` -/
theorem seg_side (c : Bool) {o b p1 p2 q : P K} (hbo : After b o) (hq1 : AfterEq q p1) (hq2 : After p2 q)
    (h1 : 0 ≤ sg c * wind o p1 b) (h2 : 0 ≤ sg c * wind o p2 b) (hq : 0 < sg c * wind o b q) :
    0 < sg c * wind p1 p2 q := by
  have hD := after_hv hbo
  -- f(p) = (p − o) × (b − o): f(p₁), f(p₂) on one side, f(q) on the other
  have e1 : wind o p1 b = -((p1 - o).cross (b - o)) := by simp only [wind]; geom_ring
  have e2 : wind o p2 b = -((p2 - o).cross (b - o)) := by simp only [wind]; geom_ring
  have eq : wind o b q = (q - o).cross (b - o) := by simp only [wind]; geom_ring
  have d1 : (q - o).cross (b - o) - (p1 - o).cross (b - o) = (q - p1).cross (b - o) := by geom_ring
  have d2 : (p2 - o).cross (b - o) - (q - o).cross (b - o) = (p2 - q).cross (b - o) := by geom_ring
  have ew : wind p1 p2 q = (q - p1).cross (p2 - q) := by simp only [wind]; geom_ring
  rw [e1] at h1; rw [e2] at h2; rw [eq] at hq; rw [ew]
  have hr' := after_hv hq2
  rcases hq1 with e | hq1
  · exfalso
    rw [e] at hq
    cases c <;> simp only [sg, Bool.false_eq_true, if_false, if_true, one_mul, neg_one_mul] at h1 hq <;> linarith
  have hr := after_hv hq1
  cases c
  · simp only [sg, Bool.false_eq_true, if_false, neg_one_mul] at h1 h2 hq ⊢
    -- (q−p₁)×D < 0 and (p₂−q)×D > 0
    have a1 : 0 < (b - o).cross (q - p1) := by rw [cross_flip]; linarith
    have a2 : 0 < (p2 - q).cross (b - o) := by linarith
    have := cross_trans hr' hD hr a2 a1
    rw [cross_flip] at this; linarith
  · simp only [sg, if_true, one_mul] at h1 h2 hq ⊢
    have a1 : 0 < (q - p1).cross (b - o) := by linarith
    have a2 : 0 < (b - o).cross (p2 - q) := by rw [cross_flip]; linarith
    exact cross_trans hr hD hr' a1 a2

/-- a sorted chain all of whose vertices lie weakly on side `c` of the line `o → b`: every point
between its first and last vertex that is strictly on the other side of the line is strictly on the
chain's inner side -/
theorem chain_side (c : Bool) {o b q : P K} (hbo : After b o) (hq : 0 < sg c * wind o b q) :
    ∀ (L : List (P K)) (a z : P K), SortedP L → L.head? = some a → L.getLast? = some z →
      (∀ v ∈ L, 0 ≤ sg c * wind o v b) → AfterEq q a → After z q → ChainIn c L q
  | [], _, _, _, h, _, _, _, _ => by simp at h
  | [x], a, z, _, h1, h2, _, g1, g2 => by
    simp only [List.head?_cons, Option.some.injEq] at h1
    simp only [List.getLast?_singleton, Option.some.injEq] at h2
    exfalso
    rw [← h1] at g1; rw [← h2] at g2
    exact not_after_of_afterEq g1 g2
  | x :: y :: r, a, z, hs, h1, h2, hv, g1, g2 => by
    simp only [List.head?_cons, Option.some.injEq] at h1
    rw [List.getLast?_cons_cons] at h2
    rcases after_total y q with g | g | g
    · left
      rw [← h1] at g1
      exact ⟨⟨g1, g⟩, seg_side c hbo g1 g (hv x (by simp)) (hv y (by simp)) hq⟩
    · right
      exact chain_side c hbo hq (y :: r) y z (List.Pairwise.of_cons hs) rfl h2
        (fun v hv' => hv v (List.mem_cons_of_mem _ hv')) (Or.inl g.symm) g2
    · right
      exact chain_side c hbo hq (y :: r) y z (List.Pairwise.of_cons hs) rfl h2
        (fun v hv' => hv v (List.mem_cons_of_mem _ hv')) (Or.inr g) g2

/-- `b` sticks out of `o → z` on side `c`; `q` strictly on the outer side of `o → b` ⟹ strictly on
the outer side of `o → z` -/
theorem turn_from_x_outer (c : Bool) {o b z q : P K} (hb : After b o) (hz : After z o) (hq : AfterEq q o)
    (h1 : 0 < sg c * wind o b z) (h2 : sg c * wind o b q < 0) : sg c * wind o z q < 0 := by
  rcases hq with e | hq
  · rw [e, wind_self_left] at h2; simp at h2
  have hu := after_hv hb
  have hv := after_hv hz
  have hw := after_hv hq
  rw [wind_cross_a] at h1 h2 ⊢
  cases c
  · simp only [sg, Bool.false_eq_true, if_false, neg_one_mul] at h1 h2 ⊢
    -- u×v > 0 (from v×u < 0), w×u > 0 ⟹ w×v > 0
    have a1 : 0 < (b - o).cross (z - o) := by rw [cross_flip]; linarith
    have a2 : 0 < (q - o).cross (b - o) := by linarith
    have := cross_trans hw hu hv a2 a1
    linarith
  · simp only [sg, if_true, one_mul] at h1 h2 ⊢
    have a2 : 0 < (b - o).cross (q - o) := by rw [cross_flip]; linarith
    have := cross_trans hv hu hw h1 a2
    rw [cross_flip] at this; linarith

/-- weak version of `turn_cover_xy` -/
theorem turn_cover_xy_le (c : Bool) {x y z q : P K} (hyx : After y x) (hzy : After z y) (hyq : After y q)
    (h1 : 0 < sg c * wind x y z) (h2 : 0 ≤ sg c * wind x y q) : 0 ≤ sg c * wind y z q := by
  have hu := after_hv hyx
  have hv := after_hv hzy
  have hp := after_hv hyq
  have e1 : wind x y z = (z - y).cross (y - x) := by simp only [wind]; geom_ring
  have e2 : wind x y q = (y - x).cross (y - q) := wind_cross_b x y q
  have e3 : wind y z q = (z - y).cross (y - q) := by simp only [wind]; geom_ring
  rw [e1] at h1; rw [e2] at h2; rw [e3]
  cases c
  · simp only [sg, Bool.false_eq_true, if_false, neg_one_mul] at h1 h2 ⊢
    have a1 : 0 ≤ (y - x).cross (z - y) := by rw [cross_flip]; linarith
    have a2 : 0 ≤ (y - q).cross (y - x) := by rw [cross_flip]; linarith
    have := cross_trans_le hp hu hv a2 a1
    rw [cross_flip] at this; linarith
  · simp only [sg, if_true, one_mul] at h1 h2 ⊢
    exact cross_trans_le hv hu hp h1.le h2

/-- **the left-over triangle of a `flush_side` level**: chain `C ++ [b, z]` (first vertex `o`,
bulging to side `c` of `o → b`), chord `o → z`; the triangle `(o, b, z)` is cut off across the chord,
what remains is the chain polygon of `C ++ [b]` with chord `o → b`. -/
theorem tail_ear_tiles (c : Bool) (C : List (P K)) {o b z : P K} (hC : (C ++ [b]).head? = some o)
    (hs : SortedP (C ++ [b])) (hbo : After b o) (hzb : After z b)
    (hconv : 0 < sg c * wind o b z) (hv : ∀ v ∈ C ++ [b], 0 ≤ sg c * wind o v b) :
    Tiles (InPoly c (C ++ [b, z]) [o, z]) (fun (_ : Unit) => InTriS c o b z) (fun _ => InTriSC c o b z) [()]
      (InPoly c (C ++ [b]) [o, b]) := by
  have hzo := after_trans hzb hbo
  have happ : ∀ q, ChainIn c (C ++ [b, z]) q ↔ ChainIn c (C ++ [b]) q ∨ (Span b z q ∧ 0 < sg c * wind b z q) := by
    intro q
    rw [chainIn_append c C b [z] q]
    constructor
    · rintro (h | h | h)
      · exact Or.inl h
      · exact Or.inr h
      · exact absurd h (chainIn_single c z q)
    · rintro (h | h)
      · exact Or.inl h
      · exact Or.inr (Or.inl h)
  have hlastb : (C ++ [b]).getLast? = some b := by simp
  refine ⟨?_, ?_, ?_, by simp, ?_⟩
  · -- the triangle lies in the chain polygon
    intro _ _ q hq
    obtain ⟨hqo, hzq⟩ := inTriS_after hbo hzb hq
    refine ⟨(happ q).mpr ?_, Or.inl ⟨⟨Or.inr hqo, hzq⟩, by rw [sg_wind_swap]; exact hq.2.2⟩⟩
    rcases after_total b q with g | g | g
    · exact Or.inl (chain_side c hbo hq.1 (C ++ [b]) o b hs hC hlastb hv (Or.inr hqo) g)
    · exact Or.inr ⟨⟨Or.inl g.symm, hzq⟩, hq.2.1⟩
    · exact Or.inr ⟨⟨Or.inr g, hzq⟩, hq.2.1⟩
  · -- the smaller chain polygon is part of the larger one
    rintro q ⟨h1, h2⟩
    refine ⟨(happ q).mpr (Or.inl h1), ?_⟩
    rcases h2 with ⟨⟨hqo, hbq⟩, hin⟩ | h2
    · left
      refine ⟨⟨hqo, after_trans hzb hbq⟩, ?_⟩
      rw [sg_not] at hin ⊢
      have := turn_from_x_outer c hbo hzo hqo hconv (by linarith)
      linarith
    · exact absurd h2 (chainIn_single _ b q)
  · -- the triangle does not meet the smaller chain polygon
    rintro _ _ q hq ⟨_, h2⟩
    rcases h2 with ⟨_, hin⟩ | h2
    · have := hq.1
      rw [sg_not] at hin; linarith
    · exact absurd h2 (chainIn_single _ b q)
  · -- covering
    rintro q ⟨h1, h2⟩
    rcases h2 with ⟨⟨hqo, hzq⟩, hinz⟩ | h2
    swap
    · exact absurd h2 (chainIn_single _ z q)
    have hzoq : 0 < sg c * wind z o q := by rw [← sg_wind_swap]; simpa using hinz
    rcases (happ q).mp h1 with g | ⟨⟨hqb, _⟩, hin⟩
    · have hbq : After b q := chainIn_upper c (C ++ [b]) q b hs hlastb g
      by_cases t : sg c * wind o b q < 0
      · left
        exact ⟨g, Or.inl ⟨⟨hqo, hbq⟩, by rw [sg_not]; linarith⟩⟩
      · right
        exact ⟨(), by simp, ⟨not_lt.mp t, turn_cover_xy_le c hbo hzb hbq hconv (not_lt.mp t), hzoq.le⟩⟩
    · right
      exact ⟨(), by simp, ⟨(turn_cover_yz c hbo hzb hqb hconv hin).le, hin.le, hzoq.le⟩⟩

end Geometry

end Lyon.C02f
