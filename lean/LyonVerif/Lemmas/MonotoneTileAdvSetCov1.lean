/-
  C02 growth 4 (`Props/C02g.lean`), part 19: the steps of `MonotoneTileAdvSetGen.lean` /
  `MonotoneTileAdvSetCut.lean` WITH the covering clause (`Tiles` instead of `Tiles0`): `pop_tilesC`,
  `fan_step_tilesC`, `chain_fan_tilesC` (the chord's own points are covered by the closed fan,
  `flush_fan_tilesC`).
-/
import LyonVerif.Lemmas.MonotoneTileAdvSetClosed

set_option linter.unusedSectionVars false
set_option linter.unusedVariables false
set_option linter.unusedSimpArgs false

namespace Lyon.C02f
open Lyon Lyon.Mono Lyon.C02 Lyon.C02c

section Geometry
variable {K : Type} [Field K] [LinearOrder K] [IsStrictOrderedRing K]

/-- the same-side step with an arbitrary opposite side that contains every possible ear -/
theorem pop_tilesC (pos : Nat → P K) (cur : MV K) (B : List (P K)) (Op : P K → Prop)
    (hcur : Good pos cur) (hB : SortedP (cur.pos :: B)) (st : List (MV K)) (lp : MV K)
    (hgood : ∀ v ∈ lp :: st, Good pos v)
    (hsort : ((lp :: st).map (·.pos)).Pairwise (fun a b => After a b))
    (hcs : ∀ v ∈ lp :: st, After cur.pos v.pos)
    (hnc : (lp :: st).Pairwise (fun a b => wind b.pos a.pos cur.pos ≠ 0))
    (hO : ∀ u ∈ lp :: st, ∀ w ∈ lp :: st, After w.pos u.pos → ∀ q, InTriS cur.left u.pos w.pos cur.pos q → Op q) :
    Tiles (fun q => ChainIn cur.left (((lp :: st).map (·.pos)).reverse ++ cur.pos :: B) q ∧ Op q)
      (TriIn pos) (TriInC pos) (popLoop cur lp st).2
      (fun q => ChainIn cur.left (((popLoop cur lp st).1.map (·.pos)).reverse ++ cur.pos :: B) q ∧ Op q) := by
  induction st generalizing lp with
  | nil =>
    simp only [popLoop]
    exact Tiles.refl _ _ _
  | cons top rest ih =>
    simp only [popLoop]
    split
    · rename_i hconvb
      have hsort' := List.Pairwise.of_cons hsort
      have ih' := ih top (fun v hv => hgood v (List.mem_cons_of_mem _ hv)) hsort'
        (fun v hv => hcs v (List.mem_cons_of_mem _ hv)) (List.Pairwise.of_cons hnc)
        (fun u hu w hw => hO u (List.mem_cons_of_mem _ hu) w (List.mem_cons_of_mem _ hw))
      have hyx : After lp.pos top.pos := List.rel_of_pairwise_cons hsort (by simp)
      have hzy : After cur.pos lp.pos := hcs lp (by simp)
      have hne : wind top.pos lp.pos cur.pos ≠ 0 := List.rel_of_pairwise_cons hnc (by simp)
      have hconv : 0 < sg cur.left * wind top.pos lp.pos cur.pos := by
        refine lt_of_le_of_ne (earConvex_true cur lp top hconvb) ?_
        intro e
        rcases mul_eq_zero.mp e.symm with z | z
        · exact sg_ne_zero _ z
        · exact hne z
      have hA : SortedP ((rest.map (·.pos)).reverse ++ [top.pos]) := by
        have := sortedP_reverse _ hsort'
        simpa using this
      have step := ear_tiles_op cur.left ((rest.map (·.pos)).reverse) B Op hyx hzy hconv hA hB
        (hO top (by simp) lp (by simp) hyx)
      have step' := step.map (fun _ => earTri cur lp top)
        (fun _ _ q => (earTri_in pos cur lp top hcur (hgood lp (by simp)) (hgood top (by simp)) q).1)
        (fun _ _ q => (earTri_in pos cur lp top hcur (hgood lp (by simp)) (hgood top (by simp)) q).2)
      have e1 : ((lp :: top :: rest).map (·.pos)).reverse ++ cur.pos :: B =
          (rest.map (·.pos)).reverse ++ top.pos :: lp.pos :: cur.pos :: B := by simp
      have e2 : ((top :: rest).map (·.pos)).reverse ++ cur.pos :: B =
          (rest.map (·.pos)).reverse ++ top.pos :: cur.pos :: B := by simp
      rw [e1]
      rw [e2] at ih'
      exact step'.trans ih'
    · exact Tiles.refl _ _ _


/-- **change of side, generalised**: `Fc` is whatever follows the stack's top on the stack's chain;
`hU`: a point of the diagonal's span that is strictly on the inner side of the diagonal `top → cur`
is on the inner side of that continuation -/
theorem fan_step_tilesC (pos : Nat → P K) (c : Bool) (cur bot topv : MV K) (rest : List (MV K))
    (Fc F' : List (P K))
    (hgood : ∀ v ∈ topv :: rest, Good pos v) (hcur : Good pos cur)
    (hlast : (topv :: rest).getLast? = some bot)
    (hsort : ((topv :: rest).map (·.pos)).Pairwise (fun a b => After a b))
    (hcs : ∀ v ∈ topv :: rest, After cur.pos v.pos)
    (hside : ∀ v ∈ topv :: rest, v.pos = bot.pos ∨ 0 < sg c * wind bot.pos v.pos cur.pos)
    (hfan : FanPosT c cur.pos ((topv :: rest).map (·.pos)))
    (hFc : SortedP (topv.pos :: Fc)) (hO : SortedP (cur.pos :: F'))
    (hU : ∀ q, Span topv.pos cur.pos q → 0 < sg c * wind topv.pos cur.pos q → ChainIn c (topv.pos :: Fc) q) :
    Tiles (InPoly c (((topv :: rest).map (·.pos)).reverse ++ Fc) (bot.pos :: cur.pos :: F'))
      (TriIn pos) (TriInC pos) (fanTris cur (topv :: rest).reverse)
      (InPoly c (topv.pos :: Fc) (topv.pos :: cur.pos :: F')) := by
  have hdt : After cur.pos topv.pos := hcs topv (by simp)
  have t1 := fan_tiles pos c cur bot F' (topv :: rest) hgood hcur hlast hsort hcs hside hfan
  have t2 := t1.reverse
  rw [← fanTris_reverse] at t2
  have eS : ((topv :: rest).map (·.pos)).reverse = (rest.map (·.pos)).reverse ++ [topv.pos] := by simp
  have hS : SortedP ((rest.map (·.pos)).reverse ++ [topv.pos]) := by
    rw [← eS]; exact sortedP_reverse _ hsort
  rw [eS, List.append_assoc] at t2 ⊢
  simp only [List.singleton_append] at t2 ⊢
  have t3 := t2.frame (InPoly c (topv.pos :: Fc) (topv.pos :: cur.pos :: F'))
    (split_apart0 c _ Fc F' hS hFc hO)
  have htb : topv.pos = bot.pos ∨ (After topv.pos bot.pos ∧ 0 < sg c * wind bot.pos topv.pos cur.pos) := by
    rcases hside topv (by simp) with e | e
    · exact Or.inl e
    · right
      refine ⟨?_, e⟩
      rcases last_le _ bot.pos hsort (by rw [List.getLast?_map, hlast]; rfl) topv.pos (by simp) with g | g
      · rw [g, wind_self_mid] at e; simp at e
      · exact g
  refine t3.rebase ?_ ?_ ?_
  · rintro q (g | g)
    · -- the fan polygon is part of the remaining polygon
      refine ⟨?_, g.2⟩
      have h1 := g.1
      rw [chainIn_append] at h1 ⊢
      rcases h1 with h1 | ⟨hsp, hin⟩ | h1
      · exact Or.inl h1
      · exact Or.inr (hU q hsp hin)
      · exact absurd h1 (chainIn_single c _ q)
    · exact split_sub_P0 c _ Fc F' hdt htb q g
  · -- covering: the fan polygon, the new remaining polygon, or the diagonal
    rintro q ⟨h1, h2⟩
    rw [chainIn_append] at h1
    rcases h1 with g | g
    · exact Or.inl (Or.inl ⟨(chainIn_append c _ topv.pos [cur.pos] q).mpr (Or.inl g), h2⟩)
    rcases h2 with ⟨⟨hqb, hdq⟩, hin2⟩ | g2
    · have hqt := chainIn_lower c topv.pos Fc q hFc g
      rcases lt_trichotomy 0 (sg c * wind topv.pos cur.pos q) with t | t | t
      · exact Or.inl (Or.inl ⟨(chainIn_append c _ topv.pos [cur.pos] q).mpr (Or.inr (Or.inl ⟨⟨hqt, hdq⟩, t⟩)),
          Or.inl ⟨⟨hqb, hdq⟩, hin2⟩⟩)
      · right
        cases rest with
        | nil =>
          exfalso
          simp only [List.getLast?_singleton, Option.some.injEq] at hlast
          rw [← hlast, sg_not] at hin2
          linarith
        | cons xv r =>
          have htx : After topv.pos xv.pos := List.rel_of_pairwise_cons hsort (by simp)
          have hz : wind topv.pos cur.pos q = 0 := by
            rcases mul_eq_zero.mp t.symm with z | z
            · exact absurd z (sg_ne_zero _)
            · exact z
          refine ⟨fanTri cur xv topv, ?_, ?_⟩
          · rw [fanTris_reverse]; simp [fanTop]
          · exact (fanTri_in pos c cur xv topv hcur (hgood xv (by simp)) (hgood topv (by simp)) hfan.1 q).2
              (diag_closed c htx hdt hqt hdq hfan.1 hz)
      · exact Or.inl (Or.inr ⟨g, Or.inl ⟨⟨hqt, hdq⟩, by rw [sg_not]; linarith⟩⟩)
    · exact Or.inl (Or.inr ⟨g, Or.inr g2⟩)
  · intro q
    constructor
    · intro h; exact Or.inr h
    · rintro (h | h)
      · exact absurd h (fan_rest_empty c F' hO q)
      · exact h

/-- **the chain polygon cut off a region, with covering**: `hfanC` is the tiling of the chain polygon
closed on its chord side -/
theorem chain_fan_tilesC {T : Type} (c : Bool) (A M B : List (P K)) (h last : P K) (Op : P K → Prop)
    (I Ic : T → P K → Prop) (ts : List T)
    (hfan : Tiles0 (InPoly c (h :: M ++ [last]) [h, last]) I ts (fun _ => False))
    (hfanC : Tiles (fun x => ChainIn c (h :: M ++ [last]) x ∧ CSide c h last x) I Ic ts (fun _ => False))
    (hA : SortedP (A ++ [h])) (hB : SortedP (last :: B)) (hE : SortedP (h :: M ++ [last]))
    (hlh : After last h) (hconv : ∀ v ∈ h :: M ++ [last], 0 ≤ sg c * wind h v last)
    (hCP : ∀ q, InPoly c (h :: M ++ [last]) [h, last] q → Op q) :
    Tiles (fun q => ChainIn c (A ++ h :: M ++ last :: B) q ∧ Op q) I Ic ts
      (fun q => ChainIn c (A ++ h :: last :: B) q ∧ Op q) := by
  have t0 := chain_fan_tiles0 c A M B h last Op I ts hfan hA hB hE hlh hconv hCP
  refine ⟨t0.inside, t0.sub, t0.apart, t0.disj, ?_⟩
  rintro q ⟨h1, h2⟩
  rcases (chainIn_three c A M B h last q).mp h1 with g | g | g
  · exact Or.inl ⟨(chainIn_chord c A B h last q).mpr (Or.inl g), h2⟩
  · have hqh := chainIn_lower c h (M ++ [last]) q hE g
    have hlq := chainIn_upper c (h :: M ++ [last]) q last hE List.getLast?_concat g
    by_cases t : 0 < sg c * wind h last q
    · exact Or.inl ⟨(chainIn_chord c A B h last q).mpr (Or.inr (Or.inl ⟨⟨hqh, hlq⟩, t⟩)), h2⟩
    · right
      rcases hfanC.cover q ⟨g, ⟨hqh, hlq⟩, by rw [sg_not]; linarith [not_lt.mp t]⟩ with e | e
      · exact absurd e id
      · exact e
  · exact Or.inl ⟨(chainIn_chord c A B h last q).mpr (Or.inr (Or.inr g)), h2⟩

end Geometry

end Lyon.C02f
