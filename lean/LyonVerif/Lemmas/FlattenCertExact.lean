/-
  Core algebra of the exact flattening checker (Model/Geom/FlattenCertExact.lean):

  * `chord_sq_identity`  `|(s−s2)·v − w·dd|²·|v|² = ((s−s2)|v|² − w·dd·v)² + w²·(dd × v)²`
  * `hair_scalar`        on the stretch where the foot of the perpendicular has left the chord
                         (`s|v|² < s(1−s)·a`, `a = |dd·v| > |v|²`) the squared distance to the nearer
                         end point is at most `hairEndSq`
  * `dev_core`           **`devSq (B − A) dd` bounds the squared distance of `lerp(A,B,s) − s(1−s)·dd`
                         to the segment `AB`** for every `s ∈ [0,1]` (degenerate, perpendicular and
                         hairpin chords)
  * `lerp_shift`         moving both end points of a segment by at most `eps` moves each of its
                         points by at most `eps`
  * `quad_ctrl_shift`    moving the three control points of a quadratic by at most `eps` moves each
                         of its points by at most `eps`
-/
import LyonVerif.Model.Geom.FlattenCertExact
import LyonVerif.Lemmas.Field
import LyonVerif.Lemmas.Flatten
import LyonVerif.Lemmas.FlattenTolCubic
import LyonVerif.Lemmas.FlattenTolQuad
import Mathlib.Tactic.Positivity
import Mathlib.Tactic.NormNum

set_option linter.unusedSectionVars false
set_option linter.unusedVariables false

geom_all Lyon.FlatChk

namespace Lyon.FlatChk
open Lyon Scalar Lyon.Flat

variable {K : Type} [Field K] [LinearOrder K] [IsStrictOrderedRing K]

/-- Lagrange: the squared length of `(s−s2)·v − w·dd`, times `|v|²` -/
theorem chord_sq_identity (A B dd : P K) (s s2 w : K) :
    ((A.lerp B s + dd.smul (-w)) - A.lerp B s2).sqLen * (B - A).sqLen
      = ((s - s2) * (B - A).sqLen - w * dd.dot (B - A)) ^ 2 + w ^ 2 * (dd.cross (B - A) * dd.cross (B - A)) := by
  simp only [geom, Nat.cast_one]; ring

/-- the hairpin stretch, in scalars (`a = |dd·v|`, `vv = |v|²`) -/
theorem hair_scalar (s vv a cr W : K) (hs0 : 0 ≤ s) (hs1 : s ≤ 1) (hvv : 0 < vv) (ha : vv < a)
    (hneg : s * vv < s * (1 - s) * a)
    (hW : W = if a ≤ 2 * vv then (a - vv) * vv / (a * a) else 1 / 4) :
    ((s * vv - s * (1 - s) * a) ^ 2 + (s * (1 - s)) ^ 2 * (cr * cr)) / vv
      ≤ W * W * (cr * cr) / vv + ((a - vv) * (a - vv)) * ((a - vv) * (a - vv)) / (16 * (a * a) * vv) := by
  have ha0 : 0 < a := lt_trans hvv ha
  have hex : 0 < a - vv := by linarith
  have hspos : 0 < s := by
    rcases eq_or_lt_of_le hs0 with h | h
    · rw [← h] at hneg; simp at hneg
    · exact h
  -- vv < (1 − s)·a
  have h1 : vv < (1 - s) * a := by
    have : s * vv < s * ((1 - s) * a) := by linarith
    exact lt_of_mul_lt_mul_left this hs0
  have hw0 : 0 ≤ s * (1 - s) := mul_nonneg hs0 (by linarith)
  -- g = s(1−s)a − s·vv, 0 < g ≤ ex²/(4a)
  have hg0 : 0 < s * (1 - s) * a - s * vv := by linarith
  have hg1 : (s * (1 - s) * a - s * vv) * (4 * a) ≤ (a - vv) * (a - vv) := by
    nlinarith [sq_nonneg ((a - vv) - 2 * s * a)]
  have hg2 : (s * vv - s * (1 - s) * a) ^ 2 * (16 * (a * a)) ≤ ((a - vv) * (a - vv)) * ((a - vv) * (a - vv)) := by
    have h4a : 0 < 4 * a := by linarith
    have := mul_self_le_mul_self (le_of_lt (mul_pos hg0 h4a)) hg1
    nlinarith
  -- s(1−s) ≤ W
  have hsW : s * (1 - s) ≤ W := by
    rw [hW]
    split_ifs with h2
    · -- s < s* = (a − vv)/a ≤ 1/2, w increasing there
      rw [le_div_iff₀ (mul_pos ha0 ha0)]
      -- s·a < a − vv
      have hsa : s * a < a - vv := by nlinarith
      -- w(s*) − w(s) = (s* − s)(1 − s − s*) ≥ 0, multiplied by a²
      have e : (a - vv) * vv - s * (1 - s) * (a * a) = ((a - vv) - s * a) * (vv - s * a) := by ring
      have h3 : 0 ≤ vv - s * a := by nlinarith
      nlinarith [mul_nonneg (le_of_lt (by linarith : 0 < (a - vv) - s * a)) h3]
    · exact chord_factor s
  have hW0 : 0 ≤ W := le_trans hw0 hsW
  have hw2 : (s * (1 - s)) ^ 2 ≤ W * W := by
    have := mul_self_le_mul_self hw0 hsW
    nlinarith
  have hcr : 0 ≤ cr * cr := mul_self_nonneg cr
  have h16 : 0 < 16 * (a * a) := by positivity
  have e2 : ((a - vv) * (a - vv)) * ((a - vv) * (a - vv)) / (16 * (a * a) * vv)
      = ((a - vv) * (a - vv)) * ((a - vv) * (a - vv)) / (16 * (a * a)) / vv := by
    rw [div_div]
  rw [e2, ← add_div]
  apply div_le_div_of_nonneg_right _ (le_of_lt hvv)
  have h5 : (s * vv - s * (1 - s) * a) ^ 2 ≤ ((a - vv) * (a - vv)) * ((a - vv) * (a - vv)) / (16 * (a * a)) := by
    rw [le_div_iff₀ h16]; exact hg2
  have h6 : (s * (1 - s)) ^ 2 * (cr * cr) ≤ W * W * (cr * cr) := mul_le_mul_of_nonneg_right hw2 hcr
  linarith

/-- **the deviation bound**: for every `s ∈ [0,1]` the point `lerp(A,B,s) − s(1−s)·dd` is within
`√(devSq (B−A) dd)` of the segment `AB` -/
theorem dev_core (A B dd : P K) (s : K) (hs0 : 0 ≤ s) (hs1 : s ≤ 1) :
    ∃ s2 : K, 0 ≤ s2 ∧ s2 ≤ 1 ∧
      ((A.lerp B s + dd.smul (-(s * (1 - s)))) - A.lerp B s2).sqLen ≤ devSq (B - A) dd := by
  have hw0 : 0 ≤ s * (1 - s) := mul_nonneg hs0 (by linarith)
  have hw1 : s * (1 - s) ≤ 1 / 4 := chord_factor s
  have hw2 : (s * (1 - s)) ^ 2 ≤ 1 / 16 := by nlinarith
  unfold devSq
  simp only [sc_zero, sc_abs, sc_max]
  obtain ⟨vv, hvvdef⟩ : ∃ x : K, x = (B - A).sqLen := ⟨_, rfl⟩
  obtain ⟨dv, hdv⟩ : ∃ x : K, x = dd.dot (B - A) := ⟨_, rfl⟩
  obtain ⟨cr, hcr⟩ : ∃ x : K, x = dd.cross (B - A) := ⟨_, rfl⟩
  have hid := fun s2 => chord_sq_identity A B dd s s2 (s * (1 - s))
  by_cases hvv : 0 < (B - A).sqLen
  · rw [if_pos hvv]
    have hperp : ∀ s2 : K, (s - s2) * vv = s * (1 - s) * dv →
        ((A.lerp B s + dd.smul (-(s * (1 - s)))) - A.lerp B s2).sqLen ≤ perpSq (B - A) dd := by
      intro s2 h0
      have h := hid s2
      rw [← hvvdef, ← hdv, ← hcr, h0, sub_self] at h
      simp only [perpSq, ofNat_eq, Nat.cast_ofNat]
      rw [← hvvdef, ← hcr, le_div_iff₀ (by rw [hvvdef]; positivity)]
      have hc0 : 0 ≤ cr * cr := mul_self_nonneg cr
      nlinarith [mul_le_mul_of_nonneg_right hw2 hc0]
    have hvv' : 0 < vv := by rw [hvvdef]; exact hvv
    obtain ⟨κ, hκdef⟩ : ∃ x : K, x = dv / vv := ⟨_, rfl⟩
    have hκv : κ * vv = dv := by rw [hκdef]; field_simp
    have hfoot : (s - (s - s * (1 - s) * κ)) * vv = s * (1 - s) * dv := by rw [← hκv]; ring
    by_cases hk : |dd.dot (B - A)| ≤ (B - A).sqLen
    · -- perpendicular chord
      rw [if_pos hk]
      rw [← hdv, ← hvvdef] at hk
      have hκ1 : κ ≤ 1 := by rw [hκdef, div_le_one hvv']; exact le_trans (le_abs_self _) hk
      have hκ2 : -1 ≤ κ := by
        rw [hκdef, le_div_iff₀ hvv']; have := neg_abs_le dv; linarith
      refine ⟨s - s * (1 - s) * κ, ?_, ?_, hperp _ hfoot⟩
      · have : s - s * (1 - s) * κ = s * (1 - (1 - s) * κ) := by ring
        rw [this]; apply mul_nonneg hs0; nlinarith
      · have : 1 - (s - s * (1 - s) * κ) = (1 - s) * (1 + s * κ) := by ring
        have h2 : 0 ≤ (1 - s) * (1 + s * κ) := mul_nonneg (by linarith) (by nlinarith)
        linarith
    · -- hairpin chord
      rw [if_neg hk]
      rw [← hdv, ← hvvdef] at hk
      have hk' : vv < |dv| := not_le.mp hk
      -- the bound at an end point, from `hair_scalar`
      have hend : ∀ (s' : K) (s2 : K), 0 ≤ s' → s' ≤ 1 → s' * (1 - s') = s * (1 - s) →
          ((s - s2) * vv - s * (1 - s) * dv) ^ 2 = (s' * vv - s' * (1 - s') * |dv|) ^ 2 →
          s' * vv < s' * (1 - s') * |dv| →
          ((A.lerp B s + dd.smul (-(s * (1 - s)))) - A.lerp B s2).sqLen ≤ hairEndSq (B - A) dd := by
        intro s' s2 h0 h1 hw hsq hneg
        have h := hid s2
        rw [← hvvdef, ← hdv, ← hcr, hsq] at h
        have hs := hair_scalar s' vv |dv| cr (hairW (B - A) dd) h0 h1 hvv' hk' hneg (by
          simp only [hairW, hairEx, sc_abs, sc_two, sc_one, sc_four, ← hdv, ← hvvdef, abs_mul_abs_self])
        simp only [hairEndSq, hairAlongSq, hairEx, sc_abs, ofNat_eq, Nat.cast_ofNat, ← hdv, ← hvvdef, ← hcr]
        rw [abs_mul_abs_self] at hs
        refine le_trans (le_of_eq ?_) hs
        rw [eq_div_iff (ne_of_gt hvv'), h, hw]
      rcases le_or_gt 0 dv with hpos | hnegdv
      · -- κ > 1: the foot can only leave at A
        rw [abs_of_nonneg hpos] at hk'
        have hκpos : 0 ≤ κ := by rw [hκdef]; exact div_nonneg hpos (le_of_lt hvv')
        by_cases hf : 0 ≤ s - s * (1 - s) * κ
        · refine ⟨s - s * (1 - s) * κ, hf, ?_, le_trans (hperp _ hfoot) (le_max_left _ _)⟩
          have : 0 ≤ s * (1 - s) * κ := mul_nonneg hw0 hκpos
          linarith
        · refine ⟨0, le_refl _, zero_le_one, le_trans (hend s 0 hs0 hs1 rfl ?_ ?_) (le_max_right _ _)⟩
          · rw [abs_of_nonneg hpos]; ring
          · rw [abs_of_nonneg hpos]
            have hf' : s - s * (1 - s) * κ < 0 := not_le.mp hf
            have : (s - s * (1 - s) * κ) * vv < 0 := mul_neg_of_neg_of_pos hf' hvv'
            nlinarith
      · -- κ < −1: the foot can only leave at B
        rw [abs_of_neg hnegdv] at hk'
        have hκneg : κ ≤ 0 := by rw [hκdef]; exact div_nonpos_of_nonpos_of_nonneg (le_of_lt hnegdv) (le_of_lt hvv')
        by_cases hf : s - s * (1 - s) * κ ≤ 1
        · refine ⟨s - s * (1 - s) * κ, ?_, hf, le_trans (hperp _ hfoot) (le_max_left _ _)⟩
          have : s * (1 - s) * κ ≤ 0 := mul_nonpos_of_nonneg_of_nonpos hw0 hκneg
          linarith
        · refine ⟨1, zero_le_one, le_refl _, le_trans (hend (1 - s) 1 (by linarith) (by linarith) (by ring) ?_ ?_) (le_max_right _ _)⟩
          · rw [abs_of_neg hnegdv]; ring
          · rw [abs_of_neg hnegdv]
            have hf' : 1 < s - s * (1 - s) * κ := not_le.mp hf
            have : vv < (s - s * (1 - s) * κ) * vv := by nlinarith
            nlinarith
  · -- degenerate chord: A = B
    rw [if_neg hvv]
    refine ⟨s, hs0, hs1, ?_⟩
    have e : ((A.lerp B s + dd.smul (-(s * (1 - s)))) - A.lerp B s).sqLen = (s * (1 - s)) ^ 2 * dd.sqLen := by
      simp only [geom, Nat.cast_one]; ring
    rw [e]
    simp only [ofNat_eq, Nat.cast_ofNat]
    rw [le_div_iff₀ (by norm_num)]
    have := mul_le_mul_of_nonneg_right hw2 (sqLen_nonneg dd)
    linarith

/-- moving both end points of a segment by at most `eps` moves each of its points by at most `eps` -/
theorem lerp_shift (A B A2 B2 : P K) (e2 s : K) (hs0 : 0 ≤ s) (hs1 : s ≤ 1)
    (ha : (A2 - A).sqLen ≤ e2) (hb : (B2 - B).sqLen ≤ e2) :
    (A.lerp B s - A2.lerp B2 s).sqLen ≤ e2 := by
  have e : (A.lerp B s - A2.lerp B2 s).sqLen
      = (1 - s) * (A2 - A).sqLen + s * (B2 - B).sqLen
        - s * (1 - s) * ((A2 - A) - (B2 - B)).sqLen := by
    simp only [geom, Nat.cast_one]; ring
  rw [e]
  have h1 : 0 ≤ s * (1 - s) * ((A2 - A) - (B2 - B)).sqLen :=
    mul_nonneg (mul_nonneg hs0 (by linarith)) (sqLen_nonneg _)
  have h2 : (1 - s) * (A2 - A).sqLen ≤ (1 - s) * e2 := mul_le_mul_of_nonneg_left ha (by linarith)
  have h3 : s * (B2 - B).sqLen ≤ s * e2 := mul_le_mul_of_nonneg_left hb hs0
  nlinarith

/-- moving the control points of a quadratic by at most `eps` moves each of its points by at most
`eps` (the Bernstein weights are a convex combination) -/
theorem quad_ctrl_shift (q r : Quad K) (e2 u : K) (hu0 : 0 ≤ u) (hu1 : u ≤ 1)
    (ha : (q.a - r.a).sqLen ≤ e2) (hc : (q.c - r.c).sqLen ≤ e2) (hb : (q.b - r.b).sqLen ≤ e2) :
    (r.sample u - q.sample u).sqLen ≤ e2 := by
  -- weights
  obtain ⟨w0, hw0d⟩ : ∃ x : K, x = (1 - u) * (1 - u) := ⟨_, rfl⟩
  obtain ⟨w1, hw1d⟩ : ∃ x : K, x = 2 * u * (1 - u) := ⟨_, rfl⟩
  obtain ⟨w2, hw2d⟩ : ∃ x : K, x = u * u := ⟨_, rfl⟩
  have hw0 : 0 ≤ w0 := by rw [hw0d]; exact mul_self_nonneg _
  have hw1 : 0 ≤ w1 := by rw [hw1d]; exact mul_nonneg (mul_nonneg (by norm_num) hu0) (by linarith)
  have hw2 : 0 ≤ w2 := by rw [hw2d]; exact mul_self_nonneg _
  have hsum : w0 + w1 + w2 = 1 := by rw [hw0d, hw1d, hw2d]; ring
  have e : (r.sample u - q.sample u).sqLen
      = w0 * (q.a - r.a).sqLen + w1 * (q.c - r.c).sqLen + w2 * (q.b - r.b).sqLen
        - w0 * w1 * ((q.a - r.a) - (q.c - r.c)).sqLen - w0 * w2 * ((q.a - r.a) - (q.b - r.b)).sqLen
        - w1 * w2 * ((q.c - r.c) - (q.b - r.b)).sqLen := by
    rw [hw0d, hw1d, hw2d]
    simp only [geom, Nat.cast_one, Nat.cast_ofNat]; ring
  rw [e]
  have n1 : 0 ≤ w0 * w1 * ((q.a - r.a) - (q.c - r.c)).sqLen := mul_nonneg (mul_nonneg hw0 hw1) (sqLen_nonneg _)
  have n2 : 0 ≤ w0 * w2 * ((q.a - r.a) - (q.b - r.b)).sqLen := mul_nonneg (mul_nonneg hw0 hw2) (sqLen_nonneg _)
  have n3 : 0 ≤ w1 * w2 * ((q.c - r.c) - (q.b - r.b)).sqLen := mul_nonneg (mul_nonneg hw1 hw2) (sqLen_nonneg _)
  have m0 : w0 * (q.a - r.a).sqLen ≤ w0 * e2 := mul_le_mul_of_nonneg_left ha hw0
  have m1 : w1 * (q.c - r.c).sqLen ≤ w1 * e2 := mul_le_mul_of_nonneg_left hc hw1
  have m2 : w2 * (q.b - r.b).sqLen ≤ w2 * e2 := mul_le_mul_of_nonneg_left hb hw2
  have : w0 * e2 + w1 * e2 + w2 * e2 = e2 := by rw [← add_mul, ← add_mul, hsum, one_mul]
  linarith

end Lyon.FlatChk
