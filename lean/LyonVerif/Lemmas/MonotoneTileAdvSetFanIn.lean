/-
  C02 growth 4 (`Props/C02g.lean`), part 8: every triangle `flush_side` emits for a buffered chain
  of a reached state lies strictly inside the monotone polygon (`fan_triangle_inside`,
  `adv_state_fan_inside`), and the fans tile their chain polygons, which lie inside the polygon
  (`adv_state_fan_tiles`, `chain_poly_inside`).
-/
import LyonVerif.Lemmas.MonotoneTileAdvSetInside

set_option linter.unusedSectionVars false
set_option linter.unusedVariables false
set_option linter.unusedSimpArgs false

namespace Lyon.C02f
open Lyon Lyon.Mono Lyon.C02 Lyon.C02c

section Geometry
variable {K : Type} [Field K] [LinearOrder K] [IsStrictOrderedRing K]

variable (seq : List (P K × Bool))

theorem range_map_evPos (pos : Nat → P K) (ev : List Nat) :
    (List.range ev.length).map (evPos pos ev) = ev.map pos := by
  apply List.ext_getElem
  · simp
  · intro i h1 h2
    simp [evPos, List.getD_eq_getElem?_getD]
    simp at h1
    simp [h1]

/-- the chain polygon of a buffered chain written with the chain's ids -/
theorem chain_poly_eq {l : Bool} {k : Nat} {s : SideEv K} (hc : SideChain seq l k s) :
    InPoly l ((List.range s.events.length).map (evPos (posOf seq) s.events))
        [evPos (posOf seq) s.events 0, evPos (posOf seq) s.events (s.events.length - 1)] =
      InPoly l (s.events.map (posOf seq)) [posOf seq (headId s), s.last.pos] := by
  rw [range_map_evPos, evPos_last (posOf seq) s.events s.last.id hc.last, ← hc.good]
  congr 3
  simp only [evPos, headId]
  cases hs : s.events with
  | nil => exact absurd hs hc.ne
  | cons a r => simp

/-- **a triangle of `flush_side` lies inside the polygon** -/
theorem fan_triangle_inside (hval : SweepValid seq) (h2 : 2 ≤ seq.length) {l : Bool} {k : Nat} {s : SideEv K}
    (hc : SideChain seq l k s) (hk : k + 1 ≤ seq.length) (hcl : ChordClear seq l s)
    (hci : CInv (posOf seq) l s) (hg : ChainGeneral (posOf seq) s.events)
    (t : Tri) (ht : t ∈ flushLevels s.events.toArray s.events.length (!l) (s.events.length + 1) 1)
    (x : P K) (hx : TriIn (posOf seq) t x) :
    ChainIn l ((0 :: futIds seq l 1).map (posOf seq)) x ∧
      ChainIn (!l) ((0 :: futIds seq (!l) 1).map (posOf seq)) x := by
  have hreg := (flush_side_fan_tiles hci hg).inside t ht x hx
  rw [chain_poly_eq seq hc] at hreg
  have hl2 : 2 ≤ s.events.length := by
    by_contra hn
    have hlen : s.events.length - 2 = 0 := by omega
    have := flushLevels_count s.events.toArray s.events.length (!l)
    rw [hlen] at this
    rw [List.length_eq_zero_iff.mp this] at ht
    cases ht
  refine chain_poly_inside seq hval h2 hc hk hcl hl2 x hreg ?_
  intro i j hi hj hjn hf
  -- the three vertices of the triangle are chain vertices, all strictly inside of `i → j`
  have hge : ∀ v ∈ s.events, headId s ≤ v := by
    intro v hv
    have hinc := hc.inc
    rw [hc.head_mem seq] at hinc hv
    rcases List.mem_cons.mp hv with g | g
    · omega
    · exact Nat.le_of_lt (List.rel_of_pairwise_cons hinc g)
  have hid : ∀ p, p < s.events.length → i < s.events.toArray.getD p 0 ∧ s.events.toArray.getD p 0 < j := by
    intro p hp
    have e : s.events.toArray.getD p 0 = s.events[p] := by simp [hp]
    have hm : s.events[p] ∈ s.events := List.getElem_mem hp
    have h1 := hc.le_last seq _ hm
    have h3 := hge _ hm
    rw [e]; omega
  obtain ⟨a, b, c, hab, hbc, hcl', hshape⟩ := flushLevels_ids s.events.toArray s.events.length (!l) t ht
  have fa := hf _ (hid a (by omega)).1 (hid a (by omega)).2
  have fb := hf _ (hid b (by omega)).1 (hid b (by omega)).2
  have fc := hf _ (hid c hcl').1 (hid c hcl').2
  unfold TriIn at hx
  cases l
  · simp only [Bool.not_false, if_true] at hshape
    rcases hshape with e | e <;> rw [e] at hx
    · exact inTri_side hx fb fa fc
    · exact inTri_side hx fa fc fb
  · simp only [Bool.not_true, Bool.false_eq_true, if_false] at hshape
    rw [hshape] at hx
    exact inTri_side hx fa fb fc

/-- `InsidePoly` in terms of the id chains -/
theorem insidePoly_iff (x : P K) :
    InsidePoly seq x ↔ ChainIn true ((0 :: futIds seq true 1).map (posOf seq)) x ∧
      ChainIn false ((0 :: futIds seq false 1).map (posOf seq)) x := Iff.rfl

/-- **in every reached state, every triangle `flush_side` would emit for either buffered chain
lies strictly inside the polygon** -/
theorem adv_state_fan_inside (hval : SweepValid seq) (hnc : NoCollinear seq) (h2 : 2 ≤ seq.length) (i : Nat)
    (l : Bool) (s : SideEv K) (hs : s = (if l then (advState seq i).left else (advState seq i).right))
    (t : Tri) (ht : t ∈ flushLevels s.events.toArray s.events.length (!l) (s.events.length + 1) 1)
    (x : P K) (hx : TriIn (posOf seq) t x) : InsidePoly seq x := by
  obtain ⟨hz, hcl, hcr, hk⟩ := adv_state_facts seq hval h2 i
  rw [insidePoly_iff]
  cases l
  · simp only [Bool.false_eq_true, if_false] at hs
    subst hs
    have := fan_triangle_inside seq hval h2 hz.cb (by omega) hz.hb hcr (chainGeneral_of seq hnc hz.cb (by omega)) t ht x hx
    simp only [Bool.not_true, Bool.not_false] at this
    exact ⟨this.2, this.1⟩
  · simp only [if_true] at hs
    subst hs
    exact fan_triangle_inside seq hval h2 hz.ca (by omega) hz.ha hcl (chainGeneral_of seq hnc hz.ca (by omega)) t ht x hx

end Geometry

end Lyon.C02f
