/-
  C02 growth 3 (`Props/C02f.lean`), part 8: the change-of-side `vertex` call (and the final `end`
  call, which is one) of the basic monotone tessellator on a valid sweep sequence as a `Tiles`
  step between the remaining polygons of the two states (`fan_step_state`), and the two kinds of
  step combined (`vertex_tiles`).
-/
import LyonVerif.Lemmas.MonotoneTileStep

set_option linter.unusedSectionVars false
set_option linter.unusedVariables false
set_option linter.unusedSimpArgs false

namespace Lyon.C02f
open Lyon Lyon.Mono Lyon.C02 Lyon.C02c

section Geometry
variable {K : Type} [Field K] [LinearOrder K] [IsStrictOrderedRing K]

variable (seq : List (P K × Bool))

/-- **change-of-side step** (also the `end` call: `k + 1 = seq.length`) -/
theorem fan_step_state (hval : SweepValid seq) (s : Basic K) (k : Nat) (cur : MV K)
    (h : VInv seq s k) (hk : k < seq.length) (hid : cur.id = k) (hpos : Good (posOf seq) cur)
    (hsd : k + 1 = seq.length ∨ sideAt seq k = cur.left) (hside : cur.left ≠ s.previous.left) :
    ∃ nt, (s.vertex cur).tris = s.tris ++ nt ∧
      Tiles (region seq s k) (TriIn (posOf seq)) (TriInC (posOf seq)) nt (region seq (s.vertex cur) (k + 1)) := by
  obtain ⟨rest, hst⟩ := h.top
  have hopp : cur.left = !s.previous.left := bool_ne_not hside
  have hne : (cur.left != s.previous.left) = true := by rw [hopp]; cases s.previous.left <;> rfl
  have hv : s.vertex cur = ⟨[cur, s.previous], cur, s.tris ++ fanTris cur s.stack.reverse⟩ := by
    simp only [Basic.vertex, hne, if_true]
  refine ⟨fanTris cur s.stack.reverse, by rw [hv], ?_⟩
  obtain ⟨bot, hF⟩ := stackFacts seq hval s k h hk
  have hcp : cur.pos = posOf seq k := by rw [← hid]; exact hpos
  have hfan : FanPosT s.previous.left cur.pos (s.stack.map (·.pos)) :=
    (valid_noFlip seq s k cur hval h hk hid hpos hsd).2 hside
  have hbmem : bot ∈ s.stack := List.mem_of_getLast? hF.last
  have hsideS : ∀ v ∈ s.stack, v.pos = bot.pos ∨ 0 < sg s.previous.left * wind bot.pos v.pos cur.pos := by
    obtain ⟨r1, r2⟩ := h.run bot hF.last
    have hrun : RunBetween seq s.previous.left bot.id k := ⟨r1, r2, hsd.imp id (fun e => by rw [e, hopp])⟩
    intro v hv'
    rcases hF.lo v hv' with e | e
    · left; rw [h.good v hv', h.good bot hbmem, e]
    · right
      have := (onSide_iff _ _ _ _).mp (hval.2 k hk bot.id hF.botLt s.previous.left hrun v.id (h.lt v hv') e)
      rw [h.good bot hbmem, h.good v hv', hcp]
      exact this
  have hcs : ∀ v ∈ s.stack, After cur.pos v.pos := by
    intro v hv'; rw [hcp]; exact hF.before v hv' k hk (h.lt v hv')
  have hprev : s.previous.pos = posOf seq s.previous.id := h.good s.previous (by rw [hst]; simp)
  have hpid := h.prevId
  have hFlast := hF.last
  have hFsort := hF.sort
  rw [hst] at hFlast hFsort hfan hsideS hcs
  have hgood : ∀ v ∈ s.previous :: rest, Good (posOf seq) v := by rw [← hst]; exact h.good
  by_cases hl : k + 1 = seq.length
  · -- the last vertex
    have eL : region seq s k = InPoly s.previous.left (((s.previous :: rest).map (·.pos)).reverse ++ cur.pos :: [])
        (bot.pos :: cur.pos :: []) := by
      unfold region
      rw [hF.botPos, hst]
      simp only [fut]
      rw [futIds_last seq _ hl, futIds_last seq _ hl, hcp]; rfl
    have t := fan_step_tiles (posOf seq) s.previous.left cur bot s.previous rest cur.pos [] [] hgood hpos hFlast
      hFsort hcs hsideS hfan (Or.inl rfl)
      (by unfold SortedP; simp only [List.pairwise_cons, List.mem_singleton, forall_eq, List.not_mem_nil,
            false_imp_iff, implies_true, List.Pairwise.nil, and_true]; exact hcs s.previous (by simp))
      (by simp [SortedP])
    rw [← hst] at t
    rw [eL]
    rw [← hst]
    refine t.rebase (fun _ g => g) (fun _ g => Or.inl g) ?_
    intro q
    constructor
    · intro g
      exfalso
      unfold region at g
      rw [hv] at g
      simp only [fut] at g
      rw [futIds_end seq _ (by omega), futIds_end seq _ (by omega)] at g
      exact chainIn_single _ _ q g.2
    · intro g
      exact absurd g (fan_rest_empty s.previous.left [] (by simp [SortedP]) q)
  · have hk1 : k + 1 < seq.length := by omega
    have hsk : sideAt seq k = !s.previous.left := by
      rcases hsd with e | e
      · exact absurd e hl
      · rw [e, hopp]
    obtain ⟨f, restC, eC, f1, f2, f3, f4, f5, f6⟩ := futIds_head seq s.previous.left _ (k + 1) hk1 rfl
    have eFc : fut seq s.previous.left k = posOf seq f :: restC.map (posOf seq) := by
      simp only [fut]
      rw [futIds_other seq _ (by omega) (by rw [hsk]; cases s.previous.left <;> simp), eC]; rfl
    have eFc1 : fut seq s.previous.left (k + 1) = posOf seq f :: restC.map (posOf seq) := by
      simp only [fut]; rw [eC]; rfl
    have eFo : fut seq (!s.previous.left) k = cur.pos :: fut seq (!s.previous.left) (k + 1) := by
      simp only [fut]; rw [futIds_same seq _ (by omega) hsk, hcp]; rfl
    have eL : region seq s k = InPoly s.previous.left
        (((s.previous :: rest).map (·.pos)).reverse ++ posOf seq f :: restC.map (posOf seq))
        (bot.pos :: cur.pos :: fut seq (!s.previous.left) (k + 1)) := by
      unfold region
      rw [hF.botPos, hst, eFc, eFo]
    have eR : region seq (s.vertex cur) (k + 1) = InPoly s.previous.left
        (s.previous.pos :: posOf seq f :: restC.map (posOf seq))
        (s.previous.pos :: cur.pos :: fut seq (!s.previous.left) (k + 1)) := by
      funext q
      apply propext
      unfold region
      rw [hv]
      simp only
      rw [hopp, Bool.not_not, eFc1]
      have e0 : C02c.botPos (⟨[cur, s.previous], cur, s.tris ++ fanTris cur s.stack.reverse⟩ : Basic K) = s.previous.pos := by
        simp [C02c.botPos]
      rw [e0]
      have := inPoly_swap s.previous.left (s.previous.pos :: posOf seq f :: restC.map (posOf seq))
        (s.previous.pos :: cur.pos :: fut seq (!s.previous.left) (k + 1)) q
      simpa using this
    rw [eL, eR]
    -- `cur` is strictly inside of the edge `previous → f` of the stack's chain
    have hf : After (posOf seq f) cur.pos ∧ 0 < sg s.previous.left * wind s.previous.pos (posOf seq f) cur.pos := by
      refine ⟨by rw [hcp]; exact valid_after hval (by omega) f2, ?_⟩
      have hrb : RunBetween seq (!s.previous.left) s.previous.id f :=
        ⟨fun j hj1 hj2 => by
            by_cases g : j = k
            · rw [g]; exact hsk
            · exact f3 j (by omega) hj1,
          by rcases h.prevSide with e | e
             · exact Or.inl e
             · right; rw [e, Bool.not_not],
          by rw [Bool.not_not]; exact f4⟩
      have := hval.2 f f2 s.previous.id (by omega) (!s.previous.left) hrb k (by omega) (by omega)
      rw [onSide_inner, Bool.not_not] at this
      rw [hprev, hcp]
      exact this
    rw [show fanTris cur s.stack.reverse = fanTris cur (s.previous :: rest).reverse by rw [hst]]
    refine fan_step_tiles (posOf seq) s.previous.left cur bot s.previous rest (posOf seq f) _ _ hgood hpos hFlast
      hFsort hcs hsideS hfan (Or.inr hf) ?_ ?_
    · have := fut_sorted seq s.previous.left hval s.previous.id (k + 1) (by omega) hk1
      rw [eFc1, ← hprev] at this
      exact this
    · have := fut_sorted seq (!s.previous.left) hval k (k + 1) (by omega) hk1
      rw [← hcp] at this
      exact this

/-- **every `vertex` call on a valid sweep sequence cuts triangles off the
remaining polygon**: the new triangles lie inside the remaining polygon of the state before, are
pairwise disjoint and disjoint from the remaining polygon of the state after, which is a subset;
nothing else is lost (covering by the closed triangles). -/
theorem vertex_tiles (hval : SweepValid seq) (s : Basic K) (k : Nat) (cur : MV K)
    (h : VInv seq s k) (hk : k < seq.length) (hid : cur.id = k) (hpos : Good (posOf seq) cur)
    (hsd : (k + 1 = seq.length ∧ cur.left = !s.previous.left) ∨ (k + 1 < seq.length ∧ sideAt seq k = cur.left)) :
    ∃ nt, (s.vertex cur).tris = s.tris ++ nt ∧
      Tiles (region seq s k) (TriIn (posOf seq)) (TriInC (posOf seq)) nt (region seq (s.vertex cur) (k + 1)) := by
  by_cases hside : cur.left = s.previous.left
  · rcases hsd with ⟨_, e⟩ | ⟨hk1, e⟩
    · exfalso; rw [hside] at e; revert e; cases s.previous.left <;> simp
    · exact same_step_tiles seq hval s k cur h hk1 hid hpos e hside
  · exact fan_step_state seq hval s k cur h hk hid hpos (hsd.imp (·.1) (·.2)) hside

end Geometry

end Lyon.C02f
