/-
  C02 growth (`Props/C02c.lean`), part 10: the potential of `Lemmas/MonotoneAdvPot.lean` carried
  through `Adv.vertex` / `Adv.end_` / `Adv.run`:  `Σ wind(Adv.run seq) ≥ shoelace(polygonOf seq)`
  for EVERY (position, side) sequence.
-/
import LyonVerif.Lemmas.MonotoneAdvPot

set_option linter.unusedSectionVars false
set_option linter.unusedVariables false
set_option linter.unusedSimpArgs false

namespace Lyon.C02c
open Lyon Lyon.Mono Lyon.C02

section Geometry
variable {K : Type} [Field K] [LinearOrder K] [IsStrictOrderedRing K]

/-- invariant / potential on a triple (inner tessellator, side `l`, the other side) -/
def P3 (pos : Nat → P K) (l : Bool) (x : Trip K) : Prop :=
  PInvL pos x.1 l x.2.1.events x.2.1.last x.2.2.events x.2.2.last

noncomputable def Phi3 (pos : Nat → P K) (l : Bool) (x : Trip K) : K :=
  Phi pos x.1 l x.2.1.events x.2.1.last.pos x.2.2.events x.2.2.last.pos

theorem flushOwn_pot (pos : Nat → P K) (tess : Basic K) (a b : SideEv K) (p : P K) (l : Bool)
    (h : P3 pos l (tess, a, b)) :
    P3 pos l (flushOwn tess a b p l) ∧ Phi3 pos l (tess, a, b) ≤ Phi3 pos l (flushOwn tess a b p l) ∧
      (flushOwn tess a b p l).2.1.last = a.last ∧ (flushOwn tess a b p l).2.2.last = b.last := by
  unfold flushOwn
  rcases flushSide_cases a (!l) with ⟨_, e⟩ | ⟨hl, e1, e2, e3, e4⟩
  · rw [e]; exact ⟨h, le_refl _, rfl, rfl⟩
  · rw [e4]
    have r1 : (reRef (flushSide a !l).1 p l).events = [a.last.id] := e1
    have r2 : (reRef (flushSide a !l).1 p l).last = a.last := e2
    obtain ⟨f1, f2⟩ := flush_pot (l := l) (a := a) (b := b) h hl
    simp only [P3, Phi3, r1, r2, e3]
    exact ⟨f1, f2, trivial, trivial⟩

theorem flushOpp_pot (pos : Nat → P K) (tess : Basic K) (a b : SideEv K) (l : Bool)
    (h : P3 pos l (tess, a, b)) :
    P3 pos l (flushOpp tess a b l) ∧ Phi3 pos l (tess, a, b) ≤ Phi3 pos l (flushOpp tess a b l) ∧
      (flushOpp tess a b l).2.1.last = a.last ∧ (flushOpp tess a b l).2.2.last = b.last := by
  unfold flushOpp
  rcases flushSide_cases b l with ⟨_, e⟩ | ⟨hl, e1, e2, e3, e4⟩
  · rw [e]; exact ⟨h, le_refl _, rfl, rfl⟩
  · rw [e4]
    have hs : PInvL pos tess (!l) b.events b.last a.events a.last := PInvL.symm h
    obtain ⟨f1, f2⟩ := flush_pot (l := !l) (a := b) (b := a) hs hl
    rw [Bool.not_not] at f1 f2
    simp only [P3, Phi3, e1, e2, e3]
    refine ⟨?_, ?_, trivial, trivial⟩
    · have := f1.symm
      rwa [Bool.not_not] at this
    · rw [Phi_symm] at f2
      rw [Phi_symm] at f2
      exact f2

theorem stepSides_pot (pos : Nat → P K) (tess : Basic K) (a b : SideEv K) (dx : K) (p : P K) (id : Nat) (l : Bool)
    (h : P3 pos l (tess, a, b)) (hp : pos id = p) :
    P3 pos l (stepSides tess a b dx p id l) ∧
      Phi3 pos l (tess, a, b) + wind (outL l a.last.pos b.last.pos) p (outR l a.last.pos b.last.pos) ≤
        Phi3 pos l (stepSides tess a b dx p id l) ∧
      (stepSides tess a b dx p id l).2.1.last.pos = p ∧ (stepSides tess a b dx p id l).2.2.last = b.last := by
  dsimp only [stepSides]
  have h1 : P3 pos l (if isAfter a.last.pos b.last.pos then flushOpp tess a b l else (tess, a, b)) ∧
      Phi3 pos l (tess, a, b) ≤ Phi3 pos l (if isAfter a.last.pos b.last.pos then flushOpp tess a b l else (tess, a, b)) ∧
      (if isAfter a.last.pos b.last.pos then flushOpp tess a b l else (tess, a, b)).2.1.last = a.last ∧
      (if isAfter a.last.pos b.last.pos then flushOpp tess a b l else (tess, a, b)).2.2.last = b.last := by
    split
    · exact flushOpp_pot pos tess a b l h
    · exact ⟨h, le_refl _, rfl, rfl⟩
  generalize (if isAfter a.last.pos b.last.pos then flushOpp tess a b l else (tess, a, b)) = r1 at h1 ⊢
  obtain ⟨h1a, h1b, h1c, h1d⟩ := h1
  have h2 : P3 pos l (if (outwardTurn a p l (decide (dx < (p.y - a.refPt.y) * Scalar.ofSci 1 1)) ||
        decide (dx < (p.y - a.refPt.y) * Scalar.ofSci 1 1)) = true then flushOwn r1.1 r1.2.1 r1.2.2 p l else (tess, a, b)) ∧
      Phi3 pos l (tess, a, b) ≤ Phi3 pos l (if (outwardTurn a p l (decide (dx < (p.y - a.refPt.y) * Scalar.ofSci 1 1)) ||
        decide (dx < (p.y - a.refPt.y) * Scalar.ofSci 1 1)) = true then flushOwn r1.1 r1.2.1 r1.2.2 p l else (tess, a, b)) ∧
      (if (outwardTurn a p l (decide (dx < (p.y - a.refPt.y) * Scalar.ofSci 1 1)) ||
        decide (dx < (p.y - a.refPt.y) * Scalar.ofSci 1 1)) = true then flushOwn r1.1 r1.2.1 r1.2.2 p l else (tess, a, b)).2.1.last = a.last ∧
      (if (outwardTurn a p l (decide (dx < (p.y - a.refPt.y) * Scalar.ofSci 1 1)) ||
        decide (dx < (p.y - a.refPt.y) * Scalar.ofSci 1 1)) = true then flushOwn r1.1 r1.2.1 r1.2.2 p l else (tess, a, b)).2.2.last = b.last := by
    split
    · obtain ⟨g1, g2, g3, g4⟩ := flushOwn_pot pos r1.1 r1.2.1 r1.2.2 p l h1a
      exact ⟨g1, le_trans h1b g2, g3.trans h1c, g4.trans h1d⟩
    · exact ⟨h, le_refl _, rfl, rfl⟩
  generalize (if (outwardTurn a p l (decide (dx < (p.y - a.refPt.y) * Scalar.ofSci 1 1)) ||
      decide (dx < (p.y - a.refPt.y) * Scalar.ofSci 1 1)) = true then flushOwn r1.1 r1.2.1 r1.2.2 p l else (tess, a, b)) = r at h2 ⊢
  obtain ⟨h2a, h2b, h2c, h2d⟩ := h2
  have hc : Good pos (⟨p, id, l⟩ : MV K) := hp.symm
  obtain ⟨q1, q2⟩ := push_pot (l := l) h2a ⟨p, id, l⟩ hc rfl
  refine ⟨q1, ?_, rfl, h2d⟩
  simp only [Phi3, SideEv.push]
  rw [h2c, h2d] at q2
  simp only at q2
  rw [h2d, q2]
  have : Phi3 pos l (tess, a, b) ≤ Phi pos r.1 l r.2.1.events a.last.pos r.2.2.events b.last.pos := by
    have := h2b
    simp only [Phi3, h2c, h2d] at this
    exact this
  simp only [Phi3] at this
  linarith

/-- invariant / potential on a whole `Adv` state -/
def PA (pos : Nat → P K) (st : Adv K) : Prop := P3 pos true (st.tess, st.left, st.right)
noncomputable def PhiA (pos : Nat → P K) (st : Adv K) : K := Phi3 pos true (st.tess, st.left, st.right)

theorem begin_pa (pos : Nat → P K) (old : Adv K) (p0 : P K) (h0 : pos 0 = p0) :
    PA pos (Adv.begin old p0 0) ∧ PhiA pos (Adv.begin old p0 0) = 0 := by
  constructor
  · exact { binv := begin_bInv pos p0 h0, nea := by simp [Adv.begin], neb := by simp [Adv.begin],
            lasta := rfl, lastb := rfl, gooda := h0.symm, goodb := h0.symm, sidea := rfl, sideb := rfl,
            heada := by simp [Adv.begin, evPos, lastL, Basic.begin, h0],
            headb := by simp [Adv.begin, evPos, lastR, Basic.begin, botPos, h0] }
  · simp only [PhiA, Phi3, Phi, Adv.begin, chainPoly_single, quad, evPos, List.getD_cons_zero, h0, E_self]
    rw [begin_G]; simp

theorem vertex_pa (pos : Nat → P K) (st : Adv K) (p : P K) (id : Nat) (l : Bool) (h : PA pos st) (hp : pos id = p) :
    PA pos (st.vertex p id l) ∧
      PhiA pos st + wind st.left.last.pos p st.right.last.pos ≤ PhiA pos (st.vertex p id l) ∧
      (st.vertex p id l).left.last.pos = (if l then p else st.left.last.pos) ∧
      (st.vertex p id l).right.last.pos = (if l then st.right.last.pos else p) := by
  rw [vertex_eq]
  cases l
  · have hu : P3 pos false ((updRef st p false).tess, (updRef st p false).right, (updRef st p false).left) :=
      PInvL.symm (l := true) h
    obtain ⟨s1, s2, s3, s4⟩ := stepSides_pot pos _ _ _
      ((updRef st p false).right.consRefX - (updRef st p false).left.consRefX) p id false hu hp
    refine ⟨?_, ?_, ?_, ?_⟩
    · exact PInvL.symm (l := false) s1
    · have e : PhiA pos st = Phi3 pos false ((updRef st p false).tess, (updRef st p false).right, (updRef st p false).left) := by
        simp only [PhiA, Phi3]
        exact (Phi_symm pos st.tess true st.left.events st.right.events st.left.last.pos st.right.last.pos).symm
      rw [e]
      simp only [vertex', Bool.false_eq_true, if_false, PhiA, Phi3]
      have e2 := Phi_symm pos
        (stepSides (updRef st p false).tess (updRef st p false).right (updRef st p false).left
          ((updRef st p false).right.consRefX - (updRef st p false).left.consRefX) p id false).1 true
        (stepSides (updRef st p false).tess (updRef st p false).right (updRef st p false).left
          ((updRef st p false).right.consRefX - (updRef st p false).left.consRefX) p id false).2.2.events
        (stepSides (updRef st p false).tess (updRef st p false).right (updRef st p false).left
          ((updRef st p false).right.consRefX - (updRef st p false).left.consRefX) p id false).2.1.events
        (stepSides (updRef st p false).tess (updRef st p false).right (updRef st p false).left
          ((updRef st p false).right.consRefX - (updRef st p false).left.consRefX) p id false).2.2.last.pos
        (stepSides (updRef st p false).tess (updRef st p false).right (updRef st p false).left
          ((updRef st p false).right.consRefX - (updRef st p false).left.consRefX) p id false).2.1.last.pos
      simp only [Bool.not_true] at e2
      rw [← e2]
      simp only [Phi3, outL, outR, Bool.false_eq_true, if_false] at s2
      exact s2
    · simp only [vertex', Bool.false_eq_true, if_false]
      rw [s4]; rfl
    · simp only [vertex', Bool.false_eq_true, if_false]
      exact s3
  · have hu : P3 pos true ((updRef st p true).tess, (updRef st p true).left, (updRef st p true).right) := h
    obtain ⟨s1, s2, s3, s4⟩ := stepSides_pot pos _ _ _
      ((updRef st p true).right.consRefX - (updRef st p true).left.consRefX) p id true hu hp
    refine ⟨s1, ?_, ?_, ?_⟩
    · simp only [outL, outR, if_true] at s2
      exact s2
    · simp only [vertex', if_true]; exact s3
    · simp only [vertex', if_true]; rw [s4]; rfl

theorem singleton_of_short (ev : List Nat) (x : Nat) (hne : ev ≠ []) (hl : ev.length < 2) (hlast : ev.getLast? = some x) :
    ev = [x] := by
  match ev, hne, hl with
  | [a], _, _ => simpa using hlast

/-- nothing pending on either side: `end` of the inner tessellator closes the polygon -/
theorem finish_pot {pos : Nat → P K} {tess : Basic K} {ea eb : List Nat} {la lb : MV K}
    (h : PInvL pos tess true ea la eb lb) (ha : ea.length < 2) (hb : eb.length < 2) (pe : P K) (ide : Nat)
    (hpe : pos ide = pe) :
    Phi pos tess true ea la.pos eb lb.pos + wind la.pos pe lb.pos ≤ sumW pos (tess.end_ pe ide).tris := by
  have e1 := singleton_of_short ea la.id h.nea ha h.lasta
  have e2 := singleton_of_short eb lb.id h.neb hb h.lastb
  have g1 : evPos pos [la.id] 0 = la.pos := by simp [evPos]; exact h.gooda.symm
  have g2 : evPos pos [lb.id] 0 = lb.pos := by simp [evPos]; exact h.goodb.symm
  have ha' := h.heada
  have hb' := h.headb
  rw [e1, g1] at ha'
  rw [e2, g2] at hb'
  simp only [if_true] at ha' hb'
  have hf := (feed_area pos [] tess 0 pe ide (by intro i hi; simp at hi) hpe h.binv).1
  simp only [feed, polyAcc] at hf
  rw [← ha', ← hb'] at hf
  simp only [Phi, e1, e2, chainPoly_single, g1, g2, quad, E_self, sg, if_true]
  rw [E_anti la.pos lb.pos]
  linarith

theorem end_pa (pos : Nat → P K) (st : Adv K) (pe : P K) (ide : Nat) (h : PA pos st) (hpe : pos ide = pe) :
    PhiA pos st + wind st.left.last.pos pe st.right.last.pos ≤ sumW pos (st.end_ pe ide).tris := by
  rw [end_eq]
  unfold endCore
  have h0 : PInvL pos st.tess true st.left.events st.left.last st.right.events st.right.last := h
  have hPhi : PhiA pos st = Phi pos st.tess true st.left.events st.left.last.pos st.right.events st.right.last.pos := rfl
  rw [hPhi]
  rcases flushSide_cases st.left false with ⟨ha, ea⟩ | ⟨ha, _, _, a3, a4⟩ <;>
  rcases flushSide_cases st.right true with ⟨hb, eb⟩ | ⟨hb, _, _, b3, b4⟩
  · simp only [ea, eb, Option.isSome_none, Bool.false_eq_true, if_false, pushTris_nil]
    exact finish_pot h0 ha hb pe ide hpe
  · simp only [ea, b3, b4, Option.isSome_none, Option.isSome_some, Bool.false_eq_true, if_false, if_true, pushTris_nil]
    obtain ⟨f1, f2⟩ := flush_pot (l := false) (a := st.right) (b := st.left) (PInvL.symm (l := true) h0) hb
    simp only [Bool.not_false] at f1 f2
    have f1' := PInvL.symm (l := false) f1
    simp only [Bool.not_false] at f1'
    have := finish_pot f1' ha (by simp) pe ide hpe
    have s1 := Phi_symm pos st.tess true st.left.events st.right.events st.left.last.pos st.right.last.pos
    have s2 := Phi_symm pos ((st.tess.pushTris (flushLevels st.right.events.toArray st.right.events.length true
      (st.right.events.length + 1) 1)).vertex st.right.last) true st.left.events [st.right.last.id]
      st.left.last.pos st.right.last.pos
    simp only [Bool.not_true] at s1 s2
    linarith
  · simp only [eb, a3, a4, Option.isSome_none, Option.isSome_some, Bool.false_eq_true, if_false, if_true, pushTris_nil]
    obtain ⟨f1, f2⟩ := flush_pot (l := true) (a := st.left) (b := st.right) h0 ha
    simp only [Bool.not_true] at f1 f2
    have := finish_pot f1 (by simp) hb pe ide hpe
    linarith
  · simp only [a3, a4, b3, b4, Option.isSome_some, if_true]
    obtain ⟨p1, q1⟩ := pushTris_pot h0 (flushLevels st.left.events.toArray st.left.events.length false
      (st.left.events.length + 1) 1)
    obtain ⟨p2, q2⟩ := pushTris_pot p1 (flushLevels st.right.events.toArray st.right.events.length true
      (st.right.events.length + 1) 1)
    rw [flush_area, ← chainPoly_eq] at q1 q2
    simp only [sgF, Bool.false_eq_true, if_false, if_true, one_mul, neg_one_mul] at q1 q2
    generalize ((st.tess.pushTris (flushLevels st.left.events.toArray st.left.events.length false
      (st.left.events.length + 1) 1)).pushTris (flushLevels st.right.events.toArray st.right.events.length true
      (st.right.events.length + 1) 1)) = T2 at p2 q2 ⊢
    split
    · -- right forwarded first
      obtain ⟨f1, f2⟩ := fwd_pot (PInvL.symm (l := true) p2)
      simp only [Bool.not_true] at f1 f2
      have f1' := PInvL.symm (l := false) f1
      simp only [Bool.not_false] at f1'
      obtain ⟨g1, g2⟩ := fwd_pot f1'
      have := finish_pot g1 (by simp) (by simp) pe ide hpe
      have s1 := Phi_symm pos T2 true st.left.events st.right.events st.left.last.pos st.right.last.pos
      have s2 := Phi_symm pos (T2.vertex st.right.last) true st.left.events [st.right.last.id]
        st.left.last.pos st.right.last.pos
      simp only [Bool.not_true] at s1 s2
      simp only [sg, Bool.false_eq_true, if_false, if_true, one_mul, neg_one_mul] at f2 g2
      linarith
    · -- left forwarded first
      obtain ⟨f1, f2⟩ := fwd_pot p2
      obtain ⟨g1, g2⟩ := fwd_pot (PInvL.symm (l := true) f1)
      simp only [Bool.not_true] at g1 g2
      have g1' := PInvL.symm (l := false) g1
      simp only [Bool.not_false] at g1'
      have := finish_pot g1' (by simp) (by simp) pe ide hpe
      have s1 := Phi_symm pos (T2.vertex st.left.last) true [st.left.last.id] st.right.events
        st.left.last.pos st.right.last.pos
      have s2 := Phi_symm pos ((T2.vertex st.left.last).vertex st.right.last) true [st.left.last.id] [st.right.last.id]
        st.left.last.pos st.right.last.pos
      simp only [Bool.not_true] at s1 s2
      simp only [sg, Bool.false_eq_true, if_false, if_true, one_mul, neg_one_mul] at f2 g2
      linarith

theorem afeed_pa (pos : Nat → P K) (vs : List (P K × Bool)) (st : Adv K) (k : Nat) (pe : P K) (ide : Nat)
    (hpos : ∀ i (h : i < vs.length), pos (k + i) = vs[i].1) (hpe : pos ide = pe) (h : PA pos st) :
    PhiA pos st + polyAcc st.left.last.pos st.right.last.pos vs pe ≤ sumW pos ((afeed st k vs).end_ pe ide).tris := by
  induction vs generalizing st k with
  | nil => simpa [afeed, polyAcc] using end_pa pos st pe ide h hpe
  | cons v r ih =>
    obtain ⟨p, l⟩ := v
    have hp : pos k = p := by
      have := hpos 0 (by simp)
      simp only [Nat.add_zero, List.getElem_cons_zero] at this
      exact this
    obtain ⟨v1, v2, v3, v4⟩ := vertex_pa pos st p k l h hp
    have ih' := ih (st.vertex p k l) (k + 1) (by
      intro i hi
      have := hpos (i + 1) (by simp only [List.length_cons]; omega)
      simp only [List.getElem_cons_succ] at this
      rw [← this]; congr 1; omega) v1
    simp only [afeed, polyAcc]
    rw [v3, v4] at ih'
    linarith

/-- **area, advanced tessellator, every sequence** -/
theorem adv_run_area (seq : List (P K × Bool)) (h2 : 2 ≤ seq.length) :
    shoelaceW (polygonOf seq) ≤ sumW (posOf seq) (Adv.run seq) := by
  match seq, h2 with
  | (p0, b0) :: v1 :: rest, _ =>
    have hpe : posOf ((p0, b0) :: v1 :: rest) (v1 :: rest).length = ((v1 :: rest).getLast?.map (·.1)).getD p0 := by
      simp only [posOf, List.length_cons, List.getElem?_cons_succ]
      rw [List.getLast?_eq_getElem?]
      simp only [List.length_cons, Nat.add_sub_cancel]
      rw [List.getElem?_eq_getElem (by simp only [List.length_cons]; omega)]
      rfl
    obtain ⟨b1, b2⟩ := begin_pa (posOf ((p0, b0) :: v1 :: rest)) (Adv.new (α := K)) p0 (by simp [posOf])
    have hfa := afeed_pa (posOf ((p0, b0) :: v1 :: rest)) (List.take ((v1 :: rest).length - 1) (v1 :: rest))
      (Adv.begin Adv.new p0 0) (0 + 1) (((v1 :: rest).getLast?.map (·.1)).getD p0) (v1 :: rest).length
      (by
        intro i hi
        simp only [List.length_take, List.length_cons] at hi
        simp only [posOf, List.getElem_take]
        rw [show 0 + 1 + i = i + 1 by omega, List.getElem?_cons_succ,
          List.getElem?_eq_getElem (by simp only [List.length_cons]; omega)]) hpe b1
    rw [b2, zero_add] at hfa
    have e : polyAcc (Adv.begin (Adv.new (α := K)) p0 0).left.last.pos (Adv.begin (Adv.new (α := K)) p0 0).right.last.pos
        (List.take ((v1 :: rest).length - 1) (v1 :: rest)) (((v1 :: rest).getLast?.map (·.1)).getD p0) =
        shoelaceW (polygonOf ((p0, b0) :: v1 :: rest)) := polyAcc_eq_shoelace p0 b0 v1 rest
    rw [e] at hfa
    simp only [Adv.run, foldl_zipIdx_eq_afeed]
    exact hfa

end Geometry

end Lyon.C02c
