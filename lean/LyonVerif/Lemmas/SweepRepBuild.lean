/-
  C07b - the records the queue builder stores (`Model/Tess/Sources.lean`: `EventQueueBuilder::{begin,
  line_segment, end, quadratic_bezier_segment, cubic_bezier_segment}`, `add_edge`, `vertex_event`,
  `vertex_event_on_curve`) and the event stream the entry points feed it (`Sweep.buildQueue`,
  `SweepCurves.buildQueue`):

  every stored record names only endpoint ids that were HANDED to the builder (`S`), and its
  `t`-range consists of parameters handed to the builder (`U`: `0`, `1` for line edges; the
  flattening parameters - or `1 - t` of them for a curve flattened from its end - for curves).

  No arithmetic law of the scalar type is used.
-/
import LyonVerif.Model.Tess.SweepCurves
import LyonVerif.Lemmas.SweepRepQueue

set_option linter.unusedSectionVars false
set_option linter.unusedVariables false
set_option linter.unusedSimpArgs false

namespace Lyon.SweepRep
open Lyon Lyon.Scalar Lyon.EQ Lyon.Sources
open Lyon.Sweep (Entry SubPath reorientIn feedSub)

variable {α : Type} [Scalar α]
variable (S : Nat → Prop) (U : α → Prop)

/-- a builder record: ids handed to the builder, parameters handed to the builder -/
def RecOk (r : EdgeRec α) : Prop := S r.fromId ∧ S r.toId ∧ U r.t0 ∧ U r.t1

structure BldOk (b : Builder α) : Prop where
  prev : S b.prevId
  recs : ∀ r ∈ b.recs, RecOk S U r

variable {S U}

theorem addEdge_ok {a b : P α} {w : Int} {f t : Nat} {t0 t1 : α} {r : EdgeRec α} (hf : S f) (ht : S t)
    (h0 : U t0) (h1 : U t1) (h : addEdge a b w f t t0 t1 = some r) : RecOk S U r := by
  unfold addEdge at h
  split at h
  · cases h
  · split at h <;> (cases h; first | exact ⟨hf, ht, h1, h0⟩ | exact ⟨hf, ht, h0, h1⟩)

theorem vertexEvent_ok {p : P α} {id : Nat} (hid : S id) (hz : U (zero : α)) : RecOk S U (vertexEvent p id) :=
  ⟨hid, hid, hz, hz⟩

theorem vertexEventOnCurve_ok {p : P α} {t : α} {f g : Nat} (hf : S f) (hg : S g) (ht : U t) :
    RecOk S U (vertexEventOnCurve p t f g) := ⟨hf, hg, ht, ht⟩

theorem BldOk.pushRec {b : Builder α} (h : BldOk S U b) {r : EdgeRec α} (hr : RecOk S U r) : BldOk S U (b.pushRec r) :=
  ⟨h.prev, by
    intro x hx
    simp only [Builder.pushRec, List.mem_cons] at hx
    rcases hx with rfl | hx
    · exact hr
    · exact h.recs x hx⟩

theorem BldOk.pushEdge {b : Builder α} (h : BldOk S U b) {e : Option (EdgeRec α)} (he : ∀ r, e = some r → RecOk S U r) :
    BldOk S U (b.pushEdge e) := by
  cases e with
  | none => exact h
  | some r =>
    refine ⟨h.prev, ?_⟩
    intro x hx
    simp only [Builder.pushEdge, List.mem_cons] at hx
    rcases hx with rfl | hx
    · exact he _ rfl
    · exact h.recs x hx

theorem begin_ok {b : Builder α} (h : ∀ r ∈ b.recs, RecOk S U r) (p : P α) {id : Nat} (hid : S id) :
    BldOk S U (b.begin p id) := ⟨hid, h⟩

theorem lineSegment_ok {b : Builder α} (h : BldOk S U b) (p : P α) {toId : Nat} {t0 t1 : α} (hid : S toId)
    (hz : U (zero : α)) (h0 : U t0) (h1 : U t1) : BldOk S U (b.lineSegment p toId t0 t1) := by
  unfold Builder.lineSegment
  dsimp only
  split
  · exact h
  · have hb1 : BldOk S U (if (isAfter b.current p && decide (0 < b.nth) && isAfter b.current b.prev) = true
        then b.pushRec (vertexEvent b.current b.prevId) else b) := by
      split
      · exact h.pushRec (vertexEvent_ok h.prev hz)
      · exact h
    revert hb1
    generalize (if (isAfter b.current p && decide (0 < b.nth) && isAfter b.current b.prev) = true
        then b.pushRec (vertexEvent b.current b.prevId) else b) = b1
    intro hb1
    have hb2 : BldOk S U (if b1.nth = 0 then { b1 with second := p } else b1) := by
      split
      · exact ⟨hb1.prev, hb1.recs⟩
      · exact hb1
    revert hb2
    generalize (if b1.nth = 0 then { b1 with second := p } else b1) = b2
    intro hb2
    have hb3 := hb2.pushEdge (e := addEdge b.current p 1 b2.prevId toId t0 t1)
      (fun r hr => addEdge_ok hb2.prev hid h0 h1 hr)
    exact ⟨hid, hb3.recs⟩

theorem endTail_ok {b : Builder α} (h : BldOk S U b) (first : P α) {firstId : Nat} (hid : S firstId)
    (hz : U (zero : α)) : BldOk S U (b.endTail first firstId) := by
  unfold Builder.endTail
  dsimp only
  split
  · exact ⟨hid, (h.pushRec (vertexEvent_ok hid hz)).recs⟩
  · exact ⟨hid, h.recs⟩

theorem endSub_ok {b : Builder α} (h : BldOk S U b) (first : P α) {firstId : Nat} (hid : S firstId)
    (hz : U (zero : α)) (ho : U (one : α)) : BldOk S U (b.endSub first firstId) := by
  unfold Builder.endSub
  split
  · exact h
  · exact endTail_ok (lineSegment_ok h first hid hz hz ho) first hid hz

/-! ### curves -/

theorem curveStep_ok {ns : Bool} {w : Int} {toId : Nat} {s : CurveLoop α} {l : Piece α} (h : BldOk S U s.bld)
    (hid : S toId) (h0 : U (pieceT ns l.t0)) (h1 : U (pieceT ns l.t1)) :
    BldOk S U (curveStep ns w toId s l).bld ∧ (curveStep ns w toId s l).bld.prevId = s.bld.prevId := by
  unfold curveStep
  split
  · exact ⟨h, rfl⟩
  · dsimp only
    have hb1 : BldOk S U (if (s.first.isSome && isAfter l.a l.b && isAfter l.a s.prev) = true
        then s.bld.pushRec (vertexEventOnCurve l.a (pieceT ns l.t0) s.bld.prevId toId) else s.bld) ∧
        (if (s.first.isSome && isAfter l.a l.b && isAfter l.a s.prev) = true
        then s.bld.pushRec (vertexEventOnCurve l.a (pieceT ns l.t0) s.bld.prevId toId) else s.bld).prevId = s.bld.prevId := by
      split
      · exact ⟨h.pushRec (vertexEventOnCurve_ok h.prev hid h0), rfl⟩
      · exact ⟨h, rfl⟩
    revert hb1
    generalize (if (s.first.isSome && isAfter l.a l.b && isAfter l.a s.prev) = true
        then s.bld.pushRec (vertexEventOnCurve l.a (pieceT ns l.t0) s.bld.prevId toId) else s.bld) = b1
    intro hb1
    refine ⟨hb1.1.pushEdge (fun r hr => addEdge_ok hb1.1.prev hid h0 h1 hr), ?_⟩
    rw [← hb1.2]
    cases addEdge l.a l.b w b1.prevId toId (pieceT ns l.t0) (pieceT ns l.t1) <;> rfl

theorem curveFold_ok {ns : Bool} {w : Int} {toId : Nat} (hid : S toId) (flat : List (Piece α))
    (hf : ∀ l ∈ flat, U (pieceT ns l.t0) ∧ U (pieceT ns l.t1)) : ∀ (s : CurveLoop α), BldOk S U s.bld →
    BldOk S U (flat.foldl (curveStep ns w toId) s).bld := by
  induction flat with
  | nil => intro s h; exact h
  | cons l ls ih =>
    intro s h
    simp only [List.foldl_cons]
    exact ih (fun l' hl' => hf l' (List.mem_cons_of_mem _ hl')) _
      (curveStep_ok h hid (hf l (List.mem_cons_self ..)).1 (hf l (List.mem_cons_self ..)).2).1

theorem bldOk_ite {x y : Builder α} {c : Prop} [Decidable c] (hx : BldOk S U x) (hy : BldOk S U y) :
    BldOk S U (if c then x else y) := by split <;> assumption

theorem curveTail_ok {b0 : Builder α} {s : CurveLoop α} (h : BldOk S U s.bld) (a dest : P α) {toId : Nat} (ns : Bool)
    (hid : S toId) (hz : U (zero : α)) : BldOk S U (curveTail b0 s a dest toId ns) := by
  unfold curveTail
  split
  · exact h
  · rename_i first _
    dsimp only
    have hb1 : BldOk S U (if b0.nth = 0 then { s.bld with second := (if ns = true then s.prev else first) }
        else if (isAfter a s.bld.prev && isAfter a (if ns = true then s.prev else first)) = true
        then s.bld.pushRec (vertexEvent a s.bld.prevId) else s.bld) := by
      apply bldOk_ite
      · exact ⟨h.prev, h.recs⟩
      · apply bldOk_ite
        · exact h.pushRec (vertexEvent_ok h.prev hz)
        · exact h
    exact ⟨hid, hb1.recs⟩

theorem curveSegment_ok {b : Builder α} (h : BldOk S U b) (dest : P α) {toId : Nat} (flat flatFlipped : List (Piece α))
    (hid : S toId) (hz : U (zero : α))
    (hf : ∀ l ∈ flat, U l.t0 ∧ U l.t1) (hff : ∀ l ∈ flatFlipped, U (one - l.t0) ∧ U (one - l.t1)) :
    BldOk S U (b.curveSegment dest toId flat flatFlipped) := by
  unfold Builder.curveSegment
  dsimp only
  apply curveTail_ok _ _ _ _ hid hz
  cases isAfter b.current dest
  · simp only [Bool.false_eq_true, if_false]
    exact curveFold_ok hid flat (fun l hl => by simpa [pieceT] using hf l hl) _ h
  · simp only [if_true]
    exact curveFold_ok hid flatFlipped (fun l hl => by simpa [pieceT] using hff l hl) _ h

/-! ### the polygonal entry points (`Sweep.buildQueue`) -/

theorem feedFold_ok (horizontal useIds : Bool) (base : Nat) (hz : U (zero : α)) (ho : U (one : α)) :
    ∀ (l : List (P α × Nat)) (b : Builder α), BldOk S U b →
      (∀ pk ∈ l, S (if useIds then base + (pk.2 + 1) else INVALID)) →
      BldOk S U (l.foldl (fun b (pk : P α × Nat) =>
        b.lineSegment (if horizontal then reorientIn pk.1 else pk.1) (if useIds then base + (pk.2 + 1) else INVALID) zero one) b) := by
  intro l
  induction l with
  | nil => intro b h _; exact h
  | cons x xs ih =>
    intro b h hs
    simp only [List.foldl_cons]
    exact ih _ (lineSegment_ok h _ (hs x (List.mem_cons_self ..)) hz hz ho) (fun pk hpk => hs pk (List.mem_cons_of_mem _ hpk))

theorem feedSub_ok (horizontal useIds : Bool) {b : Builder α} (h : ∀ r ∈ b.recs, RecOk S U r) (base : Nat) (pts : List (P α))
    (hz : U (zero : α)) (ho : U (one : α)) (hs : ∀ k < pts.length, S (if useIds then base + k else INVALID)) :
    ∀ r ∈ (feedSub horizontal useIds b base pts).recs, RecOk S U r := by
  unfold feedSub
  cases pts with
  | nil => exact h
  | cons p0 rest =>
    dsimp only
    have h0 : S (if useIds then base + 0 else INVALID) := hs 0 (by simp)
    have hb1 := begin_ok (S := S) (U := U) h (if horizontal then reorientIn p0 else p0) h0
    have hb2 := feedFold_ok horizontal useIds base hz ho rest.zipIdx _ hb1 (by
      intro pk hpk
      have := List.snd_lt_of_mem_zipIdx hpk
      exact hs (pk.2 + 1) (by simp only [List.length_cons]; omega))
    exact (endSub_ok hb2 _ h0 hz ho).recs

/-- the endpoint ids `Sweep.buildQueue` hands to the queue builder, sub-path by sub-path -/
def handedFrom (entry : Entry) : Nat → List (SubPath α) → List Nat
  | _, [] => []
  | base, sp :: rest =>
    match sp.1 with
    | [] => handedFrom entry base rest
    | _ :: _ => List.range' base sp.1.length ++
        handedFrom entry (base + sp.1.length + (if entry == .ids && sp.2 then 1 else 0)) rest

/-- the endpoint ids handed out for this input: `base + k` for the `k`-th point of a sub-path; the
next sub-path starts after the last one (`FillBuilder`, `SimpleAttributeStore::add`) resp. one further
when the sub-path is closed (`Path::id_iter`: a closed sub-path stores its first point once more) -/
def handedOut (entry : Entry) (subs : List (SubPath α)) : List Nat := handedFrom entry 0 subs

/-- what an id of a record of this input can be -/
def IdOk (entry : Entry) (subs : List (SubPath α)) (x : Nat) : Prop :=
  if entry == .ids || entry == .builder then x ∈ handedOut entry subs else x = INVALID

theorem buildFold_ok (entry : Entry) (horizontal : Bool) (hz : U (zero : α)) (ho : U (one : α)) :
    ∀ (subs : List (SubPath α)) (acc : Builder α × Nat), (∀ r ∈ acc.1.recs, RecOk S U r) →
      (∀ x, (if entry == .ids || entry == .builder then x ∈ handedFrom entry acc.2 subs else x = INVALID) → S x) →
      ∀ r ∈ (subs.foldl (fun (acc : Builder α × Nat) (sp : SubPath α) =>
        match sp.1 with
        | [] => acc
        | pts =>
          (feedSub horizontal (entry == .ids || entry == .builder) acc.1 acc.2 pts,
            acc.2 + pts.length + (if entry == .ids && sp.2 then 1 else 0))) acc).1.recs, RecOk S U r := by
  intro subs
  induction subs with
  | nil => intro acc h _; exact h
  | cons sp rest ih =>
    intro acc h hS
    simp only [List.foldl_cons]
    cases hp : sp.1 with
    | nil =>
      dsimp only
      apply ih acc h
      intro x hx
      apply hS x
      simpa [handedFrom, hp] using hx
    | cons p0 ps =>
      dsimp only
      apply ih
      · dsimp only
        apply feedSub_ok horizontal _ h acc.2 (p0 :: ps) hz ho
        intro k hk
        apply hS
        cases hu : (entry == Entry.ids || entry == Entry.builder)
        · simp
        · simp only [if_true, handedFrom, hp]
          apply List.mem_append_left
          simp only [List.mem_range'_1]
          exact ⟨Nat.le_add_right _ _, Nat.add_lt_add_left hk _⟩
      · intro x hx
        apply hS x
        cases hu : (entry == Entry.ids || entry == Entry.builder)
        · simpa [hu] using hx
        · simp only [hu, if_true] at hx ⊢
          simp only [handedFrom, hp]
          exact List.mem_append_right _ hx

/-- **the records of `Sweep.buildQueue`**: ids handed out for this input (or `u32::MAX` everywhere for
the entry points without ids), ranges `0..1` / `1..0` / `0..0` -/
theorem buildQueue_recs (entry : Entry) (horizontal : Bool) (subs : List (SubPath α)) (hz : U (zero : α)) (ho : U (one : α)) :
    ∀ d ∈ (Sweep.buildQueue entry horizontal subs).edgeData,
      IdOk entry subs d.fromId ∧ IdOk entry subs d.toId ∧ U d.t0 ∧ U d.t1 := by
  have key := buildFold_ok (S := IdOk entry subs) (U := U) entry horizontal hz ho subs (Builder.init, 0)
    (by intro r hr; simp [Builder.init] at hr) (by intro x hx; exact hx)
  intro d hd
  unfold Sweep.buildQueue at hd
  dsimp only at hd
  rw [ofRecs_edgeData] at hd
  simp only [List.mem_toArray, List.mem_map, List.mem_reverse] at hd
  obtain ⟨r, hr, rfl⟩ := hd
  exact key r hr

/-! ### the curved entry points (`SweepCurves.buildQueue`) -/

section curves
open Lyon.SweepCurves (Cmd IdMode IdState Feed feedCmd feedAll idStep quadSegment cubicSegment)
variable [Transc α] [FlatConst α]

/-- an id of a record of a curved path: `u32::MAX`, or one of the endpoint ids the entry point handed out
(`SweepCurves.buildQueue` returns them in command order) -/
def CS (ids : Array Nat) (x : Nat) : Prop := x = INVALID ∨ x ∈ ids

structure FeedOk (mode : IdMode) (final : Array Nat) (f : Feed α) : Prop where
  bld : BldOk (CS final) (fun _ : α => True) f.bld
  sub : ∀ x ∈ f.endpointIds, x ∈ final
  first : mode = .none ∨ f.ids.first ∈ f.endpointIds

theorem idStep_none (s : IdState) (c : Cmd α) : (idStep IdMode.none s c).2 = INVALID := rfl

/-- the id of an `end` command is the id the sub-path's `begin` handed out -/
theorem idStep_end (mode : IdMode) (s : IdState) (close : Bool) (h : mode ≠ .none) :
    (idStep (α := α) mode s (.end_ close)).2 = s.first := by
  cases mode with
  | none => exact absurd rfl h
  | path k => rfl
  | builder => rfl

theorem idStep_begin_first (mode : IdMode) (s : IdState) (p : P α) (h : mode ≠ .none) :
    (idStep mode s (.begin p)).1.first = (idStep mode s (.begin p)).2 := by
  cases mode with
  | none => exact absurd rfl h
  | path k => rfl
  | builder => rfl

theorem idStep_edge_first (mode : IdMode) (s : IdState) (c : Cmd α) (hb : ∀ p, c ≠ .begin p) :
    (idStep mode s c).1.first = s.first := by
  cases mode with
  | none => rfl
  | path k => cases c <;> first | rfl | exact absurd rfl (hb _)
  | builder => cases c <;> first | rfl | exact absurd rfl (hb _)

theorem feedCmd_ids_mono (mode : IdMode) (horizontal : Bool) (tol : α) (f f' : Feed α) (c : Cmd α)
    (h : feedCmd mode horizontal tol f c = some f') : ∀ x ∈ f.endpointIds, x ∈ f'.endpointIds := by
  intro x hx
  cases c with
  | begin p => simp only [feedCmd, Option.some.injEq] at h; subst h; exact Array.mem_push.mpr (Or.inl hx)
  | line p => simp only [feedCmd, Option.some.injEq] at h; subst h; exact Array.mem_push.mpr (Or.inl hx)
  | quad c1 p =>
    simp only [feedCmd, Option.map_eq_some_iff] at h
    obtain ⟨b, _, rfl⟩ := h
    exact Array.mem_push.mpr (Or.inl hx)
  | cubic c1 c2 p =>
    simp only [feedCmd, Option.map_eq_some_iff] at h
    obtain ⟨b, _, rfl⟩ := h
    exact Array.mem_push.mpr (Or.inl hx)
  | end_ cl => simp only [feedCmd, Option.some.injEq] at h; subst h; exact hx

theorem feedAll_ids_mono (mode : IdMode) (horizontal : Bool) (tol : α) : ∀ (cmds : List (Cmd α)) (f f' : Feed α),
    feedAll mode horizontal tol cmds f = some f' → ∀ x ∈ f.endpointIds, x ∈ f'.endpointIds
  | [], f, f', h, x, hx => by simp only [feedAll, Option.some.injEq] at h; subst h; exact hx
  | c :: cs, f, f', h, x, hx => by
    simp only [feedAll] at h
    split at h
    · cases h
    · rename_i f1 h1
      exact feedAll_ids_mono mode horizontal tol cs f1 f' h x (feedCmd_ids_mono mode horizontal tol f f1 c h1 x hx)

theorem quadSegment_ok {S : Nat → Prop} {b b' : Builder α} (h : BldOk S (fun _ : α => True) b) (tol : α) (ctrl to : P α)
    {toId : Nat} (hid : S toId) (e : quadSegment b tol ctrl to toId = some b') : BldOk S (fun _ : α => True) b' := by
  unfold quadSegment at e
  dsimp only at e
  split at e
  · cases e
  · cases e
    exact curveSegment_ok h _ _ _ hid trivial (fun _ _ => ⟨trivial, trivial⟩) (fun _ _ => ⟨trivial, trivial⟩)

theorem cubicSegment_ok {S : Nat → Prop} {b b' : Builder α} (h : BldOk S (fun _ : α => True) b) (tol : α) (c1 c2 to : P α)
    {toId : Nat} (hid : S toId) (e : cubicSegment b tol c1 c2 to toId = some b') : BldOk S (fun _ : α => True) b' := by
  unfold cubicSegment at e
  dsimp only at e
  split at e
  · cases e
  · cases e
    exact curveSegment_ok h _ _ _ hid trivial (fun _ _ => ⟨trivial, trivial⟩) (fun _ _ => ⟨trivial, trivial⟩)

/-- one command keeps `FeedOk` (`begin` establishes the `first` clause, whatever came before) -/
theorem feedCmd_ok (mode : IdMode) (horizontal : Bool) (tol : α) (final : Array Nat) (f f' : Feed α) (c : Cmd α)
    (hb : BldOk (CS final) (fun _ : α => True) f.bld)
    (hfirst : (∀ p, c ≠ .begin p) → mode = .none ∨ f.ids.first ∈ f.endpointIds)
    (h : feedCmd mode horizontal tol f c = some f') (hsub : ∀ x ∈ f'.endpointIds, x ∈ final) :
    FeedOk mode final f' := by
  have hnone : mode = .none → ∀ c' : Cmd α, CS final (idStep mode f.ids c').2 := by
    intro hm c'; subst hm; exact Or.inl rfl
  cases c with
  | begin p =>
    simp only [feedCmd, Option.some.injEq] at h
    subst h
    have hid : CS final (idStep mode f.ids (.begin p)).2 := Or.inr (hsub _ (Array.mem_push.mpr (Or.inr rfl)))
    refine ⟨begin_ok hb.recs _ hid, hsub, ?_⟩
    by_cases hm : mode = .none
    · exact Or.inl hm
    · right
      show (idStep mode f.ids (.begin p)).1.first ∈ f.endpointIds.push _
      rw [idStep_begin_first mode f.ids p hm]
      exact Array.mem_push.mpr (Or.inr rfl)
  | line p =>
    simp only [feedCmd, Option.some.injEq] at h
    subst h
    have hid : CS final (idStep mode f.ids (.line p)).2 := Or.inr (hsub _ (Array.mem_push.mpr (Or.inr rfl)))
    refine ⟨lineSegment_ok hb _ hid trivial trivial trivial, hsub, ?_⟩
    rcases hfirst (fun _ hh => by cases hh) with hm | hf
    · exact Or.inl hm
    · right
      show (idStep mode f.ids (.line p)).1.first ∈ f.endpointIds.push _
      rw [idStep_edge_first mode f.ids _ (fun _ hh => by cases hh)]
      exact Array.mem_push.mpr (Or.inl hf)
  | quad c1 p =>
    simp only [feedCmd, Option.map_eq_some_iff] at h
    obtain ⟨b, hq, rfl⟩ := h
    have hid : CS final (idStep mode f.ids (.quad c1 p)).2 := Or.inr (hsub _ (Array.mem_push.mpr (Or.inr rfl)))
    refine ⟨quadSegment_ok hb tol _ _ hid hq, hsub, ?_⟩
    rcases hfirst (fun _ hh => by cases hh) with hm | hf
    · exact Or.inl hm
    · right
      show (idStep mode f.ids (.quad c1 p)).1.first ∈ f.endpointIds.push _
      rw [idStep_edge_first mode f.ids _ (fun _ hh => by cases hh)]
      exact Array.mem_push.mpr (Or.inl hf)
  | cubic c1 c2 p =>
    simp only [feedCmd, Option.map_eq_some_iff] at h
    obtain ⟨b, hq, rfl⟩ := h
    have hid : CS final (idStep mode f.ids (.cubic c1 c2 p)).2 := Or.inr (hsub _ (Array.mem_push.mpr (Or.inr rfl)))
    refine ⟨cubicSegment_ok hb tol _ _ _ hid hq, hsub, ?_⟩
    rcases hfirst (fun _ hh => by cases hh) with hm | hf
    · exact Or.inl hm
    · right
      show (idStep mode f.ids (.cubic c1 c2 p)).1.first ∈ f.endpointIds.push _
      rw [idStep_edge_first mode f.ids _ (fun _ hh => by cases hh)]
      exact Array.mem_push.mpr (Or.inl hf)
  | end_ cl =>
    simp only [feedCmd, Option.some.injEq] at h
    subst h
    have hf := hfirst (fun _ hh => by cases hh)
    have hid : CS final (idStep mode f.ids (.end_ cl : Cmd α)).2 := by
      rcases hf with hm | hf
      · exact hnone hm _
      · by_cases hm : mode = .none
        · exact hnone hm _
        · rw [idStep_end mode f.ids cl hm]
          exact Or.inr (hsub _ hf)
    refine ⟨endSub_ok hb _ hid trivial trivial, hsub, ?_⟩
    rcases hf with hm | hf
    · exact Or.inl hm
    · right
      show (idStep mode f.ids (.end_ cl : Cmd α)).1.first ∈ f.endpointIds
      rw [idStep_edge_first mode f.ids _ (fun _ hh => by cases hh)]
      exact hf

theorem feedAll_ok (mode : IdMode) (horizontal : Bool) (tol : α) (final : Array Nat) :
    ∀ (cmds : List (Cmd α)) (f f' : Feed α), FeedOk mode final f → feedAll mode horizontal tol cmds f = some f' →
      (∀ x ∈ f'.endpointIds, x ∈ final) → FeedOk mode final f'
  | [], f, f', hf, h, _ => by simp only [feedAll, Option.some.injEq] at h; subst h; exact hf
  | c :: cs, f, f', hf, h, hsub => by
    simp only [feedAll] at h
    split at h
    · cases h
    · rename_i f1 h1
      have h1ok := feedCmd_ok mode horizontal tol final f f1 c hf.bld (fun _ => hf.first) h1
        (fun x hx => hsub x (feedAll_ids_mono mode horizontal tol cs f1 f' h x hx))
      exact feedAll_ok mode horizontal tol final cs f1 f' h1ok h hsub

/-- a command list that does not start with an edge or `end` command (path events and builder calls
always start a sub-path with `begin`) -/
def startsWithBegin : List (Cmd α) → Bool
  | [] => true
  | .begin _ :: _ => true
  | _ => false

/-- **the records of `SweepCurves.buildQueue`** name only `u32::MAX` or endpoint ids the entry point
handed out (returned in command order as the second component) -/
theorem curves_buildQueue_recs (mode : IdMode) (horizontal : Bool) (tol : α) (cmds : List (Cmd α))
    (hw : startsWithBegin cmds = true) (q0 : Queue α) (ids : Array Nat)
    (h : SweepCurves.buildQueue mode horizontal tol cmds = some (q0, ids)) :
    ∀ d ∈ q0.edgeData, CS ids d.fromId ∧ CS ids d.toId := by
  unfold SweepCurves.buildQueue at h
  cases hf : feedAll mode horizontal tol cmds ⟨Builder.init, {}, ⟨zero, zero⟩, #[]⟩ with
  | none => simp [hf] at h
  | some ff =>
    simp only [hf, Option.map_some, Option.some.injEq, Prod.mk.injEq] at h
    obtain ⟨hq, hids⟩ := h
    have hinit : BldOk (CS ids) (fun _ : α => True) (Builder.init : Builder α) :=
      ⟨Or.inl rfl, by intro r hr; simp [Builder.init] at hr⟩
    have hff : BldOk (CS ids) (fun _ : α => True) ff.bld := by
      cases cmds with
      | nil =>
        simp only [feedAll, Option.some.injEq] at hf
        subst hf
        exact hinit
      | cons c cs =>
        cases c with
        | begin p =>
          simp only [feedAll] at hf
          split at hf
          · cases hf
          · rename_i f1 h1
            have h1ok := feedCmd_ok mode horizontal tol ids _ f1 (.begin p) hinit (fun hh => absurd rfl (hh p)) h1
              (fun x hx => hids ▸ feedAll_ids_mono mode horizontal tol cs f1 ff hf x hx)
            exact (feedAll_ok mode horizontal tol ids cs f1 ff h1ok hf (fun x hx => hids ▸ hx)).bld
        | line p => simp [startsWithBegin] at hw
        | quad c1 p => simp [startsWithBegin] at hw
        | cubic c1 c2 p => simp [startsWithBegin] at hw
        | end_ cl => simp [startsWithBegin] at hw
    intro d hd
    rw [← hq, ofRecs_edgeData] at hd
    simp only [List.mem_toArray, List.mem_map, List.mem_reverse] at hd
    obtain ⟨r, hr, rfl⟩ := hd
    have := hff.recs r hr
    exact ⟨this.1, this.2.1⟩

end curves

end Lyon.SweepRep
