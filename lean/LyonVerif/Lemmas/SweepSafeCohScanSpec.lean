/-
  SPAN / WINDING COHERENCE, part 2: the specification of `scan_active_edges`:
  a successful scan satisfies `ScanOk` (index facts) AND `ScanSem` (winding-fold facts).
-/
import LyonVerif.Lemmas.SweepSafeCohScan

set_option linter.unusedSectionVars false
set_option linter.unusedVariables false
set_option linter.unusedSimpArgs false
set_option mvcgen.warning false

namespace Lyon.SweepCoh
open Lyon Lyon.Scalar Lyon.Mono Lyon.Sweep Lyon.EQ Lyon.SweepSafe
open Std.Do

variable {α : Type} [Scalar α] [Wide α]
variable {s : St α} {pref suff : List (ActiveEdge α)} {cur : ActiveEdge α}

theorem ite_of_true {γ : Type} {p : Bool} {a b : γ} (h : p = true) : a = (if p then a else b) := by simp [h]
theorem ite_of_false {γ : Type} {p : Bool} {a b : γ} (h : ¬p = true) : b = (if p then a else b) := by simp [h]
theorem conn_contra {Q : Prop} {a : Bool} (h1 : (!a) = true) (h2 : a = true) : Q := by simp [h2] at h1
theorem conn_contra2 {Q : Prop} {a : Bool} (h1 : ¬(!a) = true) (h2 : ¬a = true) : Q := by
  cases a <;> simp at h1 h2

theorem L1_init : L1 s [] s.active.toList (false, 0, WindingState.new, false) := ⟨I1_init, J1_init⟩

theorem L1_merge {b : Bool × Nat × WindingState × Bool} (h : s.active.toList = pref ++ cur :: suff)
    (hm : cur.isMerge = true) (hL : L1 s pref (cur :: suff) b) :
    L1 s (pref ++ [cur]) suff (b.1, b.2.1 + 1,
      { spanIndex := b.2.2.1.spanIndex + 1, number := b.2.2.1.number, isIn := b.2.2.1.isIn }, true) :=
  ⟨I1_merge h hL.1, J1_merge h hm hL.2⟩

theorem L1_step {b : Bool × Nat × WindingState × Bool} (h : s.active.toList = pref ++ cur :: suff)
    (hm : ¬cur.isMerge = true) (hL : L1 s pref (cur :: suff) b) :
    L1 s (pref ++ [cur]) suff (b.1, b.2.1 + 1, b.2.2.1.update s.rule cur.winding, false) :=
  ⟨I1_step h hL.1, J1_step h hm hL.2⟩

theorem L1_done {b : Bool × Nat × WindingState × Bool} (h : s.active.toList = pref ++ cur :: suff)
    (hL : L1 s pref (cur :: suff) b) : L1 s s.active.toList [] b := ⟨I1_done h hL.1, J1_done h hL.2⟩

theorem L1_done_conn {b : Bool × Nat × WindingState × Bool} (h : s.active.toList = pref ++ cur :: suff)
    (hm : ¬cur.isMerge = true) (hr : (edgeBefore s.curPos s.tolerance cur).2 = true)
    (hL : L1 s pref (cur :: suff) b) : L1 s s.active.toList [] (true, b.2.1, b.2.2.1, b.2.2.2) :=
  ⟨I1_done_conn h hm hr hL.1, J1_done_conn h hm hL.2⟩

variable {r : Bool × Nat × WindingState × Bool} {b : Nat × WindingState × Scan × Bool}

theorem L2_init {sc : Scan} (hL : L1 s s.active.toList [] r) (hconn : r.1 = true)
    (hwb : sc.windingBefore =
      (if r.2.2.2 then ⟨r.2.2.1.spanIndex - 1, r.2.2.1.number, r.2.2.1.isIn⟩ else r.2.2.1))
    (ha : sc.aboveStart = (if r.2.2.2 then r.2.1 - 1 else r.2.1)) (hve : sc.vertexEvents = #[])
    (hms : sc.mergeSplitEvent = false) (hme : sc.mergeEvent = false) (hsp : sc.splitEvent = false)
    (hes : sc.edgesToSplit = #[]) (hse : sc.spansToEnd = #[]) :
    L2 s r [] (s.active.extract r.2.1).toList (r.2.1, r.2.2.1, sc, !r.2.2.2) :=
  ⟨I2_init hL.1 ha hme hsp hes hse, J2_init hL.2 hwb ha hve hms hme hsp hes hse⟩

theorem L2_yield_merge {sc' : Scan} (hL1 : L1 s s.active.toList [] r) (hconn : r.1 = true)
    (h : (s.active.extract r.2.1).toList = pref ++ cur :: suff) (hm : cur.isMerge = true)
    (hin : ¬(!b.2.1.isIn) = true) (hL : L2 s r pref (cur :: suff) b)
    (e1 : sc'.windingBefore = b.2.2.1.windingBefore) (e2 : sc'.vertexEvents = b.2.2.1.vertexEvents)
    (e3 : sc'.mergeSplitEvent = b.2.2.1.mergeSplitEvent) (e4 : sc'.aboveStart = b.2.2.1.aboveStart)
    (e5 : sc'.mergeEvent = b.2.2.1.mergeEvent) (e6 : sc'.splitEvent = b.2.2.1.splitEvent)
    (e7 : sc'.edgesToSplit = b.2.2.1.edgesToSplit)
    (e8 : sc'.spansToEnd = b.2.2.1.spansToEnd.push b.2.1.spanIndex) :
    L2 s r (pref ++ [cur]) suff (b.1 + 1,
      { spanIndex := b.2.1.spanIndex + 1, number := b.2.1.number, isIn := b.2.1.isIn }, sc', false) :=
  ⟨I2_yield h hL.1 e4 e5 e6 (Or.inl e7) (Or.inl rfl) (Or.inr ⟨e8, of_not_not_true hin⟩),
   J2_yield_merge hL1.2 hconn h hm hin hL.2 e1 e2 e3 e4 e5 e6 e7 e8⟩

theorem L2_yield {sc' : Scan} (h : (s.active.extract r.2.1).toList = pref ++ cur :: suff)
    (hm : ¬cur.isMerge = true) (hL : L2 s r pref (cur :: suff) b)
    (e1 : sc'.windingBefore = b.2.2.1.windingBefore) (e2 : sc'.vertexEvents = b.2.2.1.vertexEvents)
    (e3 : sc'.mergeSplitEvent = b.2.2.1.mergeSplitEvent) (e4 : sc'.aboveStart = b.2.2.1.aboveStart)
    (e5 : sc'.mergeEvent = b.2.2.1.mergeEvent) (e6 : sc'.splitEvent = b.2.2.1.splitEvent)
    (e7 : sc'.edgesToSplit = b.2.2.1.edgesToSplit ∨ sc'.edgesToSplit = b.2.2.1.edgesToSplit.push b.1)
    (e8 : (sc'.spansToEnd = b.2.2.1.spansToEnd ∧ ¬(!b.2.2.2 && b.2.1.isIn) = true) ∨
          (sc'.spansToEnd = b.2.2.1.spansToEnd.push b.2.1.spanIndex ∧ (!b.2.2.2 && b.2.1.isIn) = true)) :
    L2 s r (pref ++ [cur]) suff (b.1 + 1, b.2.1.update s.rule cur.winding, sc', false) := by
  refine ⟨I2_yield h hL.1 e4 e5 e6 e7 (update_spanIndex _ _ _) ?_, J2_yield h hm hL.2 e1 e2 e3 e4 e5 e6 e7 ?_⟩
  · rcases e8 with ⟨e, hn⟩ | ⟨e, hp⟩
    · exact Or.inl ⟨e, not_and2 hn⟩
    · exact Or.inr ⟨e, and2_right hp⟩
  · rcases e8 with ⟨e, hn⟩ | ⟨e, hp⟩
    · exact Or.inl ⟨e, not_and2 hn⟩
    · exact Or.inr ⟨e, hp⟩

theorem L2_done {c : Bool × Bool} (hL1 : L1 s s.active.toList [] r) (hconn : r.1 = true)
    (h : (s.active.extract r.2.1).toList = pref ++ cur :: suff) (hL : L2 s r pref (cur :: suff) b)
    (hc : isEdgeConnecting s.curPos s.tolerance cur = .ok c) (h1 : (!c.1) = true) (h2 : ¬c.2 = true) :
    L2 s r (s.active.extract r.2.1).toList [] b :=
  ⟨I2_done h hL.1 rfl rfl rfl rfl (Or.inl ⟨rfl, first_connecting_absurd hL1.1 hconn h hc h1 h2⟩),
   J2_done h hL.2 (first_connecting_absurd hL1.1 hconn h hc h1 h2)⟩

/-! the shapes of the final `vertex_events` -/
section ve
variable {v : Array (Int × Bool)} {a c : Int} {ib ia : Prop}
theorem ve0 : ∀ x ∈ v, x ∈ v ∨ (x.1 = a ∧ ib) ∨ (x.1 = c ∧ ia) := fun x h => Or.inl h
theorem ve_b (hb : ib) : ∀ x ∈ v.push (a, false), x ∈ v ∨ (x.1 = a ∧ ib) ∨ (x.1 = c ∧ ia) := by
  intro x hx
  rcases Array.mem_push.mp hx with h | h
  · exact Or.inl h
  · exact Or.inr (Or.inl ⟨by rw [h], hb⟩)
theorem ve_a (ha : ia) : ∀ x ∈ v.push (c, true), x ∈ v ∨ (x.1 = a ∧ ib) ∨ (x.1 = c ∧ ia) := by
  intro x hx
  rcases Array.mem_push.mp hx with h | h
  · exact Or.inl h
  · exact Or.inr (Or.inr ⟨by rw [h], ha⟩)
theorem ve_ba (hb : ib) (ha : ia) :
    ∀ x ∈ (v.push (a, false)).push (c, true), x ∈ v ∨ (x.1 = a ∧ ib) ∨ (x.1 = c ∧ ia) := by
  intro x hx
  rcases Array.mem_push.mp hx with h | h
  · exact ve_b hb x h
  · exact Or.inr (Or.inr ⟨by rw [h], ha⟩)
theorem ve_ms : ∀ x ∈ ((#[] : Array (Int × Bool)).push (a - 1, false)).push (a, true), x.1 = a - 1 ∨ x.1 = a := by
  intro x hx
  simp at hx
  rcases hx with h | h <;> simp [h]
end ve

theorem sp_A {cn i : Bool} {Q : Prop} (h : (!cn && i && !true) = true) : Q := by simp at h
theorem sp_B2 {cn i : Bool} (hc : ¬cn = true) (_hp : (false : Bool) = false) (hi : i = true) :
    (!cn && i && !false) = true := by
  cases cn <;> simp_all
theorem sp_A2 {p : Bool} {Q : Prop} (hp : p = true) (h : p = false) : Q := by rw [hp] at h; cases h

theorem sp_B {cn i p : Bool} (hp : ¬p = true) (h : (!cn && i && !false) = true) :
    i = true ∧ false = false ∧ p = false := by
  cases p <;> simp_all

theorem ScanBoth_of_L2 {sc : Scan} (hL1 : L1 s s.active.toList [] r) (hconn : r.1 = true)
    (hL : L2 s r (s.active.extract r.2.1).toList [] b)
    (e1 : sc.windingBefore = b.2.2.1.windingBefore) (e4 : sc.aboveStart = b.2.2.1.aboveStart)
    (hend : sc.aboveEnd = b.1) (e3 : sc.mergeSplitEvent = b.2.2.1.mergeSplitEvent)
    (e6 : sc.splitEvent = b.2.2.1.splitEvent) (e7 : sc.edgesToSplit = b.2.2.1.edgesToSplit)
    (e8 : sc.spansToEnd = b.2.2.1.spansToEnd)
    (hve : ∀ x ∈ sc.vertexEvents, x ∈ b.2.2.1.vertexEvents ∨
      (x.1 = b.2.2.1.windingBefore.spanIndex ∧ r.2.2.1.isIn = true) ∨
      (x.1 = b.2.1.spanIndex ∧ b.2.1.isIn = true))
    (hme : sc.mergeEvent = b.2.2.1.mergeEvent ∨
      (r.2.2.1.isIn && b.2.1.isIn && s.below.isEmpty && b.2.2.1.edgesToSplit.isEmpty) = true) :
    ScanOk s sc ∧ ScanSem s sc := by
  refine ⟨ScanOk_of_I2 hL1.1 hL.1 e4 hend ?_ e6 e7 e8, ScanSem_of_J2 hL1.2 hconn hL.2 e1 e4 hend e3 e6 e7 e8 hve hme⟩
  rcases hme with h | h
  · exact Or.inl h
  · exact Or.inr ⟨hconn, and4_last h⟩

theorem ScanBoth_of_L1 {sc : Scan} (hL : L1 s s.active.toList [] r)
    (hwb : sc.windingBefore =
      (if r.2.2.2 then ⟨r.2.2.1.spanIndex - 1, r.2.2.1.number, r.2.2.1.isIn⟩ else r.2.2.1))
    (ha : sc.aboveStart = (if r.2.2.2 then r.2.1 - 1 else r.2.1)) (he : sc.aboveEnd = r.2.1)
    (hve : (sc.mergeSplitEvent = true ∧ r.2.2.2 = true ∧
              ∀ x ∈ sc.vertexEvents, x.1 = r.2.2.1.spanIndex - 1 ∨ x.1 = r.2.2.1.spanIndex) ∨
           (sc.mergeSplitEvent = false ∧ sc.vertexEvents = #[]))
    (hsp : sc.splitEvent = true → r.2.2.1.isIn = true ∧ sc.mergeSplitEvent = false ∧ r.2.2.2 = false)
    (hsp2 : r.2.2.2 = false → r.2.2.1.isIn = true → sc.splitEvent = true)
    (hme : sc.mergeEvent = false) (hes : sc.edgesToSplit = #[]) (hse : sc.spansToEnd = #[]) :
    ScanOk s sc ∧ ScanSem s sc :=
  ⟨ScanOk_of_I1 hL.1 ha he hme (fun h => (hsp h).1) hes hse,
   ScanSem_of_J1 hL.2 hwb ha he hve hsp hsp2 hme hes hse⟩


theorem scanActiveEdges_sem (s : St α) :
    ⦃⌜True⌝⦄ (scanActiveEdges s : Except IErr Scan)
    ⦃post⟨fun scan => ⌜ScanOk s scan ∧ ScanSem s scan⌝, fun _ => ⌜True⌝⟩⦄ := by
  unfold scanActiveEdges
  strip_mdata
  have h1 := fun (cur : P α) (edges : Array (ActiveEdge α)) (start : Nat) =>
    triv_spec (checkRemainingEdges cur edges start)
  have h2 := fun (cur : P α) (t : α) (e : ActiveEdge α) => self_spec (isEdgeConnecting cur t e)
  mvcgen [h1, h2]
  fix_throw
  case inv1 => exact post⟨fun r => ⌜L1 s r.1.prefix r.1.suffix r.2⌝, fun _ => ⌜True⌝⟩
  case inv2 => exact invL2 s (by assumption)
  case inv3 => exact invL2 s (by assumption)
  case inv4 => exact invL2 s (by assumption)
  all_goals (clear h1 h2)
  all_goals first
    | trivial
    | exact L1_init
    | exact L1_merge (by assumption) (by assumption) (by assumption)
    | exact L1_done_conn (by assumption) (by assumption) (by assumption) (by assumption)
    | exact edgeBefore_absurd (by assumption) (by assumption)
    | exact L1_done (by assumption) (by assumption)
    | exact L1_step (by assumption) (by assumption) (by assumption)
    | exact conn_contra (by assumption) (by assumption)
    | exact conn_contra2 (by assumption) (by assumption)
    | exact conn_done_absurd (by assumption) (by assumption) (by assumption)
    | exact L2_yield_merge (by assumption) (by assumption) (by assumption) (by assumption) (by assumption)
        (by assumption) rfl rfl rfl rfl rfl rfl rfl rfl
    | exact L2_yield (by assumption) (by assumption) (by assumption) rfl rfl rfl rfl rfl rfl (Or.inl rfl)
        (Or.inr ⟨rfl, by assumption⟩)
    | exact L2_yield (by assumption) (by assumption) (by assumption) rfl rfl rfl rfl rfl rfl (Or.inr rfl)
        (Or.inr ⟨rfl, by assumption⟩)
    | exact L2_yield (by assumption) (by assumption) (by assumption) rfl rfl rfl rfl rfl rfl (Or.inl rfl)
        (Or.inl ⟨rfl, by assumption⟩)
    | exact L2_yield (by assumption) (by assumption) (by assumption) rfl rfl rfl rfl rfl rfl (Or.inr rfl)
        (Or.inl ⟨rfl, by assumption⟩)
    | exact L2_done (by assumption) (by assumption) (by assumption) (by assumption) (by assumption)
        (by assumption) (by assumption)
    | exact L2_init (by assumption) (by assumption) (ite_of_true (by assumption)) (ite_of_true (by assumption))
        rfl rfl rfl (conn_false (by assumption)) rfl rfl
    | exact L2_init (by assumption) (by assumption) (ite_of_false (by assumption)) (ite_of_false (by assumption))
        rfl rfl rfl (conn_false (by assumption)) rfl rfl
    | exact ScanBoth_of_L2 (by assumption) (by assumption) (by assumption) rfl rfl rfl rfl rfl rfl rfl
        ve0 (Or.inl rfl)
    | exact ScanBoth_of_L2 (by assumption) (by assumption) (by assumption) rfl rfl rfl rfl rfl rfl rfl
        ve0 (Or.inr (by assumption))
    | exact ScanBoth_of_L2 (by assumption) (by assumption) (by assumption) rfl rfl rfl rfl rfl rfl rfl
        (ve_b (by assumption)) (Or.inl rfl)
    | exact ScanBoth_of_L2 (by assumption) (by assumption) (by assumption) rfl rfl rfl rfl rfl rfl rfl
        (ve_b (by assumption)) (Or.inr (by assumption))
    | exact ScanBoth_of_L2 (by assumption) (by assumption) (by assumption) rfl rfl rfl rfl rfl rfl rfl
        (ve_a (by assumption)) (Or.inl rfl)
    | exact ScanBoth_of_L2 (by assumption) (by assumption) (by assumption) rfl rfl rfl rfl rfl rfl rfl
        (ve_a (by assumption)) (Or.inr (by assumption))
    | exact ScanBoth_of_L2 (by assumption) (by assumption) (by assumption) rfl rfl rfl rfl rfl rfl rfl
        (ve_ba (by assumption) (by assumption)) (Or.inl rfl)
    | exact ScanBoth_of_L2 (by assumption) (by assumption) (by assumption) rfl rfl rfl rfl rfl rfl rfl
        (ve_ba (by assumption) (by assumption)) (Or.inr (by assumption))
    | exact ScanBoth_of_L1 (by assumption) (ite_of_true (by assumption)) (ite_of_true (by assumption)) rfl
        (Or.inl ⟨rfl, by assumption, ve_ms⟩) (fun h => sp_A h) (fun h => sp_A2 (by assumption) h) rfl rfl rfl
    | exact ScanBoth_of_L1 (by assumption) (ite_of_false (by assumption)) (ite_of_false (by assumption)) rfl
        (Or.inr ⟨rfl, rfl⟩) (sp_B (by assumption)) (fun _ h => sp_B2 (by assumption) rfl h) rfl rfl rfl
    | skip

end Lyon.SweepCoh
