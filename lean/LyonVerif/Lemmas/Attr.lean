/-
  `@[geom]`: simp set that unfolds model definitions down to scalar arithmetic, and
  `geom_all Ns`: tag every (non-auxiliary) definition whose name starts with `Ns`.
  Proof-side only (imports Lean's meta layer); model files never import this.
-/
import Lean

register_simp_attr geom

open Lean Elab Command in
elab "geom_all " ns:ident : command => do
  let env ← getEnv
  let pre := ns.getId
  let mut names : Array Name := #[]
  for (n, ci) in env.constants.toList do
    if pre.isPrefixOf n && !n.isInternalDetail then
      match ci with
      | .defnInfo _ =>
        -- skip instances and structure projections / auxiliary recursors
        if (← liftCoreM <| Lean.Meta.isInstance n) then continue
        names := names.push n
      | _ => pure ()
  for n in names do
    try
      elabCommand (← `(attribute [geom] $(mkIdent n)))
    catch _ => pure ()
