/-
  C14: the model's `Reversed` iterator on builder-produced storage computes the specification
  reversal (`reverseEvents` of `Lemmas/PathReversed.lean`) of the program's events.
  Induction over the program from its last call, with the invariant that the stored prefix ends
  with the current endpoint's block.  Mathlib-free.
-/
import LyonVerif.Lemmas.PathMore
import LyonVerif.Lemmas.PathReversed
namespace Lyon.Path
variable {S : Type} [Inhabited S]
set_option linter.unusedSectionVars false
set_option linter.unusedVariables false
set_option linter.unusedSimpArgs false

/-- the specification state (first point, current point — with attributes) after a program -/
def stateAfter {π A : Type} : Option (π × π) → List (Call π A) → Option (π × π)
  | st, [] => st
  | none, .begin p _ :: r => stateAfter (some (p, p)) r
  | some (f, _), .line p _ :: r => stateAfter (some (f, p)) r
  | some (f, _), .quad _ p _ :: r => stateAfter (some (f, p)) r
  | some (f, _), .cubic _ _ p _ :: r => stateAfter (some (f, p)) r
  | some _, .end_ _ :: r => stateAfter none r
  | st, _ :: r => stateAfter st r

theorem specFrom_append_state {π A : Type} (st : Option (π × π)) (p q : List (Call π A)) :
    specFrom st (p ++ q) = specFrom st p ++ specFrom (stateAfter st p) q := by
  induction p generalizing st with
  | nil => simp [specFrom, stateAfter]
  | cons c r ih =>
    cases st with
    | none => cases c <;> simp [specFrom, stateAfter, ih]
    | some fc => obtain ⟨f, c0⟩ := fc; cases c <;> simp [specFrom, stateAfter, ih]

theorem nestState_append {π A : Type} (s : Bool) (p q : List (Call π A)) :
    nestState s (p ++ q) = (nestState s p).bind fun s' => nestState s' q := by
  induction p generalizing s with
  | nil => simp [nestState]
  | cons c r ih => cases s <;> cases c <;> simp [nestState, ih]

theorem stateAfter_isSome {π A : Type} (st : Option (π × π)) (p : List (Call π A)) (b : Bool)
    (h : nestState st.isSome p = some b) : (stateAfter st p).isSome = b := by
  induction p generalizing st with
  | nil => simp [nestState] at h; simp [stateAfter, h]
  | cons c r ih =>
    cases st with
    | none => cases c <;> simp_all [nestState, stateAfter] <;> exact ih _ h
    | some fc => obtain ⟨f, c0⟩ := fc; cases c <;> simp_all [nestState, stateAfter] <;> exact ih _ h

/-- where the storage of a program ends: inside a sub-path, with the current endpoint's block;
and the builder's `first` state is the sub-path's first point -/
theorem tail_inv (n : Nat) (prog : Prog S) (st0 : Option (APt S × APt S)) (f : Pt S) (fa : List S)
    (pre0 : List (Pt S)) (b : Bool)
    (hn : nestState st0.isSome prog = some b) (ha : attrsOk n prog = true)
    (h0 : ∀ fst0 c0 ca0, st0 = some (fst0, (c0, ca0)) →
      (f, fa) = fst0 ∧ ca0.length = n ∧ ∃ A0, pre0 = A0 ++ endpointPts c0 ca0)
    (fstp : APt S) (cur : Pt S) (ca : List S)
    (hs : stateAfter st0 (prog.map aCall) = some (fstp, (cur, ca))) :
    firstAfter f fa prog = fstp ∧ ca.length = n ∧
      ∃ A, pre0 ++ emitPts f fa prog = A ++ endpointPts cur ca := by
  induction prog generalizing st0 f fa pre0 with
  | nil =>
    simp [stateAfter] at hs
    obtain ⟨h1, h2, A0, h3⟩ := h0 fstp cur ca hs
    exact ⟨by simpa [firstAfter] using h1, h2, A0, by simpa [emitPts] using h3⟩
  | cons c r ih =>
    cases st0 with
    | none =>
      cases c with
      | begin p a =>
        simp only [attrsOk, Bool.and_eq_true, beq_iff_eq] at ha
        have := ih (some ((p, a), (p, a))) p a (pre0 ++ endpointPts p a)
          (by simpa [nestState] using hn) ha.2
          (by intro fst0 c0 ca0 h; cases h; exact ⟨rfl, ha.1, pre0, rfl⟩)
          (by simpa [stateAfter, aCall] using hs)
        simpa [firstAfter, emitPts] using this
      | _ => simp [nestState] at hn
    | some fc =>
      obtain ⟨fst0, c0, ca0⟩ := fc
      obtain ⟨h1, h2, A0, h3⟩ := h0 fst0 c0 ca0 rfl
      cases c with
      | begin p a => simp [nestState] at hn
      | line p a =>
        simp only [attrsOk, Bool.and_eq_true, beq_iff_eq] at ha
        have := ih (some (fst0, (p, a))) f fa (pre0 ++ endpointPts p a)
          (by simpa [nestState] using hn) ha.2
          (by intro fst0' c0' ca0' h; cases h; exact ⟨h1, ha.1, pre0, rfl⟩)
          (by simpa [stateAfter, aCall] using hs)
        simpa [firstAfter, emitPts] using this
      | quad k p a =>
        simp only [attrsOk, Bool.and_eq_true, beq_iff_eq] at ha
        have := ih (some (fst0, (p, a))) f fa (pre0 ++ k :: endpointPts p a)
          (by simpa [nestState] using hn) ha.2
          (by intro fst0' c0' ca0' h; cases h; exact ⟨h1, ha.1, pre0 ++ [k], by simp⟩)
          (by simpa [stateAfter, aCall] using hs)
        simpa [firstAfter, emitPts] using this
      | cubic k1 k2 p a =>
        simp only [attrsOk, Bool.and_eq_true, beq_iff_eq] at ha
        have := ih (some (fst0, (p, a))) f fa (pre0 ++ k1 :: k2 :: endpointPts p a)
          (by simpa [nestState] using hn) ha.2
          (by intro fst0' c0' ca0' h; cases h; exact ⟨h1, ha.1, pre0 ++ [k1, k2], by simp⟩)
          (by simpa [stateAfter, aCall] using hs)
        simpa [firstAfter, emitPts] using this
      | end_ cl =>
        simp only [attrsOk] at ha
        cases cl with
        | true =>
          have := ih none f fa (pre0 ++ endpointPts f fa)
            (by simpa [nestState] using hn) ha (by intro _ _ _ h; cases h)
            (by simpa [stateAfter, aCall] using hs)
          simpa [firstAfter, emitPts] using this
        | false =>
          have := ih none f fa pre0
            (by simpa [nestState] using hn) ha (by intro _ _ _ h; cases h)
            (by simpa [stateAfter, aCall] using hs)
          simpa [firstAfter, emitPts] using this


theorem nestState_map_aCall (s : Bool) (prog : Prog S) :
    nestState s (prog.map aCall) = nestState s prog := by
  induction prog generalizing s with
  | nil => simp [nestState]
  | cons c r ih => cases s <;> cases c <;> simp [nestState, aCall, ih]

theorem csub_add (a b : Nat) : csub (a + b) b = some a := by simp [csub]
theorem csub_add2 (a b : Nat) : csub (a + b + b) (2 * b) = some a := by
  simp [csub]; omega
theorem csub_zero (a : Nat) : csub a 0 = some a := by simp [csub]
theorem csub_eq (a b c : Nat) (h : a = c + b) : csub a b = some c := by subst h; simp [csub]

theorem rev_setup (pre' : Prog S) (c : Call (Pt S) (List S)) (z : Pt S) (za : List S) :
    (emitVerbs (pre' ++ [c])).reverse = (emitVerbs [c]).reverse ++ (emitVerbs pre').reverse ∧
    emitPts z za (pre' ++ [c]) = emitPts z za pre' ++
      emitPts (firstAfter z za pre').1 (firstAfter z za pre').2 [c] ∧
    (specFrom none ((pre' ++ [c]).map aCall)).reverse =
      (specFrom (stateAfter none (pre'.map aCall)) [aCall c]).reverse ++
        (specFrom none (pre'.map aCall)).reverse := by
  simp [emitVerbs_append, emitPts_append, specFrom_append_state]

theorem reversedGo_prefix (P : PathData S) (z : Pt S) (za : List S) (hza : za.length = P.numAttributes)
    (rp : Prog S) :
    ∀ (suffix : List (Pt S)) (nc : Bool) (fst : Option (APt S)) (b : Bool),
      P.points = emitPts z za rp.reverse ++ suffix →
      nestState false rp.reverse = some b → attrsOk P.numAttributes rp.reverse = true →
      (b = true → fst.isSome = true) →
      reversedGo P (attribStride P.numAttributes) (emitVerbs rp.reverse).reverse
          (emitPts z za rp.reverse).length nc fst
        = some (revGo (specFrom none (rp.reverse.map aCall)).reverse nc fst) := by
  induction rp with
  | nil => intro suffix nc fst b _ _ _ _; simp [emitVerbs, emitPts, specFrom, reversedGo, revGo]
  | cons c rp' ih =>
    intro suffix nc fst b hpts hn ha hfst
    simp only [List.reverse_cons] at hpts hn ha ⊢
    obtain ⟨hv, hp, hs⟩ := rev_setup rp'.reverse c z za
    rw [nestState_append] at hn
    cases hb' : nestState false rp'.reverse with
    | none => simp [hb'] at hn
    | some b' =>
      simp only [hb', Option.bind_some] at hn
      rw [attrsOk_append, Bool.and_eq_true] at ha
      have hiss := stateAfter_isSome (none : Option (APt S × APt S)) (rp'.reverse.map aCall) b'
        (by rw [nestState_map_aCall]; exact hb')
      rw [hv, hs, hp]
      rw [hp] at hpts
      cases b' with
      | false =>
        -- outside a sub-path: only `begin` is legal
        cases c with
        | begin q a =>
          have hσ : stateAfter none (rp'.reverse.map aCall) = none := by
            cases h : stateAfter (none : Option (APt S × APt S)) (rp'.reverse.map aCall) with
            | none => rfl
            | some x => rw [h] at hiss; simp at hiss
          simp only [attrsOk, Bool.and_eq_true, beq_iff_eq] at ha
          simp [nestState] at hn
          subst hn
          obtain ⟨f, hf⟩ : ∃ f, fst = some f := Option.isSome_iff_exists.mp (hfst rfl)
          subst hf
          simp only [emitPts, List.append_nil] at hpts ⊢
          have hA := endpointA_at P (emitPts z za rp'.reverse) suffix q a (by simpa using hpts) ha.2.1
          have hlen : (emitPts z za rp'.reverse ++ endpointPts q a).length
              = (emitPts z za rp'.reverse).length + (attribStride P.numAttributes + 1) := by
            simp [endpointPts_length, ha.2.1]
          have hrec := ih (endpointPts q a ++ suffix) false none false (by simpa using hpts) hb' ha.1
            (by simp)
          simp [-List.map_reverse, hσ, emitVerbs, specFrom, aCall, reversedGo, revStep, revGo, nStoredPoints, hlen,
            csub_add, hA, hrec]
        | _ => simp [nestState] at hn
      | true =>
        obtain ⟨⟨fstp, cur, ca⟩, hσ⟩ : ∃ x, stateAfter none (rp'.reverse.map aCall) = some x :=
          Option.isSome_iff_exists.mp hiss
        obtain ⟨hfa, hca, A, hA⟩ := tail_inv P.numAttributes rp'.reverse none z za [] true
          (by simpa using hb') ha.1 (by intro _ _ _ h; cases h) fstp cur ca hσ
        simp only [List.nil_append] at hA
        have hfal := firstAfter_length P.numAttributes z za rp'.reverse ha.1 hza
        have hlenA : (emitPts z za rp'.reverse).length = A.length + (attribStride P.numAttributes + 1) := by
          simp [hA, endpointPts_length, hca]
        have hcur := endpointA_at P A (emitPts (firstAfter z za rp'.reverse).1 (firstAfter z za rp'.reverse).2 [c] ++ suffix) cur ca
          (by rw [hpts, hA]; simp) hca
        cases c with
        | begin q a => simp [nestState] at hn
        | line q a =>
          simp only [attrsOk, Bool.and_eq_true, beq_iff_eq] at ha
          simp [nestState] at hn
          subst hn
          simp only [emitPts, List.append_nil] at hpts ⊢
          have hq := endpointA_at P (emitPts z za rp'.reverse) suffix q a (by simpa using hpts) ha.2.1
          rw [hlenA] at hq
          have hlen : (emitPts z za rp'.reverse ++ endpointPts q a).length
              = A.length + (attribStride P.numAttributes + 1) + (attribStride P.numAttributes + 1) := by
            simp [hlenA, endpointPts_length, ha.2.1]
          have hrec := ih (endpointPts q a ++ suffix) nc fst true (by simpa using hpts) hb' ha.1 hfst
          rw [hlenA] at hrec
          simp [-List.map_reverse, hσ, emitVerbs, specFrom, aCall, reversedGo, revStep, revGo, nStoredPoints, hlen,
            csub_add, hq, hcur, hrec]
        | quad k q a =>
          simp only [attrsOk, Bool.and_eq_true, beq_iff_eq] at ha
          simp [nestState] at hn
          subst hn
          simp only [emitPts, List.append_nil] at hpts ⊢
          have hk := ctrlA_at P (emitPts z za rp'.reverse) (endpointPts q a ++ suffix) k (by simpa using hpts)
          have hq := endpointA_at P (emitPts z za rp'.reverse ++ [k]) suffix q a (by simpa using hpts) ha.2.1
          simp only [List.length_append, List.length_singleton] at hq
          rw [hlenA] at hq hk
          have hlen : (emitPts z za rp'.reverse ++ k :: endpointPts q a).length
              = A.length + (attribStride P.numAttributes + 1) + 1 + (attribStride P.numAttributes + 1) := by
            simp [hlenA, endpointPts_length, ha.2.1]; omega
          have c4 : csub (A.length + (attribStride P.numAttributes + 1) + 1 + (attribStride P.numAttributes + 1))
              (attribStride P.numAttributes + 2) = some (A.length + (attribStride P.numAttributes + 1)) :=
            csub_eq _ _ _ (by omega)
          have hrec := ih (k :: endpointPts q a ++ suffix) nc fst true (by simpa using hpts) hb' ha.1 hfst
          rw [hlenA] at hrec
          simp [-List.map_reverse, hσ, emitVerbs, specFrom, aCall, reversedGo, revStep, revGo, nStoredPoints, hlen,
            csub_add, c4, hq, hk, hcur, hrec]
        | cubic k1 k2 q a =>
          simp only [attrsOk, Bool.and_eq_true, beq_iff_eq] at ha
          simp [nestState] at hn
          subst hn
          simp only [emitPts, List.append_nil] at hpts ⊢
          have hk1 := ctrlA_at P (emitPts z za rp'.reverse) (k2 :: endpointPts q a ++ suffix) k1 (by simpa using hpts)
          have hk2 := ctrlA_at P (emitPts z za rp'.reverse ++ [k1]) (endpointPts q a ++ suffix) k2 (by simpa using hpts)
          have hq := endpointA_at P (emitPts z za rp'.reverse ++ [k1] ++ [k2]) suffix q a (by simpa using hpts) ha.2.1
          simp only [List.length_append, List.length_singleton] at hq hk2
          rw [hlenA] at hq hk1 hk2
          have hlen : (emitPts z za rp'.reverse ++ k1 :: k2 :: endpointPts q a).length
              = A.length + (attribStride P.numAttributes + 1) + 1 + 1 + (attribStride P.numAttributes + 1) := by
            simp [hlenA, endpointPts_length, ha.2.1]; omega
          have c4 : csub (A.length + (attribStride P.numAttributes + 1) + 1 + 1 + (attribStride P.numAttributes + 1))
              (attribStride P.numAttributes + 3) = some (A.length + (attribStride P.numAttributes + 1)) :=
            csub_eq _ _ _ (by omega)
          have hrec := ih (k1 :: k2 :: endpointPts q a ++ suffix) nc fst true (by simpa using hpts) hb' ha.1 hfst
          rw [hlenA] at hrec
          simp [-List.map_reverse, hσ, emitVerbs, specFrom, aCall, reversedGo, revStep, revGo, nStoredPoints, hlen,
            csub_add, c4, hq, hk1, hk2, hcur, hrec]
        | end_ cl =>
          simp [nestState] at hn
          subst hn
          cases cl with
          | true =>
            simp only [emitPts, List.append_nil] at hpts ⊢
            have hlen : (emitPts z za rp'.reverse ++ endpointPts (firstAfter z za rp'.reverse).1 (firstAfter z za rp'.reverse).2).length
                = A.length + (attribStride P.numAttributes + 1) + (attribStride P.numAttributes + 1) := by
              simp [hlenA, endpointPts_length, hfal]
            have hrec := ih (endpointPts (firstAfter z za rp'.reverse).1 (firstAfter z za rp'.reverse).2 ++ suffix)
              true (some (cur, ca)) true (by simpa using hpts) hb' ha.1 (by simp)
            rw [hlenA] at hrec
            simp [-List.map_reverse, hσ, emitVerbs, specFrom, aCall, reversedGo, revStep, revGo, nStoredPoints, hlen,
              csub_add, csub_add2, hcur, hrec]
          | false =>
            simp only [emitPts, List.append_nil] at hpts ⊢
            have hrec := ih suffix false (some (cur, ca)) true (by simpa using hpts) hb' ha.1 (by simp)
            rw [hlenA] at hrec ⊢
            simp [-List.map_reverse, hσ, emitVerbs, specFrom, aCall, reversedGo, revStep, revGo, nStoredPoints,
              csub_add, csub_zero, hcur, hrec]


/-! ### events ↔ programs (for `Reversed::into_path`) -/

/-- endpoints carry `n` attributes, control points none -/
def evOk (n : Nat) : Event (APt S) → Bool
  | .begin a => a.2.length == n
  | .line a b => a.2.length == n && b.2.length == n
  | .quad a c b => a.2.length == n && c.2.length == 0 && b.2.length == n
  | .cubic a c d b => a.2.length == n && c.2.length == 0 && d.2.length == 0 && b.2.length == n
  | .end_ l f _ => l.2.length == n && f.2.length == n

theorem evOk_spec (n : Nat) (prog : Prog S) (st : Option (APt S × APt S)) (ha : attrsOk n prog = true)
    (hst : ∀ f c, st = some (f, c) → f.2.length = n ∧ c.2.length = n) :
    ∀ e ∈ specFrom st (prog.map aCall), evOk n e = true := by
  induction prog generalizing st with
  | nil => cases st <;> simp [specFrom]
  | cons c r ih =>
    cases st with
    | none =>
      cases c with
      | begin p a =>
        simp only [attrsOk, Bool.and_eq_true, beq_iff_eq] at ha
        have := ih (some ((p, a), (p, a))) ha.2 (by intro f c h; cases h; exact ⟨ha.1, ha.1⟩)
        simpa [specFrom, aCall, evOk, ha.1] using this
      | line p a => simp only [attrsOk, Bool.and_eq_true] at ha; simpa [specFrom, aCall] using ih none ha.2 (by simp)
      | quad k p a => simp only [attrsOk, Bool.and_eq_true] at ha; simpa [specFrom, aCall] using ih none ha.2 (by simp)
      | cubic k1 k2 p a => simp only [attrsOk, Bool.and_eq_true] at ha; simpa [specFrom, aCall] using ih none ha.2 (by simp)
      | end_ cl => simp only [attrsOk] at ha; simpa [specFrom, aCall] using ih none ha (by simp)
    | some fc =>
      obtain ⟨f, c0⟩ := fc
      obtain ⟨hf, hc⟩ := hst f c0 rfl
      cases c with
      | begin p a =>
        simp only [attrsOk, Bool.and_eq_true] at ha
        simpa [specFrom, aCall] using ih (some (f, c0)) ha.2 hst
      | line p a =>
        simp only [attrsOk, Bool.and_eq_true, beq_iff_eq] at ha
        have := ih (some (f, (p, a))) ha.2 (by intro f' c' h; cases h; exact ⟨hf, ha.1⟩)
        simpa [specFrom, aCall, evOk, ha.1, hc] using this
      | quad k p a =>
        simp only [attrsOk, Bool.and_eq_true, beq_iff_eq] at ha
        have := ih (some (f, (p, a))) ha.2 (by intro f' c' h; cases h; exact ⟨hf, ha.1⟩)
        simpa [specFrom, aCall, evOk, ha.1, hc, ctl] using this
      | cubic k1 k2 p a =>
        simp only [attrsOk, Bool.and_eq_true, beq_iff_eq] at ha
        have := ih (some (f, (p, a))) ha.2 (by intro f' c' h; cases h; exact ⟨hf, ha.1⟩)
        simpa [specFrom, aCall, evOk, ha.1, hc, ctl] using this
      | end_ cl =>
        simp only [attrsOk] at ha
        have := ih none ha (by simp)
        simpa [specFrom, aCall, evOk, hf, hc] using this

theorem evOk_revGo (n : Nat) (L : List (Event (APt S))) (nc : Bool) (fst : Option (APt S))
    (hL : ∀ e ∈ L, evOk n e = true) (hf : ∀ f, fst = some f → f.2.length = n) :
    ∀ e ∈ revGo L nc fst, evOk n e = true := by
  induction L generalizing nc fst with
  | nil => simp [revGo]
  | cons x r ih =>
    have hx := hL x (by simp)
    have hr : ∀ e ∈ r, evOk n e = true := fun e he => hL e (by simp [he])
    cases x with
    | begin a =>
      simp [evOk] at hx
      have := ih false none hr (by simp)
      cases fst with
      | none => simpa [revGo, evOk, hx] using this
      | some f => simpa [revGo, evOk, hx, hf f rfl] using this
    | line a b =>
      simp [evOk] at hx
      simpa [revGo, evOk, hx] using ih nc fst hr hf
    | quad a c b =>
      simp [evOk] at hx
      simpa [revGo, evOk, hx] using ih nc fst hr hf
    | cubic a c d b =>
      simp [evOk] at hx
      simpa [revGo, evOk, hx] using ih nc fst hr hf
    | end_ l f cl =>
      simp [evOk] at hx
      simpa [revGo, evOk, hx] using ih cl (some l) hr (by intro f' h; cases h; exact hx.1)

/-- the builder program denoted by well-formed events denotes the same events again -/
theorem spec_eventToCall [BEq S] [LawfulBEq S] (n : Nat) (evs : List (Event (APt S))) (st : Option (APt S × APt S))
    (hwf : wellFormedFrom st evs = true) (hok : ∀ e ∈ evs, evOk n e = true) :
    specFrom st ((evs.map eventToCall).map aCall) = evs ∧
    wellNestedFrom st.isSome (evs.map eventToCall) = true ∧
    attrsOk n (evs.map eventToCall) = true := by
  induction evs generalizing st with
  | nil => cases st <;> simp_all [wellFormedFrom, specFrom, wellNestedFrom, attrsOk]
  | cons e r ih =>
    have he := hok e (by simp)
    have hr : ∀ e ∈ r, evOk n e = true := fun e he => hok e (by simp [he])
    cases st with
    | none =>
      cases e with
      | begin a =>
        simp [wellFormedFrom] at hwf
        simp [evOk] at he
        have := ih (some (a, a)) hwf hr
        simpa [eventToCall, aCall, specFrom, wellNestedFrom, attrsOk, he] using this
      | _ => simp [wellFormedFrom] at hwf
    | some fc =>
      obtain ⟨f, c0⟩ := fc
      cases e with
      | begin a => simp [wellFormedFrom] at hwf
      | line a b =>
        simp [wellFormedFrom] at hwf
        simp [evOk] at he
        have := ih (some (f, b)) hwf.2 hr
        simpa [eventToCall, aCall, specFrom, wellNestedFrom, attrsOk, he, hwf.1] using this
      | quad a c b =>
        simp [wellFormedFrom] at hwf
        simp [evOk] at he
        have hc : ctl c.1 = c := by
          obtain ⟨c1, c2⟩ := c; simp at he; simp [ctl, he.1.2]
        have := ih (some (f, b)) hwf.2 hr
        simpa [eventToCall, aCall, specFrom, wellNestedFrom, attrsOk, he, hwf.1, hc] using this
      | cubic a c d b =>
        simp [wellFormedFrom] at hwf
        simp [evOk] at he
        have hc : ctl c.1 = c := by
          obtain ⟨c1, c2⟩ := c; simp at he; simp [ctl, he.1.1.2]
        have hd : ctl d.1 = d := by
          obtain ⟨d1, d2⟩ := d; simp at he; simp [ctl, he.1.2]
        have := ih (some (f, b)) hwf.2 hr
        simpa [eventToCall, aCall, specFrom, wellNestedFrom, attrsOk, he, hwf.1, hc, hd] using this
      | end_ l f' cl =>
        simp [wellFormedFrom] at hwf
        have := ih none hwf.2 hr
        simpa [eventToCall, aCall, specFrom, wellNestedFrom, attrsOk, hwf.1] using this


end Lyon.Path
