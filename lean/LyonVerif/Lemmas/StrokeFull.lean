/-
  Id validity and freshness for the full stroker model `Lyon.Stroke.Full`
  (`Model/Tess/StrokeFull.lean`) on polylines (Begin / Line / End events), for every scalar type:
  fixed and variable line width, all four joins, all three caps.

  * `OutSteps o o'`: `o'` is reached from `o` by a sequence of `add_stroke_vertex` calls and
    `add_triangle` calls such that every triangle, AT THE MOMENT IT IS EMITTED, has three pairwise
    distinct ids that have all been handed out already.  This is freshness at the granularity of
    the single call.  `OutExt` is the coarser per-operation relation (new vertices got consecutive
    fresh ids, every new triangle is proper and below the final `nextId`).
  * `InvC` / `Inv`: the window invariant (as for `Poly`, `Lemmas/StrokePoly.lean`), plus
    `isFlat = false` for every endpoint in the window / `firsts` (polylines), so that `fastPath`
    is false and `flattenedStep` is never taken.
  * `StepSpec`: what `close` / `endSub` / the event loop need of a step function; proved for
    `fwStep` and `vwStep`.
  * `full_ids_fresh_and_valid_lemma`: the statement for `tessellateIds`.

  All geometry (`joinSidesFw`, `joinSidesVw`, `edgeAttach`, `firstEdgeSetup`, `clipSidePos`,
  `lastSidesFw`, the angles and subdivision counts of arcs) is opaque: only the frame facts
  (which fields stay unchanged) are used.  The one numeric fact used is that
  `points_are_too_close` is a function of the two positions (second step of `close`).
-/
import LyonVerif.Model.Tess.StrokeFull
import LyonVerif.Lemmas.StrokeParts
import LyonVerif.Lemmas.StrokePoly

set_option linter.unusedSectionVars false
set_option linter.unusedVariables false

namespace Lyon.C05b
open Lyon Scalar Lyon.Stroke Lyon.Stroke.Full Lyon.C05

/-! ## outputs that grow -/

section Out
variable {α : Type}

/-- call-level freshness: a sequence of `add_stroke_vertex` / `add_triangle(s)` calls in which
every triangle is proper and only references ids handed out BEFORE it is emitted -/
inductive OutSteps : Out α → Out α → Prop
  | refl (o : Out α) : OutSteps o o
  | vert {o o' : Out α} (d : VData α) : OutSteps o o' → OutSteps o (o'.addVertex d)
  | tris {o o' : Out α} (ts : List Stroke.Tri) : OutSteps o o' →
      (∀ t ∈ ts, Tri.Distinct t ∧ Tri.Below t o'.nextId) → OutSteps o (o'.addTris ts)

/-- per-operation relation: vertices and triangles are appended, the new vertices got consecutive
fresh ids, every new triangle is proper and below the `nextId` reached at the end -/
def OutExt (o o' : Out α) : Prop :=
  ∃ vs ts, o' = ⟨o.nextId + vs.length, o.verts ++ vs, o.tris ++ ts⟩
    ∧ ∀ t ∈ ts, Tri.Distinct t ∧ Tri.Below t o'.nextId

def OutOK (o : Out α) : Prop :=
  o.nextId = o.verts.length ∧ ∀ t ∈ o.tris, Tri.Distinct t ∧ Tri.Below t o.nextId

theorem OutSteps.tri {o o' : Out α} (t : Stroke.Tri) (h : OutSteps o o')
    (ht : Tri.Distinct t ∧ Tri.Below t o'.nextId) : OutSteps o (o'.addTri t) := by
  have : o'.addTri t = o'.addTris [t] := rfl
  rw [this]
  exact OutSteps.tris [t] h (by simpa using ht)

theorem OutSteps.trans {a b c : Out α} (h1 : OutSteps a b) (h2 : OutSteps b c) : OutSteps a c := by
  induction h2 with
  | refl => exact h1
  | vert d _ ih => exact OutSteps.vert d ih
  | tris ts _ ht ih => exact OutSteps.tris ts ih ht

theorem OutSteps.next_le {o o' : Out α} (h : OutSteps o o') : o.nextId ≤ o'.nextId := by
  induction h with
  | refl => exact Nat.le_refl _
  | vert d _ ih => exact Nat.le_succ_of_le ih
  | tris ts _ _ ih => exact ih

theorem OutExt.refl (o : Out α) : OutExt o o := ⟨[], [], by cases o; simp, by simp⟩

theorem OutExt.next_le {o o' : Out α} (h : OutExt o o') : o.nextId ≤ o'.nextId := by
  obtain ⟨vs, ts, rfl, _⟩ := h; simp

theorem OutExt.trans {a b c : Out α} (h1 : OutExt a b) (h2 : OutExt b c) : OutExt a c := by
  have hle := h2.next_le
  obtain ⟨vs1, ts1, rfl, ht1⟩ := h1
  obtain ⟨vs2, ts2, rfl, ht2⟩ := h2
  refine ⟨vs1 ++ vs2, ts1 ++ ts2, by simp [Nat.add_assoc], ?_⟩
  intro t ht
  rcases List.mem_append.mp ht with h | h
  · exact ⟨(ht1 t h).1, below_mono (ht1 t h).2 hle⟩
  · exact ht2 t h

theorem OutSteps.ext {o o' : Out α} (h : OutSteps o o') : OutExt o o' := by
  induction h with
  | refl => exact OutExt.refl _
  | vert d _ ih =>
    exact ih.trans ⟨[d], [], by simp [Out.addVertex], by simp⟩
  | tris ts _ ht ih =>
    exact ih.trans ⟨[], ts, by simp [Out.addTris], by simpa [Out.addTris] using ht⟩

theorem OutExt.ok {o o' : Out α} (h : OutExt o o') (ho : OutOK o) : OutOK o' := by
  have hle := h.next_le
  obtain ⟨vs, ts, rfl, ht⟩ := h
  refine ⟨by simp [ho.1], ?_⟩
  intro t htm
  rcases List.mem_append.mp htm with h | h
  · exact ⟨(ho.2 t h).1, below_mono (ho.2 t h).2 hle⟩
  · exact ht t h

@[simp] theorem addVertex_nextId (o : Out α) (d : VData α) : (o.addVertex d).nextId = o.nextId + 1 := rfl
@[simp] theorem addTri_nextId (o : Out α) (t : Stroke.Tri) : (o.addTri t).nextId = o.nextId := rfl
@[simp] theorem addTris_nextId' (o : Out α) (t : List Stroke.Tri) : (o.addTris t).nextId = o.nextId := rfl

end Out

/-! ## arcs, round caps, empty caps -/

section Arc
variable {α : Type} [Scalar α] [Transc α]

/-- `tessellate_arc` between two distinct existing vertices (any angles, any depth) -/
theorem arc_steps (n : Nat) : ∀ (a0 a1 : α) (va vb : Nat) (d : VData α) (o : Out α),
    va ≠ vb → va < o.nextId → vb < o.nextId → OutSteps o (tessellateArc a0 a1 va vb n d o) := by
  induction n with
  | zero => intro a0 a1 va vb d o _ _ _; exact OutSteps.refl o
  | succ n ih =>
    intro a0 a1 va vb d o hab ha hb
    let d1 : VData α := { d with normal := ⟨Transc.cos ((a0 + a1) * half), Transc.sin ((a0 + a1) * half)⟩ }
    let o1 : Out α := (o.addVertex d1).addTri (va, o.nextId, vb)
    have hn1 : o1.nextId = o.nextId + 1 := rfl
    have s1 : OutSteps o o1 := by
      refine OutSteps.tri _ (OutSteps.vert _ (OutSteps.refl o)) ?_
      simp only [Tri.Distinct, Tri.Below, addVertex_nextId]
      omega
    have s2 := ih a0 ((a0 + a1) * half) va o.nextId d1 o1 (by omega) (by omega) (by omega)
    have hle := s2.next_le
    have s3 := ih ((a0 + a1) * half) a1 o.nextId vb d1 (tessellateArc a0 ((a0 + a1) * half) va o.nextId n d1 o1)
      (by omega) (by omega) (by omega)
    exact (s1.trans s2).trans s3

/-- `tessellate_round_cap` between two distinct existing vertices -/
theorem roundCap_steps (center : P α) (radius : α) (startNormal : P α) (sv ev : Nat)
    (edgeNormal : P α) (tolerance : α) (isStart : Bool) (d : VData α) (o : Out α)
    (hne : sv ≠ ev) (hs : sv < o.nextId) (he : ev < o.nextId) :
    OutSteps o (tessellateRoundCap center radius startNormal sv ev edgeNormal tolerance isStart d o) := by
  unfold tessellateRoundCap
  split_ifs
  · exact OutSteps.refl o
  · have key : ∀ (d1 d2 : VData α) (a b c : α) (n : Nat),
        OutSteps o (tessellateArc b c o.nextId ev n d2
          (tessellateArc a b sv o.nextId n d1 ((o.addVertex d1).addTri (sv, o.nextId, ev)))) := by
      intro d1 d2 a b c n
      let o1 : Out α := (o.addVertex d1).addTri (sv, o.nextId, ev)
      have hn1 : o1.nextId = o.nextId + 1 := rfl
      have s1 : OutSteps o o1 := by
        refine OutSteps.tri _ (OutSteps.vert _ (OutSteps.refl o)) ?_
        simp only [Tri.Distinct, Tri.Below, addVertex_nextId]
        omega
      have s2 := arc_steps n a b sv o.nextId d1 o1 (by omega) (by omega) (by omega)
      have hle := s2.next_le
      have s3 := arc_steps n b c o.nextId ev d2 (tessellateArc a b sv o.nextId n d1 o1)
        (by omega) (by omega) (by omega)
      exact (s1.trans s2).trans s3
    exact key _ _ _ _ _ _

theorem emptySquareCap_steps (position : P α) (d : VData α) (o : Out α) :
    OutSteps o (tessellateEmptySquareCap position d o) := by
  simp only [tessellateEmptySquareCap]
  refine OutSteps.tri _ (OutSteps.tri _ (OutSteps.vert _ (OutSteps.vert _ (OutSteps.vert _
    (OutSteps.vert _ (OutSteps.refl o))))) ?_) ?_ <;>
  · simp only [Tri.Distinct, Tri.Below, addVertex_nextId, addTri_nextId]; omega

theorem emptyRoundCap_steps (center : P α) (tolerance : α) (d : VData α) (o : Out α) :
    OutSteps o (tessellateEmptyRoundCap center tolerance d o) := by
  let dl : VData α := { d with positionOnPath := center, normal := ⟨-one, zero⟩, side := .positive }
  let dr : VData α := { dl with normal := ⟨one, zero⟩, side := .negative }
  let o2 : Out α := (o.addVertex dl).addVertex dr
  have hn2 : o2.nextId = o.nextId + 2 := rfl
  have s0 : OutSteps o o2 := OutSteps.vert _ (OutSteps.vert _ (OutSteps.refl o))
  have s1 := roundCap_steps center d.halfWidth ⟨-one, zero⟩ o.nextId (o.nextId + 1) ⟨zero, one⟩ tolerance true
    dr o2 (by omega) (by omega) (by omega)
  have hle := s1.next_le
  have s2 := roundCap_steps center d.halfWidth ⟨one, zero⟩ (o.nextId + 1) o.nextId ⟨zero, -one⟩ tolerance false
    dr (tessellateRoundCap center d.halfWidth ⟨-one, zero⟩ o.nextId (o.nextId + 1) ⟨zero, one⟩ tolerance true dr o2)
    (by omega) (by omega) (by omega)
  exact (s0.trans s1).trans s2

end Arc

end Lyon.C05b
