/-
  C02 growth 4 (`Props/C02g.lean`), part 10: the bookkeeping relation without the covering clause
  (`Tiles0`) and the ear / pop / change-of-side steps generalised to what the ADVANCED tessellator
  needs: the opposite chain may have (buffered) vertices inside the ear's sweep range
  (`ear_tiles0`, `pop_tiles0`: the opposite side is an arbitrary predicate that contains the ears),
  and the stack's own chain may continue with buffered vertices that come BEFORE the forwarded
  vertex in sweep order (`fan_step_tiles0`).
-/
import LyonVerif.Lemmas.MonotoneTileAdvSetEnd

set_option linter.unusedSectionVars false
set_option linter.unusedVariables false
set_option linter.unusedSimpArgs false

namespace Lyon.C02f
open Lyon Lyon.Mono Lyon.C02 Lyon.C02c

section Geometry
variable {K : Type} [Field K] [LinearOrder K] [IsStrictOrderedRing K]

/-- `Tiles` without the covering clause -/
structure Tiles0 {T : Type} (R : P K → Prop) (I : T → P K → Prop) (ts : List T) (R' : P K → Prop) : Prop where
  inside : ∀ t ∈ ts, ∀ q, I t q → R q
  sub : ∀ q, R' q → R q
  apart : ∀ t ∈ ts, ∀ q, I t q → ¬ R' q
  disj : ts.Pairwise (fun t t' => ∀ q, ¬ (I t q ∧ I t' q))

namespace Tiles0
variable {T : Type} {R R' R'' : P K → Prop} {I : T → P K → Prop} {Ic : T → P K → Prop} {ts ts' : List T}

theorem ofTiles (h : Tiles R I Ic ts R') : Tiles0 R I ts R' := ⟨h.inside, h.sub, h.apart, h.disj⟩

theorem refl (R : P K → Prop) (I : T → P K → Prop) : Tiles0 R I [] R :=
  ⟨by simp, fun _ h => h, by simp, List.Pairwise.nil⟩

theorem trans (h1 : Tiles0 R I ts R') (h2 : Tiles0 R' I ts' R'') : Tiles0 R I (ts ++ ts') R'' := by
  refine ⟨?_, fun q h => h1.sub q (h2.sub q h), ?_, ?_⟩
  · intro t ht q hq
    rcases List.mem_append.mp ht with g | g
    · exact h1.inside t g q hq
    · exact h1.sub q (h2.inside t g q hq)
  · intro t ht q hq hr
    rcases List.mem_append.mp ht with g | g
    · exact h1.apart t g q hq (h2.sub q hr)
    · exact h2.apart t g q hq hr
  · rw [List.pairwise_append]
    refine ⟨h1.disj, h2.disj, ?_⟩
    intro a ha b hb q ⟨qa, qb⟩
    exact h1.apart a ha q qa (h2.inside b hb q qb)

theorem reverse (h : Tiles0 R I ts R') : Tiles0 R I ts.reverse R' := by
  refine ⟨fun t ht => h.inside t (List.mem_reverse.mp ht), h.sub, fun t ht => h.apart t (List.mem_reverse.mp ht), ?_⟩
  rw [List.pairwise_reverse]
  exact h.disj.imp (fun hab q ⟨qa, qb⟩ => hab q ⟨qb, qa⟩)

theorem frame (h : Tiles0 R I ts R') (X : P K → Prop) (hx : ∀ q, R q → ¬ X q) :
    Tiles0 (fun q => R q ∨ X q) I ts (fun q => R' q ∨ X q) := by
  refine ⟨fun t ht q hq => Or.inl (h.inside t ht q hq), ?_, ?_, h.disj⟩
  · rintro q (g | g)
    · exact Or.inl (h.sub q g)
    · exact Or.inr g
  · rintro t ht q hq (g | g)
    · exact h.apart t ht q hq g
    · exact hx q (h.inside t ht q hq) g

theorem rebase {R0 R1 : P K → Prop} (h : Tiles0 R I ts R') (h0 : ∀ q, R q → R0 q) (h1 : ∀ q, R1 q → R' q) :
    Tiles0 R0 I ts R1 :=
  ⟨fun t ht q hq => h0 q (h.inside t ht q hq), fun q hq => h0 q (h.sub q (h1 q hq)),
    fun t ht q hq hr => h.apart t ht q hq (h1 q hr), h.disj⟩

theorem map {T' : Type} {I' : T' → P K → Prop} (f : T → T') (h : Tiles0 R I ts R')
    (hI : ∀ t ∈ ts, ∀ q, I' (f t) q ↔ I t q) : Tiles0 R I' (ts.map f) R' := by
  refine ⟨?_, h.sub, ?_, ?_⟩
  · intro t' ht' q hq
    obtain ⟨t, ht, rfl⟩ := List.mem_map.mp ht'
    exact h.inside t ht q ((hI t ht q).mp hq)
  · intro t' ht' q hq
    obtain ⟨t, ht, rfl⟩ := List.mem_map.mp ht'
    exact h.apart t ht q ((hI t ht q).mp hq)
  · rw [List.pairwise_map]
    refine h.disj.imp_of_mem ?_
    intro a b ha hb hab q ⟨qa, qb⟩
    exact hab q ⟨(hI a ha q).mp qa, (hI b hb q).mp qb⟩

end Tiles0

/-! ## ear and pop with an arbitrary opposite side -/

/-- one ear cut; the opposite side of the region is any predicate that contains the ear -/
theorem ear_tiles0 (c : Bool) (A B : List (P K)) {x y z : P K} (Op : P K → Prop) (hyx : After y x) (hzy : After z y)
    (hconv : 0 < sg c * wind x y z) (hA : SortedP (A ++ [x])) (hB : SortedP (z :: B))
    (hO : ∀ q, InTriS c x y z q → Op q) :
    Tiles0 (fun q => ChainIn c (A ++ x :: y :: z :: B) q ∧ Op q) (fun (_ : Unit) => InTriS c x y z) [()]
      (fun q => ChainIn c (A ++ x :: z :: B) q ∧ Op q) := by
  refine ⟨?_, ?_, ?_, by simp⟩
  · intro _ _ q hq
    exact ⟨ear_chain_tri c A B hyx hzy q hq, hO q hq⟩
  · rintro q ⟨h1, h2⟩
    exact ⟨ear_chain_sub c A B hyx hzy hconv q h1, h2⟩
  · rintro _ _ q hq ⟨h1, _⟩
    exact ear_chain_apart c A B hyx hzy hA hB q hq h1

/-- the same-side step with an arbitrary opposite side that contains every possible ear -/
theorem pop_tiles0 (pos : Nat → P K) (cur : MV K) (B : List (P K)) (Op : P K → Prop)
    (hcur : Good pos cur) (hB : SortedP (cur.pos :: B)) (st : List (MV K)) (lp : MV K)
    (hgood : ∀ v ∈ lp :: st, Good pos v)
    (hsort : ((lp :: st).map (·.pos)).Pairwise (fun a b => After a b))
    (hcs : ∀ v ∈ lp :: st, After cur.pos v.pos)
    (hnc : (lp :: st).Pairwise (fun a b => wind b.pos a.pos cur.pos ≠ 0))
    (hO : ∀ u ∈ lp :: st, ∀ w ∈ lp :: st, After w.pos u.pos → ∀ q, InTriS cur.left u.pos w.pos cur.pos q → Op q) :
    Tiles0 (fun q => ChainIn cur.left (((lp :: st).map (·.pos)).reverse ++ cur.pos :: B) q ∧ Op q)
      (TriIn pos) (popLoop cur lp st).2
      (fun q => ChainIn cur.left (((popLoop cur lp st).1.map (·.pos)).reverse ++ cur.pos :: B) q ∧ Op q) := by
  induction st generalizing lp with
  | nil =>
    simp only [popLoop]
    exact Tiles0.refl _ _
  | cons top rest ih =>
    simp only [popLoop]
    split
    · rename_i hconvb
      have hsort' := List.Pairwise.of_cons hsort
      have ih' := ih top (fun v hv => hgood v (List.mem_cons_of_mem _ hv)) hsort'
        (fun v hv => hcs v (List.mem_cons_of_mem _ hv)) (List.Pairwise.of_cons hnc)
        (fun u hu w hw => hO u (List.mem_cons_of_mem _ hu) w (List.mem_cons_of_mem _ hw))
      have hyx : After lp.pos top.pos := List.rel_of_pairwise_cons hsort (by simp)
      have hzy : After cur.pos lp.pos := hcs lp (by simp)
      have hne : wind top.pos lp.pos cur.pos ≠ 0 := List.rel_of_pairwise_cons hnc (by simp)
      have hconv : 0 < sg cur.left * wind top.pos lp.pos cur.pos := by
        refine lt_of_le_of_ne (earConvex_true cur lp top hconvb) ?_
        intro e
        rcases mul_eq_zero.mp e.symm with z | z
        · exact sg_ne_zero _ z
        · exact hne z
      have hA : SortedP ((rest.map (·.pos)).reverse ++ [top.pos]) := by
        have := sortedP_reverse _ hsort'
        simpa using this
      have step := ear_tiles0 cur.left ((rest.map (·.pos)).reverse) B Op hyx hzy hconv hA hB
        (hO top (by simp) lp (by simp) hyx)
      have step' := step.map (fun _ => earTri cur lp top)
        (fun _ _ q => (earTri_in pos cur lp top hcur (hgood lp (by simp)) (hgood top (by simp)) q).1)
      have e1 : ((lp :: top :: rest).map (·.pos)).reverse ++ cur.pos :: B =
          (rest.map (·.pos)).reverse ++ top.pos :: lp.pos :: cur.pos :: B := by simp
      have e2 : ((top :: rest).map (·.pos)).reverse ++ cur.pos :: B =
          (rest.map (·.pos)).reverse ++ top.pos :: cur.pos :: B := by simp
      rw [e1]
      rw [e2] at ih'
      exact step'.trans ih'
    · exact Tiles0.refl _ _

/-! ## the change of side when the stack's chain continues with buffered vertices -/

theorem split_sub_P0 (c : Bool) (S' Fc F' : List (P K)) {top bot d : P K} (hdt : After d top)
    (htb : top = bot ∨ (After top bot ∧ 0 < sg c * wind bot top d)) (q : P K)
    (h : InPoly c (top :: Fc) (top :: d :: F') q) : InPoly c (S' ++ top :: Fc) (bot :: d :: F') q := by
  refine ⟨(chainIn_append c S' top Fc q).mpr (Or.inr h.1), ?_⟩
  rcases htb with e | ⟨htb, hw⟩
  · rw [← e]; exact h.2
  rcases h.2 with ⟨⟨hqt, hdq⟩, hin⟩ | g
  · left
    refine ⟨⟨Or.inr (afterEq_trans_after hqt htb), hdq⟩, ?_⟩
    rw [sg_not] at hin ⊢
    have := turn_outer c (after_trans hdt htb) hdt hdq hw (by linarith)
    linarith
  · exact Or.inr g

theorem split_apart0 (c : Bool) (S' Fc F' : List (P K)) {top bot d : P K} (hS : SortedP (S' ++ [top]))
    (hFc : SortedP (top :: Fc)) (hO : SortedP (d :: F')) (q : P K)
    (hu : InPoly c (S' ++ top :: d :: []) (bot :: d :: F') q) : ¬ InPoly c (top :: Fc) (top :: d :: F') q := by
  rintro ⟨hp1, hp2⟩
  have hqt := chainIn_lower c top Fc q hFc hp1
  have h1 := hu.1
  rw [chainIn_append] at h1
  rcases h1 with g | ⟨⟨_, hdq⟩, hin⟩ | g
  · exact not_after_of_afterEq hqt (chainIn_upper c _ q top hS (by simp) g)
  · rcases hp2 with ⟨_, hin'⟩ | g
    · rw [sg_not] at hin'; linarith
    · exact not_after_of_afterEq (chainIn_lower (!c) d F' q hO g) hdq
  · exact absurd g (chainIn_single c d q)

/-- **change of side, generalised**: `Fc` is whatever follows the stack's top on the stack's chain;
`hU`: a point of the diagonal's span that is strictly on the inner side of the diagonal `top → cur`
is on the inner side of that continuation -/
theorem fan_step_tiles0 (pos : Nat → P K) (c : Bool) (cur bot topv : MV K) (rest : List (MV K))
    (Fc F' : List (P K))
    (hgood : ∀ v ∈ topv :: rest, Good pos v) (hcur : Good pos cur)
    (hlast : (topv :: rest).getLast? = some bot)
    (hsort : ((topv :: rest).map (·.pos)).Pairwise (fun a b => After a b))
    (hcs : ∀ v ∈ topv :: rest, After cur.pos v.pos)
    (hside : ∀ v ∈ topv :: rest, v.pos = bot.pos ∨ 0 < sg c * wind bot.pos v.pos cur.pos)
    (hfan : FanPosT c cur.pos ((topv :: rest).map (·.pos)))
    (hFc : SortedP (topv.pos :: Fc)) (hO : SortedP (cur.pos :: F'))
    (hU : ∀ q, Span topv.pos cur.pos q → 0 < sg c * wind topv.pos cur.pos q → ChainIn c (topv.pos :: Fc) q) :
    Tiles0 (InPoly c (((topv :: rest).map (·.pos)).reverse ++ Fc) (bot.pos :: cur.pos :: F'))
      (TriIn pos) (fanTris cur (topv :: rest).reverse)
      (InPoly c (topv.pos :: Fc) (topv.pos :: cur.pos :: F')) := by
  have hdt : After cur.pos topv.pos := hcs topv (by simp)
  have t1 := Tiles0.ofTiles (fan_tiles pos c cur bot F' (topv :: rest) hgood hcur hlast hsort hcs hside hfan)
  have t2 := t1.reverse
  rw [← fanTris_reverse] at t2
  have eS : ((topv :: rest).map (·.pos)).reverse = (rest.map (·.pos)).reverse ++ [topv.pos] := by simp
  have hS : SortedP ((rest.map (·.pos)).reverse ++ [topv.pos]) := by
    rw [← eS]; exact sortedP_reverse _ hsort
  rw [eS, List.append_assoc] at t2 ⊢
  simp only [List.singleton_append] at t2 ⊢
  have t3 := t2.frame (InPoly c (topv.pos :: Fc) (topv.pos :: cur.pos :: F'))
    (split_apart0 c _ Fc F' hS hFc hO)
  have htb : topv.pos = bot.pos ∨ (After topv.pos bot.pos ∧ 0 < sg c * wind bot.pos topv.pos cur.pos) := by
    rcases hside topv (by simp) with e | e
    · exact Or.inl e
    · right
      refine ⟨?_, e⟩
      rcases last_le _ bot.pos hsort (by rw [List.getLast?_map, hlast]; rfl) topv.pos (by simp) with g | g
      · rw [g, wind_self_mid] at e; simp at e
      · exact g
  refine t3.rebase ?_ (fun q h => Or.inr h)
  rintro q (g | g)
  · -- the fan polygon is part of the remaining polygon
    refine ⟨?_, g.2⟩
    have h1 := g.1
    rw [chainIn_append] at h1 ⊢
    rcases h1 with h1 | ⟨hsp, hin⟩ | h1
    · exact Or.inl h1
    · exact Or.inr (hU q hsp hin)
    · exact absurd h1 (chainIn_single c _ q)
  · exact split_sub_P0 c _ Fc F' hdt htb q g

end Geometry

end Lyon.C02f
