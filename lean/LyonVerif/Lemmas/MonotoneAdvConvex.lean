/-
  C02 growth (`Props/C02c.lean`), part 11: convex chains.

  * `cross_trans_le` — on the sweep's half-plane of directions `u × v ≥ 0` is transitive;
  * `convex_global`  — a chain `q 0 … q (len−1)` that is strictly sorted in sweep order and locally
    convex on side `c` at every interior vertex (`sg c · wind(q i, q (i+1), q (i+2)) ≥ 0`: exactly
    what lyon's `outward_turn` test lets through) is globally convex: `sg c · wind(q a, q b, q c) ≥ 0`
    for all `a ≤ b ≤ c`;
  * `chainTri_nonneg` — hence every triangle `flush_side` emits for such a chain has `wind ≥ 0`.
-/
import LyonVerif.Lemmas.MonotoneGeomValid
import LyonVerif.Lemmas.MonotoneAdvPot

set_option linter.unusedSectionVars false
set_option linter.unusedVariables false
set_option linter.unusedSimpArgs false

namespace Lyon.C02c
open Lyon Lyon.Mono Lyon.C02

section Geometry
variable {K : Type} [Field K] [LinearOrder K] [IsStrictOrderedRing K]

theorem cross_trans_le {u v w : P K} (hu : Hv u) (hv : Hv v) (hw : Hv w)
    (h1 : 0 ≤ u.cross v) (h2 : 0 ≤ v.cross w) : 0 ≤ u.cross w := by
  simp only [geom] at h1 h2 ⊢
  have idy : (u.x * v.y - u.y * v.x) * w.y + (v.x * w.y - v.y * w.x) * u.y = (u.x * w.y - u.y * w.x) * v.y := by ring
  have huy : 0 ≤ u.y := by rcases hu with h | ⟨h, _⟩; exact le_of_lt h; exact le_of_eq h.symm
  have hwy : 0 ≤ w.y := by rcases hw with h | ⟨h, _⟩; exact le_of_lt h; exact le_of_eq h.symm
  rcases hv with hvy | ⟨hvy, hvx⟩
  · have hpos : 0 ≤ (u.x * w.y - u.y * w.x) * v.y := by
      rw [← idy]
      exact add_nonneg (mul_nonneg h1 hwy) (mul_nonneg h2 huy)
    by_contra hn
    have hn' := not_le.mp hn
    nlinarith
  · rw [hvy] at h1 h2
    have hu0 : u.y = 0 := by
      have : u.y * v.x ≤ 0 := by linarith
      have : u.y ≤ 0 := by
        by_contra hh
        have := mul_pos (not_le.mp hh) hvx
        linarith
      linarith
    rcases hu with h | ⟨_, hux⟩
    · rw [hu0] at h; exact absurd h (lt_irrefl _)
    · rw [hu0]
      have := mul_nonneg (le_of_lt hux) hwy
      linarith

theorem cross_add_right (a b c : P K) : a.cross (b + c) = a.cross b + a.cross c := by geom_ring
theorem cross_self (a : P K) : a.cross a = 0 := by geom_ring
theorem cross_anti (a b : P K) : a.cross b = -(b.cross a) := by geom_ring

/-- local convexity + strict sweep order ⟹ global convexity -/
theorem convex_global (c : Bool) (q : Nat → P K) (len : Nat)
    (hsort : ∀ i, i + 1 < len → After (q (i + 1)) (q i))
    (hconv : ∀ i, i + 2 < len → 0 ≤ sg c * wind (q i) (q (i + 1)) (q (i + 2))) :
    ∀ a b c', a ≤ b → b ≤ c' → c' < len → 0 ≤ sg c * wind (q a) (q b) (q c') := by
  have hd : ∀ i, i + 1 < len → Hv (q (i + 1) - q i) := fun i hi => after_hv (hsort i hi)
  have hloc : ∀ i, i + 2 < len → 0 ≤ sg c * (q (i + 2) - q (i + 1)).cross (q (i + 1) - q i) := by
    intro i hi
    have e : wind (q i) (q (i + 1)) (q (i + 2)) = (q (i + 2) - q (i + 1)).cross (q (i + 1) - q i) := by
      simp only [wind]; geom_ring
    rw [← e]; exact hconv i hi
  -- step 1: directions pairwise ordered
  have h1 : ∀ i n, i + n + 1 < len → 0 ≤ sg c * (q (i + n + 1) - q (i + n)).cross (q (i + 1) - q i) := by
    intro i n
    induction n with
    | zero => intro _; simp [cross_self]
    | succ n ih =>
      intro hlt
      have ih' := ih (by omega)
      have hl := hloc (i + n) (by omega)
      have hu := hd (i + n + 1) (by omega)
      have hv := hd (i + n) (by omega)
      have hw := hd i (by omega)
      rw [show i + (n + 1) + 1 = i + n + 1 + 1 by omega, show i + (n + 1) = i + n + 1 by omega]
      rw [show i + n + 2 = i + n + 1 + 1 by omega] at hl
      cases c
      · simp only [sg, Bool.false_eq_true, if_false, neg_one_mul] at ih' hl ⊢
        have a1 : 0 ≤ (q (i + 1) - q i).cross (q (i + n + 1) - q (i + n)) := by rw [cross_anti]; exact ih'
        have a2 : 0 ≤ (q (i + n + 1) - q (i + n)).cross (q (i + n + 1 + 1) - q (i + n + 1)) := by rw [cross_anti]; exact hl
        have := cross_trans_le hw hv hu a1 a2
        rw [cross_anti]; linarith
      · simp only [sg, if_true, one_mul] at ih' hl ⊢
        exact cross_trans_le hu hv hw hl ih'
  have h1' : ∀ i j, i ≤ j → j + 1 < len → 0 ≤ sg c * (q (j + 1) - q j).cross (q (i + 1) - q i) := by
    intro i j hij hj
    obtain ⟨n, rfl⟩ : ∃ n, j = i + n := ⟨j - i, by omega⟩
    exact h1 i n hj
  -- step 2: a later direction against a chord
  have h2 : ∀ a j, j + 1 < len → ∀ n, a + n ≤ j → 0 ≤ sg c * (q (j + 1) - q j).cross (q (a + n) - q a) := by
    intro a j hj n
    induction n with
    | zero => intro _; simp only [Nat.add_zero]; rw [show q a - q a = (⟨0, 0⟩ : P K) by geom_ring]; simp [geom]
    | succ n ih =>
      intro hle
      have e : q (a + (n + 1)) - q a = (q (a + n) - q a) + (q (a + n + 1) - q (a + n)) := by
        rw [show a + (n + 1) = a + n + 1 by omega]; geom_ring
      rw [e, cross_add_right, mul_add]
      exact add_nonneg (ih (by omega)) (h1' (a + n) j (by omega) hj)
  -- step 3
  intro a b c' hab hbc hc
  obtain ⟨n, rfl⟩ : ∃ n, b = a + n := ⟨b - a, by omega⟩
  obtain ⟨m, rfl⟩ : ∃ m, c' = a + n + m := ⟨c' - (a + n), by omega⟩
  clear hbc
  induction m with
  | zero =>
    have : wind (q a) (q (a + n)) (q (a + n + 0)) = 0 := by simp only [wind, Nat.add_zero]; geom_ring
    rw [this]; simp
  | succ m ih =>
    have ih' := ih (by omega)
    have e : wind (q a) (q (a + n)) (q (a + n + (m + 1))) =
        wind (q a) (q (a + n)) (q (a + n + m)) + (q (a + n + m + 1) - q (a + n + m)).cross (q (a + n) - q a) := by
      rw [show a + n + (m + 1) = a + n + m + 1 by omega]
      simp only [wind]; geom_ring
    rw [e, mul_add]
    exact add_nonneg ih' (h2 a (a + n + m) (by omega) n (by omega))

/-- every triangle of `flush_side` on a sorted, locally convex chain is non-negatively oriented -/
theorem chainTri_nonneg (pos : Nat → P K) (ev : List Nat) (right : Bool)
    (hsort : ∀ i, i + 1 < ev.length → After (evPos pos ev (i + 1)) (evPos pos ev i))
    (hconv : ∀ i, i + 2 < ev.length → 0 ≤ sg (!right) * wind (evPos pos ev i) (evPos pos ev (i + 1)) (evPos pos ev (i + 2)))
    (t : Tri) (ht : ChainTri ev.toArray ev.length right t) : 0 ≤ triW pos t := by
  obtain ⟨a, b, c, hab, hbc, hc, h⟩ := ht
  have g := convex_global (!right) (evPos pos ev) ev.length hsort hconv a b c (by omega) (by omega) hc
  have ge : ∀ i, pos (ev.toArray.getD i 0) = evPos pos ev i := by intro i; simp [evPos, List.getD_eq_getElem?_getD]
  cases right
  · simp only [Bool.false_eq_true, if_false] at h
    simp only [Bool.not_false, sg, if_true, one_mul] at g
    subst h
    simp only [triW, ge]; exact g
  · simp only [if_true] at h
    simp only [Bool.not_true, sg, Bool.false_eq_true, if_false, neg_one_mul] at g
    rcases h with h | h <;> subst h <;> simp only [triW, ge]
    · rw [wind_swap]; exact g
    · rw [wind_swap23]; exact g

end Geometry

end Lyon.C02c
