/-
  Index validity, the loop: `process_events`, `initialize_events` (the one step that emits a
  vertex: `Inv0 → Inv1'`, the new vertex becomes the current one), `tessellator_loop` (fuel
  induction; the bound `n` of the step lemmas is re-read from the state at every event:
  `lift_spec`), the conversion of a Hoare triple into a statement about `(m.run.run s).2`
  (`run_of_triple`: the state reached, whatever the outcome), the final flush of the spans
  left over, `tessellate_impl` and `tessellate`.
-/
import LyonVerif.Lemmas.SweepIdxRecover

set_option linter.unusedSectionVars false
set_option linter.unusedVariables false
set_option linter.unusedSimpArgs false
set_option mvcgen.warning false

namespace Lyon.SweepIdx
open Lyon Lyon.Scalar Lyon.Mono Lyon.Sweep Lyon.EQ
open Std.Do

variable {α : Type} [Scalar α] [Wide α]

theorem processEvents_spec (n : Nat) :
    ⦃fun s => ⌜Inv1 n s⌝⦄ (processEvents : SM α (Option IErr)) ⦃keeps n⦄ := by
  unfold processEvents
  strip_mdata
  have h1 := mark_spec (α := α) n
  have h2 := processEdgesAbove_spec (α := α) n
  have h3 := processEdgesBelow_spec (α := α) n
  have h4 := updateActiveEdges_spec (α := α) n
  mvcgen [h1, h2, h3, h4]
  all_goals inv_vc

/-- the invariant between events: `Inv` at the state's own vertex count -/
def Inv0 (s : St α) : Prop := Inv s.nverts s

/-- the invariant during an event -/
def Inv1' (s : St α) : Prop := Inv1 s.nverts s

theorem Inv1'.inv0 {s : St α} (h : Inv1' s) : Inv0 s := h.1

theorem Inv0.frame {s s' : St α} (h : Inv0 s) (h1 : s'.nverts = s.nverts) (h2 : s'.out = s.out)
    (h3 : s'.spans = s.spans) (h4 : s'.active = s.active) : Inv0 s' := by
  unfold Inv0 at h ⊢
  rw [h1]
  exact ⟨h1, h2 ▸ h.out, h4 ▸ h.active, h3 ▸ h.spans⟩

/-- `initialize_events`: one more vertex; it becomes the current vertex -/
theorem Inv0.push_vertex {s s' : St α} {pos : P α} {recs : List (P α × EdgeData α)} (h : Inv0 s)
    (h1 : s'.nverts = s.nverts + 1) (h2 : s'.out = s.out.push (.vertex pos recs))
    (h3 : s'.spans = s.spans) (h4 : s'.active = s.active) (h5 : s'.curVertex = s.nverts) : Inv1' s' := by
  unfold Inv0 at h
  unfold Inv1'
  rw [h1]
  refine ⟨⟨h1, h2 ▸ outOk_push_vertex h.out _ _, ?_, ?_⟩, by rw [h5]; exact Nat.lt_succ_self _⟩
  · intro e he
    rw [h4] at he
    exact Nat.lt_succ_of_lt (h.active e he)
  · intro t ht
    rw [h3] at ht
    exact (h.spans t ht).mono (Nat.le_succ _)

theorem initializeEvents_spec :
    ⦃fun s => ⌜Inv0 s⌝⦄ (initializeEvents : SM α Unit)
    ⦃post⟨fun _ s => ⌜Inv1' s⌝, fun _ s => ⌜Inv0 s⌝⟩⦄ := by
  unfold initializeEvents
  strip_mdata
  mvcgen
  · apply Inv0.frame
    case h => assumption
    all_goals rfl
  · apply Inv0.push_vertex
    case h => assumption
    all_goals rfl

/-- a step that keeps `Inv1 n` for every `n` keeps `Inv1'` -/
theorem lift_spec {β : Type} {x : SM α β} (h : ∀ n, ⦃fun s => ⌜Inv1 n s⌝⦄ x ⦃keeps n⦄) :
    ⦃fun s => ⌜Inv1' s⌝⦄ x ⦃post⟨fun _ s => ⌜Inv1' s⌝, fun _ s => ⌜Inv1' s⌝⟩⦄ := by
  intro s hs
  have h1 := h s.nverts s hs
  refine (wp x).mono _ _ ?_ s h1
  have key : ∀ s' : St α, Inv1 s.nverts s' → Inv1' s' := by
    intro s' h'
    unfold Inv1'
    rw [h'.1.nv]; exact h'
  exact ⟨fun a s' hs' => key s' hs', fun e s' hs' => key s' hs', trivial⟩

/-- between events / on exit -/
abbrev keeps0 {β : Type} : PostCond β (SMps α) := post⟨fun _ s => ⌜Inv0 s⌝, fun _ s => ⌜Inv0 s⌝⟩

theorem tessellatorLoop_spec : ∀ f : Nat,
    ⦃fun s => ⌜Inv0 s⌝⦄ (tessellatorLoop f : SM α Unit) ⦃keeps0⦄
  | 0 => by
    unfold tessellatorLoop
    mvcgen
  | f+1 => by
    have ih := tessellatorLoop_spec f
    have h1 := initializeEvents_spec (α := α)
    have h2 := lift_spec (processEvents_spec (α := α))
    have h3 := lift_spec (recoverFromError_spec (α := α))
    have h4 := lift_spec (fun n => mark_spec (α := α) n 1)
    unfold tessellatorLoop
    strip_mdata
    mvcgen [ih, h1, h2, h3, h4]
    all_goals first
      | assumption
      | exact Inv1'.inv0
      | exact Inv1'.inv0 (by assumption)
      | (apply Inv0.frame
         case h => exact Inv1'.inv0 (by assumption)
         all_goals rfl)


/-- a triple with one assertion `I` for success and failure says: the final state of a run from a
state satisfying the precondition satisfies `I`, whatever the outcome -/
theorem run_of_triple {β : Type} {x : SM α β} {P I : St α → Prop}
    (h : ⦃fun s => ⌜P s⌝⦄ x ⦃post⟨fun _ s => ⌜I s⌝, fun _ s => ⌜I s⌝⟩⦄) (s : St α) (hs : P s) :
    I (x.run.run s).2 := by
  have h1 := h s hs
  have h2 : (wp⟦(x.run.run s : Id (Except Fail β × St α))⟧ (PostCond.noThrow fun r => ⌜I r.2⌝)).down := by
    rw [WP.StateT_run, WP.ExceptT_run]
    exact h1
  exact h2

/-- the loop, as a statement about the run: from a state satisfying `Inv0` the final state
satisfies `Inv0` whatever the outcome (`ok`, `err`, `panic`, `unmodelled`, `fuel`) -/
theorem tessellatorLoop_run (f : Nat) (s0 : St α) (h0 : Inv0 s0) :
    Inv0 ((tessellatorLoop f).run.run s0).2 :=
  run_of_triple (tessellatorLoop_spec f) s0 h0

/-- the flush of the spans left over when the loop returned `Ok` -/
theorem flush_spans_ok {n : Nat} (spans : List (Option (Adv α))) (hs : ∀ t, some t ∈ spans → AdvOk n t) :
    ∀ (out : Array (Emit α)), OutOk out n →
      OutOk (spans.foldl (fun o sp =>
        match sp with
        | some t => t.tess.tris.foldl (fun o t => o.push (.tri t.1 t.2.1 t.2.2)) o
        | none => o) out) n := by
  induction spans with
  | nil => intro out h; exact h
  | cons sp rest ih =>
    intro out h
    simp only [List.foldl_cons]
    apply ih (fun t ht => hs t (List.mem_cons_of_mem _ ht))
    cases sp with
    | none => exact h
    | some t => exact outOk_push_tris h _ (hs t (by simp)).tess.tris

/-- the tail of `tessellate_impl` (same expression as in the model) from any start state -/
theorem finish_outOk (N : Nat) (s0 : St α) (h0 : Inv0 s0) :
    ∃ n, OutOk
      (let r := (tessellatorLoop N).run.run s0
       (match r.1 with
        | .error f => ((some f, r.2.out, r.2.cov) : Option Fail × Array (Emit α) × Nat)
        | .ok _ =>
          let out := r.2.spans.foldl (fun (o : Array (Emit α)) (sp : Option (Adv α)) =>
            match sp with
            | some t => t.tess.tris.foldl (fun (o : Array (Emit α)) (t : Mono.Tri) => o.push (.tri t.1 t.2.1 t.2.2)) o
            | none => o) r.2.out
          (none, out, if out.size == r.2.out.size then r.2.cov else r.2.cov ||| (1 <<< 22)))).2.1 n := by
  have h1 := tessellatorLoop_run N s0 h0
  dsimp only
  generalize ((tessellatorLoop N).run.run s0) = r at h1
  obtain ⟨res, s1⟩ := r
  cases res with
  | error f => exact ⟨s1.nverts, h1.out⟩
  | ok u =>
    refine ⟨s1.nverts, ?_⟩
    dsimp only
    rw [← Array.foldl_toList]
    exact flush_spans_ok s1.spans.toList (fun t ht => h1.spans t (Array.mem_toList_iff.mp ht)) _ h1.out

theorem tessellateImpl_outOk (q : Queue α) (rule : Slab.Rule) (horizontal : Bool) (tol : α) (handleIx : Bool) :
    ∃ n, OutOk (tessellateImpl q rule horizontal tol handleIx).2.1 n := by
  unfold tessellateImpl
  split
  · exact ⟨0, outOk_empty⟩
  · apply finish_outOk
    exact ⟨rfl, outOk_empty, by intro e he; simp at he, by intro t ht; simp at ht⟩

theorem tessellate_outOk (entry : Entry) (rule : Slab.Rule) (horizontal : Bool) (tol : α) (handleIx : Bool)
    (subs : List (SubPath α)) : ∃ n, OutOk (tessellate entry rule horizontal tol handleIx subs).2.1 n := by
  unfold tessellate
  dsimp only
  split
  · exact ⟨0, outOk_empty⟩
  · exact tessellateImpl_outOk _ _ _ _ _
