/-
  C02 growth 4 (`Props/C02g.lean`), part 11: cutting the chain polygon of a buffered chain off a
  region (`chain_fan_tiles0`): the chain `h :: TC' ++ [last]` is an infix of the region's chain on
  side `c`; after the cut it is replaced by its chord `h → last`.  The other side of the region is
  an arbitrary predicate `Op` that contains the chain polygon.  Plus the list facts that locate a
  buffered chain inside the polygon's chain of its side (`fullchain_split`).
-/
import LyonVerif.Lemmas.MonotoneTileAdvSetGen

set_option linter.unusedSectionVars false
set_option linter.unusedVariables false
set_option linter.unusedSimpArgs false

namespace Lyon.C02f
open Lyon Lyon.Mono Lyon.C02 Lyon.C02c

section Geometry
variable {K : Type} [Field K] [LinearOrder K] [IsStrictOrderedRing K]

/-- a chain `A ++ h :: M ++ last :: B` splits into the part up to `h`, the middle chain, the part from `last` -/
theorem chainIn_three (c : Bool) (A M B : List (P K)) (h last q : P K) :
    ChainIn c (A ++ h :: M ++ last :: B) q ↔
      ChainIn c (A ++ [h]) q ∨ ChainIn c (h :: M ++ [last]) q ∨ ChainIn c (last :: B) q := by
  rw [show A ++ h :: M ++ last :: B = A ++ h :: (M ++ last :: B) by simp, chainIn_append c A h (M ++ last :: B) q]
  rw [show h :: (M ++ last :: B) = (h :: M) ++ last :: B by simp, chainIn_append c (h :: M) last B q]

theorem chainIn_chord (c : Bool) (A B : List (P K)) (h last q : P K) :
    ChainIn c (A ++ h :: last :: B) q ↔
      ChainIn c (A ++ [h]) q ∨ (Span h last q ∧ 0 < sg c * wind h last q) ∨ ChainIn c (last :: B) q := by
  rw [chainIn_append c A h (last :: B) q]
  rfl

/-- **the chain polygon cut off a region** -/
theorem chain_fan_tiles0 {T : Type} (c : Bool) (A M B : List (P K)) (h last : P K) (Op : P K → Prop)
    (I : T → P K → Prop) (ts : List T)
    (hfan : Tiles0 (InPoly c (h :: M ++ [last]) [h, last]) I ts (fun _ => False))
    (hA : SortedP (A ++ [h])) (hB : SortedP (last :: B)) (hE : SortedP (h :: M ++ [last]))
    (hlh : After last h) (hconv : ∀ v ∈ h :: M ++ [last], 0 ≤ sg c * wind h v last)
    (hCP : ∀ q, InPoly c (h :: M ++ [last]) [h, last] q → Op q) :
    Tiles0 (fun q => ChainIn c (A ++ h :: M ++ last :: B) q ∧ Op q) I ts
      (fun q => ChainIn c (A ++ h :: last :: B) q ∧ Op q) := by
  have hspan : ∀ q, InPoly c (h :: M ++ [last]) [h, last] q → Span h last q ∧ 0 < sg (!c) * wind h last q := by
    rintro q ⟨_, g | g⟩
    · exact g
    · exact absurd g (chainIn_single _ _ q)
  have t1 := hfan.frame (fun q => ChainIn c (A ++ h :: last :: B) q ∧ Op q) (by
    intro q hq ⟨h1, _⟩
    obtain ⟨⟨hqh, hlq⟩, hin⟩ := hspan q hq
    rcases (chainIn_chord c A B h last q).mp h1 with g | ⟨_, g⟩ | g
    · exact not_after_of_afterEq hqh (chainIn_upper c _ q h hA (by simp) g)
    · rw [sg_not] at hin; linarith
    · exact not_after_of_afterEq (chainIn_lower c last B q hB g) hlq)
  refine t1.rebase ?_ (fun q hq => Or.inr hq)
  rintro q (g | ⟨h1, h2⟩)
  · exact ⟨(chainIn_three c A M B h last q).mpr (Or.inr (Or.inl g.1)), hCP q g⟩
  · refine ⟨?_, h2⟩
    rcases (chainIn_chord c A B h last q).mp h1 with g | ⟨⟨hqh, hlq⟩, hin⟩ | g
    · exact (chainIn_three c A M B h last q).mpr (Or.inl g)
    · refine (chainIn_three c A M B h last q).mpr (Or.inr (Or.inl ?_))
      exact chain_side c hlh hin (h :: M ++ [last]) h last hE rfl (List.getLast?_concat) hconv hqh hlq
    · exact (chainIn_three c A M B h last q).mpr (Or.inr (Or.inr g))

/-- a point of a sorted chain `Pre ++ b :: Rest` at or after `b` is spanned by the part from `b` on -/
theorem chainIn_suffix (c : Bool) (Pre Rest : List (P K)) (b q : P K) (hs : SortedP (Pre ++ [b])) (hq : AfterEq q b)
    (h : ChainIn c (Pre ++ b :: Rest) q) : ChainIn c (b :: Rest) q := by
  rcases (chainIn_append c Pre b Rest q).mp h with g | g
  · exact absurd (chainIn_upper c _ q b hs (by simp) g) (not_after_of_afterEq hq)
  · exact g

/-- two strictly increasing lists with the same members are equal -/
theorem sorted_ext : ∀ (l1 l2 : List Nat), l1.Pairwise (· < ·) → l2.Pairwise (· < ·) → (∀ x, x ∈ l1 ↔ x ∈ l2) → l1 = l2
  | [], [], _, _, _ => rfl
  | [], b :: r, _, _, h => by have := (h b).mpr (by simp); simp at this
  | a :: r, [], _, _, h => by have := (h a).mp (by simp); simp at this
  | a :: r1, b :: r2, h1, h2, h => by
    have hab : a = b := by
      have ha := (h a).mp (by simp)
      have hb := (h b).mpr (by simp)
      rcases List.mem_cons.mp ha with e | e
      · exact e
      · rcases List.mem_cons.mp hb with e' | e'
        · exact e'.symm
        · have := List.rel_of_pairwise_cons h2 e
          have := List.rel_of_pairwise_cons h1 e'
          omega
    subst hab
    congr 1
    refine sorted_ext r1 r2 (List.Pairwise.of_cons h1) (List.Pairwise.of_cons h2) ?_
    intro x
    constructor
    · intro hx
      have := (h x).mp (List.mem_cons_of_mem _ hx)
      rcases List.mem_cons.mp this with e | e
      · have := List.rel_of_pairwise_cons h1 hx; omega
      · exact e
    · intro hx
      have := (h x).mpr (List.mem_cons_of_mem _ hx)
      rcases List.mem_cons.mp this with e | e
      · have := List.rel_of_pairwise_cons h2 hx; omega
      · exact e

variable (seq : List (P K × Bool)) (τ : Bool)

/-- membership in the future chain -/
theorem mem_futIds (n : Nat) : ∀ k, k < seq.length → seq.length - k = n → ∀ x,
    x ∈ futIds seq τ k ↔ (k ≤ x ∧ x + 1 < seq.length ∧ sideAt seq x = τ) ∨ x + 1 = seq.length := by
  induction n with
  | zero => intro k hk hn; omega
  | succ n ih =>
    intro k hk hn x
    by_cases hl : k + 1 = seq.length
    · rw [futIds_last seq τ hl, List.mem_singleton]
      constructor
      · intro e; right; omega
      · rintro (⟨h1, h2, _⟩ | h); omega; omega
    · have hk1 : k + 1 < seq.length := by omega
      have ih' := ih (k + 1) hk1 (by omega) x
      rw [futIds_step seq τ hk1]
      split
      · rename_i hs
        rw [List.mem_cons, ih']
        constructor
        · rintro (e | ⟨h1, h2, h3⟩ | h)
          · left; rw [e]; exact ⟨le_refl _, hk1, hs⟩
          · left; exact ⟨by omega, h2, h3⟩
          · right; exact h
        · rintro (⟨h1, h2, h3⟩ | h)
          · by_cases e : x = k
            · left; exact e
            · right; left; exact ⟨by omega, h2, h3⟩
          · right; right; exact h
      · rename_i hs
        rw [ih']
        constructor
        · rintro (⟨h1, h2, h3⟩ | h)
          · left; exact ⟨by omega, h2, h3⟩
          · right; exact h
        · rintro (⟨h1, h2, h3⟩ | h)
          · left
            refine ⟨?_, h2, h3⟩
            by_contra hn'
            have : x = k := by omega
            rw [this] at h3; exact hs h3
          · right; exact h

theorem futIds_sorted (k : Nat) (hk : k < seq.length) : (futIds seq τ k).Pairwise (· < ·) := by
  obtain ⟨f, rest, e, _, _, _, _, h5, h6⟩ := futIds_head seq τ _ k hk rfl
  rw [e]
  exact List.Pairwise.cons (fun j hj => (h5 j hj).1) h6

/-- **a buffered chain inside the polygon's chain of its side**: everything before the chain's head,
the chain, the not yet fed part -/
theorem fullchain_split {l : Bool} {k : Nat} {s : SideEv K} (hc : SideChain seq l k s) (hk : k + 1 ≤ seq.length)
    (h2 : 2 ≤ seq.length) (hk1 : 1 ≤ k) :
    ∃ Pre, (0 :: futIds seq l 1) = Pre ++ s.events ++ futIds seq l k ∧ (∀ x ∈ Pre, x < headId s) ∧
      Pre.Pairwise (· < ·) := by
  have hfull : (0 :: futIds seq l 1).Pairwise (· < ·) := by
    obtain ⟨f, rest, e, h1, _, _, _, h5, h6⟩ := futIds_head seq l _ 1 (by omega) rfl
    rw [e]
    refine List.Pairwise.cons ?_ (List.Pairwise.cons (fun j hj => (h5 j hj).1) h6)
    intro j hj
    rcases List.mem_cons.mp hj with g | g
    · omega
    · have := (h5 j g).1; omega
  have hmemfull : ∀ x, x ∈ (0 :: futIds seq l 1) ↔ x = 0 ∨ (1 ≤ x ∧ x + 1 < seq.length ∧ sideAt seq x = l) ∨ x + 1 = seq.length := by
    intro x
    rw [List.mem_cons, mem_futIds seq l _ 1 (by omega) rfl x]
  have hmemk : ∀ x, x ∈ futIds seq l k ↔ (k ≤ x ∧ x + 1 < seq.length ∧ sideAt seq x = l) ∨ x + 1 = seq.length :=
    mem_futIds seq l _ k (by omega) rfl
  have hev : ∀ x, x ∈ s.events ↔ x = headId s ∨ (headId s < x ∧ x < k ∧ sideAt seq x = l) := by
    intro x
    constructor
    · intro hx
      rw [hc.head_mem seq] at hx
      rcases List.mem_cons.mp hx with g | g
      · exact Or.inl g
      · right
        have hinc := hc.inc
        rw [hc.head_mem seq] at hinc
        exact ⟨List.rel_of_pairwise_cons hinc g, hc.lt x (List.mem_of_mem_tail g), hc.side x g⟩
    · rintro (g | ⟨g1, g2, g3⟩)
      · rw [g, hc.head_mem seq]; simp
      · exact hc.complete x g1 g2 g3
  have hhk : headId s < k := hc.lt _ (by rw [hc.head_mem seq]; simp)
  refine ⟨(0 :: futIds seq l 1).filter (fun x => decide (x < headId s)), ?_, ?_, ?_⟩
  · apply sorted_ext _ _ hfull
    · rw [List.pairwise_append, List.pairwise_append]
      refine ⟨⟨hfull.sublist List.filter_sublist, hc.inc, ?_⟩, futIds_sorted seq l k (by omega), ?_⟩
      · intro a ha b hb
        have := (List.mem_filter.mp ha).2
        simp only [decide_eq_true_eq] at this
        rcases (hev b).mp hb with g | g <;> omega
      · intro a ha b hb
        have hb' := (hmemk b).mp hb
        rcases List.mem_append.mp ha with g | g
        · have := (List.mem_filter.mp g).2
          simp only [decide_eq_true_eq] at this
          rcases hb' with g' | g' <;> omega
        · have := hc.lt a g
          rcases hb' with g' | g' <;> omega
    · intro x
      rw [hmemfull, List.mem_append, List.mem_append, List.mem_filter, hmemfull, hev, hmemk]
      simp only [decide_eq_true_eq]
      have hh0 := hc.hside
      constructor
      · intro hx
        by_cases c1 : x < headId s
        · exact Or.inl (Or.inl ⟨hx, c1⟩)
        · by_cases c2 : x = headId s
          · exact Or.inl (Or.inr (Or.inl c2))
          · by_cases c3 : x < k
            · rcases hx with g | ⟨g1, g2, g3⟩ | g
              · omega
              · exact Or.inl (Or.inr (Or.inr ⟨by omega, c3, g3⟩))
              · omega
            · rcases hx with g | ⟨g1, g2, g3⟩ | g
              · omega
              · exact Or.inr (Or.inl ⟨by omega, g2, g3⟩)
              · exact Or.inr (Or.inr g)
      · rintro ((⟨hx, _⟩ | g | ⟨g1, g2, g3⟩) | ⟨g1, g2, g3⟩ | g)
        · exact hx
        · by_cases e0 : headId s = 0
          · left; omega
          · rcases hh0 with z | z
            · exact absurd z e0
            · right; left; rw [g]; exact ⟨by omega, by omega, z⟩
        · right; left; exact ⟨by omega, by omega, g3⟩
        · right; left; exact ⟨by omega, g2, g3⟩
        · right; right; exact g
  · intro x hx
    have := (List.mem_filter.mp hx).2
    simpa using this
  · exact hfull.sublist List.filter_sublist

end Geometry

end Lyon.C02f
