/-
  C02 growth 3 (`Props/C02f.lean`), part 13: `Adv.vertex` and `Adv.end_` under the invariant `Y3`
  (`vertex_y`, `end_y`): on a valid sweep sequence whose buffered chains are chord-clear the
  potential `PhiA` grows by exactly the triangle `(lastLeft, p, lastRight)` per vertex and `end`
  closes the polygon without excess.
-/
import LyonVerif.Lemmas.MonotoneTileAdvStep

set_option linter.unusedSectionVars false
set_option linter.unusedVariables false
set_option linter.unusedSimpArgs false

namespace Lyon.C02f
open Lyon Lyon.Mono Lyon.C02 Lyon.C02c

section Geometry
variable {K : Type} [Field K] [LinearOrder K] [IsStrictOrderedRing K]

variable (seq : List (P K × Bool))

theorem Y3.congr {l : Bool} {k : Nat} {tess : Basic K} {a b a' b' : SideEv K} (h : Y3 seq l k tess a b)
    (hae : a'.events = a.events) (hal : a'.last = a.last) (hbe : b'.events = b.events) (hbl : b'.last = b.last) :
    Y3 seq l k tess a' b' :=
  { p3 := by rw [hae, hal, hbe, hbl]; exact h.p3
    tinv := by simp only [headId, hae, hbe]; exact h.tinv
    ca := h.ca.congr seq hae hal
    cb := h.cb.congr seq hbe hbl
    oab := by simp only [headId, hae, hal, hbe]; exact h.oab
    oba := by simp only [headId, hae, hbl, hbe]; exact h.oba }

theorem Y3.pushTris {l : Bool} {k : Nat} {tess : Basic K} {a b : SideEv K} (h : Y3 seq l k tess a b)
    (tr : List Tri) : Y3 seq l k (tess.pushTris tr) a b :=
  { p3 := (pushTris_pot h.p3 tr).1, tinv := h.tinv.pushTris seq tr, ca := h.ca, cb := h.cb, oab := h.oab, oba := h.oba }

/-- invariant on a whole `Adv` state with `k` vertices fed -/
def YA (k : Nat) (st : Adv K) : Prop := Y3 seq true k st.tess st.left st.right

/-- both buffered chains are chord-clear -/
def ChordClearA (st : Adv K) : Prop := ChordClear seq true st.left ∧ ChordClear seq false st.right

theorem begin_y (p0 : P K) (h0 : posOf seq 0 = p0) (hn : 0 < seq.length) : YA seq 1 (Adv.begin Adv.new p0 0) := by
  have hp := (begin_pa (posOf seq) (Adv.new (α := K)) p0 h0).1
  have hv := begin_vInv seq p0 h0
  have hc : ∀ l : Bool, SideChain seq l 1 (⟨p0, p0.x, [0], (Adv.new (α := K)).left.last.pos, ⟨p0, 0, l⟩⟩ : SideEv K) := by
    intro l
    exact { ne := by simp, last := rfl, good := h0.symm, inc := by simp, lt := by simp, side := by simp,
            hside := Or.inl rfl, complete := fun j h1 h2 _ => by simp only [headId, List.headD_cons] at h1; omega }
  refine { p3 := hp, tinv := ?_, ca := hc true, cb := hc false, oab := ?_, oba := ?_ }
  · refine { top := ⟨[], rfl⟩, good := hv.good, dec := by simp [Adv.begin, Basic.begin], lt := ?_, heads := ?_,
             sides := ?_, reflex := by simp [Adv.begin, Basic.begin, ReflexT] }
    · intro v hv'
      simp only [Adv.begin, Basic.begin, List.mem_singleton] at hv'
      rw [hv']; exact hn
    · intro bot hb
      simp only [Adv.begin, Basic.begin, List.getLast?_singleton, Option.some.injEq] at hb
      subst hb
      exact ⟨fun _ => ⟨rfl, rfl⟩, fun e => absurd rfl e⟩
    · intro bot hb v hv' hne
      simp only [Adv.begin, Basic.begin, List.getLast?_singleton, Option.some.injEq] at hb
      simp only [Adv.begin, Basic.begin, List.mem_singleton] at hv'
      subst hb
      rw [hv'] at hne
      exact absurd rfl hne
  · intro h2; simp [Adv.begin] at h2
  · intro h2; simp [Adv.begin] at h2

/-- **`Adv.vertex`** -/
theorem vertex_y (hval : SweepValid seq) (st : Adv K) (p : P K) (k : Nat) (l : Bool) (hk : k + 1 < seq.length)
    (h : YA seq k st) (hp : posOf seq k = p) (hs : sideAt seq k = l) (hc : ChordClearA seq st) :
    YA seq (k + 1) (st.vertex p k l) ∧
      PhiA (posOf seq) (st.vertex p k l) ≤ PhiA (posOf seq) st + wind st.left.last.pos p st.right.last.pos := by
  rw [vertex_eq]
  cases l
  · have hu : Y3 seq false k (updRef st p false).tess (updRef st p false).right (updRef st p false).left :=
      (Y3.symm seq h).congr seq rfl rfl rfl rfl
    obtain ⟨s1, s2⟩ := stepSides_y seq hval _ _ _
      ((updRef st p false).right.consRefX - (updRef st p false).left.consRefX) p false k hk hu hp hs
      (hc.2.congr seq rfl rfl) (by rw [Bool.not_false]; exact hc.1.congr seq rfl rfl)
    refine ⟨?_, ?_⟩
    · have := Y3.symm seq s1
      simp only [Bool.not_false] at this
      exact this
    · have e : PhiA (posOf seq) st = Phi3 (posOf seq) false ((updRef st p false).tess, (updRef st p false).right, (updRef st p false).left) := by
        simp only [PhiA, Phi3]
        exact (Phi_symm (posOf seq) st.tess true st.left.events st.right.events st.left.last.pos st.right.last.pos).symm
      rw [e]
      simp only [vertex', Bool.false_eq_true, if_false, PhiA, Phi3]
      have e2 := Phi_symm (posOf seq)
        (stepSides (updRef st p false).tess (updRef st p false).right (updRef st p false).left
          ((updRef st p false).right.consRefX - (updRef st p false).left.consRefX) p k false).1 true
        (stepSides (updRef st p false).tess (updRef st p false).right (updRef st p false).left
          ((updRef st p false).right.consRefX - (updRef st p false).left.consRefX) p k false).2.2.events
        (stepSides (updRef st p false).tess (updRef st p false).right (updRef st p false).left
          ((updRef st p false).right.consRefX - (updRef st p false).left.consRefX) p k false).2.1.events
        (stepSides (updRef st p false).tess (updRef st p false).right (updRef st p false).left
          ((updRef st p false).right.consRefX - (updRef st p false).left.consRefX) p k false).2.2.last.pos
        (stepSides (updRef st p false).tess (updRef st p false).right (updRef st p false).left
          ((updRef st p false).right.consRefX - (updRef st p false).left.consRefX) p k false).2.1.last.pos
      simp only [Bool.not_true] at e2
      rw [← e2]
      simp only [Phi3, outL, outR, Bool.false_eq_true, if_false] at s2
      exact s2
  · have hu : Y3 seq true k (updRef st p true).tess (updRef st p true).left (updRef st p true).right :=
      Y3.congr seq h rfl rfl rfl rfl
    obtain ⟨s1, s2⟩ := stepSides_y seq hval _ _ _
      ((updRef st p true).right.consRefX - (updRef st p true).left.consRefX) p true k hk hu hp hs
      (hc.1.congr seq rfl rfl) (by rw [Bool.not_true]; exact hc.2.congr seq rfl rfl)
    refine ⟨s1, ?_⟩
    simp only [outL, outR, if_true] at s2
    exact s2

/-! ## `end` -/

/-- the fan over the inner stack from a vertex `v` that comes after it is canonical when the
stack's vertices above the bottom lie weakly on the stack's side of `bot → v` -/
theorem fan_canon (hval : SweepValid seq) (tess : Basic K) (l : Bool) (ha hb : Nat) (h : TInv seq tess l ha hb)
    (bot : MV K) (hb0 : tess.stack.getLast? = some bot) (v : MV K) (hv : Good (posOf seq) v)
    (hvn : v.id < seq.length) (hgt : tess.previous.id < v.id)
    (hside : ∀ w ∈ tess.stack, bot.id < w.id → 0 ≤ sg tess.previous.left * wind bot.pos w.pos v.pos) :
    FanCanon tess.previous.left v.pos (tess.stack.reverse.map (·.pos)) := by
  have hbmem : bot ∈ tess.stack := List.mem_of_getLast? hb0
  have hle := h.le_prev seq
  rw [List.map_reverse]
  apply fanLeT_canon
  have hlo := pairwise_last tess.stack bot h.dec hb0
  apply fanPos_le tess.previous.left v.pos bot.pos
  · rw [List.getLast?_map, hb0]; rfl
  · intro y hy
    obtain ⟨w, hw, rfl⟩ := List.mem_map.mp hy
    rcases hlo w hw with e | e
    · left
      show w.pos = bot.pos
      rw [h.good w hw, h.good bot hbmem, e]
    · exact Or.inr (hside w hw e)
  · rw [List.pairwise_map]
    refine h.dec.imp_of_mem ?_
    intro a b ha' hb' hlt
    rw [h.good a ha', h.good b hb']
    exact valid_after hval hlt (h.lt a ha')
  · intro y hy
    obtain ⟨w, hw, rfl⟩ := List.mem_map.mp hy
    show After v.pos w.pos
    rw [h.good w hw, hv]
    exact valid_after hval (by have := hle w hw; omega) hvn
  · exact h.reflex

theorem end_noflip_aux (hval : SweepValid seq) {l : Bool} {k : Nat} {tess : Basic K} {a b : SideEv K}
    (hk : k + 1 = seq.length) (h : Y3 seq l k tess a b) (ha1 : a.events.length < 2) (hb1 : b.events.length < 2)
    (hside : tess.previous.left = l) :
    NoFlip tess ⟨posOf seq k, k, !tess.previous.left⟩ := by
  right
  obtain ⟨rest, hst⟩ := h.tinv.top
  have hne0 : tess.stack ≠ [] := by rw [hst]; simp
  have hb0 : tess.stack.getLast? = some (tess.stack.getLast hne0) := List.getLast?_eq_some_getLast hne0
  generalize tess.stack.getLast hne0 = bot at hb0
  have hbmem : bot ∈ tess.stack := List.mem_of_getLast? hb0
  obtain ⟨hpid, hbid⟩ := (h.tinv.heads bot hb0).1 hside
  obtain ⟨hbe, hbh⟩ := h.cb.single_head seq hb1
  have hak : headId a < k := h.ca.lt _ (by rw [h.ca.head_mem seq]; simp)
  have hbk : headId b < k := h.cb.lt _ (by rw [h.cb.head_mem seq]; simp)
  have hle := h.tinv.le_prev seq
  have hrb : RunBetween seq tess.previous.left bot.id k := by
    refine ⟨?_, ?_, Or.inl hk⟩
    · intro j hj1 hj2
      by_contra hne
      have hsl : sideAt seq j = !l := by rw [hside] at hne; revert hne; cases sideAt seq j <;> cases l <;> simp
      have := h.cb.complete j (by omega) hj1 hsl
      rw [hbe, List.mem_singleton] at this
      omega
    · rw [hbid, hside]
      exact h.cb.hside
  apply fan_canon seq hval tess l _ _ h.tinv bot hb0 ⟨posOf seq k, k, !tess.previous.left⟩ rfl (by simp only; omega)
    (by simp only; omega)
  intro w hw hlt
  have := hval.2 k (by omega) bot.id (by omega) tess.previous.left hrb w.id (by have := hle w hw; omega) hlt
  rw [onSide_iff] at this
  rw [h.tinv.good bot hbmem, h.tinv.good w hw]
  exact this.le

/-- `end` of the inner tessellator does not flip once both chains are flushed -/
theorem end_noflip (hval : SweepValid seq) {l : Bool} {k : Nat} {tess : Basic K} {a b : SideEv K}
    (hk : k + 1 = seq.length) (h : Y3 seq l k tess a b) (ha1 : a.events.length < 2) (hb1 : b.events.length < 2) :
    NoFlip tess ⟨posOf seq k, k, !tess.previous.left⟩ := by
  by_cases hside : tess.previous.left = l
  · exact end_noflip_aux seq hval hk h ha1 hb1 hside
  · exact end_noflip_aux seq hval hk (Y3.symm seq h) hb1 ha1 (bool_ne_not hside)

/-- nothing pending on either side and no flip at `end`: the inner `end` closes the polygon exactly -/
theorem finish_le {pos : Nat → P K} {tess : Basic K} {ea eb : List Nat} {la lb : MV K}
    (h : PInvL pos tess true ea la eb lb) (ha : ea.length < 2) (hb : eb.length < 2) (pe : P K) (ide : Nat)
    (hpe : pos ide = pe) (hnf : NoFlip tess ⟨pe, ide, !tess.previous.left⟩) :
    sumW pos (tess.end_ pe ide).tris ≤ Phi pos tess true ea la.pos eb lb.pos + wind la.pos pe lb.pos := by
  have e1 := singleton_of_short ea la.id h.nea ha h.lasta
  have e2 := singleton_of_short eb lb.id h.neb hb h.lastb
  have g1 : evPos pos [la.id] 0 = la.pos := by simp [evPos]; exact h.gooda.symm
  have g2 : evPos pos [lb.id] 0 = lb.pos := by simp [evPos]; exact h.goodb.symm
  have ha' := h.heada
  have hb' := h.headb
  rw [e1, g1] at ha'
  rw [e2, g2] at hb'
  simp only [if_true] at ha' hb'
  have hf := (feed_area pos [] tess 0 pe ide (by intro i hi; simp at hi) hpe h.binv).2 hnf
  simp only [feed, polyAcc] at hf
  rw [← ha', ← hb'] at hf
  simp only [Phi, e1, e2, chainPoly_single, g1, g2, quad, E_self, sg, if_true]
  rw [E_anti la.pos lb.pos]
  linarith

/-- forwarding the end of chain `a` (≥ 2 ids) to the inner tessellator -/
theorem fwd_y (hval : SweepValid seq) {l : Bool} {k : Nat} {tess : Basic K} {a b : SideEv K}
    (hk : k ≤ seq.length) (h : Y3 seq l k tess a b) (hl : 2 ≤ a.events.length) (hca : ChordClear seq l a)
    (hord : 2 ≤ b.events.length → a.last.id < b.last.id) (a' : SideEv K) (he : a'.events = [a.last.id])
    (hla : a'.last = a.last) :
    Y3 seq l k (tess.vertex a.last) a' b ∧
      Phi (posOf seq) (tess.vertex a.last) l [a.last.id] a.last.pos b.events b.last.pos + sg l * chainPoly (posOf seq) a.events ≤
        Phi (posOf seq) tess l a.events a.last.pos b.events b.last.pos := by
  obtain ⟨hm, hhl⟩ := h.ca.last_tail seq hl
  have han : a.last.id < seq.length := by have := h.ca.lt _ (h.ca.last_mem seq); omega
  have hchord := chord_of_chain seq hval h.ca hk hl hca
  obtain ⟨t1, nf⟩ := fwd_tinv seq hval tess l (headId a) (headId b) a.last h.tinv h.ca.good h.p3.sidea
    (h.ca.side _ hm) han hhl (h.oab hl) (fun _ => hchord)
  have hha : headId a' = a.last.id := by simp [headId, he]
  refine ⟨?_, fwd_le h.p3 nf⟩
  exact { p3 := by rw [he, hla]; exact (fwd_pot h.p3).1
          tinv := by rw [hha]; exact t1
          ca := h.ca.restart seq hl he hla
          cb := h.cb
          oab := fun h2 => by rw [he] at h2; simp at h2
          oba := fun h2 => by rw [hha, ← hla]; rw [hla]; exact hord h2 }

end Geometry

end Lyon.C02f
