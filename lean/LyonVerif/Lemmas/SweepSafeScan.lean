/-
  NO-PANIC, part 1: what a successful `scan_active_edges` guarantees (`ScanOk`).

  `scanActiveEdges` is a pure function `St α → Except IErr Scan` with two `for` loops (edges before the
  current point; edges connecting with it).  The facts below are what the later steps
  (`process_edges_above`, `process_edges_below`, `update_active_edges`) need in order not to index
  out of range, not to underflow `above_start - 1` and not to splice an inverted range.  They hold
  for EVERY scalar type (no order law is used), except `merge_room`, which needs the two
  "the current point is on this edge" tests of the scan to agree on the first connecting edge
  (`HorizAgree`, a theorem over ordered fields, `Lemmas/SweepSafeField.lean`).
-/
import Std.Do
import Std.Tactic.Do
import LyonVerif.Lemmas.SweepIdxInv

set_option linter.unusedSectionVars false
set_option linter.unusedVariables false
set_option linter.unusedSimpArgs false
set_option mvcgen.warning false

namespace Lyon.SweepSafe
open Lyon Lyon.Scalar Lyon.Mono Lyon.Sweep Lyon.EQ
open Std.Do

variable {α : Type} [Scalar α] [Wide α]

/-- `Spec.throw_Except` of Lean 4.33 carries two unused instance arguments; `mvcgen` leaves them as
goals.  Any instance will do. -/
macro "fix_throw" : tactic => `(tactic| (
  any_goals (first | exact (Id : Type → Type) | fail)
  any_goals (first | exact PostShape.pure | fail)
  any_goals (first | infer_instance | fail)))

/-- every program in `Except` satisfies the trivial triple -/
theorem triv_spec {ε β : Type} (x : Except ε β) :
    ⦃⌜True⌝⦄ x ⦃post⟨fun _ => ⌜True⌝, fun _ => ⌜True⌝⟩⦄ := by
  cases x with
  | ok a =>
    have h : (Except.ok a : Except ε β) = pure a := rfl
    rw [h]; mvcgen
  | error e =>
    have h : (Except.error e : Except ε β) = throw e := rfl
    rw [h]; mvcgen
    fix_throw

/-- the two on-edge tests of `scan_active_edges` agree on an edge: when the first pass
(`edge_is_before_current_point`) says "touches the current point", the second pass
(`is_edge_connecting`) does not say "strictly to the right, not connecting".  Syntactically true
except for level edges (`from.y == to.y`), where it needs `¬ a < b → b ≤ a` and `|x - x| ≤ tol`. -/
def HorizAgree (t : α) : Prop :=
  ∀ (cur : P α) (e : ActiveEdge α), (edgeBefore cur t e).2 = true →
    isEdgeConnecting cur t e ≠ .ok (false, false)

theorem edgeBefore_snd {cur : P α} {t : α} {e : ActiveEdge α} (h : (edgeBefore cur t e).2 = true) :
    (edgeBefore cur t e).1 = false := by
  unfold edgeBefore at h ⊢
  split <;> try rfl
  all_goals (rename_i h1; simp only [h1, if_false] at h)
  split <;> try (simp_all; done)
  all_goals (rename_i h2; simp only [h2, if_false] at h)
  split <;> try rfl
  all_goals (rename_i h3; simp only [h3, if_false] at h)
  split <;> try rfl
  all_goals (rename_i h4; simp only [h4, if_false] at h)
  dsimp only at h ⊢
  split <;> try rfl
  all_goals (rename_i h5; simp only [h5, if_false] at h)
  split <;> simp_all

structure ScanOk (s : St α) (scan : Scan) : Prop where
  start_le : scan.aboveStart ≤ scan.aboveEnd
  end_le : scan.aboveEnd ≤ s.active.size
  split_lt : ∀ ei ∈ scan.edgesToSplit, ei < s.active.size
  merge_lt : scan.mergeEvent = true → scan.aboveStart < s.active.size
  merge_room : HorizAgree s.tolerance → scan.mergeEvent = true → scan.aboveStart < scan.aboveEnd
  split_pos : scan.splitEvent = true → 1 ≤ scan.aboveStart
  ends_inc : scan.spansToEnd.toList.Pairwise (· < ·)


/-- a program in `Except` returns what it returns -/
theorem self_spec {ε β : Type} (x : Except ε β) :
    ⦃⌜True⌝⦄ x ⦃post⟨fun r => ⌜x = .ok r⌝, fun _ => ⌜True⌝⟩⦄ := by
  cases x with
  | ok a =>
    have h : (Except.ok a : Except ε β) = pure a := rfl
    rw [h]; mvcgen
  | error e =>
    have h : (Except.error e : Except ε β) = throw e := rfl
    rw [h]; mvcgen
    fix_throw

/-- loop invariant of the first pass (edges before the current point); the loop state is
`(connecting, idx, w, prevWasMerge)` -/
def I1 (s : St α) (pref suff : List (ActiveEdge α)) (b : Bool × Nat × WindingState × Bool) : Prop :=
  b.2.1 ≤ pref.length ∧
  (suff ≠ [] → b.2.1 = pref.length ∧ b.1 = false) ∧
  (b.1 = true → ∃ e0, s.active[b.2.1]? = some e0 ∧ e0.isMerge = false ∧
      (edgeBefore s.curPos s.tolerance e0).2 = true) ∧
  (b.2.2.1.isIn = true → 1 ≤ b.2.1 ∧ (b.2.2.2 = true → 2 ≤ b.2.1)) ∧
  (b.2.2.2 = true → 1 ≤ b.2.1)

theorem getElem?_of_split {γ : Type} {a : Array γ} {p q : List γ} {c : γ} (h : a.toList = p ++ c :: q) :
    a[p.length]? = some c := by
  rw [← Array.getElem?_toList, h]
  simp

theorem size_of_split {γ : Type} {a : Array γ} {p q : List γ} {c : γ} (h : a.toList = p ++ c :: q) :
    a.size = p.length + 1 + q.length := by
  rw [← Array.length_toList, h]; simp; omega

variable {s : St α} {pref suff : List (ActiveEdge α)} {cur : ActiveEdge α}

theorem I1_init : I1 s [] s.active.toList (false, 0, WindingState.new, false) := by
  simp [I1, WindingState.new]

theorem I1_merge {b : Bool × Nat × WindingState × Bool} (h : s.active.toList = pref ++ cur :: suff)
    (hI : I1 s pref (cur :: suff) b) :
    I1 s (pref ++ [cur]) suff (b.1, b.2.1 + 1,
      { spanIndex := b.2.2.1.spanIndex + 1, number := b.2.2.1.number, isIn := b.2.2.1.isIn }, true) := by
  obtain ⟨h1, h2, h3, h4, h5⟩ := hI
  have h2' := h2 (by simp)
  refine ⟨by simp; omega, fun _ => ⟨by simp; omega, h2'.2⟩, ?_, ?_, ?_⟩
  · intro hc; simp [h2'.2] at hc
  · intro hin; have := h4 hin; dsimp only; omega
  · intro _; dsimp only; omega

theorem I1_step {b : Bool × Nat × WindingState × Bool} {w' : WindingState}
    (h : s.active.toList = pref ++ cur :: suff) (hI : I1 s pref (cur :: suff) b) :
    I1 s (pref ++ [cur]) suff (b.1, b.2.1 + 1, w', false) := by
  obtain ⟨h1, h2, h3, h4, h5⟩ := hI
  have h2' := h2 (by simp)
  refine ⟨by simp; omega, fun _ => ⟨by simp; omega, h2'.2⟩, ?_, ?_, ?_⟩
  · intro hc; simp [h2'.2] at hc
  · intro _; dsimp only; refine ⟨by omega, fun h => by cases h⟩
  · intro h; cases h

theorem I1_done {b : Bool × Nat × WindingState × Bool} (h : s.active.toList = pref ++ cur :: suff)
    (hI : I1 s pref (cur :: suff) b) : I1 s s.active.toList [] b := by
  obtain ⟨h1, h2, h3, h4, h5⟩ := hI
  have h2' := h2 (by simp)
  refine ⟨by rw [h]; simp; omega, fun h => absurd rfl h, ?_, h4, h5⟩
  intro hc; simp [h2'.2] at hc

theorem I1_done_conn {b : Bool × Nat × WindingState × Bool} (h : s.active.toList = pref ++ cur :: suff)
    (hm : ¬cur.isMerge = true) (hr : (edgeBefore s.curPos s.tolerance cur).2 = true)
    (hI : I1 s pref (cur :: suff) b) : I1 s s.active.toList [] (true, b.2.1, b.2.2.1, b.2.2.2) := by
  obtain ⟨h1, h2, h3, h4, h5⟩ := hI
  have h2' := h2 (by simp)
  refine ⟨by rw [h]; simp; omega, fun h => absurd rfl h, ?_, h4, h5⟩
  intro _
  refine ⟨cur, ?_, by simpa using hm, hr⟩
  dsimp only
  rw [h2'.1]
  exact getElem?_of_split h

theorem edgeBefore_absurd {Q : Prop} {c : P α} {t : α} {e : ActiveEdge α}
    (h2 : (edgeBefore c t e).2 = true) (h1 : ¬(!(edgeBefore c t e).1) = true) : Q := by
  have := edgeBefore_snd h2
  simp [this] at h1

/-- loop invariant of the second pass (connecting edges); the loop state is
`(idx, w, scan, firstConnecting)`; `idx0`, `pwm` are `idx` and `prevWasMerge` at loop entry -/
def I2 (s : St α) (idx0 : Nat) (pwm : Bool) (pref suff : List (ActiveEdge α))
    (b : Nat × WindingState × Scan × Bool) : Prop :=
  idx0 ≤ b.1 ∧ b.1 ≤ idx0 + pref.length ∧
  (suff ≠ [] → b.1 = idx0 + pref.length) ∧
  b.2.2.1.aboveStart = (if pwm then idx0 - 1 else idx0) ∧ b.2.2.1.mergeEvent = false ∧
  b.2.2.1.splitEvent = false ∧
  (∀ ei ∈ b.2.2.1.edgesToSplit, ei < s.active.size) ∧
  (b.2.2.2 = true → b.2.2.1.spansToEnd = #[]) ∧
  b.2.2.1.spansToEnd.toList.Pairwise (· < ·) ∧
  (∀ x ∈ b.2.2.1.spansToEnd, x ≤ b.2.1.spanIndex ∧ (b.2.1.isIn = true → x < b.2.1.spanIndex)) ∧
  (HorizAgree s.tolerance → pwm = false → pref ≠ [] → b.2.2.1.edgesToSplit ≠ #[] ∨ idx0 < b.1)

def inv2 (s : St α) (r : Bool × Nat × WindingState × Bool) :
    Invariant (s.active.extract r.2.1).toList (Nat × WindingState × Scan × Bool) (.except IErr .pure) :=
  post⟨fun c => ⌜I2 s r.2.1 r.2.2.2 c.1.prefix c.1.suffix c.2⌝, fun _ => ⌜True⌝⟩

theorem extract_split {idx0 : Nat} (h : (s.active.extract idx0).toList = pref ++ cur :: suff) :
    idx0 + pref.length < s.active.size ∧ s.active[idx0 + pref.length]? = some cur := by
  have h1 := getElem?_of_split h
  have h2 := size_of_split h
  simp only [Array.size_extract] at h2
  rw [Array.getElem?_extract] at h1
  split at h1
  · simp only [Nat.min_self] at h2
    exact ⟨by omega, h1⟩
  · cases h1

theorem I2_init {r : Bool × Nat × WindingState × Bool} {sc : Scan}
    (hI : I1 s s.active.toList [] r)
    (h1 : sc.aboveStart = (if r.2.2.2 then r.2.1 - 1 else r.2.1)) (h2 : sc.mergeEvent = false)
    (h3 : sc.splitEvent = false) (h4 : sc.edgesToSplit = #[]) (h5 : sc.spansToEnd = #[]) :
    I2 s r.2.1 r.2.2.2 [] (s.active.extract r.2.1).toList (r.2.1, r.2.2.1, sc, !r.2.2.2) := by
  refine ⟨Nat.le_refl _, by simp, fun _ => by simp, h1, h2, h3, ?_, fun _ => h5, ?_, ?_, ?_⟩
  · intro ei he; simp [h4] at he
  · simp [h5]
  · intro x hx; simp [h5] at hx
  · intro _ _ h; exact absurd rfl h

/-- a `yield` step of the second pass -/
theorem I2_yield {idx0 : Nat} {pwm : Bool} {b : Nat × WindingState × Scan × Bool} {w' : WindingState}
    {sc' : Scan} (h : (s.active.extract idx0).toList = pref ++ cur :: suff)
    (hI : I2 s idx0 pwm pref (cur :: suff) b)
    (ha : sc'.aboveStart = b.2.2.1.aboveStart) (hm : sc'.mergeEvent = b.2.2.1.mergeEvent)
    (hs : sc'.splitEvent = b.2.2.1.splitEvent)
    (he : sc'.edgesToSplit = b.2.2.1.edgesToSplit ∨ sc'.edgesToSplit = b.2.2.1.edgesToSplit.push b.1)
    (hw : w'.spanIndex = b.2.1.spanIndex + 1 ∨
          (w'.spanIndex = b.2.1.spanIndex ∧ w'.isIn = false))
    (hp : (sc'.spansToEnd = b.2.2.1.spansToEnd ∧ (b.2.2.2 = true ∨ b.2.1.isIn = false)) ∨
          (sc'.spansToEnd = b.2.2.1.spansToEnd.push b.2.1.spanIndex ∧ b.2.1.isIn = true)) :
    I2 s idx0 pwm (pref ++ [cur]) suff (b.1 + 1, w', sc', false) := by
  obtain ⟨i1, i2, i3, i4, i5, i6, i7, i8, i9, i10, i11⟩ := hI
  have i3' := i3 (by simp)
  have hx := extract_split h
  refine ⟨by dsimp only; omega, by simp; omega, fun _ => by simp; omega, ha.trans i4, hm.trans i5,
    hs.trans i6, ?_, (by intro h; simp at h), ?_, ?_, ?_⟩
  · intro ei hei
    rcases he with he | he
    · exact i7 ei (he ▸ hei)
    · rw [he] at hei
      rcases Array.mem_push.mp hei with h' | h'
      · exact i7 ei h'
      · rw [h', i3']; exact hx.1
  · rcases hp with ⟨hp, _⟩ | ⟨hp, hin⟩
    · rw [hp]; exact i9
    · rw [hp, Array.toList_push, List.pairwise_append]
      refine ⟨i9, by simp, ?_⟩
      intro x hx y hy
      simp only [List.mem_singleton] at hy
      rw [hy]
      exact (i10 x (Array.mem_toList_iff.mp hx)).2 hin
  · intro x hx
    dsimp only
    rcases hp with ⟨hp, hor⟩ | ⟨hp, hin⟩
    · rw [hp] at hx
      have := i10 x hx
      rcases hor with hfc | hout
      · rw [i8 hfc] at hx; simp at hx
      · rcases hw with hw | ⟨hw, hwi⟩
        · exact ⟨by omega, fun _ => by omega⟩
        · exact ⟨by omega, fun hh => by simp [hwi] at hh⟩
    · rw [hp] at hx
      rcases Array.mem_push.mp hx with h' | h'
      · have := i10 x h'
        have := this.2 hin
        rcases hw with hw | ⟨hw, hwi⟩
        · exact ⟨by omega, fun _ => by omega⟩
        · exact ⟨by omega, fun hh => by simp [hwi] at hh⟩
      · rcases hw with hw | ⟨hw, hwi⟩
        · exact ⟨by omega, fun _ => by omega⟩
        · exact ⟨by omega, fun hh => by simp [hwi] at hh⟩
  · intro _ _ _; right; dsimp only; omega

theorem update_spanIndex (w : WindingState) (rule : Slab.Rule) (k : Int) :
    (w.update rule k).spanIndex = w.spanIndex + 1 ∨
      ((w.update rule k).spanIndex = w.spanIndex ∧ (w.update rule k).isIn = false) := by
  unfold WindingState.update
  dsimp only
  by_cases h : rule.isIn (w.number + k) = true
  · left; simp [h]
  · right; simp [h]

/-- a `break` of the second pass -/
theorem I2_done {idx0 : Nat} {pwm : Bool} {b : Nat × WindingState × Scan × Bool} {sc' : Scan}
    (h : (s.active.extract idx0).toList = pref ++ cur :: suff)
    (hI : I2 s idx0 pwm pref (cur :: suff) b)
    (ha : sc'.aboveStart = b.2.2.1.aboveStart) (hm : sc'.mergeEvent = b.2.2.1.mergeEvent)
    (hs : sc'.splitEvent = b.2.2.1.splitEvent) (hp : sc'.spansToEnd = b.2.2.1.spansToEnd)
    (he : (sc'.edgesToSplit = b.2.2.1.edgesToSplit ∧
            (HorizAgree s.tolerance → pwm = false → pref = [] → False)) ∨
          sc'.edgesToSplit = b.2.2.1.edgesToSplit.push b.1) :
    I2 s idx0 pwm (s.active.extract idx0).toList [] (b.1, b.2.1, sc', b.2.2.2) := by
  obtain ⟨i1, i2, i3, i4, i5, i6, i7, i8, i9, i10, i11⟩ := hI
  have i3' := i3 (by simp)
  have hx := extract_split h
  refine ⟨i1, by rw [h]; simp; omega, fun h => absurd rfl h, ha.trans i4, hm.trans i5,
    hs.trans i6, ?_, fun h => by rw [hp]; exact i8 h, by rw [hp]; exact i9, by rw [hp]; exact i10, ?_⟩
  · intro ei hei
    rcases he with ⟨he, _⟩ | he
    · exact i7 ei (he ▸ hei)
    · rw [he] at hei
      rcases Array.mem_push.mp hei with h' | h'
      · exact i7 ei h'
      · rw [h', i3']; exact hx.1
  · intro hH hpw _
    rcases he with ⟨he, hz⟩ | he
    · by_cases hp0 : pref = []
      · exact (hz hH hpw hp0).elim
      · rw [he]; exact i11 hH hpw hp0
    · left; rw [he]; simp

/-- the first connecting edge is the one the first pass stopped at -/
theorem first_connecting_absurd {r : Bool × Nat × WindingState × Bool} {c : Bool × Bool}
    (hI1 : I1 s s.active.toList [] r) (hconn : r.1 = true)
    (h : (s.active.extract r.2.1).toList = pref ++ cur :: suff)
    (hc : isEdgeConnecting s.curPos s.tolerance cur = .ok c) (h1 : (!c.1) = true) (h2 : ¬c.2 = true) :
    HorizAgree s.tolerance → r.2.2.2 = false → pref = [] → False := by
  intro hH _ hp
  obtain ⟨e0, he0, _, hb⟩ := hI1.2.2.1 hconn
  have hx := (extract_split h).2
  rw [hp] at hx
  simp only [List.length_nil, Nat.add_zero] at hx
  rw [he0] at hx
  rw [← Option.some.inj hx] at hc
  apply hH s.curPos e0 hb
  rw [hc]
  have : c = (false, false) := by
    rcases c with ⟨c1, c2⟩
    simp at h1 h2
    simp [h1, h2]
  rw [this]

theorem ScanOk_of_I1 {r : Bool × Nat × WindingState × Bool} {sc : Scan}
    (hI : I1 s s.active.toList [] r)
    (h1 : sc.aboveStart = (if r.2.2.2 then r.2.1 - 1 else r.2.1)) (h2 : sc.aboveEnd = r.2.1)
    (h3 : sc.mergeEvent = false) (h4 : sc.splitEvent = true → r.2.2.1.isIn = true)
    (h5 : sc.edgesToSplit = #[]) (h6 : sc.spansToEnd = #[]) : ScanOk s sc := by
  obtain ⟨i1, i2, i3, i4, i5⟩ := hI
  simp only [Array.length_toList] at i1
  refine ⟨?_, by omega, ?_, ?_, ?_, ?_, by simp [h6]⟩
  · rw [h1, h2]; split <;> omega
  · intro ei he; simp [h5] at he
  · intro h; simp [h3] at h
  · intro _ h; simp [h3] at h
  · intro h
    have := i4 (h4 h)
    rw [h1]
    split
    · have := this.2 (by assumption); omega
    · omega

theorem ScanOk_of_I2 {r : Bool × Nat × WindingState × Bool} {b : Nat × WindingState × Scan × Bool}
    {sc : Scan} (hI1 : I1 s s.active.toList [] r)
    (hI2 : I2 s r.2.1 r.2.2.2 (s.active.extract r.2.1).toList [] b)
    (h1 : sc.aboveStart = b.2.2.1.aboveStart) (h2 : sc.aboveEnd = b.1)
    (h3' : sc.mergeEvent = b.2.2.1.mergeEvent ∨ (r.1 = true ∧ b.2.2.1.edgesToSplit.isEmpty = true))
    (h4 : sc.splitEvent = b.2.2.1.splitEvent)
    (h5 : sc.edgesToSplit = b.2.2.1.edgesToSplit) (h6 : sc.spansToEnd = b.2.2.1.spansToEnd) :
    ScanOk s sc := by
  obtain ⟨j1, j2, j3, j4, j5⟩ := hI1
  obtain ⟨i1, i2, i3, i4, i5, i6, i7, i8, i9, i10, i11⟩ := hI2
  have h3 : sc.mergeEvent = true → r.1 = true ∧ b.2.2.1.edgesToSplit.isEmpty = true := by
    intro h
    rcases h3' with h' | h'
    · rw [h', i5] at h; cases h
    · exact h'
  simp only [Array.length_toList] at j1
  simp only [Array.length_toList, Array.size_extract, Nat.min_self] at i2
  have hstart : sc.aboveStart ≤ r.2.1 := by rw [h1, i4]; split <;> omega
  refine ⟨by omega, by omega, fun ei he => i7 ei (h5 ▸ he), ?_, ?_, ?_, h6 ▸ i9⟩
  · intro h
    obtain ⟨e0, he0, _⟩ := j3 (h3 h).1
    have : r.2.1 < s.active.size := by
      rcases Array.getElem?_eq_some_iff.mp he0 with ⟨hh, _⟩; exact hh
    omega
  · intro hH h
    have hc := h3 h
    rw [h1, i4, h2]
    by_cases hp : r.2.2.2 = true
    · simp only [hp, if_true]
      have := j5 hp
      omega
    · simp only [hp]
      obtain ⟨e0, he0, _⟩ := j3 hc.1
      have hlt : r.2.1 < s.active.size := by
        rcases Array.getElem?_eq_some_iff.mp he0 with ⟨hh, _⟩; exact hh
      have hne : (s.active.extract r.2.1).toList ≠ [] := by
        intro h0
        have := congrArg List.length h0
        simp at this
        omega
      rcases i11 hH (by simpa using hp) hne with h' | h'
      · exact absurd (by simpa using hc.2) h'
      · simpa using h'
  · intro h; rw [h4, i6] at h; cases h

theorem ite_eq_of_true {p : Bool} {a b : Nat} (h : p = true) : a = (if p then a else b) := by simp [h]
theorem ite_eq_of_false {p : Bool} {a b : Nat} (h : ¬p = true) : b = (if p then a else b) := by simp [h]
theorem and2_right {a b : Bool} (h : (!a && b) = true) : b = true := by simp at h; exact h.2
theorem not_and2 {a b : Bool} (h : ¬(!a && b) = true) : a = true ∨ b = false := by
  cases a <;> cases b <;> simp at h ⊢
theorem and3_mid {a b c : Bool} (h : (a && b && c) = true) : b = true := by simp at h; exact h.1.2
theorem and4_last {a b c d : Bool} (h : (a && b && c && d) = true) : d = true := by simp at h; exact h.2
theorem of_not_not_true {a : Bool} (h : ¬(!a) = true) : a = true := by simpa using h
theorem conn_false {a b c : Bool} (h : a = true) : (!a && b && c) = false := by simp [h]

theorem scanActiveEdges_spec (s : St α) :
    ⦃⌜True⌝⦄ (scanActiveEdges s : Except IErr Scan)
    ⦃post⟨fun scan => ⌜ScanOk s scan⌝, fun _ => ⌜True⌝⟩⦄ := by
  unfold scanActiveEdges
  strip_mdata
  have h1 := fun (cur : P α) (edges : Array (ActiveEdge α)) (start : Nat) =>
    triv_spec (checkRemainingEdges cur edges start)
  have h2 := fun (cur : P α) (t : α) (e : ActiveEdge α) => self_spec (isEdgeConnecting cur t e)
  mvcgen [h1, h2]
  fix_throw
  case inv1 => exact post⟨fun r => ⌜I1 s r.1.prefix r.1.suffix r.2⌝, fun _ => ⌜True⌝⟩
  case inv2 => exact inv2 s (by assumption)
  case inv3 => exact inv2 s (by assumption)
  case inv4 => exact inv2 s (by assumption)
  all_goals (clear h1 h2)
  all_goals first
    | trivial
    | exact I1_init
    | exact I1_merge (by assumption) (by assumption)
    | exact I1_done_conn (by assumption) (by assumption) (by assumption) (by assumption)
    | exact edgeBefore_absurd (by assumption) (by assumption)
    | exact I1_done (by assumption) (by assumption)
    | exact I1_step (by assumption) (by assumption)
    -- second pass, merge edge
    | exact I2_yield (by assumption) (by assumption) rfl rfl rfl (Or.inl rfl) (Or.inl rfl)
        (Or.inr ⟨rfl, of_not_not_true (by assumption)⟩)
    -- second pass, `yield`
    | exact I2_yield (by assumption) (by assumption) rfl rfl rfl (Or.inl rfl) (update_spanIndex _ _ _)
        (Or.inr ⟨rfl, and2_right (by assumption)⟩)
    | exact I2_yield (by assumption) (by assumption) rfl rfl rfl (Or.inr rfl) (update_spanIndex _ _ _)
        (Or.inr ⟨rfl, and2_right (by assumption)⟩)
    | exact I2_yield (by assumption) (by assumption) rfl rfl rfl (Or.inl rfl) (update_spanIndex _ _ _)
        (Or.inl ⟨rfl, not_and2 (by assumption)⟩)
    | exact I2_yield (by assumption) (by assumption) rfl rfl rfl (Or.inr rfl) (update_spanIndex _ _ _)
        (Or.inl ⟨rfl, not_and2 (by assumption)⟩)
    -- second pass, `break`
    | exact I2_done (by assumption) (by assumption) rfl rfl rfl rfl (Or.inr rfl)
    | exact I2_done (by assumption) (by assumption) rfl rfl rfl rfl
        (Or.inl ⟨rfl, first_connecting_absurd (by assumption) (by assumption) (by assumption)
          (by assumption) (by assumption) (by assumption)⟩)
    -- entry of the second pass
    | exact I2_init (by assumption) (ite_eq_of_true (by assumption)) rfl (conn_false (by assumption)) rfl rfl
    | exact I2_init (by assumption) (ite_eq_of_false (by assumption)) rfl (conn_false (by assumption)) rfl rfl
    -- results
    | exact ScanOk_of_I2 (by assumption) (by assumption) rfl rfl (Or.inl rfl) rfl rfl rfl
    | exact ScanOk_of_I2 (by assumption) (by assumption) rfl rfl
        (Or.inr ⟨by assumption, and4_last (by assumption)⟩) rfl rfl rfl
    | exact ScanOk_of_I1 (by assumption) (ite_eq_of_true (by assumption)) rfl rfl
        (fun h => and3_mid h) rfl rfl
    | exact ScanOk_of_I1 (by assumption) (ite_eq_of_false (by assumption)) rfl rfl
        (fun h => and3_mid h) rfl rfl
    | skip

end Lyon.SweepSafe
